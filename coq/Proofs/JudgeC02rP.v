(* The judgement Check/C02r.v (stage "reactions" of C02) against the model's own runs.
   HISTORY: the first version of the judgement REJECTED the model's own run on [rf_case] below, a case of exactly the form
   its generator (react_cases in C02.py) produces (clause 1: the escape for an entity that is given and loses a context
   within one step existed only for entities that held it at the start of the step).  Check/C02r.v was repaired (the
   absent-before entity that a reaction can give the context to and another can take it from is judged like a joiner);
   [rf_case] is now accepted, and Proofs/JudgeC02rWideP.v proves soundness for every case react_cases can generate. *)
From Coq Require Import ZArith QArith List Bool Lia Permutation.
From BEI Require Import Model.Frame Model.React Spec.Events Spec.Episode Proofs.RegistryP Proofs.ReactP
  Proofs.TrackDefs Proofs.TrackFrameP Proofs.TrackOpP Proofs.TrackP Proofs.TrackReactP Proofs.JudgeC07P Proofs.JudgeC02P Check.App.
From BEI Require Check.C02r.
Import ListNotations.
Open Scope Z_scope.

Definition model_r (c : C02r.rcase) : trace_t :=
  match c with C02r.reacting rs sc => trace (C02r.run_steps_r sc rs world_init (s_steps sc)) end.

(* the two actions make_cfg gives context type 3 (scripts cycling through None / Ongoing / Fired) *)
Definition rf_spec : inst_spec := mkSpec None
  [mkAction 56 [] [(1, c_script KExplicit [SFired; SOngoing; SOngoing; SNone; SFired; SNone; SNone; SOngoing])] [];
   mkAction 4 [] [(2, c_script KExplicit [SOngoing; SNone; SFired; SNone; SNone; SOngoing; SNone; SNone])] []].
Definition rf_frame (dt : Q) : step := SFrame (mkFrame dt 1 false 0 (mkRaw [] [] (0%Q, 0%Q) (0%Q, 0%Q) [] []) []).
Definition rf_sc : scenario := mkScenario [3] [0; 1] [((3, 0), rf_spec); ((3, 1), rf_spec)]
  [SOp (OSpawn 0 [3]); SOp (OSpawn 1 [3]); rf_frame (1#8); rf_frame (1#128); rf_frame 0; rf_frame (1#8); rf_frame (1#256); rf_frame (1#64)].
(* entity 0 is removed from the shared context in the first frame (reaction to Started of 56 at entity 1); in the second
   frame a reaction to Ongoing of 56 re-inserts it - it joins the live instance, 56 in the middle of an episode -
   and a reaction to Canceled of 4, delivered later in the same frame, removes it again: the removal closes the episode
   for entity 0, which receives Canceled of 56 *)
Definition rf_rs : list reaction :=
  [mkReact 56 EStarted 1 (ORemove 0 3); mkReact 56 EOngoing 1 (OInsert 0 3); mkReact 4 ECanceled 1 (ORemove 0 3)].
Definition rf_case : C02r.rcase := C02r.reacting rf_rs rf_sc.
Definition ev_view (l : list event) := map (fun ev => (e_target ev, e_action ev, e_kind ev)) l.

(* entity 0 holds the context neither before nor after the second frame and nothing is built, yet it held it in between and
   was properly closed: the repaired judgement accepts the model's run (the first version answered clause 1) *)
Example C02r_app_judgement_accepts_rf : C02r.ok (rf_case, model_r rf_case) = 0.
Proof. vm_compute. reflexivity. Qed.
Example C02r_app_judgement_accepts_rf_detail :
  C02r.agree (rf_case, model_r rf_case) = true /\ C02r.ok (rf_case, model_r rf_case) = 0 /\
  match model_r rf_case with
  | trace outs => option_map (fun o => (ev_view (x_main o), x_mirror o, x_built o)) (nth_error outs 3)
  | panic => None
  end = Some ([(1, 56, EOngoing); (1, 4, ECanceled); (0, 56, ECanceled)], [mi 3 0 false false; mi 3 1 true true], []).
Proof. vm_compute. repeat split. Qed.

(* REGRESSION: clause 1 keeps its meaning.  (a) entity 1 is never spawned and no reaction can give it the context: a
   terminal event delivered to it in a frame is rejected; (b) in [rf_case] itself, where the escape applies to entity 0,
   a Started delivered to entity 0 in a later frame (it holds nothing then) is rejected *)
Definition inject (k : nat) (ev : event) (t : trace_t) : trace_t :=
  match t with
  | trace outs => trace (firstn k outs ++ match skipn k outs with
                                          | o :: r => mkOut (x_pre o) (x_main o ++ [ev]) (x_post o) (x_log o) (x_snaps o) (x_mirror o) (x_built o)
                                                            (x_probe o) (x_update o) (x_panicked o) :: r
                                          | [] => [] end)
  | panic => panic
  end.
Definition rg_sc : scenario := mkScenario [3] [0; 1] [((3, 0), rf_spec); ((3, 1), rf_spec)]
  [SOp (OSpawn 0 [3]); rf_frame (1#8); rf_frame (1#128); rf_frame 0].
Definition rg_case : C02r.rcase := C02r.reacting [mkReact 56 EOngoing 0 (ORemove 0 3); mkReact 4 ECanceled (-1) (ODespawn 1)] rg_sc.
Definition stray (e a : Z) (k : evkind) : event := mkEv e a k (vzero (aid_dim a)) SNone None None.
Example C02r_regression_clause1 :
  C02r.ok (rg_case, model_r rg_case) = 0 /\
  C02r.ok (rg_case, inject 2 (stray 1 56 ECanceled) (model_r rg_case)) = 1 /\
  C02r.ok (rf_case, inject 4 (stray 0 56 EStarted) (model_r rf_case)) = 1.
Proof. vm_compute. repeat split. Qed.

(* ================================================================================================ *)
(* SOUNDNESS ON A SUB-PROFILE: no reaction gives a context to an entity (every reaction requests remove, despawn
   or rebuild) and the frames carry no operations of their own (as in every case react_cases generates).          *)
(* ================================================================================================ *)
Definition dopb (o : op) : bool := match o with ORemove _ _ | ODespawn _ | ORebuild => true | _ => false end.

Lemma dop_no_join o c e : dopb o = true -> joins o c e = false.
Proof. destruct o; cbn; intros H; try discriminate; reflexivity. Qed.
Lemma dop_ok sc o : dopb o = true -> op_okb sc o = true.
Proof. destruct o; cbn; intros H; try discriminate; reflexivity. Qed.

Section OneDop.
Variables (sc : scenario) (c : ctx) (e : entity) (a : aid) (w : world) (o : op) (oo : op_out).
Hypotheses (Hinv : reg_inv sc w) (Hcfg : cfg_inv sc (w_reg w)) (Ho : owner sc c a) (Hop : apply_op sc w o = Some oo) (Hd : dopb o = true).

(* absent stays absent and receives nothing *)
Lemma dop_absent : reg_get c e (w_reg w) = None -> ev_of e a (oo_events oo) = [] /\ reg_get c e (w_reg (oo_world oo)) = None.
Proof.
  intros Hg. destruct (track_op sc c e a w o oo Hinv Hcfg Ho Hop) as [_ T]. cbv zeta in T. rewrite (stored_get_none _ _ _ _ Hg) in T.
  split; [exact (proj1 T)|]. destruct (deactivates o c e) eqn:Ed.
  - destruct (is_rebuild o) eqn:Er; [|exact (deact_gone sc w o oo c e Hinv Hop Ed Er)].
    destruct o; cbn in Er; try discriminate.
    change (fold_left (rebuild_f sc) (s_menu sc) (Some (mkOpOut w [] [])) = Some oo) in Hop.
    pose proof (rebuild_fold_holds sc _ _ _ Hop) as Hh. cbn [oo_world] in Hh.
    destruct (apply_op_inv sc w ORebuild Hinv) as (r0 & Hr0 & Hinv'). change (apply_op sc w ORebuild) with (fold_left (rebuild_f sc) (s_menu sc) (Some (mkOpOut w [] []))) in Hr0.
    rewrite Hop in Hr0. injection Hr0 as <-. apply (mirror_none sc _ c e Hinv'). rewrite Hh. intros Hx.
    destruct Hinv as (_ & _ & _ & Hm & _). apply Hm in Hx. congruence.
  - rewrite (quiet_op_get sc c e a w o oo Hinv Hcfg Ho Hop Ed (dop_no_join o c e Hd)). exact Hg.
Qed.
(* an episode at rest stays at rest *)
Lemma dop_idle : open_of (stored (w_reg w) c e a) = 0 -> open_of (stored (w_reg (oo_world oo)) c e a) = 0.
Proof.
  intros H0. destruct (track_op sc c e a w o oo Hinv Hcfg Ho Hop) as [_ T]. cbv zeta in T.
  destruct (stored (w_reg w) c e a) as [d|] eqn:Es.
  - destruct (deactivates o c e).
    + destruct T as (_ & _ & [-> | ->]); [reflexivity | apply open_of_data_new].
    + destruct T as [_ ->]. exact H0.
  - destruct T as [_ T]. destruct (stored (w_reg (oo_world oo)) c e a) as [d'|] eqn:Es'; [|reflexivity].
    destruct (T d' eq_refl) as [[_ ->]|[Hde [-> |_]]]; [apply open_of_data_new | apply open_of_data_new|].
    exfalso. pose proof (quiet_op_get sc c e a w o oo Hinv Hcfg Ho Hop Hde (dop_no_join o c e Hd)) as Hg.
    rewrite (stored_get_eq _ _ c e a Hg) in Es'. congruence.
Qed.
(* only a rebuild builds, and a rebuild leaves every episode at rest *)
Lemma dop_built : oo_built oo <> [] -> open_of (stored (w_reg (oo_world oo)) c e a) = 0.
Proof.
  intros Hb. destruct o as [e' cs|e' c'|e' c'|e'|]; cbn in Hd; try discriminate.
  - exfalso. apply Hb. cbn [apply_op] in Hop. exact (proj2 (remove_shrink sc w e' c' oo Hinv Hop)).
  - exfalso. apply Hb. cbn [apply_op] in Hop. destruct (holds_of e' (w_holds w)); [|injection Hop as <-; reflexivity].
    destruct (fold_left _ _ _); [|discriminate]. injection Hop as <-. reflexivity.
  - destruct (track_op sc c e a w ORebuild oo Hinv Hcfg Ho Hop) as [_ T]. cbv zeta in T. cbn [deactivates] in T.
    destruct (stored (w_reg w) c e a) as [d|].
    + destruct T as (_ & _ & [-> | ->]); [reflexivity | apply open_of_data_new].
    + destruct T as [_ T]. destruct (stored (w_reg (oo_world oo)) c e a) as [d'|] eqn:Es'; [|reflexivity].
      destruct (T d' eq_refl) as [[_ ->]|[Hde _]]; [apply open_of_data_new | discriminate].
Qed.
End OneDop.

Lemma touched_nonempty bl c e : touched bl c e -> bl <> [].
Proof. unfold touched. destruct (ctx_shared c); [intros (e0 & H) | intros H]; intros ->; destruct H. Qed.
Lemma touched_app b1 b2 c e : touched (b1 ++ b2) c e -> touched b1 c e \/ touched b2 c e.
Proof.
  unfold touched. destruct (ctx_shared c).
  - intros (e0 & H). apply in_app_or in H. destruct H as [H|H]; [left | right]; exists e0; exact H.
  - intros H. apply in_app_or in H. exact H.
Qed.

(* a run of deactivating operations, seen by one (context, entity, action) *)
Lemma dops_sum sc c e a : owner sc c a -> forall ops w oo,
  reg_inv sc w -> cfg_inv sc (w_reg w) -> forallb dopb ops = true -> run_ops sc w ops = Some oo ->
  (reg_get c e (w_reg w) = None -> ev_of e a (oo_events oo) = [] /\ reg_get c e (w_reg (oo_world oo)) = None) /\
  (open_of (stored (w_reg w) c e a) = 0 -> open_of (stored (w_reg (oo_world oo)) c e a) = 0) /\
  (touched (oo_built oo) c e -> open_of (stored (w_reg (oo_world oo)) c e a) = 0) /\
  open_of (stored (w_reg w) c e a) + balance e a (oo_events oo) = open_of (stored (w_reg (oo_world oo)) c e a).
Proof.
  intros Ho ops. induction ops as [|o ops IH]; intros w oo Hinv Hcfg Hd Hr.
  - rewrite run_ops_nil in Hr. injection Hr as <-. cbn [oo_world oo_events oo_built]. rewrite balance_nil.
    split; [intros H; split; [reflexivity | exact H]|]. split; [trivial|]. split; [|lia].
    intros Ht. exfalso. exact (touched_nonempty _ _ _ Ht eq_refl).
  - cbn [forallb] in Hd. apply andb_true_iff in Hd. destruct Hd as [Hd1 Hd]. rewrite run_ops_cons in Hr.
    destruct (apply_op sc w o) as [r|] eqn:Ea; [|discriminate].
    destruct (apply_op_inv sc w o Hinv) as (r0 & Hr0 & Hinv1). rewrite Ea in Hr0. injection Hr0 as <-.
    pose proof (proj1 (track_op sc c e a w o r Hinv Hcfg Ho Ea)) as Hcfg1. cbv zeta in Hcfg1.
    destruct (run_ops sc (oo_world r) ops) as [o2|] eqn:E2; [|discriminate]. cbn [option_map] in Hr. injection Hr as <-.
    destruct (IH (oo_world r) o2 Hinv1 Hcfg1 Hd E2) as (I1 & I2 & I3 & I4).
    unfold prefix_out. cbn [oo_world oo_events oo_built]. split; [|split; [|split]].
    + intros Hg. destruct (dop_absent sc c e a w o r Hinv Hcfg Ho Ea Hd1 Hg) as [A1 A2]. destruct (I1 A2) as [B1 B2].
      split; [rewrite TrackOpP.ev_of_app, A1, B1; reflexivity | exact B2].
    + intros H0. apply I2. exact (dop_idle sc c e a w o r Hinv Hcfg Ho Ea Hd1 H0).
    + intros Ht. apply touched_app in Ht. destruct Ht as [Ht|Ht]; [|exact (I3 Ht)].
      apply I2. apply (dop_built sc c e a w o r Hinv Hcfg Ho Ea Hd1). exact (touched_nonempty _ _ _ Ht).
    + rewrite balance_app.
      assert (Hj : join_free_at c e a (w_reg w) (w_reg (oo_world r))).
      { apply (join_free_static sc c e a w o r Hinv Hcfg Ho Ea). right. exact (dop_no_join o c e Hd1). }
      pose proof (op_balance sc c e a w o r Hinv Hcfg Ho Ea Hj) as Hb. lia.
Qed.

(* ---- the judgement of one entry over one step ---- *)
Definition aopen (ac : acc) : Z := match ac with Idle => 0 | Open _ => 1 end.
Definition open_snap (c e a : Z) (o : out) : Z :=
  match snap_of_entry c e a (x_snaps o) with Some s => if state_eqb (sn_state s) SNone then 0 else 1 | None => 0 end.
Lemma open_snap_fresh c e a o : open_snap c e a o = aopen (fresh_of c e a o).
Proof. unfold open_snap, fresh_of. destruct (snap_of_entry c e a (x_snaps o)) as [s|]; [|reflexivity]. destruct (sn_state s); reflexivity. Qed.
Lemma open_of_acc r c e a : open_of (stored r c e a) = aopen (acc_at r c e a).
Proof. unfold open_of, acc_at. destruct (stored r c e a) as [d|]; [|reflexivity]. destruct (d_state d); reflexivity. Qed.

Definition rinv (r : registry) (c e a : Z) (st : option Z) : Prop :=
  match st with
  | None => reg_get c e r = None
  | Some op => reg_get c e r <> None /\ op = open_of (stored r c e a)
  end.

Record ssum (c e a : Z) (r r' : registry) (E : list event) (bl : list (ctx * entity)) : Prop := mkSsum {
  ss_none : reg_get c e r = None -> ev_of e a E = [];
  ss_bal : reg_get c e r <> None -> open_of (stored r c e a) + balance e a E = open_of (stored r' c e a);
  ss_touch : reg_get c e r <> None -> touched bl c e -> open_of (stored r' c e a) = 0 }.

Lemma fin_state c e a r' o : obs c e a r' o ->
  rinv r' c e a (if C02c.present c e o then Some (open_snap c e a o) else None).
Proof.
  intros [O1 O2 _]. rewrite O1. destruct (reg_get c e r') as [i|] eqn:Eg; cbn [rinv].
  - split; [congruence|]. rewrite open_snap_fresh, O2 by discriminate. symmetry. apply open_of_acc.
  - exact Eg.
Qed.

Lemma judge_r_ok rejoin retake before o c e a r r' st :
  obs c e a r' o -> ssum c e a r r' (x_pre o ++ x_main o ++ x_post o) (x_built o) -> rinv r c e a st ->
  fst (C02r.judge_entry rejoin retake before o (c, e, a) st) = 0 /\
  rinv r' c e a (snd (C02r.judge_entry rejoin retake before o (c, e, a) st)).
Proof.
  intros Hobs [S1 S2 S3] Hst. pose proof (fin_state c e a r' o Hobs) as Hfin. destruct Hobs as [O1 O2 O3].
  unfold C02r.judge_entry. cbv beta iota zeta.
  change (C02r.present c e o) with (C02c.present c e o).
  change (if ctx_shared c then C02r.built_ctx c o else C02r.built_has c e o) with (rebuilt_of c e o).
  change (events_for e a (x_pre o ++ x_main o ++ x_post o)) with (ev_of e a (x_pre o ++ x_main o ++ x_post o)).
  change (match snap_of_entry c e a (x_snaps o) with Some s => if state_eqb (sn_state s) SNone then 0 else 1 | None => 0 end) with (open_snap c e a o).
  destruct st as [op|]; cbn [rinv] in Hst.
  - destruct Hst as [Hg ->].
    assert (Hb : open_of (stored r c e a) + C02r.count C02r.is_started (ev_of e a (x_pre o ++ x_main o ++ x_post o))
                 - C02r.count C02r.is_terminal (ev_of e a (x_pre o ++ x_main o ++ x_post o)) = open_of (stored r' c e a)).
    { pose proof (S2 Hg) as H. unfold balance in H.
      change (C02r.count C02r.is_started (ev_of e a (x_pre o ++ x_main o ++ x_post o))) with (cnt is_started (ev_of e a (x_pre o ++ x_main o ++ x_post o))).
      change (C02r.count C02r.is_terminal (ev_of e a (x_pre o ++ x_main o ++ x_post o))) with (cnt is_terminal (ev_of e a (x_pre o ++ x_main o ++ x_post o))). lia. }
    rewrite Hb. destruct (rejoin c e); [cbn [fst snd]; split; [reflexivity | exact Hfin]|].
    pose proof (open_of_range (stored r' c e a)) as Hr.
    assert (H01 : negb (Z.eqb (open_of (stored r' c e a)) 0 || Z.eqb (open_of (stored r' c e a)) 1) = false).
    { destruct (Z.eqb_spec (open_of (stored r' c e a)) 0); [reflexivity|]. destruct (Z.eqb_spec (open_of (stored r' c e a)) 1); [reflexivity | lia]. }
    rewrite H01.
    assert (H4 : (negb (C02c.present c e o) || rebuilt_of c e o) && negb (Z.eqb (open_of (stored r' c e a)) 0) = false).
    { rewrite O1. destruct (reg_get c e r') as [i'|] eqn:Eg'.
      - cbn [negb orb]. destruct (rebuilt_of c e o) eqn:Er; [|reflexivity]. rewrite (S3 Hg (proj1 O3 eq_refl)). reflexivity.
      - rewrite (stored_get_none _ _ _ _ Eg'). reflexivity. }
    rewrite H4. cbn [fst snd]. split; [reflexivity | exact Hfin].
  - rewrite (S1 Hst). change (C02r.count C02r.is_started []) with 0. cbn [Z.eqb].
    destruct (C02c.present c e o); cbn [orb fst snd]; [split; [reflexivity | exact Hfin]|].
    destruct (rebuilt_of c e o); cbn [orb fst snd]; [split; [reflexivity | exact Hfin]|].
    destruct (rejoin c e && retake c e); cbn [fst snd]; split; try reflexivity; exact Hfin.
Qed.


(* ---- the model's output of one step with reactions ---- *)
Definition step_res_r (sc : scenario) (armed : list reaction) (w : world) (st : step) : option (world * out * list reaction) :=
  match st with
  | SOp o => match op_r sc armed w o with
             | Some d => Some (dv_world d, mkOut [] (dv_events d) [] [] (model_snaps sc (dv_world d)) (model_mirror sc (dv_world d)) (dv_built d) true true false,
                               dv_armed d)
             | None => None
             end
  | SFrame f => match frame_r sc armed w f with
                | Some fo => Some (fr_world fo, mkOut [] (fr_main fo) (fr_post fo) (fr_log fo) (model_snaps sc (fr_world fo)) (model_mirror sc (fr_world fo))
                                                     (fr_built fo) true true false, fr_armed fo)
                | None => None
                end
  end.
Lemma run_steps_r_cons sc armed w st r :
  C02r.run_steps_r sc armed w (st :: r) =
  match step_res_r sc armed w st with Some (w', o, armed') => o :: C02r.run_steps_r sc armed' w' r | None => [panic_out] end.
Proof.
  destruct st as [o|f]; cbn [C02r.run_steps_r step_res_r].
  - destruct (op_r sc armed w o); reflexivity.
  - destruct (frame_r sc armed w f); reflexivity.
Qed.
Lemma step_res_r_total sc armed w st : reg_inv sc w -> exists w' o armed', step_res_r sc armed w st = Some (w', o, armed') /\ shows sc w' o.
Proof.
  intros Hinv. destruct (step_r_total sc armed w st Hinv) as (r & Hr & _). destruct st as [o|f]; cbn [step_r step_res_r] in *.
  - destruct (op_r sc armed w o) as [d|]; [|discriminate]. do 3 eexists. split; [reflexivity | repeat split].
  - destruct (frame_r sc armed w f) as [fo|]; [|discriminate]. do 3 eexists. split; [reflexivity | repeat split].
Qed.

Definition dops_armed (armed : list reaction) : Prop := Forall (fun r => dopb (r_op r) = true) armed.
Lemma dops_armed_rest armed fired rest : dops_armed armed -> Permutation armed (fired ++ rest) -> dops_armed fired /\ dops_armed rest.
Proof.
  unfold dops_armed. rewrite !Forall_forall. intros H P. split; intros r Hr; apply H; apply (Permutation_in _ (Permutation_sym P)); apply in_or_app; [left | right]; exact Hr.
Qed.
Lemma dops_fired fired : dops_armed fired -> forallb dopb (map r_op fired) = true.
Proof. unfold dops_armed. rewrite Forall_forall. intros H. apply forallb_forall. intros o Ho. apply in_map_iff in Ho. destruct Ho as (r & <- & Hr). apply H, Hr. Qed.
Lemma forallb_perm {A} (f : A -> bool) l l' : Permutation l l' -> forallb f l' = true -> forallb f l = true.
Proof. intros P H. rewrite forallb_forall in *. intros x Hx. apply H. apply (Permutation_in _ P). exact Hx. Qed.
Lemma dops_ok sc ops : forallb dopb ops = true -> forallb (op_okb sc) ops = true.
Proof. rewrite !forallb_forall. intros H o Ho. apply dop_ok, H, Ho. Qed.

Lemma ev_of_perm_nil e a l l' : Permutation l l' -> ev_of e a l' = [] -> ev_of e a l = [].
Proof. intros P H. pose proof (ev_of_perm e a _ _ P) as Q. rewrite H in Q. apply Permutation_sym, Permutation_nil in Q. exact Q. Qed.

Lemma obs_any sc w' o c e a : shows sc w' o -> winv sc w' -> entry_ok sc c e a \/ entry_out sc c e a -> obs c e a (w_reg w') o.
Proof.
  intros Hs Hw [Hx|[_ _ Hout]]; [exact (obs_of_shows sc w' o c e a Hs (wi_tight _ _ Hw) Hx)|].
  pose proof (never_held sc w' c e Hw Hout) as Hg. constructor.
  - change (C02c.present c e o) with (C07c.got_of c e o). rewrite (got_of_shows sc w' o c e Hs). unfold gotb. rewrite Hg. apply andb_false_r.
  - intros H. congruence.
  - exact (touched_by_iff c e o).
Qed.

Lemma held_not_touched sc w o oo c e : reg_inv sc w -> apply_op sc w o = Some oo -> is_rebuild o = false ->
  reg_get c e (w_reg w) <> None -> ~ touched (oo_built oo) c e.
Proof.
  intros Hinv Hop Hr Hg. destruct (reg_get c e (w_reg w)) as [i|] eqn:Eg; [|congruence].
  pose proof (mirror_some sc w c e i Hinv Eg) as Hh. pose proof (apply_op_effect sc w o oo Hinv Hop) as [E1 E2 _ _ _]. rewrite Hr in E1, E2.
  unfold touched. destruct (ctx_shared c) eqn:Es; intros Ht.
  - apply (E2 c Es) in Ht. destruct Ht as [_ [Ht|Ht]]; [apply Ht; exists e; exact Hh | discriminate].
  - apply (E1 c e Es) in Ht. destruct Ht as [_ [Ht|Ht]]; [contradiction | discriminate].
Qed.

Lemma join_no_events sc w o oo : apply_op sc w o = Some oo -> dopb o = false -> oo_events oo = [].
Proof.
  destruct o as [e cs|e c|e c|e|]; cbn [dopb apply_op]; intros Hop Hd; try discriminate.
  - destruct (holds_of e (w_holds w)); injection Hop as <-; [reflexivity|].
    assert (G : forall cs acc, oo_events acc = [] ->
              oo_events (fold_left (fun acc c => let o := insert_ctx sc (oo_world acc) e c in
                                                 mkOpOut (oo_world o) (oo_events acc ++ oo_events o) (oo_built acc ++ oo_built o)) cs acc) = []).
    { induction cs0 as [|c cs0 IH]; intros acc Ha; cbn [fold_left]; [exact Ha|]. apply IH. cbn [oo_events]. rewrite Ha. cbn [app].
      unfold insert_ctx. destruct (holds_of e (w_holds (oo_world acc))); [|reflexivity]. destruct (memz c l || negb (memz c (s_menu sc))); reflexivity. }
    apply G. reflexivity.
  - injection Hop as <-. unfold insert_ctx. destruct (holds_of e (w_holds w)); [|reflexivity]. destruct (memz c l || negb (memz c (s_menu sc))); reflexivity.
Qed.

Definition no_frame_ops (st : step) : bool := match st with SFrame f => match f_ops f with [] => true | _ => false end | SOp _ => true end.

Theorem step_r_ssum sc armed w st w' o armed' c e a :
  winv sc w -> dops_armed armed -> owner sc c a -> ev_free sc c a -> step_okb sc st = true -> no_frame_ops st = true ->
  step_res_r sc armed w st = Some (w', o, armed') ->
  ssum c e a (w_reg w) (w_reg w') (x_pre o ++ x_main o ++ x_post o) (x_built o) /\ winv sc w' /\ dops_armed armed'.
Proof.
  intros Hw Harm Ho Hf Hok Hnf Hs. destruct st as [o1|f]; cbn [step_res_r step_okb no_frame_ops] in *.
  - destruct (op_r sc armed w o1) as [d|] eqn:Eop; [|discriminate]. injection Hs as <- <- <-. cbn [x_pre x_main x_post x_built app]. rewrite app_nil_r.
    destruct (dopb o1) eqn:Ed.
    + destruct (op_r_linear sc armed w o1 d Eop) as (fired & oo & P & R & W & B & V).
      destruct (dops_armed_rest _ _ _ Harm P) as [Hfd Hrest].
      assert (Hall : forallb dopb (o1 :: map r_op fired) = true) by (cbn [forallb]; rewrite Ed, (dops_fired _ Hfd); reflexivity).
      destruct (dops_sum sc c e a Ho _ w oo (wi_reg _ _ Hw) (wi_cfg _ _ Hw c a Ho) Hall R) as (I1 & I2 & I3 & I4).
      rewrite W, B. split; [|split; [|exact Hrest]].
      * constructor.
        -- intros Hg. exact (ev_of_perm_nil e a _ _ V (proj1 (I1 Hg))).
        -- intros _. rewrite (balance_perm e a _ _ V). exact I4.
        -- intros _ Ht. exact (I3 Ht).
      * apply (run_ops_winv sc (o1 :: map r_op fired) w oo Hw); [|exact R]. cbn [forallb]. rewrite Hok. apply dops_ok. exact (dops_fired _ Hfd).
    + unfold op_r in Eop. destruct (apply_op sc w o1) as [oo0|] eqn:Ea; [|discriminate].
      pose proof (join_no_events sc w o1 oo0 Ea Ed) as Hev. rewrite Hev, deliver_nil in Eop. injection Eop as <-.
      cbn [dv_world dv_events dv_built dv_armed]. rewrite app_nil_r. split; [|split; [exact (winv_op sc w o1 oo0 Hw Hok Ea) | exact Harm]].
      assert (Hr : is_rebuild o1 = false) by (destruct o1; cbn in Ed |- *; congruence).
      pose proof (op_sum_one sc c e a w o1 oo0 (wi_reg _ _ Hw) (wi_cfg _ _ Hw c a Ho) Ho Ea) as Hsum. rewrite Hev in Hsum.
      change (ev_of e a []) with (@nil event) in Hsum. unfold op_sum in Hsum.
      constructor.
      * intros _. reflexivity.
      * intros Hg. pose proof (held_not_touched sc w o1 oo0 c e (wi_reg _ _ Hw) Ea Hr Hg) as Hnt.
        rewrite balance_nil, Z.add_0_r, !open_of_acc. destruct (reg_get c e (w_reg w)) as [i|]; [|congruence].
        destruct Hsum as (SA & _ & SC). destruct (reg_get c e (w_reg (oo_world oo0))) as [i'|] eqn:Eg'.
        -- destruct (SC ltac:(discriminate) Hnt) as [_ ->]. reflexivity.
        -- destruct (SA eq_refl) as [H1 _]. rewrite (acc_at_none _ _ _ _ (stored_get_none _ _ _ _ Eg')).
           destruct (acc_at (w_reg w) c e a) as [|s0]; [reflexivity|]. destruct s0; discriminate.
      * intros Hg Ht. exfalso. exact (held_not_touched sc w o1 oo0 c e (wi_reg _ _ Hw) Ea Hr Hg Ht).
  - destruct (frame_r sc armed w f) as [fo|] eqn:Efr; [|discriminate]. injection Hs as <- <- <-. cbn [x_pre x_main x_post x_built app].
    destruct (f_ops f) as [|? ?] eqn:Eops; [|discriminate].
    destruct (frame_r_linear sc armed w f fo Efr) as (main & fired & all & oo & Hm & P & A & R & W & B & V).
    rewrite Eops in A. cbn [app] in A.
    destruct (dops_armed_rest _ _ _ Harm P) as [Hfd Hrest].
    assert (Hall : forallb dopb all = true) by (exact (forallb_perm _ _ _ A (dops_fired _ Hfd))).
    pose proof (winv_mid sc w f Hw) as Hwm.
    destruct (dops_sum sc c e a Ho _ (mid_world w f) oo (wi_reg _ _ Hwm) (wi_cfg _ _ Hwm c a Ho) Hall R) as (I1 & I2 & I3 & I4).
    pose proof (proj1 (reg_inv_alt sc w) (wi_reg _ _ Hw)) as (Hwf & _ & _).
    destruct (frame_balance sc c e a (frame_time f) (f_raw f) (update_state (f_raw f)) (w_reg w) main Hwf (wi_cfg _ _ Hw c a Ho) Ho Hf Hm) as [Hb _].
    change (ro_reg (reg_update (frame_time f) (f_raw f) (update_state (f_raw f)) (w_reg w))) with (w_reg (mid_world w f)) in Hb.
    rewrite W, B. split; [|split; [|exact Hrest]].
    + constructor.
      * intros Hg. apply (ev_of_perm_nil e a _ _ V). rewrite TrackOpP.ev_of_app.
        destruct (track_frame sc c e a (frame_time f) (f_raw f) (update_state (f_raw f)) (w_reg w) Hwf (wi_cfg _ _ Hw c a Ho) Ho Hf) as (main' & Hm' & _ & Hres).
        cbv zeta in Hm', Hres. rewrite Hm in Hm'. injection Hm' as <-. rewrite (stored_get_none _ _ _ _ Hg) in Hres. destruct Hres as [-> _].
        assert (Hgm : reg_get c e (w_reg (mid_world w f)) = None).
        { destruct (reg_get c e (w_reg (mid_world w f))) eqn:E; [|reflexivity]. exfalso. apply (proj1 (reg_get_mid sc w f c e (wi_reg _ _ Hw))); congruence. }
        rewrite (proj1 (I1 Hgm)). reflexivity.
      * intros _. rewrite (balance_perm e a _ _ V), balance_app. lia.
      * intros _ Ht. exact (I3 Ht).
    + apply (run_ops_winv sc all (mid_world w f) oo Hwm); [apply dops_ok; exact Hall | exact R].
Qed.

(* ---- induction over the steps ---- *)
Definition rinv' (r : registry) (x : Z * Z * Z) (st : option Z) : Prop := rinv r (fst (fst x)) (snd (fst x)) (snd x) st.

Theorem judge_steps_r_sound sc rejoin retake ents : (forall x, In x ents -> entry_ok' sc x) ->
  forall steps armed w before sts, winv sc w -> dops_armed armed -> Forall2 (rinv' (w_reg w)) ents sts ->
  forallb (step_okb sc) steps = true -> forallb no_frame_ops steps = true ->
  C02r.judge_steps rejoin retake ents sts before steps (C02r.run_steps_r sc armed w steps) = 0.
Proof.
  intros Hents. induction steps as [|st steps IH]; intros armed w before sts Hw Harm Hsts Hok Hnf; [reflexivity|].
  cbn [forallb] in Hok, Hnf. apply andb_true_iff in Hok. destruct Hok as [Hok1 Hok]. apply andb_true_iff in Hnf. destruct Hnf as [Hnf1 Hnf].
  rewrite run_steps_r_cons. destruct (step_res_r_total sc armed w st (wi_reg _ _ Hw)) as (w' & o & armed' & Hres & Hshows). rewrite Hres.
  cbn [C02r.judge_steps]. destruct Hshows as (Hm & Hsn & Hp). rewrite Hp.
  assert (Hw' : winv sc w' /\ dops_armed armed').
  { destruct ents as [|[[c e] a] ents'].
    - (* no entry: any owned action would do; the world invariants do not depend on one *)
      destruct st as [o1|f]; cbn [step_res_r step_okb no_frame_ops] in *.
      + destruct (op_r sc armed w o1) as [d|] eqn:Eop; [|discriminate]. injection Hres as <- <- <-.
        destruct (op_r_linear sc armed w o1 d Eop) as (fired & oo & P & R & W & B & V). destruct (dops_armed_rest _ _ _ Harm P) as [Hfd Hrest].
        split; [|exact Hrest]. rewrite W. apply (run_ops_winv sc (o1 :: map r_op fired) w oo Hw); [|exact R].
        cbn [forallb]. rewrite Hok1. apply dops_ok. exact (dops_fired _ Hfd).
      + destruct (frame_r sc armed w f) as [fo|] eqn:Efr; [|discriminate]. injection Hres as <- <- <-.
        destruct (f_ops f) as [|? ?] eqn:Eops; [|discriminate].
        destruct (frame_r_linear sc armed w f fo Efr) as (main & fired & all & oo & _ & P & A & R & W & _ & _). rewrite Eops in A. cbn [app] in A.
        destruct (dops_armed_rest _ _ _ Harm P) as [Hfd Hrest]. split; [|exact Hrest]. rewrite W.
        apply (run_ops_winv sc all (mid_world w f) oo (winv_mid sc w f Hw)); [|exact R]. apply dops_ok. exact (forallb_perm _ _ _ A (dops_fired _ Hfd)).
    - assert (Hx : owner sc c a /\ ev_free sc c a).
      { destruct (Hents (c, e, a) (or_introl eq_refl)) as [X|X]; cbn [fst snd] in X; [destruct X; split; assumption | destruct X; split; assumption]. }
      destruct Hx as [Ho Hf]. destruct (step_r_ssum sc armed w st w' o armed' c e a Hw Harm Ho Hf Hok1 Hnf1 Hres) as (_ & A & B). split; assumption. }
  destruct Hw' as [Hw' Harm'].
  destruct (entries_step (rinv' (w_reg w)) (rinv' (w_reg w')) (C02r.judge_entry rejoin retake before o) ents sts Hsts) as [E1 E2].
  { intros [[c e] a] s Hin Hs. unfold rinv' in *. cbn [fst snd] in *.
    pose proof (Hents _ Hin) as Hx. unfold entry_ok' in Hx. cbn [fst snd] in Hx.
    assert (Hof : owner sc c a /\ ev_free sc c a) by (destruct Hx as [X|X]; destruct X; split; assumption). destruct Hof as [Ho Hf].
    destruct (step_r_ssum sc armed w st w' o armed' c e a Hw Harm Ho Hf Hok1 Hnf1 Hres) as (Hsum & _ & _).
    apply (judge_r_ok rejoin retake before o c e a (w_reg w) (w_reg w')); [|exact Hsum | exact Hs].
    apply (obs_any sc w' o c e a); [repeat split; assumption | exact Hw' | exact Hx]. }
  rewrite E1. apply (IH armed' w' o); assumption.
Qed.

(* ---- the sub-profile and the theorem ---- *)
Definition profile_C02rb (p : C02r.rcase) : bool :=
  match p with
  | C02r.reacting rs sc =>
      p_lookup sc && p_owner sc && p_evfree sc && spawns_declared sc &&
      forallb no_frame_ops (s_steps sc) && forallb (fun r => dopb (r_op r)) rs
  end.
Definition profile_C02r (p : C02r.rcase) : Prop := profile_C02rb p = true.

Lemma no_frame_ops_single steps : forallb no_frame_ops steps = true -> forallb C07c.single_op steps = true.
Proof.
  rewrite !forallb_forall. intros H st Hst. specialize (H st Hst). destruct st as [o|f]; [reflexivity|]. cbn [no_frame_ops C07c.single_op] in *.
  destruct (f_ops f); [reflexivity | discriminate].
Qed.

Theorem C02r_app_judgement_sound_sub : forall p, profile_C02r p -> C02r.ok (p, model_r p) = 0.
Proof.
  intros [rs sc] Hp. unfold profile_C02r, profile_C02rb in Hp. repeat (apply andb_true_iff in Hp; destruct Hp as [Hp ?]).
  rename Hp into Hlook, H into Hdops, H0 into Hnf, H1 into Hspawn, H2 into Hfree, H3 into Hown.
  assert (Hprof : profile_C02 sc).
  { unfold profile_C02, profile_C02b, p_single. rewrite Hlook, Hown, Hfree, Hspawn, (no_frame_ops_single _ Hnf). reflexivity. }
  pose proof (profile_entries sc Hprof) as Hents.
  unfold model_r, C02r.ok. cbv zeta.
  change (C02r.all_entries sc) with (C02c.all_entries sc).
  apply (judge_steps_r_sound sc _ _ (C02c.all_entries sc) Hents).
  - apply winv_init.
  - unfold dops_armed. apply Forall_forall. intros r Hr. rewrite forallb_forall in Hdops. apply Hdops, Hr.
  - clear Hents. induction (C02c.all_entries sc) as [|x l IH]; cbn [map]; [constructor|]. constructor; [reflexivity | exact IH].
  - exact Hspawn.
  - exact Hnf.
Qed.

(* the sub-profile is inhabited by a non-trivial case: the scenario of the refutation with its joining reaction dropped *)
Definition rs_sub : list reaction := [mkReact 56 EStarted 1 (ORemove 0 3); mkReact 4 ECanceled 1 ORebuild; mkReact 56 EFired (-1) (ODespawn 1)].
Example C02r_app_judgement_sound_sub_nonvacuous :
  profile_C02r (C02r.reacting rs_sub rf_sc) /\ C02r.ok (C02r.reacting rs_sub rf_sc, model_r (C02r.reacting rs_sub rf_sc)) = 0 /\
  match model_r (C02r.reacting rs_sub rf_sc) with
  | trace outs => map (fun o => ev_view (x_main o)) (firstn 2 (skipn 2 outs))
  | panic => []
  end <> [[]; []].
Proof. split; [vm_compute; reflexivity|]. split; [vm_compute; reflexivity|]. vm_compute. discriminate. Qed.
(* ================================================================================================ *)
(* TRANSFER: the judgement of the reactions stage respects its agreement (no hypothesis on the case)               *)
(* ================================================================================================ *)
From BEI Require Proofs.JudgeC03P.

Lemma count_sim f l l' : ev_sim l l' -> C02r.count f l = C02r.count f l'.
Proof.
  intros H. change (C02r.count f l) with (cnt f l). change (C02r.count f l') with (cnt f l'). rewrite !cnt_kinds.
  change (TrackDefs.kinds l) with (C02c.kinds l). change (TrackDefs.kinds l') with (C02c.kinds l'). rewrite (ev_sim_kinds _ _ H). reflexivity.
Qed.
Lemma events_for_app e a l1 l2 : events_for e a (l1 ++ l2) = events_for e a l1 ++ events_for e a l2.
Proof. unfold events_for. apply filter_app. Qed.
Lemma osim_open_snap c e a o o' : osim o o' -> open_snap c e a o = open_snap c e a o'.
Proof.
  intros H. pose proof (os_snaps _ _ H c e a) as Hs. unfold open_snap, JudgeC03P.st_of in *.
  destruct (snap_of_entry c e a (x_snaps o)), (snap_of_entry c e a (x_snaps o')); cbn [option_map] in Hs; try discriminate; [|reflexivity].
  injection Hs as ->. reflexivity.
Qed.

Lemma judge_entry_r_cong rejoin retake before before' o o' x st : osim o o' ->
  C02r.judge_entry rejoin retake before o x st = C02r.judge_entry rejoin retake before' o' x st.
Proof.
  intros Ho. destruct x as [[c e] a]. unfold C02r.judge_entry. cbv beta iota zeta.
  change (C02r.present c e o) with (C02c.present c e o). change (C02r.present c e o') with (C02c.present c e o').
  change (if ctx_shared c then C02r.built_ctx c o else C02r.built_has c e o) with (rebuilt_of c e o).
  change (if ctx_shared c then C02r.built_ctx c o' else C02r.built_has c e o') with (rebuilt_of c e o').
  change (match snap_of_entry c e a (x_snaps o) with Some s => if state_eqb (sn_state s) SNone then 0 else 1 | None => 0 end) with (open_snap c e a o).
  change (match snap_of_entry c e a (x_snaps o') with Some s => if state_eqb (sn_state s) SNone then 0 else 1 | None => 0 end) with (open_snap c e a o').
  rewrite (osim_present c e o o' Ho), (osim_rebuilt c e o o' Ho), (osim_open_snap c e a o o' Ho).
  assert (Hev : ev_sim (events_for e a (x_pre o ++ x_main o ++ x_post o)) (events_for e a (x_pre o' ++ x_main o' ++ x_post o'))).
  { rewrite !events_for_app. apply ev_sim_app; [apply (os_pre _ _ Ho)|]. apply ev_sim_app; [apply (os_main _ _ Ho) | apply (os_post _ _ Ho)]. }
  revert Hev. generalize (events_for e a (x_pre o ++ x_main o ++ x_post o)) (events_for e a (x_pre o' ++ x_main o' ++ x_post o')). intros evs evs' Hev.
  rewrite !(count_sim _ _ _ Hev). destruct (ev_sim_nil _ _ Hev) as [[-> ->]|(x & r & y & r' & -> & ->)]; reflexivity.
Qed.

Lemma strip_osim sc o o' : out_diff_k (ctx_key sc) false (C02r.strip_probe o) (C02r.strip_probe o') = 0 -> osim o o'.
Proof. intros H. destruct (out_diff_osim sc false _ _ H) as [H1 H2 H3 H4 H5 H6 H7]. constructor; assumption. Qed.

Lemma outs_diff_r_range key a b : 0 <= out_diff_k key false a b <= 10.
Proof. apply JudgeC03P.out_diff_range. Qed.

Lemma judge_steps_r_cong sc rejoin retake ents : forall outs outs' steps sts before before' i, 0 <= i ->
  C02r.outs_diff_r (ctx_key sc) i steps outs outs' = 0 ->
  C02r.judge_steps rejoin retake ents sts before steps outs = C02r.judge_steps rejoin retake ents sts before' steps outs'.
Proof.
  induction outs as [|o outs IH]; intros outs' steps sts before before' i Hi Hd.
  - destruct outs' as [|o' outs']; [destruct steps; reflexivity|]. cbn [C02r.outs_diff_r] in Hd. lia.
  - destruct outs' as [|o' outs']; [cbn [C02r.outs_diff_r] in Hd; lia|]. cbn [C02r.outs_diff_r] in Hd.
    pose proof (outs_diff_r_range (ctx_key sc) (C02r.strip_probe o) (C02r.strip_probe o')) as Hr.
    destruct (Z.eqb (out_diff_k (ctx_key sc) false (C02r.strip_probe o) (C02r.strip_probe o')) 0) eqn:E; [|apply Z.eqb_neq in E; lia].
    apply Z.eqb_eq in E. pose proof (strip_osim sc o o' E) as Ho.
    destruct steps as [|st steps]; [reflexivity|]. cbn [C02r.judge_steps tl] in *. rewrite <- (os_pan _ _ Ho).
    destruct (x_panicked o); [reflexivity|].
    assert (Hrs : map (fun xs => C02r.judge_entry rejoin retake before o (fst xs) (snd xs)) (combine ents sts) =
                  map (fun xs => C02r.judge_entry rejoin retake before' o' (fst xs) (snd xs)) (combine ents sts)).
    { apply map_ext. intros xs. apply judge_entry_r_cong. exact Ho. }
    rewrite Hrs. destruct (find _ _); [reflexivity|]. apply (IH outs' steps _ o o' (i + 1)); [lia | exact Hd].
Qed.

Theorem C02r_app_judgement_respects_agree : forall p t, C02r.agree (p, t) = true -> C02r.ok (p, t) = C02r.ok (p, model_r p).
Proof.
  intros [rs sc] t H. unfold C02r.agree in H. destruct t as [outs|]; [|discriminate]. apply Z.eqb_eq in H.
  unfold C02r.ok, model_r. cbv zeta. symmetry. apply (judge_steps_r_cong sc _ _ _ _ outs (s_steps sc) _ _ _ 0); [lia | exact H].
Qed.
Theorem C02r_app_judgement_transfer_sub : forall p t, profile_C02r p -> C02r.agree (p, t) = true -> C02r.ok (p, t) = 0.
Proof. intros p t Hp H. rewrite (C02r_app_judgement_respects_agree p t H). apply C02r_app_judgement_sound_sub. exact Hp. Qed.
(* every trace that agrees with the model on [rf_case] is accepted (the first version of the judgement rejected them all) *)
Theorem C02r_app_judgement_accepts_rf_any : forall t, C02r.agree (rf_case, t) = true -> C02r.ok (rf_case, t) = 0.
Proof. intros t H. rewrite (C02r_app_judgement_respects_agree _ t H). vm_compute. reflexivity. Qed.

Print Assumptions C02r_app_judgement_accepts_rf_any.
Print Assumptions C02r_app_judgement_sound_sub.
Print Assumptions C02r_app_judgement_respects_agree.
Print Assumptions C02r_app_judgement_transfer_sub.
