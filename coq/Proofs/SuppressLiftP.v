(* C08 lifted: the suppression flag of every input binding through ActionBind::update, ContextInstance::update,
   ContextInstances::update and sequences of frames; what a suppressed binding contributes to a frame
   (nothing); and which instances insertion and rebuild store (fresh ones, all flags set). *)
From BEI Require Import Model.Frame Spec.ReadSpec Proofs.ReaderP Proofs.ActionP Proofs.SuppressP
  Proofs.RegistryP Proofs.FrameLiftP.
Open Scope Z_scope.

(* ================================================================================================ *)
(* 0. lists                                                                                         *)
(* ================================================================================================ *)
Lemma Forall2_compose {A B C} (R : A -> B -> Prop) (S : B -> C -> Prop) (T : A -> C -> Prop) :
  (forall a b c, R a b -> S b c -> T a c) ->
  forall l1 l2 l3, Forall2 R l1 l2 -> Forall2 S l2 l3 -> Forall2 T l1 l3.
Proof.
  intros HT l1 l2 l3 H12. revert l3. induction H12 as [|a b l1 l2 Hab _ IH]; intros l3 H23.
  - inversion H23; subst. constructor.
  - inversion H23 as [|b' c l2' l3' Hbc H23']; subst. constructor; [exact (HT a b c Hab Hbc) | apply IH; exact H23'].
Qed.
Lemma Forall2_nth {A B} (R : A -> B -> Prop) l1 l2 : Forall2 R l1 l2 ->
  forall k a, nth_error l1 k = Some a -> exists b, nth_error l2 k = Some b /\ R a b.
Proof.
  induction 1 as [|x y l1 l2 Hxy _ IH]; intros k a Hk; [destruct k; discriminate|].
  destruct k as [|k]; cbn [nth_error] in *.
  - inversion Hk; subst. exists y. split; [reflexivity | exact Hxy].
  - exact (IH k a Hk).
Qed.
Lemma Forall2_map_eq {A B C} (R : A -> B -> Prop) (f : A -> C) (g : B -> C) l1 l2 :
  (forall a b, R a b -> g b = f a) -> Forall2 R l1 l2 -> map g l2 = map f l1.
Proof.
  intros H. induction 1 as [|x y l1 l2 Hxy _ IH]; cbn [map]; [reflexivity|]. rewrite (H x y Hxy), IH. reflexivity.
Qed.
Lemma Forall2_impl {A B} (R S : A -> B -> Prop) l1 l2 :
  (forall a b, R a b -> S a b) -> Forall2 R l1 l2 -> Forall2 S l1 l2.
Proof. intros H. induction 1; constructor; auto. Qed.

(* ================================================================================================ *)
(* 1. one action evaluation                                                                         *)
(* ================================================================================================ *)
(* what one frame with raw input [r] does to an input binding evaluated under device [dev]: the input and the
   ids of its modifiers and conditions stay; it is suppressed afterwards iff it was and the input is
   physically active; and while that is so the whole binding (the state of its conditions and modifiers
   included) is left as it is *)
Definition ibind_step (r : raw) (dev : device) (b b' : ibind) : Prop :=
  ib_input b' = ib_input b /\
  ids_of (ib_mods b') = ids_of (ib_mods b) /\ ids_of (ib_conds b') = ids_of (ib_conds b) /\
  ib_ignored b' = ib_ignored b && phys r dev (ib_input b) /\
  (ib_ignored b && phys r dev (ib_input b) = true -> b' = b).

Lemma input_step_flags m tm r c dev a st b : ibind_step r dev b (snd (input_step m tm r c dev a st b)).
Proof.
  pose proof (input_step_ids m tm r c dev a st b) as Hi.
  pose proof (flag_step m tm r c dev a st b) as Hf.
  assert (Hs : ib_ignored b && phys r dev (ib_input b) = true -> snd (input_step m tm r c dev a st b) = b).
  { intros H. apply andb_true_iff in H. destruct H as [H1 H2]. rewrite (suppressed_step m tm r c dev a st b H1 H2). reflexivity. }
  destruct (input_step m tm r c dev a st b) as [st' b']. destruct Hi as (_ & H1 & H2 & H3).
  cbn [snd] in *. unfold ibind_step. repeat split; assumption.
Qed.

Lemma input_loop_flags m tm r c dev a bs : forall st,
  Forall2 (ibind_step r dev) bs (snd (input_loop m tm r c dev a st bs)).
Proof.
  induction bs as [|b rest IH]; intros st; cbn [input_loop]; [constructor|].
  pose proof (input_step_flags m tm r c dev a st b) as Hb.
  destruct (input_step m tm r c dev a st b) as [st1 b']. specialize (IH st1).
  destruct (input_loop m tm r c dev a st1 rest) as [st2 rest']. cbn [snd] in *. constructor; assumption.
Qed.

(* the same for an action binding: id and the ids of the action-level modifiers and conditions stay, the
   inputs correspond one to one, in order *)
Definition abind_step (r : raw) (dev : device) (ab ab' : abind) : Prop :=
  ab_id ab' = ab_id ab /\
  ids_of (ab_mods ab') = ids_of (ab_mods ab) /\ ids_of (ab_conds ab') = ids_of (ab_conds ab) /\
  Forall2 (ibind_step r dev) (ab_inputs ab) (ab_inputs ab').

Lemma action_update_flags m tm r c dev recips ab :
  abind_step r dev ab (o_bind (action_update m tm r c dev recips ab)).
Proof.
  unfold action_update.
  pose proof (input_loop_flags m tm r c dev (ab_id ab) (ab_inputs ab)
                (mkLoop (tracker_new (vzero (aid_dim (ab_id ab)))) [] [])) as Hl.
  destruct (input_loop m tm r c dev (ab_id ab) _ (ab_inputs ab)) as [st inputs'].
  pose proof (apply_mods_ids m tm (t_value (l_tracker st)) (ab_mods ab)) as Hm.
  destruct (apply_mods m tm (t_value (l_tracker st)) (ab_mods ab)) as [[ms' v1] lg1]. destruct Hm as [_ Hm].
  pose proof (apply_conds_ids m tm (with_value (l_tracker st) v1) (ab_conds ab)) as Hc.
  destruct (apply_conds m tm (with_value (l_tracker st) v1) (ab_conds ab)) as [[cs' tr] lg2]. destruct Hc as [_ Hc].
  cbn [o_bind snd] in *. unfold abind_step. cbn [ab_id ab_mods ab_conds ab_inputs]. repeat split; assumption.
Qed.

(* as functions of the old binding *)
Lemma abind_step_inputs r dev ab ab' : abind_step r dev ab ab' ->
  map ib_input (ab_inputs ab') = map ib_input (ab_inputs ab).
Proof. intros (_ & _ & _ & H). apply (Forall2_map_eq (ibind_step r dev)); [|exact H]. intros a b (Hi & _). exact Hi. Qed.
Lemma abind_step_flags r dev ab ab' : abind_step r dev ab ab' ->
  map ib_ignored (ab_inputs ab') = map (fun b => ib_ignored b && phys r dev (ib_input b)) (ab_inputs ab).
Proof.
  intros (_ & _ & _ & H). apply (Forall2_map_eq (ibind_step r dev)); [|exact H]. intros a b (_ & _ & _ & Hf & _). exact Hf.
Qed.

Lemma action_update_flag_list m tm r c dev recips ab :
  let ab' := o_bind (action_update m tm r c dev recips ab) in
  map ib_input (ab_inputs ab') = map ib_input (ab_inputs ab) /\
  map ib_ignored (ab_inputs ab') = map (fun b => ib_ignored b && phys r dev (ib_input b)) (ab_inputs ab).
Proof.
  cbv zeta. pose proof (action_update_flags m tm r c dev recips ab) as H.
  split; [exact (abind_step_inputs r dev _ _ H) | exact (abind_step_flags r dev _ _ H)].
Qed.

(* a suppressed input does not contribute to its action: the evaluation is that of the action with only
   its live inputs (everything but the stored input bindings is the same) *)
Definition live (r : raw) (dev : device) (b : ibind) : bool := negb (ib_ignored b && phys r dev (ib_input b)).
Definition live_part (r : raw) (dev : device) (ab : abind) : abind :=
  mkAbind (ab_id ab) (ab_mods ab) (ab_conds ab) (filter (live r dev) (ab_inputs ab)).

Lemma input_loop_live m tm r c dev a bs : forall st,
  fst (input_loop m tm r c dev a st bs) = fst (input_loop m tm r c dev a st (filter (live r dev) bs)).
Proof.
  induction bs as [|b rest IH]; intros st; cbn [filter]; [reflexivity|]. unfold live at 1.
  destruct (ib_ignored b && phys r dev (ib_input b)) eqn:E; cbn [negb input_loop].
  - apply andb_true_iff in E. destruct E as [E1 E2]. rewrite (suppressed_step m tm r c dev a st b E1 E2).
    specialize (IH st). destruct (input_loop m tm r c dev a st rest) as [st2 rest'].
    destruct (input_loop m tm r c dev a st (filter (live r dev) rest)) as [st3 rest'']. exact IH.
  - destruct (input_step m tm r c dev a st b) as [st1 b']. specialize (IH st1).
    destruct (input_loop m tm r c dev a st1 rest) as [st2 rest'].
    destruct (input_loop m tm r c dev a st1 (filter (live r dev) rest)) as [st3 rest'']. exact IH.
Qed.

Lemma action_update_live m tm r c dev recips ab :
  let o := action_update m tm r c dev recips ab in
  let o' := action_update m tm r c dev recips (live_part r dev ab) in
  o_actions o = o_actions o' /\ o_consumed o = o_consumed o' /\ o_events o = o_events o' /\ o_log o = o_log o' /\
  ab_mods (o_bind o) = ab_mods (o_bind o') /\ ab_conds (o_bind o) = ab_conds (o_bind o').
Proof.
  cbv zeta. unfold action_update, live_part. cbn [ab_id ab_mods ab_conds ab_inputs].
  pose proof (input_loop_live m tm r c dev (ab_id ab) (ab_inputs ab)
                (mkLoop (tracker_new (vzero (aid_dim (ab_id ab)))) [] [])) as Hl.
  destruct (input_loop m tm r c dev (ab_id ab) _ (ab_inputs ab)) as [st inputs'].
  destruct (input_loop m tm r c dev (ab_id ab) _ (filter (live r dev) (ab_inputs ab))) as [st0 inputs0].
  cbn [fst] in Hl. subst st0.
  destruct (apply_mods m tm (t_value (l_tracker st)) (ab_mods ab)) as [[ms' v1] lg1].
  destruct (apply_conds m tm (with_value (l_tracker st) v1) (ab_conds ab)) as [[cs' tr] lg2].
  cbn [o_actions o_consumed o_events o_log o_bind ab_mods ab_conds]. repeat split.
Qed.

(* ================================================================================================ *)
(* 2. one instance, one registry update                                                             *)
(* ================================================================================================ *)
Lemma binds_update_flags tm r dev recips bs : forall m c,
  Forall2 (abind_step r dev) bs (fst (fst (fst (fst (binds_update m tm r c dev recips bs))))).
Proof.
  induction bs as [|b rest IH]; intros m c; cbn [binds_update]; [constructor|]. cbv zeta.
  pose proof (action_update_flags m tm r c dev recips b) as Hb.
  set (o := action_update m tm r c dev recips b) in *.
  specialize (IH (o_actions o) (o_consumed o)).
  destruct (binds_update (o_actions o) tm r (o_consumed o) dev recips rest) as [[[[rest' m'] c'] ev] lg].
  cbn [fst] in *. constructor; assumption.
Qed.

(* the shape of the instance stays (device, bindings in order, their inputs in order) and every input's flag
   is updated by the rule, judged with the instance's own device; the consumed set plays no role *)
Definition flags_step (r : raw) (i i' : inst) : Prop :=
  in_pad i' = in_pad i /\ Forall2 (abind_step r (in_pad i)) (in_binds i) (in_binds i').

Lemma inst_update_flags tm r c recips i : flags_step r i (io_inst (inst_update tm r c recips i)).
Proof.
  unfold inst_update. pose proof (binds_update_flags tm r (in_pad i) recips (in_binds i) (in_actions i) c) as H.
  destruct (binds_update (in_actions i) tm r c (in_pad i) recips (in_binds i)) as [[[[bs m] c'] ev] lg].
  cbn [fst io_inst] in *. split; [reflexivity | exact H].
Qed.

Definition entry_flags_step (r : raw) (ei ei' : entity * inst) : Prop :=
  fst ei' = fst ei /\ flags_step r (snd ei) (snd ei').
Definition group_flags_step (r : raw) (g g' : group) : Prop :=
  match g, g' with
  | GExcl cx p insts, GExcl cx' p' insts' => cx' = cx /\ p' = p /\ Forall2 (entry_flags_step r) insts insts'
  | GShared cx p ents i, GShared cx' p' ents' i' => cx' = cx /\ p' = p /\ ents' = ents /\ flags_step r i i'
  | _, _ => False
  end.

Lemma excl_update_flags tm r insts : forall c,
  Forall2 (entry_flags_step r) insts (fst (fst (fst (excl_update tm r c insts)))).
Proof.
  induction insts as [|[e i] rest IH]; intros c; cbn [excl_update]; [constructor|]. cbv zeta.
  pose proof (inst_update_flags tm r c [e] i) as Hi.
  set (o := inst_update tm r c [e] i) in *. specialize (IH (io_consumed o)).
  destruct (excl_update tm r (io_consumed o) rest) as [[[rest' c'] ev] lg]. cbn [fst] in *.
  constructor; [split; [reflexivity | exact Hi] | exact IH].
Qed.

Lemma reg_update_flags tm r gs : forall c, Forall2 (group_flags_step r) gs (ro_reg (reg_update tm r c gs)).
Proof.
  induction gs as [|[cx p insts|cx p ents i] gs IH]; intros c; cbn [reg_update]; [constructor| |].
  - pose proof (excl_update_flags tm r insts c) as He.
    destruct (excl_update tm r c insts) as [[[insts' c'] ev] lg]. cbn [fst] in He. cbv zeta. cbn [ro_reg].
    constructor; [cbn [group_flags_step]; repeat split; exact He | apply IH].
  - cbv zeta. cbn [ro_reg]. constructor; [|apply IH].
    cbn [group_flags_step]. repeat split; apply inst_update_flags.
Qed.

(* through ContextInstances::get *)
Lemma group_flags_ctx r g g' : group_flags_step r g g' -> g_ctx g' = g_ctx g.
Proof. destruct g, g'; cbn [group_flags_step g_ctx]; intros H; try contradiction; destruct H as (H & _); exact H. Qed.

Lemma reg_flags_index r gs gs' : Forall2 (group_flags_step r) gs gs' -> forall c, index_of c gs' = index_of c gs.
Proof.
  induction 1 as [|g g' gs gs' Hg _ IH]; intros c; cbn [index_of]; [reflexivity|].
  rewrite (group_flags_ctx r g g' Hg), IH. reflexivity.
Qed.

Lemma entries_flags_find r e insts insts' : Forall2 (entry_flags_step r) insts insts' -> forall i,
  option_map snd (find (fun ei => Z.eqb (fst ei) e) insts) = Some i ->
  exists i', option_map snd (find (fun ei => Z.eqb (fst ei) e) insts') = Some i' /\ flags_step r i i'.
Proof.
  induction 1 as [|ei ei' insts insts' (Hf & Hs) _ IH]; intros i Hi; cbn [find] in *; [discriminate|].
  unfold entity in *. rewrite Hf. destruct (Z.eqb (fst ei) e).
  - cbn [option_map] in *. inversion Hi; subst i. exists (snd ei'). split; [reflexivity | exact Hs].
  - exact (IH i Hi).
Qed.

Lemma group_flags_get r e g g' : group_flags_step r g g' -> forall i,
  group_get e g = Some i -> exists i', group_get e g' = Some i' /\ flags_step r i i'.
Proof.
  destruct g as [cx p insts|cx p ents i0], g' as [cx' p' insts'|cx' p' ents' i0']; cbn [group_flags_step group_get];
    intros H i Hi; try contradiction.
  - destruct H as (_ & _ & H). exact (entries_flags_find r e insts insts' H i Hi).
  - destruct H as (_ & _ & -> & H). destruct (existsb (Z.eqb e) ents); [|discriminate].
    inversion Hi; subst i. exists i0'. split; [reflexivity | exact H].
Qed.

Lemma reg_flags_get r gs gs' : Forall2 (group_flags_step r) gs gs' -> forall c e i,
  reg_get c e gs = Some i -> exists i', reg_get c e gs' = Some i' /\ flags_step r i i'.
Proof.
  intros H c e i. rewrite !reg_get_unfold, (reg_flags_index r gs gs' H c).
  destruct (index_of c gs) as [n|]; [|discriminate].
  destruct (nth_error gs n) as [g|] eqn:En; [|discriminate]. intros Hg.
  destruct (Forall2_nth _ _ _ H n g En) as (g' & -> & Hgg'). exact (group_flags_get r e g g' Hgg' i Hg).
Qed.

Lemma reg_update_get tm r c0 gs c e i :
  reg_get c e gs = Some i ->
  exists i', reg_get c e (ro_reg (reg_update tm r c0 gs)) = Some i' /\ flags_step r i i'.
Proof. apply reg_flags_get. apply reg_update_flags. Qed.

(* ================================================================================================ *)
(* 3. sequences of frames                                                                           *)
(* ================================================================================================ *)
Lemma flag_after_and i dev f rs : flag_after i dev f rs = f && forallb (fun r => phys r dev i) rs.
Proof.
  revert f. induction rs as [|r rest IH]; intros f; cbn [flag_after forallb]; [now rewrite andb_true_r|].
  rewrite IH, andb_assoc. reflexivity.
Qed.

(* after the frames [rs]: the flag is [flag_after] of the initial one; a binding still suppressed has not
   been touched at all *)
Definition ibind_run (rs : list raw) (dev : device) (b b' : ibind) : Prop :=
  ib_input b' = ib_input b /\
  ids_of (ib_mods b') = ids_of (ib_mods b) /\ ids_of (ib_conds b') = ids_of (ib_conds b) /\
  ib_ignored b' = flag_after (ib_input b) dev (ib_ignored b) rs /\
  (flag_after (ib_input b) dev (ib_ignored b) rs = true -> b' = b).
Definition abind_run (rs : list raw) (dev : device) (ab ab' : abind) : Prop :=
  ab_id ab' = ab_id ab /\
  ids_of (ab_mods ab') = ids_of (ab_mods ab) /\ ids_of (ab_conds ab') = ids_of (ab_conds ab) /\
  Forall2 (ibind_run rs dev) (ab_inputs ab) (ab_inputs ab').
Definition flags_after (rs : list raw) (i i' : inst) : Prop :=
  in_pad i' = in_pad i /\ Forall2 (abind_run rs (in_pad i)) (in_binds i) (in_binds i').

Lemma ibind_run_nil dev b : ibind_run [] dev b b.
Proof. unfold ibind_run. cbn [flag_after]. repeat split. Qed.
Lemma abind_run_nil dev ab : abind_run [] dev ab ab.
Proof. unfold abind_run. repeat split. apply Forall2_same. apply ibind_run_nil. Qed.
Lemma flags_after_nil i : flags_after [] i i.
Proof. split; [reflexivity|]. apply Forall2_same. apply abind_run_nil. Qed.

Lemma ibind_run_cons r rs dev b b1 b2 : ibind_step r dev b b1 -> ibind_run rs dev b1 b2 -> ibind_run (r :: rs) dev b b2.
Proof.
  intros (S1 & S2 & S3 & S4 & S5) (R1 & R2 & R3 & R4 & R5). unfold ibind_run. cbn [flag_after].
  rewrite S1, S4 in R4, R5. split; [congruence|]. split; [congruence|]. split; [congruence|]. split; [exact R4|].
  intros H. pose proof H as H'. rewrite flag_after_and in H'. apply andb_true_iff in H'. destruct H' as [H' _].
  rewrite (R5 H). exact (S5 H').
Qed.
Lemma abind_run_cons r rs dev ab ab1 ab2 : abind_step r dev ab ab1 -> abind_run rs dev ab1 ab2 -> abind_run (r :: rs) dev ab ab2.
Proof.
  intros (S1 & S2 & S3 & S4) (R1 & R2 & R3 & R4). unfold abind_run.
  split; [congruence|]. split; [congruence|]. split; [congruence|].
  exact (Forall2_compose _ _ _ (ibind_run_cons r rs dev) _ _ _ S4 R4).
Qed.
Lemma flags_after_cons r rs i i1 i2 : flags_step r i i1 -> flags_after rs i1 i2 -> flags_after (r :: rs) i i2.
Proof.
  intros (S1 & S2) (R1 & R2). rewrite S1 in R1, R2. split; [exact R1|].
  exact (Forall2_compose _ _ _ (abind_run_cons r rs (in_pad i)) _ _ _ S2 R2).
Qed.

(* any chain of per-frame steps *)
Inductive flags_run : list raw -> inst -> inst -> Prop :=
| flags_run_nil i : flags_run [] i i
| flags_run_cons r rs i i1 i2 : flags_step r i i1 -> flags_run rs i1 i2 -> flags_run (r :: rs) i i2.

Lemma flags_run_after rs i i' : flags_run rs i i' -> flags_after rs i i'.
Proof.
  induction 1 as [i|r rs i i1 i2 Hs _ IH]; [apply flags_after_nil | exact (flags_after_cons r rs i i1 i2 Hs IH)].
Qed.

(* (a) one instance updated over and over, whatever times, consumed sets and recipients it is given *)
Record inst_frame := mkInstFrame { if_time : time; if_raw : raw; if_consumed : consumed; if_recipients : list entity }.
Definition inst_frames (fs : list inst_frame) (i : inst) : inst :=
  fold_left (fun i f => io_inst (inst_update (if_time f) (if_raw f) (if_consumed f) (if_recipients f) i)) fs i.

Lemma inst_frames_run fs : forall i, flags_run (map if_raw fs) i (inst_frames fs i).
Proof.
  induction fs as [|f fs IH]; intros i; cbn [map inst_frames fold_left]; [constructor|].
  econstructor; [apply inst_update_flags | apply IH].
Qed.
Lemma inst_frames_after fs i : flags_after (map if_raw fs) i (inst_frames fs i).
Proof. apply flags_run_after. apply inst_frames_run. Qed.

(* (b) the registry updated over and over, nothing else happening to it *)
Record reg_frame := mkRegFrame { rf_time : time; rf_raw : raw; rf_consumed : consumed }.
Definition reg_frames (fs : list reg_frame) (gs : registry) : registry :=
  fold_left (fun gs f => ro_reg (reg_update (rf_time f) (rf_raw f) (rf_consumed f) gs)) fs gs.

Lemma reg_frames_run fs : forall gs c e i, reg_get c e gs = Some i ->
  exists i', reg_get c e (reg_frames fs gs) = Some i' /\ flags_run (map rf_raw fs) i i'.
Proof.
  induction fs as [|f fs IH]; intros gs c e i Hi; cbn [map reg_frames fold_left].
  - exists i. split; [exact Hi | constructor].
  - destruct (reg_update_get (rf_time f) (rf_raw f) (rf_consumed f) gs c e i Hi) as (i1 & H1 & S1).
    destruct (IH _ c e i1 H1) as (i2 & H2 & R2). exists i2. split; [exact H2|]. econstructor; eassumption.
Qed.
Lemma reg_frames_after fs gs c e i : reg_get c e gs = Some i ->
  exists i', reg_get c e (reg_frames fs gs) = Some i' /\ flags_after (map rf_raw fs) i i'.
Proof.
  intros Hi. destruct (reg_frames_run fs gs c e i Hi) as (i' & H & R). exists i'. split; [exact H | apply flags_run_after; exact R].
Qed.

(* (c) frames of the plugin in which no component operation is issued *)
Lemma run_ops_nil sc w : run_ops sc w [] = Some (mkOpOut w [] []).
Proof. reflexivity. Qed.
Lemma quiet_frame_reg sc w f fo : frame sc w f = Some fo -> f_ops f = [] ->
  w_reg (fo_world fo) = ro_reg (reg_update (frame_time f) (f_raw f) (update_state (f_raw f)) (w_reg w)).
Proof.
  unfold frame. intros H Ho. rewrite Ho in H.
  destruct (ro_events (reg_update (frame_time f) (f_raw f) (update_state (f_raw f)) (w_reg w))) as [main|]; [|discriminate].
  rewrite run_ops_nil in H. inversion H; subst fo. reflexivity.
Qed.
Lemma quiet_frames_run sc fs : forall w w' c e i,
  Forall (fun f => f_ops f = []) fs -> steps_world sc w (map SFrame fs) = Some w' ->
  reg_get c e (w_reg w) = Some i ->
  exists i', reg_get c e (w_reg w') = Some i' /\ flags_run (map f_raw fs) i i'.
Proof.
  induction fs as [|f fs IH]; intros w w' c e i Hq Hs Hi; cbn [map steps_world] in *.
  - inversion Hs; subst w'. exists i. split; [exact Hi | constructor].
  - inversion Hq as [|? ? Hf Hq']; subst. cbn [step_world] in Hs.
    destruct (frame sc w f) as [fo|] eqn:Ef; [|discriminate]. cbn [option_map] in Hs.
    pose proof (quiet_frame_reg sc w f fo Ef Hf) as Hr.
    destruct (reg_update_get (frame_time f) (f_raw f) (update_state (f_raw f)) (w_reg w) c e i Hi) as (i1 & H1 & S1).
    rewrite <- Hr in H1. destruct (IH _ w' c e i1 Hq' Hs H1) as (i2 & H2 & R2).
    exists i2. split; [exact H2|]. econstructor; eassumption.
Qed.
Lemma quiet_frames_after sc fs w w' c e i :
  Forall (fun f => f_ops f = []) fs -> steps_world sc w (map SFrame fs) = Some w' ->
  reg_get c e (w_reg w) = Some i ->
  exists i', reg_get c e (w_reg w') = Some i' /\ flags_after (map f_raw fs) i i'.
Proof.
  intros Hq Hs Hi. destruct (quiet_frames_run sc fs w w' c e i Hq Hs Hi) as (i' & H & R).
  exists i'. split; [exact H | apply flags_run_after; exact R].
Qed.

(* by position *)
Lemma flags_after_nth rs i i' k j ab b : flags_after rs i i' ->
  nth_error (in_binds i) k = Some ab -> nth_error (ab_inputs ab) j = Some b ->
  exists ab' b', nth_error (in_binds i') k = Some ab' /\ nth_error (ab_inputs ab') j = Some b' /\
    ab_id ab' = ab_id ab /\ ib_input b' = ib_input b /\
    ib_ignored b' = flag_after (ib_input b) (in_pad i) (ib_ignored b) rs /\
    (ib_ignored b' = true -> b' = b).
Proof.
  intros (_ & H) Hk Hj. destruct (Forall2_nth _ _ _ H k ab Hk) as (ab' & Hk' & (A1 & _ & _ & A4)).
  destruct (Forall2_nth _ _ _ A4 j b Hj) as (b' & Hj' & (B1 & _ & _ & B4 & B5)).
  exists ab', b'. repeat split; try assumption. intros Ht. apply B5. rewrite <- B4. exact Ht.
Qed.

(* a freshly built instance: all flags set, so after the frames [rs] an input is still suppressed iff it
   was physically active in every one of them *)
Definition all_suppressed (i : inst) : Prop :=
  Forall (fun ab => Forall (fun ib => ib_ignored ib = true) (ab_inputs ab)) (in_binds i).
Definition ibind_fresh_run (rs : list raw) (dev : device) (b b' : ibind) : Prop :=
  ib_input b' = ib_input b /\
  ids_of (ib_mods b') = ids_of (ib_mods b) /\ ids_of (ib_conds b') = ids_of (ib_conds b) /\
  ib_ignored b' = forallb (fun r => phys r dev (ib_input b)) rs /\
  (forallb (fun r => phys r dev (ib_input b)) rs = true -> b' = b).
Definition fresh_after (rs : list raw) (i i' : inst) : Prop :=
  in_pad i' = in_pad i /\
  Forall2 (fun ab ab' => ab_id ab' = ab_id ab /\
                         ids_of (ab_mods ab') = ids_of (ab_mods ab) /\ ids_of (ab_conds ab') = ids_of (ab_conds ab) /\
                         Forall2 (ibind_fresh_run rs (in_pad i)) (ab_inputs ab) (ab_inputs ab'))
          (in_binds i) (in_binds i').

Lemma Forall2_Forall_l {A B} (P : A -> Prop) (R S : A -> B -> Prop) l1 l2 :
  (forall a b, P a -> R a b -> S a b) -> Forall P l1 -> Forall2 R l1 l2 -> Forall2 S l1 l2.
Proof.
  intros H Hp H2. induction H2 as [|a b l1 l2 Hab _ IH]; [constructor|].
  inversion Hp; subst. constructor; [apply H; assumption | apply IH; assumption].
Qed.

Lemma suppressed_after rs i i' : all_suppressed i -> flags_after rs i i' -> fresh_after rs i i'.
Proof.
  intros Ha (Hp & H). split; [exact Hp|].
  refine (Forall2_Forall_l _ _ _ _ _ _ Ha H). clear Ha H.
  intros ab ab' Pa (A1 & A2 & A3 & A4). cbv beta in Pa.
  split; [exact A1|]. split; [exact A2|]. split; [exact A3|].
  refine (Forall2_Forall_l _ _ _ _ _ _ Pa A4). clear Pa A4.
  intros b b' Pb (B1 & B2 & B3 & B4 & B5). cbv beta in Pb. unfold ibind_fresh_run.
  rewrite Pb, flag_after_all in B4, B5. repeat split; assumption.
Qed.

Lemma instantiate_pad_gen l : forall i, in_pad (fold_left bind_action l i) = in_pad i.
Proof.
  induction l as [|s l IH]; intros i; cbn [fold_left]; [reflexivity|]. rewrite IH. unfold bind_action.
  destruct (extend s (in_binds i)); reflexivity.
Qed.
Lemma instantiate_pad s : in_pad (instantiate s) = i_pad s.
Proof. unfold instantiate. rewrite instantiate_pad_gen. reflexivity. Qed.

Lemma fresh_instance_after rs s i' : flags_after rs (instantiate s) i' -> fresh_after rs (instantiate s) i'.
Proof. apply suppressed_after. apply instantiate_ignored. Qed.

Lemma fresh_after_nth rs i i' k j ab b : fresh_after rs i i' ->
  nth_error (in_binds i) k = Some ab -> nth_error (ab_inputs ab) j = Some b ->
  exists ab' b', nth_error (in_binds i') k = Some ab' /\ nth_error (ab_inputs ab') j = Some b' /\
    ab_id ab' = ab_id ab /\ ib_input b' = ib_input b /\
    (ib_ignored b' = true <-> forall r, In r rs -> phys r (in_pad i) (ib_input b) = true) /\
    (ib_ignored b' = true -> b' = b).
Proof.
  intros (_ & H) Hk Hj. destruct (Forall2_nth _ _ _ H k ab Hk) as (ab' & Hk' & (A1 & _ & _ & A4)).
  destruct (Forall2_nth _ _ _ A4 j b Hj) as (b' & Hj' & (B1 & _ & _ & B4 & B5)).
  exists ab', b'. split; [exact Hk'|]. split; [exact Hj'|]. split; [exact A1|]. split; [exact B1|]. split.
  - rewrite B4, forallb_forall. tauto.
  - intros Ht. apply B5. rewrite <- B4. exact Ht.
Qed.

(* ================================================================================================ *)
(* 4. what a suppressed binding contributes to a frame's invocations: nothing                       *)
(* ================================================================================================ *)
(* the ids an action contributes, written without the consumed set *)
Definition live_ids (r : raw) (dev : device) (ab : abind) : list Z :=
  concat (map (fun b => input_ids (ib_ignored b && phys r dev (ib_input b)) b) (ab_inputs ab)) ++
  ids_of (ab_mods ab) ++ ids_of (ab_conds ab).

Lemma action_ids_live r c dev ab : action_ids r c dev ab = live_ids r dev ab.
Proof.
  unfold action_ids, live_ids. f_equal. f_equal. apply map_ext. intros b. rewrite skipped_phys. reflexivity.
Qed.
Lemma suppressed_no_ids r dev b :
  ib_ignored b = true -> phys r dev (ib_input b) = true -> input_ids (ib_ignored b && phys r dev (ib_input b)) b = [].
Proof. intros -> ->. reflexivity. Qed.
Lemma unsuppressed_ids r dev b :
  ib_ignored b = false \/ phys r dev (ib_input b) = false ->
  input_ids (ib_ignored b && phys r dev (ib_input b)) b = ids_of (ib_mods b) ++ ids_of (ib_conds b).
Proof. intros [-> | ->]; [|rewrite andb_false_r]; reflexivity. Qed.
(* an action all of whose inputs are suppressed and held runs its own modifiers and conditions only *)
Lemma all_suppressed_ids r dev ab :
  Forall (fun b => ib_ignored b = true /\ phys r dev (ib_input b) = true) (ab_inputs ab) ->
  live_ids r dev ab = ids_of (ab_mods ab) ++ ids_of (ab_conds ab).
Proof.
  intros H. unfold live_ids.
  assert (E : concat (map (fun b => input_ids (ib_ignored b && phys r dev (ib_input b)) b) (ab_inputs ab)) = []).
  { induction H as [|b l (H1 & H2) _ IH]; cbn [map concat]; [reflexivity|]. rewrite H1, H2, IH. reflexivity. }
  rewrite E. reflexivity.
Qed.

(* every record of a frame's evaluation sequence: the ids it logs, the flags it leaves, and that it is the
   evaluation of the live part of its binding *)
Definition rec_suppress (tm : time) (r : raw) (e : eval_rec) : Prop :=
  map log_id (rec_log e) = live_ids r (er_dev e) (er_bind e) /\
  abind_step r (er_dev e) (er_bind e) (o_bind (er_out e)) /\
  let o' := action_update (er_table e) tm r (er_consumed e) (er_dev e) (er_recipients e)
                          (live_part r (er_dev e) (er_bind e)) in
  o_actions (er_out e) = o_actions o' /\ o_consumed (er_out e) = o_consumed o' /\
  o_events (er_out e) = o_events o' /\ o_log (er_out e) = o_log o'.

Lemma rec_ok_suppress tm r e : rec_ok tm r e -> rec_suppress tm r e.
Proof.
  intros Hok. unfold rec_suppress, rec_log. rewrite Hok. split; [|split].
  - rewrite action_update_ids. apply action_ids_live.
  - apply action_update_flags.
  - cbv zeta.
    destruct (action_update_live (er_table e) tm r (er_consumed e) (er_dev e) (er_recipients e) (er_bind e))
      as (H1 & H2 & H3 & H4 & _).
    repeat split; assumption.
Qed.
Lemma evaluations_suppress tm r c gs : Forall (rec_suppress tm r) (evaluations tm r c gs).
Proof. eapply Forall_impl; [|apply evaluations_ok]. intros e. apply rec_ok_suppress. Qed.

Lemma reg_update_live_ids tm r c gs :
  map log_id (ro_log (reg_update tm r c gs)) = flat_map (fun e => live_ids r (er_dev e) (er_bind e)) (evaluations tm r c gs).
Proof.
  rewrite reg_update_ids. apply flat_map_ext_in. intros e _. unfold rec_ids. apply action_ids_live.
Qed.

Lemma frame_suppress sc w f fo : frame sc w f = Some fo ->
  map log_id (fo_log fo) = flat_map (fun e => live_ids (f_raw f) (er_dev e) (er_bind e)) (frame_evals w f) /\
  Forall (rec_suppress (frame_time f) (f_raw f)) (frame_evals w f).
Proof.
  intros H. destruct (frame_records sc w f fo H) as (_ & _ & Hids & _ & Hok & _). split.
  - rewrite Hids. apply flat_map_ext_in. intros e _. unfold rec_ids. apply action_ids_live.
  - eapply Forall_impl; [|exact Hok]. intros e. apply rec_ok_suppress.
Qed.

(* ================================================================================================ *)
(* 5. insertion and rebuild store fresh instances                                                   *)
(* ================================================================================================ *)
Lemma mk_inst_suppressed sc c e : all_suppressed (mk_inst sc c e).
Proof. unfold mk_inst. apply instantiate_ignored. Qed.

Lemma reg_get_cons c e g r : reg_get c e (g :: r) = if Z.eqb (g_ctx g) c then group_get e g else reg_get c e r.
Proof.
  rewrite !reg_get_unfold. cbn [index_of]. destruct (Z.eqb (g_ctx g) c); [reflexivity|].
  destruct (index_of c r); reflexivity.
Qed.
(* replacing a group by one of the same type does not change what the other types see *)
Lemma reg_get_replace c' e l1 g g' l2 : g_ctx g' = g_ctx g -> g_ctx g <> c' ->
  reg_get c' e (l1 ++ g' :: l2) = reg_get c' e (l1 ++ g :: l2).
Proof.
  intros Hc Hne. induction l1 as [|x l1 IH]; cbn [app]; rewrite !reg_get_cons.
  - rewrite Hc. apply Z.eqb_neq in Hne. rewrite Hne. reflexivity.
  - rewrite IH. reflexivity.
Qed.

Lemma find_rebuilt (mk : entity -> inst) e (insts : list (entity * inst)) : In e (map fst insts) ->
  option_map snd (find (fun ei => Z.eqb (fst ei) e) (map (fun ei => (fst ei, mk (fst ei))) insts)) = Some (mk e).
Proof.
  induction insts as [|[x i] insts IH]; cbn [map fst find In]; intros H; [destruct H|].
  destruct (Z.eqb x e) eqn:E.
  - apply Z.eqb_eq in E. subst x. reflexivity.
  - apply Z.eqb_neq in E. destruct H as [H|H]; [contradiction | exact (IH H)].
Qed.

(* rebuild of an exclusive group: every entry gets the instance built for its own entity *)
Lemma reg_rebuild_excl mk tm c l1 p insts l2 : ~ In c (map g_ctx l1) ->
  exists evs, reg_rebuild mk tm c (l1 ++ GExcl c p insts :: l2) =
              Some (l1 ++ GExcl c p (map (fun ei => (fst ei, mk (fst ei))) insts) :: l2, evs) /\
  forall e, In e (map fst insts) ->
    reg_get c e (l1 ++ GExcl c p (map (fun ei => (fst ei, mk (fst ei))) insts) :: l2) = Some (mk e).
Proof.
  intros Hn. unfold reg_rebuild. rewrite (index_of_found c l1 (GExcl c p insts) l2 Hn eq_refl), nth_error_mid.
  rewrite update_at_app by reflexivity. eexists. split; [reflexivity|]. intros e He.
  rewrite reg_get_found; [|exact Hn|reflexivity]. cbn [group_get]. apply find_rebuilt. exact He.
Qed.
(* rebuild of a shared group: the common instance is the one built for the first entity of the list *)
Lemma reg_rebuild_shared mk tm c l1 p e0 ents i l2 : ~ In c (map g_ctx l1) ->
  reg_rebuild mk tm c (l1 ++ GShared c p (e0 :: ents) i :: l2) =
  Some (l1 ++ GShared c p (e0 :: ents) (mk e0) :: l2, trigger_removed tm (e0 :: ents) i) /\
  forall e, In e (e0 :: ents) -> reg_get c e (l1 ++ GShared c p (e0 :: ents) (mk e0) :: l2) = Some (mk e0).
Proof.
  intros Hn. unfold reg_rebuild. rewrite (index_of_found c l1 (GShared c p (e0 :: ents) i) l2 Hn eq_refl), nth_error_mid.
  rewrite update_at_app by reflexivity. split; [reflexivity|]. intros e He.
  rewrite reg_get_found; [|exact Hn|reflexivity]. cbn [group_get].
  change (existsb (Z.eqb e) (e0 :: ents)) with (memz e (e0 :: ents)).
  apply memz_in in He. rewrite He. reflexivity.
Qed.

(* in general: every holder of the rebuilt type sees an instance just built by [mk]; its own if the group is
   exclusive; the other types see what they saw *)
Lemma reg_rebuild_fresh mk tm c r r' evs : reg_rebuild mk tm c r = Some (r', evs) ->
  (forall e, reg_get c e r <> None ->
     exists e0, reg_get c e r' = Some (mk e0) /\ reg_get c e0 r <> None /\
       (forall l1 p insts l2, r = l1 ++ GExcl c p insts :: l2 -> ~ In c (map g_ctx l1) -> e0 = e)) /\
  (forall c' e, c' <> c -> reg_get c' e r' = reg_get c' e r).
Proof.
  intros H. destruct (index_of c r) as [n|] eqn:Ei.
  - destruct (index_of_some c r n Ei) as (l1 & g & l2 & -> & Hl & Hc & Hn).
    destruct g as [c0 p insts|c0 p ents i]; cbn [g_ctx] in Hc; subst c0.
    + destruct (reg_rebuild_excl mk tm c l1 p insts l2 Hn) as (evs' & Hr & Hg). rewrite Hr in H. inversion H; subst r' evs. split.
      * intros e He. rewrite reg_get_found in He; [|exact Hn|reflexivity]. apply group_get_in in He. cbn [g_ents] in He.
        exists e. split; [exact (Hg e He)|]. split.
        -- rewrite reg_get_found; [|exact Hn|reflexivity]. apply group_get_in. exact He.
        -- reflexivity.
      * intros c' e Hne. apply reg_get_replace; [reflexivity | cbn [g_ctx]; congruence].
    + destruct ents as [|e0 ents].
      * unfold reg_rebuild in H. rewrite Ei, <- Hl, nth_error_mid in H. discriminate.
      * destruct (reg_rebuild_shared mk tm c l1 p e0 ents i l2 Hn) as (Hr & Hg). rewrite Hr in H. inversion H; subst r' evs. split.
        -- intros e He. rewrite reg_get_found in He; [|exact Hn|reflexivity]. apply group_get_in in He. cbn [g_ents] in He.
           exists e0. split; [exact (Hg e He)|]. split.
           ++ rewrite reg_get_found; [|exact Hn|reflexivity]. apply group_get_in. left. reflexivity.
           ++ intros l1' p' insts' l2' Heq Hn'. exfalso.
              assert (E : length l1' = length l1).
              { pose proof (index_of_found c l1' (GExcl c p' insts') l2' Hn' eq_refl) as E1. rewrite <- Heq in E1.
                rewrite Ei in E1. congruence. }
              pose proof (nth_error_mid l1' (GExcl c p' insts') l2') as N1. rewrite <- Heq, E, nth_error_mid in N1. discriminate.
        -- intros c' e Hne. apply reg_get_replace; [reflexivity | cbn [g_ctx]; congruence].
  - unfold reg_rebuild in H. rewrite Ei in H. inversion H; subst r' evs. split; [|reflexivity].
    intros e He. exfalso. apply He. apply reg_get_absent. apply index_of_none. exact Ei.
Qed.

(* with the plugin's constructor every binding of such an instance starts suppressed *)
Lemma reg_rebuild_suppressed sc tm c r r' evs : reg_rebuild (mk_inst sc c) tm c r = Some (r', evs) ->
  forall e, reg_get c e r <> None -> exists i', reg_get c e r' = Some i' /\ all_suppressed i'.
Proof.
  intros H e He. destruct (reg_rebuild_fresh _ tm c r r' evs H) as (H1 & _).
  destruct (H1 e He) as (e0 & Hg & _). exists (mk_inst sc c e0). split; [exact Hg | apply mk_inst_suppressed].
Qed.
Lemma reg_add_fresh_suppressed sc c e r : index_of c r = None ->
  reg_get c e (reg_add (mk_inst sc c) c e r) = Some (mk_inst sc c e) /\ all_suppressed (mk_inst sc c e).
Proof. intros H. split; [apply reg_add_fresh; exact H | apply mk_inst_suppressed]. Qed.
Lemma reg_add_excl_suppressed sc c e l1 p insts l2 :
  ~ In c (map g_ctx l1) -> ~ In e (map fst insts) ->
  reg_get c e (reg_add (mk_inst sc c) c e (l1 ++ GExcl c p insts :: l2)) = Some (mk_inst sc c e) /\
  all_suppressed (mk_inst sc c e) /\
  forall e', e' <> e -> reg_get c e' (reg_add (mk_inst sc c) c e (l1 ++ GExcl c p insts :: l2)) =
                        reg_get c e' (l1 ++ GExcl c p insts :: l2).
Proof.
  intros Hn He. destruct (reg_add_excl (mk_inst sc c) c e l1 p insts l2 Hn He) as (H1 & H2).
  split; [exact H1|]. split; [apply mk_inst_suppressed | exact H2].
Qed.

(* the Rebuild operation of the plugin: every instance of every registered type is replaced by a fresh one *)
Definition sees_fresh (r : registry) (c : ctx) (e : entity) : Prop :=
  exists i, reg_get c e r = Some i /\ all_suppressed i.

Definition rebuild_one (sc : scenario) (acc : option op_out) (c : ctx) : option op_out :=
  match acc with
  | None => None
  | Some a =>
      let w1 := oo_world a in
      let built := match index_of c (w_reg w1), nth_error (w_reg w1) (match index_of c (w_reg w1) with Some n => n | None => O end) with
                   | Some _, Some (GExcl _ _ insts) => map (fun ei => (c, fst ei)) insts
                   | Some _, Some (GShared _ _ (e0 :: _) _) => [(c, e0)]
                   | _, _ => []
                   end in
      match reg_rebuild (mk_inst sc c) (w_time w1) c (w_reg w1) with
      | Some (r', Some evs) => Some (mkOpOut (mkWorld (w_holds w1) r' (w_time w1)) (oo_events a ++ evs) (oo_built a ++ built))
      | _ => None
      end
  end.
Lemma apply_rebuild_fold sc w : apply_op sc w ORebuild = fold_left (rebuild_one sc) (s_menu sc) (Some (mkOpOut w [] [])).
Proof. reflexivity. Qed.
Lemma rebuild_fold_none sc l : fold_left (rebuild_one sc) l None = None.
Proof. induction l as [|c l IH]; [reflexivity | exact IH]. Qed.

Lemma rebuild_fold_fresh sc l : forall a o, fold_left (rebuild_one sc) l (Some a) = Some o ->
  forall c e, reg_get c e (w_reg (oo_world a)) <> None ->
    In c l \/ sees_fresh (w_reg (oo_world a)) c e -> sees_fresh (w_reg (oo_world o)) c e.
Proof.
  induction l as [|c0 l IH]; intros a o H c e Hne Hor; cbn [fold_left] in H.
  - inversion H; subst o. destruct Hor as [[]|Hf]. exact Hf.
  - cbn [rebuild_one] in H. cbv zeta in H.
    destruct (reg_rebuild (mk_inst sc c0) (w_time (oo_world a)) c0 (w_reg (oo_world a))) as [[r' [evs|]]|] eqn:Er;
      try (rewrite rebuild_fold_none in H; discriminate).
    destruct (reg_rebuild_fresh _ _ _ _ _ _ Er) as (F1 & F2).
    refine (IH _ o H c e _ _); cbn [oo_world w_reg].
    + destruct (Z.eq_dec c c0) as [->|Hd]; [|rewrite (F2 c e Hd); exact Hne].
      destruct (F1 e Hne) as (e0 & -> & _). discriminate.
    + destruct (Z.eq_dec c c0) as [->|Hd].
      * right. exact (reg_rebuild_suppressed sc _ _ _ _ _ Er e Hne).
      * destruct Hor as [[Hc|Hin]|Hf]; [congruence | left; exact Hin | right].
        unfold sees_fresh. rewrite (F2 c e Hd). exact Hf.
Qed.

Lemma rebuild_op_fresh sc w o : apply_op sc w ORebuild = Some o ->
  forall c e, In c (s_menu sc) -> reg_get c e (w_reg w) <> None -> sees_fresh (w_reg (oo_world o)) c e.
Proof.
  rewrite apply_rebuild_fold. intros H c e Hc Hne.
  refine (rebuild_fold_fresh sc (s_menu sc) _ o H c e Hne _). left. exact Hc.
Qed.

(* ================================================================================================ *)
(* 6. together: a fresh instance, then frames                                                       *)
(* ================================================================================================ *)
Lemma fresh_then_reg_frames fs gs c e i : reg_get c e gs = Some i -> all_suppressed i ->
  exists i', reg_get c e (reg_frames fs gs) = Some i' /\ fresh_after (map rf_raw fs) i i'.
Proof.
  intros Hi Ha. destruct (reg_frames_after fs gs c e i Hi) as (i' & H & R).
  exists i'. split; [exact H | exact (suppressed_after _ _ _ Ha R)].
Qed.
Lemma fresh_then_quiet_frames sc fs w w' c e i :
  reg_get c e (w_reg w) = Some i -> all_suppressed i ->
  Forall (fun f => f_ops f = []) fs -> steps_world sc w (map SFrame fs) = Some w' ->
  exists i', reg_get c e (w_reg w') = Some i' /\ fresh_after (map f_raw fs) i i'.
Proof.
  intros Hi Ha Hq Hs. destruct (quiet_frames_after sc fs w w' c e i Hq Hs Hi) as (i' & H & R).
  exists i'. split; [exact H | exact (suppressed_after _ _ _ Ha R)].
Qed.
