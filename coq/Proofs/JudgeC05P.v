(* Soundness (S) and transfer (T) of the executable judgement Check/C05c.v (ok5) on app-level cases:
     C05_app_judgement_sound    : forall sc, profile_C05 sc -> ok5 (sc, trace (run sc)) = 0
     C05_app_judgement_transfer : forall sc t, profile_C05 sc -> agree_full (sc, t) = true -> ok5 (sc, t) = 0
   Ladder: (1) the consume buffer of one action evaluation is the list of contributing inputs on regular frames,
   (2) the rows the judgement reconstructs from the log are the own pairs of the evaluated inputs, (3) R1: one action,
   one instance, one registry update from any world satisfying the invariant, (4) R2: the invariant through operations
   and frames, (5) R3: induction over the steps. *)
From Coq Require Import List ZArith Bool Lia Sorted Permutation QArith.
From BEI Require Import Model.Frame Spec.ReadSpec Spec.Law Check.App Check.Merge Check.C12c Check.C05c.
From BEI Require Import Proofs.ValueP Proofs.StateP Proofs.ReaderP Proofs.ActionP Proofs.InstanceP Proofs.MergeP Proofs.ConsumeP
  Proofs.SuppressP Proofs.RegistryP Proofs.FrameLiftP Proofs.SuppressLiftP Proofs.TrackOpP.
From BEI Require Proofs.JudgeC03P Proofs.JudgeC12P.
Import ListNotations.
Open Scope Z_scope.
Module J3 := JudgeC03P.
Module J12 := JudgeC12P.

Notation all_true := J12.all_true.

(* ================================================================================================ *)
(* 1. the consume buffer of the loop over the inputs                                                *)
(* ================================================================================================ *)
Section Tagged.
  Context {X : Type}.
  Variables (pr : X -> pair) (tg : X -> input).

  Definition tcontrib (l : list X) : list X :=
    if state_eqb (max_own (map pr l)) SNone then []
    else filter (fun x => state_eqb (lawp (pr x)) (max_own (map pr l))) l.

  Lemma map_tcontrib l : map pr (tcontrib l) = contrib (map pr l).
  Proof.
    unfold tcontrib, contrib. destruct (state_eqb (max_own (map pr l)) SNone); [reflexivity|].
    generalize (max_own (map pr l)). intros s. induction l as [|x l IH]; [reflexivity|].
    cbn [map filter]. destruct (state_eqb (lawp (pr x)) s); cbn [map]; rewrite IH; reflexivity.
  Qed.

  Lemma filter_below s l : (forall y, In y l -> (state_rank (lawp (pr y)) < state_rank s)%nat) ->
    filter (fun x => state_eqb (lawp (pr x)) s) l = [].
  Proof.
    intros H. apply J12.filter_none. intros y Hy. specialize (H y Hy). apply state_eqb_neq. intros E. rewrite E in H. lia.
  Qed.

  Lemma tcontrib_snoc l x :
    tcontrib (l ++ [x]) =
    if state_eqb (lawp (pr x)) SNone then tcontrib l
    else match state_cmp (lawp (pr x)) (max_own (map pr l)) with
         | Lt => tcontrib l
         | Eq => tcontrib l ++ [x]
         | Gt => [x]
         end.
  Proof.
    unfold tcontrib. rewrite map_app. cbn [map]. rewrite max_own_snoc, filter_app. cbn [filter].
    assert (Hge : forall y, In y l -> (state_rank (lawp (pr y)) <= state_rank (max_own (map pr l)))%nat).
    { intros y Hy. apply max_own_ge. apply in_map. exact Hy. }
    set (M := max_own (map pr l)) in *. set (s := lawp (pr x)).
    destruct (state_eqb s SNone) eqn:Es.
    - apply state_eqb_eq in Es. rewrite Es, state_max_none_r.
      destruct (state_eqb M SNone) eqn:EM; [reflexivity|].
      replace (state_eqb SNone M) with false by (destruct M; try reflexivity; discriminate). apply app_nil_r.
    - unfold state_cmp. destruct (Nat.compare (state_rank s) (state_rank M)) eqn:Ec.
      + apply Nat.compare_eq in Ec. assert (E : s = M) by (destruct s, M; cbn in Ec; congruence). rewrite <- E.
        replace (state_max s s) with s by (destruct s; reflexivity). rewrite Es.
        replace (state_eqb s s) with true by (destruct s; reflexivity). reflexivity.
      + apply Nat.compare_lt_iff in Ec.
        replace (state_max M s) with M by (destruct M, s; cbn in *; try reflexivity; lia).
        replace (state_eqb M SNone) with false by (destruct M, s; cbn in *; try reflexivity; lia).
        replace (state_eqb s M) with false by (destruct M, s; cbn in *; try reflexivity; lia). apply app_nil_r.
      + apply Nat.compare_gt_iff in Ec.
        replace (state_max M s) with s by (destruct M, s; cbn in *; try reflexivity; lia). rewrite Es.
        replace (state_eqb s s) with true by (destruct s; reflexivity).
        rewrite filter_below; [|intros y Hy; specialize (Hge y Hy); lia].
        destruct (state_eqb M SNone); reflexivity.
  Qed.

  (* what input_step does to the buffer, given the running pair *)
  Definition bstep (consume : bool) (run : pair) (buf : list input) (x : X) : list input :=
    if state_eqb (lawp (pr x)) SNone then buf
    else match state_cmp (lawp (pr x)) (lawp run) with
         | Lt => buf
         | Eq => if consume then buf ++ [tg x] else buf
         | Gt => if consume then [tg x] else buf
         end.
  Definition bfold (acc : accumulation) (consume : bool) (st : pair * list input) (x : X) : pair * list input :=
    (merge acc (fst st) (pr x), bstep consume (fst st) (snd st) x).

  Lemma spec_pair_running acc d seen cur :
    negb (nonnone (lawp cur) && nonnone (max_own seen) && condless (fst (spec_pair acc d seen)))
    || as_bool (snd (spec_pair acc d seen)) = true ->
    lawp cur <> SNone -> lawp (spec_pair acc d seen) = max_own seen.
  Proof.
    intros Hchk En. apply state_eqb_neq in En. rewrite spec_pair_state. unfold nonnone in Hchk. rewrite En in Hchk. cbn [negb andb] in Hchk.
    destruct (state_eqb (max_own seen) SNone) eqn:Em.
    - apply state_eqb_eq in Em. rewrite Em. destruct (condless _ && negb _); reflexivity.
    - cbn [negb andb] in Hchk. destruct (condless _); cbn [andb negb orb] in *; [|reflexivity]. rewrite Hchk. reflexivity.
  Qed.

  Lemma bfold_spec acc d rest : forall seen,
    regular_from acc (spec_pair acc d (map pr seen)) (nonnone (max_own (map pr seen))) (map pr rest) = true ->
    fold_left (bfold acc true) rest (spec_pair acc d (map pr seen), map tg (tcontrib seen)) =
    (spec_pair acc d (map pr (seen ++ rest)), map tg (tcontrib (seen ++ rest))).
  Proof.
    induction rest as [|x rest IH]; intros seen Hreg; cbn [fold_left].
    - now rewrite app_nil_r.
    - cbn [map regular_from] in Hreg. apply andb_true_iff in Hreg. destruct Hreg as [Hchk Hreg].
      unfold bfold at 2. cbn [fst snd].
      rewrite (merge_step acc d (map pr seen) (pr x) Hchk) in *. rewrite <- nonnone_max_snoc in Hreg.
      assert (Eb : bstep true (spec_pair acc d (map pr seen)) (map tg (tcontrib seen)) x = map tg (tcontrib (seen ++ [x]))).
      { unfold bstep. rewrite tcontrib_snoc. destruct (state_eqb (lawp (pr x)) SNone) eqn:En; [reflexivity|].
        rewrite (spec_pair_running acc d (map pr seen) (pr x) Hchk) by (apply state_eqb_neq; exact En).
        destruct (state_cmp (lawp (pr x)) (max_own (map pr seen))); [rewrite map_app; reflexivity | reflexivity | reflexivity]. }
      rewrite Eb. replace (map pr seen ++ [pr x]) with (map pr (seen ++ [x])) in * by (rewrite map_app; reflexivity).
      rewrite (IH _ Hreg), <- app_assoc. reflexivity.
  Qed.

  Lemma bfold_regular acc d l :
    regular acc d (map pr l) = true ->
    snd (fold_left (bfold acc true) l (([], vzero d), [])) = map tg (tcontrib l).
  Proof.
    intros H. pose proof (bfold_spec acc d l [] H) as E. cbn [app] in E.
    transitivity (snd (fold_left (bfold acc true) l (spec_pair acc d (map pr []), map tg (tcontrib [])))); [reflexivity|].
    rewrite E. reflexivity.
  Qed.
  Lemma bfold_noconsume acc l : forall st, snd (fold_left (bfold acc false) l st) = snd st.
  Proof.
    induction l as [|x l IH]; intros st; cbn [fold_left]; [reflexivity|]. rewrite IH. unfold bfold, bstep. cbn [snd].
    destruct (state_eqb _ SNone); [reflexivity|]. destruct (state_cmp _ _); reflexivity.
  Qed.
End Tagged.

Definition bf (m : actions) (tm : time) (r : raw) (c : consumed) (dev : device) (a : aid) :=
  bfold (own_pair m tm r c dev) ib_input (aid_accum a) (aid_consume a).

Lemma input_step_buffer_eq m tm r c dev a st b run :
  l_tracker st = tr_ofp run ->
  l_buffer (fst (input_step m tm r c dev a st b)) =
  if skipped r c dev b then l_buffer st else bstep (own_pair m tm r c dev) ib_input (aid_consume a) run (l_buffer st) b.
Proof.
  intros Hst. destruct (skipped r c dev b) eqn:Hs.
  - unfold input_step. unfold skipped in Hs. rewrite Hs. reflexivity.
  - destruct (input_step_own m tm r c dev b) as (ms' & cs' & lg1 & lg2 & Hm & Hc).
    unfold input_step. unfold skipped in Hs. rewrite Hs, Hm, Hc, Hst.
    rewrite !tr_ofp_state. unfold bstep.
    destruct (state_eqb (lawp (own_pair m tm r c dev b)) SNone); [reflexivity|].
    destruct (state_cmp (lawp (own_pair m tm r c dev b)) (lawp run)); reflexivity.
Qed.

Lemma input_loop_buffer_eq m tm r c dev a bs : forall st run,
  l_tracker st = tr_ofp run ->
  l_buffer (fst (input_loop m tm r c dev a st bs)) =
  snd (fold_left (bf m tm r c dev a) (evaluated r c dev bs) (run, l_buffer st)).
Proof.
  induction bs as [|b rest IH]; intros st run Hst; cbn [input_loop]; [reflexivity|].
  pose proof (input_step_tracker m tm r c dev a st b run Hst) as Ht.
  pose proof (input_step_buffer_eq m tm r c dev a st b run Hst) as Hb.
  destruct (input_step m tm r c dev a st b) as [st1 b']. cbn [fst] in Ht, Hb.
  specialize (IH st1 _ Ht). destruct (input_loop m tm r c dev a st1 rest) as [st2 rest']. cbn [fst] in *.
  rewrite IH, Hb. unfold evaluated. cbn [filter].
  destruct (skipped r c dev b); cbn [negb fold_left]; reflexivity.
Qed.

Definition final_state (a : aid) (m : actions) : state := match lookup a m with Some d => d_state d | None => SNone end.

Lemma action_update_consumed_eq m tm r c dev recips ab :
  let a := ab_id ab in
  let o := action_update m tm r c dev recips ab in
  let buf := snd (fold_left (bf m tm r c dev a) (evaluated r c dev (ab_inputs ab)) (([], vzero (aid_dim a)), [])) in
  o_consumed o = if aid_consume a && negb (state_eqb (final_state a (o_actions o)) SNone)
                 then fold_left (fun acc i => consume acc dev i) buf c else c.
Proof.
  cbv zeta. unfold action_update, final_state.
  pose proof (input_loop_buffer_eq m tm r c dev (ab_id ab) (ab_inputs ab)
                (mkLoop (tracker_new (vzero (aid_dim (ab_id ab)))) [] []) ([], vzero (aid_dim (ab_id ab))) eq_refl) as Hb.
  destruct (input_loop m tm r c dev (ab_id ab) _ (ab_inputs ab)) as [st inputs']. cbn [fst l_buffer] in Hb.
  destruct (apply_mods m tm (t_value (l_tracker st)) (ab_mods ab)) as [[ms' v1] lg1].
  destruct (apply_conds m tm (with_value (l_tracker st) v1) (ab_conds ab)) as [[cs' tr] lg2].
  cbn [o_actions o_consumed]. rewrite lookup_store_same.
  destruct (data_update_fields (vdelta tm) (match lookup (ab_id ab) m with Some d => d | None => data_new (aid_dim (ab_id ab)) end)
              (tracker_state tr) (convert (aid_dim (ab_id ab)) (t_value tr))) as (Hs & _ & _).
  rewrite Hs, Hb. reflexivity.
Qed.

(* on a regular frame the buffer of a consuming action is the list of its contributing inputs *)
Lemma action_buffer_regular m tm r c dev ab :
  let a := ab_id ab in
  regular (aid_accum a) (aid_dim a) (own_pairs m tm r c dev (ab_inputs ab)) = true ->
  aid_consume a = true ->
  snd (fold_left (bf m tm r c dev a) (evaluated r c dev (ab_inputs ab)) (([], vzero (aid_dim a)), [])) =
  map ib_input (tcontrib (own_pair m tm r c dev) (evaluated r c dev (ab_inputs ab))).
Proof.
  cbv zeta. intros Hreg Hc. unfold bf. rewrite Hc. apply bfold_regular. exact Hreg.
Qed.

(* ================================================================================================ *)
(* 2. the judgement's rows against (results, value) pairs                                           *)
(* ================================================================================================ *)
Lemma veqb_refl v : veqb v v = true.
Proof. apply veqb_veq. apply veq_refl. Qed.

Lemma qle_bool_compat a a' b b' : (a == a')%Q -> (b == b')%Q -> Qle_bool a b = Qle_bool a' b'.
Proof.
  intros H1 H2. apply eq_true_iff_eq. rewrite !Qle_bool_iff, H1, H2. reflexivity.
Qed.
Lemma qabs_compat a a' : (a == a')%Q -> (qabs a == qabs a')%Q.
Proof.
  intros H. unfold qabs. rewrite (qle_bool_compat 0 0 a a' (Qeq_refl 0) H). destruct (Qle_bool 0 a'); rewrite H; reflexivity.
Qed.
Definition pickq (x y : Q) : Q := if qltb (qabs x) (qabs y) then y else x.
Lemma pickq_compat x x' y : (x == x')%Q -> (pickq x y == pickq x' y)%Q.
Proof.
  intros H. unfold pickq, qltb. rewrite (qle_bool_compat (qabs y) (qabs y) (qabs x) (qabs x') (Qeq_refl _) (qabs_compat _ _ H)).
  destruct (negb _); [reflexivity | exact H].
Qed.

Definition q3eq (a b : vec3) : Prop :=
  let '(ax, ay, az) := a in let '(bx, by_, bz) := b in (ax == bx /\ ay == by_ /\ az == bz)%Q.
Lemma as3_veq a b : veq a b -> q3eq (as3 a) (as3 b).
Proof.
  destruct a, b; cbn [veq]; try contradiction; cbn [as3 q3eq]; intros H.
  - subst. repeat split; reflexivity.
  - repeat split; try reflexivity. exact H.
  - destruct H. repeat split; try assumption; reflexivity.
  - exact H.
Qed.
Lemma convert_q3 d x y z x' y' z' : (x == x')%Q -> (y == y')%Q -> (z == z')%Q ->
  veq (convert d (V3 x y z)) (convert d (V3 x' y' z')).
Proof.
  intros Hx Hy Hz. destruct d; cbn [convert as_bool as1 as2 as3 veq].
  - rewrite (J3.qnz_compat _ _ Hx), (J3.qnz_compat _ _ Hy), (J3.qnz_compat _ _ Hz). reflexivity.
  - exact Hx.
  - split; assumption.
  - repeat split; assumption.
Qed.
Lemma acc_step_combine d mode a b v : vdim b = d -> veq a b -> veq (acc_step d mode a v) (combine_value mode b v).
Proof.
  intros Hd Hab. unfold acc_step, combine_value. rewrite Hd. apply as3_veq in Hab.
  destruct (as3 a) as [[ax ay] az], (as3 b) as [[bx by_] bz], (as3 v) as [[vx vy] vz]. cbn [q3eq] in Hab. destruct Hab as (H1 & H2 & H3).
  destruct mode; cbn [v3add v3maxabs of3].
  - apply convert_q3; rewrite Qred_correct; [rewrite H1 | rewrite H2 | rewrite H3]; reflexivity.
  - apply convert_q3; [exact (pickq_compat _ _ _ H1) | exact (pickq_compat _ _ _ H2) | exact (pickq_compat _ _ _ H3)].
Qed.

Definition prow (rw : row) : pair := (rw_res rw, rw_value rw).
Definition row_wf (rw : row) : Prop := rw_own rw = lawp (prow rw) /\ rw_condless rw = condless (rw_res rw).
Definition act (rw : row) : bool := negb (state_eqb (rw_own rw) SNone).

Lemma merged_value_rows d mode rows :
  veq (Check.Merge.merged_value d mode rows) (MergeP.merged_value mode d (map prow rows)).
Proof.
  destruct rows as [|r0 rest]; cbn [Check.Merge.merged_value MergeP.merged_value map]; [apply veq_refl|].
  change (snd (prow r0)) with (rw_value r0).
  assert (G : forall rest a b, vdim b = d -> veq a b ->
            veq (fold_left (fun acc x => acc_step d mode acc (rw_value x)) rest a)
                (fold_left (fun a0 x => combine_value mode a0 (snd x)) (map prow rest) b)).
  { clear. induction rest as [|x rest IH]; intros a b Hd Hab; cbn [fold_left map]; [exact Hab|].
    apply IH; [rewrite combine_value_dim; exact Hd | apply acc_step_combine; assumption]. }
  apply G; [apply convert_dim | apply veq_refl].
Qed.
Lemma as_bool_veq a b : veq a b -> as_bool a = as_bool b.
Proof. intros H. apply J3.as_bool_veqb. apply veqb_veq. exact H. Qed.

Lemma state_max_same a b : Check.App.state_max a b = MergeP.state_max a b.
Proof. destruct a, b; reflexivity. Qed.
Lemma max_state_rows rows : Forall row_wf rows -> max_state rows = max_own (map prow rows).
Proof.
  unfold max_state. intros H.
  assert (G : forall acc, fold_left (fun acc r => Check.App.state_max acc (rw_own r)) rows acc = MergeP.state_max acc (max_own (map prow rows))).
  { induction H as [|x l [Hx _] _ IH]; intros acc; cbn [fold_left map max_own fold_right]; [now rewrite state_max_none_r|].
    rewrite IH, state_max_same, Hx, <- state_max_assoc. reflexivity. }
  rewrite G. apply state_max_none_l.
Qed.
Lemma filter_ext_in' {A} (f g : A -> bool) l : (forall x, In x l -> f x = g x) -> filter f l = filter g l.
Proof. induction l as [|x l IH]; intros H; cbn [filter]; [reflexivity|]. rewrite (H x (or_introl eq_refl)), IH; [reflexivity|]. intros y Hy. apply H. now right. Qed.
Lemma contributing_rows rows : Forall row_wf rows -> contributing rows = tcontrib prow rows.
Proof.
  intros H. unfold contributing, tcontrib. rewrite (max_state_rows rows H).
  destruct (state_eqb (max_own (map prow rows)) SNone); [reflexivity|].
  apply filter_ext_in'. intros x Hx. rewrite Forall_forall in H. destruct (H x Hx) as [E _]. rewrite E. reflexivity.
Qed.

Lemma inactive_max l : filter act l = [] -> Forall row_wf l -> max_own (map prow l) = SNone.
Proof.
  induction l as [|x l IH]; intros Hf Hw; [reflexivity|]. inversion Hw as [|? ? [Hx _] Hw']; subst.
  cbn [filter] in Hf. unfold act at 1 in Hf. destruct (state_eqb (rw_own x) SNone) eqn:E; cbn [negb] in Hf; [|discriminate].
  apply state_eqb_eq in E. cbn [map max_own fold_right]. fold (max_own (map prow l)). rewrite (IH Hf Hw'), <- Hx, E. reflexivity.
Qed.
Lemma max_own_filter_act l : Forall row_wf l -> max_own (map prow (filter act l)) = max_own (map prow l).
Proof.
  induction 1 as [|x l [Hx _] _ IH]; [reflexivity|]. cbn [filter]. unfold act at 1.
  destruct (state_eqb (rw_own x) SNone) eqn:E; cbn [negb map max_own fold_right]; fold (max_own (map prow l)); fold (max_own (map prow (filter act l))).
  - apply state_eqb_eq in E. rewrite IH, <- Hx, E, state_max_none_l. reflexivity.
  - rewrite IH. reflexivity.
Qed.
Lemma tcontrib_filter_act l : Forall row_wf l -> tcontrib prow (filter act l) = tcontrib prow l.
Proof.
  intros H. unfold tcontrib. rewrite (max_own_filter_act l H). generalize (max_own (map prow l)). intros M.
  destruct (state_eqb M SNone) eqn:EM; [reflexivity|].
  induction H as [|x l [Hx _] _ IH]; [reflexivity|]. cbn [filter]. unfold act at 1.
  destruct (state_eqb (rw_own x) SNone) eqn:E; cbn [negb filter].
  - apply state_eqb_eq in E. rewrite <- Hx, E. replace (state_eqb SNone M) with false by (destruct M; try reflexivity; discriminate). exact IH.
  - rewrite IH. reflexivity.
Qed.
Lemma condless_rows c : Forall row_wf c -> forallb (fun p => condless (fst p)) (map prow c) = forallb rw_condless c.
Proof. induction 1 as [|x l [_ Hx] _ IH]; [reflexivity|]. cbn [map forallb]. rewrite IH, Hx. reflexivity. Qed.
Lemma Forall_filter {A} (P : A -> Prop) (f : A -> bool) l : Forall P l -> Forall P (filter f l).
Proof. intros H. apply Forall_forall. intros x Hx. apply filter_In in Hx. rewrite Forall_forall in H. apply H. tauto. Qed.
Lemma Forall_tcontrib (P : row -> Prop) l : Forall P l -> Forall P (tcontrib prow l).
Proof. intros H. unfold tcontrib. destruct (state_eqb _ SNone); [constructor | apply Forall_filter; exact H]. Qed.

Lemma regular_rows_spec d mode rest : forall seen, Forall row_wf (seen ++ rest) ->
  prefixes_ok d mode (filter act seen) (filter act rest) = true ->
  regular_spec mode d (map prow seen) (map prow rest) = true.
Proof.
  induction rest as [|x more IH]; intros seen Hw Hp; cbn [map regular_spec]; [reflexivity|].
  assert (Hws : Forall row_wf seen) by (apply Forall_app in Hw; tauto).
  assert (Hwx : row_wf x) by (apply Forall_app in Hw; destruct Hw as [_ Hw]; inversion Hw; assumption).
  assert (Hw' : Forall row_wf ((seen ++ [x]) ++ more)) by (rewrite <- app_assoc; exact Hw).
  replace (map prow seen ++ [prow x]) with (map prow (seen ++ [x])) by (rewrite map_app; reflexivity).
  cbn [filter] in Hp. destruct (act x) eqn:Ea.
  - cbn [prefixes_ok] in Hp. apply andb_true_iff in Hp. destruct Hp as [Hc Hp]. apply andb_true_iff. split.
    + destruct (filter act seen) as [|y fs] eqn:Ef.
      * rewrite (inactive_max seen Ef Hws). cbn [nonnone state_eqb negb andb]. rewrite andb_false_r. reflexivity.
      * rewrite <- Ef in Hc. rewrite (contributing_rows _ (Forall_filter _ _ _ Hws)), (tcontrib_filter_act seen Hws) in Hc.
        rewrite <- map_tcontrib. rewrite (condless_rows _ (Forall_tcontrib _ _ Hws)).
        rewrite <- (as_bool_veq _ _ (merged_value_rows d mode (tcontrib prow seen))).
        destruct (forallb rw_condless (tcontrib prow seen)); [|rewrite andb_false_r; reflexivity].
        cbn [andb negb] in Hc. apply negb_true_iff, negb_false_iff in Hc. rewrite Hc. apply orb_true_r.
    + apply IH; [exact Hw'|]. rewrite filter_app. cbn [filter]. rewrite Ea. exact Hp.
  - apply andb_true_iff. split.
    + destruct Hwx as [Hx _]. unfold act in Ea. apply negb_false_iff in Ea. rewrite Hx in Ea. unfold nonnone. rewrite Ea. reflexivity.
    + apply IH; [exact Hw'|]. rewrite filter_app. cbn [filter]. rewrite Ea, app_nil_r. exact Hp.
Qed.

Lemma regular_rows d mode rows : Forall row_wf rows ->
  Check.Merge.regular d mode rows = true -> MergeP.regular mode d (map prow rows) = true.
Proof.
  intros Hw H. rewrite regular_is_spec. apply (regular_rows_spec d mode rows []); [exact Hw | exact H].
Qed.

(* ================================================================================================ *)
(* 3. reading the rows of an action off the frame's log                                             *)
(* ================================================================================================ *)
Definition blk (ic : Z * cond) : bool := match cond_kind (snd ic) with KBlocker _ => true | _ => false end.
Definition blk_k (x : Z * ckind) : bool := match snd x with KBlocker _ => true | _ => false end.
Definition row_fn (lg : list logitem) (ib : ibind) : list row :=
  match first_mod_in (ib_mods ib) lg, last_mod_out (ib_mods ib) lg, results_of (ib_conds ib) lg with
  | Some rd, Some v, Some rs => [mkRow (ib_input ib) rd v rs (law rs v) (forallb blk (ib_conds ib))]
  | _, _, _ => []
  end.
Lemma rows_of_fn b lg : rows_of b lg = flat_map (row_fn lg) (ab_inputs b).
Proof. reflexivity. Qed.

Definition row_of (m : actions) (tm : time) (r : raw) (c : consumed) (dev : device) (ib : ibind) : row :=
  let p := own_pair m tm r c dev ib in
  mkRow (ib_input ib) (reader_value r c dev (ib_input ib)) (snd p) (fst p) (lawp p) (forallb blk (ib_conds ib)).

Lemma blk_ck cs : forallb blk cs = forallb blk_k (J3.ck_of cs).
Proof. unfold J3.ck_of. induction cs as [|x cs IH]; [reflexivity|]. cbn [forallb map]. rewrite IH. reflexivity. Qed.
Lemma blk_condless look tm v cs : forallb blk cs = condless (cond_results look tm v cs).
Proof.
  rewrite J3.condless_ck, blk_ck. induction (J3.ck_of cs) as [|[id k] l IH]; [reflexivity|].
  cbn [forallb existsb]. rewrite IH, negb_orb. unfold blk_k. cbn [snd]. destruct k; reflexivity.
Qed.
Lemma row_of_wf m tm r c dev ib : row_wf (row_of m tm r c dev ib).
Proof. split; [reflexivity|]. unfold row_of, own_pair. cbn [rw_condless rw_res fst]. apply blk_condless. Qed.
Lemma prow_row_of m tm r c dev ib : prow (row_of m tm r c dev ib) = own_pair m tm r c dev ib.
Proof. unfold prow, row_of. cbn [rw_res rw_value]. destruct (own_pair m tm r c dev ib); reflexivity. Qed.

Lemma results_of_same cs lg : Check.Merge.results_of cs lg = C03c.results_of cs lg.
Proof. reflexivity. Qed.
Lemma last_mod_out_same ms lg : Check.Merge.last_mod_out ms lg = C03c.last_mod_out ms lg.
Proof. reflexivity. Qed.

Lemma first_mod_in_ids ms lg :
  first_mod_in ms lg = match ids_of ms with id :: _ => option_map (fun x => fst (fst x)) (find_mod id lg) | [] => None end.
Proof. destruct ms as [|[id x] r]; reflexivity. Qed.
Lemma apply_mods_first m tm v id x rest :
  exists vout, In (LMod id v vout (seen_of m)) (snd (apply_mods m tm v ((id, x) :: rest))).
Proof.
  cbn [apply_mods]. destruct (modif_apply (look_of m) tm v x) as [x' v']. destruct (apply_mods m tm v' rest) as [[r' v''] lg].
  cbn [snd]. exists v'. left. reflexivity.
Qed.
Lemma mods_first_found LG m tm v ms :
  NoDup (map log_id LG) -> incl (snd (apply_mods m tm v ms)) LG -> ms <> [] -> first_mod_in ms LG = Some v.
Proof.
  intros Hd Hi Hne. destruct ms as [|[id x] rest]; [congruence|]. cbn [first_mod_in].
  destruct (apply_mods_first m tm v id x rest) as (vout & Hin).
  rewrite (J3.find_mod_in LG Hd id v vout _ (Hi _ Hin)). reflexivity.
Qed.

Lemma rows_model LG m tm r c dev : NoDup (map log_id LG) -> forall ibs,
  (forall ib, In ib ibs -> ib_mods ib <> []) ->
  (forall ib, In ib ibs -> skipped r c dev ib = false -> incl (J3.input_log m tm r c dev ib) LG) ->
  (forall ib, In ib ibs -> skipped r c dev ib = true -> forall id, In id (ids_of (ib_mods ib)) -> ~ In id (map log_id LG)) ->
  flat_map (row_fn LG) ibs = map (row_of m tm r c dev) (evaluated r c dev ibs).
Proof.
  intros Hd. induction ibs as [|ib rest IH]; intros Hne Hev Hsk; [reflexivity|].
  cbn [flat_map]. unfold evaluated. cbn [filter]. fold (evaluated r c dev rest).
  rewrite IH; [|intros x Hx; apply Hne; now right|intros x Hx; apply Hev; now right|intros x Hx; apply Hsk; now right].
  destruct (skipped r c dev ib) eqn:Hs; cbn [negb].
  - unfold row_fn. rewrite first_mod_in_ids. destruct (ids_of (ib_mods ib)) as [|id l] eqn:Ei; [reflexivity|].
    rewrite J3.find_mod_notin; [reflexivity|]. apply (Hsk ib (or_introl eq_refl) Hs). rewrite Ei. now left.
  - pose proof (Hev ib (or_introl eq_refl) Hs) as Hi. unfold J3.input_log in Hi. unfold row_fn. rewrite results_of_same, last_mod_out_same.
    rewrite (J3.conds_found LG m tm (tracker_new (snd (own_pair m tm r c dev ib))) (ib_conds ib) Hd)
      by (intros x Hx; apply Hi; apply in_or_app; now right).
    rewrite (J3.mods_found LG m tm (reader_value r c dev (ib_input ib)) (ib_mods ib) Hd)
      by (try (apply Hne; now left); intros x Hx; apply Hi; apply in_or_app; now left).
    rewrite (mods_first_found LG m tm (reader_value r c dev (ib_input ib)) (ib_mods ib) Hd)
      by (try (apply Hne; now left); intros x Hx; apply Hi; apply in_or_app; now left).
    reflexivity.
Qed.

(* the judgement reads only the signature of the stored binding *)
Definition isig5 (ib : ibind) : input * list Z * list (Z * ckind) := (ib_input ib, ids_of (ib_mods ib), J3.ck_of (ib_conds ib)).
Definition sig5 (b : abind) := (ab_id b, ids_of (ab_mods b), J3.ck_of (ab_conds b), map isig5 (ab_inputs b)).

Lemma row_fn_sig lg ib ib' : isig5 ib = isig5 ib' -> row_fn lg ib = row_fn lg ib'.
Proof.
  unfold isig5. intros H. inversion H as [[H1 H2 H3]]. unfold row_fn.
  rewrite !results_of_same, !last_mod_out_same, !first_mod_in_ids, (J3.last_mod_out_sig lg _ _ H2), (J3.results_of_sig lg _ _ H3), H1, H2, !blk_ck, H3. reflexivity.
Qed.
Lemma rows_of_sig lg b b' : map isig5 (ab_inputs b) = map isig5 (ab_inputs b') -> rows_of b lg = rows_of b' lg.
Proof.
  rewrite !rows_of_fn. generalize (ab_inputs b) (ab_inputs b'). induction l as [|ib l IH]; intros [|ib' l'] H; try discriminate; [reflexivity|].
  cbn [map] in H. pose proof (f_equal (hd (isig5 ib)) H) as H1. pose proof (f_equal (@tl _) H) as H2. cbn [hd tl] in H1, H2.
  cbn [flat_map]. rewrite (row_fn_sig lg ib ib' H1), (IH l' H2). reflexivity.
Qed.

(* ================================================================================================ *)
(* 4. R1: one action evaluation                                                                     *)
(* ================================================================================================ *)
Lemma tcontrib_map {X Y} (pr : Y -> pair) (f : X -> Y) l : tcontrib pr (map f l) = map f (tcontrib (fun x => pr (f x)) l).
Proof.
  unfold tcontrib. rewrite map_map. destruct (state_eqb _ SNone); [reflexivity|].
  generalize (max_own (map (fun x => pr (f x)) l)). intros s. induction l as [|x l IH]; [reflexivity|].
  cbn [map filter]. destruct (state_eqb (lawp (pr (f x))) s); cbn [map]; rewrite IH; reflexivity.
Qed.
Lemma tcontrib_ext {X} (p q : X -> pair) l : (forall x, p x = q x) -> tcontrib p l = tcontrib q l.
Proof.
  intros H. unfold tcontrib. rewrite (map_ext p q H). destruct (state_eqb _ SNone); [reflexivity|].
  apply filter_ext_in'. intros x _. rewrite H. reflexivity.
Qed.

Definition snap_state (c e a : Z) (snaps : list snap_entry) : state :=
  match snap_of_entry c e a snaps with Some s => sn_state s | None => SNone end.

Definition hidden_ok (r : raw) (res : option hidden_t) (cs : consumed) : Prop :=
  res = None \/ exists h', res = Some h' /\ cs = consume_list h' (update_state r).

Lemma judge_action_ok f c e dev b b0 out h m tm recips :
  let r := f_raw f in
  let cs := consume_list h (update_state r) in
  let o := action_update m tm r cs dev recips b in
  sig5 b = sig5 b0 ->
  NoDup (map log_id (x_log out)) ->
  incl (o_log o) (x_log out) ->
  (forall ib, In ib (ab_inputs b) -> skipped r cs dev ib = true ->
              forall id, In id (ids_of (ib_mods ib)) -> ~ In id (map log_id (x_log out))) ->
  (forall ib, In ib (ab_inputs b) -> ib_mods ib <> []) ->
  snap_state c e (ab_id b) (x_snaps out) = final_state (ab_id b) (o_actions o) ->
  all_true (fst (judge_action f c e dev b0 out h)) /\ hidden_ok r (snd (judge_action f c e dev b0 out h)) (o_consumed o).
Proof.
  cbv zeta. intros Hsig Hd Hincl Hsk Hne Hsnap.
  set (r := f_raw f) in *. set (cs := consume_list h (update_state r)) in *.
  assert (Hid : ab_id b0 = ab_id b) by (unfold sig5 in Hsig; congruence).
  assert (Hin : map isig5 (ab_inputs b0) = map isig5 (ab_inputs b)) by (unfold sig5 in Hsig; congruence).
  pose proof (J3.action_update_log m tm r cs dev recips b) as Hlog. cbv zeta in Hlog. rewrite Hlog in Hincl.
  assert (Hi1 : forall ib, In ib (ab_inputs b) -> skipped r cs dev ib = false -> incl (J3.input_log m tm r cs dev ib) (x_log out)).
  { intros ib Hib Hs x Hx. apply Hincl. apply in_or_app. left. apply in_flat_map. exists ib. split; [|exact Hx].
    unfold evaluated. apply filter_In. split; [exact Hib|]. now rewrite Hs. }
  set (evs := evaluated r cs dev (ab_inputs b)).
  assert (Hrows : rows_of b0 (x_log out) = map (row_of m tm r cs dev) evs).
  { rewrite (rows_of_sig _ b0 b Hin), rows_of_fn. apply rows_model; assumption. }
  assert (Hwf : Forall row_wf (map (row_of m tm r cs dev) evs)).
  { apply Forall_forall. intros x Hx. apply in_map_iff in Hx. destruct Hx as (ib & <- & _). apply row_of_wf. }
  unfold judge_action. rewrite Hrows, Hid. fold r.
  assert (Hchk : all_true (map (fun rw => if is_hidden h dev (rw_input rw) then (1, veqb (rw_read rw) (zero_of (rw_input rw)))
                                          else (2, veqb (rw_read rw) (spec_read r (ui_any r) dev (rw_input rw))))
                               (map (row_of m tm r cs dev) evs))).
  { intros k bb Hk. apply in_map_iff in Hk. destruct Hk as (rw & Hk & Hrw). apply in_map_iff in Hrw. destruct Hrw as (ib & <- & _).
    cbn [row_of rw_input rw_read] in Hk. unfold cs in Hk. rewrite read_in_frame in Hk.
    change (is_hidden h dev (ib_input ib)) with (hidden h dev (ib_input ib)) in Hk.
    destruct (hidden h dev (ib_input ib)); inversion Hk; apply veqb_refl. }
  destruct (Check.Merge.regular (aid_dim (ab_id b)) (aid_accum (ab_id b)) (map (row_of m tm r cs dev) evs)) eqn:Hreg;
    cbn [fst snd]; (split; [exact Hchk|]); [|left; reflexivity].
  right. eexists. split; [reflexivity|].
  pose proof (regular_rows _ _ _ Hwf Hreg) as Hreg'. rewrite map_map in Hreg'.
  rewrite (map_ext (fun x => prow (row_of m tm r cs dev x)) (own_pair m tm r cs dev) (prow_row_of m tm r cs dev)) in Hreg'. fold (own_pairs m tm r cs dev (ab_inputs b)) in Hreg'.
  pose proof (action_update_consumed_eq m tm r cs dev recips b) as Hc. cbv zeta in Hc. rewrite Hc. clear Hc.
  fold (snap_state c e (ab_id b) (x_snaps out)).
  replace (match snap_of_entry c e (ab_id b) (x_snaps out) with
           | Some s => aid_consume (ab_id b) && negb (state_eqb (sn_state s) SNone) | None => false end)
    with (aid_consume (ab_id b) && negb (state_eqb (snap_state c e (ab_id b) (x_snaps out)) SNone)).
  2:{ unfold snap_state. destruct (snap_of_entry c e (ab_id b) (x_snaps out)); [reflexivity|]. cbn. apply andb_false_r. }
  rewrite Hsnap. destruct (aid_consume (ab_id b)) eqn:Hcons; cbn [andb]; [|reflexivity].
  destruct (negb (state_eqb (final_state (ab_id b) (o_actions (action_update m tm r cs dev recips b))) SNone)); [|reflexivity].
  rewrite (action_buffer_regular m tm r cs dev b Hreg' Hcons). fold evs.
  rewrite consume_list_app, consume_list_dev. fold cs. f_equal.
  rewrite (contributing_rows _ Hwf). rewrite tcontrib_map, !map_map. reflexivity.
Qed.

(* ================================================================================================ *)
(* 5. R1: the actions of one instance                                                               *)
(* ================================================================================================ *)
Definition jstep5 (f : frame_in) (o : out) (acc : list (Z * bool) * option hidden_t) (cb : Z * Z * device * abind)
  : list (Z * bool) * option hidden_t :=
  match acc with
  | (chk, None) => (chk, None)
  | (chk, Some h) => let '(c, e, dev, b) := cb in
                     let '(chk', h') := judge_action f c e dev b o h in (chk ++ chk', h')
  end.
Definition all_of (sc : scenario) (ev : list (Z * Z)) : list (Z * Z * device * abind) :=
  flat_map (fun ce => let '(c, e) := ce in
                      let spec := cfg_lookup sc c e in
                      map (fun b => (c, e, i_pad spec, b)) (merged_actions spec)) ev.
Lemma judge_frame_fold sc f before o :
  judge_frame sc f before o = fst (fold_left (jstep5 f o) (all_of sc (C12c.evaluated sc before)) ([], Some [])).
Proof. reflexivity. Qed.

Lemma jstep5_none f o l : forall chk, fold_left (jstep5 f o) l (chk, None) = (chk, None).
Proof. induction l as [|x l IH]; intros chk; [reflexivity|]. cbn [fold_left jstep5]. apply IH. Qed.

Lemma all_true_app (a b : list (Z * bool)) : all_true a -> all_true b -> all_true (a ++ b).
Proof. intros Ha Hb k x H. apply in_app_or in H. destruct H as [H|H]; [exact (Ha k x H) | exact (Hb k x H)]. Qed.

Definition bu_log (m : actions) (tm : time) (r : raw) (c : consumed) (dev : device) (recips : list entity) (bs : list abind) : list logitem :=
  snd (binds_update m tm r c dev recips bs).
Definition bu_consumed (m : actions) (tm : time) (r : raw) (c : consumed) (dev : device) (recips : list entity) (bs : list abind) : consumed :=
  snd (fst (fst (binds_update m tm r c dev recips bs))).
Lemma bu_cons m tm r c dev recips b rest :
  let o := action_update m tm r c dev recips b in
  bu_log m tm r c dev recips (b :: rest) = o_log o ++ bu_log (o_actions o) tm r (o_consumed o) dev recips rest /\
  bu_consumed m tm r c dev recips (b :: rest) = bu_consumed (o_actions o) tm r (o_consumed o) dev recips rest.
Proof.
  cbv zeta. unfold bu_log, bu_consumed. cbn [binds_update].
  destruct (binds_update (o_actions (action_update m tm r c dev recips b)) tm r (o_consumed (action_update m tm r c dev recips b)) dev recips rest)
    as [[[[rest' m'] c'] ev] lg]. split; reflexivity.
Qed.

Lemma binds_fold f cx e out dev recips tm : forall bs bs0 m h chk,
  let r := f_raw f in
  let cs := consume_list h (update_state r) in
  map sig5 bs = map sig5 bs0 ->
  NoDup (map ab_id bs) ->
  all_true chk ->
  NoDup (map log_id (x_log out)) ->
  incl (bu_log m tm r cs dev recips bs) (x_log out) ->
  (forall b ib, In b bs -> In ib (ab_inputs b) -> skipped r cs dev ib = true ->
                forall id, In id (ids_of (ib_mods ib)) -> ~ In id (map log_id (x_log out))) ->
  (forall b ib, In b bs -> In ib (ab_inputs b) -> ib_mods ib <> []) ->
  (forall b, In b bs -> snap_state cx e (ab_id b) (x_snaps out) = final_state (ab_id b) (final_actions m tm r cs dev recips bs)) ->
  let res := fold_left (jstep5 f out) (map (fun b => (cx, e, dev, b)) bs0) (chk, Some h) in
  all_true (fst res) /\ hidden_ok r (snd res) (bu_consumed m tm r cs dev recips bs).
Proof.
  cbv zeta. induction bs as [|b rest IH]; intros bs0 m h chk Hsig Hnd Hchk Hd Hincl Hsk Hne Hsnap.
  - destruct bs0; [|discriminate]. cbn [map fold_left fst snd]. split; [exact Hchk|]. right. exists h. split; reflexivity.
  - destruct bs0 as [|b0 rest0]; [discriminate|]. cbn [map] in Hsig.
    pose proof (f_equal (hd (sig5 b)) Hsig) as Hs1. pose proof (f_equal (@tl _) Hsig) as Hs2. cbn [hd tl] in Hs1, Hs2.
    cbn [map] in Hnd. inversion Hnd as [|? ? Hnb Hnd']; subst.
    set (r := f_raw f) in *. set (cs := consume_list h (update_state r)) in *.
    destruct (bu_cons m tm r cs dev recips b rest) as [El Ec]. rewrite Ec. rewrite El in Hincl.
    set (o := action_update m tm r cs dev recips b) in *.
    assert (Hfin : final_state (ab_id b) (final_actions m tm r cs dev recips (b :: rest)) = final_state (ab_id b) (o_actions o)).
    { unfold final_state. rewrite final_actions_cons. fold o. rewrite final_other by exact Hnb. reflexivity. }
    destruct (judge_action_ok f cx e dev b b0 out h m tm recips Hs1 Hd) as [Hc1 Hh1].
    + intros x Hx. apply Hincl. apply in_or_app. left. exact Hx.
    + intros ib Hib. apply (Hsk b ib (or_introl eq_refl) Hib).
    + intros ib Hib. apply (Hne b ib (or_introl eq_refl) Hib).
    + rewrite (Hsnap b (or_introl eq_refl)). exact Hfin.
    + cbn [map fold_left jstep5]. fold r in Hh1. fold cs in Hh1. fold o in Hh1.
      destruct (judge_action f cx e dev b0 out h) as [chk1 oh1]. cbn [fst snd] in Hc1, Hh1.
      destruct Hh1 as [->|(h1 & -> & Eh1)].
      * rewrite jstep5_none. cbn [fst snd]. split; [apply all_true_app; assumption | left; reflexivity].
      * rewrite Eh1. rewrite Eh1 in Hincl. apply (IH rest0 (o_actions o) h1 (chk ++ chk1) Hs2 Hnd' (all_true_app _ _ Hchk Hc1) Hd).
        -- intros x Hx. apply Hincl. apply in_or_app. right. exact Hx.
        -- intros b' ib Hb' Hib Hs. apply (Hsk b' ib (or_intror Hb') Hib). rewrite skipped_phys in *. exact Hs.
        -- intros b' ib Hb'. apply (Hne b' ib (or_intror Hb')).
        -- intros b' Hb'. rewrite (Hsnap b' (or_intror Hb')). rewrite final_actions_cons. fold o. rewrite Eh1. reflexivity.
Qed.

(* ================================================================================================ *)
(* 6. R1: one registry update, on a registry in which every group holds one evaluated instance      *)
(* ================================================================================================ *)
Definition entry : Type := (Z * Z * list entity * inst)%type.      (* context type, entity, recipients, instance *)
Definition en_ce (en : entry) : Z * Z := (fst (fst (fst en)), snd (fst (fst en))).
Definition en_inst (en : entry) : inst := snd en.

Fixpoint e_log (tm : time) (r : raw) (c : consumed) (l : list entry) : list logitem :=
  match l with
  | [] => []
  | (cx, e, recips, i) :: rest => let io := inst_update tm r c recips i in io_log io ++ e_log tm r (io_consumed io) rest
  end.
Fixpoint e_after (tm : time) (r : raw) (c : consumed) (l : list entry) : list entry :=
  match l with
  | [] => []
  | (cx, e, recips, i) :: rest => let io := inst_update tm r c recips i in (cx, e, recips, io_inst io) :: e_after tm r (io_consumed io) rest
  end.

Definition gnorm (g : group) (en : entry) : Prop :=
  let '(cx, e, recips, i) := en in
  (exists p, g = GExcl cx p [(e, i)] /\ recips = [e]) \/ (exists p, g = GShared cx p recips i /\ In e recips).

Lemma reg_update_flat tm r gs l : Forall2 gnorm gs l -> forall c,
  ro_log (reg_update tm r c gs) = e_log tm r c l /\ Forall2 gnorm (ro_reg (reg_update tm r c gs)) (e_after tm r c l).
Proof.
  induction 1 as [|g [[[cx e] recips] i] gs l Hg _ IH]; intros c; [split; [reflexivity | constructor]|].
  destruct Hg as [(p & -> & ->)|(p & -> & Hin)]; cbn [reg_update excl_update e_log e_after]; cbv zeta.
  - cbn [ro_log ro_reg]. match goal with |- context [reg_update tm r ?c0 gs] => destruct (IH c0) as [I1 I2] end.
    rewrite app_nil_r, I1. split; [reflexivity|]. constructor; [|exact I2]. left. exists p. split; reflexivity.
  - cbn [ro_log ro_reg]. match goal with |- context [reg_update tm r ?c0 gs] => destruct (IH c0) as [I1 I2] end.
    rewrite I1. split; [reflexivity|]. constructor; [|exact I2]. right. exists p. split; [reflexivity | exact Hin].
Qed.

Lemma inst_update_parts tm r c recips i :
  let io := inst_update tm r c recips i in
  io_log io = bu_log (in_actions i) tm r c (in_pad i) recips (in_binds i) /\
  io_consumed io = bu_consumed (in_actions i) tm r c (in_pad i) recips (in_binds i) /\
  in_actions (io_inst io) = final_actions (in_actions i) tm r c (in_pad i) recips (in_binds i).
Proof.
  cbv zeta. unfold inst_update, bu_log, bu_consumed, final_actions.
  destruct (binds_update (in_actions i) tm r c (in_pad i) recips (in_binds i)) as [[[[bs m] c'] ev] lg]. repeat split.
Qed.

Definition inst_rel (i : inst) (s : inst_spec) : Prop :=
  in_pad i = i_pad s /\ map sig5 (in_binds i) = map sig5 (merged_actions s).
Definition mods_nonempty (bs : list abind) : Prop := forall b ib, In b bs -> In ib (ab_inputs b) -> ib_mods ib <> [].
Definition entry_ok (sc : scenario) (en : entry) : Prop :=
  let '(cx, e, recips, i) := en in
  inst_rel i (cfg_lookup sc cx e) /\ NoDup (map ab_id (in_binds i)) /\ mods_nonempty (in_binds i).
Definition snaps_ok (sc : scenario) (snaps : list snap_entry) (en : entry) : Prop :=
  let '(cx, e, recips, i) := en in
  forall b0, In b0 (merged_actions (cfg_lookup sc cx e)) -> snap_state cx e (ab_id b0) snaps = final_state (ab_id b0) (in_actions i).
Definition skipped_absent (r : raw) (LG : list logitem) (en : entry) : Prop :=
  forall b ib, In b (in_binds (en_inst en)) -> In ib (ab_inputs b) -> skipped r consumed_reset (in_pad (en_inst en)) ib = true ->
               forall id, In id (ids_of (ib_mods ib)) -> ~ In id (map log_id LG).

Lemma all_of_cons sc ce rest : all_of sc (ce :: rest) =
  map (fun b => (fst ce, snd ce, i_pad (cfg_lookup sc (fst ce) (snd ce)), b)) (merged_actions (cfg_lookup sc (fst ce) (snd ce))) ++ all_of sc rest.
Proof. destruct ce as [c e]. reflexivity. Qed.

Lemma sig5_id_map (bs bs0 : list abind) : map sig5 bs = map sig5 bs0 -> map ab_id bs = map ab_id bs0.
Proof.
  revert bs0. induction bs as [|b bs IH]; intros [|b0 bs0] H; try discriminate; [reflexivity|]. cbn [map] in *.
  pose proof (f_equal (hd (sig5 b)) H) as H1. pose proof (f_equal (@tl _) H) as H2. cbn [hd tl] in H1, H2.
  rewrite (IH _ H2). f_equal. unfold sig5 in H1. congruence.
Qed.

Lemma entries_fold sc f out tm : forall l h chk,
  let r := f_raw f in
  let cs := consume_list h (update_state r) in
  Forall (entry_ok sc) l ->
  all_true chk ->
  NoDup (map log_id (x_log out)) ->
  incl (e_log tm r cs l) (x_log out) ->
  Forall (skipped_absent r (x_log out)) l ->
  Forall (snaps_ok sc (x_snaps out)) (e_after tm r cs l) ->
  all_true (fst (fold_left (jstep5 f out) (all_of sc (map en_ce l)) (chk, Some h))).
Proof.
  cbv zeta. induction l as [|[[[cx e] recips] i] rest IH]; intros h chk Hok Hchk Hd Hincl Hsk Hsn; [exact Hchk|].
  set (r := f_raw f) in *. set (cs := consume_list h (update_state r)) in *.
  inversion Hok as [|? ? Hok1 Hok']; subst. unfold entry_ok in Hok1. destruct Hok1 as ((Hpad & Hsig) & Hnd & Hne). inversion Hsk as [|? ? Hsk1 Hsk']; subst.
  cbn [e_log e_after] in Hincl, Hsn. cbv zeta in Hincl, Hsn.
  destruct (inst_update_parts tm r cs recips i) as (El & Ec & Ea). rewrite El in Hincl. rewrite Ec in Hincl, Hsn.
  inversion Hsn as [|? ? Hsn1 Hsn']; subst. cbn [snaps_ok] in Hsn1. rewrite Ea in Hsn1.
  cbn [map]. rewrite all_of_cons, fold_left_app. cbn [en_ce fst snd]. rewrite <- Hpad.
  destruct (binds_fold f cx e out (in_pad i) recips tm (in_binds i) (merged_actions (cfg_lookup sc cx e)) (in_actions i) h chk Hsig Hnd Hchk Hd) as [H1 H2].
  - intros x Hx. apply Hincl. apply in_or_app. left. exact Hx.
  - intros b ib Hb Hib Hs. apply (Hsk1 b ib Hb Hib). cbn [en_inst snd]. rewrite skipped_phys in *. exact Hs.
  - exact Hne.
  - intros b Hb. assert (Hin : In (ab_id b) (map ab_id (merged_actions (cfg_lookup sc cx e)))) by (rewrite <- (sig5_id_map _ _ Hsig); apply in_map; exact Hb).
    apply in_map_iff in Hin. destruct Hin as (b0 & E & Hb0). rewrite <- E. apply Hsn1. exact Hb0.
  - fold r in H1, H2. fold cs in H1, H2.
    destruct (fold_left (jstep5 f out) (map (fun b => (cx, e, in_pad i, b)) (merged_actions (cfg_lookup sc cx e))) (chk, Some h)) as [chk1 oh1].
    cbn [fst snd] in H1, H2. destruct H2 as [->|(h1 & -> & Eh1)]; [rewrite jstep5_none; exact H1|].
    rewrite Eh1 in Hincl, Hsn'. apply IH; try assumption. intros x Hx. apply Hincl. apply in_or_app. right. exact Hx.
Qed.

(* ================================================================================================ *)
(* 7. the ids of the frame's log: unique, and those of suppressed inputs are absent                 *)
(* ================================================================================================ *)
Definition lids (r : raw) (dev : device) (bs : list abind) : list Z := concat (map (action_ids r consumed_reset dev) bs).

Lemma action_ids_reset r c dev ab : action_ids r c dev ab = action_ids r consumed_reset dev ab.
Proof.
  unfold action_ids.
  rewrite (map_ext (fun b => input_ids (skipped r c dev b) b) (fun b => input_ids (skipped r consumed_reset dev b) b)); [reflexivity|].
  intros b. rewrite (skipped_phys r c), (skipped_phys r consumed_reset). reflexivity.
Qed.
Lemma bu_log_ids tm r dev recips bs : forall m c, map log_id (bu_log m tm r c dev recips bs) = lids r dev bs.
Proof.
  induction bs as [|b rest IH]; intros m c; [reflexivity|].
  destruct (bu_cons m tm r c dev recips b rest) as [El _]. rewrite El, map_app, IH, action_update_ids, action_ids_reset. reflexivity.
Qed.
Definition en_lids (r : raw) (en : entry) : list Z := lids r (in_pad (en_inst en)) (in_binds (en_inst en)).
Definition en_all (en : entry) : list Z := J3.all_ids (in_binds (en_inst en)).
Lemma e_log_ids tm r l : forall c, map log_id (e_log tm r c l) = concat (map (en_lids r) l).
Proof.
  induction l as [|[[[cx e] recips] i] rest IH]; intros c; [reflexivity|]. cbn [e_log map concat]. cbv zeta.
  destruct (inst_update_parts tm r c recips i) as (El & _ & _). rewrite map_app, IH, El, bu_log_ids. reflexivity.
Qed.

Lemma en_lids_thin r en : J3.thin (en_lids r en) (en_all en).
Proof. apply J3.frame_ids_thin. Qed.

Lemma log_ids_nodup tm r c l : NoDup (concat (map en_all l)) -> NoDup (map log_id (e_log tm r c l)).
Proof. rewrite e_log_ids. apply (J3.thin_concat en_all (en_lids r) l). intros x. apply en_lids_thin. Qed.

Lemma log_skipped_absent tm r c l en : NoDup (concat (map en_all l)) -> In en l -> skipped_absent r (e_log tm r c l) en.
Proof.
  intros Hd Hen b ib Hb Hib Hs id Hid. rewrite e_log_ids.
  pose proof (J3.nodup_concat_in en_all l en Hd Hen) as Hdn.
  assert (Hidi : In id (J3.ib_ids ib)) by (unfold J3.ib_ids; apply in_or_app; left; exact Hid).
  apply (J3.concat_unique en_all (en_lids r) l en id Hd Hen).
  - unfold en_all, J3.all_ids. apply (J3.in_concat_map J3.ab_ids _ b id Hb). unfold J3.ab_ids. apply in_or_app. left.
    apply (J3.in_concat_map J3.ib_ids _ ib id Hib Hidi).
  - intros y. apply en_lids_thin.
  - apply (J3.skipped_ids_absent r consumed_reset _ _ b ib id Hdn Hb Hib Hs Hidi).
Qed.

(* configurations: the ids of the stored bindings are those of the configuration *)
Lemma sig5_sig b b0 : sig5 b = sig5 b0 -> J3.sig b = J3.sig b0.
Proof.
  unfold sig5, J3.sig. intros H. inversion H as [[H1 H2 H3 H4]]. rewrite H1, H2, H3. f_equal.
  revert H4. generalize (ab_inputs b) (ab_inputs b0). induction l as [|x l IH]; intros [|y l0] E; try discriminate; [reflexivity|].
  cbn [map] in *. pose proof (f_equal (hd (isig5 x)) E) as E1. pose proof (f_equal (@tl _) E) as E2. cbn [hd tl] in E1, E2.
  rewrite (IH _ E2). f_equal. unfold isig5 in E1. unfold J3.isig. congruence.
Qed.
Lemma sig5_sig_map bs bs0 : map sig5 bs = map sig5 bs0 -> map J3.sig bs = map J3.sig bs0.
Proof.
  revert bs0. induction bs as [|b bs IH]; intros [|b0 bs0] H; try discriminate; [reflexivity|]. cbn [map] in *.
  pose proof (f_equal (hd (sig5 b)) H) as H1. pose proof (f_equal (@tl _) H) as H2. cbn [hd tl] in H1, H2.
  rewrite (IH _ H2), (sig5_sig _ _ H1). reflexivity.
Qed.
Lemma all_ids_abinds bs : J3.all_ids bs = J12.abinds_all_ids bs.
Proof.
  unfold J3.all_ids, J12.abinds_all_ids. rewrite flat_map_concat_map. f_equal. apply map_ext. intros b.
  unfold J3.ab_ids, J12.abind_all_ids, J12.inputs_all_ids. rewrite flat_map_concat_map. reflexivity.
Qed.

Lemma nodup_concat_keys {A} (key : A -> Z) (F : A -> list Z) l :
  NoDup (map key l) -> (forall x, In x l -> NoDup (F x)) ->
  (forall x y z, In x l -> In y l -> key x <> key y -> In z (F x) -> ~ In z (F y)) ->
  NoDup (concat (map F l)).
Proof.
  induction l as [|a l IH]; intros Hk Hn Hdis; cbn [map concat]; [constructor|]. cbn [map] in Hk. inversion Hk as [|? ? Ha Hk']; subst.
  apply J3.nodup_app. split; [apply Hn; now left|]. split.
  - apply IH; [exact Hk' | intros x Hx; apply Hn; now right | intros x y z Hx Hy; apply Hdis; now right].
  - intros z Hz Hin. apply in_concat in Hin. destruct Hin as (ys & Hys & Hzy). apply in_map_iff in Hys. destruct Hys as (y & <- & Hy).
    apply (Hdis a y z (or_introl eq_refl) (or_intror Hy)); [|exact Hz | exact Hzy].
    intros E. apply Ha. rewrite E. apply in_map. exact Hy.
Qed.

(* ================================================================================================ *)
(* 8. the snapshots polled after the frame                                                          *)
(* ================================================================================================ *)
Lemma has_cfg_false sc c e : has_cfg sc c e = false -> cfg_lookup sc c e = mkSpec None [].
Proof.
  unfold has_cfg, cfg_lookup. intros H.
  destruct (find (fun x : Z * Z * inst_spec => Z.eqb (fst (fst x)) c && Z.eqb (snd (fst x)) e) (s_cfg sc)) as [x|] eqn:F; [|reflexivity].
  apply find_some in F. destruct F as [F1 F2]. exfalso.
  assert (E : existsb (fun x : Z * Z * inst_spec => Z.eqb (fst (fst x)) c && Z.eqb (snd (fst x)) e) (s_cfg sc) = true)
    by (apply existsb_exists; exists x; split; assumption).
  rewrite E in H. discriminate.
Qed.

Definition snap_G (sc : scenario) (w : world) (c e a : Z) : option snap :=
  match reg_get c e (w_reg w) with Some i => option_map snap_of (lookup a (in_actions i)) | None => None end.

Lemma snap_model sc w c e a : In c (s_menu sc) -> In e (s_ents sc) -> has_cfg sc c e = true -> In a (spec_aids (cfg_lookup sc c e)) ->
  snap_of_entry c e a (model_snaps sc w) = snap_G sc w c e a.
Proof.
  intros Hc He Hh Ha. unfold snap_of_entry.
  set (P := fun x : snap_entry => match x with sn c' e' a' _ => Z.eqb c c' && Z.eqb e e' && Z.eqb a a' end).
  assert (Hall : forall x, In x (model_snaps sc w) -> P x = true -> x = sn c e a (snap_G sc w c e a)).
  { intros x Hx Px. unfold model_snaps in Hx. apply in_flat_map in Hx. destruct Hx as (c' & _ & Hx).
    apply in_flat_map in Hx. destruct Hx as (e' & _ & Hx). destruct (has_cfg sc c' e'); [|destruct Hx].
    apply in_map_iff in Hx. destruct Hx as (a' & <- & _). cbn [P] in Px.
    apply andb_true_iff in Px. destruct Px as [Px P3]. apply andb_true_iff in Px. destruct Px as [P1 P2].
    apply Z.eqb_eq in P1, P2, P3. subst c' e' a'. reflexivity. }
  assert (Hin : In (sn c e a (snap_G sc w c e a)) (model_snaps sc w)).
  { unfold model_snaps. apply in_flat_map. exists c. split; [exact Hc|]. apply in_flat_map. exists e. split; [exact He|].
    rewrite Hh. apply in_map_iff. exists a. split; [reflexivity | exact Ha]. }
  destruct (find P (model_snaps sc w)) as [x|] eqn:F.
  - apply find_some in F. destruct F as [F1 F2]. rewrite (Hall x F1 F2). reflexivity.
  - exfalso. pose proof (find_none _ _ F _ Hin) as Hn. cbn [P] in Hn. rewrite !Z.eqb_refl in Hn. discriminate.
Qed.

Lemma gnorm_get r g en : NoDup (map g_ctx r) -> In g r -> gnorm g en ->
  reg_get (fst (en_ce en)) (snd (en_ce en)) r = Some (en_inst en) /\ g_ctx g = fst (en_ce en).
Proof.
  destruct en as [[[cx e] recips] i]. intros Hd Hg Hn. cbn [en_ce en_inst fst snd].
  destruct (reg_split r g Hd Hg) as (l1 & l2 & -> & Hn1 & _).
  destruct Hn as [(p & -> & ->)|(p & -> & Hin)]; cbn [g_ctx] in *.
  - rewrite (reg_get_found cx e l1 (GExcl cx p [(e, i)]) l2 Hn1 eq_refl). cbn [group_get find fst]. rewrite Z.eqb_refl. split; reflexivity.
  - rewrite (reg_get_found cx e l1 (GShared cx p recips i) l2 Hn1 eq_refl). cbn [group_get].
    replace (existsb (Z.eqb e) recips) with true; [split; reflexivity|]. symmetry. apply existsb_exists. exists e. split; [exact Hin | apply Z.eqb_refl].
Qed.

Lemma Forall2_in_r' {A B} (R : A -> B -> Prop) l1 l2 y : Forall2 R l1 l2 -> In y l2 -> exists x, In x l1 /\ R x y.
Proof.
  induction 1 as [|x0 y0 l1 l2 Hxy HF IH]; intros Hin; [destruct Hin|].
  destruct Hin as [<-|Hin]; [exists x0; split; [left; reflexivity | exact Hxy]|].
  destruct (IH Hin) as (x & Hx & Hr). exists x. split; [right; exact Hx | exact Hr].
Qed.

Lemma snaps_model sc w l : NoDup (map g_ctx (w_reg w)) -> Forall2 gnorm (w_reg w) l ->
  (forall en, In en l -> In (fst (en_ce en)) (s_menu sc) /\ In (snd (en_ce en)) (s_ents sc)) ->
  Forall (snaps_ok sc (model_snaps sc w)) l.
Proof.
  intros Hd Hn Hme. apply Forall_forall. intros en Hen. destruct (Forall2_in_r' _ _ _ _ Hn Hen) as (g & Hg & Hgn).
  destruct (gnorm_get _ g en Hd Hg Hgn) as [Hget _]. destruct (Hme en Hen) as [Hc He].
  destruct en as [[[cx e] recips] i]. cbn [en_ce en_inst fst snd snaps_ok] in *. intros b0 Hb0.
  destruct (has_cfg sc cx e) eqn:Hh; [|rewrite (has_cfg_false sc cx e Hh) in Hb0; destruct Hb0].
  unfold snap_state. rewrite (snap_model sc w cx e (ab_id b0) Hc He Hh).
  - unfold snap_G. rewrite Hget. unfold final_state. destruct (lookup (ab_id b0) (in_actions i)); reflexivity.
  - apply J3.merged_ids_spec. apply in_map. exact Hb0.
Qed.

(* ================================================================================================ *)
(* 9. R1 at world level: one frame without operations from any world satisfying the invariant       *)
(* ================================================================================================ *)
Definition group_shape (sc : scenario) (g : group) : Prop :=
  match g with
  | GExcl c _ insts => Forall (fun ei => inst_rel (snd ei) (cfg_lookup sc c (fst ei))) insts
  | GShared c _ ents i => forall e, In e ents -> inst_rel i (cfg_lookup sc c e)
  end.
Definition shape_inv (sc : scenario) (r : registry) : Prop := Forall (group_shape sc) r.

Record facts5 (sc : scenario) (T : list (Z * Z)) : Prop := mkFacts5 {
  f5_c12 : J12.facts sc T;
  f5_single : forall e1 e2 c, In (e1, c) T -> In (e2, c) T -> In c (s_menu sc) -> e1 = e2;
  f5_mods : forall c e, mods_nonempty (merged_actions (cfg_lookup sc c e)) }.

Definition en_of (before : out) (g : group) : entry :=
  match g with
  | GExcl c _ insts => (c, J12.rep before c, [J12.rep before c], match insts with ei :: _ => snd ei | [] => mkInst None [] [] end)
  | GShared c _ ents i => (c, J12.rep before c, ents, i)
  end.
Lemma en_of_ce before g : en_ce (en_of before g) = (g_ctx g, J12.rep before (g_ctx g)).
Proof. destruct g; reflexivity. Qed.

Lemma map_eq_in {A B} (f : A -> B) l l0 x : map f l = map f l0 -> In x l -> exists y, In y l0 /\ f x = f y.
Proof.
  intros H Hx. apply (in_map f) in Hx. rewrite H in Hx. apply in_map_iff in Hx. destruct Hx as (y & E & Hy). exists y. split; [exact Hy | symmetry; exact E].
Qed.
Lemma mods_nonempty_sig bs bs0 : map sig5 bs = map sig5 bs0 -> mods_nonempty bs0 -> mods_nonempty bs.
Proof.
  intros H H0 b ib Hb Hib E. destruct (map_eq_in sig5 _ _ b H Hb) as (b0 & Hb0 & Es).
  assert (Ei : map isig5 (ab_inputs b) = map isig5 (ab_inputs b0)) by (unfold sig5 in Es; congruence).
  destruct (map_eq_in isig5 _ _ ib Ei Hib) as (ib0 & Hib0 & Eis).
  apply (H0 b0 ib0 Hb0 Hib0). assert (Em : ids_of (ib_mods ib) = ids_of (ib_mods ib0)) by (unfold isig5 in Eis; congruence).
  rewrite E in Em. destruct (ib_mods ib0); [reflexivity | discriminate].
Qed.

Lemma e_after_ce tm r l : forall c, map en_ce (e_after tm r c l) = map en_ce l.
Proof. induction l as [|[[[cx e] recips] i] rest IH]; intros c; [reflexivity|]. cbn [e_after map]. cbv zeta. rewrite IH. reflexivity. Qed.

Lemma Forall2_map_r {A B} (R : A -> B -> Prop) (f : A -> B) l : (forall x, In x l -> R x (f x)) -> Forall2 R l (map f l).
Proof. induction l as [|x l IH]; intros H; cbn [map]; constructor; [apply H; now left | apply IH; intros y Hy; apply H; now right]. Qed.

Section Frame5.
  Variables (sc : scenario) (T : list (Z * Z)) (w : world) (before : out).
  Hypothesis HF : facts5 sc T.
  Hypothesis Hinv : reg_inv sc w.
  Hypothesis HT : J12.tgt_inv T w.
  Hypothesis HM : J12.mirror_ok sc w before.
  Hypothesis HS : shape_inv sc (w_reg w).

  Let HF12 := f5_c12 sc T HF.

  Lemma rep_member g : In g (w_reg w) -> In (J12.rep before (g_ctx g)) (g_ents g) /\ In (J12.rep before (g_ctx g)) (s_ents sc).
  Proof.
    intros Hg. pose proof (J12.reg_ctx_menu sc w g Hinv Hg) as Hc.
    destruct (J12.holders_cases sc T w before HF12 Hinv HT HM (g_ctx g) Hc) as [[E _]|(_ & e1 & rest & Eh & _)].
    { exfalso. apply memz_false in E. apply E. apply in_map. exact Hg. }
    unfold J12.rep. rewrite Eh. cbn [hd].
    assert (Hin : In e1 (filter (J12.got (w_reg w) (g_ctx g)) (s_ents sc))) by (rewrite <- (HM (g_ctx g) Hc), Eh; now left).
    apply filter_In in Hin. destruct Hin as [H1 H2]. split; [|exact H1].
    apply (inv_holds_group sc w g Hinv Hg). apply (J12.got_holds sc w Hinv). exact H2.
  Qed.

  Lemma group_norm g : In g (w_reg w) -> gnorm g (en_of before g).
  Proof.
    intros Hg. destruct g as [c p insts|c p ents i]; cbn [en_of gnorm].
    - left. exists p. pose proof (J12.registry_single sc T w before HF12 Hinv HT HM) as Hs. rewrite Forall_forall in Hs.
      destruct (Hs _ Hg) as (i & ->). cbn [snd]. split; reflexivity.
    - right. exists p. split; [reflexivity|]. exact (proj1 (rep_member _ Hg)).
  Qed.

  Lemma group_entry_ok g : In g (w_reg w) -> entry_ok sc (en_of before g).
  Proof.
    intros Hg. assert (Hsh : group_shape sc g) by (unfold shape_inv in HS; rewrite Forall_forall in HS; apply HS; exact Hg).
    assert (G : forall c e recips i, inst_rel i (cfg_lookup sc c e) -> entry_ok sc (c, e, recips, i)).
    { intros c e recips i Hr. split; [exact Hr|]. destruct Hr as [_ Hsig]. split.
      - rewrite (sig5_id_map _ _ Hsig). apply J3.merged_ids_nodup.
      - apply (mods_nonempty_sig _ _ Hsig). apply (f5_mods sc T HF). }
    pose proof (rep_member g Hg) as [Hrep _].
    destruct g as [c p insts|c p ents i]; cbn [en_of g_ctx g_ents group_shape] in *.
    - pose proof (J12.registry_single sc T w before HF12 Hinv HT HM) as Hs. rewrite Forall_forall in Hs.
      destruct (Hs _ Hg) as (i & ->). cbn [snd]. apply G. inversion Hsh as [|? ? H1 _]; subst. exact H1.
    - apply G. apply Hsh. exact Hrep.
  Qed.

  Lemma en_all_cfg g : In g (w_reg w) -> en_all (en_of before g) = J12.cfg_ids sc (g_ctx g) (J12.rep before (g_ctx g)).
  Proof.
    intros Hg. pose proof (group_entry_ok g Hg) as Hok. pose proof (en_of_ce before g) as Ece.
    destruct (en_of before g) as [[[cx e] recips] i]. cbn [en_ce fst snd] in Ece. inversion Ece; subst cx e.
    destruct Hok as ((_ & Hsig) & _). unfold en_all. cbn [en_inst snd].
    rewrite (J3.all_ids_sig _ _ (sig5_sig_map _ _ Hsig)), all_ids_abinds. reflexivity.
  Qed.

  Lemma frame_all_nodup : NoDup (concat (map en_all (map (en_of before) (w_reg w)))).
  Proof.
    pose proof Hinv as (_ & Hd & _). destruct (J12.f_uniq sc T HF12) as [U1 U2].
    apply (nodup_concat_keys (fun en => fst (en_ce en))).
    - rewrite map_map. rewrite (map_ext _ g_ctx); [exact Hd|]. intros g. rewrite en_of_ce. reflexivity.
    - intros en Hen. apply in_map_iff in Hen. destruct Hen as (g & <- & Hg). rewrite (en_all_cfg g Hg). apply U1.
    - intros x y z Hx Hy Hne Hzx. apply in_map_iff in Hx. destruct Hx as (g1 & <- & Hg1). apply in_map_iff in Hy. destruct Hy as (g2 & <- & Hg2).
      rewrite (en_all_cfg g1 Hg1) in Hzx. rewrite (en_all_cfg g2 Hg2). rewrite !en_of_ce in Hne. cbn [fst] in Hne.
      exact (U2 _ _ _ _ z Hne Hzx).
  Qed.

  Theorem frame_clauses f fo :
    f_ops f = [] -> frame sc w f = Some fo ->
    all_true (judge_frame sc f before
                (mkOut [] (fo_main fo) (fo_post fo) (fo_log fo) (model_snaps sc (fo_world fo)) (model_mirror sc (fo_world fo))
                       (fo_built fo) true true false)).
  Proof.
    intros Hops Hfr. destruct (J12.frame_parts sc w f fo Hfr) as (a & Ea & Ew & El & _). cbv zeta in *.
    rewrite Hops, run_ops_nil in Ea. injection Ea as <-. cbn [oo_world] in Ew.
    set (l := map (en_of before) (w_reg w)).
    assert (Hn : Forall2 gnorm (w_reg w) l) by (apply Forall2_map_r; exact group_norm).
    destruct (reg_update_flat (frame_time f) (f_raw f) (w_reg w) l Hn (update_state (f_raw f))) as [Hlog Hn'].
    rewrite judge_frame_fold, (J12.evaluated_registry sc T w before HF12 Hinv HT HM).
    replace (map (fun g => (g_ctx g, J12.rep before (g_ctx g))) (w_reg w)) with (map en_ce l)
      by (unfold l; rewrite map_map; apply map_ext; intros g; apply en_of_ce).
    apply (entries_fold sc f _ (frame_time f) l [] []); cbn [x_log x_snaps consume_list fold_left].
    - apply Forall_forall. intros en Hen. apply in_map_iff in Hen. destruct Hen as (g & <- & Hg). apply group_entry_ok. exact Hg.
    - intros k b [].
    - rewrite El, Hlog. apply log_ids_nodup. exact frame_all_nodup.
    - rewrite El, Hlog. apply incl_refl.
    - rewrite El, Hlog. apply Forall_forall. intros en Hen. apply log_skipped_absent; [exact frame_all_nodup | exact Hen].
    - rewrite Ew. apply snaps_model; cbn [w_reg].
      + pose proof (reg_update_inv sc w (frame_time f) (f_raw f) (update_state (f_raw f)) Hinv) as (_ & Hd & _). exact Hd.
      + exact Hn'.
      + intros en Hen. apply (in_map en_ce) in Hen. rewrite e_after_ce in Hen. unfold l in Hen. rewrite map_map in Hen.
        apply in_map_iff in Hen. destruct Hen as (g & E & Hg). rewrite en_of_ce in E. rewrite <- E. cbn [fst snd].
        split; [exact (J12.reg_ctx_menu sc w g Hinv Hg) | exact (proj2 (rep_member g Hg))].
  Qed.
End Frame5.

(* ================================================================================================ *)
(* 10. R2: the invariant through a registry update                                                  *)
(* ================================================================================================ *)
Lemma input_step_sig5 m tm r c dev a st ib : isig5 (snd (input_step m tm r c dev a st ib)) = isig5 ib.
Proof.
  unfold input_step. destruct (ib_ignored ib && as_bool _); [reflexivity|].
  pose proof (J3.apply_mods_ids' m tm (reader_value r c dev (ib_input ib)) (ib_mods ib)) as Hi.
  destruct (apply_mods m tm (reader_value r c dev (ib_input ib)) (ib_mods ib)) as [[ms' v'] lg1]. cbn [fst] in Hi.
  pose proof (J3.apply_conds_ck m tm (ib_conds ib) (tracker_new v')) as Hc.
  destruct (apply_conds m tm (tracker_new v') (ib_conds ib)) as [[cs' cur] lg2]. cbn [fst] in Hc.
  assert (G : isig5 (mkIbind (ib_input ib) ms' cs' false) = isig5 ib) by (unfold isig5; cbn [ib_mods ib_conds ib_input]; rewrite Hi, Hc; reflexivity).
  destruct (state_eqb (tracker_state cur) SNone); [exact G|].
  destruct (state_cmp (tracker_state cur) (tracker_state (l_tracker st))); exact G.
Qed.
Lemma input_loop_sig5 m tm r c dev a ibs : forall st, map isig5 (snd (input_loop m tm r c dev a st ibs)) = map isig5 ibs.
Proof.
  induction ibs as [|ib rest IH]; intros st; cbn [input_loop]; [reflexivity|].
  pose proof (input_step_sig5 m tm r c dev a st ib) as Hs.
  destruct (input_step m tm r c dev a st ib) as [st1 ib']. cbn [snd] in Hs.
  specialize (IH st1). destruct (input_loop m tm r c dev a st1 rest) as [st2 rest']. cbn [snd map] in *. rewrite Hs, IH. reflexivity.
Qed.
Lemma action_update_sig5 m tm r c dev recips ab : sig5 (o_bind (action_update m tm r c dev recips ab)) = sig5 ab.
Proof.
  unfold action_update.
  pose proof (input_loop_sig5 m tm r c dev (ab_id ab) (ab_inputs ab) (mkLoop (tracker_new (vzero (aid_dim (ab_id ab)))) [] [])) as Hl.
  destruct (input_loop m tm r c dev (ab_id ab) _ (ab_inputs ab)) as [st inputs']. cbn [snd] in Hl.
  pose proof (J3.apply_mods_ids' m tm (t_value (l_tracker st)) (ab_mods ab)) as Hi.
  destruct (apply_mods m tm (t_value (l_tracker st)) (ab_mods ab)) as [[ms' v1] lg1]. cbn [fst] in Hi.
  pose proof (J3.apply_conds_ck m tm (ab_conds ab) (with_value (l_tracker st) v1)) as Hc.
  destruct (apply_conds m tm (with_value (l_tracker st) v1) (ab_conds ab)) as [[cs' tr] lg2]. cbn [fst] in Hc.
  cbn [o_bind]. unfold sig5. cbn [ab_id ab_mods ab_conds ab_inputs]. rewrite Hi, Hc, Hl. reflexivity.
Qed.
Lemma binds_update_sig5 tm r dev recips bs : forall m c,
  map sig5 (fst (fst (fst (fst (binds_update m tm r c dev recips bs))))) = map sig5 bs.
Proof.
  induction bs as [|b rest IH]; intros m c; cbn [binds_update]; [reflexivity|]. cbv zeta.
  pose proof (action_update_sig5 m tm r c dev recips b) as Hb.
  set (o := action_update m tm r c dev recips b) in *.
  specialize (IH (o_actions o) (o_consumed o)).
  destruct (binds_update (o_actions o) tm r (o_consumed o) dev recips rest) as [[[[rest' m'] c'] ev] lg].
  cbn [fst map] in *. rewrite Hb, IH. reflexivity.
Qed.
Lemma inst_update_rel tm r c recips i s : inst_rel i s -> inst_rel (io_inst (inst_update tm r c recips i)) s.
Proof.
  intros [Hp Hs]. unfold inst_update. pose proof (binds_update_sig5 tm r (in_pad i) recips (in_binds i) (in_actions i) c) as H.
  destruct (binds_update (in_actions i) tm r c (in_pad i) recips (in_binds i)) as [[[[bs m] c'] ev] lg].
  cbn [fst io_inst] in *. split; [exact Hp | cbn [in_binds]; rewrite H; exact Hs].
Qed.
Lemma excl_update_rel sc cx tm r insts : forall c,
  Forall (fun ei => inst_rel (snd ei) (cfg_lookup sc cx (fst ei))) insts ->
  Forall (fun ei => inst_rel (snd ei) (cfg_lookup sc cx (fst ei))) (fst (fst (fst (excl_update tm r c insts)))).
Proof.
  induction insts as [|[e i] rest IH]; intros c H; cbn [excl_update]; [constructor|]. cbv zeta.
  inversion H as [|? ? H1 H2]; subst. cbn [fst snd] in H1.
  pose proof (inst_update_rel tm r c [e] i _ H1) as Hi.
  set (o := inst_update tm r c [e] i) in *. specialize (IH (io_consumed o) H2).
  destruct (excl_update tm r (io_consumed o) rest) as [[[rest' c'] ev] lg]. cbn [fst] in *.
  constructor; [exact Hi | exact IH].
Qed.
Lemma reg_update_shape5 sc tm r gs : forall c, shape_inv sc gs -> shape_inv sc (ro_reg (reg_update tm r c gs)).
Proof.
  unfold shape_inv. induction gs as [|[cx p insts|cx p ents i] gs IH]; intros c H; cbn [reg_update]; [constructor| |];
    inversion H as [|? ? H1 H2]; subst.
  - pose proof (excl_update_rel sc cx tm r insts c H1) as He.
    destruct (excl_update tm r c insts) as [[[insts' c'] ev] lg]. cbn [fst] in He. cbv zeta. cbn [ro_reg].
    constructor; [exact He | apply IH; exact H2].
  - cbv zeta. cbn [ro_reg]. constructor; [|apply IH; exact H2].
    cbn [group_shape] in *. intros e He. apply inst_update_rel. apply H1. exact He.
Qed.

(* ================================================================================================ *)
(* 11. R2: the invariant through operations                                                         *)
(* ================================================================================================ *)
Definition KInv (sc : scenario) (T : list (Z * Z)) (w : world) : Prop :=
  reg_inv sc w /\ J12.tgt_inv T w /\ shape_inv sc (w_reg w).

Lemma fresh_rel s : inst_rel (instantiate s) s.
Proof. split; [apply instantiate_pad | reflexivity]. Qed.

Lemma reg_single sc T w : facts5 sc T -> reg_inv sc w -> J12.tgt_inv T w ->
  forall g, In g (w_reg w) -> forall e1 e2, In e1 (g_ents g) -> In e2 (g_ents g) -> e1 = e2.
Proof.
  intros HF Hinv HT g Hg e1 e2 H1 H2. apply (inv_holds_group sc w g Hinv Hg) in H1, H2.
  exact (f5_single sc T HF e1 e2 (g_ctx g) (HT _ _ H1) (HT _ _ H2) (J12.reg_ctx_menu sc w g Hinv Hg)).
Qed.

Lemma reg_add_shape sc c e r : shape_inv sc r -> index_of c r = None -> shape_inv sc (reg_add (mk_inst sc c) c e r).
Proof.
  intros HS Ei. rewrite (reg_add_new _ c e r Ei). apply J12.Forall_insert_at; [exact HS|].
  unfold new_group. destruct (ctx_shared c); cbn [group_shape].
  - intros e' [<-|[]]. apply fresh_rel.
  - constructor; [|constructor]. apply fresh_rel.
Qed.

Lemma insert_ctx_K sc T w e c : facts5 sc T -> KInv sc T w -> In (e, c) T -> KInv sc T (oo_world (insert_ctx sc w e c)).
Proof.
  intros HF (Hinv & HT & HS) Hin. pose proof (insert_ctx_inv sc w e c Hinv) as Hinv'. unfold insert_ctx in *.
  destruct (holds_of e (w_holds w)) as [cs|] eqn:He; [|split; [exact Hinv | split; assumption]].
  destruct (memz c cs || negb (memz c (s_menu sc))) eqn:Em; [split; [exact Hinv | split; assumption]|].
  cbn [oo_world w_reg w_holds] in *. apply orb_false_iff in Em. destruct Em as [Em Emenu].
  split; [exact Hinv'|]. split.
  - intros c' e' H. apply (holds_set_add _ _ _ c He) in H. destruct H as [H|[-> ->]]; [apply HT; exact H | exact Hin].
  - destruct (index_of c (w_reg w)) as [n|] eqn:Ei; [exfalso | apply reg_add_shape; assumption].
    destruct (index_of_nth c (w_reg w) n Ei) as (g & _ & Hc & Hg).
    pose proof Hinv as (_ & _ & Hok & _). rewrite Forall_forall in Hok. destruct (Hok g Hg) as (_ & _ & Hne & _).
    destruct (g_ents g) as [|e0 l] eqn:Ee; [congruence|].
    assert (H0 : holds (w_holds w) c e0) by (rewrite <- Hc; apply (inv_holds_group sc w g Hinv Hg); rewrite Ee; now left).
    apply negb_false_iff in Emenu. apply memz_in in Emenu.
    assert (E : e0 = e) by exact (f5_single sc T HF e0 e c (HT _ _ H0) Hin Emenu). subst e0.
    destruct H0 as (cs' & H1 & H2). rewrite He in H1. injection H1 as <-. rewrite Em in H2. discriminate.
Qed.

Lemma spawn_fold_K sc T e cs : facts5 sc T -> (forall c, In c cs -> In (e, c) T) -> forall acc, KInv sc T (oo_world acc) ->
  KInv sc T (oo_world (fold_left (fun acc c => let o := insert_ctx sc (oo_world acc) e c in
                                               mkOpOut (oo_world o) (oo_events acc ++ oo_events o) (oo_built acc ++ oo_built o)) cs acc)).
Proof.
  intros HF. induction cs as [|c cs IH]; intros Hin acc Ha; cbn [fold_left]; [exact Ha|].
  apply IH; [intros c' Hc'; apply Hin; right; exact Hc'|]. cbv zeta. cbn [oo_world].
  apply insert_ctx_K; [exact HF | exact Ha | apply Hin; left; reflexivity].
Qed.

Lemma reg_remove_shape sc tm c e r r' oevs : reg_remove tm c e r = Some (r', oevs) -> shape_inv sc r -> shape_inv sc r'.
Proof.
  unfold reg_remove, shape_inv. intros H Hh.
  destruct (index_of c r) as [n|]; [|discriminate]. destruct (nth_error r n) as [g|] eqn:En; [|discriminate].
  assert (Hg : group_shape sc g) by (rewrite Forall_forall in Hh; apply Hh; eapply nth_error_In; exact En).
  destruct g as [c' p insts|c' p ents i].
  - destruct (position (fun ei : Z * inst => Z.eqb (fst ei) e) insts) as [k|]; [|discriminate].
    destruct (nth_error insts k) as [[x i]|]; [|discriminate]. injection H as <- _.
    destruct (swap_remove k insts) as [|q rest] eqn:Es; [apply J12.Forall_remove_at; exact Hh|].
    apply J12.Forall_update_at; [exact Hh|]. intros _ _. cbn [group_shape] in *. rewrite Forall_forall in *.
    intros ei Hei. apply Hg. apply (J12.swap_remove_incl k insts). rewrite Es. exact Hei.
  - destruct (position (Z.eqb e) ents) as [k|]; [|discriminate]. injection H as <- _.
    destruct (swap_remove k ents) as [|q rest] eqn:Es; [apply J12.Forall_remove_at; exact Hh|].
    apply J12.Forall_update_at; [exact Hh|]. intros _ _. cbn [group_shape] in *. intros e' He'. apply Hg.
    apply (J12.swap_remove_incl k ents). rewrite Es. exact He'.
Qed.

Lemma remove_ctx_K sc T w e c o : KInv sc T w -> remove_ctx w e c = Some o -> KInv sc T (oo_world o).
Proof.
  intros (Hinv & HT & HS) H. destruct (remove_ctx_spec sc w e c Hinv) as (o' & Ho' & Hinv' & Hholds).
  rewrite H in Ho'. injection Ho' as <-. split; [exact Hinv'|]. split.
  - intros c' e' Hc. apply Hholds in Hc. apply HT. tauto.
  - unfold remove_ctx in H. destruct (holds_of e (w_holds w)) as [cs|]; [|injection H as <-; exact HS].
    destruct (negb (memz c cs)); [injection H as <-; exact HS|].
    destruct (reg_remove (w_time w) c e (w_reg w)) as [[r' [evs|]]|] eqn:Er; try discriminate. injection H as <-.
    cbn [oo_world w_reg]. exact (reg_remove_shape sc _ _ _ _ _ _ Er HS).
Qed.

Lemma despawn_fold_K sc T e cs : forall a a', fold_left (despawn_f e) cs (Some a) = Some a' ->
  KInv sc T (oo_world a) -> KInv sc T (oo_world a').
Proof.
  induction cs as [|c cs IH]; intros a a' H Ha; cbn [fold_left] in H; [injection H as <-; exact Ha|].
  cbn [despawn_f] in H. destruct (remove_ctx (oo_world a) e c) as [o|] eqn:Er; [|rewrite despawn_f_none in H; discriminate].
  apply (IH _ _ H). cbn [oo_world]. exact (remove_ctx_K sc T _ e c o Ha Er).
Qed.

Lemma reg_rebuild_shape sc tm c r r' oevs : reg_wf r -> shape_inv sc r ->
  (forall g, In g r -> forall e1 e2, In e1 (g_ents g) -> In e2 (g_ents g) -> e1 = e2) ->
  reg_rebuild (mk_inst sc c) tm c r = Some (r', oevs) -> shape_inv sc r'.
Proof.
  intros Hwf Hh Hsingle H. unfold shape_inv in *. destruct (index_of c r) as [n|] eqn:Ei.
  - destruct (index_of_some c r n Ei) as (l1 & g & l2 & -> & Hl & Hc & Hn1).
    destruct (reg_wf_group _ _ _ Hwf) as (_ & _ & Hne & _).
    destruct (reg_rebuild_form _ tm c l1 g l2 r' oevs Hn1 Hc Hne H) as [-> _].
    assert (Hsg : forall e1 e2, In e1 (g_ents g) -> In e2 (g_ents g) -> e1 = e2) by (apply Hsingle; apply in_or_app; right; left; reflexivity).
    apply Forall_app in Hh. destruct Hh as [H1 H2]. inversion H2 as [|? ? Hg H3]; subst.
    apply Forall_app. split; [exact H1|]. constructor; [|exact H3].
    destruct g as [c0 p insts|c0 p ents i]; cbn [g_ctx g_ents regroup group_shape] in *.
    + apply Forall_forall. intros ei Hei. apply in_map_iff in Hei. destruct Hei as ([e' i'] & <- & _). cbn [fst snd]. apply fresh_rel.
    + intros e He. destruct ents as [|e0 ents]; [congruence|]. cbn [hd].
      rewrite (Hsg e e0 He (or_introl eq_refl)). apply fresh_rel.
  - rewrite (reg_rebuild_absent _ tm c r Ei) in H. injection H as <- _. exact Hh.
Qed.

Lemma rebuild_one_K sc T c a a' : facts5 sc T -> rebuild_one sc (Some a) c = Some a' -> KInv sc T (oo_world a) -> KInv sc T (oo_world a').
Proof.
  intros HF H (Hinv & HT & HS). cbn [rebuild_one] in H. cbv zeta in H.
  pose proof (proj1 (reg_inv_alt sc _) Hinv) as (Hwf & Hm & Hhw).
  destruct (reg_rebuild_spec (mk_inst sc c) (w_time (oo_world a)) c (w_reg (oo_world a)) Hwf (mk_inst_wf sc c))
    as (r' & evs & Er & Hshape & Hins).
  rewrite Er in H. injection H as <-. cbn [oo_world]. split; [|split].
  - apply reg_inv_alt. cbn [w_reg w_holds]. split; [eapply same_shape_wf; eassumption|]. split; [|exact Hhw].
    intros c' e'. rewrite (same_shape_holds _ _ Hshape). apply Hm.
  - exact HT.
  - cbn [w_reg]. exact (reg_rebuild_shape sc _ c _ r' _ Hwf HS (reg_single sc T _ HF Hinv HT) Er).
Qed.
Lemma rebuild_fold_K sc T cs : facts5 sc T -> forall a a', fold_left (rebuild_one sc) cs (Some a) = Some a' ->
  KInv sc T (oo_world a) -> KInv sc T (oo_world a').
Proof.
  intros HF. induction cs as [|c cs IH]; intros a a' H Ha; cbn [fold_left] in H; [injection H as <-; exact Ha|].
  destruct (rebuild_one sc (Some a) c) as [a1|] eqn:E; [|rewrite rebuild_fold_none in H; discriminate].
  exact (IH a1 a' H (rebuild_one_K sc T c a a1 HF E Ha)).
Qed.

Lemma apply_op_K sc T w o r : facts5 sc T -> KInv sc T w -> incl (J12.op_targets o) T -> apply_op sc w o = Some r -> KInv sc T (oo_world r).
Proof.
  intros HF HK Hin H. pose proof HK as (Hinv & HT & HS). destruct o as [e cs|e c|e c|e|]; cbn [apply_op J12.op_targets] in *.
  - destruct (holds_of e (w_holds w)) as [old|] eqn:He; injection H as <-; [exact HK|].
    apply (spawn_fold_K sc T e cs HF); [intros c Hc; apply Hin; apply in_map; exact Hc|].
    cbn [oo_world]. split; [apply spawn_world_inv; assumption|]. split; [|exact HS].
    intros c' e' (x & Hx & Hm). cbn [w_holds] in Hx. rewrite holds_of_snoc in Hx. apply HT. exists x. split; [|exact Hm].
    destruct (holds_of e' (w_holds w)) as [y|]; [exact Hx|].
    destruct (Z.eqb e e'); [|discriminate]. injection Hx as <-. discriminate Hm.
  - injection H as <-. apply insert_ctx_K; [exact HF | exact HK | apply Hin; left; reflexivity].
  - exact (remove_ctx_K sc T w e c r HK H).
  - destruct (holds_of e (w_holds w)) as [cs0|] eqn:He; [|injection H as <-; exact HK].
    change (match fold_left (despawn_f e) (filter (fun c => memz c cs0) (s_menu sc)) (Some (mkOpOut w [] [])) with
            | Some a => Some (mkOpOut (mkWorld (del_ent e (w_holds (oo_world a))) (w_reg (oo_world a)) (w_time w)) (oo_events a) [])
            | None => None end = Some r) in H.
    destruct (fold_left (despawn_f e) (filter (fun c => memz c cs0) (s_menu sc)) (Some (mkOpOut w [] []))) as [a|] eqn:Ef; [|discriminate].
    injection H as <-. cbn [oo_world].
    pose proof (despawn_fold_K sc T e _ _ _ Ef HK) as (_ & HT' & HS').
    destruct (apply_op_inv sc w (ODespawn e) Hinv) as (r2 & Hr2 & Hinv2). cbn [apply_op] in Hr2. rewrite He in Hr2.
    change (match fold_left (despawn_f e) (filter (fun c => memz c cs0) (s_menu sc)) (Some (mkOpOut w [] [])) with
            | Some a => Some (mkOpOut (mkWorld (del_ent e (w_holds (oo_world a))) (w_reg (oo_world a)) (w_time w)) (oo_events a) [])
            | None => None end = Some r2) in Hr2.
    rewrite Ef in Hr2. injection Hr2 as <-. cbn [oo_world] in Hinv2.
    split; [exact Hinv2|]. split; [|exact HS']. intros c' e' (x & Hx & Hm). cbn [w_holds] in Hx. rewrite holds_of_del in Hx.
    destruct (Z.eqb e' e); [discriminate|]. apply HT'. exists x. split; assumption.
  - change (fold_left (rebuild_one sc) (s_menu sc) (Some (mkOpOut w [] [])) = Some r) in H. exact (rebuild_fold_K sc T _ HF _ _ H HK).
Qed.

Lemma frame_K sc T w f fo : KInv sc T w -> f_ops f = [] -> frame sc w f = Some fo -> KInv sc T (fo_world fo).
Proof.
  intros (Hinv & HT & HS) Hops Hfr. destruct (J12.frame_parts sc w f fo Hfr) as (a & Ea & Ew & _). cbv zeta in *.
  rewrite Hops, run_ops_nil in Ea. injection Ea as <-. cbn [oo_world] in Ew. rewrite Ew.
  split; [apply reg_update_inv; exact Hinv|]. split; [exact HT|]. cbn [w_reg]. apply reg_update_shape5. exact HS.
Qed.

(* ================================================================================================ *)
(* 12. R3: induction over the steps of a scenario; the profile; the main theorem                    *)
(* ================================================================================================ *)
Definition quiet_step (st : step) : bool :=
  match st with SFrame f => match f_ops f with [] => true | _ => false end | SOp _ => true end.

Theorem steps_sound5 sc T : facts5 sc T -> forall steps w before,
  incl (flat_map J12.step_targets steps) T -> forallb quiet_step steps = true -> KInv sc T w -> J12.mirror_ok sc w before ->
  all_true (judge_steps5 sc before steps (run_steps sc w steps)).
Proof.
  intros HF. pose proof (J12.NoDup_map_NoDup ctx_prio _ (J12.f_prio sc T (f5_c12 sc T HF))) as Hmenu.
  induction steps as [|st steps IH]; intros w before Hin Hq HK HM; [intros k b []|].
  cbn [flat_map] in Hin. cbn [forallb] in Hq. apply andb_true_iff in Hq. destruct Hq as [Hq1 Hq].
  assert (Hin1 : incl (J12.step_targets st) T) by (intros x Hx; apply Hin; apply in_or_app; left; exact Hx).
  assert (Hin2 : incl (flat_map J12.step_targets steps) T) by (intros x Hx; apply Hin; apply in_or_app; right; exact Hx).
  pose proof HK as (Hinv & HT & HS).
  destruct st as [o|f]; cbn [run_steps].
  - destruct (apply_op_inv sc w o Hinv) as (r & Er & _). rewrite Er. cbn [judge_steps5 x_panicked negb].
    intros k b [E|Hkb]; [inversion E; reflexivity|]. revert k b Hkb.
    apply IH; [exact Hin2 | exact Hq | exact (apply_op_K sc T w o r HF HK Hin1 Er) | apply J12.mirror_ok_model; [reflexivity | exact Hmenu]].
  - destruct (frame_inv sc w f Hinv) as (fo & Ef & _). rewrite Ef. cbn [judge_steps5 x_panicked negb].
    assert (Hops : f_ops f = []) by (cbn [quiet_step] in Hq1; destruct (f_ops f); [reflexivity | discriminate]).
    intros k b [E|Hkb]; [inversion E; reflexivity|]. apply in_app_or in Hkb. destruct Hkb as [Hkb|Hkb].
    + exact (frame_clauses sc T w before HF Hinv HT HM HS f fo Hops Ef k b Hkb).
    + revert k b Hkb. apply IH; [exact Hin2 | exact Hq | exact (frame_K sc T w f fo HK Hops Ef) | apply J12.mirror_ok_model; [reflexivity | exact Hmenu]].
Qed.

(* ---- the profile: a computable condition on the scenario alone ---- *)
(* a registered context type (exclusive or shared) is only ever given to one entity *)
Definition p_single_all (sc : scenario) : bool :=
  forallb (fun p => forallb (fun q => negb (Z.eqb (snd p) (snd q)) || negb (memz (snd p) (s_menu sc)) || Z.eqb (fst p) (fst q))
                            (J12.targets sc)) (J12.targets sc).
(* every binding carries at least one (instrumented) modifier: the judgement reads the raw read off its first one *)
Definition p_mods (sc : scenario) : bool :=
  forallb (fun x => forallb (fun b => forallb (fun ib => match ib_mods ib with [] => false | _ => true end) (ab_inputs b))
                            (merged_actions (snd x))) (s_cfg sc).
(* no operations are issued from inside a frame (they would change what is polled after the frame's evaluation) *)
Definition p_quiet (sc : scenario) : bool := forallb quiet_step (s_steps sc).

Definition profile_C05b (sc : scenario) : bool :=
  J12.p_prio sc && J12.p_ents sc && J12.p_slots sc && p_single_all sc && J12.p_ids_nodup sc && J12.p_ids_disj sc && p_mods sc && p_quiet sc.
Definition profile_C05 (sc : scenario) : Prop := profile_C05b sc = true.

Lemma profile_parts sc : profile_C05 sc ->
  J12.p_prio sc = true /\ J12.p_ents sc = true /\ J12.p_slots sc = true /\ p_single_all sc = true /\
  J12.p_ids_nodup sc = true /\ J12.p_ids_disj sc = true /\ p_mods sc = true /\ p_quiet sc = true.
Proof. unfold profile_C05, profile_C05b. intros H. repeat (apply andb_true_iff in H; destruct H as [H ?]). repeat split; assumption. Qed.

Lemma single_all_single sc : p_single_all sc = true -> J12.p_single sc = true.
Proof.
  unfold p_single_all, J12.p_single. intros H. rewrite forallb_forall in *. intros p Hp. specialize (H p Hp).
  rewrite forallb_forall in *. intros q Hq. specialize (H q Hq).
  destruct (negb (Z.eqb (snd p) (snd q))); [reflexivity|]. destruct (negb (memz (snd p) (s_menu sc))); [reflexivity|].
  cbn [orb] in *. rewrite H. apply orb_true_r.
Qed.

Lemma profile_facts5 sc : profile_C05 sc -> facts5 sc (J12.targets sc).
Proof.
  intros Hp. destruct (profile_parts sc Hp) as (H1 & H2 & H3 & H4 & H5 & H6 & H7 & H8). constructor.
  - apply J12.profile_facts. unfold J12.profile_C12, J12.profile_C12b. rewrite H1, H2, H3, (single_all_single sc H4), H5, H6. reflexivity.
  - intros e1 e2 c Hi1 Hi2 Hc. unfold p_single_all in H4. rewrite forallb_forall in H4. specialize (H4 _ Hi1).
    rewrite forallb_forall in H4. specialize (H4 _ Hi2). cbn [fst snd] in H4.
    apply memz_in in Hc. rewrite Z.eqb_refl, Hc in H4. apply Z.eqb_eq. exact H4.
  - intros c e b ib Hb Hib. unfold cfg_lookup in Hb.
    destruct (find (fun x : Z * Z * inst_spec => Z.eqb (fst (fst x)) c && Z.eqb (snd (fst x)) e) (s_cfg sc)) as [x|] eqn:F; [|destruct Hb].
    apply find_some in F. destruct F as [F _]. unfold p_mods in H7. rewrite forallb_forall in H7. specialize (H7 x F).
    rewrite forallb_forall in H7. specialize (H7 b Hb). rewrite forallb_forall in H7. specialize (H7 ib Hib).
    intros E. rewrite E in H7. discriminate.
Qed.

(* ---- the main theorem (S) ---- *)
Theorem C05_app_judgement_sound : forall sc, profile_C05 sc -> ok5 (sc, trace (run sc)) = 0%Z.
Proof.
  intros sc Hp. unfold ok5, run. apply J12.all_true_first_fail.
  apply (steps_sound5 sc (J12.targets sc) (profile_facts5 sc Hp)).
  - apply incl_refl.
  - exact (proj2 (proj2 (proj2 (proj2 (proj2 (proj2 (proj2 (profile_parts sc Hp)))))))).
  - split; [apply reg_inv_init|]. split; [intros c e (cs & H & _); discriminate | constructor].
  - intros c _. cbn. symmetry. apply J12.filter_none. intros e _. reflexivity.
Qed.

(* ================================================================================================ *)
(* 13. (T) transfer: the judgement respects the equalities [agree_full] uses                        *)
(* ================================================================================================ *)
Lemma veq_sym a b : veq a b -> veq b a.
Proof.
  destruct a, b; cbn [veq]; try contradiction; intros H.
  - congruence.
  - symmetry; exact H.
  - destruct H as [H1 H2]. split; symmetry; assumption.
  - destruct H as (H1 & H2 & H3). repeat split; symmetry; assumption.
Qed.
Lemma veq_trans a b c : veq a b -> veq b c -> veq a c.
Proof.
  destruct a, b, c; cbn [veq]; try contradiction; intros H1 H2.
  - congruence.
  - rewrite H1. exact H2.
  - destruct H1 as [A1 A2], H2 as [B1 B2]. split; [rewrite A1; exact B1 | rewrite A2; exact B2].
  - destruct H1 as (A1 & A2 & A3), H2 as (B1 & B2 & B3). repeat split; [rewrite A1; exact B1 | rewrite A2; exact B2 | rewrite A3; exact B3].
Qed.
Lemma veqb_compat a a' b b' : veq a a' -> veq b b' -> veqb a b = veqb a' b'.
Proof.
  intros H1 H2. apply eq_true_iff_eq. rewrite !veqb_veq. split; intros H.
  - apply (veq_trans _ a); [apply veq_sym; exact H1|]. apply (veq_trans _ b); assumption.
  - apply (veq_trans _ a'); [exact H1|]. apply (veq_trans _ b'); [exact H | apply veq_sym; exact H2].
Qed.

Lemma pickq_compat2 x x' y y' : (x == x')%Q -> (y == y')%Q -> (pickq x y == pickq x' y')%Q.
Proof.
  intros H1 H2. unfold pickq, qltb. rewrite (qle_bool_compat (qabs y) (qabs y') (qabs x) (qabs x') (qabs_compat _ _ H2) (qabs_compat _ _ H1)).
  destruct (negb _); assumption.
Qed.
Lemma acc_step_compat d mode a b v v' : veq a b -> veq v v' -> veq (acc_step d mode a v) (acc_step d mode b v').
Proof.
  intros Hab Hv. unfold acc_step. apply as3_veq in Hab. apply as3_veq in Hv.
  destruct (as3 a) as [[ax ay] az], (as3 b) as [[bx by_] bz], (as3 v) as [[vx vy] vz], (as3 v') as [[wx wy] wz].
  cbn [q3eq] in Hab, Hv. destruct Hab as (H1 & H2 & H3), Hv as (G1 & G2 & G3).
  destruct mode.
  - apply convert_q3; [rewrite H1, G1 | rewrite H2, G2 | rewrite H3, G3]; reflexivity.
  - apply convert_q3; [exact (pickq_compat2 _ _ _ _ H1 G1) | exact (pickq_compat2 _ _ _ _ H2 G2) | exact (pickq_compat2 _ _ _ _ H3 G3)].
Qed.
Lemma convert_veq d v v' : veq v v' -> veq (convert d v) (convert d v').
Proof.
  intros H. pose proof (as_bool_veq _ _ H) as Hb. apply as3_veq in H.
  destruct d; cbn [convert].
  - cbn [veq]. exact Hb.
  - destruct v, v'; cbn [as3 q3eq as1 veq] in *; tauto.
  - destruct v, v'; cbn [as3 q3eq as2 veq] in *; tauto.
  - destruct (as3 v) as [[x y] z], (as3 v') as [[x' y'] z']. exact H.
Qed.

Definition row_eq (a b : row) : Prop :=
  rw_input a = rw_input b /\ veq (rw_read a) (rw_read b) /\ veq (rw_value a) (rw_value b) /\
  rw_res a = rw_res b /\ rw_own a = rw_own b /\ rw_condless a = rw_condless b.

Lemma merged_value_cong d mode rows rows' : Forall2 row_eq rows rows' ->
  veq (Check.Merge.merged_value d mode rows) (Check.Merge.merged_value d mode rows').
Proof.
  intros H. destruct H as [|r0 r0' rest rest' (_ & _ & Hv & _) HF]; cbn [Check.Merge.merged_value]; [apply veq_refl|].
  assert (G : forall a b, veq a b -> veq (fold_left (fun acc x => acc_step d mode acc (rw_value x)) rest a)
                                       (fold_left (fun acc x => acc_step d mode acc (rw_value x)) rest' b)).
  { induction HF as [|x x' l l' (_ & _ & Hx & _) _ IH]; intros a b Hab; cbn [fold_left]; [exact Hab|].
    apply IH. apply acc_step_compat; assumption. }
  apply G. apply convert_veq. exact Hv.
Qed.

Lemma Forall2_filter {A} (R : A -> A -> Prop) (p : A -> bool) l l' :
  (forall x y, R x y -> p x = p y) -> Forall2 R l l' -> Forall2 R (filter p l) (filter p l').
Proof.
  intros Hp. induction 1 as [|x y l l' Hxy _ IH]; cbn [filter]; [constructor|].
  rewrite <- (Hp x y Hxy). destruct (p x); [constructor; assumption | exact IH].
Qed.
Lemma Forall2_app' {A} (R : A -> A -> Prop) a a' b b' : Forall2 R a a' -> Forall2 R b b' -> Forall2 R (a ++ b) (a' ++ b').
Proof. induction 1 as [|x y l l' Hxy _ IH]; intros Hb; cbn [app]; [exact Hb | constructor; auto]. Qed.

Lemma max_state_cong rows rows' : Forall2 row_eq rows rows' -> max_state rows = max_state rows'.
Proof.
  unfold max_state. intros H. generalize SNone. induction H as [|x y l l' (_ & _ & _ & _ & Ho & _) _ IH]; intros s; cbn [fold_left]; [reflexivity|].
  rewrite Ho. apply IH.
Qed.
Lemma contributing_cong rows rows' : Forall2 row_eq rows rows' -> Forall2 row_eq (contributing rows) (contributing rows').
Proof.
  intros H. unfold contributing. rewrite (max_state_cong _ _ H). destruct (state_eqb (max_state rows') SNone); [constructor|].
  apply Forall2_filter; [|exact H]. intros x y (_ & _ & _ & _ & Ho & _). rewrite Ho. reflexivity.
Qed.
Lemma prefixes_ok_cong d mode rest rest' : Forall2 row_eq rest rest' -> forall seen seen', Forall2 row_eq seen seen' ->
  prefixes_ok d mode seen rest = prefixes_ok d mode seen' rest'.
Proof.
  induction 1 as [|x x' more more' Hx _ IH]; intros seen seen' Hs; cbn [prefixes_ok]; [reflexivity|].
  rewrite (IH (seen ++ [x]) (seen' ++ [x'])) by (apply Forall2_app'; [exact Hs | constructor; [exact Hx | constructor]]).
  f_equal. destruct Hs as [|s s' l l' Hs1 Hs2]; [reflexivity|].
  pose proof (contributing_cong _ _ (Forall2_cons _ _ Hs1 Hs2)) as Hc.
  rewrite (as_bool_veq _ _ (merged_value_cong d mode _ _ Hc)). f_equal. f_equal.
  induction Hc as [|a b la lb (_ & _ & _ & _ & _ & Hcl) _ IHc]; [reflexivity|]. cbn [forallb]. rewrite Hcl, IHc. reflexivity.
Qed.
Lemma regular_cong d mode rows rows' : Forall2 row_eq rows rows' -> Check.Merge.regular d mode rows = Check.Merge.regular d mode rows'.
Proof.
  intros H. unfold Check.Merge.regular. apply prefixes_ok_cong; [|constructor].
  apply Forall2_filter; [|exact H]. intros x y (_ & _ & _ & _ & Ho & _). rewrite Ho. reflexivity.
Qed.

Lemma find_mod_rel5 id : forall lg lg', list_eqb logitem_eqb lg lg' = true ->
  match find_mod id lg, find_mod id lg' with
  | Some (v, o, _), Some (v', o', _) => veq v v' /\ veq o o'
  | None, None => True
  | _, _ => False
  end.
Proof.
  induction lg as [|x lg IH]; intros [|y lg'] H; cbn [list_eqb] in H; try discriminate; [exact I|].
  apply andb_true_iff in H. destruct H as [Hxy H]. specialize (IH lg' H).
  destruct x as [i1 v1 r1 s1|i1 v1 o1 s1], y as [i2 v2 r2 s2|i2 v2 o2 s2]; cbn [logitem_eqb] in Hxy; try discriminate; cbn [find_mod].
  - exact IH.
  - repeat (apply andb_true_iff in Hxy; let H' := fresh "E" in destruct Hxy as [Hxy H']).
    apply Z.eqb_eq in Hxy. subst i2. destruct (Z.eqb i1 id); [|exact IH]. split; apply veqb_veq; assumption.
Qed.

Lemma row_fn_cong lg lg' ib : list_eqb logitem_eqb lg lg' = true -> Forall2 row_eq (row_fn lg ib) (row_fn lg' ib).
Proof.
  intros H. unfold row_fn.
  assert (H0 : results_of (ib_conds ib) lg = results_of (ib_conds ib) lg') by (exact (J3.results_of_rel lg lg' H (ib_conds ib))).
  rewrite H0. clear H0.
  assert (H1 : match first_mod_in (ib_mods ib) lg, first_mod_in (ib_mods ib) lg' with
               | Some v, Some v' => veq v v' | None, None => True | _, _ => False end).
  { unfold first_mod_in. destruct (ib_mods ib) as [|[id x] r]; [exact I|]. pose proof (find_mod_rel5 id lg lg' H) as Hf.
    destruct (find_mod id lg) as [[[v o] s]|], (find_mod id lg') as [[[v' o'] s']|]; cbn [option_map fst]; tauto. }
  assert (H2 : match last_mod_out (ib_mods ib) lg, last_mod_out (ib_mods ib) lg' with
               | Some v, Some v' => veq v v' | None, None => True | _, _ => False end).
  { unfold last_mod_out. destruct (rev (ib_mods ib)) as [|[id x] r]; [exact I|]. pose proof (find_mod_rel5 id lg lg' H) as Hf.
    destruct (find_mod id lg) as [[[v o] s]|], (find_mod id lg') as [[[v' o'] s']|]; cbn [option_map fst snd]; tauto. }
  destruct (first_mod_in (ib_mods ib) lg) as [rd|], (first_mod_in (ib_mods ib) lg') as [rd'|]; try contradiction; [|constructor].
  destruct (last_mod_out (ib_mods ib) lg) as [v|], (last_mod_out (ib_mods ib) lg') as [v'|]; try contradiction; [|constructor].
  destruct (results_of (ib_conds ib) lg') as [rs|]; [|constructor].
  constructor; [|constructor]. unfold row_eq. cbn [rw_input rw_read rw_value rw_res rw_own rw_condless].
  repeat split; try assumption. apply J3.law_veqb. apply veqb_veq. exact H2.
Qed.
Lemma rows_of_cong lg lg' b : list_eqb logitem_eqb lg lg' = true -> Forall2 row_eq (rows_of b lg) (rows_of b lg').
Proof.
  intros H. rewrite !rows_of_fn. induction (ab_inputs b) as [|ib l IH]; cbn [flat_map]; [constructor|].
  apply Forall2_app'; [apply row_fn_cong; exact H | exact IH].
Qed.

Definition out_agree5 (a b : out) : Prop :=
  list_eqb logitem_eqb (x_log a) (x_log b) = true /\ list_eqb snap_entry_eqb (x_snaps a) (x_snaps b) = true /\
  x_mirror a = x_mirror b /\ x_panicked a = x_panicked b.

Lemma judge_action_cong f c e dev b o o' h : out_agree5 o o' -> judge_action f c e dev b o h = judge_action f c e dev b o' h.
Proof.
  intros (Hl & Hs & _ & _). unfold judge_action.
  pose proof (rows_of_cong _ _ b Hl) as Hr.
  set (rows := rows_of b (x_log o)) in *. set (rows' := rows_of b (x_log o')) in *.
  pose proof (J3.snap_of_entry_rel c e (ab_id b) _ _ Hs) as Hsn.
  assert (Hc : match snap_of_entry c e (ab_id b) (x_snaps o) with
               | Some s => aid_consume (ab_id b) && negb (state_eqb (sn_state s) SNone) | None => false end =
               match snap_of_entry c e (ab_id b) (x_snaps o') with
               | Some s => aid_consume (ab_id b) && negb (state_eqb (sn_state s) SNone) | None => false end).
  { unfold J3.st_of in Hsn. destruct (snap_of_entry c e (ab_id b) (x_snaps o)), (snap_of_entry c e (ab_id b) (x_snaps o')); cbn [option_map] in Hsn; try discriminate; [|reflexivity].
    injection Hsn as ->. reflexivity. }
  assert (Hm : map (fun rw => (dev, rw_input rw)) (contributing rows) = map (fun rw => (dev, rw_input rw)) (contributing rows')).
  { pose proof (contributing_cong _ _ Hr) as Hcc. induction Hcc as [|x y l l' (Hi & _) _ IH]; [reflexivity|]. cbn [map]. rewrite Hi, IH. reflexivity. }
  assert (Hk : map (fun rw => if is_hidden h dev (rw_input rw) then (1, veqb (rw_read rw) (zero_of (rw_input rw)))
                              else (2, veqb (rw_read rw) (spec_read (f_raw f) (ui_any (f_raw f)) dev (rw_input rw)))) rows =
               map (fun rw => if is_hidden h dev (rw_input rw) then (1, veqb (rw_read rw) (zero_of (rw_input rw)))
                              else (2, veqb (rw_read rw) (spec_read (f_raw f) (ui_any (f_raw f)) dev (rw_input rw)))) rows').
  { clear Hm. induction Hr as [|x y l l' (Hi & Hrd & _) _ IH]; [reflexivity|]. cbn [map]. rewrite IH, Hi. f_equal.
    destruct (is_hidden h dev (rw_input y)); f_equal; apply veqb_compat; try exact Hrd; apply veq_refl. }
  rewrite Hk, Hm, Hc, (regular_cong _ _ _ _ Hr). reflexivity.
Qed.

Lemma judge_frame_cong sc f before before' o o' : x_mirror before = x_mirror before' -> out_agree5 o o' ->
  judge_frame sc f before o = judge_frame sc f before' o'.
Proof.
  intros Hm Ho. rewrite !judge_frame_fold, (J12.evaluated_mirror sc before before' Hm). f_equal.
  apply J12.fold_left_ext_fun. intros [chk [h|]] [[[c e] dev] b]; cbn [jstep5]; [|reflexivity].
  rewrite (judge_action_cong f c e dev b o o' h Ho). reflexivity.
Qed.

Lemma judge_steps5_cong sc : forall steps before before' outs outs',
  x_mirror before = x_mirror before' -> Forall2 out_agree5 outs outs' ->
  judge_steps5 sc before steps outs = judge_steps5 sc before' steps outs'.
Proof.
  induction steps as [|st steps IH]; intros before before' outs outs' M HA.
  - inversion HA; subst; reflexivity.
  - inversion HA as [|o o' outs1 outs1' Ho HA']; subst; [destruct st; reflexivity|].
    pose proof Ho as (_ & _ & A2 & A3). destruct st as [op|f]; cbn [judge_steps5]; rewrite A3.
    + f_equal. apply IH; assumption.
    + f_equal. rewrite (judge_frame_cong sc f before before' o o' M Ho). f_equal. apply IH; assumption.
Qed.

Lemma out_diff_agree5 key isf a b : out_diff_k key isf a b = 0 -> out_agree5 a b.
Proof.
  unfold out_diff_k, first_fail. intros H.
  destruct (list_eqb event_eqb (x_pre a) (x_pre b)); [|discriminate].
  match type of H with (if ?c then _ else _) = _ => destruct c; [|discriminate] end.
  match type of H with (if ?c then _ else _) = _ => destruct c; [|discriminate] end.
  destruct (list_eqb logitem_eqb (x_log a) (x_log b)) eqn:E4; [|discriminate].
  destruct (list_eqb snap_entry_eqb (x_snaps a) (x_snaps b)) eqn:E5; [|discriminate].
  destruct (list_eqb mirror_eqb (x_mirror a) (x_mirror b)) eqn:E6; [|discriminate].
  destruct (list_eqb zz_eqb (canon_built (x_built a)) (canon_built (x_built b))); [|discriminate].
  destruct (Bool.eqb (x_probe a) (x_probe b)); [|discriminate].
  destruct (Bool.eqb (x_update a) (x_update b)); [|discriminate].
  destruct (Bool.eqb (x_panicked a) (x_panicked b)) eqn:E10; [|discriminate].
  split; [exact E4|]. split; [exact E5|]. split; [apply J12.list_eqb_mirror; exact E6 | apply eqb_prop; exact E10].
Qed.
Lemma outs_diff_agree5 key : forall a b i steps, outs_diff key i steps a b = 0 -> 0 <= i -> Forall2 out_agree5 a b.
Proof.
  induction a as [|x a IH]; intros [|y b] i steps H Hi; cbn [outs_diff] in H; [constructor | lia | lia |].
  pose proof (J12.out_diff_range key (match steps with st :: _ => is_frame st | [] => false end) x y) as R.
  destruct (Z.eqb (out_diff_k key (match steps with st :: _ => is_frame st | [] => false end) x y) 0) eqn:E; [|apply Z.eqb_neq in E; lia].
  apply Z.eqb_eq in E. constructor; [exact (out_diff_agree5 _ _ _ _ E) | apply (IH _ _ _ H); lia].
Qed.

Theorem C05_app_judgement_respects_agree : forall sc t, agree_full (sc, t) = true -> ok5 (sc, t) = ok5 (sc, trace (run sc)).
Proof.
  intros sc t H. unfold agree_full in H. cbn [fst snd] in H. apply Z.eqb_eq in H. destruct t as [outs|]; [|discriminate].
  cbn [trace_diff] in H. apply outs_diff_agree5 in H; [|lia]. unfold ok5. f_equal. symmetry.
  apply judge_steps5_cong; [reflexivity | exact H].
Qed.

Theorem C05_app_judgement_transfer : forall sc t, profile_C05 sc -> agree_full (sc, t) = true -> ok5 (sc, t) = 0%Z.
Proof. intros sc t Hp Ha. rewrite (C05_app_judgement_respects_agree sc t Ha). apply C05_app_judgement_sound. exact Hp. Qed.

(* ================================================================================================ *)
(* 14. the profile is satisfiable on a non-trivial scenario; every conjunct of it is needed          *)
(* ================================================================================================ *)
Definition fr_ops (keys : list Z) (ops : list op) : step :=
  SFrame (mkFrame (1#64) 1 false 0 (mkRaw keys [] (0%Q, 0%Q) (0%Q, 0%Q) [] []) ops).
Definition fr (keys : list Z) : step := fr_ops keys [].
Definition probe (id : Z) : Z * modif := (id, m_script []).
Definition act1 (a k id : Z) : action_spec := mkAction a [] [] [mkBind (IKey k 0) [probe id] []].

(* an exclusive type (0, priority 30): a consuming action on K1+K3 (two bindings, one with a scripted condition), then
   listeners on K1, K2; a shared type (3, priority 0) inserted later, with listeners on K1, Ctrl+K2 and K3; a rebuild *)
Definition ex5_S0 : inst_spec := mkSpec None
  [mkAction 2 [] [] [mkBind (IKey 1 0) [probe 1] []; mkBind (IKey 3 0) [probe 2] [(3, c_script KExplicit [SFired; SOngoing; SFired; SFired; SFired; SFired])]];
   act1 4 1 4; act1 8 2 5;
   mkAction 2 [] [(6, c_script KExplicit [SFired; SFired; SFired; SNone; SFired; SFired])] []].
Definition ex5_S3 : inst_spec := mkSpec None [act1 16 1 7; mkAction 20 [] [] [mkBind (IKey 2 2) [probe 8] []]; act1 24 3 9].
Definition ex5_sc : scenario := mkScenario [0; 3] [0] [((0, 0), ex5_S0); ((3, 0), ex5_S3)]
  [SOp (OSpawn 0 [0]); fr []; fr [1; 2]; SOp (OInsert 0 3); fr [1; 2; 3; 102]; fr []; fr [1; 2; 3; 102]; fr [1; 3]; SOp ORebuild; fr [1]; fr []; fr [1; 2]].

Example C05_app_judgement_sound_satisfiable :
  profile_C05 ex5_sc /\ ok5 (ex5_sc, trace (run ex5_sc)) = 0 /\
  (* both kinds of clause are exercised: hidden reads (1) and raw reads (2) *)
  existsb (fun kb => Z.eqb (fst kb) 1) (judge_steps5 ex5_sc (mkOut [] [] [] [] [] [] [] true true false) (s_steps ex5_sc) (run ex5_sc)) = true /\
  existsb (fun kb => Z.eqb (fst kb) 2) (judge_steps5 ex5_sc (mkOut [] [] [] [] [] [] [] true true false) (s_steps ex5_sc) (run ex5_sc)) = true /\
  (* some action reaches Fired *)
  existsb (fun o => existsb (fun ev => state_eqb (e_state ev) SFired) (x_main o)) (run ex5_sc) = true.
Proof. vm_compute. repeat split. Qed.

Example C05_app_judgement_transfer_satisfiable :
  profile_C05 ex5_sc /\ agree_full (ex5_sc, trace (run ex5_sc)) = true /\ ok5 (ex5_sc, trace (run ex5_sc)) = 0.
Proof. vm_compute. repeat split. Qed.

(* (T) on a trace that agrees with the model's run without being equal to it: mouse motion consumed by a 2-dimensional
   action, the logged values of the other trace written as unreduced fractions *)
Definition fr_motion (mx my wx wy : Q) : step := SFrame (mkFrame (1#64) 1 false 0 (mkRaw [] [] (mx, my) (wx, wy) [] []) []).
Definition ex5_motion : scenario := mkScenario [0] [0]
  [((0, 0), mkSpec None [mkAction 34 [] [] [mkBind (IMotion 0) [probe 1] []]; mkAction 36 [] [] [mkBind (IMotion 0) [probe 2] []];
                         mkAction 40 [] [] [mkBind (IWheel 0) [probe 3] []]])]
  [SOp (OSpawn 0 [0]); fr_motion 0 0 0 0; fr_motion 1 (-1#2) 0 1; fr_motion 0 0 (3#4) 0; fr_motion (1#4) (1#4) (1#2) (1#2)].
Example C05_app_judgement_transfer_nontrivial :
  let t := trace (map J3.unreduce_out (run ex5_motion)) in
  profile_C05 ex5_motion /\ agree_full (ex5_motion, t) = true /\ t <> trace (run ex5_motion) /\ ok5 (ex5_motion, t) = 0 /\
  existsb (fun o => existsb (fun ev => state_eqb (e_state ev) SFired) (x_main o)) (run ex5_motion) = true.
Proof. vm_compute. repeat split. discriminate. Qed.

Definition ex5_parts (sc : scenario) :=
  (J12.p_prio sc, J12.p_ents sc, J12.p_slots sc, p_single_all sc, J12.p_ids_nodup sc, J12.p_ids_disj sc, p_mods sc, p_quiet sc).
Definition cons_listen (id1 id2 : Z) : inst_spec := mkSpec None [act1 2 1 id1; act1 4 1 id2].

(* two types of equal priority: the registry's order among them (binary search) is not the judgement's *)
Example C05_app_judgement_sound_needs_p_prio :
  let sc := mkScenario [7; 9] [0] [((7, 0), mkSpec None [act1 4 1 1]); ((9, 0), mkSpec None [act1 2 1 2])]
              [SOp (OSpawn 0 [7; 9]); fr []; fr [1]] in
  ex5_parts sc = (false, true, true, true, true, true, true, true) /\ ok5 (sc, trace (run sc)) <> 0.
Proof. vm_compute. split; [reflexivity | discriminate]. Qed.
(* an entity slot listed twice appears twice in the mirror: its instance is judged twice *)
Example C05_app_judgement_sound_needs_p_ents :
  let sc := mkScenario [0] [0; 0] [((0, 0), cons_listen 1 2)] [SOp (OSpawn 0 [0]); fr []; fr [1]] in
  ex5_parts sc = (true, false, true, true, true, true, true, true) /\ ok5 (sc, trace (run sc)) <> 0.
Proof. vm_compute. split; [reflexivity | discriminate]. Qed.
(* a holder that is not a listed slot is not in the mirror: what it consumes is not known to the judgement *)
Example C05_app_judgement_sound_needs_p_slots :
  let sc := mkScenario [0; 2] [0] [((0, 5), mkSpec None [act1 2 1 1]); ((2, 0), mkSpec None [act1 4 1 2])]
              [SOp (OSpawn 5 [0]); SOp (OSpawn 0 [2]); fr []; fr [1]] in
  ex5_parts sc = (true, true, false, true, true, true, true, true) /\ ok5 (sc, trace (run sc)) <> 0.
Proof. vm_compute. split; [reflexivity | discriminate]. Qed.
(* two holders of one type are evaluated in insertion order, the mirror lists them in slot order *)
Example C05_app_judgement_sound_needs_p_single_all :
  let sc := mkScenario [0] [0; 1] [((0, 0), mkSpec None [act1 2 1 1]); ((0, 1), mkSpec None [act1 2 1 2])]
              [SOp (OSpawn 1 [0]); SOp (OSpawn 0 [0]); fr []; fr [1]] in
  ex5_parts sc = (true, true, true, false, true, true, true, true) /\ ok5 (sc, trace (run sc)) <> 0.
Proof. vm_compute. split; [reflexivity | discriminate]. Qed.
(* equal ids in one configuration: the read logged by the first binding is taken for the second one *)
Example C05_app_judgement_sound_needs_p_ids_nodup :
  let sc := mkScenario [0] [0] [((0, 0), mkSpec None [act1 4 1 5; act1 8 2 5])] [SOp (OSpawn 0 [0]); fr []; fr [2]] in
  ex5_parts sc = (true, true, true, true, false, true, true, true) /\ ok5 (sc, trace (run sc)) <> 0.
Proof. vm_compute. split; [reflexivity | discriminate]. Qed.
(* the same across two context types *)
Example C05_app_judgement_sound_needs_p_ids_disj :
  let sc := mkScenario [0; 2] [0] [((0, 0), mkSpec None [act1 4 1 5]); ((2, 0), mkSpec None [act1 8 2 5])]
              [SOp (OSpawn 0 [0; 2]); fr []; fr [2]] in
  ex5_parts sc = (true, true, true, true, true, false, true, true) /\ ok5 (sc, trace (run sc)) <> 0.
Proof. vm_compute. split; [reflexivity | discriminate]. Qed.
(* a consuming binding without a modifier leaves no row: the judgement does not learn what it hid *)
Example C05_app_judgement_sound_needs_p_mods :
  let sc := mkScenario [0] [0] [((0, 0), mkSpec None [mkAction 2 [] [] [mkBind (IKey 1 0) [] []]; act1 4 1 1])]
              [SOp (OSpawn 0 [0]); fr []; fr [1]] in
  ex5_parts sc = (true, true, true, true, true, true, false, true) /\ ok5 (sc, trace (run sc)) <> 0.
Proof. vm_compute. split; [reflexivity | discriminate]. Qed.
(* a rebuild issued from inside the frame resets the state polled after it: the consumption is not seen *)
Example C05_app_judgement_sound_needs_p_quiet :
  let sc := mkScenario [0] [0] [((0, 0), cons_listen 1 2)] [SOp (OSpawn 0 [0]); fr []; fr_ops [1] [ORebuild]] in
  ex5_parts sc = (true, true, true, true, true, true, true, false) /\ ok5 (sc, trace (run sc)) <> 0.
Proof. vm_compute. split; [reflexivity | discriminate]. Qed.

Print Assumptions C05_app_judgement_sound.
Print Assumptions C05_app_judgement_respects_agree.
Print Assumptions C05_app_judgement_transfer.
