(* Link between the theorems about ActionData (Proofs/StateP.v) and the executable judgements
   ok_C10 / ok_C01u of Check/Datac.v:
     (S) the judgements accept the model's own output on every well-formed case,
     (T) they accept every output that `agree`s with the model's. *)
From BEI Require Import Model.State Spec.Events Proofs.ValueP Proofs.StateP Check.Lib Check.Datac.
Open Scope Q_scope.

(* ------------------------------------------------------------------------------------------ *)
(* first_fail                                                                                 *)

Lemma first_fail_all l : Forall (fun p => snd p = true) l -> first_fail l = 0%Z.
Proof.
  induction l as [|[k b] r IH]; intros HF; [reflexivity|].
  inversion HF as [|p q Hb Hr]; subst. cbn [snd] in Hb. subst b. cbn [first_fail]. apply IH, Hr.
Qed.

(* the characterisation; the converse needs the clause numbers to be non-zero *)
Lemma first_fail_0_iff l :
  Forall (fun p => fst p <> 0%Z) l ->
  (first_fail l = 0%Z <-> forall k b, In (k, b) l -> b = true).
Proof.
  induction l as [|[k b] r IH]; intros HN.
  - split; [intros _ k b []|reflexivity].
  - inversion HN as [|p q Hk Hr]; subst. cbn [fst] in Hk. specialize (IH Hr). cbn [first_fail].
    destruct b.
    + rewrite IH. split.
      * intros H k' b' [E|Hin]; [now inversion E|eauto].
      * intros H k' b' Hin. apply (H k' b'). now right.
    + split; [intros E; congruence|]. intros H. specialize (H k false (or_introl eq_refl)). discriminate.
Qed.

Lemma first_fail_app l1 l2 : first_fail l1 = 0%Z -> first_fail l2 = 0%Z -> first_fail (l1 ++ l2) = 0%Z.
Proof.
  induction l1 as [|[k b] r IH]; intros H1 H2; [exact H2|].
  cbn [app first_fail] in *. destruct b; [now apply IH|exact H1].
Qed.

(* ------------------------------------------------------------------------------------------ *)
(* Prop-level readings of the Boolean equalities used by `agree`                              *)

Lemma qeqb_iff x y : qeqb x y = true <-> x == y.
Proof. unfold qeqb. apply Qeq_bool_iff. Qed.
Lemma qleb_iff x y : qleb x y = true <-> x <= y.
Proof. unfold qleb. apply Qle_bool_iff. Qed.
Lemma state_eqb_iff x y : state_eqb x y = true <-> x = y.
Proof. destruct x, y; cbv; split; congruence. Qed.
Lemma evkind_eqb_iff x y : evkind_eqb x y = true <-> x = y.
Proof. destruct x, y; cbv; split; congruence. Qed.
Lemma dim_eqb_iff x y : dim_eqb x y = true <-> x = y.
Proof. destruct x, y; cbv; split; congruence. Qed.

Lemma veq_sym a b : veq a b -> veq b a.
Proof. destruct a, b; simpl; try tauto; intuition (symmetry; assumption). Qed.
Lemma veq_trans a b c : veq a b -> veq b c -> veq a c.
Proof.
  destruct a, b, c; simpl; try tauto; try congruence.
  - intros H1 H2. now rewrite H1.
  - intros [H1 H2] [H3 H4]. split; [now rewrite H1|now rewrite H2].
  - intros (H1 & H2 & H3) (H4 & H5 & H6). repeat split; [now rewrite H1|now rewrite H2|now rewrite H3].
Qed.
Lemma veq_vdim a b : veq a b -> vdim a = vdim b.
Proof. destruct a, b; simpl; tauto. Qed.

Definition oq_eq (a b : option Q) : Prop :=
  match a, b with Some x, Some y => x == y | None, None => True | _, _ => False end.
Lemma oq_eqb_iff a b : oq_eqb a b = true <-> oq_eq a b.
Proof. destruct a, b; simpl; try apply qeqb_iff; split; try discriminate; tauto. Qed.
Lemma oq_eq_refl a : oq_eq a a.
Proof. destruct a; simpl; [reflexivity|exact I]. Qed.
Lemma oq_eq_sym a b : oq_eq a b -> oq_eq b a.
Proof. destruct a, b; simpl; try tauto. intros H; now symmetry. Qed.
Lemma oq_eq_trans a b c : oq_eq a b -> oq_eq b c -> oq_eq a c.
Proof. destruct a, b, c; simpl; try tauto. intros H1 H2. now rewrite H1. Qed.

Definition event_eq (a b : event) : Prop :=
  e_target a = e_target b /\ e_action a = e_action b /\ e_kind a = e_kind b /\
  veq (e_value a) (e_value b) /\ e_state a = e_state b /\
  oq_eq (e_elapsed a) (e_elapsed b) /\ oq_eq (e_fired a) (e_fired b).
Lemma event_eqb_iff a b : event_eqb a b = true <-> event_eq a b.
Proof.
  unfold event_eqb, event_eq. rewrite !andb_true_iff, !Z.eqb_eq, evkind_eqb_iff, veqb_veq, state_eqb_iff, !oq_eqb_iff.
  tauto.
Qed.
Lemma event_eq_refl a : event_eq a a.
Proof. unfold event_eq. repeat split; try apply veq_refl; apply oq_eq_refl. Qed.
Lemma event_eq_sym a b : event_eq a b -> event_eq b a.
Proof.
  unfold event_eq. intros (H1 & H2 & H3 & H4 & H5 & H6 & H7).
  repeat split; try congruence; auto using veq_sym, oq_eq_sym.
Qed.
Lemma event_eq_trans a b c : event_eq a b -> event_eq b c -> event_eq a c.
Proof.
  unfold event_eq. intros (H1 & H2 & H3 & H4 & H5 & H6 & H7) (G1 & G2 & G3 & G4 & G5 & G6 & G7).
  repeat split; try congruence; eauto using veq_trans, oq_eq_trans.
Qed.

Definition snap_eq (a b : snap) : Prop :=
  sn_state a = sn_state b /\ sn_events a = sn_events b /\ veq (sn_value a) (sn_value b) /\
  sn_elapsed a == sn_elapsed b /\ sn_fired a == sn_fired b.
Lemma snap_eqb_iff a b : snap_eqb a b = true <-> snap_eq a b.
Proof.
  unfold snap_eqb, snap_eq. rewrite !andb_true_iff, state_eqb_iff, Z.eqb_eq, veqb_veq, !qeqb_iff. tauto.
Qed.
Lemma snap_eq_refl a : snap_eq a a.
Proof. unfold snap_eq. repeat split; try apply veq_refl; reflexivity. Qed.

Lemma list_eqb_Forall2 {A} (f : A -> A -> bool) a : forall b,
  list_eqb f a b = true <-> Forall2 (fun x y => f x y = true) a b.
Proof.
  induction a as [|x r IH]; intros [|y s]; cbn [list_eqb].
  - split; [constructor|reflexivity].
  - split; [discriminate|intros H; inversion H].
  - split; [discriminate|intros H; inversion H].
  - rewrite andb_true_iff, IH. split.
    + intros [H1 H2]. now constructor.
    + intros H. inversion H; subst. tauto.
Qed.

Lemma Forall2_impl {A B} (R S : A -> B -> Prop) l1 l2 :
  (forall x y, R x y -> S x y) -> Forall2 R l1 l2 -> Forall2 S l1 l2.
Proof. intros H HF. induction HF; constructor; auto. Qed.

Lemma events_eqb_iff e1 e2 : list_eqb event_eqb e1 e2 = true <-> Forall2 event_eq e1 e2.
Proof.
  rewrite list_eqb_Forall2. split; apply Forall2_impl; intros x y; apply event_eqb_iff.
Qed.

Definition dres_eq (x y : dres_t) : Prop :=
  match x, y with
  | dres s1 e1, dres s2 e2 => snap_eq s1 s2 /\ Forall2 event_eq e1 e2
  | dpanic, dpanic => True
  | _, _ => False
  end.
Lemma dres_eqb_iff x y : dres_eqb x y = true <-> dres_eq x y.
Proof.
  destruct x, y; simpl; try (split; [discriminate|tauto]); [|tauto].
  rewrite andb_true_iff, snap_eqb_iff, events_eqb_iff. tauto.
Qed.

Lemma Forall2_refl {A} (R : A -> A -> Prop) l : (forall x, R x x) -> Forall2 R l l.
Proof. intros H. induction l; constructor; auto. Qed.
Lemma dres_eq_refl x : dres_eq x x.
Proof. destruct x; simpl; [|exact I]. split; [apply snap_eq_refl|apply Forall2_refl, event_eq_refl]. Qed.

(* two lists related to the same list are related, for a symmetric transitive relation *)
Lemma Forall2_common {A} (R : A -> A -> Prop) :
  (forall x y, R x y -> R y x) -> (forall x y z, R x y -> R y z -> R x z) ->
  forall l1 l2, Forall2 R l1 l2 -> forall l3, Forall2 R l1 l3 -> Forall2 R l2 l3.
Proof.
  intros Hs Ht l1 l2 H12. induction H12 as [|x y l l' Hxy H12 IH]; intros l3 H13; inversion H13; subst.
  - constructor.
  - constructor; [eauto|]. now apply IH.
Qed.

Lemma Forall2_map_same {A B} (R : B -> B -> Prop) (f g : A -> B) l :
  (forall x, In x l -> R (f x) (g x)) -> Forall2 R (map f l) (map g l).
Proof. induction l as [|x r IH]; intros H; cbn [map]; constructor; [apply H; now left|apply IH; intros; apply H; now right]. Qed.

Lemma Forall2_flat_map_same {A B} (R : B -> B -> Prop) (f g : A -> list B) l :
  (forall x, In x l -> Forall2 R (f x) (g x)) -> Forall2 R (flat_map f l) (flat_map g l).
Proof.
  induction l as [|x r IH]; intros H; cbn [flat_map]; [constructor|].
  apply Forall2_app; [apply H; now left|apply IH; intros; apply H; now right].
Qed.

Lemma Forall2_forallb {A} (R : A -> A -> Prop) (P : A -> Prop) (q : A -> bool) l1 l2 :
  (forall x y, P x -> R x y -> q y = true) -> Forall P l1 -> Forall2 R l1 l2 -> forallb q l2 = true.
Proof.
  intros H HP HF. induction HF as [|x y l l' Hxy HF IH]; [reflexivity|].
  inversion HP; subst. cbn [forallb]. rewrite (H x y) by assumption. now apply IH.
Qed.

Lemma Forall_flat_map_map {A B C} (P : C -> Prop) (f : A -> B -> C) rs ks :
  (forall k e, P (f k e)) -> Forall P (flat_map (fun k => map (f k) rs) ks).
Proof.
  intros H. apply Forall_forall. intros e Hin. apply in_flat_map in Hin. destruct Hin as (k & _ & Hin).
  apply in_map_iff in Hin. destruct Hin as (x & <- & _). apply H.
Qed.

(* ------------------------------------------------------------------------------------------ *)
(* agree, read as a relation                                                                  *)

Lemma agree_iff a steps o :
  agree (udata a steps, o) = true <->
  exists rs, o = rdata rs /\
    Forall2 dres_eq (dres (snap_of (data_new (aid_dim a))) [] :: model_steps a (data_new (aid_dim a)) steps) rs.
Proof.
  unfold agree. cbn [fst snd model]. destruct o as [rs|].
  - rewrite list_eqb_Forall2. split.
    + intros H. exists rs. split; [reflexivity|]. revert H. apply Forall2_impl. intros x y; apply dres_eqb_iff.
    + intros (rs' & E & H). inversion E; subst rs'. revert H. apply Forall2_impl. intros x y; apply dres_eqb_iff.
  - split; [discriminate|]. intros (rs' & E & _). discriminate.
Qed.

(* the model agrees with itself, on every case *)
Lemma agree_model c : agree (c, model c) = true.
Proof.
  destruct c as [a steps]. apply agree_iff. eexists. split; [reflexivity|]. apply Forall2_refl, dres_eq_refl.
Qed.

(* ------------------------------------------------------------------------------------------ *)
(* one step of the model                                                                      *)

Lemma model_steps_cons a d s dt v r :
  model_steps a d (dstep s dt v :: r) =
  match emit (aid_dim a) a (data_update dt d s v) recipients with
  | Some evs => dres (snap_of (data_update dt d s v)) evs :: model_steps a (data_update dt d s v) r
  | None => [dpanic]
  end.
Proof. reflexivity. Qed.

Lemma ok10_steps_cons prev rprev s dt v steps' sn evs rs' :
  ok10_steps prev rprev (dstep s dt v :: steps') (dres sn evs :: rs') =
  [ (1%Z, state_eqb (sn_state sn) s);
    (2%Z, qeqb (sn_elapsed sn) (elapsed_spec ((sn_state prev, dt) :: rprev)));
    (3%Z, qeqb (sn_fired sn) (fired_spec ((sn_state prev, dt) :: rprev)));
    (4%Z, qleb 0 (sn_fired sn) && qleb (sn_fired sn) (sn_elapsed sn));
    (5%Z, implb (state_eqb (sn_state prev) SNone) (qeqb (sn_elapsed sn) 0 && qeqb (sn_fired sn) 0));
    (6%Z, forallb (fun e => oq_eqb (e_elapsed e) (if carries_elapsed (e_kind e) then Some (sn_elapsed sn) else None) &&
                            oq_eqb (e_fired e) (if carries_fired (e_kind e) then Some (sn_fired sn) else None)) evs) ]
  ++ ok10_steps sn ((sn_state prev, dt) :: rprev) steps' rs'.
Proof. reflexivity. Qed.

Lemma ok01_steps_cons a prev s dt v steps' sn evs rs' :
  ok01_steps a prev (dstep s dt v :: steps') (dres sn evs :: rs') =
  [ (1%Z, list_eqb event_eqb evs (expected_events a prev sn));
    (2%Z, Z.eqb (sn_events sn) (mask_of (table (sn_state prev) (sn_state sn))));
    (3%Z, state_eqb (sn_state sn) s && veqb (sn_value sn) v);
    (4%Z, dim_eqb (vdim (sn_value sn)) (aid_dim a)) ]
  ++ ok01_steps a sn steps' rs'.
Proof. reflexivity. Qed.

Lemma upd_state dt d s v : d_state (data_update dt d s v) = s.
Proof. unfold data_update. destruct (d_state d); reflexivity. Qed.
Lemma upd_value dt d s v : d_value (data_update dt d s v) = v.
Proof. unfold data_update. destruct (d_state d); reflexivity. Qed.
Lemma upd_events dt d s v : d_events (data_update dt d s v) = events_new (d_state d) s.
Proof. unfold data_update. destruct (d_state d); reflexivity. Qed.

(* trigger_events does not panic if there is nothing to trigger or the value has the action's type *)
Lemma emit_ok a d s dt v rs :
  (d_state d = SNone /\ s = SNone) \/ vdim v = aid_dim a ->
  emit (aid_dim a) a (data_update dt d s v) rs =
  Some (flat_map (fun k => map (mk_event a (data_update dt d s v) k) rs) (table (d_state d) s)).
Proof.
  intros [[H1 H2]|H].
  - unfold emit. rewrite upd_events, H1, H2. reflexivity.
  - rewrite emit_some by (rewrite upd_value; exact H). now rewrite upd_events, events_table.
Qed.

Lemma step_elapsed dt d s v rp :
  d_elapsed d == elapsed_spec rp -> d_elapsed (data_update dt d s v) == elapsed_spec ((d_state d, dt) :: rp).
Proof.
  intros He. unfold data_update, elapsed_spec; simpl. destruct (d_state d); simpl; rewrite ?Qred_correct;
    fold (elapsed_spec rp); try rewrite He; try reflexivity; ring.
Qed.
Lemma step_fired dt d s v rp :
  d_fired d == fired_spec rp -> d_fired (data_update dt d s v) == fired_spec ((d_state d, dt) :: rp).
Proof.
  intros Hf. unfold data_update, fired_spec; simpl. destruct (d_state d); simpl; rewrite ?Qred_correct;
    fold (fired_spec rp); try rewrite Hf; try reflexivity; ring.
Qed.
(* the delta of a frame is irrelevant when the action was None before it *)
Lemma step_inv dt d s v : d_state d = SNone \/ 0 <= dt -> dur_inv d -> dur_inv (data_update dt d s v).
Proof.
  unfold dur_inv, data_update. intros Hor [H1 H2].
  destruct (d_state d); simpl; rewrite ?Qred_correct; destruct Hor as [E|Hdt]; try discriminate; split; lra.
Qed.

Lemma mask_table p c : Z.of_N (events_new p c) = mask_of (table p c).
Proof. destruct p, c; reflexivity. Qed.

(* ------------------------------------------------------------------------------------------ *)
(* well-formedness                                                                            *)

(* the hypothesis as first proposed *)
Definition steps_wf (a : Z) (steps : list dstep_t) : Prop :=
  Forall (fun st => match st with dstep s dt v => 0 <= dt /\ vdim v = aid_dim a end) steps.

(* what C01u needs: every value has the action's type (clause 4 looks at every polled value,
   also on None -> None frames where nothing is triggered); deltas are irrelevant *)
Definition steps_wf01 (a : Z) (steps : list dstep_t) : Prop :=
  Forall (fun st => match st with dstep s dt v => vdim v = aid_dim a end) steps.

(* what C10 needs: a non-negative delta on frames that the action enters in a state other than
   None, and a value of the action's type on frames that trigger something (every frame except
   None -> None), so that trigger_events does not panic.  [prev] is the state before the steps. *)
Fixpoint steps_wf10_from (a : Z) (prev : state) (steps : list dstep_t) : Prop :=
  match steps with
  | [] => True
  | dstep s dt v :: r =>
      (prev = SNone \/ 0 <= dt) /\
      ((prev = SNone /\ s = SNone) \/ vdim v = aid_dim a) /\
      steps_wf10_from a s r
  end.
Definition steps_wf10 (a : Z) (steps : list dstep_t) : Prop := steps_wf10_from a SNone steps.

Lemma steps_wf_wf01 a steps : steps_wf a steps -> steps_wf01 a steps.
Proof. unfold steps_wf, steps_wf01. apply Forall_impl. intros [s dt v]; tauto. Qed.
Lemma steps_wf_wf10 a steps : steps_wf a steps -> steps_wf10 a steps.
Proof.
  unfold steps_wf, steps_wf10. generalize SNone. induction steps as [|[s dt v] r IH]; intros p HF; [exact I|].
  inversion HF as [|x l H12 Hr]; subst. cbv beta iota in H12. destruct H12 as [H1 H2].
  cbn [steps_wf10_from]. repeat split; auto.
Qed.

(* ------------------------------------------------------------------------------------------ *)
(* C10                                                                                        *)

Local Opaque recipients.

Lemma ok10_steps_ok a : forall steps d prev rprev rs,
  steps_wf10_from a (d_state d) steps ->
  sn_state prev = d_state d ->
  d_elapsed d == elapsed_spec rprev -> d_fired d == fired_spec rprev -> dur_inv d ->
  Forall2 dres_eq (model_steps a d steps) rs ->
  first_fail (ok10_steps prev rprev steps rs) = 0%Z.
Proof.
  induction steps as [|[s dt v] r IH]; intros d prev rprev rs Hwf Hprev Hel Hfi Hinv HF.
  - inversion HF; subst. reflexivity.
  - cbn [steps_wf10_from] in Hwf. destruct Hwf as (Hdt & Hdim & Hwf).
    rewrite model_steps_cons, (emit_ok a d s dt v recipients Hdim) in HF.
    set (d' := data_update dt d s v) in *.
    inversion HF as [|x y l rs' Hxy HF' E1 E2]; subst x l rs. clear HF.
    destruct y as [sn evs|]; [|contradiction]. cbn [dres_eq] in Hxy. destruct Hxy as [Hsn Hevs].
    destruct Hsn as (Sst & Sev & Sval & Sel & Sfi). cbn [snap_of sn_state sn_events sn_value sn_elapsed sn_fired] in *.
    assert (Hst' : d_state d' = s) by apply upd_state.
    assert (Hel' : d_elapsed d' == elapsed_spec ((d_state d, dt) :: rprev)) by (apply step_elapsed, Hel).
    assert (Hfi' : d_fired d' == fired_spec ((d_state d, dt) :: rprev)) by (apply step_fired, Hfi).
    assert (Hinv' : dur_inv d') by (apply step_inv; assumption).
    rewrite ok10_steps_cons, Hprev. apply first_fail_app.
    + apply first_fail_all. repeat (apply Forall_cons || apply Forall_nil); cbn [snd].
      * apply state_eqb_iff. congruence.
      * apply qeqb_iff. eapply Qeq_trans; [symmetry; exact Sel|exact Hel'].
      * apply qeqb_iff. eapply Qeq_trans; [symmetry; exact Sfi|exact Hfi'].
      * destruct Hinv' as [I1 I2]. apply andb_true_iff. split; apply qleb_iff.
        -- eapply Qle_trans; [exact I1|]. apply Qle_lteq. right. exact Sfi.
        -- eapply Qle_trans; [apply Qle_lteq; right; symmetry; exact Sfi|].
           eapply Qle_trans; [exact I2|]. apply Qle_lteq. right. exact Sel.
      * destruct (state_eqb (d_state d) SNone) eqn:E; [|reflexivity]. apply state_eqb_iff in E.
        pose proof (data_update_durations dt d s v) as HD. cbv zeta in HD. fold d' in HD.
        destruct HD as (HD & _). destruct (HD E) as [Z1 Z2]. cbn [implb].
        apply andb_true_iff. split; apply qeqb_iff.
        -- eapply Qeq_trans; [symmetry; exact Sel|exact Z1].
        -- eapply Qeq_trans; [symmetry; exact Sfi|exact Z2].
      * eapply (Forall2_forallb event_eq
                  (fun e => e_elapsed e = (if carries_elapsed (e_kind e) then Some (d_elapsed d') else None) /\
                            e_fired e = (if carries_fired (e_kind e) then Some (d_fired d') else None)));
          [| |exact Hevs].
        -- intros x y [P1 P2] (_ & _ & Hk & _ & _ & Ee & Ef). rewrite <- Hk.
           apply andb_true_iff. split; apply oq_eqb_iff; apply oq_eq_sym.
           ++ eapply oq_eq_trans; [|exact Ee]. rewrite P1. destruct (carries_elapsed (e_kind x)); simpl; [|exact I].
              symmetry. exact Sel.
           ++ eapply oq_eq_trans; [|exact Ef]. rewrite P2. destruct (carries_fired (e_kind x)); simpl; [|exact I].
              symmetry. exact Sfi.
        -- apply Forall_flat_map_map. intros k ent.
           pose proof (mk_event_payload a d' k ent) as HP. cbv zeta in HP.
           destruct HP as (_ & _ & Hk & _ & _ & He & Hf). rewrite Hk. split; assumption.
    + apply (IH d'); try assumption.
      * rewrite Hst'. exact Hwf.
      * symmetry. exact Sst.
Qed.

Theorem C10_judgement_transfer : forall a steps o,
  steps_wf10 a steps -> agree (udata a steps, o) = true -> ok_C10 (udata a steps, o) = 0%Z.
Proof.
  intros a steps o Hwf Hag. apply agree_iff in Hag. destruct Hag as (rs & -> & HF).
  inversion HF as [|x y l rs' Hxy HF' E1 E2]; subst x l rs. clear HF.
  destruct y as [s0 evs0|]; [|contradiction]. destruct Hxy as [(Sst & _ & _ & Sel & Sfi) _].
  cbn [snap_of data_new sn_state sn_elapsed sn_fired] in *.
  unfold ok_C10. change (first_fail ([(7%Z, qeqb (sn_elapsed s0) 0 && qeqb (sn_fired s0) 0)] ++ ok10_steps s0 [] steps rs') = 0%Z).
  apply first_fail_app.
  - apply first_fail_all. repeat constructor. cbn [snd]. apply andb_true_iff. split; apply qeqb_iff; symmetry; assumption.
  - apply (ok10_steps_ok a steps (data_new (aid_dim a))); try assumption; try reflexivity.
    + symmetry. exact Sst.
    + unfold dur_inv. cbn [data_new d_fired d_elapsed]. split; apply Qle_refl.
Qed.

Theorem C10_judgement_sound : forall a steps,
  steps_wf10 a steps -> ok_C10 (udata a steps, model (udata a steps)) = 0%Z.
Proof. intros a steps Hwf. apply C10_judgement_transfer; [exact Hwf|apply agree_model]. Qed.

(* ------------------------------------------------------------------------------------------ *)
(* C01 (unit part)                                                                            *)

Lemma ok01_steps_ok a : forall steps d prev rs,
  steps_wf01 a steps ->
  sn_state prev = d_state d ->
  Forall2 dres_eq (model_steps a d steps) rs ->
  first_fail (ok01_steps a prev steps rs) = 0%Z.
Proof.
  induction steps as [|[s dt v] r IH]; intros d prev rs Hwf Hprev HF.
  - inversion HF; subst. reflexivity.
  - inversion Hwf as [|x l Hdim Hwf' E1]; subst x l.
    rewrite model_steps_cons, (emit_ok a d s dt v recipients (or_intror Hdim)) in HF.
    set (d' := data_update dt d s v) in *.
    inversion HF as [|x y l rs' Hxy HF' E1 E2]; subst x l rs. clear HF.
    destruct y as [sn evs|]; [|contradiction]. cbn [dres_eq] in Hxy. destruct Hxy as [Hsn Hevs].
    destruct Hsn as (Sst & Sev & Sval & Sel & Sfi). cbn [snap_of sn_state sn_events sn_value sn_elapsed sn_fired] in *.
    assert (Hst' : d_state d' = s) by apply upd_state.
    assert (Hv' : d_value d' = v) by apply upd_value.
    rewrite ok01_steps_cons, Hprev, <- Sst, Hst'. apply first_fail_app.
    + apply first_fail_all. repeat (apply Forall_cons || apply Forall_nil); cbn [snd].
      * apply events_eqb_iff.
        eapply (Forall2_common event_eq event_eq_sym event_eq_trans); [exact Hevs|].
        unfold expected_events. rewrite Hprev, <- Sst, Hst'.
        apply Forall2_flat_map_same. intros k _. apply Forall2_map_same. intros ent _.
        unfold event_eq. destruct k; cbn [mk_event carries_elapsed carries_fired e_target e_action e_kind e_value e_state e_elapsed e_fired oq_eq];
          repeat split; assumption.
      * apply Z.eqb_eq. rewrite <- Sev. unfold d'. rewrite upd_events. apply mask_table.
      * apply andb_true_iff. split; [apply state_eqb_iff; congruence|].
        apply veqb_veq, veq_sym. rewrite <- Hv'. exact Sval.
      * apply dim_eqb_iff. rewrite <- (veq_vdim _ _ Sval), Hv'. exact Hdim.
    + apply (IH d'); try assumption. rewrite Hst'. symmetry. congruence.
Qed.

Theorem C01u_judgement_transfer : forall a steps o,
  steps_wf01 a steps -> agree (udata a steps, o) = true -> ok_C01u (udata a steps, o) = 0%Z.
Proof.
  intros a steps o Hwf Hag. apply agree_iff in Hag. destruct Hag as (rs & -> & HF).
  inversion HF as [|x y l rs' Hxy HF' E1 E2]; subst x l rs. clear HF.
  destruct y as [s0 evs0|]; [|contradiction]. destruct Hxy as [(Sst & _) _].
  cbn [snap_of data_new sn_state] in Sst.
  unfold ok_C01u. apply (ok01_steps_ok a steps (data_new (aid_dim a))); try assumption.
  symmetry. exact Sst.
Qed.

Theorem C01u_judgement_sound : forall a steps,
  steps_wf01 a steps -> ok_C01u (udata a steps, model (udata a steps)) = 0%Z.
Proof. intros a steps Hwf. apply C01u_judgement_transfer; [exact Hwf|apply agree_model]. Qed.

(* steps_wf01 is exactly the set of cases on which the judgement accepts the model *)
Lemma first_fail_cons_inv k b l : k <> 0%Z -> first_fail ((k, b) :: l) = 0%Z -> b = true /\ first_fail l = 0%Z.
Proof. intros Hk H. cbn [first_fail] in H. destruct b; [tauto|congruence]. Qed.

Lemma ok01_steps_wf a : forall steps d prev,
  first_fail (ok01_steps a prev steps (model_steps a d steps)) = 0%Z -> steps_wf01 a steps.
Proof.
  induction steps as [|[s dt v] r IH]; intros d prev H; [constructor|].
  rewrite model_steps_cons in H. destruct (emit (aid_dim a) a (data_update dt d s v) recipients) as [evs|].
  - rewrite ok01_steps_cons in H. cbn [app] in H.
    apply first_fail_cons_inv in H; [|discriminate]. destruct H as [_ H].
    apply first_fail_cons_inv in H; [|discriminate]. destruct H as [_ H].
    apply first_fail_cons_inv in H; [|discriminate]. destruct H as [_ H].
    apply first_fail_cons_inv in H; [|discriminate]. destruct H as [H4 H].
    constructor; [|eapply IH; exact H].
    apply dim_eqb_iff in H4. cbn [snap_of sn_value] in H4. now rewrite upd_value in H4.
  - cbn in H. discriminate.
Qed.

Theorem C01u_judgement_sound_exact a steps :
  ok_C01u (udata a steps, model (udata a steps)) = 0%Z <-> steps_wf01 a steps.
Proof.
  split; [|apply C01u_judgement_sound].
  cbn [model ok_C01u]. apply ok01_steps_wf.
Qed.

(* ------------------------------------------------------------------------------------------ *)
(* the four statements under the single hypothesis steps_wf                                   *)

Corollary C10_judgement_sound_wf a steps :
  steps_wf a steps -> ok_C10 (udata a steps, model (udata a steps)) = 0%Z.
Proof. intros H. apply C10_judgement_sound, steps_wf_wf10, H. Qed.
Corollary C01u_judgement_sound_wf a steps :
  steps_wf a steps -> ok_C01u (udata a steps, model (udata a steps)) = 0%Z.
Proof. intros H. apply C01u_judgement_sound, steps_wf_wf01, H. Qed.
Corollary C10_judgement_transfer_wf a steps o :
  steps_wf a steps -> agree (udata a steps, o) = true -> ok_C10 (udata a steps, o) = 0%Z.
Proof. intros H. apply C10_judgement_transfer, steps_wf_wf10, H. Qed.
Corollary C01u_judgement_transfer_wf a steps o :
  steps_wf a steps -> agree (udata a steps, o) = true -> ok_C01u (udata a steps, o) = 0%Z.
Proof. intros H. apply C01u_judgement_transfer, steps_wf_wf01, H. Qed.

(* ------------------------------------------------------------------------------------------ *)
(* every hypothesis kept is needed                                                            *)

(* action 0 is a bool action, action 16 an Axis1D one *)

(* C10, delta: Ongoing for a frame of -1: elapsed = -1 < 0 = fired, clause 4 *)
Definition neg_dt_case : ucase := udata 0 [dstep SOngoing 0 (VB true); dstep SOngoing (-1) (VB true)].
Example C10_judgement_sound_needs_dt :
  steps_wf01 0 [dstep SOngoing 0 (VB true); dstep SOngoing (-1) (VB true)] /\   (* types are right *)
  ok_C10 (neg_dt_case, model neg_dt_case) = 4%Z.
Proof. split; [repeat constructor|vm_compute; reflexivity]. Qed.
Example C10_judgement_transfer_needs_dt :
  agree (neg_dt_case, model neg_dt_case) = true /\ ok_C10 (neg_dt_case, model neg_dt_case) <> 0%Z.
Proof. split; [vm_compute; reflexivity|vm_compute; discriminate]. Qed.

(* C10, value type: a bool action fed an Axis1D value on a frame that triggers events: the
   implementation (and the model) panic, the judgement answers 9 *)
Definition bad_dim_case : ucase := udata 0 [dstep SFired 1 (V1 1)].
Example C10_judgement_sound_needs_dim :
  Forall (fun st => match st with dstep s dt v => 0 <= dt end) [dstep SFired 1 (V1 1)] /\   (* deltas are right *)
  ok_C10 (bad_dim_case, model bad_dim_case) = 9%Z.
Proof. split; [repeat constructor; unfold Qle; cbn; lia|vm_compute; reflexivity]. Qed.
(* ... and also on a frame that only leaves for None (Completed is triggered) *)
Definition bad_dim_leave_case : ucase := udata 0 [dstep SFired 1 (VB true); dstep SNone 1 (V1 0)].
Example C10_judgement_sound_needs_dim_leaving : ok_C10 (bad_dim_leave_case, model bad_dim_leave_case) = 9%Z.
Proof. vm_compute. reflexivity. Qed.
Example C10_judgement_transfer_needs_dim :
  agree (bad_dim_case, model bad_dim_case) = true /\ ok_C10 (bad_dim_case, model bad_dim_case) <> 0%Z.
Proof. split; [vm_compute; reflexivity|vm_compute; discriminate]. Qed.

(* C01u, value type: already on a None -> None frame, clause 4 *)
Definition bad_dim_quiet_case : ucase := udata 0 [dstep SNone 1 (V1 1)].
Example C01u_judgement_sound_needs_dim : ok_C01u (bad_dim_quiet_case, model bad_dim_quiet_case) = 4%Z.
Proof. vm_compute. reflexivity. Qed.
Example C01u_judgement_transfer_needs_dim :
  agree (bad_dim_quiet_case, model bad_dim_quiet_case) = true /\
  ok_C01u (bad_dim_quiet_case, model bad_dim_quiet_case) <> 0%Z.
Proof. split; [vm_compute; reflexivity|vm_compute; discriminate]. Qed.

(* the hypotheses of the two properties really differ:
   - C10 accepts that case (nothing is triggered, so no panic), through the theorem;
   - C01u accepts negative deltas, through the theorem *)
Example C10_wf_weaker_than_steps_wf :
  steps_wf10 0 [dstep SNone (-5) (V1 1)] /\ ~ steps_wf 0 [dstep SNone (-5) (V1 1)] /\
  ok_C10 (bad_dim_quiet_case, model bad_dim_quiet_case) = 0%Z.
Proof.
  split; [|split].
  - cbn. auto.
  - intros H. inversion H as [|x l H1 _]. cbv beta iota in H1. destruct H1 as [_ H1]. discriminate.
  - apply C10_judgement_sound. cbn. auto.
Qed.
Example C01u_wf_weaker_than_steps_wf :
  steps_wf01 0 [dstep SOngoing 0 (VB true); dstep SOngoing (-1) (VB true)] /\
  ~ steps_wf 0 [dstep SOngoing 0 (VB true); dstep SOngoing (-1) (VB true)] /\
  ok_C01u (neg_dt_case, model neg_dt_case) = 0%Z.
Proof.
  split; [|split].
  - repeat constructor.
  - intros H. apply Forall_inv_tail, Forall_inv in H. destruct H as [Hneg _]. revert Hneg. unfold Qle; cbn. lia.
  - apply C01u_judgement_sound. repeat constructor.
Qed.

(* steps_wf10 is sufficient, not necessary, in its delta part: a negative delta can be absorbed by
   time accumulated before (the exact condition is clause 4 itself, on the specification) *)
Definition absorbed_case : ucase :=
  udata 0 [dstep SOngoing 0 (VB true); dstep SOngoing 5 (VB true); dstep SOngoing (-1) (VB true)].
Example C10_dt_hypothesis_not_necessary :
  ok_C10 (absorbed_case, model absorbed_case) = 0%Z /\
  ~ steps_wf10 0 [dstep SOngoing 0 (VB true); dstep SOngoing 5 (VB true); dstep SOngoing (-1) (VB true)].
Proof.
  split; [vm_compute; reflexivity|].
  cbn. intros (_ & _ & _ & _ & [H|H] & _); [discriminate|]. revert H. unfold Qle; cbn. lia.
Qed.

(* ------------------------------------------------------------------------------------------ *)
(* the hypotheses are satisfiable on a non-trivial case (Axis2D action 32; all nine transitions) *)

Definition tour : list dstep_t :=
  [ dstep SNone (1#60) (V2 0 0);
    dstep SOngoing (1#60) (V2 (1#2) 0);
    dstep SOngoing (1#30) (V2 (1#2) (1#4));
    dstep SFired (1#60) (V2 1 0);
    dstep SFired (1#60) (V2 1 1);
    dstep SOngoing 0 (V2 (1#3) 0);
    dstep SNone (1#60) (V2 0 0);
    dstep SFired (1#60) (V2 0 1);
    dstep SNone (1#60) (V2 0 0);
    dstep SOngoing (1#60) (V2 (2#4) 0);
    dstep SFired (1#60) (V2 1 0) ].
Lemma tour_wf : steps_wf 32 tour.
Proof. unfold steps_wf, tour. repeat constructor; unfold Qle; cbn; lia. Qed.

Example C10_judgement_sound_example : ok_C10 (udata 32 tour, model (udata 32 tour)) = 0%Z.
Proof. apply C10_judgement_sound, steps_wf_wf10, tour_wf. Qed.
Example C01u_judgement_sound_example : ok_C01u (udata 32 tour, model (udata 32 tour)) = 0%Z.
Proof. apply C01u_judgement_sound, steps_wf_wf01, tour_wf. Qed.

(* an output that agrees with the model's without being equal to it: unreduced fractions *)
Definition other_out : uout :=
  rdata [ dres (mkSnap SNone 0 (V2 0 0) (0#5) 0) [];
          dres (mkSnap SOngoing 3 (V2 (2#4) 0) 0 (0#7))
               [ mkEv 0%Z 32%Z EStarted (V2 (1#2) 0) SOngoing None None;
                 mkEv 1%Z 32%Z EStarted (V2 (3#6) 0) SOngoing None None;
                 mkEv 0%Z 32%Z EOngoing (V2 (1#2) (0#3)) SOngoing (Some (0#2)) None;
                 mkEv 1%Z 32%Z EOngoing (V2 (1#2) 0) SOngoing (Some 0) None ];
          dres (mkSnap SFired 4 (V2 1 0) (2#120) 0)
               [ mkEv 0%Z 32%Z EFired (V2 1 0) SFired (Some (1#60)) (Some (0#9));
                 mkEv 1%Z 32%Z EFired (V2 (5#5) 0) SFired (Some (3#180)) (Some 0) ] ].
Definition short : list dstep_t := [ dstep SOngoing (1#60) (V2 (1#2) 0); dstep SFired (1#60) (V2 1 0) ].
Lemma short_wf : steps_wf 32 short.
Proof. unfold steps_wf, short. repeat constructor; unfold Qle; cbn; lia. Qed.
Lemma other_out_agrees : agree (udata 32 short, other_out) = true /\ other_out <> model (udata 32 short).
Proof. split; [vm_compute; reflexivity|vm_compute; discriminate]. Qed.
Example C10_judgement_transfer_example : ok_C10 (udata 32 short, other_out) = 0%Z.
Proof. apply C10_judgement_transfer; [apply steps_wf_wf10, short_wf|apply other_out_agrees]. Qed.
Example C01u_judgement_transfer_example : ok_C01u (udata 32 short, other_out) = 0%Z.
Proof. apply C01u_judgement_transfer; [apply steps_wf_wf01, short_wf|apply other_out_agrees]. Qed.

Print Assumptions C10_judgement_sound.
Print Assumptions C01u_judgement_sound.
Print Assumptions C10_judgement_transfer.
Print Assumptions C01u_judgement_transfer.
Print Assumptions C01u_judgement_sound_exact.
Print Assumptions C10_judgement_sound_wf.
Print Assumptions C01u_judgement_sound_wf.
Print Assumptions C10_judgement_transfer_wf.
Print Assumptions C01u_judgement_transfer_wf.
