(* C02 at world level, part 1: FRAMES.  What one registry update (ContextInstances::update, the heart of a
   frame) delivers to one entity e for one action a of one context type c, and what it leaves stored:
   exactly the chunk of the transition table between the stored state and the new state, with the
   payload of the new data.  Vocabulary: Proofs/TrackDefs.v. *)
From BEI Require Import Model.Frame Spec.Events Spec.Episode Proofs.StateP Proofs.ActionP Proofs.InstanceP
  Proofs.EpisodeP Proofs.FanoutP Proofs.RegistryP Proofs.TrackDefs.
Open Scope Z_scope.

(* ================================================================================================ *)
(* 1. filtering an event list by recipient and action                                               *)
(* ================================================================================================ *)
Lemma ev_of_app e a l1 l2 : ev_of e a (l1 ++ l2) = ev_of e a l1 ++ ev_of e a l2.
Proof. unfold ev_of. apply filter_app. Qed.

Lemma ev_of_nil e a : ev_of e a [] = [].
Proof. reflexivity. Qed.

Lemma mk_event_action a d k e : e_action (mk_event a d k e) = a.
Proof. destruct k; reflexivity. Qed.
Lemma mk_event_kind a d k e : e_kind (mk_event a d k e) = k.
Proof. destruct k; reflexivity. Qed.
Lemma mk_event_state a d k e : e_state (mk_event a d k e) = d_state d.
Proof. destruct k; reflexivity. Qed.

Lemma ev_of_to e a l : ev_of e a l = filter (fun ev => Z.eqb (e_action ev) a) (to e l).
Proof.
  unfold ev_of, to. induction l as [|x l IH]; cbn [filter]; [reflexivity|].
  destruct (Z.eqb (e_target x) e); cbn [andb filter]; [|exact IH].
  destruct (Z.eqb (e_action x) a); [f_equal|]; exact IH.
Qed.

Lemma ev_of_none e a l : (forall ev, In ev l -> e_action ev <> a) -> ev_of e a l = [].
Proof.
  intros H. unfold ev_of. induction l as [|x l IH]; cbn [filter]; [reflexivity|].
  assert (Hx : Z.eqb (e_action x) a = false) by (apply Z.eqb_neq; apply H; left; reflexivity).
  rewrite Hx, andb_false_r. apply IH. intros ev Hev. apply H. right. exact Hev.
Qed.

Lemma filter_action_all a d e ks :
  filter (fun ev => Z.eqb (e_action ev) a) (map (fun k => mk_event a d k e) ks) = map (fun k => mk_event a d k e) ks.
Proof.
  induction ks as [|k ks IH]; cbn [map filter]; [reflexivity|].
  rewrite mk_event_action, Z.eqb_refl, IH. reflexivity.
Qed.

(* one emission: e's copy of each event if e is a recipient, nothing otherwise, nothing for other actions *)
Lemma ev_of_flat_in e a d ks recips : NoDup recips -> In e recips ->
  ev_of e a (flat_map (fun k => map (mk_event a d k) recips) ks) = map (fun k => mk_event a d k e) ks.
Proof. intros Hnd Hin. rewrite ev_of_to, to_flat by assumption. apply filter_action_all. Qed.
Lemma ev_of_flat_notin e a b d ks recips : ~ In e recips ->
  ev_of e a (flat_map (fun k => map (mk_event b d k) recips) ks) = [].
Proof. intros Hn. rewrite ev_of_to, to_flat_notin by assumption. reflexivity. Qed.
Lemma ev_of_flat_other e a b d ks recips : b <> a ->
  ev_of e a (flat_map (fun k => map (mk_event b d k) recips) ks) = [].
Proof.
  intros Hne. apply ev_of_none. intros ev Hev. apply in_flat_map in Hev. destruct Hev as (k & _ & Hev).
  apply in_map_iff in Hev. destruct Hev as (x & <- & _). rewrite mk_event_action. exact Hne.
Qed.

(* ================================================================================================ *)
(* 2. evaluation never changes the shape of a binding                                               *)
(* ================================================================================================ *)
Lemma cond_eval_kind look tm v c : cond_kind (fst (cond_eval look tm v c)) = cond_kind c.
Proof.
  destruct c; cbn [cond_eval]; cbv zeta; try reflexivity;
    repeat match goal with |- context [if ?b then _ else _] => destruct b end; reflexivity.
Qed.

Lemma apply_conds_kinds m tm cs : forall t, conds_kinds (fst (fst (apply_conds m tm t cs))) = conds_kinds cs.
Proof.
  induction cs as [|[id c] rest IH]; intros t; cbn [apply_conds]; [reflexivity|].
  pose proof (cond_eval_kind (look_of m) tm (t_value t) c) as Hk.
  destruct (cond_eval (look_of m) tm (t_value t) c) as [c' s]. cbn [fst] in Hk.
  specialize (IH (apply_result t (cond_kind c) s)).
  destruct (apply_conds m tm (apply_result t (cond_kind c) s) rest) as [[rest' t'] lg]. cbn [fst] in *.
  unfold conds_kinds in *. cbn [map snd]. rewrite Hk, IH. reflexivity.
Qed.

Lemma apply_result_eb t k s : k <> KBlocker true -> events_blocked (apply_result t k s) = events_blocked t.
Proof. intros Hk. destruct k as [| |[|]]; cbn [apply_result events_blocked]; try reflexivity. congruence. Qed.

(* only an events-only blocker ever sets [events_blocked] *)
Lemma apply_conds_eb m tm cs : forall t, ~ In (KBlocker true) (conds_kinds cs) ->
  events_blocked (snd (fst (apply_conds m tm t cs))) = events_blocked t.
Proof.
  induction cs as [|[id c] rest IH]; intros t Hn; cbn [apply_conds]; [reflexivity|].
  destruct (cond_eval (look_of m) tm (t_value t) c) as [c' s].
  assert (Hc : cond_kind c <> KBlocker true).
  { intros E. apply Hn. unfold conds_kinds. cbn [map snd]. left. exact E. }
  assert (Hr : ~ In (KBlocker true) (conds_kinds rest)).
  { intros H. apply Hn. unfold conds_kinds. cbn [map snd]. right. exact H. }
  specialize (IH (apply_result t (cond_kind c) s) Hr).
  destruct (apply_conds m tm (apply_result t (cond_kind c) s) rest) as [[rest' t'] lg]. cbn [fst snd] in *.
  rewrite IH. apply apply_result_eb. exact Hc.
Qed.

Lemma input_step_track m tm r c dev a st b :
  conds_kinds (ib_conds (snd (input_step m tm r c dev a st b))) = conds_kinds (ib_conds b) /\
  (~ In (KBlocker true) (conds_kinds (ib_conds b)) -> events_blocked (l_tracker st) = false ->
   events_blocked (l_tracker (fst (input_step m tm r c dev a st b))) = false).
Proof.
  unfold input_step.
  destruct (ib_ignored b && as_bool (reader_value r consumed_reset dev (ib_input b))); [split; [reflexivity | intros _ H; exact H]|].
  destruct (apply_mods m tm (reader_value r c dev (ib_input b)) (ib_mods b)) as [[ms' v'] lg1].
  pose proof (apply_conds_kinds m tm (ib_conds b) (tracker_new v')) as Hk.
  pose proof (apply_conds_eb m tm (ib_conds b) (tracker_new v')) as He.
  destruct (apply_conds m tm (tracker_new v') (ib_conds b)) as [[cs' cur] lg2]. cbn [fst snd] in Hk, He.
  destruct (state_eqb (tracker_state cur) SNone); [cbn [fst snd ib_conds l_tracker]; split; [exact Hk | intros _ H; exact H]|].
  destruct (state_cmp (tracker_state cur) (tracker_state (l_tracker st))); cbn [fst snd ib_conds l_tracker];
    (split; [exact Hk|]); intros Hn Hst.
  - unfold tr_combine. cbn [events_blocked]. rewrite Hst, (He Hn). reflexivity.
  - exact Hst.
  - unfold tr_overwrite, with_value. cbn [events_blocked]. exact (He Hn).
Qed.

Definition inputs_kinds (bs : list ibind) : list (list ckind) := map (fun ib => conds_kinds (ib_conds ib)) bs.

Lemma input_loop_track m tm r c dev a bs : forall st,
  inputs_kinds (snd (input_loop m tm r c dev a st bs)) = inputs_kinds bs /\
  (Forall (fun ib => ~ In (KBlocker true) (conds_kinds (ib_conds ib))) bs -> events_blocked (l_tracker st) = false ->
   events_blocked (l_tracker (fst (input_loop m tm r c dev a st bs))) = false).
Proof.
  induction bs as [|b rest IH]; intros st; cbn [input_loop]; [split; [reflexivity | intros _ H; exact H]|].
  pose proof (input_step_track m tm r c dev a st b) as [Hk He].
  destruct (input_step m tm r c dev a st b) as [st1 b']. cbn [fst snd] in Hk, He.
  specialize (IH st1). destruct (input_loop m tm r c dev a st1 rest) as [st2 rest']. cbn [fst snd] in *.
  destruct IH as [IHk IHe]. split.
  - unfold inputs_kinds in *. cbn [map]. rewrite Hk, IHk. reflexivity.
  - intros HF Hst. inversion HF as [|x l Hx Hl]; subst. apply IHe; [exact Hl|]. apply He; assumption.
Qed.

(* shape of the binding after one evaluation *)
Lemma action_update_shape m tm r c dev recips ab :
  bind_shape (o_bind (action_update m tm r c dev recips ab)) = bind_shape ab.
Proof.
  unfold action_update.
  pose proof (input_loop_track m tm r c dev (ab_id ab) (ab_inputs ab)
                (mkLoop (tracker_new (vzero (aid_dim (ab_id ab)))) [] [])) as [Hl _].
  destruct (input_loop m tm r c dev (ab_id ab) _ (ab_inputs ab)) as [st inputs']. cbn [snd] in Hl.
  destruct (apply_mods m tm (t_value (l_tracker st)) (ab_mods ab)) as [[ms' v1] lg1].
  pose proof (apply_conds_kinds m tm (ab_conds ab) (with_value (l_tracker st) v1)) as Hc.
  destruct (apply_conds m tm (with_value (l_tracker st) v1) (ab_conds ab)) as [[cs' tr] lg2]. cbn [fst] in Hc.
  cbn [o_bind]. unfold bind_shape. cbn [ab_id ab_conds ab_inputs]. unfold inputs_kinds in Hl. rewrite Hc, Hl. reflexivity.
Qed.

(* a binding without events-only blocker always emits: C01 for that evaluation, with nothing withheld *)
Lemma action_update_unblocked m tm r c dev recips ab : no_ev_blocker ab ->
  exists (s : state) (v : value),
    let a := ab_id ab in
    let d := old_data m a in
    let d' := data_update (vdelta tm) d s v in
    let o := action_update m tm r c dev recips ab in
    vdim v = aid_dim a /\
    lookup a (o_actions o) = Some d' /\
    (forall b, b <> a -> lookup b (o_actions o) = lookup b m) /\
    o_events o = Some (flat_map (fun k => map (mk_event a d' k) recips) (table (d_state d) s)).
Proof.
  intros [Hb1 Hb2]. cbv zeta. unfold action_update, old_data.
  pose proof (input_loop_track m tm r c dev (ab_id ab) (ab_inputs ab)
                (mkLoop (tracker_new (vzero (aid_dim (ab_id ab)))) [] [])) as [_ Hl].
  specialize (Hl Hb2 eq_refl).
  destruct (input_loop m tm r c dev (ab_id ab) _ (ab_inputs ab)) as [st inputs']. cbn [fst] in Hl.
  destruct (apply_mods m tm (t_value (l_tracker st)) (ab_mods ab)) as [[ms' v1] lg1].
  pose proof (apply_conds_eb m tm (ab_conds ab) (with_value (l_tracker st) v1) Hb1) as He.
  destruct (apply_conds m tm (with_value (l_tracker st) v1) (ab_conds ab)) as [[cs' tr] lg2]. cbn [fst snd] in He.
  assert (Hev : events_blocked tr = false) by (rewrite He; unfold with_value; cbn [events_blocked]; exact Hl).
  set (a := ab_id ab).
  set (d := match lookup a m with Some d => d | None => data_new (aid_dim a) end).
  exists (tracker_state tr), (convert (aid_dim a) (t_value tr)).
  cbn [o_actions o_events]. split; [apply ValueP.convert_dim|]. split; [apply lookup_store_same|].
  split; [intros b Hb; apply lookup_store_other; congruence|].
  rewrite Hev. rewrite emit_some.
  - destruct (data_update_fields (vdelta tm) d (tracker_state tr) (convert (aid_dim a) (t_value tr))) as (_ & _ & Ht).
    rewrite Ht. reflexivity.
  - destruct (data_update_fields (vdelta tm) d (tracker_state tr) (convert (aid_dim a) (t_value tr))) as (_ & Hv & _).
    rewrite Hv. apply ValueP.convert_dim.
Qed.

(* ================================================================================================ *)
(* 3. what the scenario says about every instance of the registry                                   *)
(* ================================================================================================ *)
Definition bind_ids (i : inst) : list aid := map ab_id (in_binds i).

Lemma shape_ids i : bind_ids i = map (fun x => fst (fst x)) (inst_shape i).
Proof. unfold bind_ids, inst_shape. rewrite map_map. reflexivity. Qed.
Lemma shape_ids_eq i j : inst_shape i = inst_shape j -> bind_ids i = bind_ids j.
Proof. intros H. rewrite !shape_ids, H. reflexivity. Qed.

Lemma bind_action_nodup i s : NoDup (bind_ids i) -> NoDup (bind_ids (bind_action i s)).
Proof.
  unfold bind_ids. intros H. rewrite bind_action_ids. destruct (memz (a_id s) (map ab_id (in_binds i))) eqn:E; [exact H|].
  apply NoDup_snoc; [exact H|]. apply memz_false. exact E.
Qed.
Lemma instantiate_nodup_gen l : forall i, NoDup (bind_ids i) -> NoDup (bind_ids (fold_left bind_action l i)).
Proof.
  induction l as [|s l IH]; intros i H; cbn [fold_left]; [exact H|]. apply IH. apply bind_action_nodup. exact H.
Qed.
(* ContextInstance::bind never creates a second entry for an action *)
Lemma instantiate_nodup s : NoDup (bind_ids (instantiate s)).
Proof. unfold instantiate. apply instantiate_nodup_gen. constructor. Qed.

Lemma from_cfg_nodup sc c i : from_cfg sc c i -> NoDup (bind_ids i).
Proof. intros [e' H]. rewrite (shape_ids_eq _ _ H). unfold mk_inst. apply instantiate_nodup. Qed.

(* an instance of another context type does not bind a *)
Lemma from_cfg_other sc c a c' i : owner sc c a -> c' <> c -> from_cfg sc c' i -> ~ In a (bind_ids i).
Proof. intros Ho Hne [e' H]. rewrite (shape_ids_eq _ _ H). exact (Ho c' e' Hne). Qed.

Lemma no_ev_blocker_shape b b' : bind_shape b' = bind_shape b -> no_ev_blocker b' -> no_ev_blocker b.
Proof.
  unfold bind_shape, no_ev_blocker. intros H [H1 H2]. injection H as Hid Hc Hi. split; [rewrite <- Hc; exact H1|].
  apply (Forall_map (fun ib => conds_kinds (ib_conds ib)) (fun l => ~ In (KBlocker true) l)).
  rewrite <- Hi. apply Forall_map. exact H2.
Qed.

(* the binding for a in an instance of type c has no events-only blocker *)
Lemma from_cfg_free sc c a i : ev_free sc c a -> from_cfg sc c i ->
  forall b, In b (in_binds i) -> ab_id b = a -> no_ev_blocker b.
Proof.
  intros Hf [e' H] b Hb Hid.
  assert (Hs : In (bind_shape b) (inst_shape (mk_inst sc c e'))) by (rewrite <- H; unfold inst_shape; apply in_map; exact Hb).
  unfold inst_shape in Hs. apply in_map_iff in Hs. destruct Hs as (b' & Hs & Hb').
  apply (no_ev_blocker_shape b b' Hs). apply (Hf e' b' Hb').
  unfold bind_shape in Hs. injection Hs as Hid' _ _. rewrite Hid'. exact Hid.
Qed.

(* from_cfg only looks at the shape *)
Lemma from_cfg_shape sc c i j : inst_shape j = inst_shape i -> from_cfg sc c i -> from_cfg sc c j.
Proof. intros H [e' He]. exists e'. rewrite H. exact He. Qed.

(* ================================================================================================ *)
(* 4. one registry update keeps every shape, hence cfg_inv                                          *)
(* ================================================================================================ *)
Lemma binds_update_shape tm r dev recips bs : forall m c,
  map bind_shape (fst (fst (fst (fst (binds_update m tm r c dev recips bs))))) = map bind_shape bs.
Proof.
  induction bs as [|b rest IH]; intros m c; cbn [binds_update]; [reflexivity|]. cbv zeta.
  pose proof (action_update_shape m tm r c dev recips b) as Hb.
  set (o := action_update m tm r c dev recips b) in *.
  specialize (IH (o_actions o) (o_consumed o)).
  destruct (binds_update (o_actions o) tm r (o_consumed o) dev recips rest) as [[[[rest' m'] c'] ev] lg].
  cbn [fst map] in *. rewrite Hb, IH. reflexivity.
Qed.

Lemma inst_update_shape tm r c recips i : inst_shape (io_inst (inst_update tm r c recips i)) = inst_shape i.
Proof.
  unfold inst_update. pose proof (binds_update_shape tm r (in_pad i) recips (in_binds i) (in_actions i) c) as H.
  destruct (binds_update (in_actions i) tm r c (in_pad i) recips (in_binds i)) as [[[[bs m] c'] ev] lg].
  cbn [fst io_inst] in *. unfold inst_shape. cbn [in_binds]. exact H.
Qed.

Lemma excl_update_shape tm r insts : forall c,
  map (fun ei => inst_shape (snd ei)) (fst (fst (fst (excl_update tm r c insts)))) = map (fun ei => inst_shape (snd ei)) insts.
Proof.
  induction insts as [|[e i] rest IH]; intros c; cbn [excl_update]; [reflexivity|]. cbv zeta.
  pose proof (inst_update_shape tm r c [e] i) as Hi.
  set (o := inst_update tm r c [e] i) in *. specialize (IH (io_consumed o)).
  destruct (excl_update tm r (io_consumed o) rest) as [[[rest' c'] ev] lg]. cbn [fst snd map] in *.
  rewrite Hi, IH. reflexivity.
Qed.

Definition shape_rel (g g' : group) : Prop :=
  g_ctx g' = g_ctx g /\ map inst_shape (g_insts g') = map inst_shape (g_insts g).

Lemma reg_update_shape tm r gs : forall c, Forall2 shape_rel gs (ro_reg (reg_update tm r c gs)).
Proof.
  induction gs as [|[cx p insts|cx p ents i] gs IH]; intros c; cbn [reg_update]; [constructor| |].
  - pose proof (excl_update_shape tm r insts c) as He.
    destruct (excl_update tm r c insts) as [[[insts' c'] ev] lg]. cbn [fst] in He. cbv zeta. cbn [ro_reg].
    constructor; [|apply IH]. split; [reflexivity|]. cbn [g_insts]. rewrite !map_map. exact He.
  - cbv zeta. cbn [ro_reg]. constructor; [|apply IH]. split; [reflexivity|]. cbn [g_insts map].
    rewrite inst_update_shape. reflexivity.
Qed.

Lemma Forall2_in_r {A B} (R : A -> B -> Prop) l1 l2 y : Forall2 R l1 l2 -> In y l2 -> exists x, In x l1 /\ R x y.
Proof.
  induction 1 as [|x0 y0 l1 l2 Hxy HF IH]; intros Hin; [destruct Hin|].
  destruct Hin as [<-|Hin]; [exists x0; split; [left; reflexivity | exact Hxy]|].
  destruct (IH Hin) as (x & Hx & Hr). exists x. split; [right; exact Hx | exact Hr].
Qed.

Lemma cfg_inv_shape sc gs gs' : Forall2 shape_rel gs gs' -> cfg_inv sc gs -> cfg_inv sc gs'.
Proof.
  intros HF Hc g' Hg'. destruct (Forall2_in_r _ _ _ _ HF Hg') as (g & Hg & Hctx & Hsh).
  specialize (Hc g Hg). rewrite Hctx. rewrite Forall_forall in *. intros j Hj.
  assert (Hin : In (inst_shape j) (map inst_shape (g_insts g))) by (rewrite <- Hsh; apply in_map; exact Hj).
  apply in_map_iff in Hin. destruct Hin as (i & Hij & Hi).
  apply (from_cfg_shape sc (g_ctx g) i j); [symmetry; exact Hij | exact (Hc i Hi)].
Qed.

Lemma reg_update_cfg sc tm r c gs : cfg_inv sc gs -> cfg_inv sc (ro_reg (reg_update tm r c gs)).
Proof. apply cfg_inv_shape. apply reg_update_shape. Qed.

(* ================================================================================================ *)
(* 5. following (e, a) through one instance, one group, the registry                                *)
(* ================================================================================================ *)
(* the data an instance stores for a, if it binds a *)
Definition istored (i : inst) (a : aid) : option data :=
  if memz a (bind_ids i) then lookup a (in_actions i) else None.
Definition lstored (insts : list (entity * inst)) (e : entity) (a : aid) : option data :=
  match option_map snd (find (fun ei => Z.eqb (fst ei) e) insts) with Some i => istored i a | None => None end.
Definition gstored (g : group) (e : entity) (a : aid) : option data :=
  match group_get e g with Some i => istored i a | None => None end.

Lemma stored_get r c e a : stored r c e a = match reg_get c e r with Some i => istored i a | None => None end.
Proof. reflexivity. Qed.

Lemma tk_reg_get_cons c e g r : reg_get c e (g :: r) = if Z.eqb (g_ctx g) c then group_get e g else reg_get c e r.
Proof.
  rewrite !reg_get_unfold. cbn [index_of]. destruct (Z.eqb (g_ctx g) c); [reflexivity|].
  destruct (index_of c r); reflexivity.
Qed.
Lemma stored_cons g r c e a : stored (g :: r) c e a = if Z.eqb (g_ctx g) c then gstored g e a else stored r c e a.
Proof. rewrite !stored_get, tk_reg_get_cons. unfold gstored. destruct (Z.eqb (g_ctx g) c); reflexivity. Qed.
Lemma stored_absent r c e a : ~ In c (map g_ctx r) -> stored r c e a = None.
Proof. intros H. rewrite stored_get, (reg_get_absent c e r H). reflexivity. Qed.

Lemma lstored_cons en i rest e a : lstored ((en, i) :: rest) e a = if Z.eqb en e then istored i a else lstored rest e a.
Proof. unfold lstored. cbn [find fst]. destruct (Z.eqb en e); reflexivity. Qed.
Lemma lstored_absent insts e a : ~ In e (map fst insts) -> lstored insts e a = None.
Proof.
  intros H. unfold lstored.
  destruct (option_map snd (find (fun ei => Z.eqb (fst ei) e) insts)) as [i|] eqn:E; [|reflexivity].
  exfalso. apply H. apply find_fst_in. rewrite E. discriminate.
Qed.
Lemma lstored_unbound insts e a : Forall (fun i => ~ In a (bind_ids i)) (map snd insts) -> lstored insts e a = None.
Proof.
  induction insts as [|[en i] rest IH]; intros HF; [reflexivity|]. rewrite lstored_cons.
  cbn [map snd] in HF. inversion HF as [|x l Hx Hl]; subst. destruct (Z.eqb en e); [|apply IH; exact Hl].
  unfold istored. apply memz_false in Hx. rewrite Hx. reflexivity.
Qed.

Section Track.
  Variables (e : entity) (a : aid) (tm : time) (r : raw).

  (* the relation between what was stored, what is stored afterwards, and the events in between *)
  Definition track_res (old new : option data) (evs : list event) : Prop :=
    match old with
    | None => ev_of e a evs = [] /\ new = None
    | Some d => exists (s1 : state) (v : value),
        let d' := data_update (vdelta tm) d s1 v in
        vdim v = aid_dim a /\ new = Some d' /\
        ev_of e a evs = map (fun k => mk_event a d' k e) (table (d_state d) s1)
    end.

  Lemma track_res_app_l old new ev1 ev2 : track_res old new ev1 -> ev_of e a ev2 = [] -> track_res old new (ev1 ++ ev2).
  Proof.
    unfold track_res. intros H H2. rewrite ev_of_app, H2, app_nil_r. exact H.
  Qed.
  Lemma track_res_app_r old new ev1 ev2 : ev_of e a ev1 = [] -> track_res old new ev2 -> track_res old new (ev1 ++ ev2).
  Proof.
    unfold track_res. intros H1 H. rewrite ev_of_app, H1. exact H.
  Qed.
  Lemma track_res_quiet old new evs : track_res old new evs -> old = None -> ev_of e a evs = [] /\ new = None.
  Proof. intros H ->. exact H. Qed.

  (* the hypotheses on an instance *)
  Definition inst_good (i : inst) : Prop :=
    inst_wf i /\ NoDup (bind_ids i) /\ (forall b, In b (in_binds i) -> ab_id b = a -> no_ev_blocker b).

  Lemma memz_cons x y l : memz x (y :: l) = Z.eqb x y || memz x l.
  Proof. reflexivity. Qed.

  Lemma old_data_eq m1 m2 : lookup a m1 = lookup a m2 -> old_data m1 a = old_data m2 a.
  Proof. unfold old_data. intros ->. reflexivity. Qed.

  (* --- the bindings of one instance --- *)
  Lemma binds_track dev recips bs : forall m c0,
    NoDup (map ab_id bs) -> NoDup recips ->
    (forall b, In b bs -> ab_id b = a -> no_ev_blocker b) ->
    exists bs' m' c' evs lg,
      binds_update m tm r c0 dev recips bs = (bs', m', c', Some evs, lg) /\
      map ab_id bs' = map ab_id bs /\
      (~ In e recips -> ev_of e a evs = []) /\
      if memz a (map ab_id bs)
      then exists (s1 : state) (v : value),
             let d' := data_update (vdelta tm) (old_data m a) s1 v in
             vdim v = aid_dim a /\ lookup a m' = Some d' /\
             (In e recips -> ev_of e a evs = map (fun k => mk_event a d' k e) (table (d_state (old_data m a)) s1))
      else lookup a m' = lookup a m /\ ev_of e a evs = [].
  Proof.
    induction bs as [|b rest IH]; intros m c0 Hnd Hr Hfree.
    - exists [], m, c0, [], []. cbn [binds_update map memz existsb]. repeat split; reflexivity.
    - cbn [map] in Hnd. inversion Hnd as [|x l Hx Hl]; subst.
      assert (Hfree' : forall b0, In b0 rest -> ab_id b0 = a -> no_ev_blocker b0)
        by (intros b0 Hb0; apply Hfree; right; exact Hb0).
      cbn [binds_update]. cbv zeta.
      pose proof (action_update_id m tm r c0 dev recips b) as Hid.
      pose proof (action_update_result m tm r c0 dev recips b) as Hres.
      destruct (Z.eqb a (ab_id b)) eqn:E.
      + apply Z.eqb_eq in E.
        assert (Hb : no_ev_blocker b) by (apply Hfree; [left; reflexivity | symmetry; exact E]).
        destruct (action_update_unblocked m tm r c0 dev recips b Hb) as (s & v & Hv & Hl1 & Ho & He). cbv zeta in *.
        set (o := action_update m tm r c0 dev recips b) in *.
        destruct (IH (o_actions o) (o_consumed o) Hl Hr Hfree') as (rest' & m' & c' & evs2 & lg & Hbu & Hids & Hn2 & Hcase).
        rewrite Hbu, He. rewrite <- E in *.
        assert (Hm : memz a (map ab_id rest) = false) by (apply memz_false; exact Hx).
        rewrite Hm in Hcase. destruct Hcase as [Hlk Hev2].
        eexists _, m', c', _, _. split; [reflexivity|].
        split; [cbn [map]; rewrite Hid, Hids, <- E; reflexivity|].
        split.
        * intros Hne. rewrite ev_of_app, Hev2, app_nil_r. apply ev_of_flat_notin. exact Hne.
        * cbn [map]. rewrite memz_cons, <- E, Z.eqb_refl. cbn [orb]. exists s, v. cbv zeta.
          split; [exact Hv|]. split; [rewrite Hlk; exact Hl1|].
          intros Hin. rewrite ev_of_app, Hev2, app_nil_r. apply ev_of_flat_in; assumption.
      + apply Z.eqb_neq in E.
        destruct Hres as (s & v & bl & Hv & Hl1 & Ho & He). cbv zeta in *.
        set (o := action_update m tm r c0 dev recips b) in *.
        destruct (IH (o_actions o) (o_consumed o) Hl Hr Hfree') as (rest' & m' & c' & evs2 & lg & Hbu & Hids & Hn2 & Hcase).
        rewrite Hbu, He.
        assert (Hlk : lookup a (o_actions o) = lookup a m) by (apply Ho; exact E).
        rewrite (old_data_eq _ _ Hlk) in Hcase.
        assert (Hev1 : ev_of e a (if bl then [] else
                   flat_map (fun k => map (mk_event (ab_id b) (data_update (vdelta tm) (old_data m (ab_id b)) s v) k) recips)
                            (table (d_state (old_data m (ab_id b))) s)) = []).
        { destruct bl; [reflexivity|]. apply ev_of_flat_other. intros E2. apply E. symmetry. exact E2. }
        eexists _, m', c', _, _. split; [reflexivity|].
        split; [cbn [map]; rewrite Hid, Hids; reflexivity|].
        split.
        * intros Hne. rewrite ev_of_app, Hev1. apply Hn2. exact Hne.
        * cbn [map]. rewrite memz_cons. apply Z.eqb_neq in E. rewrite E. cbn [orb].
          destruct (memz a (map ab_id rest)).
          -- destruct Hcase as (s1 & v1 & Hv1 & Hl2 & Hev2). exists s1, v1. cbv zeta.
             split; [exact Hv1|]. split; [exact Hl2|]. intros Hin. rewrite ev_of_app, Hev1. apply Hev2. exact Hin.
          -- destruct Hcase as [Hl2 Hev2]. split; [rewrite Hl2; exact Hlk|]. rewrite ev_of_app, Hev1, Hev2. reflexivity.
  Qed.

  (* --- one instance --- *)
  Lemma inst_track c0 recips i : inst_good i -> NoDup recips ->
    exists evs, io_events (inst_update tm r c0 recips i) = Some evs /\
      (~ In e recips -> ev_of e a evs = []) /\
      (In e recips -> track_res (istored i a) (istored (io_inst (inst_update tm r c0 recips i)) a) evs) /\
      (istored i a = None -> ev_of e a evs = [] /\ istored (io_inst (inst_update tm r c0 recips i)) a = None).
  Proof.
    intros (Hwf & Hnd & Hfree) Hr. unfold inst_update.
    destruct (binds_track (in_pad i) recips (in_binds i) (in_actions i) c0 Hnd Hr Hfree)
      as (bs' & m' & c' & evs & lg & Hbu & Hids & Hn & Hcase).
    rewrite Hbu. cbn [io_events io_inst]. exists evs. split; [reflexivity|]. split; [exact Hn|].
    unfold istored, bind_ids. cbn [in_binds in_actions]. rewrite Hids.
    destruct (memz a (map ab_id (in_binds i))) eqn:Em.
    - destruct Hcase as (s1 & v & Hv & Hl & Hev). cbv zeta in *.
      assert (Hsome : lookup a (in_actions i) <> None).
      { apply memz_in in Em. apply in_map_iff in Em. destruct Em as (b & Hb & Hin). rewrite <- Hb. apply Hwf. exact Hin. }
      destruct (lookup a (in_actions i)) as [d|] eqn:El; [|congruence].
      assert (Hod : old_data (in_actions i) a = d) by (unfold old_data; rewrite El; reflexivity).
      rewrite Hod in *. split; [|discriminate].
      intros Hin. unfold track_res. exists s1, v. cbv zeta. split; [exact Hv|]. split; [exact Hl|]. apply Hev. exact Hin.
    - destruct Hcase as [Hl Hev]. split; [|intros _; split; [exact Hev | reflexivity]].
      intros _. unfold track_res. split; [exact Hev | reflexivity].
  Qed.

  (* --- an exclusive group: e's own entry, evaluated for [e] alone; the other entries deliver nothing to e --- *)
  Lemma excl_track insts : forall c0,
    NoDup (map fst insts) -> Forall inst_good (map snd insts) ->
    exists insts' c' evs lg,
      excl_update tm r c0 insts = (insts', c', Some evs, lg) /\
      track_res (lstored insts e a) (lstored insts' e a) evs.
  Proof.
    induction insts as [|[en i] rest IH]; intros c0 Hnd Hg.
    - exists [], c0, [], []. split; [reflexivity|]. unfold track_res, lstored. cbn [find option_map]. split; reflexivity.
    - cbn [map fst snd] in Hnd, Hg. inversion Hnd as [|x l Hx Hl]; subst. inversion Hg as [|y l' Hy Hl']; subst.
      cbn [excl_update]. cbv zeta.
      assert (Hen : NoDup [en]) by (constructor; [intros [] | constructor]).
      destruct (inst_track c0 [en] i Hy Hen) as (evs1 & Hev & Hn & Hin & _).
      set (o := inst_update tm r c0 [en] i) in *.
      destruct (IH (io_consumed o) Hl Hl') as (rest' & c' & evs2 & lg & Hex & Htr).
      rewrite Hex, Hev. cbn [cat_ev]. eexists _, c', _, _. split; [reflexivity|].
      rewrite !lstored_cons. destruct (Z.eqb en e) eqn:E.
      + apply Z.eqb_eq in E. subst en.
        destruct (track_res_quiet _ _ _ Htr (lstored_absent rest e a Hx)) as [Hq _].
        apply track_res_app_l; [|exact Hq]. apply Hin. left. reflexivity.
      + apply Z.eqb_neq in E. apply track_res_app_r; [|exact Htr].
        apply Hn. intros [H|[]]. apply E. exact H.
  Qed.

  (* --- a shared group: one instance, evaluated for all holders --- *)
  Lemma shared_track c0 cx p ents i : inst_good i -> NoDup ents ->
    exists evs, io_events (inst_update tm r c0 ents i) = Some evs /\
      track_res (gstored (GShared cx p ents i) e a)
                (gstored (GShared cx p ents (io_inst (inst_update tm r c0 ents i))) e a) evs.
  Proof.
    intros Hg Hnd. destruct (inst_track c0 ents i Hg Hnd) as (evs & Hev & Hn & Hin & _).
    exists evs. split; [exact Hev|]. unfold gstored. cbn [group_get].
    change (existsb (Z.eqb e) ents) with (memz e ents). destruct (memz e ents) eqn:Em.
    - apply Hin. apply memz_in. exact Em.
    - unfold track_res. split; [|reflexivity]. apply Hn. apply memz_false. exact Em.
  Qed.

  Lemma gstored_excl cx p insts : gstored (GExcl cx p insts) e a = lstored insts e a.
  Proof. reflexivity. Qed.
  Lemma gstored_unbound g : Forall (fun i => ~ In a (bind_ids i)) (g_insts g) -> gstored g e a = None.
  Proof.
    destruct g as [cx p insts|cx p ents i]; cbn [g_insts]; intros HF.
    - rewrite gstored_excl. apply lstored_unbound. exact HF.
    - unfold gstored. cbn [group_get]. destruct (existsb (Z.eqb e) ents); [|reflexivity].
      inversion HF as [|x l Hx Hl]; subst. unfold istored. apply memz_false in Hx. rewrite Hx. reflexivity.
  Qed.

  (* --- the registry --- *)
  Variable c : ctx.
  Definition group_good (g : group) : Prop :=
    NoDup (g_ents g) /\ Forall inst_good (g_insts g) /\
    (g_ctx g <> c -> Forall (fun i => ~ In a (bind_ids i)) (g_insts g)).

  Lemma reg_track gs : forall c0, NoDup (map g_ctx gs) -> Forall group_good gs ->
    exists main, ro_events (reg_update tm r c0 gs) = Some main /\
      track_res (stored gs c e a) (stored (ro_reg (reg_update tm r c0 gs)) c e a) main.
  Proof.
    induction gs as [|g gs IH]; intros c0 Hnd Hg.
    - exists []. cbn [reg_update ro_events ro_reg]. split; [reflexivity|]. unfold track_res. split; reflexivity.
    - cbn [map] in Hnd. inversion Hnd as [|x l Hx Hl]; subst. inversion Hg as [|y l' Hy Hl']; subst.
      destruct Hy as (Hents & Hgood & Hother).
      destruct g as [cx p insts|cx p ents i]; cbn [g_ctx g_ents g_insts] in *.
      + destruct (excl_track insts c0 Hents Hgood) as (insts' & c' & evs1 & lg & Hex & Htr).
        cbn [reg_update]. rewrite Hex. cbv zeta. cbn [ro_events ro_reg].
        destruct (IH c' Hl Hl') as (main2 & Hev2 & Htr2). rewrite Hev2. cbn [cat_ev].
        exists (evs1 ++ main2). split; [reflexivity|]. rewrite !stored_cons. cbn [g_ctx]. rewrite !gstored_excl.
        destruct (Z.eqb cx c) eqn:E.
        * apply Z.eqb_eq in E. subst cx.
          destruct (track_res_quiet _ _ _ Htr2 (stored_absent gs c e a Hx)) as [Hq _].
          apply track_res_app_l; assumption.
        * apply Z.eqb_neq in E.
          destruct (track_res_quiet _ _ _ Htr (lstored_unbound insts e a (Hother E))) as [Hq _].
          apply track_res_app_r; assumption.
      + inversion Hgood as [|z l0 Hi _]; subst.
        destruct (shared_track c0 cx p ents i Hi Hents) as (evs1 & Hev1 & Htr).
        cbn [reg_update]. cbv zeta. cbn [ro_events ro_reg].
        set (io := inst_update tm r c0 ents i) in *.
        destruct (IH (io_consumed io) Hl Hl') as (main2 & Hev2 & Htr2). rewrite Hev1, Hev2. cbn [cat_ev].
        exists (evs1 ++ main2). split; [reflexivity|]. rewrite !stored_cons. cbn [g_ctx].
        destruct (Z.eqb cx c) eqn:E.
        * apply Z.eqb_eq in E. subst cx.
          destruct (track_res_quiet _ _ _ Htr2 (stored_absent gs c e a Hx)) as [Hq _].
          apply track_res_app_l; assumption.
        * apply Z.eqb_neq in E.
          destruct (track_res_quiet _ _ _ Htr (gstored_unbound (GShared cx p ents i) (Hother E))) as [Hq _].
          apply track_res_app_r; assumption.
  Qed.
End Track.

(* the hypotheses of the theorem give the per-group hypotheses *)
Lemma cfg_group_good sc c a gs : reg_wf gs -> cfg_inv sc gs -> owner sc c a -> ev_free sc c a ->
  Forall (group_good a c) gs.
Proof.
  intros (_ & _ & Hok) Hcfg Hown Hfree. rewrite Forall_forall in *. intros g Hg.
  destruct (Hok g Hg) as (_ & _ & _ & Hnd & Hwf). specialize (Hcfg g Hg). unfold ginsts_wf in Hwf.
  rewrite Forall_forall in Hcfg, Hwf.
  split; [exact Hnd|]. split.
  - rewrite Forall_forall. intros i Hi. split; [exact (Hwf i Hi)|]. split; [exact (from_cfg_nodup sc _ i (Hcfg i Hi))|].
    destruct (Z.eq_dec (g_ctx g) c) as [Ec|Ec].
    + rewrite Ec in Hcfg. exact (from_cfg_free sc c a i Hfree (Hcfg i Hi)).
    + intros b Hb Hid. exfalso. apply (from_cfg_other sc c a (g_ctx g) i Hown Ec (Hcfg i Hi)).
      unfold bind_ids. rewrite <- Hid. apply in_map. exact Hb.
  - intros Ec. rewrite Forall_forall. intros i Hi. exact (from_cfg_other sc c a (g_ctx g) i Hown Ec (Hcfg i Hi)).
Qed.

(* ================================================================================================ *)
(* 6. the theorem                                                                                   *)
(* ================================================================================================ *)
Theorem track_frame : forall sc c e a tm r c0 gs,
  reg_wf gs -> cfg_inv sc gs -> owner sc c a -> ev_free sc c a ->
  let o := reg_update tm r c0 gs in
  exists main, ro_events o = Some main /\
    cfg_inv sc (ro_reg o) /\
    match stored gs c e a with
    | None => ev_of e a main = [] /\ stored (ro_reg o) c e a = None
    | Some d => exists (s1 : state) (v : value),
        let d' := data_update (vdelta tm) d s1 v in
        vdim v = aid_dim a /\
        stored (ro_reg o) c e a = Some d' /\
        ev_of e a main = map (fun k => mk_event a d' k e) (table (d_state d) s1)
    end.
Proof.
  intros sc c e a tm r c0 gs Hwf Hcfg Hown Hfree o. subst o.
  pose proof (cfg_group_good sc c a gs Hwf Hcfg Hown Hfree) as Hgood.
  destruct Hwf as (_ & Hnd & _).
  destruct (reg_track e a tm r c gs c0 Hnd Hgood) as (main & Hev & Htr).
  exists main. split; [exact Hev|]. split; [apply reg_update_cfg; exact Hcfg|]. exact Htr.
Qed.

(* in episode vocabulary: the chunk of kinds e receives for a is the one the acceptor of C02 expects *)
Corollary track_frame_chunk : forall sc c e a tm r c0 gs,
  reg_wf gs -> cfg_inv sc gs -> owner sc c a -> ev_free sc c a ->
  let o := reg_update tm r c0 gs in
  exists main, ro_events o = Some main /\
    match track gs c e a with
    | Absent => ev_of e a main = [] /\ track (ro_reg o) c e a = Absent
    | Live s => exists s1, track (ro_reg o) c e a = Live s1 /\
        kinds (ev_of e a main) = table s s1 /\
        frame_chunk (acc_of s) (kinds (ev_of e a main)) = Some (acc_of s1) /\
        Forall (fun ev => e_state ev = s1) (ev_of e a main)
    end.
Proof.
  intros sc c e a tm r c0 gs Hwf Hcfg Hown Hfree o.
  destruct (track_frame sc c e a tm r c0 gs Hwf Hcfg Hown Hfree) as (main & Hev & _ & Hm). fold o in Hev, Hm.
  exists main. split; [exact Hev|]. unfold track. destruct (stored gs c e a) as [d|].
  - destruct Hm as (s1 & v & Hv & Hst & Hevs). cbv zeta in *. exists s1. rewrite Hst, Hevs.
    destruct (data_update_fields (vdelta tm) d s1 v) as (Hs & _ & _). rewrite Hs.
    assert (Hk : kinds (map (fun k => mk_event a (data_update (vdelta tm) d s1 v) k e) (table (d_state d) s1)) = table (d_state d) s1).
    { unfold kinds. rewrite map_map. erewrite map_ext; [apply map_id|]. intros k. apply mk_event_kind. }
    split; [reflexivity|]. split; [exact Hk|]. split; [rewrite Hk; apply frame_chunk_table|].
    apply Forall_forall. intros ev Hin. apply in_map_iff in Hin. destruct Hin as (k & <- & _).
    rewrite mk_event_state. exact Hs.
  - destruct Hm as [H1 H2]. rewrite H2. split; [exact H1 | reflexivity].
Qed.

(* how a frame of the world decomposes: the registry update treated above (with update_state of the frame's
   raw input as the consumed set), whose events are the frame's main events, then the frame's operations *)
Lemma frame_decompose sc w f fo : frame sc w f = Some fo ->
  let o := reg_update (frame_time f) (f_raw f) (update_state (f_raw f)) (w_reg w) in
  ro_events o = Some (fo_main fo) /\
  exists a, run_ops sc (mkWorld (w_holds w) (ro_reg o) (frame_time f)) (f_ops f) = Some a /\
            fo_world fo = oo_world a /\ fo_post fo = oo_events a.
Proof.
  unfold frame. cbv zeta.
  destruct (ro_events (reg_update (frame_time f) (f_raw f) (update_state (f_raw f)) (w_reg w))) as [main|]; [|discriminate].
  destruct (run_ops sc _ (f_ops f)) as [a|] eqn:Er; [|discriminate].
  intros H. inversion H; subst. cbn [fo_main fo_world fo_post]. split; [reflexivity|]. exists a. repeat split.
Qed.

Print Assumptions track_frame.
Print Assumptions track_frame_chunk.
