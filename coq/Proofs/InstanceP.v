From BEI Require Import Model.Action Proofs.ActionP.
Open Scope Z_scope.

(* ---- C13 (a): evaluation order = order of first binding; binding again extends in place ---- *)
Definition first_occ (l : list Z) : list Z := fold_left (fun acc x => if memz x acc then acc else acc ++ [x]) l [].

Lemma extend_ids s bs : match extend s bs with
                        | Some bs' => map ab_id bs' = map ab_id bs /\ memz (a_id s) (map ab_id bs) = true
                        | None => memz (a_id s) (map ab_id bs) = false
                        end.
Proof.
  induction bs as [|b r IH]; simpl; [reflexivity|].
  rewrite (Z.eqb_sym (a_id s) (ab_id b)).
  destruct (Z.eqb (ab_id b) (a_id s)) eqn:E; simpl; [split; reflexivity|].
  destruct (extend s r) as [r'|]; simpl.
  - destruct IH as [H1 H2]. split; [now rewrite H1 | exact H2].
  - exact IH.
Qed.

Lemma bind_action_ids i s :
  map ab_id (in_binds (bind_action i s)) =
  (if memz (a_id s) (map ab_id (in_binds i)) then map ab_id (in_binds i) else map ab_id (in_binds i) ++ [a_id s]).
Proof.
  unfold bind_action. pose proof (extend_ids s (in_binds i)) as H. destruct (extend s (in_binds i)) as [bs'|]; simpl.
  - destruct H as [H1 H2]. now rewrite H2.
  - rewrite H, map_app. reflexivity.
Qed.

Lemma instantiate_order_gen l : forall i,
  map ab_id (in_binds (fold_left bind_action l i)) =
  fold_left (fun acc x => if memz x acc then acc else acc ++ [x]) (map a_id l) (map ab_id (in_binds i)).
Proof.
  induction l as [|s r IH]; intros i; simpl; [reflexivity|]. rewrite IH, bind_action_ids. reflexivity.
Qed.
Lemma instantiate_order s : map ab_id (in_binds (instantiate s)) = first_occ (map a_id (i_actions s)).
Proof. unfold instantiate, first_occ. rewrite instantiate_order_gen. reflexivity. Qed.

(* binding an action again appends to its modifiers, conditions and inputs and moves nothing *)
Lemma rebind_extends i s b pre post :
  in_binds i = pre ++ b :: post -> ab_id b = a_id s -> ~ In (a_id s) (map ab_id pre) ->
  in_binds (bind_action i s) =
  pre ++ mkAbind (ab_id b) (ab_mods b ++ a_mods s) (ab_conds b ++ a_conds s) (ab_inputs b ++ map ibind_of (a_binds s)) :: post.
Proof.
  intros Hb Hid Hn. unfold bind_action.
  assert (He : extend s (in_binds i) = Some (pre ++ mkAbind (ab_id b) (ab_mods b ++ a_mods s) (ab_conds b ++ a_conds s)
                                                   (ab_inputs b ++ map ibind_of (a_binds s)) :: post)).
  { rewrite Hb. clear Hb. induction pre as [|p r IH]; simpl.
    - rewrite Hid, Z.eqb_refl. reflexivity.
    - destruct (Z.eqb (ab_id p) (a_id s)) eqn:E.
      + apply Z.eqb_eq in E. exfalso. apply Hn. left. exact E.
      + rewrite IH; [reflexivity|]. intros H. apply Hn. right. exact H. }
  rewrite He. reflexivity.
Qed.

(* ---- C13 (b): what each action is shown ---- *)
(* the table of action data shown to each binding of the instance, in evaluation order *)
Fixpoint shown (m : actions) (tm : time) (r : raw) (c : consumed) (dev : device) (recips : list entity) (bs : list abind) : list actions :=
  match bs with
  | [] => []
  | b :: rest => let o := action_update m tm r c dev recips b in
                 m :: shown (o_actions o) tm r (o_consumed o) dev recips rest
  end.
Definition final_actions (m : actions) (tm : time) (r : raw) (c : consumed) (dev : device) (recips : list entity) (bs : list abind) : actions :=
  let '(_, m', _, _, _) := binds_update m tm r c dev recips bs in m'.

Lemma final_actions_cons m tm r c dev recips b rest :
  final_actions m tm r c dev recips (b :: rest) =
  final_actions (o_actions (action_update m tm r c dev recips b)) tm r (o_consumed (action_update m tm r c dev recips b)) dev recips rest.
Proof.
  unfold final_actions. simpl.
  destruct (binds_update (o_actions (action_update m tm r c dev recips b)) tm r (o_consumed (action_update m tm r c dev recips b)) dev recips rest)
    as [[[[rest' m'] c'] ev] lg]. reflexivity.
Qed.

(* evaluating the remaining bindings does not touch the data of actions that are not among them *)
Lemma final_other bs : forall m tm r c dev recips x,
  ~ In x (map ab_id bs) -> lookup x (final_actions m tm r c dev recips bs) = lookup x m.
Proof.
  induction bs as [|b rest IH]; intros m tm r c dev recips x Hn; [reflexivity|].
  rewrite final_actions_cons, IH.
  - destruct (action_update_result m tm r c dev recips b) as (s & v & bl & _ & _ & Ho & _).
    apply Ho. intros E. apply Hn. left. symmetry. exact E.
  - intros H. apply Hn. right. exact H.
Qed.

(* a table shown to some later binding agrees with the starting table on every action that is not
   among the bindings evaluated in between *)
Lemma shown_keeps rest : forall m1 tm r c1 dev recips mk k x,
  ~ In x (map ab_id rest) -> nth_error (shown m1 tm r c1 dev recips rest) k = Some mk -> lookup x mk = lookup x m1.
Proof.
  induction rest as [|b2 rest2 IH2]; intros m1 tm r c1 dev recips mk k x Hn Hk; [destruct k; discriminate|].
  destruct k as [|k]; [inversion Hk; reflexivity|]. cbn [shown nth_error] in Hk.
  rewrite (IH2 _ _ _ _ _ _ mk k x (fun H => Hn (or_intror H)) Hk).
  destruct (action_update_result m1 tm r c1 dev recips b2) as (s & v & bl & _ & _ & Ho & _).
  apply Ho. intros E. apply Hn. left. symmetry. exact E.
Qed.

(* the k-th binding is shown: this frame's data of the bindings before it, last frame's data of itself
   and of the bindings after it *)
Lemma shown_spec bs : forall m tm r c dev recips k mk i bi,
  NoDup (map ab_id bs) ->
  nth_error (shown m tm r c dev recips bs) k = Some mk -> nth_error bs i = Some bi ->
  lookup (ab_id bi) mk = if Nat.ltb i k then lookup (ab_id bi) (final_actions m tm r c dev recips bs) else lookup (ab_id bi) m.
Proof.
  induction bs as [|b rest IH]; intros m tm r c dev recips k mk i bi Hnd Hk Hi.
  - destruct i; discriminate.
  - inversion Hnd as [|x l Hx Hr]; subst. destruct k as [|k].
    + inversion Hk; subst. reflexivity.
    + cbn [shown nth_error] in Hk. rewrite final_actions_cons.
      set (o := action_update m tm r c dev recips b) in *.
      destruct i as [|i].
      * inversion Hi; subst bi. cbn [Nat.ltb Nat.leb].
        rewrite (final_other rest (o_actions o) tm r (o_consumed o) dev recips (ab_id b) Hx).
        exact (shown_keeps rest _ _ _ _ _ _ mk k (ab_id b) Hx Hk).
      * cbn [nth_error] in Hi. change (Nat.ltb (S i) (S k)) with (Nat.ltb i k).
        rewrite (IH (o_actions o) tm r (o_consumed o) dev recips k mk i bi Hr Hk Hi).
        destruct (Nat.ltb i k); [reflexivity|].
        destruct (action_update_result m tm r c dev recips b) as (s & v & bl & _ & _ & Ho & _).
        apply Ho. intros E. apply Hx. rewrite <- E. apply in_map. eapply nth_error_In. exact Hi.
Qed.

(* ---- C13 (c): Chord and BlockBy return what they are shown ---- *)
Lemma chord_spec look tm v a :
  cond_eval look tm v (CChord a) = (CChord a, match look a with Some s => s | None => SNone end) /\ cond_kind (CChord a) = KImplicit.
Proof. split; reflexivity. Qed.
Lemma block_by_spec look tm v a eo :
  cond_eval look tm v (CBlockBy a eo) = (CBlockBy a eo, match look a with Some SFired => SNone | _ => SFired end) /\
  cond_kind (CBlockBy a eo) = KBlocker eo.
Proof. split; reflexivity. Qed.

(* the evaluations ContextInstance::update performs, one per binding, and the tables they are shown *)
Fixpoint evals (m : actions) (tm : time) (r : raw) (c : consumed) (dev : device) (recips : list entity) (bs : list abind) : list action_out :=
  match bs with
  | [] => []
  | b :: rest => let o := action_update m tm r c dev recips b in o :: evals (o_actions o) tm r (o_consumed o) dev recips rest
  end.
Lemma binds_update_evals bs : forall m tm r c dev recips,
  let '(bs', m', c', ev, lg) := binds_update m tm r c dev recips bs in
  bs' = map o_bind (evals m tm r c dev recips bs) /\ lg = concat (map o_log (evals m tm r c dev recips bs)).
Proof.
  induction bs as [|b rest IH]; intros m tm r c dev recips; simpl; [split; reflexivity|].
  specialize (IH (o_actions (action_update m tm r c dev recips b)) tm r (o_consumed (action_update m tm r c dev recips b)) dev recips).
  destruct (binds_update (o_actions (action_update m tm r c dev recips b)) tm r (o_consumed (action_update m tm r c dev recips b)) dev recips rest)
    as [[[[rest' m'] c'] ev] lg]. destruct IH as [H1 H2]. split; [now rewrite H1 | now rewrite H2].
Qed.
Lemma evals_shown bs : forall m tm r c dev recips k o,
  nth_error (evals m tm r c dev recips bs) k = Some o ->
  exists mk ck bk, nth_error (shown m tm r c dev recips bs) k = Some mk /\ nth_error bs k = Some bk /\
                   o = action_update mk tm r ck dev recips bk.
Proof.
  induction bs as [|b rest IH]; intros m tm r c dev recips k o Hk; [destruct k; discriminate|].
  destruct k as [|k].
  - inversion Hk; subst. exists m, c, b. repeat split.
  - cbn [evals nth_error] in Hk. destruct (IH _ _ _ _ _ _ k o Hk) as (mk & ck & bk & H1 & H2 & H3).
    exists mk, ck, bk. repeat split; assumption.
Qed.
