(* Tie between the definitions REGENERATED from the Rust source text (Generated/*Src.v, written by
   bin/rs2v.py on every run) and the hand-written model (Model/Value.v, State.v, Tracker.v).

   Equality used:
   - Leibniz (=) wherever it holds: zero, dim, as_bool, as_axis1d, is_actuated, everything about events /
     ActionState, tracker new / state / value / events_blocked / the apply_conditions step, combine with MaxAbs.
   - veq / q2eq / q3eq (component-wise Qeq) for as_axis2d, as_axis3d, convert, overwrite and combine: the source
     computes `Vec2::X * value` = (1 * x, 0 * x), and 0 * (n # d) is the rational (0 # d), which is == 0 but not
     syntactically (0 # 1) as in the model.  For these we also give the Leibniz statement after normalisation
     (vred) and the Leibniz statement on the inputs where no such product occurs.
   The argument order of the *_src functions follows the Rust source (self first). *)
From Coq Require Import String.
From BEI Require Import Model.Num Model.Value Model.State Model.Tracker.
From BEI Require Import Generated.GlamTbl Generated.ValueSrc Generated.EventsSrc Generated.TrackerSrc.
Local Open Scope Q_scope.

(* ---------------------------------------------------------------- rational helpers *)
Lemma q1_mul x : 1 * x = x.
Proof. destruct x as [[|p|p] d]; reflexivity. Qed.
Lemma q0_mul x : 0 * x == 0.
Proof. ring. Qed.
Lemma Qle_bool_compat a a' b b' : a == a' -> b == b' -> Qle_bool a b = Qle_bool a' b'.
Proof.
  intros Ha Hb. destruct (Qle_bool a b) eqn:E1, (Qle_bool a' b') eqn:E2; try reflexivity.
  - apply Qle_bool_iff in E1. rewrite Ha, Hb in E1. apply Qle_bool_iff in E1. congruence.
  - apply Qle_bool_iff in E2. rewrite <- Ha, <- Hb in E2. apply Qle_bool_iff in E2. congruence.
Qed.
Lemma Qeq_bool_compat a a' b b' : a == a' -> b == b' -> Qeq_bool a b = Qeq_bool a' b'.
Proof.
  intros Ha Hb. destruct (Qeq_bool a b) eqn:E1, (Qeq_bool a' b') eqn:E2; try reflexivity.
  - apply Qeq_bool_iff in E1. rewrite Ha, Hb in E1. apply Qeq_bool_iff in E1. congruence.
  - apply Qeq_bool_iff in E2. rewrite <- Ha, <- Hb in E2. apply Qeq_bool_iff in E2. congruence.
Qed.
Lemma qnz_compat a b : a == b -> qnz a = qnz b.
Proof. intros H. unfold qnz. f_equal. apply Qeq_bool_compat; [exact H|reflexivity]. Qed.
Lemma qabs_compat a b : a == b -> qabs a == qabs b.
Proof.
  intros H. unfold qabs. rewrite (Qle_bool_compat 0 0 a b (Qeq_refl 0) H).
  destruct (Qle_bool 0 b); rewrite H; reflexivity.
Qed.
Lemma qltb_compat a a' b b' : a == a' -> b == b' -> qltb a b = qltb a' b'.
Proof. intros Ha Hb. unfold qltb. f_equal. apply Qle_bool_compat; assumption. Qed.
Lemma Qred_idem x : Qred (Qred x) = Qred x.
Proof. apply Qred_complete, Qred_correct. Qed.

Definition q2eq (a b : Q * Q) : Prop := let '(a1, a2) := a in let '(b1, b2) := b in a1 == b1 /\ a2 == b2.
Definition q3eq (a b : Q * Q * Q) : Prop :=
  let '(a1, a2, a3) := a in let '(b1, b2, b3) := b in a1 == b1 /\ a2 == b2 /\ a3 == b3.

Lemma veq_vred a b : veq a b -> vred a = vred b.
Proof.
  destruct a, b; simpl; try tauto.
  - congruence.
  - intros H. f_equal. now apply Qred_complete.
  - intros [H1 H2]. f_equal; now apply Qred_complete.
  - intros [H1 [H2 H3]]. f_equal; now apply Qred_complete.
Qed.
Lemma vred_veq a : veq (vred a) a.
Proof. destruct a; simpl; repeat split; try apply Qred_correct. Qed.
Lemma veq_sym a b : veq a b -> veq b a.
Proof. destruct a, b; simpl; try tauto; try congruence; intuition (symmetry; assumption). Qed.
Lemma veq_trans a b c : veq a b -> veq b c -> veq a c.
Proof.
  destruct a, b, c; simpl; try tauto; try congruence.
  - intros H1 H2. now rewrite H1.
  - intros [H1 H2] [H3 H4]. split; [now rewrite H1|now rewrite H2].
  - intros [H1 [H2 H3]] [H4 [H5 H6]]. repeat split; [now rewrite H1|now rewrite H2|now rewrite H3].
Qed.

(* ================================================================ src/action_value.rs *)

(* declaration order of the two enums *)
Theorem ActionValue_order_tie v : ActionValue_index_src v = ndim (vdim v).
Proof. destruct v; reflexivity. Qed.
Print Assumptions ActionValue_order_tie.
Theorem ActionValueDim_order_tie d : ActionValueDim_index_src d = ndim d.
Proof. destruct d; reflexivity. Qed.
Print Assumptions ActionValueDim_order_tie.
Theorem ActionValue_variants_tie :
  ActionValue_variants_src = ["Bool"; "Axis1D"; "Axis2D"; "Axis3D"]%string /\
  ActionValueDim_variants_src = ["Bool"; "Axis1D"; "Axis2D"; "Axis3D"]%string.
Proof. split; reflexivity. Qed.
Print Assumptions ActionValue_variants_tie.

Theorem zero_tie d : zero_src d = vzero d.
Proof. destruct d; reflexivity. Qed.
Print Assumptions zero_tie.

Theorem dim_tie v : dim_src v = vdim v.
Proof. destruct v; reflexivity. Qed.
Print Assumptions dim_tie.

Theorem as_bool_tie v : as_bool_src v = as_bool v.
Proof.
  destruct v; simpl; try reflexivity.
  - unfold Glam.vec2_ne, Glam.vec2_eq, Glam.Vec2_ZERO, qnz, qeqb. now rewrite negb_andb.
  - unfold Glam.vec3_ne, Glam.vec3_eq, Glam.Vec3_ZERO, qnz, qeqb. now rewrite !negb_andb.
Qed.
Print Assumptions as_bool_tie.

Theorem as_axis1d_tie v : as_axis1d_src v = as1 v.
Proof. destruct v as [[|]| | |]; reflexivity. Qed.
Print Assumptions as_axis1d_tie.

Theorem as_axis2d_tie v : q2eq (as_axis2d_src v) (as2 v).
Proof.
  destruct v as [[|]|x|x y|x y z]; simpl; repeat split; try reflexivity;
    try (rewrite q1_mul; reflexivity); apply q0_mul.
Qed.
Print Assumptions as_axis2d_tie.
Theorem as_axis2d_tie_leibniz v : (forall x, v <> V1 x) -> as_axis2d_src v = as2 v.
Proof. destruct v as [[|]|x|x y|x y z]; intros H; try reflexivity. now destruct (H x). Qed.
Print Assumptions as_axis2d_tie_leibniz.

Theorem as_axis3d_tie v : q3eq (as_axis3d_src v) (as3 v).
Proof.
  destruct v as [[|]|x|x y|x y z]; simpl; repeat split; try reflexivity;
    try (rewrite q1_mul; reflexivity); apply q0_mul.
Qed.
Print Assumptions as_axis3d_tie.
Theorem as_axis3d_tie_leibniz v : (forall x, v <> V1 x) -> as_axis3d_src v = as3 v.
Proof. destruct v as [[|]|x|x y|x y z]; intros H; try reflexivity. now destruct (H x). Qed.
Print Assumptions as_axis3d_tie_leibniz.
(* the X axis is always syntactically equal *)
Lemma as_axis3d_x v : Glam.vec3_x (as_axis3d_src v) = as1 v.
Proof. destruct v as [[|]|x|x y|x y z]; simpl; try reflexivity. apply q1_mul. Qed.

(* why only == : the witness *)
Example as_axis2d_not_leibniz : as_axis2d_src (V1 (1 # 2)) = (1 # 2, 0 # 2) /\ as2 (V1 (1 # 2)) = (1 # 2, 0 # 1).
Proof. split; vm_compute; reflexivity. Qed.

Theorem convert_tie v d : veq (convert_src v d) (convert d v).
Proof.
  destruct d; simpl.
  - unfold from_bool_src. simpl. apply as_bool_tie.
  - unfold from_f32_src. simpl. rewrite as_axis1d_tie. reflexivity.
  - pose proof (as_axis2d_tie v) as H. unfold from_Vec2_src.
    destruct (as_axis2d_src v) as [a b], (as2 v) as [a' b']. exact H.
  - pose proof (as_axis3d_tie v) as H. unfold from_Vec3_src.
    destruct (as_axis3d_src v) as [[a b] c], (as3 v) as [[a' b'] c']. exact H.
Qed.
Print Assumptions convert_tie.
Theorem convert_tie_vred v d : vred (convert_src v d) = vred (convert d v).
Proof. apply veq_vred, convert_tie. Qed.
Print Assumptions convert_tie_vred.
Theorem convert_tie_leibniz v d :
  (forall x, v <> V1 x) \/ d = DBool \/ d = D1 -> convert_src v d = convert d v.
Proof.
  intros H. destruct d; simpl.
  - unfold from_bool_src. now rewrite as_bool_tie.
  - unfold from_f32_src. now rewrite as_axis1d_tie.
  - destruct H as [H|[H|H]]; try discriminate. unfold from_Vec2_src. now rewrite as_axis2d_tie_leibniz.
  - destruct H as [H|[H|H]]; try discriminate. unfold from_Vec3_src. now rewrite as_axis3d_tie_leibniz.
Qed.
Print Assumptions convert_tie_leibniz.
Example convert_not_leibniz :
  convert_src (V1 (1 # 2)) D2 = V2 (1 # 2) (0 # 2) /\ convert D2 (V1 (1 # 2)) = V2 (1 # 2) (0 # 1).
Proof. split; vm_compute; reflexivity. Qed.

Theorem is_actuated_tie v t : is_actuated_src v t = is_actuated v t.
Proof.
  unfold is_actuated_src, is_actuated, qleb. apply Qle_bool_compat; [reflexivity|].
  pose proof (as_axis3d_tie v) as H.
  destruct (as_axis3d_src v) as [[a b] c], (as3 v) as [[a' b'] c']. simpl in *.
  destruct H as [H1 [H2 H3]]. now rewrite H1, H2, H3.
Qed.
Print Assumptions is_actuated_tie.

(* ================================================================ events.rs, enum ActionState *)

Theorem ActionState_order_tie s : ActionState_index_src s = state_rank s.
Proof. destruct s; reflexivity. Qed.
Print Assumptions ActionState_order_tie.
Theorem ActionState_eqb_tie a b : ActionState_eqb_src a b = state_eqb a b.
Proof. destruct a, b; reflexivity. Qed.
Print Assumptions ActionState_eqb_tie.
Theorem ActionState_variants_tie : ActionState_variants_src = ["None"; "Ongoing"; "Fired"]%string.
Proof. reflexivity. Qed.
Print Assumptions ActionState_variants_tie.

Theorem ActionEvents_bits_tie :
  ActionEvents_STARTED_src = ev_bit EStarted /\ ActionEvents_ONGOING_src = ev_bit EOngoing /\
  ActionEvents_FIRED_src = ev_bit EFired /\ ActionEvents_CANCELED_src = ev_bit ECanceled /\
  ActionEvents_COMPLETED_src = ev_bit ECompleted.
Proof. repeat split; reflexivity. Qed.
Print Assumptions ActionEvents_bits_tie.
(* declaration order of the flags (the order in which bitflags' iter_names yields them) *)
Theorem ActionEvents_flags_tie :
  ActionEvents_flags_src = map ev_bit all_kinds /\
  ActionEvents_flag_names_src = ["STARTED"; "ONGOING"; "FIRED"; "CANCELED"; "COMPLETED"]%string.
Proof. split; reflexivity. Qed.
Print Assumptions ActionEvents_flags_tie.

Theorem events_new_tie p c : events_new_src p c = events_new p c.
Proof. destruct p, c; reflexivity. Qed.
Print Assumptions events_new_tie.

(* ================================================================ trigger_tracker.rs *)
From BEI Require Import Proofs.ValueP.

(* equality of trackers up to == on the components of the value *)
Definition teq (a b : tracker) : Prop :=
  veq (t_value a) (t_value b) /\ with_value a (VB false) = with_value b (VB false).
(* a tracker with its value normalised by Qred *)
Definition tvred (t : tracker) : tracker := with_value t (vred (t_value t)).

Lemma teq_tvred a b : teq a b -> tvred a = tvred b.
Proof.
  intros [H1 H2]. unfold tvred. rewrite (veq_vred _ _ H1).
  destruct a, b; simpl in *. inversion H2; subst. reflexivity.
Qed.

Theorem TriggerTracker_fields_tie :
  TriggerTracker_fields_src = ["value"; "found_explicit"; "any_explicit_fired"; "found_active";
                               "found_implicit"; "all_implicits_fired"; "blocked"; "events_blocked"]%string.
Proof. reflexivity. Qed.
Print Assumptions TriggerTracker_fields_tie.

Theorem new_tie v : new_src v = tracker_new v.
Proof. reflexivity. Qed.
Print Assumptions new_tie.

Theorem tracker_state_tie t : tracker_state_src t = tracker_state t.
Proof. destruct t; unfold tracker_state_src, tracker_state; simpl. rewrite as_bool_tie. reflexivity. Qed.
Print Assumptions tracker_state_tie.

Theorem tracker_value_tie t : tracker_value_src t = t_value t.
Proof. reflexivity. Qed.
Print Assumptions tracker_value_tie.

Theorem events_blocked_tie t : events_blocked_src t = events_blocked t.
Proof. reflexivity. Qed.
Print Assumptions events_blocked_tie.

(* one iteration of the loop of apply_conditions; note the argument order of the model *)
Theorem apply_cond_tie k s t : apply_cond_src k s t = apply_result t k s.
Proof. destruct k as [| |[|]], s, t; reflexivity. Qed.
Print Assumptions apply_cond_tie.
(* what the two abstracted calls were applied to in the source *)
Theorem apply_cond_args_tie :
  apply_cond_kind_args_src = [] /\ apply_cond_evaluate_args_src = ["actions"; "time"; "self.value"]%string.
Proof. split; reflexivity. Qed.
Print Assumptions apply_cond_args_tie.

(* ---- overwrite *)
Theorem overwrite_tie t o : teq (overwrite_src t o) (tr_overwrite t o).
Proof.
  destruct t, o. unfold overwrite_src, tr_overwrite, teq. simpl. split; [|reflexivity].
  rewrite dim_tie. apply convert_tie.
Qed.
Print Assumptions overwrite_tie.
Theorem overwrite_tie_vred t o : tvred (overwrite_src t o) = tvred (tr_overwrite t o).
Proof. apply teq_tvred, overwrite_tie. Qed.
Print Assumptions overwrite_tie_vred.
Theorem overwrite_tie_leibniz t o :
  (forall x, t_value o <> V1 x) \/ vdim (t_value t) = DBool \/ vdim (t_value t) = D1 ->
  overwrite_src t o = tr_overwrite t o.
Proof.
  intros H. destruct t, o. unfold overwrite_src, tr_overwrite. simpl in *.
  rewrite dim_tie, convert_tie_leibniz by exact H. reflexivity.
Qed.
Print Assumptions overwrite_tie_leibniz.

(* ---- combine *)
Lemma convert_compat d a b : veq a b -> veq (convert d a) (convert d b).
Proof.
  destruct a, b; simpl; try tauto; intros H;
    repeat match goal with H : _ /\ _ |- _ => destruct H end; subst;
    destruct d; simpl; repeat split; try reflexivity; try assumption;
    repeat match goal with H : ?a == ?b |- _ => rewrite (qnz_compat a b H); clear H end; reflexivity.
Qed.

Definition pick (x y : Q) : Q := if qltb (qabs x) (qabs y) then y else x.
Lemma pick_compat x x' y y' : x == x' -> y == y' -> pick x y == pick x' y'.
Proof.
  intros Hx Hy. unfold pick.
  rewrite (qltb_compat _ _ _ _ (qabs_compat _ _ Hx) (qabs_compat _ _ Hy)).
  destruct (qltb (qabs x') (qabs y')); assumption.
Qed.
Lemma pick_junk y x : pick y (0 * x) = y.
Proof.
  unfold pick, qltb.
  assert (H : Qle_bool (qabs (0 * x)) (qabs y) = true).
  { apply Qle_bool_iff. rewrite (qabs_compat _ _ (q0_mul x)). apply qabs_nonneg. }
  now rewrite H.
Qed.

Theorem combine_tie t o acc : teq (combine_src t o acc) (tr_combine t o acc).
Proof.
  destruct t as [tv a1 a2 a3 a4 a5 a6 a7], o as [ov b1 b2 b3 b4 b5 b6 b7].
  unfold combine_src, tr_combine, teq. simpl. split; [|reflexivity].
  rewrite dim_tie.
  eapply veq_trans; [apply convert_tie|]. apply convert_compat.
  pose proof (as_axis3d_tie tv) as Ht. pose proof (as_axis3d_tie ov) as Ho.
  destruct (as_axis3d_src tv) as [[x y] z], (as3 tv) as [[x' y'] z'].
  destruct (as_axis3d_src ov) as [[p q] r], (as3 ov) as [[p' q'] r'].
  simpl in Ht, Ho. destruct Ht as [H1 [H2 H3]], Ho as [H4 [H5 H6]].
  destruct acc; simpl.
  - rewrite !Qred_correct. now rewrite H1, H2, H3, H4, H5, H6.
  - repeat split; apply pick_compat; assumption.
Qed.
Print Assumptions combine_tie.
Theorem combine_tie_vred t o acc : tvred (combine_src t o acc) = tvred (tr_combine t o acc).
Proof. apply teq_tvred, combine_tie. Qed.
Print Assumptions combine_tie_vred.

(* MaxAbs: syntactic equality.  The only non-syntactic components of as_axis3d_src are the products 0 * x on
   the Y / Z axes of a 1-D value, and MaxAbs never picks them (|0 * x| is not greater than anything). *)
Lemma pick_zero y : pick y 0 = y.
Proof.
  unfold pick, qltb.
  assert (H : Qle_bool (qabs 0) (qabs y) = true) by (apply Qle_bool_iff; apply qabs_nonneg).
  now rewrite H.
Qed.
(* combine_src as one record *)
Definition acc_src (tv ov : value) (acc : accumulation) : Glam.Vec3 :=
  match acc with
  | MaxAbs => Glam.arr3_zip_update pick (as_axis3d_src tv) (as_axis3d_src ov)
  | Cumulative => Glam.vec3_add (as_axis3d_src tv) (as_axis3d_src ov)
  end.
Lemma combine_src_record t o acc :
  combine_src t o acc =
  mkTracker (convert_src (from_Vec3_src (acc_src (t_value t) (t_value o) acc)) (dim_src (t_value t)))
            (found_explicit t || found_explicit o) (any_explicit_fired t || any_explicit_fired o)
            (found_active t || found_active o) (found_implicit t || found_implicit o)
            (all_implicits_fired t && all_implicits_fired o) (blocked t || blocked o)
            (events_blocked t || events_blocked o).
Proof. destruct t, o, acc; reflexivity. Qed.

Lemma maxabs_value tv ov :
  convert_src (from_Vec3_src (acc_src tv ov MaxAbs)) (dim_src tv) =
  convert (vdim tv) (of3 (v3maxabs (as3 tv) (as3 ov))).
Proof.
  rewrite dim_tie.
  destruct tv as [[|]|x|x y|x y z], ov as [[|]|p|p q|p q r];
    cbv [acc_src as_axis3d_src as3 v3maxabs Glam.arr3_zip_update Glam.vec3_mul_f32 Glam.Vec3_X Glam.Vec3_ZERO
         Glam.vec2_extend b2q vdim convert convert_src from_Vec3_src from_Vec2_src from_f32_src from_bool_src of3
         as_bool_src as_bool as_axis1d_src as1 as_axis2d_src as2 Glam.vec3_x Glam.vec3_xy Glam.vec3_ne Glam.vec3_eq
         qnz qeqb].
  all: repeat match goal with |- context [if qltb (qabs ?a) (qabs ?b) then ?b else ?a] =>
      progress change (if qltb (qabs a) (qabs b) then b else a) with (pick a b) end.
  all: rewrite ?q1_mul.
  all: repeat match goal with |- context [pick ?y (0 * ?x)] => rewrite (pick_junk y x) end.
  all: repeat match goal with |- context [pick ?y 0] => rewrite (pick_zero y) end.
  all: rewrite ?negb_andb.
  all: reflexivity.
Qed.

Theorem combine_tie_maxabs t o : combine_src t o MaxAbs = tr_combine t o MaxAbs.
Proof.
  rewrite combine_src_record. unfold tr_combine. f_equal. apply maxabs_value.
Qed.
Print Assumptions combine_tie_maxabs.

(* Cumulative: the model additionally normalises the sums with Qred; syntactically the model's result is the
   source's result with its value normalised. *)
Lemma vred_convert_v3add d a b : vred (convert d (of3 (v3add a b))) = convert d (of3 (v3add a b)).
Proof.
  destruct a as [[x y] z], b as [[p q] r], d; simpl; rewrite ?Qred_idem; reflexivity.
Qed.
Theorem combine_tie_cumulative t o : tr_combine t o Cumulative = tvred (combine_src t o Cumulative).
Proof.
  rewrite combine_tie_vred. destruct t, o. unfold tvred, tr_combine, with_value. simpl.
  now rewrite vred_convert_v3add.
Qed.
Print Assumptions combine_tie_cumulative.
Example combine_cumulative_not_leibniz :
  t_value (combine_src (tracker_new (V1 (1 # 2))) (tracker_new (V1 (1 # 2))) Cumulative) = V1 ((1 # 2) + (1 # 2)) /\
  t_value (tr_combine (tracker_new (V1 (1 # 2))) (tracker_new (V1 (1 # 2))) Cumulative) = V1 1.
Proof. split; reflexivity. Qed.
