(* Soundness and transfer of the app-level judgement Check/C18a.v (ok_a): built-in modifiers bound in a real
   context.  The judgement is followed through any run of the model: the memory it keeps for the stateful
   modifiers (previous output of DeltaLerp, running sum of AccumulateBy) stays equal to the state stored in
   the registry, every recorded application obeys the laws, and no present modifier misses a frame. *)
From Coq Require Import ZArith QArith List Bool Lia Lqa Permutation.
From BEI Require Import Model.Frame Proofs.ValueP Proofs.CondP Proofs.ModifP Proofs.MergeP Proofs.ActionP Proofs.RegistryP Proofs.FrameLiftP.
From BEI Require Import Proofs.JudgeC18P Proofs.JudgeC03P Proofs.JudgeC07P Proofs.JudgeC12P.
From BEI Require Import Check.C18w.
Import ListNotations.
Open Scope Z_scope.

(* ================================================================================================ *)
(* 0. small helpers                                                                                 *)
(* ================================================================================================ *)
Lemma all_true_app a b : all_true a -> all_true b -> all_true (a ++ b).
Proof. intros Ha Hb k x Hin. apply in_app_or in Hin. destruct Hin; [eapply Ha | eapply Hb]; eassumption. Qed.
Lemma all_true_nil : all_true [].
Proof. intros k b []. Qed.
Lemma all_true_cons k b l : b = true -> all_true l -> all_true ((k, b) :: l).
Proof. intros Hb Hl k' b' [[= <- <-]|Hin]; [exact Hb | eapply Hl; exact Hin]. Qed.
Lemma all_true_holds l : Forall JudgeC18P.holds l -> all_true l.
Proof. intros H k b Hin. rewrite Forall_forall in H. exact (H _ Hin). Qed.
Lemma all_true_concat ls : (forall l, In l ls -> all_true l) -> all_true (concat ls).
Proof.
  intros H k b Hin. apply in_concat in Hin. destruct Hin as (l & Hl & Hin). exact (H l Hl k b Hin).
Qed.

Lemma v3eq_refl a : v3eq a a.
Proof. destruct a as [[x y] z]. cbn. repeat split; reflexivity. Qed.
Lemma v3eq_sym a b : v3eq a b -> v3eq b a.
Proof. destruct a as [[x y] z], b as [[x' y'] z']. cbn. intros (A & B & C). repeat split; symmetry; assumption. Qed.
Lemma v3eq_trans a b c : v3eq a b -> v3eq b c -> v3eq a c.
Proof.
  destruct a as [[x y] z], b as [[x' y'] z'], c as [[x'' y''] z'']. cbn. intros (A & B & C) (A' & B' & C').
  repeat split; etransitivity; eassumption.
Qed.
Lemma tail0_v3eq n a b : v3eq a b -> tail0 n a -> tail0 n b.
Proof.
  destruct a as [[x y] z], b as [[x' y'] z']. cbn. intros (A & B & C) (P & Q & R).
  repeat split; intros H; [rewrite <- A; auto | rewrite <- B; auto | rewrite <- C; auto].
Qed.
Lemma tail0_zero n p : v3eq p v3zero -> tail0 n p.
Proof. destruct p as [[x y] z]. cbn. intros (A & B & C). repeat split; intros _; assumption. Qed.

(* ================================================================================================ *)
(* 1. the modifiers respect observational equality of values                                        *)
(* ================================================================================================ *)
Lemma convert_of3_proper d a b : v3eq a b -> veq (convert d (of3 a)) (convert d (of3 b)).
Proof.
  destruct a as [[x y] z], b as [[x' y'] z']. cbn [v3eq of3]. intros (A & B & C).
  destruct d; cbn [convert as_bool as1 as2 as3 veq].
  - rewrite A, B, C. reflexivity.
  - exact A.
  - split; assumption.
  - repeat split; assumption.
Qed.
Lemma numeric_proper v v' : veq v v' -> veq (numeric v) (numeric v').
Proof. destruct v, v'; cbn; try tauto. intros ->. reflexivity. Qed.

Lemma axiswise_proper f g h v v' :
  (forall a b, (a == b)%Q -> (f a == f b)%Q) -> (forall a b, (a == b)%Q -> (g a == g b)%Q) -> (forall a b, (a == b)%Q -> (h a == h b)%Q) ->
  veq v v' -> veq (axiswise f g h v) (axiswise f g h v').
Proof.
  intros Hf Hg Hh Hv. unfold axiswise. pose proof (numeric_proper _ _ Hv) as Hn.
  rewrite (veq_dim _ _ Hn). pose proof (veq_as3 _ _ Hn) as H3.
  destruct (as3 (numeric v)) as [[x y] z], (as3 (numeric v')) as [[x' y'] z']. destruct H3 as (A & B & C).
  apply (convert_of3_proper (vdim (numeric v')) (f x, g y, h z) (f x', g y', h z')). cbn. auto.
Qed.

Lemma swizzle_proper k v v' : veq v v' -> veq (swizzle_apply k v) (swizzle_apply k v').
Proof.
  destruct v, v'; cbn [veq]; try tauto.
  - intros ->. apply veq_refl.
  - intros H. destruct k; cbn; repeat split; try reflexivity; assumption.
  - intros (A & B). destruct k; cbn; repeat split; try reflexivity; assumption.
  - intros (A & B & C). destruct k; cbn; repeat split; assumption.
Qed.

Lemma lerp1_proper p p' t t' s : (p == p')%Q -> (t == t')%Q -> (lerp1 p t s == lerp1 p' t' s)%Q.
Proof. intros A B. unfold lerp1. rewrite !Qred_correct, A, B. reflexivity. Qed.

Lemma v3dist2_proper p p' t t' : v3eq p p' -> v3eq t t' -> (v3dist2 p t == v3dist2 p' t')%Q.
Proof.
  destruct p as [[a b] c], p' as [[a' b'] c'], t as [[x y] z], t' as [[x' y'] z']. cbn [v3eq v3dist2].
  intros (A & B & C) (X & Y & Z). rewrite A, B, C, X, Y, Z. reflexivity.
Qed.

Lemma delta_lerp_proper spd p p' dt v v' : v3eq p p' -> veq v v' ->
  v3eq (fst (delta_lerp_apply spd p dt v)) (fst (delta_lerp_apply spd p' dt v')) /\
  veq (snd (delta_lerp_apply spd p dt v)) (snd (delta_lerp_apply spd p' dt v')).
Proof.
  intros Hp Hv. pose proof (numeric_proper _ _ Hv) as Hn. pose proof (veq_as3 _ _ Hn) as H3.
  assert (F : v3eq (fst (delta_lerp_apply spd p dt v)) (fst (delta_lerp_apply spd p' dt v'))).
  { unfold delta_lerp_apply. cbv zeta.
    rewrite (qltb_mor _ _ (v3dist2_proper _ _ _ _ Hp H3) _ _ (Qeq_refl snap_threshold)).
    destruct (qltb (v3dist2 p' (as3 (numeric v'))) snap_threshold); cbn [fst]; [exact H3|].
    destruct p as [[a b] c], p' as [[a' b'] c']. destruct (as3 (numeric v)) as [[x y] z], (as3 (numeric v')) as [[x' y'] z'].
    cbn [fst v3eq] in *. destruct Hp as (A & B & C), H3 as (X & Y & Z).
    repeat split; apply lerp1_proper; assumption. }
  split; [exact F|]. rewrite !delta_lerp_out, (veq_dim _ _ Hn). apply convert_of3_proper. exact F.
Qed.

Lemma v3add_proper a a' b b' : v3eq a a' -> v3eq b b' -> v3eq (v3add a b) (v3add a' b').
Proof.
  destruct a as [[x y] z], a' as [[x' y'] z'], b as [[u v] w], b' as [[u' v'] w']. cbn [v3eq v3add].
  intros (A & B & C) (X & Y & Z). rewrite !Qred_correct, A, B, C, X, Y, Z. repeat split; reflexivity.
Qed.

Lemma accumulate_proper look a c c' v v' : v3eq c c' -> veq v v' ->
  v3eq (fst (accumulate_apply look a c v)) (fst (accumulate_apply look a c' v')) /\
  veq (snd (accumulate_apply look a c v)) (snd (accumulate_apply look a c' v')).
Proof.
  intros Hc Hv. unfold accumulate_apply. destruct (look a) as [s|]; cbn [fst snd]; [|split; assumption].
  pose proof (veq_as3 _ _ Hv) as H3.
  assert (F : v3eq (if state_eqb s SFired then v3add c (as3 v) else as3 v) (if state_eqb s SFired then v3add c' (as3 v') else as3 v')).
  { destruct (state_eqb s SFired); [apply v3add_proper; assumption | exact H3]. }
  split; [exact F|]. rewrite (veq_dim _ _ Hv). apply convert_of3_proper. exact F.
Qed.

(* what the profile asks of a configured modifier *)
Definition v3zerob (p : vec3) : bool := v3eqb p v3zero.
Definition mod_okb (m : modif) : bool :=
  match m with
  | MScript _ => false
  | MDeadZone Radial _ _ => false
  | MDeadZone Axial lo hi => qleb 0 lo && qltb lo hi
  | MDeltaLerp spd p => qleb 0 spd && v3zerob p
  | MAccumulate _ acc => v3zerob acc
  | _ => true
  end.
Lemma v3zerob_spec p : v3zerob p = true -> v3eq p v3zero.
Proof.
  destruct p as [[x y] z]. unfold v3zerob, v3eqb, v3zero. rewrite !andb_true_iff, !qeqb_iff. cbn. tauto.
Qed.

(* the state of a modifier up to Qeq *)
Definition mstate_eq (m m' : modif) : Prop :=
  match m, m' with
  | MDeltaLerp s p, MDeltaLerp s' p' => s = s' /\ v3eq p p'
  | MAccumulate a c, MAccumulate a' c' => a = a' /\ v3eq c c'
  | _, _ => m = m'
  end.

Lemma neg_proper f a b : (a == b)%Q -> (neg f a == neg f b)%Q.
Proof. intros H. unfold neg. destruct f; rewrite H; reflexivity. Qed.

Lemma modif_apply_proper look tm m v v' : mod_okb m = true -> veq v v' ->
  mstate_eq (fst (modif_apply look tm v m)) (fst (modif_apply look tm v' m)) /\
  veq (snd (modif_apply look tm v m)) (snd (modif_apply look tm v' m)).
Proof.
  intros Hm Hv. destruct m as [fx fy fz|a b c|k|kind lo hi|ex ey ez| |spd p|a acc|outs]; cbn [mod_okb] in Hm; try discriminate;
    cbn [modif_apply fst snd mstate_eq].
  - split; [reflexivity|]. rewrite !negate_axes. apply axiswise_proper; try exact Hv; intros; apply neg_proper; assumption.
  - split; [reflexivity|]. rewrite !scale_axes. apply axiswise_proper; try exact Hv; intros x y H; rewrite H; reflexivity.
  - split; [reflexivity|]. apply swizzle_proper. exact Hv.
  - destruct kind; [discriminate|]. split; [reflexivity|]. rewrite !deadzone_axial_axes.
    apply axiswise_proper; try exact Hv; intros; apply dz_proper; assumption.
  - split; [reflexivity|]. rewrite !exp_axes. apply axiswise_proper; try exact Hv; intros; apply apply_exp_proper; assumption.
  - split; [reflexivity|]. rewrite !delta_scale_axes. apply axiswise_proper; try exact Hv; intros x y H; rewrite H; reflexivity.
  - destruct (delta_lerp_proper spd p p (vdelta tm) v v' (v3eq_refl p) Hv) as [A B].
    destruct (delta_lerp_apply spd p (vdelta tm) v), (delta_lerp_apply spd p (vdelta tm) v'). cbn [fst snd mstate_eq] in *. tauto.
  - destruct (accumulate_proper look a acc acc v v' (v3eq_refl acc) Hv) as [A B].
    destruct (accumulate_apply look a acc v), (accumulate_apply look a acc v'). cbn [fst snd mstate_eq] in *. tauto.
Qed.

(* ================================================================================================ *)
(* 2. one application of one modifier, as the judgement sees it                                     *)
(* ================================================================================================ *)
(* the dimension of a modifier's output is a function of the dimension of its input *)
Definition numdim (d : dim) : dim := match d with DBool => D1 | _ => d end.
Definition dim_after (m : modif) (d : dim) : dim :=
  match m with
  | MSwizzle k => match numdim d with
                  | D1 => match k with YXZ | ZXY => D2 | ZYX | YZX => D3 | XZY => D1 end
                  | d' => d'
                  end
  | MAccumulate _ _ | MScript _ => d
  | _ => numdim d
  end.
Lemma numeric_numdim v : vdim (numeric v) = numdim (vdim v).
Proof. destruct v; reflexivity. Qed.
Lemma modif_dim_after look tm v m : mod_okb m = true -> vdim (snd (modif_apply look tm v m)) = dim_after m (vdim v).
Proof.
  intros Hm. destruct m as [fx fy fz|a b c|k|kind lo hi|ex ey ez| |spd p|a acc|outs]; cbn [mod_okb] in Hm; try discriminate;
    cbn [modif_apply fst snd dim_after].
  - rewrite negate_dim. apply numeric_numdim.
  - rewrite scale_dim. apply numeric_numdim.
  - destruct v, k; reflexivity.
  - rewrite deadzone_dim. apply numeric_numdim.
  - rewrite exp_dim. apply numeric_numdim.
  - rewrite delta_scale_dim. apply numeric_numdim.
  - pose proof (delta_lerp_out spd p (vdelta tm) v) as H. destruct (delta_lerp_apply spd p (vdelta tm) v) as [p' o].
    cbn [fst snd] in *. rewrite H, convert_dim. apply numeric_numdim.
  - unfold accumulate_apply. destruct (look a); cbn [snd]; [apply convert_dim | reflexivity].
Qed.

(* what the judgement does with one found log entry of a modifier configured as m0 *)
Definition jmod (m0 : modif) (dt : Q) (prev : list Q) (ent : value * value * list (Z * state)) : list (Z * bool) * list Q :=
  let '(vin, vout, seen) := ent in
  match m0 with
  | MDeltaLerp spd _ => (ok_lerp spd 0 prev [mstep vin dt SNone] [vout], ax3 vout)
  | MAccumulate a _ =>
      match find (fun p => Z.eqb (fst p) a) seen with
      | Some (_, rs) => (ok_acc true prev [mstep vin dt rs] [vout],
                         if state_eqb rs SFired then map (fun p => fst p + snd p)%Q (combine prev (ax3 vin)) else ax3 vin)
      | None => ([(10, veqb vout vin)], prev)
      end
  | _ => (ok_one m0 0 vin dt vout, prev)
  end.

(* the judgement's memory of a stateful modifier against the state stored in the registry *)
Definition prev3 (prev : list Q) (p : vec3) : Prop := exists q1 q2 q3, prev = [q1; q2; q3] /\ v3eq p (q1, q2, q3).
Definition mod_match (prev : list Q) (d : dim) (m0 m : modif) : Prop :=
  match m0 with
  | MDeltaLerp s _ => exists p, m = MDeltaLerp s p /\ prev3 prev p /\ tail0 (ndim (numdim d)) p
  | MAccumulate a _ => exists acc, m = MAccumulate a acc /\ prev3 prev acc
  | _ => m = m0
  end.

(* the action states a wrapper is shown, read the way the judgement reads them *)
Lemma find_insert_sorted a p l :
  find (fun q => Z.eqb (fst q) a) (insert_sorted p l) = if Z.eqb (fst p) a then Some p else find (fun q => Z.eqb (fst q) a) l.
Proof.
  induction l as [|q r IH]; cbn [insert_sorted find]; [reflexivity|].
  destruct (Z.leb (fst p) (fst q)) eqn:El; cbn [find]; [reflexivity|]. rewrite IH.
  destruct (Z.eqb (fst p) a) eqn:Ep, (Z.eqb (fst q) a) eqn:Eq; try reflexivity.
  apply Z.eqb_eq in Ep, Eq. apply Z.leb_gt in El. lia.
Qed.
Lemma seen_find m a :
  match find (fun q => Z.eqb (fst q) a) (seen_of m) with Some (_, rs) => Some rs | None => None end = Action.look_of m a.
Proof.
  unfold Action.look_of. induction m as [|[k d] r IH]; cbn [seen_of fold_right lookup]; [reflexivity|].
  change (fold_right (fun kd acc => insert_sorted (fst kd, d_state (snd kd)) acc) [] r) with (seen_of r).
  rewrite find_insert_sorted. cbn [fst snd]. destruct (Z.eqb k a); [reflexivity | exact IH].
Qed.

Lemma modif_apply_lerp' look tm v spd p :
  modif_apply look tm v (MDeltaLerp spd p) =
  (MDeltaLerp spd (fst (delta_lerp_apply spd p (vdelta tm) v)), snd (delta_lerp_apply spd p (vdelta tm) v)).
Proof. cbn [modif_apply]. destruct (delta_lerp_apply spd p (vdelta tm) v). reflexivity. Qed.

Lemma mod_step m0 m prev acts tm vin vin' vout' :
  mod_okb m0 = true -> mod_match prev (vdim vin) m0 m -> (0 <= vdelta tm)%Q ->
  veq vin vin' -> veq (snd (modif_apply (Action.look_of acts) tm vin m)) vout' ->
  all_true (fst (jmod m0 (vdelta tm) prev (vin', vout', seen_of acts))) /\
  mod_match (snd (jmod m0 (vdelta tm) prev (vin', vout', seen_of acts))) (vdim vin) m0
            (fst (modif_apply (Action.look_of acts) tm vin m)).
Proof.
  intros Hok Hm Hdt Hv Ho.
  assert (Stateless : (match m0 with MDeltaLerp _ _ | MAccumulate _ _ => False | _ => True end) ->
                      m = m0 /\ veq (snd (modif_apply (Action.look_of acts) tm vin' m0)) vout').
  { intros Hs. assert (E : m = m0) by (destruct m0; try contradiction; exact Hm). split; [exact E|]. subst m.
    destruct (modif_apply_proper (Action.look_of acts) tm m0 vin vin' Hok Hv) as [_ P].
    eapply veq_trans; [apply veq_sym; exact P | exact Ho]. }
  destruct m0 as [fx fy fz|a b c|k|kind lo hi|ex ey ez| |spd p0|a acc0|outs]; cbn [mod_okb] in Hok; try discriminate.
  - destruct (Stateless I) as [-> P]. cbn [modif_apply fst snd jmod mod_match] in *. split; [|reflexivity].
    apply all_true_holds, ok_one_negate. exact P.
  - destruct (Stateless I) as [-> P]. cbn [modif_apply fst snd jmod mod_match] in *. split; [|reflexivity].
    apply all_true_holds, ok_one_scale; [apply Qle_refl | exact P].
  - destruct (Stateless I) as [-> P]. cbn [modif_apply fst snd jmod mod_match] in *. split; [|reflexivity].
    apply all_true_holds, ok_one_swizzle. exact P.
  - destruct (Stateless I) as [-> P]. destruct kind; [discriminate|]. apply andb_true_iff in Hok. destruct Hok as [H1 H2].
    apply qleb_true in H1. apply qltb_true in H2.
    cbn [modif_apply fst snd jmod mod_match] in *. split; [|reflexivity].
    apply all_true_holds, ok_one_axial; [apply Qle_refl | exact H1 | exact H2 | exact P].
  - destruct (Stateless I) as [-> P]. cbn [modif_apply fst snd jmod mod_match] in *. split; [|reflexivity].
    apply all_true_holds, ok_one_exp; [apply Qle_refl | exact P].
  - destruct (Stateless I) as [-> P]. cbn [modif_apply fst snd jmod mod_match] in *. split; [|reflexivity].
    apply all_true_holds, ok_one_delta_scale; [apply Qle_refl | exact P].
  - (* DeltaLerp *)
    clear Stateless. apply andb_true_iff in Hok. destruct Hok as [Hs _]. apply qleb_true in Hs.
    cbn [mod_match] in Hm. destruct Hm as (p & -> & (q1 & q2 & q3 & -> & Hq) & Ht).
    rewrite modif_apply_lerp' in *. cbn [fst snd] in *.
    destruct (delta_lerp_proper spd p p (vdelta tm) vin vin' (v3eq_refl p) Hv) as [P1 P2].
    assert (Ho' : veq (snd (delta_lerp_apply spd p (vdelta tm) vin')) vout') by (eapply veq_trans; [apply veq_sym; exact P2 | exact Ho]).
    assert (Hn : (ndim (numdim (vdim vin)) <= ndim (vdim (numeric vin')))%nat).
    { rewrite numeric_numdim, (veq_dim _ _ Hv). apply Nat.le_refl. }
    destruct (lerp_step spd 0 p (vdelta tm) vin' vout' q1 q2 q3 _ Hs (Qle_refl 0) Hdt Hq Ht Hn Ho') as (C & N & T).
    cbn [jmod fst snd]. split.
    + rewrite ok_lerp_cons. cbn [ok_lerp]. apply all_true_cons; [exact C | apply all_true_nil].
    + cbn [mod_match]. exists (fst (delta_lerp_apply spd p (vdelta tm) vin)). split; [reflexivity|]. split.
      * unfold ax3, prev3. destruct (as3 vout') as [[x y] z]. exists x, y, z. split; [reflexivity|].
        eapply v3eq_trans; [exact P1 | exact N].
      * rewrite numeric_numdim, <- (veq_dim _ _ Hv) in T. eapply tail0_v3eq; [apply v3eq_sym; exact P1 | exact T].
  - (* AccumulateBy *)
    clear Stateless. cbn [mod_match] in Hm. destruct Hm as (acc & -> & (q1 & q2 & q3 & -> & Hq)).
    rewrite modif_apply_acc in *. cbn [fst snd] in *.
    destruct (accumulate_proper (Action.look_of acts) a acc acc vin vin' (v3eq_refl acc) Hv) as [P1 P2].
    assert (Ho' : veq (snd (accumulate_apply (Action.look_of acts) a acc vin')) vout') by (eapply veq_trans; [apply veq_sym; exact P2 | exact Ho]).
    pose proof (seen_find acts a) as Hseen. cbn [jmod].
    destruct (Action.look_of acts a) as [rs|] eqn:El.
    + destruct (find (fun p => Z.eqb (fst p) a) (seen_of acts)) as [[k rs']|]; [|discriminate]. injection Hseen as ->.
      destruct (acc_step (Action.look_of acts) a acc vin' rs q1 q2 q3 El Hq) as (b1 & b2 & b3 & En & Hn & Hx).
      cbn [fst snd]. split.
      * rewrite ok_acc_present. cbn [ok_acc]. apply all_true_cons; [|apply all_true_nil]. rewrite En.
        apply veqb_veq. eapply veq_trans; [apply veq_sym; exact Ho' | apply Hx].
      * cbn [mod_match]. exists (fst (accumulate_apply (Action.look_of acts) a acc vin)). split; [reflexivity|].
        exists b1, b2, b3. split; [exact En|]. eapply v3eq_trans; [exact P1 | exact Hn].
    + destruct (find (fun p => Z.eqb (fst p) a) (seen_of acts)) as [[k rs']|]; [discriminate|].
      rewrite (accumulate_absent _ _ _ _ El) in *. cbn [fst snd] in *. split.
      * apply all_true_cons; [|apply all_true_nil]. apply veqb_veq. apply veq_sym. eapply veq_trans; [apply veq_sym; exact Hv | exact Ho].
      * cbn [mod_match]. exists acc. split; [reflexivity|]. exists q1, q2, q3. split; [reflexivity | exact Hq].
Qed.

(* ================================================================================================ *)
(* 3. reading the modifier entries of a log                                                         *)
(* ================================================================================================ *)
Definition mod_ids (l : list logitem) : list Z := flat_map (fun x => match x with LMod i _ _ _ => [i] | _ => [] end) l.
Lemma mod_ids_app a b : mod_ids (a ++ b) = mod_ids a ++ mod_ids b.
Proof. apply flat_map_app. Qed.
Lemma find_mod_in' lg : NoDup (mod_ids lg) -> forall id v o sn, In (LMod id v o sn) lg -> find_mod id lg = Some (v, o, sn).
Proof.
  induction lg as [|x lg IH]; intros Hd id v o sn Hin; [destruct Hin|].
  destruct x as [i ? ? ?|i vi oi si]; cbn [mod_ids flat_map app] in Hd; cbn [find_mod].
  - destruct Hin as [Hin|Hin]; [discriminate|]. apply IH; assumption.
  - inversion Hd as [|? ? Hn Hd']; subst. destruct Hin as [[= -> -> -> ->]|Hin]; [rewrite Z.eqb_refl; reflexivity|].
    destruct (Z.eqb i id) eqn:E; [|apply IH; assumption]. apply Z.eqb_eq in E. subst i. exfalso. apply Hn.
    unfold mod_ids. apply in_flat_map. exists (LMod id v o sn). split; [exact Hin | left; reflexivity].
Qed.
Lemma find_mod_none lg id : find_mod id lg = None <-> ~ In id (mod_ids lg).
Proof.
  induction lg as [|x lg IH]; cbn [find_mod mod_ids flat_map]; [tauto|]. fold (mod_ids lg).
  destruct x as [i ? ? ?|i vi oi si]; cbn [app]; [exact IH|]. cbn [In]. destruct (Z.eqb i id) eqn:E.
  - apply Z.eqb_eq in E. split; [discriminate | tauto].
  - apply Z.eqb_neq in E. tauto.
Qed.
Lemma find_mod_some_in lg id ent : find_mod id lg = Some ent -> In id (mod_ids lg).
Proof.
  intros H. destruct (in_dec Z.eq_dec id (mod_ids lg)) as [Hi|Hn]; [exact Hi|]. apply find_mod_none in Hn. congruence.
Qed.

Lemma seen_eqb_eq a : forall b, seen_eqb a b = true -> a = b.
Proof.
  unfold seen_eqb. induction a as [|[k s] a IH]; intros [|[k' s'] b] H; cbn [list_eqb] in H; try discriminate; [reflexivity|].
  apply andb_true_iff in H. destruct H as [H1 H2]. cbn [fst snd] in H1. apply andb_true_iff in H1. destruct H1 as [H1 H3].
  apply Z.eqb_eq in H1. apply state_eqb_eq in H3. rewrite (IH b H2). congruence.
Qed.
(* the judged log against the model's: same modifier ids, entries equal up to veq *)
Lemma log_rel_mod_ids a : forall b, list_eqb logitem_eqb a b = true -> mod_ids a = mod_ids b.
Proof.
  induction a as [|x a IH]; intros [|y b] H; cbn [list_eqb] in H; try discriminate; [reflexivity|].
  apply andb_true_iff in H. destruct H as [H1 H2]. cbn [mod_ids flat_map]. fold (mod_ids a) (mod_ids b). rewrite (IH b H2).
  destruct x, y; cbn [logitem_eqb] in H1; try discriminate; [reflexivity|].
  repeat (apply andb_true_iff in H1; destruct H1 as [H1 ?]). apply Z.eqb_eq in H1. subst. reflexivity.
Qed.
Lemma log_rel_find id a : forall b, list_eqb logitem_eqb a b = true -> forall v o sn, find_mod id a = Some (v, o, sn) ->
  exists v' o', find_mod id b = Some (v', o', sn) /\ veq v v' /\ veq o o'.
Proof.
  induction a as [|x a IH]; intros [|y b] H v o sn Hf; cbn [list_eqb] in H; try discriminate.
  apply andb_true_iff in H. destruct H as [H1 H2].
  destruct x as [i1 v1 r1 s1|i1 v1 o1 s1], y as [i2 v2 r2 s2|i2 v2 o2 s2]; cbn [logitem_eqb] in H1; try discriminate; cbn [find_mod] in *.
  - exact (IH b H2 v o sn Hf).
  - repeat (apply andb_true_iff in H1; let E := fresh "E" in destruct H1 as [H1 E]). apply Z.eqb_eq in H1. subst i2.
    destruct (Z.eqb i1 id); [|exact (IH b H2 v o sn Hf)]. injection Hf as <- <- <-.
    apply seen_eqb_eq in E. subst s2. exists v2, o2. split; [reflexivity|]. split; apply veqb_veq; assumption.
Qed.

(* ================================================================================================ *)
(* 4. one frame: every level of the evaluation keeps the memory in step                             *)
(* ================================================================================================ *)
Fixpoint mods_rel (G : Z -> list Q) (d : dim) (ms0 ms : list (Z * modif)) : Prop :=
  match ms0, ms with
  | [], [] => True
  | (id0, m0) :: r0, (id, m) :: r => id = id0 /\ mod_match (G id0) d m0 m /\ mods_rel G (dim_after m0 d) r0 r
  | _, _ => False
  end.
Fixpoint dims_after (ms0 : list (Z * modif)) (d : dim) : dim :=
  match ms0 with [] => d | (_, m0) :: r => dims_after r (dim_after m0 d) end.

Lemma mods_rel_ids G d : forall ms0 ms, mods_rel G d ms0 ms -> ids_of ms = ids_of ms0.
Proof.
  revert d. intros d ms0. revert d. induction ms0 as [|[id0 m0] r0 IH]; intros d [|[id m] r] H; cbn [mods_rel] in H; try contradiction; [reflexivity|].
  destruct H as (-> & _ & H). unfold ids_of in *. cbn [map fst]. f_equal. exact (IH _ _ H).
Qed.
Lemma mods_rel_ext G G' : forall ms0 d ms, (forall id, In id (ids_of ms0) -> G id = G' id) -> mods_rel G d ms0 ms -> mods_rel G' d ms0 ms.
Proof.
  induction ms0 as [|[id0 m0] r0 IH]; intros d [|[id m] r] He H; cbn [mods_rel] in *; try contradiction; [exact I|].
  destruct H as (-> & Hm & H). split; [reflexivity|]. split.
  - rewrite <- (He id0 (or_introl eq_refl)). exact Hm.
  - apply IH; [|exact H]. intros x Hx. apply He. right. exact Hx.
Qed.

Definition noscript (m : modif) : Prop := match m with MScript _ => False | _ => True end.
Lemma modif_dim_after' look tm v m : noscript m -> vdim (snd (modif_apply look tm v m)) = dim_after m (vdim v).
Proof.
  intros Hm. destruct m as [fx fy fz|a b c|k|kind lo hi|ex ey ez| |spd p|a acc|outs]; try contradiction;
    cbn [modif_apply fst snd dim_after].
  - rewrite negate_dim. apply numeric_numdim.
  - rewrite scale_dim. apply numeric_numdim.
  - destruct v, k; reflexivity.
  - rewrite deadzone_dim. apply numeric_numdim.
  - rewrite exp_dim. apply numeric_numdim.
  - rewrite delta_scale_dim. apply numeric_numdim.
  - pose proof (delta_lerp_out spd p (vdelta tm) v) as H. destruct (delta_lerp_apply spd p (vdelta tm) v) as [p' o].
    cbn [fst snd] in *. rewrite H, convert_dim. apply numeric_numdim.
  - unfold accumulate_apply. destruct (look a); cbn [snd]; [apply convert_dim | reflexivity].
Qed.
Lemma mod_match_shape prev d m0 m : mod_okb m0 = true -> mod_match prev d m0 m ->
  noscript m /\ forall d', dim_after m d' = dim_after m0 d'.
Proof.
  intros Hok Hm. destruct m0; cbn [mod_okb] in Hok; try discriminate; cbn [mod_match] in Hm;
    try (subst m; split; [exact I | reflexivity]).
  - destruct Hm as (p & -> & _). split; [exact I | reflexivity].
  - destruct Hm as (p & -> & _). split; [exact I | reflexivity].
Qed.

(* the dimension of what a binding reads is fixed by the kind of input *)
Definition input_dim (i : input) : dim :=
  match i with IKey _ _ | IMouseButton _ _ | IPadButton _ => DBool | IMotion _ | IWheel _ => D2 | IPadAxis _ => D1 end.
Lemma reader_dim r c dev i : vdim (reader_value r c dev i) = input_dim i.
Proof.
  destruct i; cbn [reader_value input_dim bval vdim]; try reflexivity.
  - destruct (c_ui_mouse c || negb (mod_keys_pressed r c mods) || c_motion c); reflexivity.
  - destruct (c_ui_mouse c || negb (mod_keys_pressed r c mods) || c_wheel c); reflexivity.
  - destruct (memdz dev b (c_pbuttons c)); [reflexivity|]. destruct dev; reflexivity.
  - destruct (memdz dev a (c_paxes c)); [reflexivity|]. destruct dev as [id|]; [|reflexivity].
    destruct (find (fun p => Z.eqb (pad_id p) id) (r_pads r)); reflexivity.
Qed.

Definition ib_rel (G : Z -> list Q) (ib0 ib : ibind) : Prop :=
  ib_input ib = ib_input ib0 /\ mods_rel G (input_dim (ib_input ib0)) (ib_mods ib0) (ib_mods ib).
Definition ab_rel (G : Z -> list Q) (ab0 ab : abind) : Prop :=
  ab_id ab = ab_id ab0 /\ mods_rel G (aid_dim (ab_id ab0)) (ab_mods ab0) (ab_mods ab) /\ Forall2 (ib_rel G) (ab_inputs ab0) (ab_inputs ab).
Definition inst_rel (G : Z -> list Q) (i0 i : inst) : Prop :=
  in_pad i = in_pad i0 /\ Forall2 (ab_rel G) (in_binds i0) (in_binds i).

Definition ab_mods_all (ab : abind) : list (Z * modif) := flat_map ib_mods (ab_inputs ab) ++ ab_mods ab.
Definition inst_mods (i : inst) : list (Z * modif) := flat_map ab_mods_all (in_binds i).

Lemma mod_ids_conds m tm cs : forall t, mod_ids (snd (apply_conds m tm t cs)) = [].
Proof.
  intros t. rewrite apply_conds_log. induction cs as [|x cs IH]; [reflexivity | exact IH].
Qed.
Lemma mod_ids_mods m tm ms : forall v, mod_ids (snd (apply_mods m tm v ms)) = ids_of ms.
Proof.
  induction ms as [|[id x] rr IH]; intros v; cbn [apply_mods]; [reflexivity|].
  destruct (modif_apply (Action.look_of m) tm v x) as [x' v']. specialize (IH v').
  destruct (apply_mods m tm v' rr) as [[r' v''] lg]. cbn [snd] in *. cbn [mod_ids flat_map app]. fold (mod_ids lg). rewrite IH. reflexivity.
Qed.

Lemma input_step_facts m tm r c dev a st b :
  if skipped r c dev b then input_step m tm r c dev a st b = (st, b)
  else exists cs' lg2 st',
    input_step m tm r c dev a st b =
      (st', mkIbind (ib_input b) (fst (fst (apply_mods m tm (reader_value r c dev (ib_input b)) (ib_mods b)))) cs' false) /\
    l_log st' = l_log st ++ snd (apply_mods m tm (reader_value r c dev (ib_input b)) (ib_mods b)) ++ lg2 /\
    mod_ids lg2 = [] /\
    vdim (t_value (l_tracker st')) = vdim (t_value (l_tracker st)).
Proof.
  unfold input_step, skipped. destruct (ib_ignored b && as_bool (reader_value r consumed_reset dev (ib_input b))); [reflexivity|].
  destruct (apply_mods m tm (reader_value r c dev (ib_input b)) (ib_mods b)) as [[ms' v'] lg1].
  pose proof (mod_ids_conds m tm (ib_conds b) (tracker_new v')) as Hc.
  destruct (apply_conds m tm (tracker_new v') (ib_conds b)) as [[cs' cur] lg2]. cbn [fst snd] in *.
  exists cs', lg2. destruct (state_eqb (tracker_state cur) SNone); [eexists; repeat split; exact Hc|].
  destruct (state_cmp (tracker_state cur) (tracker_state (l_tracker st))); eexists; (split; [reflexivity|]); cbn [l_log l_tracker]; (split; [reflexivity|]); (split; [exact Hc|]).
  - unfold tr_combine. cbn [t_value]. apply convert_dim.
  - reflexivity.
  - unfold tr_overwrite, with_value. cbn [t_value]. apply convert_dim.
Qed.

Lemma input_loop_log_prefix m tm r c dev a bs : forall st, exists more, l_log (fst (input_loop m tm r c dev a st bs)) = l_log st ++ more.
Proof.
  intros st. rewrite input_loop_log. eexists. reflexivity.
Qed.

Lemma action_update_facts m tm r c dev recips ab :
  let st := fst (input_loop m tm r c dev (ab_id ab) (mkLoop (tracker_new (vzero (aid_dim (ab_id ab)))) [] []) (ab_inputs ab)) in
  exists cs' lg2,
    o_bind (action_update m tm r c dev recips ab) =
      mkAbind (ab_id ab) (fst (fst (apply_mods m tm (t_value (l_tracker st)) (ab_mods ab)))) cs'
              (snd (input_loop m tm r c dev (ab_id ab) (mkLoop (tracker_new (vzero (aid_dim (ab_id ab)))) [] []) (ab_inputs ab))) /\
    o_log (action_update m tm r c dev recips ab) = l_log st ++ snd (apply_mods m tm (t_value (l_tracker st)) (ab_mods ab)) ++ lg2 /\
    mod_ids lg2 = [].
Proof.
  cbv zeta. unfold action_update.
  destruct (input_loop m tm r c dev (ab_id ab) (mkLoop (tracker_new (vzero (aid_dim (ab_id ab)))) [] []) (ab_inputs ab)) as [st inputs'].
  cbn [fst snd]. destruct (apply_mods m tm (t_value (l_tracker st)) (ab_mods ab)) as [[ms' v1] lg1].
  pose proof (mod_ids_conds m tm (ab_conds ab) (with_value (l_tracker st) v1)) as Hc.
  destruct (apply_conds m tm (with_value (l_tracker st) v1) (ab_conds ab)) as [[cs' tr] lg2]. cbn [fst snd o_bind o_log] in *.
  exists cs', lg2. split; [reflexivity|]. split; [reflexivity | exact Hc].
Qed.

Section FrameJudge.
Variables (LOG' : list logitem) (F F' : Z -> list Q) (Site : Z -> modif -> Prop) (tm : time) (r : raw).
Hypothesis Hdt : (0 <= vdelta tm)%Q.
Hypothesis HF1 : forall id m0 ent, Site id m0 -> find_mod id LOG' = Some ent -> F' id = snd (jmod m0 (vdelta tm) (F id) ent).
Hypothesis HF0 : forall id, find_mod id LOG' = None -> F' id = F id.

(* an entry of the model's log is found, up to veq, under its id in the judged log *)
Definition found (x : logitem) : Prop :=
  match x with
  | LMod id vin vout seen => exists vin' vout', find_mod id LOG' = Some (vin', vout', seen) /\ veq vin vin' /\ veq vout vout'
  | _ => True
  end.
Definition judged (id : Z) (m0 : modif) : Prop :=
  forall ent, find_mod id LOG' = Some ent -> all_true (fst (jmod m0 (vdelta tm) (F id) ent)).
Definition mods_okS (ms0 : list (Z * modif)) : Prop := forall id m0, In (id, m0) ms0 -> mod_okb m0 = true /\ Site id m0.
Definition all_judged (ms0 : list (Z * modif)) : Prop := forall id m0, In (id, m0) ms0 -> judged id m0.
Definition unlogged (ms0 : list (Z * modif)) : Prop := forall id, In id (ids_of ms0) -> find_mod id LOG' = None.

Lemma apply_mods_ok acts : forall ms0 ms d v,
  mods_rel F d ms0 ms -> vdim v = d -> mods_okS ms0 -> Forall found (snd (apply_mods acts tm v ms)) ->
  mods_rel F' d ms0 (fst (fst (apply_mods acts tm v ms))) /\
  vdim (snd (fst (apply_mods acts tm v ms))) = dims_after ms0 d /\ all_judged ms0.
Proof.
  induction ms0 as [|[id0 m0] r0 IH]; intros [|[id m] rr] d v Hrel Hd Hok Hf; cbn [mods_rel] in Hrel; try contradiction.
  - cbn. split; [exact I|]. split; [exact Hd | intros ? ? []].
  - destruct Hrel as (-> & Hm & Hr). cbn [apply_mods] in *.
    destruct (modif_apply (Action.look_of acts) tm v m) as [m' v'] eqn:Em.
    specialize (IH rr (dim_after m0 d) v').
    destruct (apply_mods acts tm v' rr) as [[r' v''] lg] eqn:Er. cbn [fst snd] in *.
    inversion Hf as [|x l Hx Hl]; subst x l. cbn [found] in Hx. destruct Hx as (vin' & vout' & Hfind & Hv1 & Hv2).
    destruct (Hok id0 m0 (or_introl eq_refl)) as [Hokb Hsite].
    assert (Hout : veq (snd (modif_apply (Action.look_of acts) tm v m)) vout') by (rewrite Em; exact Hv2).
    subst d. destruct (mod_step m0 m (F id0) acts tm v vin' vout' Hokb Hm Hdt Hv1 Hout) as [J M]. rewrite Em in M. cbn [fst] in M.
    destruct (mod_match_shape _ _ _ _ Hokb Hm) as [Hns Hsh].
    assert (Hd' : vdim v' = dim_after m0 (vdim v)).
    { rewrite <- Hsh. pose proof (modif_dim_after' (Action.look_of acts) tm v m Hns) as E. rewrite Em in E. exact E. }
    destruct (IH Hr Hd' (fun i x Hin => Hok i x (or_intror Hin)) Hl) as (R & D & A).
    split; [|split].
    + cbn [mods_rel]. split; [reflexivity|]. split; [|exact R]. rewrite (HF1 id0 m0 _ Hsite Hfind). exact M.
    + cbn [dims_after]. exact D.
    + intros i x [[= <- <-]|Hin]; [|exact (A i x Hin)]. intros ent He. rewrite Hfind in He. injection He as <-. exact J.
Qed.

Lemma unlogged_rel d ms0 ms : unlogged ms0 -> mods_rel F d ms0 ms -> mods_rel F' d ms0 ms /\ all_judged ms0.
Proof.
  intros Hu Hr. split.
  - apply (mods_rel_ext F F'); [|exact Hr]. intros id Hin. symmetry. apply HF0, Hu, Hin.
  - intros id m0 Hin ent He. rewrite (Hu id) in He; [discriminate|]. unfold ids_of. apply in_map_iff. exists (id, m0). split; [reflexivity | exact Hin].
Qed.

Lemma input_step_ok acts c dev a st ib0 ib :
  ib_rel F ib0 ib -> mods_okS (ib_mods ib0) ->
  (skipped r c dev ib = true -> unlogged (ib_mods ib0)) ->
  Forall found (l_log (fst (input_step acts tm r c dev a st ib))) ->
  ib_rel F' ib0 (snd (input_step acts tm r c dev a st ib)) /\ all_judged (ib_mods ib0) /\
  vdim (t_value (l_tracker (fst (input_step acts tm r c dev a st ib)))) = vdim (t_value (l_tracker st)).
Proof.
  intros [Hi Hm] Hok Hsk Hf. pose proof (input_step_facts acts tm r c dev a st ib) as Hfacts.
  destruct (skipped r c dev ib).
  - rewrite Hfacts in *. cbn [fst snd]. destruct (unlogged_rel _ _ _ (Hsk eq_refl) Hm) as [R J].
    split; [split; assumption|]. split; [exact J | reflexivity].
  - destruct Hfacts as (cs' & lg2 & st' & E & Hl & _ & Hdm). rewrite E in *. cbn [fst snd] in *.
    rewrite Hl in Hf. apply Forall_app in Hf. destruct Hf as [_ Hf]. apply Forall_app in Hf. destruct Hf as [Hf _].
    destruct (apply_mods_ok acts _ _ _ _ Hm (eq_trans (reader_dim r c dev (ib_input ib)) (f_equal input_dim Hi)) Hok Hf) as (R & _ & J).
    split; [split; [exact Hi | exact R]|]. split; [exact J | exact Hdm].
Qed.

Lemma input_loop_ok acts c dev a : forall ibs0 ibs st,
  Forall2 (ib_rel F) ibs0 ibs -> (forall ib0, In ib0 ibs0 -> mods_okS (ib_mods ib0)) ->
  (forall ib0 ib, In (ib0, ib) (combine ibs0 ibs) -> skipped r c dev ib = true -> unlogged (ib_mods ib0)) ->
  Forall found (l_log (fst (input_loop acts tm r c dev a st ibs))) ->
  Forall2 (ib_rel F') ibs0 (snd (input_loop acts tm r c dev a st ibs)) /\
  (forall ib0, In ib0 ibs0 -> all_judged (ib_mods ib0)) /\
  vdim (t_value (l_tracker (fst (input_loop acts tm r c dev a st ibs)))) = vdim (t_value (l_tracker st)).
Proof.
  induction ibs0 as [|ib0 r0 IH]; intros ibs st H2 Hok Hsk Hf; inversion H2 as [|? ib ? rr Hb Hr]; subst.
  - cbn. split; [constructor|]. split; [intros ? [] | reflexivity].
  - cbn [input_loop] in *. destruct (input_step acts tm r c dev a st ib) as [st1 ib'] eqn:Es.
    destruct (input_loop acts tm r c dev a st1 rr) as [st2 rest'] eqn:El. cbn [fst snd] in *.
    assert (Hf1 : Forall found (l_log st1)).
    { destruct (input_loop_log_prefix acts tm r c dev a rr st1) as (more & Hm). rewrite El in Hm. cbn [fst] in Hm. rewrite Hm in Hf.
      apply Forall_app in Hf. tauto. }
    pose proof (input_step_ok acts c dev a st ib0 ib Hb (Hok ib0 (or_introl eq_refl))
                 (Hsk ib0 ib (or_introl eq_refl))) as S1. rewrite Es in S1. cbn [fst snd] in S1.
    destruct (S1 Hf1) as (R1 & J1 & D1).
    pose proof (IH rr st1 Hr (fun x Hx => Hok x (or_intror Hx)) (fun x y Hxy => Hsk x y (or_intror Hxy))) as S2.
    rewrite El in S2. cbn [fst snd] in S2. destruct (S2 Hf) as (R2 & J2 & D2).
    split; [constructor; assumption|]. split; [|congruence].
    intros x [<-|Hx]; [exact J1 | exact (J2 x Hx)].
Qed.

Definition ab_okS (ab0 : abind) : Prop := mods_okS (ab_mods_all ab0).
Definition skip_unlogged (dev : device) (ab0 ab : abind) : Prop :=
  forall ib0 ib, In (ib0, ib) (combine (ab_inputs ab0) (ab_inputs ab)) ->
                 skipped r consumed_reset dev ib = true -> unlogged (ib_mods ib0).

Lemma skipped_any c c' dev ib : skipped r c dev ib = skipped r c' dev ib.
Proof. reflexivity. Qed.

Lemma action_update_ok acts c dev recips ab0 ab :
  ab_rel F ab0 ab -> ab_okS ab0 -> skip_unlogged dev ab0 ab ->
  Forall found (o_log (action_update acts tm r c dev recips ab)) ->
  ab_rel F' ab0 (o_bind (action_update acts tm r c dev recips ab)) /\ all_judged (ab_mods_all ab0).
Proof.
  intros (Hid & Hm & Hin) Hok Hsk Hf.
  destruct (action_update_facts acts tm r c dev recips ab) as (cs' & lg2 & Eb & El & _). cbv zeta in *.
  set (st0 := mkLoop (tracker_new (vzero (aid_dim (ab_id ab)))) [] []) in *.
  rewrite Eb. rewrite El in Hf. apply Forall_app in Hf. destruct Hf as [Hf1 Hf2]. apply Forall_app in Hf2. destruct Hf2 as [Hf2 _].
  assert (Hok1 : forall ib0, In ib0 (ab_inputs ab0) -> mods_okS (ib_mods ib0)).
  { intros ib0 Hi id m0 Hx. apply Hok. unfold ab_mods_all. apply in_or_app. left. apply in_flat_map. exists ib0. split; assumption. }
  assert (Hok2 : mods_okS (ab_mods ab0)).
  { intros id m0 Hx. apply Hok. unfold ab_mods_all. apply in_or_app. right. exact Hx. }
  destruct (input_loop_ok acts c dev (ab_id ab) _ _ st0 Hin Hok1 Hsk Hf1) as (R1 & J1 & D1).
  assert (Hd : vdim (t_value (l_tracker (fst (input_loop acts tm r c dev (ab_id ab) st0 (ab_inputs ab))))) = aid_dim (ab_id ab0)).
  { rewrite D1. unfold st0. cbn [l_tracker tracker_new t_value]. rewrite Hid. destruct (aid_dim (ab_id ab0)); reflexivity. }
  destruct (apply_mods_ok acts _ _ _ _ Hm Hd Hok2 Hf2) as (R2 & _ & J2).
  split.
  - split; [exact Hid|]. split; [exact R2 | exact R1].
  - intros id m0 Hx. unfold ab_mods_all in Hx. apply in_app_or in Hx. destruct Hx as [Hx|Hx]; [|exact (J2 id m0 Hx)].
    apply in_flat_map in Hx. destruct Hx as (ib0 & Hi & Hx). exact (J1 ib0 Hi id m0 Hx).
Qed.

Lemma binds_update_ok dev recips : forall bs0 bs acts c,
  Forall2 (ab_rel F) bs0 bs -> (forall ab0, In ab0 bs0 -> ab_okS ab0) ->
  (forall ab0 ab, In (ab0, ab) (combine bs0 bs) -> skip_unlogged dev ab0 ab) ->
  Forall found (snd (binds_update acts tm r c dev recips bs)) ->
  Forall2 (ab_rel F') bs0 (fst (fst (fst (fst (binds_update acts tm r c dev recips bs))))) /\
  (forall ab0, In ab0 bs0 -> all_judged (ab_mods_all ab0)).
Proof.
  induction bs0 as [|ab0 r0 IH]; intros bs acts c H2 Hok Hsk Hf; inversion H2 as [|? ab ? rr Hb Hr]; subst.
  - cbn. split; [constructor | intros ? []].
  - cbn [binds_update] in *. set (o := action_update acts tm r c dev recips ab) in *.
    specialize (IH rr (o_actions o) (o_consumed o) Hr (fun x Hx => Hok x (or_intror Hx)) (fun x y Hxy => Hsk x y (or_intror Hxy))).
    destruct (binds_update (o_actions o) tm r (o_consumed o) dev recips rr) as [[[[rest' m'] c'] ev] lg]. cbn [fst snd] in *.
    apply Forall_app in Hf. destruct Hf as [Hf1 Hf2].
    destruct (action_update_ok acts c dev recips ab0 ab Hb (Hok ab0 (or_introl eq_refl)) (Hsk ab0 ab (or_introl eq_refl)) Hf1) as [R1 J1].
    destruct (IH Hf2) as [R2 J2]. split; [constructor; assumption|].
    intros x [<-|Hx]; [exact J1 | exact (J2 x Hx)].
Qed.

Definition inst_okS (i0 : inst) : Prop := mods_okS (inst_mods i0).
Definition inst_skip_unlogged (i0 i : inst) : Prop :=
  forall ab0 ab, In (ab0, ab) (combine (in_binds i0) (in_binds i)) -> skip_unlogged (in_pad i) ab0 ab.

Lemma inst_update_ok c recips i0 i :
  inst_rel F i0 i -> inst_okS i0 -> inst_skip_unlogged i0 i ->
  Forall found (io_log (inst_update tm r c recips i)) ->
  inst_rel F' i0 (io_inst (inst_update tm r c recips i)) /\ all_judged (inst_mods i0).
Proof.
  intros [Hp Hb] Hok Hsk Hf. unfold inst_update in *.
  pose proof (binds_update_ok (in_pad i) recips (in_binds i0) (in_binds i) (in_actions i) c Hb) as H.
  destruct (binds_update (in_actions i) tm r c (in_pad i) recips (in_binds i)) as [[[[bs m] c'] ev] lg]. cbn [fst snd io_inst io_log] in *.
  destruct H as [R J]; [| exact Hsk | exact Hf |].
  - intros ab0 Hin id m0 Hx. apply Hok. unfold inst_mods. apply in_flat_map. exists ab0. split; assumption.
  - split; [split; [exact Hp | exact R]|]. intros id m0 Hx. unfold inst_mods in Hx. apply in_flat_map in Hx.
    destruct Hx as (ab0 & Hin & Hx). exact (J ab0 Hin id m0 Hx).
Qed.
End FrameJudge.

(* ================================================================================================ *)
(* 5. the modifier ids of a frame's log: one unit per binding and per action                        *)
(* ================================================================================================ *)
(* a unit: the ids of one modifier list and whether the list is applied in this frame *)
Definition u_all (u : list Z * bool) : list Z := fst u.
Definition u_log (u : list Z * bool) : list Z := if snd u then fst u else [].
Definition ib_unit (r : raw) (dev : device) (ib : ibind) : list Z * bool :=
  (ids_of (ib_mods ib), negb (skipped r consumed_reset dev ib)).
Definition ab_units (r : raw) (dev : device) (ab : abind) : list (list Z * bool) :=
  map (ib_unit r dev) (ab_inputs ab) ++ [(ids_of (ab_mods ab), true)].
Definition inst_units (r : raw) (i : inst) : list (list Z * bool) := flat_map (ab_units r (in_pad i)) (in_binds i).
Definition reg_units (r : raw) (gs : registry) : list (list Z * bool) :=
  flat_map (fun g => flat_map (inst_units r) (g_insts g)) gs.

Lemma units_log_incl us : incl (flat_map u_log us) (flat_map u_all us).
Proof.
  induction us as [|[l b] us IH]; [apply incl_refl|]. cbn [flat_map]. apply incl_app_app; [|exact IH].
  unfold u_log, u_all. cbn [fst snd]. destruct b; [apply incl_refl | intros x []].
Qed.
Lemma units_log_nodup us : NoDup (flat_map u_all us) -> NoDup (flat_map u_log us).
Proof.
  induction us as [|[l b] us IH]; intros H; [constructor|]. cbn [flat_map] in *.
  apply nodup_app in H. destruct H as (H1 & H2 & H3). apply nodup_app. split; [|split].
  - unfold u_log, u_all in *. cbn [fst snd] in *. destruct b; [exact H1 | constructor].
  - exact (IH H2).
  - intros x Hx Hy. apply (H3 x); [|apply units_log_incl; exact Hy].
    unfold u_log, u_all in *. cbn [fst snd] in *. destruct b; [exact Hx | destruct Hx].
Qed.
Lemma units_skipped us : NoDup (flat_map u_all us) -> forall u id, In u us -> snd u = false -> In id (fst u) -> ~ In id (flat_map u_log us).
Proof.
  induction us as [|u0 us IH]; intros H u id Hu Hs Hid; [destruct Hu|]. cbn [flat_map] in *.
  apply nodup_app in H. destruct H as (H1 & H2 & H3). intros Hin. apply in_app_or in Hin. destruct Hu as [->|Hu].
  - destruct Hin as [Hin|Hin]; [unfold u_log in Hin; rewrite Hs in Hin; destruct Hin|].
    apply (H3 id); [exact Hid | apply units_log_incl; exact Hin].
  - destruct Hin as [Hin|Hin]; [|exact (IH H2 u id Hu Hs Hid Hin)].
    apply (H3 id); [pose proof (units_log_incl [u0]) as Hi; cbn [flat_map] in Hi; rewrite !app_nil_r in Hi; exact (Hi id Hin)|].
    apply in_flat_map. exists u. split; [exact Hu | exact Hid].
Qed.
Lemma units_logged us u id : In u us -> snd u = true -> In id (fst u) -> In id (flat_map u_log us).
Proof.
  intros Hu Hs Hid. apply in_flat_map. exists u. split; [exact Hu|]. unfold u_log. rewrite Hs. exact Hid.
Qed.

Lemma flat_map_flat_map {A B C} (f : B -> list C) (g : A -> list B) l : flat_map f (flat_map g l) = flat_map (fun x => flat_map f (g x)) l.
Proof. induction l as [|x l IH]; [reflexivity|]. cbn [flat_map]. rewrite flat_map_app, IH. reflexivity. Qed.

Lemma ids_of_app {A} (a b : list (Z * A)) : ids_of (a ++ b) = ids_of a ++ ids_of b.
Proof. apply map_app. Qed.
Lemma ids_of_flat_map {A B} (f : A -> list (Z * B)) l : ids_of (flat_map f l) = flat_map (fun x => ids_of (f x)) l.
Proof. induction l as [|x l IH]; [reflexivity|]. cbn [flat_map]. rewrite ids_of_app, IH. reflexivity. Qed.

(* all the ids of an instance, unit by unit *)
Lemma ab_units_all r dev ab : flat_map u_all (ab_units r dev ab) = ids_of (ab_mods_all ab).
Proof.
  unfold ab_units, ab_mods_all. rewrite flat_map_app, ids_of_app, ids_of_flat_map. cbn [flat_map u_all fst]. rewrite app_nil_r. f_equal.
  induction (ab_inputs ab) as [|ib l IH]; [reflexivity|]. cbn [map flat_map]. rewrite IH. reflexivity.
Qed.
Lemma inst_units_all r i : flat_map u_all (inst_units r i) = ids_of (inst_mods i).
Proof.
  unfold inst_units, inst_mods. rewrite flat_map_flat_map, ids_of_flat_map.
  induction (in_binds i) as [|ab l IH]; [reflexivity|]. cbn [flat_map]. rewrite IH, ab_units_all. reflexivity.
Qed.

(* the ids a frame logs *)
Lemma input_loop_mod_ids m tm r c dev a : forall ibs st,
  mod_ids (l_log (fst (input_loop m tm r c dev a st ibs))) = mod_ids (l_log st) ++ flat_map u_log (map (ib_unit r dev) ibs).
Proof.
  induction ibs as [|ib rr IH]; intros st; cbn [input_loop].
  - cbn. rewrite app_nil_r. reflexivity.
  - pose proof (input_step_facts m tm r c dev a st ib) as Hf.
    destruct (input_step m tm r c dev a st ib) as [st1 ib'] eqn:Es. specialize (IH st1).
    destruct (input_loop m tm r c dev a st1 rr) as [st2 rest']. cbn [fst] in *. rewrite IH. cbn [map flat_map].
    unfold u_log at 2, ib_unit at 2. cbn [fst snd]. rewrite (skipped_any r consumed_reset c dev ib).
    destruct (skipped r c dev ib); cbn [negb].
    + injection Hf as <- _. reflexivity.
    + destruct Hf as (cs' & lg2 & st' & E & Hl & Hc & _). injection E as <- _. rewrite Hl, !mod_ids_app, Hc, mod_ids_mods, app_nil_r, <- app_assoc. reflexivity.
Qed.
Lemma action_update_mod_ids m tm r c dev recips ab :
  mod_ids (o_log (action_update m tm r c dev recips ab)) = flat_map u_log (ab_units r dev ab).
Proof.
  destruct (action_update_facts m tm r c dev recips ab) as (cs' & lg2 & _ & El & Hc). cbv zeta in El.
  rewrite El, !mod_ids_app, Hc, mod_ids_mods, input_loop_mod_ids, app_nil_r. cbn [l_log mod_ids flat_map app].
  unfold ab_units. rewrite flat_map_app. cbn [flat_map u_log fst snd]. rewrite app_nil_r. reflexivity.
Qed.
Lemma binds_update_mod_ids tm r dev recips : forall bs m c,
  mod_ids (snd (binds_update m tm r c dev recips bs)) = flat_map u_log (flat_map (ab_units r dev) bs).
Proof.
  induction bs as [|b rr IH]; intros m c; cbn [binds_update]; [reflexivity|].
  set (o := action_update m tm r c dev recips b). specialize (IH (o_actions o) (o_consumed o)).
  destruct (binds_update (o_actions o) tm r (o_consumed o) dev recips rr) as [[[[rest' m'] c'] ev] lg]. cbn [snd] in *.
  cbn [flat_map]. rewrite mod_ids_app, flat_map_app, IH. unfold o. rewrite action_update_mod_ids. reflexivity.
Qed.
Lemma inst_update_mod_ids tm r c recips i : mod_ids (io_log (inst_update tm r c recips i)) = flat_map u_log (inst_units r i).
Proof.
  unfold inst_update, inst_units. pose proof (binds_update_mod_ids tm r (in_pad i) recips (in_binds i) (in_actions i) c) as H.
  destruct (binds_update (in_actions i) tm r c (in_pad i) recips (in_binds i)) as [[[[bs m] c'] ev] lg]. exact H.
Qed.
Lemma excl_update_mod_ids tm r : forall insts c,
  mod_ids (snd (excl_update tm r c insts)) = flat_map u_log (flat_map (inst_units r) (map snd insts)).
Proof.
  induction insts as [|[e i] rr IH]; intros c; cbn [excl_update]; [reflexivity|].
  set (o := inst_update tm r c [e] i). specialize (IH (io_consumed o)).
  destruct (excl_update tm r (io_consumed o) rr) as [[[rest' c'] ev] lg]. cbn [snd map flat_map] in *.
  rewrite mod_ids_app, flat_map_app, IH. unfold o. rewrite inst_update_mod_ids. reflexivity.
Qed.
Lemma reg_update_mod_ids tm r : forall gs c, mod_ids (ro_log (reg_update tm r c gs)) = flat_map u_log (reg_units r gs).
Proof.
  induction gs as [|[cx p insts|cx p ents i] gs IH]; intros c; cbn [reg_update]; [reflexivity| |].
  - pose proof (excl_update_mod_ids tm r insts c) as H. destruct (excl_update tm r c insts) as [[[insts' c'] ev] lg]. cbn [snd] in H.
    cbn [ro_log]. unfold reg_units. cbn [flat_map g_insts]. rewrite mod_ids_app, flat_map_app, H. f_equal. apply IH.
  - cbn [ro_log]. unfold reg_units. cbn [flat_map g_insts]. rewrite mod_ids_app, !flat_map_app, inst_update_mod_ids. cbn [flat_map]. rewrite app_nil_r. f_equal. apply IH.
Qed.

(* ================================================================================================ *)
(* 6. the whole registry in one frame                                                               *)
(* ================================================================================================ *)
Section RegistryFrame.
Variable sc : scenario.
Variables (LOG' : list logitem) (F F' : Z -> list Q) (Site : Z -> modif -> Prop) (tm : time) (r : raw).
Hypothesis Hdt : (0 <= vdelta tm)%Q.
Hypothesis HF1 : forall id m0 ent, Site id m0 -> find_mod id LOG' = Some ent -> F' id = snd (jmod m0 (vdelta tm) (F id) ent).
Hypothesis HF0 : forall id, find_mod id LOG' = None -> F' id = F id.
Hypothesis Hsite : forall c e, inst_okS Site (mk_inst sc c e).

Definition entry_inv (G : Z -> list Q) (cx : ctx) (ei : entity * inst) : Prop := inst_rel G (mk_inst sc cx (fst ei)) (snd ei).
Definition excl_inv (G : Z -> list Q) (g : group) : Prop :=
  match g with GExcl c _ insts => Forall (entry_inv G c) insts | GShared _ _ _ _ => False end.
Definition entry_skip (cx : ctx) (ei : entity * inst) : Prop := inst_skip_unlogged LOG' r (mk_inst sc cx (fst ei)) (snd ei).
Definition entry_judged (cx : ctx) (ei : entity * inst) : Prop := all_judged LOG' F tm (inst_mods (mk_inst sc cx (fst ei))).

Lemma excl_update_ok cx : forall insts c0,
  Forall (entry_inv F cx) insts -> Forall (entry_skip cx) insts ->
  Forall (found LOG') (snd (excl_update tm r c0 insts)) ->
  Forall (entry_inv F' cx) (fst (fst (fst (excl_update tm r c0 insts)))) /\ Forall (entry_judged cx) insts /\
  map fst (fst (fst (fst (excl_update tm r c0 insts)))) = map fst insts.
Proof.
  induction insts as [|[e i] rr IH]; intros c0 Hi Hs Hf; cbn [excl_update] in *.
  - split; [constructor|]. split; [constructor | reflexivity].
  - inversion Hi as [|? ? Hi1 Hi2]; subst. inversion Hs as [|? ? Hs1 Hs2]; subst.
    set (o := inst_update tm r c0 [e] i) in *. specialize (IH (io_consumed o) Hi2 Hs2).
    destruct (excl_update tm r (io_consumed o) rr) as [[[rest' c'] ev] lg]. cbn [fst snd] in *.
    apply Forall_app in Hf. destruct Hf as [Hf1 Hf2]. destruct (IH Hf2) as (R2 & J2 & N2).
    destruct (inst_update_ok LOG' F F' Site tm r Hdt HF1 HF0 c0 [e] (mk_inst sc cx e) i Hi1 (Hsite cx e) Hs1 Hf1) as [R1 J1].
    split; [constructor; [exact R1 | exact R2]|]. split; [constructor; [exact J1 | exact J2]|]. cbn [map fst]. f_equal. exact N2.
Qed.

Definition group_skip (g : group) : Prop := match g with GExcl c _ insts => Forall (entry_skip c) insts | _ => True end.
Definition group_judged (g : group) : Prop := match g with GExcl c _ insts => Forall (entry_judged c) insts | _ => True end.

Lemma reg_update_ok : forall gs c0,
  Forall (excl_inv F) gs -> Forall group_skip gs -> Forall (found LOG') (ro_log (reg_update tm r c0 gs)) ->
  Forall (excl_inv F') (ro_reg (reg_update tm r c0 gs)) /\ Forall group_judged gs.
Proof.
  induction gs as [|[cx p insts|cx p ents i] gs IH]; intros c0 Hi Hs Hf; cbn [reg_update] in *.
  - split; constructor.
  - inversion Hi as [|? ? Hi1 Hi2]; subst. inversion Hs as [|? ? Hs1 Hs2]; subst. cbn [excl_inv group_skip] in Hi1, Hs1.
    pose proof (excl_update_ok cx insts c0 Hi1 Hs1) as H.
    destruct (excl_update tm r c0 insts) as [[[insts' c'] ev] lg]. cbn [fst snd ro_log ro_reg] in *.
    apply Forall_app in Hf. destruct Hf as [Hf1 Hf2]. destruct (H Hf1) as (R1 & J1 & _).
    destruct (IH c' Hi2 Hs2 Hf2) as [R2 J2]. split; constructor; assumption.
  - inversion Hi as [|? ? Hi1 Hi2]; subst. destruct Hi1.
Qed.
End RegistryFrame.

(* ================================================================================================ *)
(* 7. the configuration against the instance built from it                                          *)
(* ================================================================================================ *)
Definition amods (a : action_spec) : list (Z * modif) := a_mods a ++ flat_map b_mods (a_binds a).
Definition spec_mods (s : inst_spec) : list (Z * modif) := flat_map amods (i_actions s).

Lemma ibind_of_mods bs : flat_map ib_mods (map ibind_of bs) = flat_map b_mods bs.
Proof. induction bs as [|b l IH]; [reflexivity|]. cbn [map flat_map]. rewrite IH. reflexivity. Qed.

Lemma extend_perm s : forall bs bs', extend s bs = Some bs' ->
  Permutation (flat_map ab_mods_all bs') (flat_map ab_mods_all bs ++ amods s).
Proof.
  induction bs as [|b rr IH]; intros bs' H; cbn [extend] in H; [discriminate|].
  destruct (Z.eqb (ab_id b) (a_id s)).
  - injection H as <-. cbn [flat_map]. unfold ab_mods_all at 1 3, amods. cbn [ab_inputs ab_mods].
    rewrite flat_map_app, ibind_of_mods, <- !app_assoc. apply Permutation_app_head.
    set (Y := flat_map b_mods (a_binds s)). set (M := ab_mods b). set (A := a_mods s). set (R := flat_map ab_mods_all rr).
    transitivity ((M ++ A ++ R) ++ Y); [apply Permutation_app_comm|]. rewrite <- !app_assoc. apply Permutation_app_head.
    rewrite !app_assoc. apply Permutation_app_tail. apply Permutation_app_comm.
  - destruct (extend s rr) as [r'|] eqn:E; cbn [option_map] in H; [|discriminate]. injection H as <-. cbn [flat_map].
    rewrite <- app_assoc. apply Permutation_app_head. apply IH. reflexivity.
Qed.
Lemma bind_action_perm i s : Permutation (inst_mods (bind_action i s)) (inst_mods i ++ amods s).
Proof.
  unfold bind_action. destruct (extend s (in_binds i)) as [bs|] eqn:E; unfold inst_mods; cbn [in_binds].
  - apply extend_perm. exact E.
  - rewrite flat_map_app. apply Permutation_app_head. cbn [flat_map]. rewrite app_nil_r. unfold ab_mods_all, amods. cbn [ab_inputs ab_mods].
    rewrite ibind_of_mods. apply Permutation_app_comm.
Qed.
Lemma instantiate_perm_gen acts : forall i, Permutation (inst_mods (fold_left bind_action acts i)) (inst_mods i ++ flat_map amods acts).
Proof.
  induction acts as [|a l IH]; intros i; cbn [fold_left flat_map]; [rewrite app_nil_r; apply Permutation_refl|].
  etransitivity; [apply IH|]. rewrite app_assoc. apply Permutation_app_tail. apply bind_action_perm.
Qed.
Lemma instantiate_perm s : Permutation (inst_mods (instantiate s)) (spec_mods s).
Proof. unfold instantiate. etransitivity; [apply instantiate_perm_gen|]. reflexivity. Qed.

(* where the modifiers of an action specification end up *)
Definition covers (i : inst) (ms : list (Z * modif)) (ibs : list ibind) : Prop :=
  exists ab, In ab (in_binds i) /\ incl ms (ab_mods ab) /\ incl ibs (ab_inputs ab).
Lemma extend_covers s : forall bs bs', extend s bs = Some bs' ->
  (forall ab, In ab bs -> exists ab', In ab' bs' /\ incl (ab_mods ab) (ab_mods ab') /\ incl (ab_inputs ab) (ab_inputs ab')) /\
  (exists ab', In ab' bs' /\ incl (a_mods s) (ab_mods ab') /\ incl (map ibind_of (a_binds s)) (ab_inputs ab')).
Proof.
  induction bs as [|b rr IH]; intros bs' H; cbn [extend] in H; [discriminate|].
  destruct (Z.eqb (ab_id b) (a_id s)).
  - injection H as <-. split.
    + intros ab [<-|Hin].
      * eexists. split; [left; reflexivity|]. cbn [ab_mods ab_inputs]. split; apply incl_appl, incl_refl.
      * exists ab. split; [right; exact Hin|]. split; apply incl_refl.
    + eexists. split; [left; reflexivity|]. cbn [ab_mods ab_inputs]. split; apply incl_appr, incl_refl.
  - destruct (extend s rr) as [r'|] eqn:E; cbn [option_map] in H; [|discriminate]. injection H as <-.
    destruct (IH r' eq_refl) as [K N]. split.
    + intros ab [<-|Hin]; [exists b; split; [left; reflexivity | split; apply incl_refl]|].
      destruct (K ab Hin) as (ab' & H1 & H2). exists ab'. split; [right; exact H1 | exact H2].
    + destruct N as (ab' & H1 & H2). exists ab'. split; [right; exact H1 | exact H2].
Qed.
Lemma bind_action_covers i s :
  (forall ms ibs, covers i ms ibs -> covers (bind_action i s) ms ibs) /\
  covers (bind_action i s) (a_mods s) (map ibind_of (a_binds s)).
Proof.
  unfold bind_action, covers. destruct (extend s (in_binds i)) as [bs|] eqn:E; cbn [in_binds].
  - destruct (extend_covers s _ _ E) as [K N]. split; [|exact N].
    intros ms ibs (ab & H1 & H2 & H3). destruct (K ab H1) as (ab' & G1 & G2 & G3). exists ab'. split; [exact G1|].
    split; eapply incl_tran; eassumption.
  - split.
    + intros ms ibs (ab & H1 & H2). exists ab. split; [apply in_or_app; left; exact H1 | exact H2].
    + eexists. split; [apply in_or_app; right; left; reflexivity|]. cbn [ab_mods ab_inputs]. split; apply incl_refl.
Qed.
Lemma instantiate_covers_gen acts : forall i a, In a acts -> covers (fold_left bind_action acts i) (a_mods a) (map ibind_of (a_binds a)).
Proof.
  assert (Keep : forall l i ms ibs, covers i ms ibs -> covers (fold_left bind_action l i) ms ibs).
  { induction l as [|s l IH]; intros i ms ibs H; cbn [fold_left]; [exact H|]. apply IH. apply (proj1 (bind_action_covers i s)). exact H. }
  induction acts as [|s l IH]; intros i a Hin; [destruct Hin|]. cbn [fold_left]. destruct Hin as [->|Hin].
  - apply Keep. apply (proj2 (bind_action_covers i a)).
  - apply IH. exact Hin.
Qed.
Lemma instantiate_covers s a : In a (i_actions s) -> covers (instantiate s) (a_mods a) (map ibind_of (a_binds a)).
Proof. apply instantiate_covers_gen. Qed.
Lemma instantiate_pad_gen acts : forall i, in_pad (fold_left bind_action acts i) = in_pad i.
Proof.
  induction acts as [|s l IH]; intros i; cbn [fold_left]; [reflexivity|]. rewrite IH. unfold bind_action.
  destruct (extend s (in_binds i)); reflexivity.
Qed.
Lemma instantiate_pad s : in_pad (instantiate s) = i_pad s.
Proof. unfold instantiate. rewrite instantiate_pad_gen. reflexivity. Qed.

(* the judgement's lists of sites *)
Definition tag (c e : Z) (im : Z * modif) : Z * Z * Z * modif := (c, e, fst im, snd im).
Definition id_of (x : Z * Z * Z * modif) : Z := snd (fst x).
Lemma all_mods_eq sc : all_mods sc = flat_map (fun x => map (tag (fst (fst x)) (snd (fst x))) (spec_mods (snd x))) (s_cfg sc).
Proof.
  unfold all_mods. apply flat_map_ext. intros [[c e] spec]. cbn [fst snd]. unfold spec_mods.
  induction (i_actions spec) as [|a l IH]; [reflexivity|]. cbn [flat_map]. rewrite map_app, IH. f_equal.
  unfold amods. rewrite map_app. f_equal. induction (a_binds a) as [|b bl IHb]; [reflexivity|]. cbn [flat_map]. rewrite map_app, IHb. reflexivity.
Qed.
Lemma in_all_mods sc c e id m : In (c, e, id, m) (all_mods sc) <-> exists spec, In (c, e, spec) (s_cfg sc) /\ In (id, m) (spec_mods spec).
Proof.
  rewrite all_mods_eq, in_flat_map. split.
  - intros ([[c' e'] spec] & Hin & Hx). cbn [fst snd] in Hx. apply in_map_iff in Hx. destruct Hx as ([id' m'] & [= <- <- <- <-] & Hx).
    exists spec. split; assumption.
  - intros (spec & Hin & Hx). exists (c, e, spec). split; [exact Hin|]. cbn [fst snd]. apply in_map_iff. exists (id, m). split; [reflexivity | exact Hx].
Qed.
Lemma all_mods_ids sc : map id_of (all_mods sc) = flat_map (fun x => ids_of (spec_mods (snd x))) (s_cfg sc).
Proof.
  rewrite all_mods_eq. induction (s_cfg sc) as [|x l IH]; [reflexivity|]. cbn [flat_map]. rewrite map_app, IH. f_equal.
  unfold ids_of. rewrite map_map. apply map_ext. intros [id m]. reflexivity.
Qed.
Lemma in_mod_sites sc c e id m site dev : In (c, e, id, m, site, dev) (mod_sites sc) ->
  exists spec a, In (c, e, spec) (s_cfg sc) /\ In a (i_actions spec) /\ dev = i_pad spec /\
    ((site = None /\ In (id, m) (a_mods a)) \/ exists b, In b (a_binds a) /\ site = Some (b_input b) /\ In (id, m) (b_mods b)).
Proof.
  unfold mod_sites. rewrite in_flat_map. intros ([[c' e'] spec] & Hin & Hx). apply in_flat_map in Hx. destruct Hx as (a & Ha & Hx).
  apply in_app_or in Hx. destruct Hx as [Hx|Hx].
  - apply in_map_iff in Hx. destruct Hx as ([id' m'] & [= <- <- <- <- <- <-] & Hx). exists spec, a. repeat split; try assumption. left. split; [reflexivity | exact Hx].
  - apply in_flat_map in Hx. destruct Hx as (b & Hb & Hx). apply in_map_iff in Hx. destruct Hx as ([id' m'] & [= <- <- <- <- <- <-] & Hx).
    exists spec, a. repeat split; try assumption. right. exists b. repeat split; assumption.
Qed.

Lemma Forall2_In_l {A B} (R : A -> B -> Prop) l1 l2 x : Forall2 R l1 l2 -> In x l1 -> exists y, In y l2 /\ In (x, y) (combine l1 l2) /\ R x y.
Proof.
  induction 1 as [|a b l1 l2 Hab H IH]; intros Hin; [destruct Hin|]. destruct Hin as [<-|Hin].
  - exists b. split; [left; reflexivity|]. split; [left; reflexivity | exact Hab].
  - destruct (IH Hin) as (y & H1 & H2 & H3). exists y. split; [right; exact H1|]. split; [right; exact H2 | exact H3].
Qed.
Lemma Forall2_combine {A B} (R : A -> B -> Prop) l1 l2 x y : Forall2 R l1 l2 -> In (x, y) (combine l1 l2) -> R x y.
Proof.
  induction 1 as [|a b l1 l2 Hab H IH]; intros Hin; [destruct Hin|]. destruct Hin as [[= <- <-]|Hin]; [exact Hab | exact (IH Hin)].
Qed.

(* the ids of an instance are those of the instance it was built as *)
Lemma ab_rel_ids G ab0 ab : ab_rel G ab0 ab -> ids_of (ab_mods_all ab) = ids_of (ab_mods_all ab0).
Proof.
  intros (_ & Hm & Hi). unfold ab_mods_all. rewrite !ids_of_app, (mods_rel_ids _ _ _ _ Hm). f_equal.
  rewrite !ids_of_flat_map. induction Hi as [|ib0 ib l0 l [_ Hb] _ IH]; [reflexivity|]. cbn [flat_map]. rewrite IH, (mods_rel_ids _ _ _ _ Hb). reflexivity.
Qed.
Lemma inst_rel_ids G i0 i : inst_rel G i0 i -> ids_of (inst_mods i) = ids_of (inst_mods i0).
Proof.
  intros [_ Hb]. unfold inst_mods. rewrite !ids_of_flat_map. induction Hb as [|ab0 ab l0 l Hab _ IH]; [reflexivity|].
  cbn [flat_map]. rewrite IH, (ab_rel_ids _ _ _ Hab). reflexivity.
Qed.

(* ================================================================================================ *)
(* 8. the judgement's memory as a function of the modifier id; the judgement unfolded              *)
(* ================================================================================================ *)
Notation site_t := (Z * Z * Z * modif)%type (only parsing).
Definition memf (mods : list site_t) (mem : list (list Q)) (id : Z) : list Q :=
  match find (fun xm : site_t * list Q => Z.eqb (id_of (fst xm)) id) (combine mods mem) with Some xm => snd xm | None => [] end.

Lemma memf_in : forall mods mem x prev, NoDup (map id_of mods) -> In (x, prev) (combine mods mem) -> memf mods mem (id_of x) = prev.
Proof.
  induction mods as [|a mods IH]; intros [|p mem] x prev Hd Hin; cbn [combine] in Hin; try (destruct Hin; fail).
  cbn [map] in Hd. inversion Hd as [|? ? Hn Hd']; subst. unfold memf. cbn [combine find fst].
  destruct Hin as [[= <- <-]|Hin]; [rewrite Z.eqb_refl; reflexivity|].
  destruct (Z.eqb (id_of a) (id_of x)) eqn:E.
  - exfalso. apply Z.eqb_eq in E. apply Hn. rewrite E. apply in_map. exact (in_combine_l _ _ _ _ Hin).
  - exact (IH mem x prev Hd' Hin).
Qed.
Lemma memf_notin : forall mods mem id, ~ In id (map id_of mods) -> memf mods mem id = [].
Proof.
  induction mods as [|a mods IH]; intros [|p mem] id Hn; try reflexivity. unfold memf. cbn [combine find fst].
  cbn [map In] in Hn. destruct (Z.eqb (id_of a) id) eqn:E; [apply Z.eqb_eq in E; tauto|]. apply IH. tauto.
Qed.
Lemma combine_next {A B} (g : A * B -> B) : forall (l : list A) (m : list B),
  combine l (map g (combine l m)) = map (fun xm => (fst xm, g xm)) (combine l m).
Proof.
  induction l as [|a l IH]; intros [|b m]; cbn [combine map]; try reflexivity. rewrite IH. reflexivity.
Qed.
Lemma in_combine_exists {A B} : forall (l : list A) (m : list B) x, length m = length l -> In x l -> exists y, In (x, y) (combine l m).
Proof.
  induction l as [|a l IH]; intros [|b m] x Hl Hin; cbn [length] in Hl; try discriminate; [destruct Hin|].
  destruct Hin as [<-|Hin]; [exists b; left; reflexivity|]. destruct (IH m x (eq_add_S _ _ Hl) Hin) as (y & Hy). exists y. right. exact Hy.
Qed.
Lemma memf_step (g : site_t * list Q -> list Q) mods mem x :
  NoDup (map id_of mods) -> length mem = length mods -> In x mods ->
  memf mods (map g (combine mods mem)) (id_of x) = g (x, memf mods mem (id_of x)).
Proof.
  intros Hd Hl Hin. destruct (in_combine_exists mods mem x Hl Hin) as (prev & Hp).
  rewrite (memf_in mods mem x prev Hd Hp). apply memf_in; [exact Hd|]. rewrite combine_next.
  apply in_map_iff. exists (x, prev). split; [reflexivity | exact Hp].
Qed.
Lemma next_length {A B} (g : A * B -> B) (l : list A) (m : list B) : length m = length l -> length (map g (combine l m)) = length l.
Proof. intros H. rewrite map_length, combine_length, H. apply Nat.min_id. Qed.

Definition built_in (c e : Z) (o : out) : bool :=
  existsb (fun p => Z.eqb (fst p) c && (Z.eqb (snd p) e || ctx_shared c)) (x_built o).
Definition jstep_one (o : out) (st : step) (mm : site_t * list Q) : list (Z * bool) * list Q :=
  let '((c, e, id, m), prev) := mm in
  let prev := if existsb (fun p => Z.eqb (fst p) c && (Z.eqb (snd p) e || ctx_shared c)) (x_built o) then [0; 0; 0]%Q else prev in
  match st, find_mod id (x_log o) with
  | SFrame f, Some (vin, vout, seen) =>
      let dt := (if f_paused f then 0 else qmin (f_real f) (1 # 4) * f_speed f)%Q in
      match m with
      | MDeltaLerp spd _ =>
          (match ok_lerp spd 0 prev [mstep vin dt SNone] [vout] with chk => chk end, ax3 vout)
      | MAccumulate a _ =>
          match find (fun p => Z.eqb (fst p) a) seen with
          | Some (_, rs) =>
              let acc' := if state_eqb rs SFired then map (fun p => fst p + snd p)%Q (combine prev (ax3 vin)) else ax3 vin in
              (ok_acc true prev [mstep vin dt rs] [vout], acc')
          | None => ([(10, veqb vout vin)], prev)
          end
      | _ => (ok_one m 0 vin dt vout, prev)
      end
  | _, _ => ([], prev)
  end.
Lemma judge_steps_a_cons mods mem st steps o outs :
  judge_steps_a mods mem (st :: steps) (o :: outs) =
  (18, negb (x_panicked o)) :: concat (map fst (map (jstep_one o st) (combine mods mem))) ++
  judge_steps_a mods (map snd (map (jstep_one o st) (combine mods mem))) steps outs.
Proof. reflexivity. Qed.
Lemma jstep_frame o f c e id m0 prev : x_built o = [] ->
  jstep_one o (SFrame f) ((c, e, id, m0), prev) =
  match find_mod id (x_log o) with Some ent => jmod m0 (vdelta (frame_time f)) prev ent | None => ([], prev) end.
Proof.
  intros Hb. unfold jstep_one. rewrite Hb. cbn [existsb]. destruct (find_mod id (x_log o)) as [[[vin vout] seen]|]; [|reflexivity].
  destruct m0; reflexivity.
Qed.
Lemma jstep_op o op c e id m0 prev :
  jstep_one o (SOp op) ((c, e, id, m0), prev) = ([], if built_in c e o then [0; 0; 0]%Q else prev).
Proof. unfold jstep_one, built_in. destruct (find_mod id (x_log o)) as [[[vin vout] seen]|]; reflexivity. Qed.
Lemma judge_missed_frame sites before f steps o outs :
  judge_missed sites before (SFrame f :: steps) (o :: outs) =
  map (fun s : Z * Z * Z * modif * option input * device => let '(c, e, id, m, site, dev) := s in
         (11, negb (stateful m && present_in c e before && negb (x_panicked o) &&
                    match site with None => true | Some i => negb (phys_on (f_raw f) dev i) end &&
                    match find_mod id (x_log o) with None => true | Some _ => false end))) sites
  ++ judge_missed sites o steps outs.
Proof. reflexivity. Qed.
Lemma judge_missed_op sites before op steps o outs :
  judge_missed sites before (SOp op :: steps) (o :: outs) = judge_missed sites o steps outs.
Proof. reflexivity. Qed.

(* ================================================================================================ *)
(* 9. the profile and what follows from it                                                          *)
(* ================================================================================================ *)
Fixpoint nodup_keys (l : list (Z * Z)) : bool :=
  match l with [] => true | x :: rr => negb (existsb (zz_eqb x) rr) && nodup_keys rr end.
Definition frame_okb (st : step) : bool :=
  match st with
  | SFrame f => match f_ops f with [] => true | _ => false end && (f_paused f || (qleb 0 (f_real f) && qleb 0 (f_speed f)))
  | SOp _ => true
  end.
(* exclusive context types only (a shared instance is built from one holder's configuration; the judgement lists the sites of all) *)
Definition p_excl (sc : scenario) : bool := forallb (fun c => negb (ctx_shared c)) (s_menu sc).
(* every modifier has its own log id *)
Definition p_ids (sc : scenario) : bool := nodupz (map id_of (all_mods sc)).
(* one configuration per (context type, entity) *)
Definition p_keys (sc : scenario) : bool := nodup_keys (map fst (s_cfg sc)).
(* built-in modifiers (no scripted ones, no radial dead zone) in their initial state, 0 <= lower < upper, speed >= 0 *)
Definition p_mods (sc : scenario) : bool := forallb (fun x : site_t => mod_okb (snd x)) (all_mods sc).
(* no commands issued inside a frame; real deltas and relative speeds non-negative (or the clock paused) *)
Definition p_frames (sc : scenario) : bool := forallb frame_okb (s_steps sc).
Definition profile_C18b (sc : scenario) : bool := p_excl sc && p_ids sc && p_keys sc && p_mods sc && p_frames sc.
Definition profile_C18 (sc : scenario) : Prop := profile_C18b sc = true.

Lemma nodup_keys_spec l : nodup_keys l = true -> NoDup l.
Proof.
  induction l as [|x l IH]; cbn [nodup_keys]; intros H; [constructor|]. apply andb_true_iff in H. destruct H as [H1 H2].
  constructor; [|exact (IH H2)]. intros Hin. apply negb_true_iff in H1. assert (E : existsb (zz_eqb x) l = true).
  { apply existsb_exists. exists x. split; [exact Hin|]. unfold zz_eqb. rewrite !Z.eqb_refl. reflexivity. }
  congruence.
Qed.

Record facts (sc : scenario) : Prop := mkFacts {
  P_excl : forall c, In c (s_menu sc) -> ctx_shared c = false;
  P_ids : NoDup (map id_of (all_mods sc));
  P_keys : NoDup (map fst (s_cfg sc));
  P_ok : forall x, In x (all_mods sc) -> mod_okb (snd x) = true;
  P_frames : forall st, In st (s_steps sc) -> frame_okb st = true }.
Lemma profile_facts sc : profile_C18 sc -> facts sc.
Proof.
  unfold profile_C18, profile_C18b, p_excl, p_ids, p_keys, p_mods, p_frames. intros H.
  apply andb_true_iff in H. destruct H as [H H5]. apply andb_true_iff in H. destruct H as [H H4].
  apply andb_true_iff in H. destruct H as [H H3]. apply andb_true_iff in H. destruct H as [H1 H2].
  constructor.
  - intros c Hc. rewrite forallb_forall in H1. apply negb_true_iff. exact (H1 c Hc).
  - apply nodupz_spec. exact H2.
  - apply nodup_keys_spec. exact H3.
  - rewrite forallb_forall in H4. exact H4.
  - rewrite forallb_forall in H5. exact H5.
Qed.

Section Facts.
Variable sc : scenario.
Hypothesis HF : facts sc.

Definition Site (id : Z) (m0 : modif) : Prop := exists c e, In (c, e, id, m0) (all_mods sc).
Definition cids (c e : Z) : list Z := ids_of (inst_mods (mk_inst sc c e)).

Lemma cfg_lookup_in c e id m0 : In (id, m0) (spec_mods (cfg_lookup sc c e)) -> In (c, e, id, m0) (all_mods sc).
Proof.
  unfold cfg_lookup. destruct (find (fun x : Z * Z * inst_spec => Z.eqb (fst (fst x)) c && Z.eqb (snd (fst x)) e) (s_cfg sc)) as [x|] eqn:E.
  - apply find_some in E. destruct E as [E1 E2]. apply andb_true_iff in E2. destruct E2 as [E2 E3]. apply Z.eqb_eq in E2, E3.
    destruct x as [[c' e'] spec]. cbn [fst snd] in *. subst c' e'. intros Hin. apply in_all_mods. exists spec. split; assumption.
  - intros [].
Qed.
Lemma cfg_lookup_spec c e spec : In (c, e, spec) (s_cfg sc) -> cfg_lookup sc c e = spec.
Proof.
  intros Hin. unfold cfg_lookup.
  destruct (find (fun x : Z * Z * inst_spec => Z.eqb (fst (fst x)) c && Z.eqb (snd (fst x)) e) (s_cfg sc)) as [x|] eqn:E.
  - apply find_some in E. destruct E as [E1 E2]. apply andb_true_iff in E2. destruct E2 as [E2 E3]. apply Z.eqb_eq in E2, E3.
    destruct x as [[c' e'] spec']. cbn [fst snd] in *. subst c' e'.
    assert (Heq : (c, e, spec') = (c, e, spec)); [|congruence].
    apply (NoDup_map_inj fst (s_cfg sc)); [exact (P_keys sc HF) | exact E1 | exact Hin | reflexivity].
  - exfalso. pose proof (find_none _ _ E _ Hin) as H. cbn [fst snd] in H. rewrite !Z.eqb_refl in H. discriminate.
Qed.
Lemma inst_mods_site c e id m0 : In (id, m0) (inst_mods (mk_inst sc c e)) -> In (c, e, id, m0) (all_mods sc).
Proof.
  intros Hin. apply cfg_lookup_in. unfold mk_inst in Hin. exact (Permutation_in _ (instantiate_perm _) Hin).
Qed.
Lemma site_okS c e : inst_okS Site (mk_inst sc c e).
Proof.
  intros id m0 Hin. apply inst_mods_site in Hin. split; [exact (P_ok sc HF _ Hin) | exists c, e; exact Hin].
Qed.
Lemma site_unique c e id m c' e' m' : In (c, e, id, m) (all_mods sc) -> In (c', e', id, m') (all_mods sc) -> c = c' /\ e = e' /\ m = m'.
Proof.
  intros H1 H2. pose proof (NoDup_map_inj id_of (all_mods sc) _ _ (P_ids sc HF) H1 H2 eq_refl) as E. injection E as -> -> ->. repeat split.
Qed.
Lemma cids_in c e id : In id (cids c e) -> exists m0, In (id, m0) (inst_mods (mk_inst sc c e)) /\ In (c, e, id, m0) (all_mods sc).
Proof.
  unfold cids, ids_of. intros Hin. apply in_map_iff in Hin. destruct Hin as ([id' m0] & <- & Hin). exists m0. split; [exact Hin | exact (inst_mods_site _ _ _ _ Hin)].
Qed.
Lemma nodup_flat_map_in {A B} (f : A -> list B) l x : NoDup (flat_map f l) -> In x l -> NoDup (f x).
Proof.
  induction l as [|y l IH]; intros Hd Hin; [destruct Hin|]. cbn [flat_map] in Hd. apply nodup_app in Hd. destruct Hd as (H1 & H2 & _).
  destruct Hin as [<-|Hin]; [exact H1 | exact (IH H2 Hin)].
Qed.
Lemma cids_nodup c e : NoDup (cids c e).
Proof.
  unfold cids, mk_inst. apply (Permutation_NoDup (l := ids_of (spec_mods (cfg_lookup sc c e)))).
  - unfold ids_of. apply Permutation_map, Permutation_sym, instantiate_perm.
  - unfold cfg_lookup. destruct (find (fun x : Z * Z * inst_spec => Z.eqb (fst (fst x)) c && Z.eqb (snd (fst x)) e) (s_cfg sc)) as [x|] eqn:E; [|constructor].
    apply find_some in E. destruct E as [E1 _]. pose proof (P_ids sc HF) as Hd. rewrite all_mods_ids in Hd.
    exact (nodup_flat_map_in (fun x => ids_of (spec_mods (snd x))) _ x Hd E1).
Qed.
Lemma cids_keys_nodup : forall keys : list (Z * Z), NoDup keys -> NoDup (flat_map (fun ce => cids (fst ce) (snd ce)) keys).
Proof.
  induction keys as [|[c e] keys IH]; intros Hd; [constructor|]. inversion Hd as [|? ? Hn Hd']; subst. cbn [flat_map fst snd].
  apply nodup_app. split; [apply cids_nodup|]. split; [exact (IH Hd')|].
  intros id H1 H2. apply in_flat_map in H2. destruct H2 as ([c' e'] & Hk & H2). cbn [fst snd] in H2.
  destruct (cids_in _ _ _ H1) as (m & _ & S1). destruct (cids_in _ _ _ H2) as (m' & _ & S2).
  destruct (site_unique _ _ _ _ _ _ _ S1 S2) as (-> & -> & _). exact (Hn Hk).
Qed.
End Facts.

(* ================================================================================================ *)
(* 10. one frame of the world                                                                       *)
(* ================================================================================================ *)
Lemma phys_on_eq r dev i : phys_on r dev i = as_bool (reader_value r consumed_reset dev i).
Proof. unfold phys_on. destruct r; destruct i; reflexivity. Qed.

Definition reg_keys (gs : registry) : list (Z * Z) := flat_map (fun g => map (fun e => (g_ctx g, e)) (g_ents g)) gs.
Lemma reg_keys_nodup gs : NoDup (map g_ctx gs) -> Forall (fun g => NoDup (g_ents g)) gs -> NoDup (reg_keys gs).
Proof.
  induction gs as [|g gs IH]; intros Hd Hf; [constructor|]. cbn [map] in Hd. inversion Hd as [|? ? Hn Hd']; subst.
  inversion Hf as [|? ? Hg Hf']; subst. cbn [reg_keys flat_map]. apply nodup_app. split; [|split; [exact (IH Hd' Hf')|]].
  - induction Hg as [|e l He _ IHl]; [constructor|]. cbn [map]. constructor; [|exact IHl].
    intros Hin. apply in_map_iff in Hin. destruct Hin as (e' & [= ->] & Hin). exact (He Hin).
  - intros [c e] H1 H2. apply in_map_iff in H1. destruct H1 as (e1 & [= <- <-] & _).
    apply in_flat_map in H2. destruct H2 as (g' & Hg' & H2). apply in_map_iff in H2. destruct H2 as (e2 & [= E _] & _).
    apply Hn. rewrite <- E. apply in_map. exact Hg'.
Qed.

Section World.
Variable sc : scenario.
Hypothesis HF : facts sc.
Let mods := all_mods sc.

Definition WInv (G : Z -> list Q) (w : world) : Prop :=
  forall c e i, reg_get c e (w_reg w) = Some i -> inst_rel G (mk_inst sc c e) i.

Lemma reg_excl w g : reg_inv sc w -> In g (w_reg w) ->
  exists insts, g = GExcl (g_ctx g) (ctx_prio (g_ctx g)) insts /\ NoDup (map fst insts) /\
    (forall e i, reg_get (g_ctx g) e (w_reg w) = Some i <-> In (e, i) insts).
Proof.
  intros Hinv Hg. pose proof (P_excl sc HF _ (reg_ctx_menu sc w g Hinv Hg)) as Hx.
  destruct (inv_exclusive sc w (g_ctx g) g Hinv Hg eq_refl Hx) as (insts & E & Hd & _ & Hget). exists insts. repeat split; try assumption; apply Hget.
Qed.
Lemma winv_rinv G w : reg_inv sc w -> WInv G w -> Forall (excl_inv sc G) (w_reg w).
Proof.
  intros Hinv HW. apply Forall_forall. intros g Hg. destruct (reg_excl w g Hinv Hg) as (insts & E & _ & Hget).
  rewrite E. cbn [excl_inv]. apply Forall_forall. intros [e i] Hin. unfold entry_inv. cbn [fst snd]. apply HW. apply Hget. exact Hin.
Qed.
Lemma reg_get_entry gs c e i : reg_get c e gs = Some i -> exists g, In g gs /\ g_ctx g = c /\ group_get e g = Some i.
Proof.
  rewrite reg_get_unfold. destruct (index_of c gs) as [n|] eqn:En; [|discriminate].
  destruct (index_of_nth c gs n En) as (g & Hn & Hc & Hin). rewrite Hn. intros H. exists g. repeat split; assumption.
Qed.
Lemma group_get_excl e c p insts i : group_get e (GExcl c p insts) = Some i -> In (e, i) insts.
Proof.
  cbn [group_get]. destruct (find (fun ei => Z.eqb (fst ei) e) insts) as [[e0 i0]|] eqn:Ef; [|discriminate].
  cbn [option_map snd]. intros [= ->]. apply find_some in Ef. destruct Ef as [Hin He]. cbn [fst] in He. apply Z.eqb_eq in He. subst e0. exact Hin.
Qed.
Lemma rinv_winv G gs : Forall (excl_inv sc G) gs -> forall c e i, reg_get c e gs = Some i -> inst_rel G (mk_inst sc c e) i.
Proof.
  intros HR c e i Hget. destruct (reg_get_entry gs c e i Hget) as (g & Hg & Hc & Hgg).
  rewrite Forall_forall in HR. specialize (HR g Hg). destruct g as [c' p insts|c' p ents i']; [|destruct HR].
  cbn [g_ctx] in Hc. subst c'. cbn [excl_inv] in HR. rewrite Forall_forall in HR. exact (HR (e, i) (group_get_excl _ _ _ _ _ Hgg)).
Qed.

Lemma units_all_keys G r gs : Forall (excl_inv sc G) gs ->
  flat_map u_all (reg_units r gs) = flat_map (fun ce => cids sc (fst ce) (snd ce)) (reg_keys gs).
Proof.
  induction 1 as [|g gs Hg _ IH]; [reflexivity|]. unfold reg_units, reg_keys in *. cbn [flat_map]. rewrite !flat_map_app, IH. f_equal.
  destruct g as [c p insts|c p ents i]; [|destruct Hg]. cbn [excl_inv g_insts g_ents g_ctx] in *.
  induction Hg as [|[e i] l Hi _ IHl]; [reflexivity|]. cbn [map flat_map fst snd]. rewrite flat_map_app, IHl, inst_units_all. f_equal.
  unfold cids. exact (inst_rel_ids _ _ _ Hi).
Qed.
Lemma units_nodup G r w : reg_inv sc w -> Forall (excl_inv sc G) (w_reg w) -> NoDup (flat_map u_all (reg_units r (w_reg w))).
Proof.
  intros Hinv HR. rewrite (units_all_keys G r _ HR). apply (cids_keys_nodup sc HF). destruct Hinv as (_ & Hd & Hok & _).
  apply reg_keys_nodup; [exact Hd|]. eapply Forall_impl; [|exact Hok]. intros g (_ & _ & _ & H & _). exact H.
Qed.

(* the units of a stored instance are units of the registry *)
Lemma unit_in_reg r gs g i u : In g gs -> In i (g_insts g) -> In u (inst_units r i) -> In u (reg_units r gs).
Proof.
  intros Hg Hi Hu. unfold reg_units. apply in_flat_map. exists g. split; [exact Hg|]. apply in_flat_map. exists i. split; assumption.
Qed.
Lemma ab_unit_in r i ab : In ab (in_binds i) -> In (ids_of (ab_mods ab), true) (inst_units r i).
Proof.
  intros Hab. unfold inst_units. apply in_flat_map. exists ab. split; [exact Hab|]. unfold ab_units. apply in_or_app. right. left. reflexivity.
Qed.
Lemma ib_unit_in r i ab ib : In ab (in_binds i) -> In ib (ab_inputs ab) -> In (ib_unit r (in_pad i) ib) (inst_units r i).
Proof.
  intros Hab Hib. unfold inst_units. apply in_flat_map. exists ab. split; [exact Hab|]. unfold ab_units. apply in_or_app. left. apply in_map. exact Hib.
Qed.

Lemma frame_dt f : frame_okb (SFrame f) = true -> f_ops f = [] /\ (0 <= vdelta (frame_time f))%Q.
Proof.
  cbn [frame_okb]. intros H. apply andb_true_iff in H. destruct H as [H1 H2]. split; [destruct (f_ops f); [reflexivity | discriminate]|].
  unfold frame_time. cbn [vdelta]. destruct (f_paused f); [apply Qle_refl|]. cbn [orb] in H2. apply andb_true_iff in H2. destruct H2 as [H2 H3].
  apply qleb_true in H2, H3. apply Qmult_le_0_compat; [|exact H3]. unfold qmin, max_delta. destruct (Qle_bool (f_real f) (1 # 4)); [exact H2 | discriminate].
Qed.

Lemma frame_step_ok w f fo mem o' :
  reg_inv sc w -> length mem = length mods -> WInv (memf mods mem) w ->
  frame sc w f = Some fo -> frame_okb (SFrame f) = true ->
  list_eqb logitem_eqb (fo_log fo) (x_log o') = true -> x_built o' = [] ->
  let upd := map (jstep_one o' (SFrame f)) (combine mods mem) in
  all_true (concat (map fst upd)) /\ WInv (memf mods (map snd upd)) (fo_world fo) /\
  (forall c e id m site dev i, In (c, e, id, m, site, dev) (mod_sites sc) -> reg_get c e (w_reg w) = Some i ->
     match site with None => true | Some inp => negb (phys_on (f_raw f) dev inp) end = true ->
     find_mod id (x_log o') <> None).
Proof.
  intros Hinv Hlen HW Hfr Hokf Hlog Hb. cbv zeta.
  destruct (frame_dt f Hokf) as [Hops Hdt].
  unfold frame in Hfr. rewrite Hops in Hfr. set (tm := frame_time f) in *. set (r := f_raw f) in *.
  set (o := reg_update tm r (update_state r) (w_reg w)) in *.
  destruct (ro_events o) as [main|]; [|discriminate]. cbn [run_ops fold_left] in Hfr. injection Hfr as <-. cbn [fo_log fo_world oo_world] in *.
  set (LOG' := x_log o') in *. set (F := memf mods mem) in *.
  set (g' := fun xm : site_t * list Q => snd (jstep_one o' (SFrame f) xm)).
  assert (Emap : map snd (map (jstep_one o' (SFrame f)) (combine mods mem)) = map g' (combine mods mem)) by (rewrite map_map; reflexivity).
  rewrite Emap. set (F' := memf mods (map g' (combine mods mem))).
  assert (Hstep : forall x, In x mods -> F' (id_of x) = snd (jstep_one o' (SFrame f) (x, F (id_of x)))).
  { intros x Hx. exact (memf_step g' mods mem x (P_ids sc HF) Hlen Hx). }
  assert (HF1 : forall id m0 ent, Site sc id m0 -> find_mod id LOG' = Some ent -> F' id = snd (jmod m0 (vdelta tm) (F id) ent)).
  { intros id m0 ent (c & e & Hs) Hfind. pose proof (Hstep _ Hs) as E. cbn [id_of fst snd] in E. rewrite E.
    rewrite (jstep_frame o' f c e id m0 _ Hb). fold LOG'. rewrite Hfind. reflexivity. }
  assert (HF0 : forall id, find_mod id LOG' = None -> F' id = F id).
  { intros id Hfind. destruct (in_dec Z.eq_dec id (map id_of mods)) as [Hi|Hn].
    - apply in_map_iff in Hi. destruct Hi as ([[[c e] id'] m0] & E & Hs). cbn [id_of fst snd] in E. subst id'.
      pose proof (Hstep _ Hs) as E. cbn [id_of fst snd] in E. rewrite E.
      rewrite (jstep_frame o' f c e id m0 _ Hb). fold LOG'. rewrite Hfind. reflexivity.
    - unfold F', F. rewrite !memf_notin; [reflexivity | exact Hn | exact Hn]. }
  pose proof (winv_rinv F w Hinv HW) as HR.
  pose proof (units_nodup F r w Hinv HR) as HU.
  pose proof (reg_update_mod_ids tm r (w_reg w) (update_state r)) as Hids. fold o in Hids.
  pose proof (log_rel_mod_ids _ _ Hlog) as Hids'. fold LOG' in Hids'.
  assert (Hnd : NoDup (mod_ids (ro_log o))) by (rewrite Hids; apply units_log_nodup; exact HU).
  assert (Hfound : Forall (found LOG') (ro_log o)).
  { apply Forall_forall. intros x Hx. destruct x as [? ? ? ?|id vin vout seen]; [exact I|]. cbn [found].
    exact (log_rel_find id _ _ Hlog _ _ _ (find_mod_in' _ Hnd _ _ _ _ Hx)). }
  assert (Hskip : Forall (group_skip sc LOG' r) (w_reg w)).
  { apply Forall_forall. intros g Hg. destruct (reg_excl w g Hinv Hg) as (insts & E & _ & _). rewrite Forall_forall in HR. pose proof (HR g Hg) as HRg.
    rewrite E in HRg |- *. cbn [group_skip excl_inv] in *. apply Forall_forall. intros [e i] Hei. rewrite Forall_forall in HRg. specialize (HRg _ Hei).
    unfold entry_inv, entry_skip in *. cbn [fst snd] in *. destruct HRg as [_ Hbinds].
    intros ab0 ab Hab ib0 ib Hib Hsk id Hid.
    pose proof (Forall2_combine _ _ _ _ _ Hbinds Hab) as (_ & _ & Hinputs). pose proof (Forall2_combine _ _ _ _ _ Hinputs Hib) as [_ Hm].
    apply find_mod_none. rewrite <- Hids', Hids.
    apply (units_skipped _ HU (ib_unit r (in_pad i) ib) id).
    - apply (unit_in_reg r _ g i); [exact Hg | rewrite E; cbn [g_insts]; apply in_map_iff; exists (e, i); split; [reflexivity | exact Hei]|].
      apply (ib_unit_in r i ab ib); [exact (in_combine_r _ _ _ _ Hab) | exact (in_combine_r _ _ _ _ Hib)].
    - unfold ib_unit. cbn [snd]. rewrite Hsk. reflexivity.
    - unfold ib_unit. cbn [fst]. rewrite (mods_rel_ids _ _ _ _ Hm). exact Hid. }
  destruct (reg_update_ok sc LOG' F F' (Site sc) tm r Hdt HF1 HF0 (site_okS sc HF) (w_reg w) (update_state r) HR Hskip Hfound) as [HR' HJ].
  fold o in HR'. split; [|split].
  - (* every judged entry obeys its law *)
    apply all_true_concat. intros l Hl. rewrite map_map in Hl. apply in_map_iff in Hl. destruct Hl as ([x prev] & <- & Hxp).
    pose proof (memf_in mods mem x prev (P_ids sc HF) Hxp) as Hprev. fold F in Hprev.
    pose proof (in_combine_l _ _ _ _ Hxp) as Hx. destruct x as [[[c e] id] m0]. cbn [id_of fst snd] in Hprev.
    rewrite (jstep_frame o' f c e id m0 prev Hb). fold LOG'. destruct (find_mod id LOG') as [ent|] eqn:Hfind; [|apply all_true_nil].
    pose proof (find_mod_some_in _ _ _ Hfind) as Hin. rewrite <- Hids', Hids in Hin. apply units_log_incl in Hin.
    rewrite (units_all_keys F r _ HR) in Hin. apply in_flat_map in Hin. destruct Hin as ([c' e'] & Hk & Hin). cbn [fst snd] in Hin.
    destruct (cids_in sc _ _ _ Hin) as (m' & Him & Hs'). destruct (site_unique sc HF _ _ _ _ _ _ _ Hs' Hx) as (-> & -> & ->).
    unfold reg_keys in Hk. apply in_flat_map in Hk. destruct Hk as (g & Hg & Hk). apply in_map_iff in Hk. destruct Hk as (e0 & [= Ec ->] & He).
    destruct (reg_excl w g Hinv Hg) as (insts & E & _ & _). rewrite Forall_forall in HJ. pose proof (HJ g Hg) as HJg. rewrite E in HJg, He.
    cbn [group_judged g_ents] in HJg, He. apply in_map_iff in He. destruct He as ([e1 i1] & Ee & He). cbn [fst] in Ee. subst e1.
    rewrite Forall_forall in HJg. pose proof (HJg _ He) as HJe. unfold entry_judged in HJe. cbn [fst] in HJe. rewrite Ec in HJe.
    rewrite <- Hprev. exact (HJe id m0 Him ent Hfind).
  - intros c e i Hget. cbn [w_reg] in Hget. exact (rinv_winv F' _ HR' c e i Hget).
  - (* no present modifier misses the frame *)
    intros c e id m site dev i Hsite Hget Hphys. apply in_mod_sites in Hsite. destruct Hsite as (spec & a & Hcfg & Ha & -> & Hcase).
    pose proof (HW c e i Hget) as [Hpad Hbinds]. unfold mk_inst in Hpad, Hbinds. rewrite (cfg_lookup_spec sc HF c e spec Hcfg) in Hpad, Hbinds.
    rewrite instantiate_pad in Hpad.
    destruct (instantiate_covers spec a Ha) as (ab0 & Hab0 & Hc1 & Hc2).
    destruct (Forall2_In_l _ _ _ _ Hbinds Hab0) as (ab & Hab & _ & (_ & Hm & Hinputs)).
    destruct (reg_get_entry _ c e i Hget) as (g & Hg & Hgc & Hgg). destruct (reg_excl w g Hinv Hg) as (insts & E & _ & _).
    assert (Hi : In i (g_insts g)).
    { rewrite E in Hgg |- *. apply group_get_excl in Hgg. cbn [g_insts]. apply in_map_iff. exists (e, i). split; [reflexivity | exact Hgg]. }
    intros Hnone. apply find_mod_none in Hnone. apply Hnone. fold LOG'. rewrite <- Hids', Hids.
    destruct Hcase as [[-> Him]|(b & Hb' & -> & Him)].
    + apply (units_logged _ (ids_of (ab_mods ab), true) id); [|reflexivity|].
      * exact (unit_in_reg r _ g i _ Hg Hi (ab_unit_in r i ab Hab)).
      * cbn [fst]. rewrite (mods_rel_ids _ _ _ _ Hm). unfold ids_of. apply in_map_iff. exists (id, m). split; [reflexivity | exact (Hc1 _ Him)].
    + assert (Hib0 : In (ibind_of b) (ab_inputs ab0)) by (apply Hc2; apply in_map; exact Hb').
      destruct (Forall2_In_l _ _ _ _ Hinputs Hib0) as (ib & Hib & _ & (Hinp & Hmi)). cbn [ibind_of ib_input ib_mods] in Hinp, Hmi.
      apply (units_logged _ (ib_unit r (in_pad i) ib) id).
      * exact (unit_in_reg r _ g i _ Hg Hi (ib_unit_in r i ab ib Hab Hib)).
      * unfold ib_unit, skipped. cbn [snd]. rewrite Hinp, Hpad. rewrite phys_on_eq in Hphys. fold r in Hphys.
        apply negb_true_iff in Hphys. rewrite Hphys, andb_false_r. reflexivity.
      * unfold ib_unit. cbn [fst]. rewrite (mods_rel_ids _ _ _ _ Hmi). unfold ids_of. apply in_map_iff. exists (id, m). split; [reflexivity | exact Him].
Qed.
End World.

(* ================================================================================================ *)
(* 11. one operation between frames                                                                 *)
(* ================================================================================================ *)
Lemma Forall2_impl_in {A B} (R R' : A -> B -> Prop) l1 l2 :
  (forall x y, In x l1 -> R x y -> R' x y) -> Forall2 R l1 l2 -> Forall2 R' l1 l2.
Proof.
  intros H H2. induction H2 as [|a b l1 l2 Hab _ IH]; constructor.
  - apply H; [left; reflexivity | exact Hab].
  - apply IH. intros x y Hx. apply H. right. exact Hx.
Qed.
Lemma in_ids_of {A} (id : Z) (m : A) l : In (id, m) l -> In id (ids_of l).
Proof. intros H. unfold ids_of. apply in_map_iff. exists (id, m). split; [reflexivity | exact H]. Qed.

Lemma inst_rel_ext G G' i0 i : (forall id, In id (ids_of (inst_mods i0)) -> G id = G' id) -> inst_rel G i0 i -> inst_rel G' i0 i.
Proof.
  intros He [Hp Hb]. split; [exact Hp|]. revert Hb. apply Forall2_impl_in. intros ab0 ab Hab0 (Hid & Hm & Hi).
  assert (Hsub : forall id, In id (ids_of (ab_mods_all ab0)) -> G id = G' id).
  { intros id Hid'. apply He. unfold inst_mods. rewrite ids_of_flat_map. apply in_flat_map. exists ab0. split; assumption. }
  split; [exact Hid|]. split.
  - apply (mods_rel_ext G G'); [|exact Hm]. intros id Hin. apply Hsub. unfold ab_mods_all. rewrite ids_of_app. apply in_or_app. right. exact Hin.
  - revert Hi. apply Forall2_impl_in. intros ib0 ib Hib0 [Hinp Hmi]. split; [exact Hinp|].
    apply (mods_rel_ext G G'); [|exact Hmi]. intros id Hin. apply Hsub. unfold ab_mods_all. rewrite ids_of_app, ids_of_flat_map. apply in_or_app. left.
    apply in_flat_map. exists ib0. split; assumption.
Qed.

Lemma mod_match_fresh (G : Z -> list Q) (id : Z) d m0 : mod_okb m0 = true -> G id = [0; 0; 0]%Q -> mod_match (G id) d m0 m0.
Proof.
  intros Hok Hz. destruct m0; cbn [mod_okb] in Hok; try discriminate; cbn [mod_match]; try reflexivity.
  - apply andb_true_iff in Hok. destruct Hok as [_ Hp]. apply v3zerob_spec in Hp. exists prev. split; [reflexivity|].
    split; [exists 0%Q, 0%Q, 0%Q; split; [exact Hz | exact Hp] | apply tail0_zero; exact Hp].
  - apply v3zerob_spec in Hok. exists acc. split; [reflexivity|]. exists 0%Q, 0%Q, 0%Q. split; [exact Hz | exact Hok].
Qed.
Lemma mods_rel_fresh (G : Z -> list Q) : forall ms0 d, (forall id m0, In (id, m0) ms0 -> mod_okb m0 = true /\ G id = [0; 0; 0]%Q) -> mods_rel G d ms0 ms0.
Proof.
  induction ms0 as [|[id m0] rr IH]; intros d H; cbn [mods_rel]; [exact I|]. destruct (H id m0 (or_introl eq_refl)) as [H1 H2].
  split; [reflexivity|]. split; [apply mod_match_fresh; assumption|]. apply IH. intros i x Hx. apply H. right. exact Hx.
Qed.
Lemma Forall2_refl_in' {A} (R : A -> A -> Prop) l : (forall x, In x l -> R x x) -> Forall2 R l l.
Proof. induction l as [|x l IH]; intros H; constructor; [apply H; left; reflexivity | apply IH; intros y Hy; apply H; right; exact Hy]. Qed.
Lemma inst_rel_fresh G i0 : (forall id m0, In (id, m0) (inst_mods i0) -> mod_okb m0 = true /\ G id = [0; 0; 0]%Q) -> inst_rel G i0 i0.
Proof.
  intros H. split; [reflexivity|]. apply Forall2_refl_in'. intros ab Hab.
  assert (Hsub : forall id m0, In (id, m0) (ab_mods_all ab) -> mod_okb m0 = true /\ G id = [0; 0; 0]%Q).
  { intros id m0 Hin. apply H. unfold inst_mods. apply in_flat_map. exists ab. split; assumption. }
  split; [reflexivity|]. split.
  - apply mods_rel_fresh. intros id m0 Hin. apply Hsub. unfold ab_mods_all. apply in_or_app. right. exact Hin.
  - apply Forall2_refl_in'. intros ib Hib. split; [reflexivity|]. apply mods_rel_fresh. intros id m0 Hin. apply Hsub.
    unfold ab_mods_all. apply in_or_app. left. apply in_flat_map. exists ib. split; assumption.
Qed.

Section WorldOps.
Variable sc : scenario.
Hypothesis HF : facts sc.
Let mods := all_mods sc.

Lemma get_holds w c e i : reg_inv sc w -> reg_get c e (w_reg w) = Some i -> RegistryP.holds (w_holds w) c e.
Proof.
  intros (_ & _ & _ & Hm & _) Hget. apply Hm. congruence.
Qed.
Lemma get_excl w c e i : reg_inv sc w -> reg_get c e (w_reg w) = Some i -> ctx_shared c = false.
Proof.
  intros Hinv Hget. destruct (reg_get_entry _ c e i Hget) as (g & Hg & <- & _). exact (P_excl sc HF _ (reg_ctx_menu sc w g Hinv Hg)).
Qed.

Lemma op_step_ok w op oo mem o' :
  reg_inv sc w -> length mem = length mods -> WInv sc (memf mods mem) w ->
  apply_op sc w op = Some oo -> (forall p, In p (oo_built oo) <-> In p (x_built o')) ->
  let upd := map (jstep_one o' (SOp op)) (combine mods mem) in
  all_true (concat (map fst upd)) /\ WInv sc (memf mods (map snd upd)) (oo_world oo).
Proof.
  intros Hinv Hlen HW Hop Hbuilt. cbv zeta. split.
  - apply all_true_concat. intros l Hl. rewrite map_map in Hl. apply in_map_iff in Hl. destruct Hl as ([[[[c e] id] m0] prev] & <- & _).
    rewrite jstep_op. apply all_true_nil.
  - set (F := memf mods mem). set (g' := fun xm : site_t * list Q => snd (jstep_one o' (SOp op) xm)).
    assert (Emap : map snd (map (jstep_one o' (SOp op)) (combine mods mem)) = map g' (combine mods mem)) by (rewrite map_map; reflexivity).
    rewrite Emap. set (F' := memf mods (map g' (combine mods mem))).
    assert (Hstep : forall c e id m0, In (c, e, id, m0) mods -> F' id = if built_in c e o' then [0; 0; 0]%Q else F id).
    { intros c e id m0 Hx. pose proof (memf_step g' mods mem _ (P_ids sc HF) Hlen Hx) as E. cbn [id_of fst snd] in E. fold F F' in E. rewrite E.
      unfold g'. rewrite jstep_op. reflexivity. }
    pose proof (apply_op_effect sc w op oo Hinv Hop) as Heff.
    destruct (apply_op_inv sc w op Hinv) as (oo2 & Hop2 & Hinv'). rewrite Hop in Hop2. injection Hop2 as <-.
    intros c e i Hget. pose proof (get_excl _ c e i Hinv' Hget) as Hx.
    assert (Hbi : built_in c e o' = true <-> In (c, e) (oo_built oo)).
    { unfold built_in. split.
      - intros H. apply existsb_exists in H. destruct H as ([c' e'] & Hin & Hb). cbn [fst snd] in Hb. rewrite Hx, orb_false_r in Hb.
        apply andb_true_iff in Hb. destruct Hb as [H1 H2]. apply Z.eqb_eq in H1, H2. subst c' e'. apply Hbuilt. exact Hin.
      - intros Hin. apply existsb_exists. exists (c, e). split; [apply Hbuilt; exact Hin|]. cbn [fst snd]. rewrite !Z.eqb_refl. reflexivity. }
    destruct (pair_in_dec (c, e) (oo_built oo)) as [Hin|Hnin].
    + rewrite (ef_fx _ _ _ _ _ Heff c e Hx Hin) in Hget. injection Hget as <-. apply inst_rel_fresh. intros id m0 Him.
      pose proof (inst_mods_site sc c e id m0 Him) as Hs. split; [exact (P_ok sc HF _ Hs)|].
      rewrite (Hstep c e id m0 Hs). rewrite (proj2 Hbi Hin). reflexivity.
    + pose proof (get_holds _ c e i Hinv' Hget) as Hh'.
      assert (Hh : RegistryP.holds (w_holds w) c e /\ is_rebuild op <> true).
      { destruct (holds_dec w c e) as [Hh|Hh].
        - split; [exact Hh|]. intros Hr. apply Hnin. apply (ef_bx _ _ _ _ _ Heff c e Hx). split; [exact Hh' | right; exact Hr].
        - exfalso. apply Hnin. apply (ef_bx _ _ _ _ _ Heff c e Hx). split; [exact Hh' | left; exact Hh]. }
      assert (Hnt : ~ touched (oo_built oo) c e) by (unfold touched; rewrite Hx; exact Hnin).
      destruct (ef_u _ _ _ _ _ Heff c e (proj1 Hh) Hnt) as [Hn|Hsame]; [congruence|]. rewrite Hsame in Hget.
      apply (inst_rel_ext F F'); [|exact (HW c e i Hget)].
      intros id Hid. unfold ids_of in Hid. apply in_map_iff in Hid. destruct Hid as ([id' m0] & <- & Him). cbn [fst].
      rewrite (Hstep c e id' m0 (inst_mods_site sc c e id' m0 Him)).
      destruct (built_in c e o') eqn:Eb; [|reflexivity]. exfalso. apply Hnin. apply Hbi. reflexivity.
Qed.
End WorldOps.

(* ================================================================================================ *)
(* 12. the whole run, judged on any trace that agrees with the model's                              *)
(* ================================================================================================ *)
(* what the judgement reads of an out record, up to what agree_full allows *)
Definition out_rel (mo o : out) : Prop :=
  list_eqb logitem_eqb (x_log mo) (x_log o) = true /\ x_mirror mo = x_mirror o /\ x_panicked mo = x_panicked o /\
  (forall p, In p (x_built mo) <-> In p (x_built o)).

Lemma frame_built_nil sc w f fo : frame sc w f = Some fo -> f_ops f = [] -> fo_built fo = [].
Proof.
  unfold frame. intros H Hops. rewrite Hops in H.
  destruct (ro_events (reg_update (frame_time f) (f_raw f) (update_state (f_raw f)) (w_reg w))); [|discriminate].
  cbn [run_ops fold_left] in H. injection H as <-. reflexivity.
Qed.
Lemma present_got sc w o c e : x_mirror o = model_mirror sc w -> present_in c e o = true -> reg_get c e (w_reg w) <> None.
Proof.
  intros Hm Hp. unfold present_in in Hp. rewrite Hm in Hp. apply existsb_exists in Hp. destruct Hp as (m & Hin & Hb).
  apply in_model_mirror in Hin. destruct Hin as (c' & e' & _ & _ & ->).
  apply andb_true_iff in Hb. destruct Hb as [Hb Hg]. apply andb_true_iff in Hb. destruct Hb as [H1 H2]. apply Z.eqb_eq in H1, H2. subst c' e'.
  unfold gotb in Hg. destruct (reg_get c e (w_reg w)); [discriminate | discriminate].
Qed.

Section Run.
Variable sc : scenario.
Hypothesis HF : facts sc.
Let mods := all_mods sc.

Theorem steps_general : forall steps w mem before outs,
  reg_inv sc w -> length mem = length mods -> WInv sc (memf mods mem) w ->
  (forall c e, present_in c e before = true -> reg_get c e (w_reg w) <> None) ->
  (forall st, In st steps -> frame_okb st = true) ->
  Forall2 out_rel (run_steps sc w steps) outs ->
  all_true (judge_steps_a mods mem steps outs) /\ all_true (judge_missed (mod_sites sc) before steps outs).
Proof.
  induction steps as [|st steps IH]; intros w mem before outs Hinv Hlen HW Hpres Hok H2.
  - cbn [run_steps] in H2. inversion H2; subst. split; apply all_true_nil.
  - rewrite run_steps_cons in H2. destruct (step_res_inv sc w st Hinv) as (w' & o & Hres & Hinv' & (Hmir & _ & Hpan)).
    rewrite Hres in H2. inversion H2 as [|? o' ? outs' (R1 & R2 & R3 & R4) H2']; subst.
    rewrite judge_steps_a_cons.
    assert (Hpres' : forall c e, present_in c e o' = true -> reg_get c e (w_reg w') <> None).
    { intros c e Hp. apply (present_got sc w' o' c e); [rewrite <- R2; exact Hmir | exact Hp]. }
    assert (Hok' : forall s, In s steps -> frame_okb s = true) by (intros s Hs; apply Hok; right; exact Hs).
    assert (H18 : negb (x_panicked o') = true) by (rewrite <- R3, Hpan; reflexivity).
    destruct st as [op|f]; cbn [step_res] in Hres.
    + destruct (apply_op sc w op) as [oo|] eqn:Hop; [|discriminate]. injection Hres as <- <-. cbn [x_built x_log] in R1, R4.
      destruct (op_step_ok sc HF w op oo mem o' Hinv Hlen HW Hop R4) as [J HW'].
      set (upd := map (jstep_one o' (SOp op)) (combine mods mem)) in *.
      assert (Hlen' : length (map snd upd) = length mods) by (unfold upd; rewrite map_map; apply next_length; exact Hlen).
      destruct (IH (oo_world oo) (map snd upd) o' outs' Hinv' Hlen' HW' Hpres' Hok' H2') as [A B].
      split; [apply all_true_cons; [exact H18 | apply all_true_app; assumption] | rewrite judge_missed_op; exact B].
    + destruct (frame sc w f) as [fo|] eqn:Hfr; [|discriminate]. injection Hres as <- <-. cbn [x_built x_log] in R1, R4.
      pose proof (Hok (SFrame f) (or_introl eq_refl)) as Hokf. destruct (frame_dt f Hokf) as [Hops _].
      assert (Hb : x_built o' = []).
      { destruct (x_built o') as [|p l] eqn:E; [reflexivity|]. exfalso. rewrite (frame_built_nil sc w f fo Hfr Hops) in R4. apply (R4 p). left. reflexivity. }
      destruct (frame_step_ok sc HF w f fo mem o' Hinv Hlen HW Hfr Hokf R1 Hb) as (J & HW' & M).
      set (upd := map (jstep_one o' (SFrame f)) (combine mods mem)) in *.
      assert (Hlen' : length (map snd upd) = length mods) by (unfold upd; rewrite map_map; apply next_length; exact Hlen).
      destruct (IH (fo_world fo) (map snd upd) o' outs' Hinv' Hlen' HW' Hpres' Hok' H2') as [A B].
      split; [apply all_true_cons; [exact H18 | apply all_true_app; assumption]|].
      rewrite judge_missed_frame. apply all_true_app; [|exact B].
      intros k b Hin. apply in_map_iff in Hin. destruct Hin as ([[[[[c e] id] m] site] dev] & [= <- <-] & Hs).
      destruct (find_mod id (x_log o')) as [ent|] eqn:Hfind; [rewrite !andb_false_r; reflexivity|].
      destruct (present_in c e before) eqn:Ep; [|rewrite !andb_false_r; reflexivity].
      destruct (match site with None => true | Some i => negb (phys_on (f_raw f) dev i) end) eqn:Es; [|rewrite !andb_false_r; reflexivity].
      exfalso. pose proof (Hpres c e Ep) as Hg. destruct (reg_get c e (w_reg w)) as [i|] eqn:Eg; [|congruence].
      exact (M c e id m site dev i Hs Eg Es Hfind).
Qed.

Lemma first_fail_all_true' l : all_true l -> first_fail l = 0.
Proof. exact (all_true_first_fail l). Qed.

Theorem C18_app_general outs : Forall2 out_rel (App.run sc) outs -> ok_a (sc, trace outs) = 0.
Proof.
  intros H2. cbn [ok_a]. apply first_fail_all_true'. fold mods.
  assert (Hlen : length (map (fun _ : site_t => [0; 0; 0]%Q) mods) = length mods) by apply map_length.
  assert (HW : WInv sc (memf mods (map (fun _ : site_t => [0; 0; 0]%Q) mods)) world_init) by (intros c e i Hget; discriminate).
  destruct (steps_general (s_steps sc) world_init _ empty_out outs (reg_inv_init sc) Hlen HW) as [A B].
  - intros c e Hp. discriminate.
  - exact (P_frames sc HF).
  - exact H2.
  - apply all_true_app; assumption.
Qed.
End Run.

Lemma logitem_eqb_refl x : logitem_eqb x x = true.
Proof.
  assert (Hs : forall s, seen_eqb s s = true).
  { unfold seen_eqb. induction s as [|[k st] s IH]; [reflexivity|]. cbn [list_eqb fst snd]. rewrite Z.eqb_refl, IH. destruct st; reflexivity. }
  assert (Hv : forall v, veqb v v = true) by (intros v; apply veqb_veq, veq_refl).
  destruct x; cbn [logitem_eqb]; rewrite Z.eqb_refl, !Hv, Hs; [destruct res|]; reflexivity.
Qed.
Lemma out_rel_refl o : out_rel o o.
Proof.
  split; [|split; [reflexivity|split; [reflexivity|tauto]]]. induction (x_log o) as [|x l IH]; [reflexivity|]. cbn [list_eqb]. rewrite logitem_eqb_refl, IH. reflexivity.
Qed.

Theorem C18_app_judgement_sound : forall sc, profile_C18 sc -> ok_a (sc, trace (App.run sc)) = 0%Z.
Proof.
  intros sc Hp. apply (C18_app_general sc (profile_facts sc Hp)). induction (App.run sc) as [|o l IH]; constructor; [apply out_rel_refl | exact IH].
Qed.

(* ---- from agree_full to out_rel ---- *)
Lemma out_diff_rel key isf a b : out_diff_k key isf a b = 0 -> out_rel a b.
Proof.
  unfold out_diff_k, first_fail. intros H.
  destruct (list_eqb event_eqb (x_pre a) (x_pre b)); [|discriminate].
  match type of H with (if ?c then _ else _) = _ => destruct c; [|discriminate] end.
  match type of H with (if ?c then _ else _) = _ => destruct c; [|discriminate] end.
  destruct (list_eqb logitem_eqb (x_log a) (x_log b)) eqn:E4; [|discriminate].
  destruct (list_eqb snap_entry_eqb (x_snaps a) (x_snaps b)); [|discriminate].
  destruct (list_eqb mirror_eqb (x_mirror a) (x_mirror b)) eqn:E6; [|discriminate].
  destruct (list_eqb zz_eqb (canon_built (x_built a)) (canon_built (x_built b))) eqn:E7; [|discriminate].
  destruct (Bool.eqb (x_probe a) (x_probe b)); [|discriminate].
  destruct (Bool.eqb (x_update a) (x_update b)); [|discriminate].
  destruct (Bool.eqb (x_panicked a) (x_panicked b)) eqn:E10; [|discriminate].
  split; [exact E4|]. split; [apply list_eqb_mirror; exact E6|]. split; [apply eqb_prop; exact E10|].
  apply list_eqb_zz in E7. unfold canon_built in E7. intros p.
  rewrite <- (sort_by_in (fun p => fst p * 1000 + snd p) (x_built a)), <- (sort_by_in (fun p => fst p * 1000 + snd p) (x_built b)), E7. tauto.
Qed.
Lemma outs_diff_rel key : forall a b i steps, outs_diff key i steps a b = 0 -> Forall2 out_rel a b.
Proof.
  induction a as [|x a IH]; intros [|y b] i steps H; cbn [outs_diff] in H; [constructor | | |].
  - lia.
  - lia.
  - pose proof (JudgeC12P.out_diff_range key (match steps with st :: _ => is_frame st | [] => false end) x y) as R.
    destruct (Z.eqb (out_diff_k key (match steps with st :: _ => is_frame st | [] => false end) x y) 0) eqn:E; [|apply Z.eqb_neq in E; lia].
    apply Z.eqb_eq in E. constructor; [exact (out_diff_rel _ _ _ _ E) | exact (IH _ _ _ H)].
Qed.

Theorem C18_app_judgement_transfer : forall sc t, profile_C18 sc -> agree_full (sc, t) = true -> ok_a (sc, t) = 0%Z.
Proof.
  intros sc t Hp Ha. unfold agree_full in Ha. cbn [fst snd] in Ha. apply Z.eqb_eq in Ha.
  destruct t as [outs|]; [|discriminate]. cbn [trace_diff] in Ha. apply outs_diff_rel in Ha.
  exact (C18_app_general sc (profile_facts sc Hp) outs Ha).
Qed.

(* ================================================================================================ *)
(* 13. the hypotheses are satisfiable, and each of them is needed                                   *)
(* ================================================================================================ *)
Definition ex_fr (keys : list Z) (mo : Q * Q) (ax : Q) (real : Q) : step :=
  SFrame (mkFrame real 1 false 0 (mkRaw keys [] mo (0%Q, 0%Q) [mkPad 0 [] [(0, ax)]] []) []).
Definition ex_fr_ops (keys : list Z) (real : Q) (ops : list op) : step :=
  SFrame (mkFrame real 1 false 0 (mkRaw keys [] (0%Q, 0%Q) (0%Q, 0%Q) [] []) ops).
(* three actions (bool, 1D, 2D) on a key, a gamepad axis and the mouse motion; DeltaLerp and AccumulateBy at both levels,
   Scale, SwizzleAxis, axial DeadZone, Negate; a rebuild in the middle *)
Definition ex_spec : inst_spec := mkSpec None
  [ mkAction 0 [(1, m_delta_lerp 4)] [] [mkBind (IKey 0 0) [(2, m_scale (1#2) 3 (-2)); (3, m_accumulate 20)] []];
    mkAction 20 [(4, m_accumulate 0)] [] [mkBind (IPadAxis 0) [(5, m_swizzle YXZ); (6, m_deadzone Axial (1#4) (3#4))] []];
    mkAction 40 [] [] [mkBind (IMotion 0) [(7, m_negate true false true); (8, m_delta_lerp 8)] []] ].
Definition ex_sc : scenario := mkScenario [0] [0] [((0, 0), ex_spec)]
  [SOp (OSpawn 0 [0]); ex_fr [] (0%Q, 0%Q) 0 (1#64); ex_fr [0] (1%Q, 1#4) (3#4) (1#8); ex_fr [0] (-1#2, 0%Q) (-1) (1#4);
   ex_fr [] (1%Q, 0%Q) (1#4) (1#8); SOp ORebuild; ex_fr [0] (1%Q, 1#4) (3#4) (1#8); ex_fr [] (0%Q, 1#4) 0 (1#8)].
Definition fired_somewhere (sc : scenario) : bool :=
  existsb (fun o => existsb (fun ev => match e_kind ev with EFired => true | _ => false end) (x_main o)) (App.run sc).

Example C18_app_judgement_sound_satisfiable :
  profile_C18 ex_sc /\ ok_a (ex_sc, trace (App.run ex_sc)) = 0 /\ fired_somewhere ex_sc = true /\ existsb (fun o => negb (match x_log o with [] => true | _ => false end)) (App.run ex_sc) = true.
Proof. vm_compute. repeat split. Qed.

(* (T) on a trace that agrees with the model's run without being equal to it: logged values as unreduced fractions *)
Example C18_app_judgement_transfer_satisfiable :
  let t := trace (map unreduce_out (App.run ex_sc)) in
  profile_C18 ex_sc /\ agree_full (ex_sc, t) = true /\ t <> trace (App.run ex_sc) /\ ok_a (ex_sc, t) = 0.
Proof. vm_compute. repeat split. discriminate. Qed.

Definition parts (sc : scenario) := (p_excl sc, p_ids sc, p_keys sc, p_mods sc, p_frames sc).
Definition ex_one (id : Z) (m : modif) : inst_spec := mkSpec None [mkAction 16 [(id, m)] [] [mkBind (IKey 0 0) [] []]].
Definition ex_mot (ms : list (Z * modif)) (steps : list step) : scenario :=
  mkScenario [0] [0] [((0, 0), mkSpec None [mkAction 32 [] [] [mkBind (IMotion 0) ms []]])] (SOp (OSpawn 0 [0]) :: steps).

(* a shared context type: the instance is built from the first holder's configuration, the second holder's stateful
   modifier is never applied although its entity "has" the instance (clause 11) *)
Example C18_app_judgement_sound_needs_exclusive :
  let sc := mkScenario [1] [0; 1] [((1, 0), ex_one 1 (m_negate true true true)); ((1, 1), ex_one 2 (m_accumulate 16))]
              [SOp (OSpawn 0 [1]); SOp (OSpawn 1 [1]); ex_fr [] (0%Q, 0%Q) 0 (1#8); ex_fr [0] (0%Q, 0%Q) 0 (1#8)] in
  parts sc = (false, true, true, true, true) /\ ok_a (sc, trace (App.run sc)) = 11.
Proof. vm_compute. split; reflexivity. Qed.
(* two modifiers under one log id: the judgement reads the entry of the first for both *)
Example C18_app_judgement_sound_needs_distinct_ids :
  let sc := mkScenario [0] [0] [((0, 0), mkSpec None [mkAction 16 [(1, m_delta_lerp 4)] [] [mkBind (IKey 0 0) [(1, m_scale 3 3 3)] []]])]
              [SOp (OSpawn 0 [0]); ex_fr [] (0%Q, 0%Q) 0 (1#8); ex_fr [0] (0%Q, 0%Q) 0 (1#8); ex_fr [] (0%Q, 0%Q) 0 (1#8)] in
  parts sc = (true, false, true, true, true) /\ ok_a (sc, trace (App.run sc)) = 9.
Proof. vm_compute. split; reflexivity. Qed.
(* two configurations for one (context type, entity): the model instantiates the first, the judgement expects both *)
Example C18_app_judgement_sound_needs_one_cfg :
  let sc := mkScenario [0] [0] [((0, 0), ex_one 1 (m_negate true true true)); ((0, 0), ex_one 2 (m_accumulate 16))]
              [SOp (OSpawn 0 [0]); ex_fr [] (0%Q, 0%Q) 0 (1#8); ex_fr [0] (0%Q, 0%Q) 0 (1#8)] in
  parts sc = (true, true, false, true, true) /\ ok_a (sc, trace (App.run sc)) = 11.
Proof. vm_compute. split; reflexivity. Qed.
(* a scripted modifier in front of DeltaLerp changes the dimension of its input from frame to frame: the memory of the
   judgement (the previous OUTPUT, truncated to its dimension) and the state of the modifier (three components) part *)
Example C18_app_judgement_sound_needs_no_script :
  let sc := ex_mot [(1, m_script [MSet (V2 0 1); MSet (V1 0); MSet (V2 0 (-1))]); (2, m_delta_lerp 4)]
              [ex_fr [] (0%Q, 0%Q) 0 (1#4); ex_fr [] (0%Q, 0%Q) 0 (1#8); ex_fr [] (0%Q, 0%Q) 0 (1#16)] in
  parts sc = (true, true, true, false, true) /\ ok_a (sc, trace (App.run sc)) = 9.
Proof. vm_compute. split; reflexivity. Qed.
(* the radial dead zone on a vector of irrational length: the app stage judges with tolerance 0 *)
Example C18_app_judgement_sound_needs_no_radial :
  let sc := ex_mot [(1, m_deadzone Radial (1#5) 1)] [ex_fr [] (0%Q, 0%Q) 0 (1#8); ex_fr [] (1%Q, 1#4) 0 (1#8)] in
  parts sc = (true, true, true, false, true) /\ ok_a (sc, trace (App.run sc)) = 5.
Proof. vm_compute. split; reflexivity. Qed.
(* a DeltaLerp configured with a non-zero previous value, a negative speed; dead-zone thresholds out of order or negative;
   an AccumulateBy configured with a non-zero sum *)
Example C18_app_judgement_sound_needs_initial_lerp :
  let sc := ex_mot [(1, MDeltaLerp 4 (1%Q, 0%Q, 0%Q))] [ex_fr [] (0%Q, 0%Q) 0 (1#8)] in
  parts sc = (true, true, true, false, true) /\ ok_a (sc, trace (App.run sc)) = 9.
Proof. vm_compute. split; reflexivity. Qed.
Example C18_app_judgement_sound_needs_speed_nonneg :
  let sc := ex_mot [(1, m_delta_lerp (-4))] [ex_fr [] (0%Q, 0%Q) 0 (1#8); ex_fr [] (1%Q, 0%Q) 0 (1#8)] in
  parts sc = (true, true, true, false, true) /\ ok_a (sc, trace (App.run sc)) = 9.
Proof. vm_compute. split; reflexivity. Qed.
Example C18_app_judgement_sound_needs_thresholds_ordered :
  let sc := ex_mot [(1, m_deadzone Axial (3#4) (1#4))] [ex_fr [] (0%Q, 0%Q) 0 (1#8); ex_fr [] (1%Q, 0%Q) 0 (1#8)] in
  parts sc = (true, true, true, false, true) /\ ok_a (sc, trace (App.run sc)) = 4.
Proof. vm_compute. split; reflexivity. Qed.
Example C18_app_judgement_sound_needs_lower_nonneg :
  let sc := ex_mot [(1, m_deadzone Axial (-1#2) (1#2))] [ex_fr [] (0%Q, 0%Q) 0 (1#8); ex_fr [] (0%Q, 0%Q) 0 (1#8)] in
  parts sc = (true, true, true, false, true) /\ ok_a (sc, trace (App.run sc)) = 20.
Proof. vm_compute. split; reflexivity. Qed.
Example C18_app_judgement_sound_needs_initial_sum :
  let sc := mkScenario [0] [0] [((0, 0), mkSpec None [mkAction 16 [] [] [mkBind (IKey 0 0) [] []];
                                                      mkAction 32 [] [] [mkBind (IMotion 0) [(1, MAccumulate 16 (1%Q, 0%Q, 0%Q))] []]])]
              [SOp (OSpawn 0 [0]); ex_fr [] (1%Q, 0%Q) 0 (1#8); ex_fr [0] (1%Q, 0%Q) 0 (1#8); ex_fr [0] (0%Q, 0%Q) 0 (1#8)] in
  parts sc = (true, true, true, false, true) /\ ok_a (sc, trace (App.run sc)) = 10.
Proof. vm_compute. split; reflexivity. Qed.
(* a rebuild issued inside a frame: the judgement forgets the memory BEFORE judging the frame's log, which was written
   by the old instance *)
Example C18_app_judgement_sound_needs_no_frame_ops :
  let sc := mkScenario [0] [0] [((0, 0), ex_one 1 (m_delta_lerp 4))]
              [SOp (OSpawn 0 [0]); ex_fr_ops [] (1#8) []; ex_fr_ops [0] (1#4) []; ex_fr_ops [] (1#8) [ORebuild]] in
  parts sc = (true, true, true, true, false) /\ ok_a (sc, trace (App.run sc)) = 9.
Proof. vm_compute. split; reflexivity. Qed.
(* a negative frame delta: DeltaLerp extrapolates away from its target *)
Example C18_app_judgement_sound_needs_delta_nonneg :
  let sc := mkScenario [0] [0] [((0, 0), ex_one 1 (m_delta_lerp 4))]
              [SOp (OSpawn 0 [0]); ex_fr_ops [] (1#8) []; ex_fr_ops [0] (-1#8) []] in
  parts sc = (true, true, true, true, false) /\ ok_a (sc, trace (App.run sc)) = 9.
Proof. vm_compute. split; reflexivity. Qed.

Print Assumptions mod_step.
Print Assumptions frame_step_ok.
Print Assumptions op_step_ok.
Print Assumptions steps_general.
Print Assumptions C18_app_general.
Print Assumptions C18_app_judgement_sound.
Print Assumptions C18_app_judgement_transfer.
