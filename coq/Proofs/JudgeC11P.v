(* Link between the theorems of Proofs/CondP.v (conformance of the built-in conditions with their
   history-based specifications) and the executable judgement Check/C11c.v.

   (S) C11_judgement_sound    : the judgement accepts the model's own output on every case
   (T) C11_judgement_transfer : an output that [agree]s with the model is accepted as well.

   The judgement recomputes actuation ([act_spec]) and the tick ([tick_spec]) instead of calling
   the model's [obs]; actuation coincides exactly, the tick only up to Qeq (see
   [tick_not_leibniz_*]), so the specifications are shown to respect Qeq on ticks ([hist_eq]). *)
From BEI Require Import Model.Cond Spec.CondSpec Proofs.CondP Check.C11c.
Open Scope Q_scope.

(* ------------------------------------------------------------------------------------------ *)
(* first_fail                                                                                  *)
(* ------------------------------------------------------------------------------------------ *)
Lemma first_fail_all_true l : Forall (fun kb => snd kb = true) l -> first_fail l = 0%Z.
Proof.
  induction l as [|[k b] r IH]; intros HF; [reflexivity|].
  inversion HF as [|x l' Hb HF']; subst. cbn [snd] in Hb. subst b. cbn [first_fail]. apply IH. exact HF'.
Qed.
Lemma first_fail_zero l :
  Forall (fun kb => fst kb <> 0%Z) l -> (first_fail l = 0%Z <-> Forall (fun kb => snd kb = true) l).
Proof.
  intros Hk. split; [|apply first_fail_all_true].
  induction l as [|[k b] r IH]; intros H0; [constructor|].
  inversion Hk as [|x l' Hk1 Hk2]; subst. cbn [fst] in Hk1. cbn [first_fail] in H0. destruct b.
  - constructor; [reflexivity | apply IH; assumption].
  - contradiction.
Qed.

Lemma state_eqb_refl s : state_eqb s s = true.
Proof. destruct s; reflexivity. Qed.
Lemma state_eqb_eq a b : state_eqb a b = true -> a = b.
Proof. destruct a, b; cbv; congruence. Qed.
Lemma list_state_eqb_eq : forall l1 l2, list_eqb state_eqb l1 l2 = true -> l1 = l2.
Proof.
  induction l1 as [|x r IH]; intros [|y s] H; cbn [list_eqb] in H; try discriminate; [reflexivity|].
  apply andb_true_iff in H. destruct H as [H1 H2]. apply state_eqb_eq in H1. apply IH in H2. congruence.
Qed.

(* ------------------------------------------------------------------------------------------ *)
(* the judgement's observation against the model's                                              *)
(* ------------------------------------------------------------------------------------------ *)
Lemma act_spec_eq v a : act_spec v a = is_actuated v a.
Proof.
  unfold act_spec, is_actuated. apply qleb_proper.
  - unfold qabs. destruct (Qle_bool 0 a); ring.
  - destruct v as [b|x|x y|x y z]; cbn [axes map qsum as3 v3len2]; ring.
Qed.

Lemma tick_spec_eq rel real spd p : tick_spec rel real spd p == tick (mk_time real spd p) rel.
Proof.
  unfold tick_spec, tick, mk_time. cbn [vdelta speed]. destruct p, rel; try reflexivity.
  - destruct (qeqb spd 0); [reflexivity|]. unfold Qdiv. ring.
  - destruct (qeqb spd 0) eqn:E; [reflexivity|].
    assert (Hs : ~ spd == 0) by (intro H; apply Qeq_bool_iff in H; unfold qeqb in E; congruence).
    field. exact Hs.
Qed.

(* the coincidence of ticks is only up to Qeq: unreduced fractions on the model's side *)
Example tick_not_leibniz_paused :
  tick_spec false 1 2 true <> tick (mk_time 1 2 true) false /\
  tick_spec false 1 2 true == tick (mk_time 1 2 true) false.
Proof. split; [vm_compute; discriminate | apply tick_spec_eq]. Qed.
Example tick_not_leibniz_running :
  tick_spec false (1#10) 2 false <> tick (mk_time (1#10) 2 false) false /\
  tick_spec false (1#10) 2 false == tick (mk_time (1#10) 2 false) false.
Proof. split; [vm_compute; discriminate | apply tick_spec_eq]. Qed.

(* ------------------------------------------------------------------------------------------ *)
(* the specifications respect Qeq on ticks                                                      *)
(* ------------------------------------------------------------------------------------------ *)
Definition obs_eq (x y : bool * Q) : Prop := fst x = fst y /\ snd x == snd y.
Definition hist_eq (h1 h2 : hist) : Prop := Forall2 obs_eq h1 h2.

Lemma hist_eq_refl h : hist_eq h h.
Proof. induction h as [|x r IH]; constructor; [split; reflexivity | exact IH]. Qed.
Lemma hist_eq_tl h1 h2 : hist_eq h1 h2 -> hist_eq (tl h1) (tl h2).
Proof. intros H. destruct H; [constructor | assumption]. Qed.
Lemma hist_eq_act_now h1 h2 : hist_eq h1 h2 -> act_now h1 = act_now h2.
Proof. intros H. destruct H as [|[a1 t1] [a2 t2] r1 r2 [Ha _] _]; [reflexivity | exact Ha]. Qed.
Lemma hist_eq_act_prev h1 h2 : hist_eq h1 h2 -> act_prev h1 = act_prev h2.
Proof. intros H. unfold act_prev. apply hist_eq_act_now, hist_eq_tl, H. Qed.
Lemma hist_eq_tick_now h1 h2 : hist_eq h1 h2 -> tick_now h1 == tick_now h2.
Proof. intros H. destruct H as [|[a1 t1] [a2 t2] r1 r2 [_ Ht] _]; [reflexivity | exact Ht]. Qed.
Lemma hist_eq_held h1 h2 : hist_eq h1 h2 -> held h1 == held h2.
Proof.
  intros H. induction H as [|[a1 t1] [a2 t2] r1 r2 [Ha Ht] _ IH]; [reflexivity|].
  cbn [fst snd] in Ha, Ht. subst a2. cbn [held]. destruct a1; [|reflexivity]. rewrite Ht, IH. reflexivity.
Qed.
Lemma hist_eq_ready T h1 h2 : hist_eq h1 h2 -> ready T h1 = ready T h2.
Proof. intros H. unfold ready. apply qleb_proper; [reflexivity | apply hist_eq_held, H]. Qed.
Lemma pulse_due_proper iv lim os c x y : x == y -> pulse_due iv lim os c x = pulse_due iv lim os c y.
Proof. intros H. unfold pulse_due. f_equal. apply qleb_proper; [reflexivity | exact H]. Qed.
Lemma hist_eq_pulse_count iv lim os h1 h2 :
  hist_eq h1 h2 -> pulse_count iv lim os h1 = pulse_count iv lim os h2.
Proof.
  intros H. induction H as [|[a1 t1] [a2 t2] r1 r2 [Ha Ht] Hr IH]; [reflexivity|].
  cbn [fst snd] in Ha, Ht. subst a2. cbn [pulse_count]. destruct a1; [|reflexivity]. rewrite IH.
  assert (Hh : held ((true, t1) :: r1) == held ((true, t2) :: r2)).
  { apply hist_eq_held. constructor; [split; [reflexivity | exact Ht] | exact Hr]. }
  rewrite (pulse_due_proper iv lim os _ _ _ Hh). reflexivity.
Qed.

Definition spec_proper (spec : hist -> state) : Prop := forall h1 h2, hist_eq h1 h2 -> spec h1 = spec h2.

Lemma spec_press_proper : spec_proper spec_press.
Proof. intros h1 h2 H. unfold spec_press. rewrite (hist_eq_act_now _ _ H). reflexivity. Qed.
Lemma spec_just_press_proper : spec_proper spec_just_press.
Proof.
  intros h1 h2 H. unfold spec_just_press. rewrite (hist_eq_act_now _ _ H), (hist_eq_act_prev _ _ H). reflexivity.
Qed.
Lemma spec_release_proper : spec_proper spec_release.
Proof.
  intros h1 h2 H. unfold spec_release. rewrite (hist_eq_act_now _ _ H), (hist_eq_act_prev _ _ H). reflexivity.
Qed.
Lemma spec_hold_proper T os : spec_proper (spec_hold T os).
Proof.
  intros h1 h2 H. unfold spec_hold.
  rewrite (hist_eq_ready T _ _ H), (hist_eq_ready T _ _ (hist_eq_tl _ _ H)), (hist_eq_act_now _ _ H). reflexivity.
Qed.
Lemma spec_hold_and_release_proper T : spec_proper (spec_hold_and_release T).
Proof.
  intros h1 h2 H. unfold spec_hold_and_release.
  rewrite (hist_eq_act_now _ _ H), (hist_eq_act_prev _ _ H).
  rewrite (qleb_proper T T (held (tl h1) + tick_now h1) (held (tl h2) + tick_now h2) (Qeq_refl T)); [reflexivity|].
  rewrite (hist_eq_held _ _ (hist_eq_tl _ _ H)), (hist_eq_tick_now _ _ H). reflexivity.
Qed.
Lemma spec_tap_proper T : spec_proper (spec_tap T).
Proof.
  intros h1 h2 H. unfold spec_tap, qltb. fold (qleb T (held h1)). fold (qleb T (held h2)).
  rewrite (hist_eq_act_now _ _ H), (hist_eq_act_prev _ _ H).
  rewrite (qleb_proper _ _ T T (hist_eq_held _ _ (hist_eq_tl _ _ H)) (Qeq_refl T)).
  rewrite (qleb_proper T T _ _ (Qeq_refl T) (hist_eq_held _ _ H)). reflexivity.
Qed.
Lemma spec_pulse_proper iv lim os : spec_proper (spec_pulse iv lim os).
Proof.
  intros h1 h2 H. unfold spec_pulse.
  rewrite (hist_eq_act_now _ _ H), (hist_eq_pulse_count iv lim os _ _ (hist_eq_tl _ _ H)).
  rewrite (pulse_due_proper iv lim os _ _ _ (hist_eq_held _ _ H)). reflexivity.
Qed.

(* ------------------------------------------------------------------------------------------ *)
(* Tap conforms for every release time (CondP.tap_spec assumes 0 < T, which is not needed)      *)
(* ------------------------------------------------------------------------------------------ *)
Theorem tap_spec_any look T a rel h : conforms (spec_tap T) (obs a rel) look (c_tap T a rel) [] h.
Proof.
  apply conforms_by_inv with (Inv := tap_inv T a rel).
  - intros c rh v tm (t & -> & Hr & Hd). unfold obs. cbn [cond_eval].
    destruct (timer_update_dur tm t) as [R D]. rewrite Hr in D.
    destruct (is_actuated v a) eqn:A; cbn [fst snd].
    + assert (HD : t_dur (timer_update tm t) == held ((true, tick tm rel) :: rh)) by (simpl; rewrite D, Hd; ring).
      split.
      * unfold spec_tap. cbn [act_now act_prev tl negb]. rewrite !andb_false_r. cbn [andb].
        unfold qltb. fold (qleb T (held ((true, tick tm rel) :: rh))).
        rewrite (qleb_proper T T _ _ (Qeq_refl T) HD).
        destruct (qleb T (held ((true, tick tm rel) :: rh))); reflexivity.
      * exists (timer_update tm t). split; [reflexivity | split]; [congruence | exact HD].
    + split.
      * unfold spec_tap, act_prev. cbn [act_now tl negb timer_reset t_dur held andb]. rewrite andb_true_r.
        rewrite (qleb_proper (t_dur t) (held rh) T T Hd (Qeq_refl T)).
        destruct (act_now rh && qleb (held rh) T); [reflexivity|]. destruct (qleb T 0); reflexivity.
      * exists (timer_reset t). split; [reflexivity | split]; [simpl; exact Hr | reflexivity].
  - exists (timer_new rel). split; [reflexivity | split]; reflexivity.
Qed.

(* ------------------------------------------------------------------------------------------ *)
(* the generic step: conformance + Qeq-invariance + no_spurious => every clause holds           *)
(* ------------------------------------------------------------------------------------------ *)
Definition script (steps : list cstep_t) : list (value * time) :=
  map (fun st => match st with cstep v real spd p => (v, mk_time real spd p) end) steps.
Definition no_spurious (spec : hist -> state) : Prop :=
  forall rh, spec rh <> SNone -> act_now rh = true \/ act_prev rh = true.

Lemma obs_eq_step a rel v real spd p :
  obs_eq (obs a rel v (mk_time real spd p)) (act_spec v a, tick_spec rel real spd p).
Proof.
  unfold obs, obs_eq. cbn [fst snd]. split; [symmetry; apply act_spec_eq | symmetry; apply tick_spec_eq].
Qed.

(* clause 8 for an output that equals the specification of the judgement's history *)
Lemma clause8 spec rh : no_spurious spec ->
  implb (negb (state_eqb (spec rh) SNone)) (act_now rh || act_prev rh) = true.
Proof.
  intros Hn. destruct (spec rh) eqn:E; [reflexivity| |];
    (destruct (Hn rh) as [H|H]; [rewrite E; discriminate | rewrite H; reflexivity | rewrite H, orb_true_r; reflexivity]).
Qed.

Lemma ok_steps_sound k spec a rel : spec_proper spec -> no_spurious spec ->
  forall steps c rh rh', hist_eq rh rh' ->
    conforms spec (obs a rel) (fun _ => None) c rh (script steps) ->
    first_fail (ok_steps k spec a rel rh' steps (model_steps c steps)) = 0%Z.
Proof.
  intros Hp Hn. induction steps as [|[v real spd p] r IH]; intros c rh rh' He Hc; [reflexivity|].
  cbn [script map conforms] in Hc. fold (script r) in Hc. destruct Hc as [Hs Hc].
  cbn [model_steps]. destruct (cond_eval (fun _ => None) (mk_time real spd p) v c) as [c' s] eqn:E.
  cbn [fst snd] in Hs, Hc. cbn [ok_steps].
  set (rh2 := (act_spec v a, tick_spec rel real spd p) :: rh').
  assert (He2 : hist_eq (obs a rel v (mk_time real spd p) :: rh) rh2)
    by (constructor; [apply obs_eq_step | exact He]).
  assert (Hs2 : s = spec rh2) by (rewrite Hs; apply Hp; exact He2).
  cbn [first_fail]. rewrite Hs2 at 1. rewrite state_eqb_refl.
  rewrite Hs2 at 1. rewrite (clause8 spec rh2 Hn).
  apply (IH c' _ rh2 He2 Hc).
Qed.

(* ------------------------------------------------------------------------------------------ *)
(* well-formed cases                                                                            *)
(* ------------------------------------------------------------------------------------------ *)
(* c is one of the seven built-in conditions in its freshly constructed state.  Only Hold needs
   a constraint on its parameter: see [C11_judgement_sound_needs_hold_pos]. *)
Inductive fresh_builtin : cond -> Prop :=
| fb_press a : fresh_builtin (c_press a)
| fb_just_press a : fresh_builtin (c_just_press a)
| fb_release a : fresh_builtin (c_release a)
| fb_hold T os a rel : 0 < T -> fresh_builtin (c_hold T os a rel)
| fb_hold_and_release T a rel : fresh_builtin (c_hold_and_release T a rel)
| fb_tap T a rel : fresh_builtin (c_tap T a rel)
| fb_pulse iv lim os a rel : fresh_builtin (c_pulse iv lim os a rel).

(* the same with every time parameter positive, as the crate documents them *)
Inductive fresh_builtin_valid : cond -> Prop :=
| fv_press a : fresh_builtin_valid (c_press a)
| fv_just_press a : fresh_builtin_valid (c_just_press a)
| fv_release a : fresh_builtin_valid (c_release a)
| fv_hold T os a rel : 0 < T -> fresh_builtin_valid (c_hold T os a rel)
| fv_hold_and_release T a rel : 0 < T -> fresh_builtin_valid (c_hold_and_release T a rel)
| fv_tap T a rel : 0 < T -> fresh_builtin_valid (c_tap T a rel)
| fv_pulse iv lim os a rel : 0 < iv -> fresh_builtin_valid (c_pulse iv lim os a rel).
Lemma fresh_builtin_valid_fresh c : fresh_builtin_valid c -> fresh_builtin c.
Proof. intros H. destruct H; constructor; assumption. Qed.

Definition csteps_wf (steps : list cstep_t) : Prop :=
  Forall (fun st => match st with cstep v real spd p => 0 <= real /\ 0 <= spd end) steps.

(* ------------------------------------------------------------------------------------------ *)
(* (S) soundness                                                                                *)
(* ------------------------------------------------------------------------------------------ *)
Lemma or_introl_now (spec : hist -> state) :
  (forall rh, spec rh <> SNone -> act_now rh = true) -> no_spurious spec.
Proof. intros H rh Hs. left. apply H, Hs. Qed.

(* no hypothesis on the steps is needed: negative deltas and speeds are judged like the model *)
Theorem C11_sound_strong : forall c steps, fresh_builtin c ->
  C11c.ok (ucond c steps, rcond (C11c.model_steps c steps)) = 0%Z.
Proof.
  intros c steps Hf. destruct Hf as [a|a|a|T os a rel HT|T a rel|T a rel|iv lim os a rel];
    unfold ok; cbn [spec_of params c_press c_just_press c_release c_hold c_hold_and_release c_tap c_pulse
                    timer_new t_rel].
  - apply ok_steps_sound with (rh := []);
      [apply spec_press_proper | apply or_introl_now, no_spurious_edge | constructor | apply (press_spec _ a false)].
  - apply ok_steps_sound with (rh := []);
      [apply spec_just_press_proper | apply or_introl_now, no_spurious_edge | constructor
      | apply (just_press_spec _ a false)].
  - apply ok_steps_sound with (rh := []);
      [apply spec_release_proper | intros rh; apply no_spurious_edge | constructor | apply (release_spec _ a false)].
  - apply ok_steps_sound with (rh := []);
      [apply spec_hold_proper | apply or_introl_now; intros rh; apply no_spurious_hold, HT | constructor
      | apply (hold_spec _ T os a rel), HT].
  - apply ok_steps_sound with (rh := []);
      [apply spec_hold_and_release_proper | intros rh; apply no_spurious_har | constructor
      | apply (hold_and_release_spec _ T a rel)].
  - apply ok_steps_sound with (rh := []);
      [apply spec_tap_proper | intros rh; apply no_spurious_tap | constructor | apply (tap_spec_any _ T a rel)].
  - apply ok_steps_sound with (rh := []);
      [apply spec_pulse_proper | apply or_introl_now; intros rh; apply no_spurious_pulse | constructor
      | apply (pulse_spec _ iv lim os a rel)].
Qed.

Theorem C11_judgement_sound : forall c steps, fresh_builtin c -> csteps_wf steps ->
  C11c.ok (ucond c steps, rcond (C11c.model_steps c steps)) = 0%Z.
Proof. intros c steps Hf _. apply C11_sound_strong, Hf. Qed.

(* ------------------------------------------------------------------------------------------ *)
(* (T) transfer                                                                                 *)
(* ------------------------------------------------------------------------------------------ *)
(* states are compared exactly, so an agreeing output IS the model's output *)
Lemma agree_eq c steps o : C11c.agree (ucond c steps, o) = true -> o = rcond (C11c.model_steps c steps).
Proof.
  unfold agree. destruct o as [outs|]; [|discriminate]. intros H. apply list_state_eqb_eq in H. congruence.
Qed.
Lemma agree_model c steps : C11c.agree (ucond c steps, rcond (C11c.model_steps c steps)) = true.
Proof.
  unfold agree. induction (model_steps c steps) as [|s r IH]; [reflexivity|].
  cbn [list_eqb]. rewrite state_eqb_refl. exact IH.
Qed.

Theorem C11_transfer_strong : forall c steps o, fresh_builtin c ->
  C11c.agree (ucond c steps, o) = true -> C11c.ok (ucond c steps, o) = 0%Z.
Proof. intros c steps o Hf Ha. rewrite (agree_eq _ _ _ Ha). apply C11_sound_strong, Hf. Qed.

Theorem C11_judgement_transfer : forall c steps o, fresh_builtin c -> csteps_wf steps ->
  C11c.agree (ucond c steps, o) = true -> C11c.ok (ucond c steps, o) = 0%Z.
Proof. intros c steps o Hf _ Ha. apply C11_transfer_strong; assumption. Qed.

(* the statements with the documented parameter ranges *)
Corollary C11_judgement_sound_valid : forall c steps, fresh_builtin_valid c -> csteps_wf steps ->
  C11c.ok (ucond c steps, rcond (C11c.model_steps c steps)) = 0%Z.
Proof. intros c steps Hf _. apply C11_sound_strong, fresh_builtin_valid_fresh, Hf. Qed.
Corollary C11_judgement_transfer_valid : forall c steps o, fresh_builtin_valid c -> csteps_wf steps ->
  C11c.agree (ucond c steps, o) = true -> C11c.ok (ucond c steps, o) = 0%Z.
Proof. intros c steps o Hf _ Ha. apply C11_transfer_strong; [apply fresh_builtin_valid_fresh, Hf | exact Ha]. Qed.

(* ------------------------------------------------------------------------------------------ *)
(* the hypotheses are needed / satisfiable                                                      *)
(* ------------------------------------------------------------------------------------------ *)
(* Hold with hold_time 0: the model fires on an unactuated input, clause 8 (no_spurious) rejects *)
Example C11_judgement_sound_needs_hold_pos :
  let c := c_hold 0 false (1#2) false in
  let steps := [cstep (V1 0) (1#60) 1 false] in
  csteps_wf steps /\ ~ 0 < 0 /\ C11c.ok (ucond c steps, rcond (C11c.model_steps c steps)) = 8%Z.
Proof.
  cbn zeta. split; [|split].
  - repeat constructor; discriminate.
  - apply Qlt_irrefl.
  - vm_compute. reflexivity.
Qed.
Example C11_judgement_transfer_needs_hold_pos :
  let c := c_hold 0 false (1#2) false in
  let steps := [cstep (V1 0) (1#60) 1 false] in
  let o := rcond (C11c.model_steps c steps) in
  csteps_wf steps /\ C11c.agree (ucond c steps, o) = true /\ C11c.ok (ucond c steps, o) <> 0%Z.
Proof.
  cbn zeta. split; [|split].
  - repeat constructor; discriminate.
  - vm_compute. reflexivity.
  - vm_compute. discriminate.
Qed.
(* a condition that is not in its fresh state is rejected: the judgement starts from the empty history *)
Example C11_judgement_sound_needs_fresh :
  let c := CJustPress (1#2) true in
  let steps := [cstep (V1 1) (1#60) 1 false] in
  csteps_wf steps /\ C11c.ok (ucond c steps, rcond (C11c.model_steps c steps)) = 2%Z.
Proof. cbn zeta. split; [repeat constructor; discriminate | vm_compute; reflexivity]. Qed.
(* conditions other than the seven built-ins have no specification here *)
Example C11_judgement_sound_needs_builtin :
  C11c.ok (ucond (c_chord 0%Z) [], rcond (C11c.model_steps (c_chord 0%Z) [])) = 9%Z.
Proof. vm_compute. reflexivity. Qed.

(* a non-trivial case: Hold 1/2 s (real-time timer) at speed 2 with a pause in the middle, then
   a release; and a Pulse with relative speed *)
Definition demo_steps : list cstep_t :=
  [cstep (V1 1) (1#5) 2 false; cstep (V2 (3#5) (4#5)) (1#5) 2 true; cstep (V1 (-1)) (1#2) 2 false;
   cstep (VB true) (1#10) 2 false; cstep (V1 0) (1#10) 2 false; cstep (V3 0 0 1) (1#10) 0 false].
Example C11_judgement_sound_satisfiable :
  fresh_builtin (c_hold (1#2) true (1#2) false) /\ csteps_wf demo_steps /\
  C11c.model_steps (c_hold (1#2) true (1#2) false) demo_steps = [SOngoing; SOngoing; SOngoing; SFired; SNone; SOngoing] /\
  C11c.ok (ucond (c_hold (1#2) true (1#2) false) demo_steps,
           rcond (C11c.model_steps (c_hold (1#2) true (1#2) false) demo_steps)) = 0%Z.
Proof.
  split; [constructor; reflexivity|]. split; [repeat constructor; discriminate|].
  split; [vm_compute; reflexivity|]. apply C11_judgement_sound; [constructor; reflexivity | repeat constructor; discriminate].
Qed.
Example C11_judgement_transfer_satisfiable :
  let c := c_pulse (3#10) 3 false (-1#2) true in
  let o := rcond [SFired; SOngoing; SFired; SFired; SNone; SOngoing] in
  fresh_builtin c /\ csteps_wf demo_steps /\ C11c.agree (ucond c demo_steps, o) = true /\
  C11c.ok (ucond c demo_steps, o) = 0%Z.
Proof.
  cbn zeta. split; [constructor|]. split; [repeat constructor; discriminate|].
  assert (Ha : agree (ucond (c_pulse (3#10) 3 false (-1#2) true) demo_steps,
                      rcond [SFired; SOngoing; SFired; SFired; SNone; SOngoing]) = true) by (vm_compute; reflexivity).
  split; [exact Ha|]. apply C11_judgement_transfer; [constructor | repeat constructor; discriminate | exact Ha].
Qed.

Print Assumptions C11_sound_strong.
Print Assumptions C11_transfer_strong.
Print Assumptions C11_judgement_sound.
Print Assumptions C11_judgement_transfer.
Print Assumptions C11_judgement_sound_valid.
Print Assumptions C11_judgement_transfer_valid.
