From BEI Require Import Model.Action Spec.Events Spec.Law Proofs.ValueP Proofs.StateP Proofs.TrackerP.
Open Scope Z_scope.

Lemma lookup_store_same a d m : lookup a (store a d m) = Some d.
Proof.
  induction m as [|[k x] r IH]; simpl.
  - now rewrite Z.eqb_refl.
  - destruct (Z.eqb k a) eqn:E; simpl; rewrite E; [reflexivity | exact IH].
Qed.
Lemma lookup_store_other a b d m : a <> b -> lookup b (store a d m) = lookup b m.
Proof.
  intros Hab. induction m as [|[k x] r IH]; simpl.
  - destruct (Z.eqb a b) eqn:E; [apply Z.eqb_eq in E; congruence | reflexivity].
  - destruct (Z.eqb k a) eqn:E; simpl.
    + apply Z.eqb_eq in E. subst k. destruct (Z.eqb a b) eqn:E2; [apply Z.eqb_eq in E2; congruence | reflexivity].
    + destruct (Z.eqb k b); [reflexivity | exact IH].
Qed.

(* what one evaluation of an action stores and emits *)
Definition old_data (m : actions) (a : aid) : data :=
  match lookup a m with Some d => d | None => data_new (aid_dim a) end.
Definition action_result (m : actions) (tm : time) (recips : list entity) (ab : abind) (o : action_out) : Prop :=
  let a := ab_id ab in
  let d := old_data m a in
  exists (s : state) (v : value) (bl : bool),
    let d' := data_update (vdelta tm) d s v in
    vdim v = aid_dim a /\
    lookup a (o_actions o) = Some d' /\
    (forall b, b <> a -> lookup b (o_actions o) = lookup b m) /\
    o_events o = Some (if bl then [] else flat_map (fun k => map (mk_event a d' k) recips) (table (d_state d) s)).

Lemma action_update_result m tm r c dev recips ab :
  action_result m tm recips ab (action_update m tm r c dev recips ab).
Proof.
  unfold action_update, action_result, old_data.
  destruct (input_loop m tm r c dev (ab_id ab) _ (ab_inputs ab)) as [st inputs'].
  destruct (apply_mods m tm (t_value (l_tracker st)) (ab_mods ab)) as [[ms' v1] lg1].
  destruct (apply_conds m tm (with_value (l_tracker st) v1) (ab_conds ab)) as [[cs' tr] lg2].
  set (a := ab_id ab).
  set (d := match lookup a m with Some d => d | None => data_new (aid_dim a) end).
  exists (tracker_state tr), (convert (aid_dim a) (t_value tr)), (events_blocked tr).
  cbn [o_actions o_events]. split; [apply convert_dim|]. split; [apply lookup_store_same|].
  split; [intros b Hb; apply lookup_store_other; congruence|].
  destruct (events_blocked tr); [reflexivity|].
  rewrite emit_some.
  - destruct (data_update_fields (vdelta tm) d (tracker_state tr) (convert (aid_dim a) (t_value tr))) as (_ & _ & Ht).
    rewrite Ht. reflexivity.
  - destruct (data_update_fields (vdelta tm) d (tracker_state tr) (convert (aid_dim a) (t_value tr))) as (_ & Hv & _).
    rewrite Hv. apply convert_dim.
Qed.

(* evaluation of an action never panics (A::Output::as_output always gets the action's dimension) *)
Lemma action_update_no_panic m tm r c dev recips ab : o_events (action_update m tm r c dev recips ab) <> None.
Proof. destruct (action_update_result m tm r c dev recips ab) as (s & v & bl & _ & _ & _ & He). rewrite He. discriminate. Qed.

(* ---- C12: which conditions and modifiers run, in which order ---- *)
Definition ids_of {A} (l : list (Z * A)) : list Z := map fst l.
Definition log_id (x : logitem) : Z := match x with LCond i _ _ _ | LMod i _ _ _ => i end.

Lemma apply_mods_ids m tm v ms :
  let '(ms', _, lg) := apply_mods m tm v ms in map log_id lg = ids_of ms /\ ids_of ms' = ids_of ms.
Proof.
  revert v. induction ms as [|[id x] r IH]; intros v; simpl; [split; reflexivity|].
  destruct (modif_apply (look_of m) tm v x) as [x' v'].
  specialize (IH v'). destruct (apply_mods m tm v' r) as [[r' v''] lg]. destruct IH as [H1 H2].
  simpl. split; congruence.
Qed.
Lemma apply_conds_ids m tm t cs :
  let '(cs', _, lg) := apply_conds m tm t cs in map log_id lg = ids_of cs /\ ids_of cs' = ids_of cs.
Proof.
  revert t. induction cs as [|[id x] r IH]; intros t; simpl; [split; reflexivity|].
  destruct (cond_eval (look_of m) tm (t_value t) x) as [x' s].
  specialize (IH (apply_result t (cond_kind x) s)).
  destruct (apply_conds m tm (apply_result t (cond_kind x) s) r) as [[r' t'] lg]. destruct IH as [H1 H2].
  simpl. split; congruence.
Qed.

(* the ids an input contributes to the frame's invocation log, given whether it is skipped *)
Definition input_ids (skipped : bool) (b : ibind) : list Z :=
  if skipped then [] else ids_of (ib_mods b) ++ ids_of (ib_conds b).
Definition skipped (r : raw) (c : consumed) (dev : device) (b : ibind) : bool :=
  ib_ignored b && as_bool (reader_value r consumed_reset dev (ib_input b)).

Lemma input_step_ids m tm r c dev a st b :
  let '(st', b') := input_step m tm r c dev a st b in
  map log_id (l_log st') = map log_id (l_log st) ++ input_ids (skipped r c dev b) b /\
  ids_of (ib_mods b') = ids_of (ib_mods b) /\ ids_of (ib_conds b') = ids_of (ib_conds b) /\ ib_input b' = ib_input b.
Proof.
  unfold input_step, input_ids, skipped.
  destruct (ib_ignored b && as_bool (reader_value r consumed_reset dev (ib_input b))).
  - rewrite app_nil_r. repeat split.
  - pose proof (apply_mods_ids m tm (reader_value r c dev (ib_input b)) (ib_mods b)) as Hm.
    destruct (apply_mods m tm (reader_value r c dev (ib_input b)) (ib_mods b)) as [[ms' v'] lg1]. destruct Hm as [Hm1 Hm2].
    pose proof (apply_conds_ids m tm (tracker_new v') (ib_conds b)) as Hc.
    destruct (apply_conds m tm (tracker_new v') (ib_conds b)) as [[cs' cur] lg2]. destruct Hc as [Hc1 Hc2].
    assert (HL : map log_id (l_log st ++ lg1 ++ lg2) = map log_id (l_log st) ++ ids_of (ib_mods b) ++ ids_of (ib_conds b))
      by (rewrite !map_app; congruence).
    destruct (state_eqb (tracker_state cur) SNone); [cbn; repeat split; assumption|].
    destruct (state_cmp (tracker_state cur) (tracker_state (l_tracker st))); cbn; repeat split; assumption.
Qed.

Lemma input_loop_ids m tm r c dev a bs : forall st,
  let '(st', _) := input_loop m tm r c dev a st bs in
  map log_id (l_log st') = map log_id (l_log st) ++ concat (map (fun b => input_ids (skipped r c dev b) b) bs).
Proof.
  induction bs as [|b rest IH]; intros st; simpl.
  - now rewrite app_nil_r.
  - pose proof (input_step_ids m tm r c dev a st b) as Hs.
    destruct (input_step m tm r c dev a st b) as [st1 b']. destruct Hs as (Hs & _).
    specialize (IH st1). destruct (input_loop m tm r c dev a st1 rest) as [st2 rest'].
    rewrite IH, Hs, app_assoc. reflexivity.
Qed.

(* the ids one action contributes to a frame's invocation log: a function of the configuration and
   of which inputs are still suppressed, nothing else *)
Definition action_ids (r : raw) (c : consumed) (dev : device) (ab : abind) : list Z :=
  concat (map (fun b => input_ids (skipped r c dev b) b) (ab_inputs ab)) ++ ids_of (ab_mods ab) ++ ids_of (ab_conds ab).

Lemma action_update_ids m tm r c dev recips ab :
  map log_id (o_log (action_update m tm r c dev recips ab)) = action_ids r c dev ab.
Proof.
  unfold action_update, action_ids.
  pose proof (input_loop_ids m tm r c dev (ab_id ab) (ab_inputs ab)
                (mkLoop (tracker_new (vzero (aid_dim (ab_id ab)))) [] [])) as Hl.
  destruct (input_loop m tm r c dev (ab_id ab) _ (ab_inputs ab)) as [st inputs'].
  pose proof (apply_mods_ids m tm (t_value (l_tracker st)) (ab_mods ab)) as Hm.
  destruct (apply_mods m tm (t_value (l_tracker st)) (ab_mods ab)) as [[ms' v1] lg1]. destruct Hm as [Hm _].
  pose proof (apply_conds_ids m tm (with_value (l_tracker st) v1) (ab_conds ab)) as Hc.
  destruct (apply_conds m tm (with_value (l_tracker st) v1) (ab_conds ab)) as [[cs' tr] lg2]. destruct Hc as [Hc _].
  cbn [o_log]. rewrite !map_app, Hl, Hm, Hc. reflexivity.
Qed.
