(* C02 at world level, the OPERATIONS half: what one operation (spawn / insert / remove / despawn /
   rebuild) applied by Model/Frame.v apply_op does to the data the registry stores for ONE
   (context type c, entity e, action a) and which events it delivers to (e, a).
   Vocabulary: Proofs/TrackDefs.v. *)
From Coq Require Import Sorting.Permutation.
From BEI Require Import Model.Frame Spec.Events Spec.Episode Proofs.StateP Proofs.ActionP Proofs.EpisodeP
     Proofs.InstanceP Proofs.RegistryP Proofs.TrackDefs.
Open Scope Z_scope.

(* ================================================================================================ *)
(* 1. the events one (entity, action) receives                                                      *)
(* ================================================================================================ *)
Lemma ev_of_app e a l1 l2 : ev_of e a (l1 ++ l2) = ev_of e a l1 ++ ev_of e a l2.
Proof. unfold ev_of. apply filter_app. Qed.
Lemma ev_of_nil e a : ev_of e a [] = [].
Proof. reflexivity. Qed.

Lemma mk_event_target' a d k x : e_target (mk_event a d k x) = x.
Proof. destruct k; reflexivity. Qed.
Lemma mk_event_action a d k x : e_action (mk_event a d k x) = a.
Proof. destruct k; reflexivity. Qed.
Lemma mk_event_kind a d k x : e_kind (mk_event a d k x) = k.
Proof. destruct k; reflexivity. Qed.
Lemma mk_event_value a d k x : e_value (mk_event a d k x) = d_value d.
Proof. destruct k; reflexivity. Qed.
Lemma mk_event_state a d k x : e_state (mk_event a d k x) = d_state d.
Proof. destruct k; reflexivity. Qed.

(* one emission: [ks] flags, [recips] recipients *)
Definition burst (b : aid) (d : data) (ks : list evkind) (recips : list entity) : list event :=
  flat_map (fun k => map (mk_event b d k) recips) ks.

Lemma ev_of_map_other_action e a b d k recips : b <> a -> ev_of e a (map (mk_event b d k) recips) = [].
Proof.
  intros Hne. induction recips as [|x r IH]; cbn [map ev_of filter]; [reflexivity|].
  rewrite mk_event_action. replace (Z.eqb b a) with false by (symmetry; apply Z.eqb_neq; exact Hne).
  rewrite andb_false_r. exact IH.
Qed.
Lemma ev_of_map_notin e a b d k recips : ~ In e recips -> ev_of e a (map (mk_event b d k) recips) = [].
Proof.
  induction recips as [|x r IH]; intros Hn; cbn [map ev_of filter]; [reflexivity|].
  rewrite mk_event_target'. destruct (Z.eqb x e) eqn:E.
  - apply Z.eqb_eq in E. subst x. exfalso. apply Hn. left. reflexivity.
  - cbn [andb]. apply IH. intros H. apply Hn. right. exact H.
Qed.
Lemma ev_of_map_in e a d k recips : NoDup recips -> In e recips ->
  ev_of e a (map (mk_event a d k) recips) = [mk_event a d k e].
Proof.
  induction recips as [|x r IH]; intros Hnd Hin; [destruct Hin|]. cbn [map ev_of filter].
  inversion Hnd as [|? ? Hx Hr]; subst. rewrite mk_event_target', mk_event_action, Z.eqb_refl, andb_true_r.
  destruct (Z.eqb x e) eqn:E.
  - apply Z.eqb_eq in E. subst x. f_equal. apply (ev_of_map_notin e a a d k r). exact Hx.
  - destruct Hin as [->|Hin]; [rewrite Z.eqb_refl in E; discriminate|]. apply IH; assumption.
Qed.

Lemma ev_of_burst_other_action e a b d ks recips : b <> a -> ev_of e a (burst b d ks recips) = [].
Proof.
  intros Hne. unfold burst. induction ks as [|k ks IH]; cbn [flat_map]; [reflexivity|].
  rewrite ev_of_app, IH, (ev_of_map_other_action e a b d k recips Hne). reflexivity.
Qed.
Lemma ev_of_burst_notin e a b d ks recips : ~ In e recips -> ev_of e a (burst b d ks recips) = [].
Proof.
  intros Hn. unfold burst. induction ks as [|k ks IH]; cbn [flat_map]; [reflexivity|].
  rewrite ev_of_app, IH, (ev_of_map_notin e a b d k recips Hn). reflexivity.
Qed.
Lemma ev_of_burst_in e a d ks recips : NoDup recips -> In e recips ->
  ev_of e a (burst a d ks recips) = map (fun k => mk_event a d k e) ks.
Proof.
  intros Hnd Hin. unfold burst. induction ks as [|k ks IH]; cbn [flat_map map]; [reflexivity|].
  rewrite ev_of_app, IH, (ev_of_map_in e a d k recips Hnd Hin). reflexivity.
Qed.

(* ================================================================================================ *)
(* 2. trigger_removed                                                                               *)
(* ================================================================================================ *)
(* the copy of the data that trigger_removed sends through ActionData::update *)
Definition closed_data (tm : time) (b : aid) (d : data) : data := data_update (vdelta tm) d SNone (vzero (aid_dim b)).
(* what trigger_removed delivers for one binding *)
Definition removal_chunk (tm : time) (recips : list entity) (m : actions) (b : aid) : list event :=
  match lookup b m with
  | Some d => burst b (closed_data tm b d) (table (d_state d) SNone) recips
  | None => []
  end.

Lemma trigger_removed_fold tm recips m bs : forall acc evs,
  fold_left (fun acc b =>
    match acc, lookup (ab_id b) m with
    | Some evs, Some d =>
        let d' := data_update (vdelta tm) d SNone (vzero (aid_dim (ab_id b))) in
        match emit (aid_dim (ab_id b)) (ab_id b) d' recips with Some e => Some (evs ++ e) | None => None end
    | _, _ => None
    end) bs acc = Some evs ->
  exists acc0, acc = Some acc0 /\ evs = acc0 ++ flat_map (fun b => removal_chunk tm recips m (ab_id b)) bs.
Proof.
  induction bs as [|b bs IH]; intros acc evs; cbn [fold_left flat_map].
  - intros ->. exists evs. split; [reflexivity | rewrite app_nil_r; reflexivity].
  - intros H. destruct (IH _ _ H) as (acc1 & E1 & ->). clear IH H.
    destruct acc as [acc0|]; [|discriminate]. exists acc0. split; [reflexivity|].
    destruct (lookup (ab_id b) m) as [d|] eqn:El; [|discriminate]. cbv zeta in E1.
    destruct (removal_events (ab_id b) d (vdelta tm) recips (vdim_vzero _)) as (He & _). rewrite He in E1.
    injection E1 as <-. rewrite <- app_assoc. f_equal. f_equal. unfold removal_chunk. rewrite El. reflexivity.
Qed.

Lemma trigger_removed_chunks tm recips i evs : trigger_removed tm recips i = Some evs ->
  evs = flat_map (fun b => removal_chunk tm recips (in_actions i) (ab_id b)) (in_binds i).
Proof.
  unfold trigger_removed. intros H. destruct (trigger_removed_fold _ _ _ _ _ _ H) as (acc0 & [= <-] & ->). reflexivity.
Qed.

Lemma ev_of_chunks_notin e a tm recips m bs : ~ In e recips ->
  ev_of e a (flat_map (fun b => removal_chunk tm recips m (ab_id b)) bs) = [].
Proof.
  intros Hn. induction bs as [|b bs IH]; cbn [flat_map]; [reflexivity|]. rewrite ev_of_app, IH, app_nil_r.
  unfold removal_chunk. destruct (lookup (ab_id b) m); [apply ev_of_burst_notin; exact Hn | reflexivity].
Qed.
Lemma ev_of_chunks_unbound e a tm recips m bs : ~ In a (map ab_id bs) ->
  ev_of e a (flat_map (fun b => removal_chunk tm recips m (ab_id b)) bs) = [].
Proof.
  induction bs as [|b bs IH]; intros Hn; cbn [flat_map]; [reflexivity|]. cbn [map In] in Hn.
  rewrite ev_of_app, IH, app_nil_r by tauto.
  unfold removal_chunk. destruct (lookup (ab_id b) m); [apply ev_of_burst_other_action; tauto | reflexivity].
Qed.
Lemma ev_of_chunks_bound e a tm recips m bs : NoDup (map ab_id bs) -> In a (map ab_id bs) ->
  ev_of e a (flat_map (fun b => removal_chunk tm recips m (ab_id b)) bs) = ev_of e a (removal_chunk tm recips m a).
Proof.
  induction bs as [|b bs IH]; intros Hnd Hin; [destruct Hin|]. cbn [map flat_map] in *.
  inversion Hnd as [|? ? Hx Hr]; subst. rewrite ev_of_app. destruct (Z.eq_dec (ab_id b) a) as [E|E].
  - rewrite E in *. rewrite (ev_of_chunks_unbound e a tm recips m bs Hx), app_nil_r. reflexivity.
  - destruct Hin as [Hin|Hin]; [contradiction|]. rewrite (IH Hr Hin).
    unfold removal_chunk at 1. destruct (lookup (ab_id b) m); [rewrite ev_of_burst_other_action by exact E|]; reflexivity.
Qed.

(* the closing chunk of (e, a): the table of (stored state -> None) on the closed copy *)
Definition closing (tm : time) (e : entity) (a : aid) (d : data) : list event :=
  map (fun k => mk_event a (closed_data tm a d) k e) (table (d_state d) SNone).

Lemma closed_data_fields tm a d : d_state (closed_data tm a d) = SNone /\ d_value (closed_data tm a d) = vzero (aid_dim a).
Proof. unfold closed_data. destruct (data_update_fields (vdelta tm) d SNone (vzero (aid_dim a))) as (H1 & H2 & _). split; assumption. Qed.

Lemma veqb_refl_zero dm : veqb (vzero dm) (vzero dm) = true.
Proof. destruct dm; reflexivity. Qed.

Lemma closing_good tm e a d :
  close_chunk (acc_of (d_state d)) (kinds (closing tm e a d)) = true /\ closing_ok a (closing tm e a d) = true.
Proof.
  unfold closing, kinds, closing_ok. split.
  - rewrite map_map. erewrite map_ext; [|intros k; apply mk_event_kind]. rewrite map_id. apply close_chunk_table.
  - apply forallb_forall. intros ev Hev. apply in_map_iff in Hev. destruct Hev as (k & <- & _).
    destruct (closed_data_fields tm a d) as (Hs & Hv).
    rewrite mk_event_value, mk_event_state, Hs, Hv, veqb_refl_zero. reflexivity.
Qed.
Lemma closing_idle tm e a d : d_state d = SNone -> closing tm e a d = [].
Proof. intros H. unfold closing. rewrite H. reflexivity. Qed.

(* trigger_removed, seen by one (entity, action) *)
Lemma trigger_removed_ev_of tm recips i evs e a :
  trigger_removed tm recips i = Some evs -> NoDup recips -> NoDup (map ab_id (in_binds i)) ->
  ev_of e a evs =
  if memz e recips && memz a (map ab_id (in_binds i))
  then match lookup a (in_actions i) with Some d => closing tm e a d | None => [] end
  else [].
Proof.
  intros H Hr Hb. rewrite (trigger_removed_chunks _ _ _ _ H).
  destruct (memz e recips) eqn:Ee; cbn [andb].
  2:{ apply ev_of_chunks_notin. apply memz_false. exact Ee. }
  destruct (memz a (map ab_id (in_binds i))) eqn:Ea.
  2:{ apply ev_of_chunks_unbound. apply memz_false. exact Ea. }
  apply memz_in in Ee. apply memz_in in Ea. rewrite (ev_of_chunks_bound e a tm recips _ _ Hb Ea).
  unfold removal_chunk. destruct (lookup a (in_actions i)) as [d|]; [|reflexivity].
  apply ev_of_burst_in; assumption.
Qed.

(* ================================================================================================ *)
(* 3. instances built by context_instance(); consequences of cfg_inv                                *)
(* ================================================================================================ *)
Definition ids (i : inst) : list aid := map ab_id (in_binds i).

(* a freshly built instance: every action bound once, each with pristine data *)
Definition inst_fresh (i : inst) : Prop :=
  NoDup (ids i) /\ forall a, In a (ids i) -> lookup a (in_actions i) = Some (data_new (aid_dim a)).

Lemma bind_action_fresh i s : inst_fresh i -> inst_fresh (bind_action i s).
Proof.
  intros [Hnd Hl]. unfold inst_fresh, ids in *. unfold bind_action.
  pose proof (InstanceP.extend_ids s (in_binds i)) as H. destruct (extend s (in_binds i)) as [bs'|]; cbn [in_binds in_actions].
  - destruct H as [H1 _]. rewrite H1. split; assumption.
  - rewrite map_app. cbn [map ab_id]. split.
    + apply NoDup_snoc; [exact Hnd | apply memz_false; exact H].
    + intros a Ha. apply in_app_or in Ha. destruct (Z.eq_dec (a_id s) a) as [E|E].
      * rewrite E. apply lookup_store_same.
      * rewrite lookup_store_other by exact E. destruct Ha as [Ha|[Ha|[]]]; [apply Hl; exact Ha | contradiction].
Qed.
Lemma instantiate_fresh s : inst_fresh (instantiate s).
Proof.
  unfold instantiate. assert (H0 : inst_fresh (mkInst (i_pad s) [] [])) by (split; [constructor | intros a []]).
  revert H0. generalize (mkInst (i_pad s) [] []). induction (i_actions s) as [|x l IH]; intros i Hi; cbn [fold_left]; [exact Hi|].
  apply IH. apply bind_action_fresh. exact Hi.
Qed.
Lemma mk_inst_fresh sc c e : inst_fresh (mk_inst sc c e).
Proof. apply instantiate_fresh. Qed.

Lemma shape_ids i : ids i = map (fun x => fst (fst x)) (inst_shape i).
Proof. unfold ids, inst_shape. rewrite map_map. reflexivity. Qed.
Lemma from_cfg_ids sc c i : from_cfg sc c i -> exists e', ids i = ids (mk_inst sc c e').
Proof. intros (e' & H). exists e'. rewrite !shape_ids, H. reflexivity. Qed.
Lemma from_cfg_nodup sc c i : from_cfg sc c i -> NoDup (ids i).
Proof. intros H. destruct (from_cfg_ids sc c i H) as (e' & ->). apply mk_inst_fresh. Qed.
Lemma from_cfg_owner sc c a c' i : owner sc c a -> c' <> c -> from_cfg sc c' i -> ~ In a (ids i).
Proof. intros Ho Hne H. destruct (from_cfg_ids sc c' i H) as (e' & ->). apply Ho. exact Hne. Qed.
Lemma from_cfg_mk sc c e : from_cfg sc c (mk_inst sc c e).
Proof. exists e. reflexivity. Qed.

Definition gcfg (sc : scenario) (g : group) : Prop := Forall (from_cfg sc (g_ctx g)) (g_insts g).
Lemma cfg_inv_forall sc r : cfg_inv sc r <-> Forall (gcfg sc) r.
Proof. unfold cfg_inv, gcfg. rewrite Forall_forall. tauto. Qed.

Lemma group_get_insts e g i : group_get e g = Some i -> In i (g_insts g).
Proof.
  destruct g as [c p insts|c p ents i0]; cbn [group_get g_insts].
  - destruct (find (fun ei => Z.eqb (fst ei) e) insts) as [[x j]|] eqn:E; cbn; [|discriminate].
    intros [= <-]. apply find_some in E. destruct E as [E _]. apply in_map_iff. exists (x, j). split; [reflexivity | exact E].
  - destruct (existsb (Z.eqb e) ents); [|discriminate]. intros [= <-]. left. reflexivity.
Qed.
Lemma reg_get_group c e r i : reg_get c e r = Some i ->
  exists l1 g l2, r = l1 ++ g :: l2 /\ ~ In c (map g_ctx l1) /\ g_ctx g = c /\ group_get e g = Some i.
Proof.
  rewrite reg_get_unfold. destruct (index_of c r) as [n|] eqn:Ei; [|discriminate].
  destruct (index_of_some c r n Ei) as (l1 & g & l2 & -> & Hl & Hc & Hn). rewrite <- Hl, nth_error_mid.
  intros H. exists l1, g, l2. repeat split; assumption.
Qed.
Lemma cfg_inv_get sc r c e i : cfg_inv sc r -> reg_get c e r = Some i -> from_cfg sc c i.
Proof.
  intros Hc H. destruct (reg_get_group c e r i H) as (l1 & g & l2 & -> & _ & Hg & Hget).
  assert (Hin : In g (l1 ++ g :: l2)) by (apply in_or_app; right; left; reflexivity).
  specialize (Hc g Hin). rewrite Forall_forall in Hc. rewrite <- Hg. apply Hc. eapply group_get_insts; exact Hget.
Qed.

(* stored, unfolded *)
Lemma stored_some r c e a d : stored r c e a = Some d <->
  exists i, reg_get c e r = Some i /\ In a (ids i) /\ lookup a (in_actions i) = Some d.
Proof.
  unfold stored, ids. split.
  - destruct (reg_get c e r) as [i|]; [|discriminate]. destruct (memz a (map ab_id (in_binds i))) eqn:E; [|discriminate].
    intros H. exists i. split; [reflexivity|]. split; [apply memz_in; exact E | exact H].
  - intros (i & -> & Hin & Hl). apply memz_in in Hin. rewrite Hin. exact Hl.
Qed.
Lemma stored_get_eq r r' c e a : reg_get c e r' = reg_get c e r -> stored r' c e a = stored r c e a.
Proof. unfold stored. intros ->. reflexivity. Qed.
Lemma stored_get_none r c e a : reg_get c e r = None -> stored r c e a = None.
Proof. unfold stored. intros ->. reflexivity. Qed.
(* the data a fresh instance stores for a *)
Lemma stored_fresh r c e a i : reg_get c e r = Some i -> inst_fresh i ->
  stored r c e a = None \/ stored r c e a = Some (data_new (aid_dim a)).
Proof.
  intros Hg [_ Hl]. unfold stored. rewrite Hg. fold (ids i). destruct (memz a (ids i)) eqn:E; [|left; reflexivity].
  right. apply Hl. apply memz_in. exact E.
Qed.

(* ================================================================================================ *)
(* 4. ContextInstances::get after add                                                               *)
(* ================================================================================================ *)
Lemma find_app' {A} (p : A -> bool) l1 l2 :
  find p (l1 ++ l2) = match find p l1 with Some x => Some x | None => find p l2 end.
Proof. induction l1 as [|x l1 IH]; cbn [app find]; [reflexivity|]. destruct (p x); [reflexivity | exact IH]. Qed.

Lemma reg_get_find c e r :
  reg_get c e r = match find (fun g => Z.eqb (g_ctx g) c) r with Some g => group_get e g | None => None end.
Proof.
  rewrite reg_get_unfold. induction r as [|g r IH]; cbn [index_of find]; [reflexivity|].
  destruct (Z.eqb (g_ctx g) c); [reflexivity|].
  destruct (index_of c r) as [n|]; cbn [option_map nth_error]; exact IH.
Qed.

(* a group of another type does not matter *)
Lemma reg_get_mid_other c e l1 g l2 : g_ctx g <> c -> reg_get c e (l1 ++ g :: l2) = reg_get c e (l1 ++ l2).
Proof.
  intros Hne. rewrite !reg_get_find, !find_app'. cbn [find].
  replace (Z.eqb (g_ctx g) c) with false by (symmetry; apply Z.eqb_neq; exact Hne). reflexivity.
Qed.

Lemma group_get_add_other mk e' g x : x <> e' -> group_get x (add_ent mk e' g) = group_get x g.
Proof.
  intros Hne. destruct g as [c p insts|c p ents i]; cbn [add_ent group_get].
  - rewrite find_app'. destruct (find (fun ei => Z.eqb (fst ei) x) insts); [reflexivity|]. cbn [find fst].
    replace (Z.eqb e' x) with false by (symmetry; apply Z.eqb_neq; congruence). reflexivity.
  - rewrite existsb_app. cbn [existsb]. replace (Z.eqb x e') with false by (symmetry; apply Z.eqb_neq; exact Hne).
    rewrite !orb_false_r. reflexivity.
Qed.
Lemma group_get_new c e' i x : group_get x (new_group c e' i) = if Z.eqb x e' then Some i else None.
Proof.
  unfold new_group. destruct (ctx_shared c); cbn [group_get find fst existsb].
  - rewrite orb_false_r. reflexivity.
  - rewrite (Z.eqb_sym e' x). destruct (Z.eqb x e'); reflexivity.
Qed.

Lemma reg_add_get_other mk c' e' r c x : c' <> c -> reg_get c x (reg_add mk c' e' r) = reg_get c x r.
Proof.
  intros Hne. destruct (index_of c' r) as [n|] eqn:Ei.
  - destruct (index_of_some c' r n Ei) as (l1 & g & l2 & -> & Hl & Hc & Hn).
    rewrite (reg_add_old mk c' e' l1 g l2 Hn Hc).
    destruct (add_ent_fields mk e' g) as (F1 & _).
    rewrite !reg_get_mid_other by congruence. reflexivity.
  - rewrite (reg_add_new mk c' e' r Ei), insert_at_firstn_skipn.
    destruct (new_group_fields c' e' (mk e')) as (F1 & _).
    rewrite reg_get_mid_other by congruence. rewrite firstn_skipn. reflexivity.
Qed.
Lemma reg_add_get_same_other mk c e' r x : x <> e' -> reg_get c x (reg_add mk c e' r) = reg_get c x r.
Proof.
  intros Hne. destruct (index_of c r) as [n|] eqn:Ei.
  - destruct (index_of_some c r n Ei) as (l1 & g & l2 & -> & Hl & Hc & Hn).
    rewrite (reg_add_old mk c e' l1 g l2 Hn Hc).
    destruct (add_ent_fields mk e' g) as (F1 & _).
    rewrite !reg_get_found by (first [exact Hn | congruence]). apply group_get_add_other. exact Hne.
  - rewrite (reg_get_absent c x r) by (apply index_of_none; exact Ei).
    rewrite (reg_add_new mk c e' r Ei), insert_at_firstn_skipn.
    destruct (new_group_fields c e' (mk e')) as (F1 & _). apply index_of_none in Ei.
    rewrite reg_get_found; [| |exact F1].
    + rewrite group_get_new. replace (Z.eqb x e') with false by (symmetry; apply Z.eqb_neq; exact Hne). reflexivity.
    + intros H. apply Ei. rewrite <- (firstn_skipn (bsearch (ctx_prio c) r) r), map_app. apply in_or_app. left. exact H.
Qed.

(* the new holder: a fresh instance of its own, or the common instance of a shared group *)
Lemma reg_add_get_self mk c e r : reg_wf r -> ~ holds_in c e r ->
  reg_get c e (reg_add mk c e r) = Some (mk e) \/
  (ctx_shared c = true /\ exists e2 i, e2 <> e /\ reg_get c e2 r = Some i /\ reg_get c e (reg_add mk c e r) = Some i).
Proof.
  intros Hwf Hnh. destruct (index_of c r) as [n|] eqn:Ei; [|left; apply reg_add_fresh; exact Ei].
  destruct (index_of_some c r n Ei) as (l1 & g & l2 & -> & Hl & Hc & Hn).
  pose proof (reg_wf_group _ _ _ Hwf) as (G1 & G2 & G3 & G4 & G5).
  assert (Hne : ~ In e (g_ents g)).
  { intros H. apply Hnh. exists g. split; [apply in_or_app; right; left; reflexivity | split; assumption]. }
  rewrite (reg_add_old mk c e l1 g l2 Hn Hc).
  destruct (add_ent_fields mk e g) as (F1 & _).
  rewrite reg_get_found by (first [exact Hn | congruence]).
  destruct g as [c0 p insts|c0 p ents i]; cbn [add_ent group_get g_ents g_shared g_ctx] in *.
  - left. apply group_get_excl_snoc. exact Hne.
  - right. subst c0. split; [symmetry; exact G2|].
    destruct ents as [|e2 ents]; [congruence|]. exists e2, i.
    split; [intros ->; apply Hne; left; reflexivity|]. split.
    + rewrite reg_get_found by (first [exact Hn | reflexivity]). cbn [group_get existsb]. rewrite Z.eqb_refl. reflexivity.
    + rewrite existsb_app. cbn [existsb]. rewrite Z.eqb_refl, orb_true_r. reflexivity.
Qed.

Lemma cfg_inv_add sc c e r : cfg_inv sc r -> cfg_inv sc (reg_add (mk_inst sc c) c e r).
Proof.
  rewrite !cfg_inv_forall. intros H. destruct (index_of c r) as [n|] eqn:Ei.
  - destruct (index_of_some c r n Ei) as (l1 & g & l2 & -> & Hl & Hc & Hn).
    rewrite (reg_add_old _ c e l1 g l2 Hn Hc).
    apply Forall_app in H. destruct H as [H1 H2]. inversion H2 as [|? ? Hg H3]; subst.
    apply Forall_app. split; [exact H1|]. constructor; [|exact H3].
    destruct (add_ent_fields (mk_inst sc (g_ctx g)) e g) as (F1 & _ & _ & _ & F5).
    unfold gcfg in *. rewrite F1. rewrite Forall_forall in *. intros i Hi. apply F5 in Hi.
    destruct Hi as [<-|Hi]; [apply from_cfg_mk | apply Hg; exact Hi].
  - rewrite (reg_add_new _ c e r Ei), insert_at_firstn_skipn.
    rewrite <- (firstn_skipn (bsearch (ctx_prio c) r) r) in H. apply Forall_app in H. destruct H as [H1 H2].
    apply Forall_app. split; [exact H1|]. constructor; [|exact H2].
    destruct (new_group_fields c e (mk_inst sc c e)) as (F1 & _ & _ & _ & F5).
    unfold gcfg. rewrite F1, F5. constructor; [apply from_cfg_mk | constructor].
Qed.

(* ================================================================================================ *)
(* 5. OnAdd: insert_ctx and the fold of OSpawn                                                      *)
(* ================================================================================================ *)
(* how the instance seen by the new holder (c', e') arises *)
Definition joined (sc : scenario) (c' : ctx) (e' : entity) (r r' : registry) : Prop :=
  reg_get c' e' r' = reg_get c' e' r \/
  (reg_get c' e' r = None /\
   (reg_get c' e' r' = Some (mk_inst sc c' e') \/
    (ctx_shared c' = true /\ exists e2 i, e2 <> e' /\ reg_get c' e2 r = Some i /\ reg_get c' e' r' = Some i))).

Lemma insert_step sc w e' c' : reg_inv sc w -> cfg_inv sc (w_reg w) ->
  let o := insert_ctx sc w e' c' in
  oo_events o = [] /\ cfg_inv sc (w_reg (oo_world o)) /\
  (forall c x, c' <> c \/ x <> e' -> reg_get c x (w_reg (oo_world o)) = reg_get c x (w_reg w)) /\
  joined sc c' e' (w_reg w) (w_reg (oo_world o)).
Proof.
  intros Hinv Hcfg. unfold insert_ctx.
  assert (Hnoop : let o := mkOpOut w [] [] in
    oo_events o = [] /\ cfg_inv sc (w_reg (oo_world o)) /\
    (forall c x, c' <> c \/ x <> e' -> reg_get c x (w_reg (oo_world o)) = reg_get c x (w_reg w)) /\
    joined sc c' e' (w_reg w) (w_reg (oo_world o))).
  { cbn. split; [reflexivity|]. split; [exact Hcfg|]. split; [reflexivity | left; reflexivity]. }
  destruct (holds_of e' (w_holds w)) as [cs|] eqn:He; [|exact Hnoop].
  destruct (memz c' cs || negb (memz c' (s_menu sc))) eqn:Em; [exact Hnoop|]. clear Hnoop.
  apply orb_false_iff in Em. destruct Em as [Em1 Em2].
  apply reg_inv_alt in Hinv. destruct Hinv as (Hwf & Hm & _).
  assert (Hnh : ~ holds_in c' e' (w_reg w)).
  { intros H. apply Hm in H. destruct H as (cs' & H1 & H2). congruence. }
  cbn [oo_events oo_world w_reg]. split; [reflexivity|]. split; [apply cfg_inv_add; exact Hcfg|]. split.
  - intros c x [Hc|Hx].
    + apply reg_add_get_other. exact Hc.
    + destruct (Z.eq_dec c' c) as [<-|Hc]; [apply reg_add_get_same_other; exact Hx | apply reg_add_get_other; exact Hc].
  - right. split.
    + destruct (reg_get c' e' (w_reg w)) as [i|] eqn:Eg; [|reflexivity]. exfalso. apply Hnh.
      destruct Hwf as (_ & Hd & _). apply (reg_get_iff _ Hd). congruence.
    + apply reg_add_get_self; assumption.
Qed.

Lemma spawn_fold_step sc e' cs : forall acc, reg_inv sc (oo_world acc) -> cfg_inv sc (w_reg (oo_world acc)) ->
  let acc' := fold_left (fun acc c => let o := insert_ctx sc (oo_world acc) e' c in
                                     mkOpOut (oo_world o) (oo_events acc ++ oo_events o) (oo_built acc ++ oo_built o))
                        cs acc in
  oo_events acc' = oo_events acc /\ cfg_inv sc (w_reg (oo_world acc')) /\
  (forall c x, x <> e' -> reg_get c x (w_reg (oo_world acc')) = reg_get c x (w_reg (oo_world acc))) /\
  (forall c, joined sc c e' (w_reg (oo_world acc)) (w_reg (oo_world acc'))).
Proof.
  induction cs as [|c1 cs IH]; intros acc Hinv Hcfg; cbn [fold_left].
  - cbv zeta. split; [reflexivity|]. split; [exact Hcfg|]. split; [reflexivity | intros c; left; reflexivity].
  - destruct (insert_step sc (oo_world acc) e' c1 Hinv Hcfg) as (S1 & S2 & S3 & S4).
    pose proof (insert_ctx_inv sc (oo_world acc) e' c1 Hinv) as Hinv1.
    set (o := insert_ctx sc (oo_world acc) e' c1) in *. cbv zeta.
    set (acc1 := mkOpOut (oo_world o) (oo_events acc ++ oo_events o) (oo_built acc ++ oo_built o)).
    specialize (IH acc1 Hinv1 S2). cbv zeta in IH. destruct IH as (I1 & I2 & I3 & I4).
    split; [rewrite I1; unfold acc1; cbn [oo_events]; rewrite S1, app_nil_r; reflexivity|].
    split; [exact I2|]. split.
    + intros c x Hx. rewrite (I3 c x Hx). unfold acc1. cbn [oo_world]. apply S3. right. exact Hx.
    + intros c. specialize (I4 c). change (w_reg (oo_world acc1)) with (w_reg (oo_world o)) in I4. unfold joined in *.
      set (r := w_reg (oo_world acc)) in *. set (r1 := w_reg (oo_world o)) in *.
      match goal with |- context [fold_left ?f cs acc1] => set (r' := w_reg (oo_world (fold_left f cs acc1))) in * end.
      assert (Hstep : reg_get c e' r1 = reg_get c e' r \/ reg_get c e' r = None).
      { destruct (Z.eq_dec c1 c) as [<-|Hc]; [|left; apply S3; left; exact Hc]. destruct S4 as [S4|[S4 _]]; [left | right]; exact S4. }
      destruct I4 as [I4|(I4 & I5)].
      * rewrite I4. destruct (Z.eq_dec c1 c) as [<-|Hc]; [exact S4 | left; apply S3; left; exact Hc].
      * right. split; [destruct Hstep as [<-|Hs]; assumption|].
        destruct I5 as [I5|(Hsh & e2 & i & Hne & Hg & Hg')]; [left; exact I5|]. right. split; [exact Hsh|].
        exists e2, i. split; [exact Hne|]. split; [|exact Hg']. rewrite <- Hg. symmetry. apply S3. right. exact Hne.
Qed.

(* ================================================================================================ *)
(* 6. ContextInstances::remove                                                                      *)
(* ================================================================================================ *)
Lemma option_eq_iff {A} (o1 o2 : option A) : (forall j, o1 = Some j <-> o2 = Some j) -> o1 = o2.
Proof.
  intros H. destruct o1 as [x|], o2 as [y|]; try reflexivity.
  - apply H. reflexivity.
  - destruct (H x) as [H1 _]. discriminate (H1 eq_refl).
  - destruct (H y) as [_ H2]. discriminate (H2 eq_refl).
Qed.
Lemma bool_eq_iff (b1 b2 : bool) : (b1 = true <-> b2 = true) -> b1 = b2.
Proof. destruct b1, b2; intros [H1 H2]; try reflexivity; [symmetry; apply H1 | apply H2]; reflexivity. Qed.

(* exactly which instance is closed, and that everybody else keeps what they had *)
Lemma reg_remove_cases tm c e l1 g l2 r' oevs :
  ~ In c (map g_ctx l1) -> g_ctx g = c -> NoDup (g_ents g) ->
  reg_remove tm c e (l1 ++ g :: l2) = Some (r', oevs) ->
  exists i, group_get e g = Some i /\ oevs = trigger_removed tm [e] i /\
    ((r' = l1 ++ l2 /\ forall x, x <> e -> group_get x g = None) \/
     exists g', r' = l1 ++ g' :: l2 /\ g_ctx g' = c /\
                (forall x, x <> e -> group_get x g' = group_get x g) /\ incl (g_insts g') (g_insts g)).
Proof.
  intros Hn Hc Hnd. unfold reg_remove. rewrite (index_of_found c l1 g l2 Hn Hc), nth_error_mid.
  destruct g as [c0 p insts|c0 p ents i]; cbn [g_ctx g_ents g_insts group_get] in *; unfold entity in *.
  - destruct (position (fun ei : Z * inst => Z.eqb (fst ei) e) insts) as [k|] eqn:Ek; [|discriminate].
    destruct (position_some _ _ _ Ek) as ([x i'] & Hk & Hx). cbn [fst] in Hx. apply Z.eqb_eq in Hx. subst x. rewrite Hk.
    intros H. injection H as Hr Hev. exists i'. split.
    { apply find_fst_nodup; [exact Hnd | eapply nth_error_In; exact Hk]. }
    split; [symmetry; exact Hev|].
    pose proof (swap_remove_perm k insts (e, i') Hk) as P.
    destruct (swap_remove k insts) as [|q rest] eqn:Es.
    + left. split; [rewrite <- Hr; apply remove_at_app; reflexivity|].
      apply swap_remove_nil with (x := (e, i')) in Es; [|exact Hk]. rewrite Es. intros x Hne. cbn [find fst].
      replace (Z.eqb e x) with false by (symmetry; apply Z.eqb_neq; congruence). reflexivity.
    + right. exists (GExcl c0 p (q :: rest)). split; [rewrite <- Hr; rewrite update_at_app by reflexivity; reflexivity|].
      split; [exact Hc|]. cbn [group_get g_insts].
      assert (Hnd' : NoDup (map fst (q :: rest))).
      { pose proof (Permutation_map fst P) as P1. apply Permutation_sym in P1.
        pose proof (Permutation_NoDup P1 Hnd) as H. cbn [map fst] in H. inversion H; assumption. }
      split.
      * intros x Hne. apply option_eq_iff. intros j. rewrite (find_fst_nodup x j _ Hnd'), (find_fst_nodup x j _ Hnd). split.
        -- intros H. apply (Permutation_in _ P). right. exact H.
        -- intros H. apply (Permutation_in _ (Permutation_sym P)) in H. destruct H as [[= ? ?]|H]; [congruence | exact H].
      * intros y Hy. apply (Permutation_in _ (Permutation_map snd P)). right. exact Hy.
  - destruct (position (Z.eqb e) ents) as [k|] eqn:Ek; [|discriminate].
    destruct (position_some _ _ _ Ek) as (x & Hk & Hx). apply Z.eqb_eq in Hx. subst x.
    intros H. injection H as Hr Hev. exists i. split.
    { assert (Hm : memz e ents = true) by (apply memz_in; eapply nth_error_In; exact Hk). unfold memz in Hm. rewrite Hm. reflexivity. }
    split; [symmetry; exact Hev|].
    pose proof (swap_remove_perm k ents e Hk) as P.
    destruct (swap_remove k ents) as [|q rest] eqn:Es.
    + left. split; [rewrite <- Hr; apply remove_at_app; reflexivity|].
      apply swap_remove_nil with (x := e) in Es; [|exact Hk]. rewrite Es. intros x Hne. cbn [existsb].
      replace (Z.eqb x e) with false by (symmetry; apply Z.eqb_neq; exact Hne). reflexivity.
    + right. exists (GShared c0 p (q :: rest) i). split; [rewrite <- Hr; rewrite update_at_app by reflexivity; reflexivity|].
      split; [exact Hc|]. cbn [group_get g_insts]. split; [|intros y Hy; exact Hy].
      intros x Hne. replace (existsb (Z.eqb x) (q :: rest)) with (existsb (Z.eqb x) ents); [reflexivity|].
      apply bool_eq_iff. change (memz x ents = true <-> memz x (q :: rest) = true). rewrite !memz_in. split.
      * intros H. apply (Permutation_in _ (Permutation_sym P)) in H. destruct H as [H|H]; [congruence | exact H].
      * intros H. apply (Permutation_in _ P). right. exact H.
Qed.

Lemma reg_remove_track sc tm c' e' r r' evs :
  reg_wf r -> cfg_inv sc r -> holds_in c' e' r -> reg_remove tm c' e' r = Some (r', Some evs) ->
  cfg_inv sc r' /\
  (forall c x, c' <> c \/ x <> e' -> reg_get c x r' = reg_get c x r) /\
  exists i, reg_get c' e' r = Some i /\ trigger_removed tm [e'] i = Some evs.
Proof.
  intros Hwf Hcfg (g & Hin & Hc & He) Hrm. destruct Hwf as (Hs & Hd & Hf).
  destruct (reg_split r g Hd Hin) as (l1 & l2 & -> & Hn1 & Hn2). rewrite Hc in Hn1, Hn2.
  assert (Hwf : reg_wf (l1 ++ g :: l2)) by (split; [|split]; assumption).
  pose proof (reg_wf_group _ _ _ Hwf) as (G1 & G2 & G3 & G4 & G5).
  destruct (reg_remove_cases tm c' e' l1 g l2 r' (Some evs) Hn1 Hc G4 Hrm) as (i & Hg & Hev & Hcase).
  rewrite cfg_inv_forall in Hcfg. apply Forall_app in Hcfg. destruct Hcfg as [C1 C2]. inversion C2 as [|? ? Cg C3]; subst.
  assert (Hget : forall x, reg_get (g_ctx g) x (l1 ++ g :: l2) = group_get x g) by (intros x; apply reg_get_found; [exact Hn1 | reflexivity]).
  split; [|split].
  - rewrite cfg_inv_forall. destruct Hcase as [[-> _]|(g' & -> & F1 & _ & F3)].
    + apply Forall_app. split; assumption.
    + apply Forall_app. split; [exact C1|]. constructor; [|exact C3]. unfold gcfg in *. rewrite F1.
      rewrite Forall_forall in *. intros y Hy. apply Cg. apply F3. exact Hy.
  - intros c x Hor. destruct (Z.eq_dec (g_ctx g) c) as [<-|Hne].
    + destruct Hor as [Hor|Hx]; [congruence|]. rewrite Hget.
      destruct Hcase as [[-> Hnone]|(g' & -> & F1 & F2 & _)].
      * rewrite (Hnone x Hx). apply reg_get_absent. rewrite map_app. intros H. apply in_app_or in H. tauto.
      * rewrite reg_get_found by assumption. apply F2. exact Hx.
    + rewrite (reg_get_mid_other c x l1 g l2 Hne). destruct Hcase as [[-> _]|(g' & -> & F1 & _)]; [reflexivity|].
      apply reg_get_mid_other. congruence.
  - exists i. split; [rewrite Hget; exact Hg | symmetry; exact Hev].
Qed.

(* ================================================================================================ *)
(* 7. closing one instance, as seen by (c, e, a)                                                    *)
(* ================================================================================================ *)
(* the events (e, a) receives when an instance holding [od] for it is deactivated *)
Definition chunk_ok (a : aid) (od : option data) (evs : list event) : Prop :=
  match od with
  | None => evs = []
  | Some d => close_chunk (acc_of (d_state d)) (kinds evs) = true /\ closing_ok a evs = true
  end.
(* no instance, the action not bound, or pristine data *)
Definition closed (a : aid) (od : option data) : Prop := od = None \/ od = Some (data_new (aid_dim a)).

Lemma chunk_ok_closed a od evs : closed a od -> chunk_ok a od evs -> evs = [].
Proof.
  intros [->| ->]; cbn [chunk_ok]; [tauto|]. intros [H _]. cbn in H.
  destruct evs as [|ev evs]; [reflexivity|]. cbn in H. discriminate.
Qed.

Lemma removed_chunk sc r c e a i tm recips evs :
  reg_get c e r = Some i -> from_cfg sc c i -> trigger_removed tm recips i = Some evs ->
  NoDup recips -> In e recips -> chunk_ok a (stored r c e a) (ev_of e a evs).
Proof.
  intros Hg Hcfg Htr Hnd Hin. rewrite (trigger_removed_ev_of tm recips i evs e a Htr Hnd (from_cfg_nodup sc c i Hcfg)).
  apply memz_in in Hin. rewrite Hin. cbn [andb]. unfold stored. rewrite Hg.
  destruct (memz a (map ab_id (in_binds i))); [|reflexivity].
  destruct (lookup a (in_actions i)) as [d|]; [apply closing_good | reflexivity].
Qed.
Lemma removed_other_ctx sc c a c' i tm recips evs e :
  owner sc c a -> c' <> c -> from_cfg sc c' i -> trigger_removed tm recips i = Some evs -> ev_of e a evs = [].
Proof.
  intros Ho Hne Hcfg Htr. rewrite (trigger_removed_chunks _ _ _ _ Htr). apply ev_of_chunks_unbound.
  exact (from_cfg_owner sc c a c' i Ho Hne Hcfg).
Qed.
Lemma removed_other_ent tm recips i evs e a : trigger_removed tm recips i = Some evs -> ~ In e recips -> ev_of e a evs = [].
Proof. intros Htr Hn. rewrite (trigger_removed_chunks _ _ _ _ Htr). apply ev_of_chunks_notin. exact Hn. Qed.

Lemma mirror_none sc w c e : reg_inv sc w -> ~ holds (w_holds w) c e -> reg_get c e (w_reg w) = None.
Proof.
  intros (_ & _ & _ & Hm & _) Hn. destruct (reg_get c e (w_reg w)) as [i|] eqn:E; [|reflexivity].
  exfalso. apply Hn. apply Hm. congruence.
Qed.
Lemma mirror_some sc w c e i : reg_inv sc w -> reg_get c e (w_reg w) = Some i -> holds (w_holds w) c e.
Proof. intros (_ & _ & _ & Hm & _) H. apply Hm. congruence. Qed.

(* OnRemove of (c', e'), seen by (c, e, a) *)
Lemma remove_step sc c e a w e' c' o :
  reg_inv sc w -> cfg_inv sc (w_reg w) -> owner sc c a -> remove_ctx w e' c' = Some o ->
  reg_inv sc (oo_world o) /\ cfg_inv sc (w_reg (oo_world o)) /\
  (forall c0 x, c' <> c0 \/ x <> e' -> reg_get c0 x (w_reg (oo_world o)) = reg_get c0 x (w_reg w)) /\
  (if Z.eqb e e' && Z.eqb c c'
   then chunk_ok a (stored (w_reg w) c e a) (ev_of e a (oo_events o)) /\ reg_get c e (w_reg (oo_world o)) = None
   else ev_of e a (oo_events o) = []).
Proof.
  intros Hinv Hcfg Ho Hrm.
  destruct (remove_ctx_spec sc w e' c' Hinv) as (o' & Ho' & Hinv' & Hh'). rewrite Hrm in Ho'. injection Ho' as <-.
  split; [exact Hinv'|].
  assert (Hgone : Z.eqb e e' && Z.eqb c c' = true -> reg_get c e (w_reg (oo_world o)) = None).
  { intros E. apply andb_true_iff in E. destruct E as [E1 E2]. apply Z.eqb_eq in E1, E2. subst e' c'.
    apply (mirror_none sc _ c e Hinv'). intros H. apply Hh' in H. destruct H as [_ H]. apply H. split; reflexivity. }
  assert (Hnoop : ~ holds (w_holds w) c' e' -> o = mkOpOut w [] [] ->
    cfg_inv sc (w_reg (oo_world o)) /\
    (forall c0 x, c' <> c0 \/ x <> e' -> reg_get c0 x (w_reg (oo_world o)) = reg_get c0 x (w_reg w)) /\
    (if Z.eqb e e' && Z.eqb c c'
     then chunk_ok a (stored (w_reg w) c e a) (ev_of e a (oo_events o)) /\ reg_get c e (w_reg (oo_world o)) = None
     else ev_of e a (oo_events o) = [])).
  { intros Hnh Eo. destruct (Z.eqb e e' && Z.eqb c c') eqn:E.
    - specialize (Hgone eq_refl). subst o. cbn [oo_world oo_events] in *. split; [exact Hcfg|]. split; [reflexivity|].
      split; [|exact Hgone]. rewrite (stored_get_none _ _ _ _ Hgone). reflexivity.
    - subst o. cbn [oo_world oo_events]. split; [exact Hcfg|]. split; reflexivity. }
  unfold remove_ctx in Hrm. destruct (holds_of e' (w_holds w)) as [cs|] eqn:He.
  2:{ injection Hrm as <-. apply Hnoop; [|reflexivity]. intros (cs & H & _). congruence. }
  destruct (memz c' cs) eqn:Em; cbn [negb] in Hrm.
  2:{ injection Hrm as <-. apply Hnoop; [|reflexivity]. intros (cs' & H1 & H2). congruence. }
  clear Hnoop.
  destruct (reg_remove (w_time w) c' e' (w_reg w)) as [[r' [evs|]]|] eqn:Er; try discriminate. injection Hrm as <-.
  cbn [oo_world oo_events w_reg] in *.
  pose proof Hinv as Hinv0. apply reg_inv_alt in Hinv. destruct Hinv as (Hwf & Hm & _).
  assert (Hh : holds_in c' e' (w_reg w)) by (apply Hm; exists cs; split; assumption).
  destruct (reg_remove_track sc (w_time w) c' e' (w_reg w) r' evs Hwf Hcfg Hh Er) as (T1 & T2 & i & T3 & T4).
  split; [exact T1|]. split; [exact T2|].
  pose proof (cfg_inv_get sc _ _ _ _ Hcfg T3) as Hi.
  destruct (Z.eqb e e' && Z.eqb c c') eqn:E.
  - split; [|apply Hgone; reflexivity]. apply andb_true_iff in E. destruct E as [E1 E2]. apply Z.eqb_eq in E1, E2. subst e' c'.
    apply (removed_chunk sc _ c e a i (w_time w) [e] evs T3 Hi T4); [constructor; [intros [] | constructor] | left; reflexivity].
  - apply andb_false_iff in E. destruct E as [E|E]; apply Z.eqb_neq in E.
    + apply (removed_other_ent _ _ _ _ e a T4). intros [H|[]]. congruence.
    + apply (removed_other_ctx sc c a c' i (w_time w) [e'] evs e Ho); [congruence | exact Hi | exact T4].
Qed.

(* ================================================================================================ *)
(* 8. sequences of sub-operations: before and after the instance of (c, e) is closed                *)
(* ================================================================================================ *)
Section Phases.
  Variables (c : ctx) (e : entity) (a : aid) (od0 : option data).
  (* not closed yet: nothing delivered, the data untouched *)
  Definition Pre (evs : list event) (r : registry) : Prop := ev_of e a evs = [] /\ stored r c e a = od0.
  (* closed: the closing chunk of the original data delivered, what is stored now is pristine *)
  Definition Post (evs : list event) (r : registry) : Prop := chunk_ok a od0 (ev_of e a evs) /\ closed a (stored r c e a).

  Lemma neutral_pre acc r evs r' : Pre acc r -> ev_of e a evs = [] -> stored r' c e a = stored r c e a -> Pre (acc ++ evs) r'.
  Proof. intros [H1 H2] He Hs. split; [rewrite ev_of_app, H1, He; reflexivity | congruence]. Qed.
  Lemma neutral_post acc r evs r' : Post acc r -> ev_of e a evs = [] -> stored r' c e a = stored r c e a -> Post (acc ++ evs) r'.
  Proof. intros [H1 H2] He Hs. split; [rewrite ev_of_app, He, app_nil_r; exact H1 | rewrite Hs; exact H2]. Qed.
  Lemma closing_pre acc r evs r' :
    Pre acc r -> chunk_ok a (stored r c e a) (ev_of e a evs) -> closed a (stored r' c e a) -> Post (acc ++ evs) r'.
  Proof. intros [H1 H2] He Hs. split; [rewrite ev_of_app, H1; cbn [app]; rewrite <- H2; exact He | exact Hs]. Qed.
  Lemma closing_post acc r evs r' :
    Post acc r -> chunk_ok a (stored r c e a) (ev_of e a evs) -> closed a (stored r' c e a) -> Post (acc ++ evs) r'.
  Proof.
    intros [H1 H2] He Hs. split; [|exact Hs]. rewrite ev_of_app, (chunk_ok_closed a _ _ H2 He), app_nil_r. exact H1.
  Qed.
End Phases.

Definition despawn_f (e' : entity) := fun (acc : option op_out) (c : ctx) =>
  match acc with
  | Some a => match remove_ctx (oo_world a) e' c with
              | Some o => Some (mkOpOut (oo_world o) (oo_events a ++ oo_events o) [])
              | None => None
              end
  | None => None
  end.
Lemma despawn_f_none e' cs : fold_left (despawn_f e') cs None = None.
Proof. induction cs as [|x cs IH]; cbn [fold_left despawn_f]; [reflexivity | exact IH]. Qed.

Lemma despawn_fold_track sc c e a od0 e' : owner sc c a -> forall cs acc acc',
  reg_inv sc (oo_world acc) -> cfg_inv sc (w_reg (oo_world acc)) ->
  fold_left (despawn_f e') cs (Some acc) = Some acc' ->
  cfg_inv sc (w_reg (oo_world acc')) /\
  (forall c0 x, x <> e' -> reg_get c0 x (w_reg (oo_world acc')) = reg_get c0 x (w_reg (oo_world acc))) /\
  (e' <> e -> Pre c e a od0 (oo_events acc) (w_reg (oo_world acc)) -> Pre c e a od0 (oo_events acc') (w_reg (oo_world acc'))) /\
  (e' = e ->
     (Pre c e a od0 (oo_events acc) (w_reg (oo_world acc)) ->
        (In c cs -> Post c e a od0 (oo_events acc') (w_reg (oo_world acc'))) /\
        (~ In c cs -> Pre c e a od0 (oo_events acc') (w_reg (oo_world acc')))) /\
     (Post c e a od0 (oo_events acc) (w_reg (oo_world acc)) -> Post c e a od0 (oo_events acc') (w_reg (oo_world acc')))).
Proof.
  intros Ho. induction cs as [|c1 cs IH]; intros acc acc' Hinv Hcfg Hf; cbn [fold_left] in Hf.
  - injection Hf as <-. split; [exact Hcfg|]. split; [reflexivity|]. split; [tauto|]. intros _. split; [|tauto].
    intros H. split; [intros [] | intros _; exact H].
  - cbn [despawn_f] in Hf. destruct (remove_ctx (oo_world acc) e' c1) as [o|] eqn:Er; [|rewrite despawn_f_none in Hf; discriminate].
    destruct (remove_step sc c e a (oo_world acc) e' c1 o Hinv Hcfg Ho Er) as (S1 & S2 & S3 & S4).
    set (acc1 := mkOpOut (oo_world o) (oo_events acc ++ oo_events o) []) in *.
    destruct (IH acc1 acc' S1 S2 Hf) as (I1 & I2 & I3 & I4). clear IH Hf.
    change (oo_world acc1) with (oo_world o) in *. change (oo_events acc1) with (oo_events acc ++ oo_events o) in *.
    split; [exact I1|]. split; [|split].
    + intros c0 x Hx. rewrite (I2 c0 x Hx). apply S3. right. exact Hx.
    + intros Hne Hpre. apply (I3 Hne). replace (Z.eqb e e') with false in S4 by (symmetry; apply Z.eqb_neq; congruence).
      cbn [andb] in S4. apply (neutral_pre c e a od0 _ _ _ _ Hpre S4). apply stored_get_eq. apply S3. right. congruence.
    + intros ->. specialize (I4 eq_refl). destruct I4 as [I4 I5]. rewrite Z.eqb_refl in S4. cbn [andb] in S4.
      destruct (Z.eqb c c1) eqn:Ec.
      * apply Z.eqb_eq in Ec. subst c1. destruct S4 as [S4 S5].
        assert (Hcl : closed a (stored (w_reg (oo_world o)) c e a)) by (left; apply stored_get_none; exact S5).
        split.
        -- intros Hpre. split; [intros _ | intros Hn; exfalso; apply Hn; left; reflexivity].
           apply I5. exact (closing_pre c e a od0 _ _ _ _ Hpre S4 Hcl).
        -- intros Hpost. apply I5. exact (closing_post c e a od0 _ _ _ _ Hpost S4 Hcl).
      * apply Z.eqb_neq in Ec.
        assert (Hs : stored (w_reg (oo_world o)) c e a = stored (w_reg (oo_world acc)) c e a).
        { apply stored_get_eq. apply S3. left. congruence. }
        split.
        -- intros Hpre. pose proof (neutral_pre c e a od0 _ _ _ _ Hpre S4 Hs) as Hpre1. destruct (I4 Hpre1) as [J1 J2].
           split; [intros [Hin|Hin]; [congruence | exact (J1 Hin)] | intros Hn; apply J2; intros Hin; apply Hn; right; exact Hin].
        -- intros Hpost. apply I5. exact (neutral_post c e a od0 _ _ _ _ Hpost S4 Hs).
Qed.

(* ================================================================================================ *)
(* 9. ContextInstances::rebuild for one context type                                                *)
(* ================================================================================================ *)
(* what (e, a) receives when instance i is closed *)
Definition sel (tm : time) (e : entity) (a : aid) (i : inst) : list event :=
  if memz a (ids i) then match lookup a (in_actions i) with Some d => closing tm e a d | None => [] end else [].

Lemma trigger_removed_sel tm recips i evs e a :
  trigger_removed tm recips i = Some evs -> NoDup recips -> NoDup (ids i) -> In e recips -> ev_of e a evs = sel tm e a i.
Proof.
  intros H Hr Hb Hin. rewrite (trigger_removed_ev_of tm recips i evs e a H Hr Hb).
  apply memz_in in Hin. rewrite Hin. reflexivity.
Qed.
Lemma sel_chunk_ok tm e a (oi : option inst) :
  chunk_ok a (match oi with Some i => if memz a (map ab_id (in_binds i)) then lookup a (in_actions i) else None | None => None end)
             (match oi with Some i => sel tm e a i | None => [] end).
Proof.
  destruct oi as [i|]; [|reflexivity]. unfold sel, ids. destruct (memz a (map ab_id (in_binds i))); [|reflexivity].
  destruct (lookup a (in_actions i)) as [d|]; [apply closing_good | reflexivity].
Qed.
Lemma sel_unbound tm e a i : ~ In a (ids i) -> sel tm e a i = [].
Proof. intros H. unfold sel. apply memz_false in H. rewrite H. reflexivity. Qed.

Definition regroup (mk : entity -> inst) (g : group) : group :=
  match g with
  | GExcl c p insts => GExcl c p (map (fun ei => (fst ei, mk (fst ei))) insts)
  | GShared c p ents i => GShared c p ents (mk (hd 0 ents))
  end.
Definition regroup_events (tm : time) (g : group) : option (list event) :=
  match g with
  | GExcl _ _ insts => fold_left (fun acc ei => cat_ev acc (trigger_removed tm [fst ei] (snd ei))) insts (Some [])
  | GShared _ _ ents i => trigger_removed tm ents i
  end.

Lemma reg_rebuild_form mk tm c' l1 g l2 r' oevs :
  ~ In c' (map g_ctx l1) -> g_ctx g = c' -> g_ents g <> [] ->
  reg_rebuild mk tm c' (l1 ++ g :: l2) = Some (r', oevs) ->
  r' = l1 ++ regroup mk g :: l2 /\ oevs = regroup_events tm g.
Proof.
  intros Hn Hc Hne. unfold reg_rebuild. rewrite (index_of_found c' l1 g l2 Hn Hc), nth_error_mid.
  destruct g as [c0 p insts|c0 p ents i]; cbn [g_ents regroup regroup_events] in *.
  - intros H. injection H as <- <-. rewrite update_at_app by reflexivity. split; reflexivity.
  - destruct ents as [|e0 ents]; [congruence|]. intros H. injection H as <- <-. rewrite update_at_app by reflexivity.
    split; reflexivity.
Qed.
Lemma reg_rebuild_absent mk tm c' r : index_of c' r = None -> reg_rebuild mk tm c' r = Some (r, Some []).
Proof. intros H. unfold reg_rebuild. rewrite H. reflexivity. Qed.

Lemma regroup_fields mk g : g_ctx (regroup mk g) = g_ctx g /\ g_ents (regroup mk g) = g_ents g.
Proof.
  destruct g as [c p insts|c p ents i]; cbn [regroup g_ctx g_ents]; split; try reflexivity.
  rewrite map_map. apply map_ext. reflexivity.
Qed.
Lemma regroup_insts mk g i : In i (g_insts (regroup mk g)) -> exists e0, i = mk e0.
Proof.
  destruct g as [c p insts|c p ents i0]; cbn [regroup g_insts].
  - rewrite map_map. intros H. apply in_map_iff in H. destruct H as (ei & <- & _). eexists; reflexivity.
  - intros [<-|[]]. eexists; reflexivity.
Qed.
(* the holders stay, each now sees an instance fresh from context_instance() *)
Lemma regroup_get mk g x :
  (group_get x (regroup mk g) = None /\ group_get x g = None) \/
  (exists e0, group_get x (regroup mk g) = Some (mk e0)) /\ group_get x g <> None.
Proof.
  destruct g as [c p insts|c p ents i]; cbn [regroup group_get].
  - induction insts as [|[y j] insts IH]; cbn [map find fst]; [left; split; reflexivity|].
    destruct (Z.eqb y x); [|exact IH]. right. cbn [option_map snd]. split; [eexists; reflexivity | discriminate].
  - destruct (existsb (Z.eqb x) ents); [right; split; [eexists; reflexivity | discriminate] | left; split; reflexivity].
Qed.

Lemma fold_cat_ev_none {B} (f : B -> option (list event)) l : fold_left (fun acc x => cat_ev acc (f x)) l None = None.
Proof. induction l as [|x l IH]; cbn [fold_left cat_ev]; [reflexivity | exact IH]. Qed.

Lemma excl_rebuild_events tm e a insts : NoDup (map fst insts) -> Forall (fun i => NoDup (ids i)) (map snd insts) ->
  forall acc evs,
  fold_left (fun acc ei => cat_ev acc (trigger_removed tm [fst ei] (snd ei))) insts (Some acc) = Some evs ->
  exists rest, evs = acc ++ rest /\
    ev_of e a rest = match option_map snd (find (fun ei => Z.eqb (fst ei) e) insts) with Some i => sel tm e a i | None => [] end.
Proof.
  induction insts as [|[x i] insts IH]; intros Hnd Hids acc evs H; cbn [fold_left] in H.
  - injection H as <-. exists []. split; [rewrite app_nil_r; reflexivity | reflexivity].
  - cbn [map fst snd] in *. inversion Hnd as [|? ? Hx Hnd']; subst. inversion Hids as [|? ? Hi Hids']; subst.
    destruct (trigger_removed tm [x] i) as [ev1|] eqn:Et; cbn [cat_ev] in H; [|rewrite fold_cat_ev_none in H; discriminate].
    destruct (IH Hnd' Hids' _ _ H) as (rest & -> & Hrest). exists (ev1 ++ rest). split; [rewrite app_assoc; reflexivity|].
    rewrite ev_of_app, Hrest. cbn [find fst]. destruct (Z.eqb x e) eqn:E.
    + apply Z.eqb_eq in E. subst x.
      rewrite (trigger_removed_sel tm [e] i ev1 e a Et); [| constructor; [intros [] | constructor] | exact Hi | left; reflexivity].
      assert (Hnone : option_map snd (find (fun ei : entity * inst => Z.eqb (fst ei) e) insts) = None).
      { destruct (option_map snd (find (fun ei : entity * inst => Z.eqb (fst ei) e) insts)) eqn:Ef; [|reflexivity].
        exfalso. apply Hx. apply (proj1 (find_fst_in e insts)). unfold entity in *. rewrite Ef. discriminate. }
      unfold entity in *. rewrite Hnone, app_nil_r. reflexivity.
    + apply Z.eqb_neq in E. rewrite (removed_other_ent tm [x] i ev1 e a Et); [reflexivity|]. intros [H1|[]]. congruence.
Qed.

Lemma regroup_events_sel tm e a g evs :
  regroup_events tm g = Some evs -> NoDup (g_ents g) -> Forall (fun i => NoDup (ids i)) (g_insts g) ->
  ev_of e a evs = match group_get e g with Some i => sel tm e a i | None => [] end.
Proof.
  destruct g as [c p insts|c p ents i]; cbn [regroup_events g_ents g_insts group_get]; intros H Hnd Hids.
  - destruct (excl_rebuild_events tm e a insts Hnd Hids [] evs H) as (rest & -> & Hrest). exact Hrest.
  - inversion Hids as [|? ? Hi _]; subst. destruct (existsb (Z.eqb e) ents) eqn:Ee.
    + apply (trigger_removed_sel tm ents i evs e a H Hnd Hi). apply memz_in. exact Ee.
    + apply (removed_other_ent tm ents i evs e a H). apply memz_false. exact Ee.
Qed.

(* rebuild of context type c', seen by (c, e, a) *)
Lemma rebuild_step sc c e a tm c' r r' evs :
  reg_wf r -> cfg_inv sc r -> owner sc c a -> reg_rebuild (mk_inst sc c') tm c' r = Some (r', Some evs) ->
  cfg_inv sc r' /\
  (forall c0 x, c0 <> c' -> reg_get c0 x r' = reg_get c0 x r) /\
  (forall x i, reg_get c' x r' = Some i -> (exists e0, i = mk_inst sc c' e0) /\ reg_get c' x r <> None) /\
  (c' <> c -> ev_of e a evs = []) /\
  (c' = c -> chunk_ok a (stored r c e a) (ev_of e a evs) /\ closed a (stored r' c e a)).
Proof.
  intros Hwf Hcfg Ho Hrb. destruct (index_of c' r) as [n|] eqn:Ei.
  2:{ rewrite (reg_rebuild_absent _ _ _ _ Ei) in Hrb. injection Hrb as <- <-.
      assert (Hnone : forall x, reg_get c' x r = None) by (intros x; apply reg_get_absent; apply index_of_none; exact Ei).
      split; [exact Hcfg|]. split; [reflexivity|]. split; [intros x i H; rewrite Hnone in H; discriminate|].
      split; [reflexivity|]. intros ->. rewrite (stored_get_none _ _ _ _ (Hnone e)). split; [reflexivity | left; reflexivity]. }
  destruct (index_of_some c' r n Ei) as (l1 & g & l2 & -> & Hl & Hc & Hn).
  pose proof (reg_wf_group _ _ _ Hwf) as (G1 & G2 & G3 & G4 & G5).
  destruct (reg_rebuild_form _ _ _ _ _ _ _ _ Hn Hc G3 Hrb) as (-> & Hev). symmetry in Hev.
  destruct (regroup_fields (mk_inst sc c') g) as (F1 & F2).
  rewrite cfg_inv_forall in Hcfg. apply Forall_app in Hcfg. destruct Hcfg as [C1 C2]. inversion C2 as [|? ? Cg C3]; subst.
  assert (Hids : Forall (fun i => NoDup (ids i)) (g_insts g)).
  { unfold gcfg in Cg. eapply Forall_impl; [|exact Cg]. intros i Hi. eapply from_cfg_nodup; exact Hi. }
  pose proof (regroup_events_sel tm e a g evs Hev G4 Hids) as Hsel.
  assert (Hget : forall x, reg_get (g_ctx g) x (l1 ++ g :: l2) = group_get x g) by (intros x; apply reg_get_found; [exact Hn | reflexivity]).
  assert (Hget' : forall x, reg_get (g_ctx g) x (l1 ++ regroup (mk_inst sc (g_ctx g)) g :: l2) = group_get x (regroup (mk_inst sc (g_ctx g)) g))
    by (intros x; apply reg_get_found; [exact Hn | exact F1]).
  split; [|split; [|split; [|split]]].
  - rewrite cfg_inv_forall. apply Forall_app. split; [exact C1|]. constructor; [|exact C3].
    unfold gcfg. rewrite F1. apply Forall_forall. intros i Hi. destruct (regroup_insts _ _ _ Hi) as (e0 & ->). apply from_cfg_mk.
  - intros c0 x Hne. rewrite !reg_get_mid_other by congruence. reflexivity.
  - intros x i. rewrite Hget, Hget'. intros H.
    destruct (regroup_get (mk_inst sc (g_ctx g)) g x) as [[R1 R2]|[(e0 & R1) R2]]; [congruence|].
    split; [exists e0; congruence | exact R2].
  - intros Hne. rewrite Hsel. destruct (group_get e g) as [i|] eqn:Eg; [|reflexivity]. apply sel_unbound.
    apply (from_cfg_owner sc c a (g_ctx g) i Ho Hne). unfold gcfg in Cg. rewrite Forall_forall in Cg. apply Cg.
    eapply group_get_insts; exact Eg.
  - intros <-. split.
    + rewrite Hsel. unfold stored. rewrite Hget. apply sel_chunk_ok.
    + destruct (regroup_get (mk_inst sc (g_ctx g)) g e) as [[R1 R2]|[(e0 & R1) R2]].
      * left. apply stored_get_none. rewrite Hget'. exact R1.
      * apply (stored_fresh _ _ _ _ (mk_inst sc (g_ctx g) e0)); [rewrite Hget'; exact R1 | apply mk_inst_fresh].
Qed.

(* ================================================================================================ *)
(* 10. ORebuild: one observer per registered context type                                           *)
(* ================================================================================================ *)
Definition rebuild_f (sc : scenario) := fun (acc : option op_out) (c : ctx) =>
  match acc with
  | None => None
  | Some a =>
      let w1 := oo_world a in
      let built := match index_of c (w_reg w1), nth_error (w_reg w1) (match index_of c (w_reg w1) with Some n => n | None => O end) with
                   | Some _, Some (GExcl _ _ insts) => map (fun ei => (c, fst ei)) insts
                   | Some _, Some (GShared _ _ (e0 :: _) _) => [(c, e0)]
                   | _, _ => []
                   end in
      match reg_rebuild (mk_inst sc c) (w_time w1) c (w_reg w1) with
      | Some (r', Some evs) => Some (mkOpOut (mkWorld (w_holds w1) r' (w_time w1)) (oo_events a ++ evs) (oo_built a ++ built))
      | _ => None
      end
  end.
Lemma rebuild_f_none sc cs : fold_left (rebuild_f sc) cs None = None.
Proof. induction cs as [|x cs IH]; cbn [fold_left rebuild_f]; [reflexivity | exact IH]. Qed.

(* whether context type c binds action a does not depend on the entity the instance is built for *)
Definition uniform (sc : scenario) (c : ctx) (a : aid) : Prop :=
  forall e1 e2, In a (ids (mk_inst sc c e1)) -> In a (ids (mk_inst sc c e2)).
(* the instance of (c, e), if any, does not bind a *)
Definition unbound (r : registry) (c : ctx) (e : entity) (a : aid) : Prop :=
  forall i, reg_get c e r = Some i -> ~ In a (ids i).

Lemma rebuild_fold_track sc c e a od0 : owner sc c a -> forall cs acc acc',
  reg_inv sc (oo_world acc) -> cfg_inv sc (w_reg (oo_world acc)) ->
  fold_left (rebuild_f sc) cs (Some acc) = Some acc' ->
  cfg_inv sc (w_reg (oo_world acc')) /\
  (Pre c e a od0 (oo_events acc) (w_reg (oo_world acc)) ->
     (In c cs -> Post c e a od0 (oo_events acc') (w_reg (oo_world acc'))) /\
     (~ In c cs -> Pre c e a od0 (oo_events acc') (w_reg (oo_world acc')))) /\
  (Post c e a od0 (oo_events acc) (w_reg (oo_world acc)) -> Post c e a od0 (oo_events acc') (w_reg (oo_world acc'))) /\
  (uniform sc c a -> unbound (w_reg (oo_world acc)) c e a -> unbound (w_reg (oo_world acc')) c e a).
Proof.
  intros Ho. induction cs as [|c1 cs IH]; intros acc acc' Hinv Hcfg Hf; cbn [fold_left] in Hf.
  - injection Hf as <-. split; [exact Hcfg|]. split; [|tauto]. intros H. split; [intros [] | intros _; exact H].
  - destruct (rebuild_fold_inv sc [c1] acc Hinv) as (a1 & Ha1 & Hinv1). change (fold_left (rebuild_f sc) [c1] (Some acc) = Some a1) in Ha1.
    cbn [fold_left] in Ha1. rewrite Ha1 in Hf. cbn [rebuild_f] in Ha1. cbv zeta in Ha1.
    destruct (reg_rebuild (mk_inst sc c1) (w_time (oo_world acc)) c1 (w_reg (oo_world acc))) as [[r1 [evs|]]|] eqn:Er; try discriminate.
    pose proof Hinv as Hinv0. apply reg_inv_alt in Hinv0. destruct Hinv0 as (Hwf & _).
    destruct (rebuild_step sc c e a _ c1 _ r1 evs Hwf Hcfg Ho Er) as (S1 & S2 & S3 & S4 & S5).
    injection Ha1 as <-. cbn [oo_world oo_events w_reg] in *.
    match type of Hf with fold_left _ _ (Some ?x) = _ => set (acc1 := x) in * end.
    destruct (IH acc1 acc' Hinv1 S1 Hf) as (I1 & I2 & I3 & I4). clear IH Hf. subst acc1. cbn [oo_world oo_events w_reg] in *.
    split; [exact I1|]. split; [|split].
    + intros Hpre. destruct (Z.eq_dec c1 c) as [->|Hne].
      * destruct (S5 eq_refl) as [S6 S7]. split; [intros _ | intros Hn; exfalso; apply Hn; left; reflexivity].
        apply I3. exact (closing_pre c e a od0 _ _ _ _ Hpre S6 S7).
      * assert (Hs : stored r1 c e a = stored (w_reg (oo_world acc)) c e a) by (apply stored_get_eq, S2; congruence).
        pose proof (neutral_pre c e a od0 _ _ _ _ Hpre (S4 Hne) Hs) as Hpre1. destruct (I2 Hpre1) as [J1 J2].
        split; [intros [Hin|Hin]; [congruence | exact (J1 Hin)] | intros Hn; apply J2; intros Hin; apply Hn; right; exact Hin].
    + intros Hpost. apply I3. destruct (Z.eq_dec c1 c) as [->|Hne].
      * destruct (S5 eq_refl) as [S6 S7]. exact (closing_post c e a od0 _ _ _ _ Hpost S6 S7).
      * assert (Hs : stored r1 c e a = stored (w_reg (oo_world acc)) c e a) by (apply stored_get_eq, S2; congruence).
        exact (neutral_post c e a od0 _ _ _ _ Hpost (S4 Hne) Hs).
    + intros Hu Hub. apply (I4 Hu). intros i Hi. destruct (Z.eq_dec c1 c) as [->|Hne].
      * destruct (S3 e i Hi) as ((e0 & ->) & Hold).
        destruct (reg_get c e (w_reg (oo_world acc))) as [j|] eqn:Ej; [|congruence].
        destruct (from_cfg_ids sc c j (cfg_inv_get sc _ _ _ _ Hcfg Ej)) as (e2 & Hj).
        intros Hin. apply (Hub j Ej). rewrite Hj. exact (Hu e0 e2 Hin).
      * apply Hub. rewrite <- Hi. symmetry. apply S2. congruence.
Qed.

(* ================================================================================================ *)
(* 11. the verdict on one operation                                                                 *)
(* ================================================================================================ *)
(* [evs]: what (e, a) receives during the operation; r, r': the registry before and after *)
Definition op_verdict (c : ctx) (e : entity) (a : aid) (o : op) (r r' : registry) (evs : list event) : Prop :=
  match stored r c e a with
  | None =>
      evs = [] /\
      (forall d', stored r' c e a = Some d' ->
         (o = ORebuild /\ d' = data_new (aid_dim a)) \/
         (deactivates o c e = false /\
          (d' = data_new (aid_dim a) \/
           (ctx_shared c = true /\ exists e2, e2 <> e /\ stored r c e2 a = Some d'))))
  | Some d =>
      if deactivates o c e then
        close_chunk (acc_of (d_state d)) (kinds evs) = true /\ closing_ok a evs = true /\
        (stored r' c e a = None \/ stored r' c e a = Some (data_new (aid_dim a)))
      else evs = [] /\ stored r' c e a = Some d
  end.

Lemma verdict_untouched c e a o r r' evs :
  stored r' c e a = stored r c e a -> evs = [] -> deactivates o c e = false -> op_verdict c e a o r r' evs.
Proof.
  intros Hs -> Hd. unfold op_verdict. rewrite Hd, Hs. destruct (stored r c e a) as [d|]; [split; reflexivity|].
  split; [reflexivity | intros d' H; discriminate].
Qed.
Lemma verdict_joined sc c e a o r r' evs :
  joined sc c e r r' -> evs = [] -> deactivates o c e = false -> op_verdict c e a o r r' evs.
Proof.
  intros [Hj|(Hn & Hj)] -> Hd; [apply verdict_untouched; [apply stored_get_eq; exact Hj | reflexivity | exact Hd]|].
  unfold op_verdict. rewrite (stored_get_none _ _ _ _ Hn). split; [reflexivity|]. intros d' Hd'. right. split; [exact Hd|].
  destruct Hj as [Hj|(Hsh & e2 & i & Hne & Hg & Hg')].
  - left. destruct (stored_fresh r' c e a _ Hj (mk_inst_fresh sc c e)) as [H|H]; congruence.
  - right. split; [exact Hsh|]. exists e2. split; [exact Hne|]. rewrite <- Hd'. unfold stored. rewrite Hg, Hg'. reflexivity.
Qed.
Lemma verdict_closed c e a o r r' evs :
  deactivates o c e = true -> chunk_ok a (stored r c e a) evs -> stored r' c e a = None -> op_verdict c e a o r r' evs.
Proof.
  intros Hd Hc Hn. unfold op_verdict. rewrite Hd, Hn. destruct (stored r c e a) as [d|]; cbn [chunk_ok] in Hc.
  - destruct Hc as [H1 H2]. split; [exact H1|]. split; [exact H2 | left; reflexivity].
  - split; [exact Hc | intros d' H; discriminate].
Qed.
Lemma verdict_rebuild c e a r r' evs :
  Post c e a (stored r c e a) evs r' -> op_verdict c e a ORebuild r r' (ev_of e a evs).
Proof.
  intros [Hc Hcl]. unfold op_verdict. cbn [deactivates]. destruct (stored r c e a) as [d|]; cbn [chunk_ok] in Hc.
  - destruct Hc as [H1 H2]. split; [exact H1|]. split; [exact H2 | exact Hcl].
  - split; [exact Hc|]. intros d' Hd'. left. split; [reflexivity|]. destruct Hcl as [H|H]; congruence.
Qed.

Lemma spawn_world_inv sc w e : reg_inv sc w -> holds_of e (w_holds w) = None ->
  reg_inv sc (mkWorld (w_holds w ++ [(e, [])]) (w_reg w) (w_time w)).
Proof.
  intros Hinv He. apply reg_inv_alt in Hinv. destruct Hinv as (Hwf & Hm & Hd & Hcs). apply reg_inv_alt. cbn [w_reg w_holds].
  split; [exact Hwf|]. split.
  - intros c' e'. rewrite Hm. unfold holds. rewrite holds_of_snoc. destruct (holds_of e' (w_holds w)) as [x|] eqn:E'; [tauto|].
    split; [intros (x & H & _); discriminate|]. destruct (Z.eqb e e'); intros (x & [= <-] & Hx); discriminate.
  - split.
    + rewrite map_app. cbn. apply NoDup_snoc; [exact Hd | apply holds_of_none; exact He].
    + intros e' cs'. rewrite holds_of_snoc. destruct (holds_of e' (w_holds w)) as [x|] eqn:E'.
      * intros [= <-]. exact (Hcs e' _ E').
      * destruct (Z.eqb e e'); [|discriminate]. intros [= <-]. split; [constructor | intros x []].
Qed.

Lemma stored_menu sc w c e a d : reg_inv sc w -> stored (w_reg w) c e a = Some d -> In c (s_menu sc).
Proof.
  intros Hinv Hs. apply stored_some in Hs. destruct Hs as (i & Hg & _).
  destruct (mirror_some sc w c e i Hinv Hg) as (cs & H1 & H2).
  destruct Hinv as (_ & _ & _ & _ & _ & Hcs). apply (Hcs e cs H1). apply memz_in. exact H2.
Qed.

Section Cases.
  Variables (sc : scenario) (c : ctx) (e : entity) (a : aid) (w : world).
  Hypotheses (Hinv : reg_inv sc w) (Hcfg : cfg_inv sc (w_reg w)) (Ho : owner sc c a).

  Lemma track_insert e' c' :
    let oo := insert_ctx sc w e' c' in
    cfg_inv sc (w_reg (oo_world oo)) /\
    op_verdict c e a (OInsert e' c') (w_reg w) (w_reg (oo_world oo)) (ev_of e a (oo_events oo)).
  Proof.
    destruct (insert_step sc w e' c' Hinv Hcfg) as (S1 & S2 & S3 & S4). cbv zeta. split; [exact S2|]. rewrite S1.
    destruct (Z.eq_dec c' c) as [->|Hc].
    - destruct (Z.eq_dec e e') as [<-|He].
      + apply (verdict_joined sc); [exact S4 | reflexivity | reflexivity].
      + apply verdict_untouched; [apply stored_get_eq, S3; right; exact He | reflexivity | reflexivity].
    - apply verdict_untouched; [apply stored_get_eq, S3; left; exact Hc | reflexivity | reflexivity].
  Qed.

  Lemma track_spawn e' cs oo : apply_op sc w (OSpawn e' cs) = Some oo ->
    cfg_inv sc (w_reg (oo_world oo)) /\
    op_verdict c e a (OSpawn e' cs) (w_reg w) (w_reg (oo_world oo)) (ev_of e a (oo_events oo)).
  Proof.
    cbn [apply_op]. destruct (holds_of e' (w_holds w)) as [old|] eqn:He.
    - intros [= <-]. cbn [oo_world oo_events]. split; [exact Hcfg|]. apply verdict_untouched; reflexivity.
    - intros [= <-].
      destruct (spawn_fold_step sc e' cs (mkOpOut (mkWorld (w_holds w ++ [(e', [])]) (w_reg w) (w_time w)) [] []))
        as (S1 & S2 & S3 & S4); [apply spawn_world_inv; assumption | exact Hcfg|].
      cbn [oo_world oo_events w_reg] in *. split; [exact S2|]. rewrite S1.
      destruct (Z.eq_dec e e') as [<-|Hne].
      + apply (verdict_joined sc); [apply S4 | reflexivity | reflexivity].
      + apply verdict_untouched; [apply stored_get_eq, S3; exact Hne | reflexivity | reflexivity].
  Qed.

  Lemma track_remove e' c' oo : remove_ctx w e' c' = Some oo ->
    cfg_inv sc (w_reg (oo_world oo)) /\
    op_verdict c e a (ORemove e' c') (w_reg w) (w_reg (oo_world oo)) (ev_of e a (oo_events oo)).
  Proof.
    intros H. destruct (remove_step sc c e a w e' c' oo Hinv Hcfg Ho H) as (_ & S2 & S3 & S4). split; [exact S2|].
    destruct (Z.eqb e e' && Z.eqb c c') eqn:E.
    - destruct S4 as [S4 S5]. apply verdict_closed; [exact E | exact S4 | apply stored_get_none; exact S5].
    - apply verdict_untouched; [|exact S4 | exact E]. apply stored_get_eq, S3.
      apply andb_false_iff in E. destruct E as [E|E]; apply Z.eqb_neq in E; [right | left]; congruence.
  Qed.

  Lemma track_despawn e' oo : apply_op sc w (ODespawn e') = Some oo ->
    cfg_inv sc (w_reg (oo_world oo)) /\
    op_verdict c e a (ODespawn e') (w_reg w) (w_reg (oo_world oo)) (ev_of e a (oo_events oo)).
  Proof.
    intros H. destruct (apply_op_inv sc w (ODespawn e') Hinv) as (oo' & Hoo' & Hinv'). rewrite H in Hoo'. injection Hoo' as <-.
    cbn [apply_op] in H. destruct (holds_of e' (w_holds w)) as [cs0|] eqn:He.
    2:{ injection H as <-. cbn [oo_world oo_events]. split; [exact Hcfg|]. destruct (Z.eqb e e') eqn:E.
        - apply Z.eqb_eq in E. subst e'.
          assert (Hn : reg_get c e (w_reg w) = None) by (apply (mirror_none sc w c e Hinv); intros (cs & H1 & _); congruence).
          apply verdict_closed; [cbn [deactivates]; apply Z.eqb_refl | | apply stored_get_none; exact Hn].
          rewrite (stored_get_none _ _ _ _ Hn). reflexivity.
        - apply verdict_untouched; [reflexivity | reflexivity | exact E]. }
    change (match fold_left (despawn_f e') (filter (fun c => memz c cs0) (s_menu sc)) (Some (mkOpOut w [] [])) with
            | Some a0 => Some (mkOpOut (mkWorld (del_ent e' (w_holds (oo_world a0))) (w_reg (oo_world a0)) (w_time w)) (oo_events a0) [])
            | None => None
            end = Some oo) in H.
    destruct (fold_left (despawn_f e') (filter (fun c => memz c cs0) (s_menu sc)) (Some (mkOpOut w [] []))) as [acc'|] eqn:Ef; [|discriminate].
    injection H as <-. cbn [oo_world oo_events w_reg w_holds] in *.
    destruct (despawn_fold_track sc c e a (stored (w_reg w) c e a) e' Ho _ (mkOpOut w [] []) acc' Hinv Hcfg Ef) as (D1 & D2 & D3 & D4).
    cbn [oo_world oo_events] in *. split; [exact D1|].
    assert (Hpre : Pre c e a (stored (w_reg w) c e a) [] (w_reg w)) by (split; reflexivity).
    destruct (Z.eqb e e') eqn:E.
    - apply Z.eqb_eq in E. subst e'. destruct (D4 eq_refl) as [D5 _]. destruct (D5 Hpre) as [D6 D7].
      assert (Hn : stored (w_reg (oo_world acc')) c e a = None).
      { apply stored_get_none. apply (mirror_none sc _ c e Hinv'). intros (cs & H1 & _). cbn [w_holds] in H1.
        rewrite holds_of_del, Z.eqb_refl in H1. discriminate. }
      apply verdict_closed; [cbn [deactivates]; apply Z.eqb_refl | | exact Hn].
      destruct (in_dec Z.eq_dec c (filter (fun c => memz c cs0) (s_menu sc))) as [Hin|Hnin].
      + destruct (D6 Hin) as [H1 _]. exact H1.
      + destruct (D7 Hnin) as [H1 H2]. rewrite H1, <- H2, Hn. reflexivity.
    - assert (Hne : e' <> e) by (apply Z.eqb_neq in E; congruence). destruct (D3 Hne Hpre) as [H1 H2].
      apply verdict_untouched; [exact H2 | exact H1 | exact E].
  Qed.

  Lemma track_rebuild oo : apply_op sc w ORebuild = Some oo ->
    cfg_inv sc (w_reg (oo_world oo)) /\
    op_verdict c e a ORebuild (w_reg w) (w_reg (oo_world oo)) (ev_of e a (oo_events oo)) /\
    (uniform sc c a -> unbound (w_reg w) c e a -> unbound (w_reg (oo_world oo)) c e a).
  Proof.
    intros H. change (fold_left (rebuild_f sc) (s_menu sc) (Some (mkOpOut w [] [])) = Some oo) in H.
    destruct (rebuild_fold_track sc c e a (stored (w_reg w) c e a) Ho _ (mkOpOut w [] []) oo Hinv Hcfg H) as (R1 & R2 & _ & R4).
    cbn [oo_world oo_events] in *. split; [exact R1|]. split; [|exact R4].
    assert (Hpre : Pre c e a (stored (w_reg w) c e a) [] (w_reg w)) by (split; reflexivity).
    destruct (R2 Hpre) as [R5 R6]. destruct (in_dec Z.eq_dec c (s_menu sc)) as [Hin|Hnin].
    - apply verdict_rebuild. exact (R5 Hin).
    - destruct (R6 Hnin) as [H1 H2]. unfold op_verdict. rewrite H1, H2.
      destruct (stored (w_reg w) c e a) as [d|] eqn:Es; [exfalso; apply Hnin; eapply stored_menu; eassumption|].
      split; [reflexivity | intros d' Hd'; discriminate].
  Qed.
End Cases.

(* One operation, seen by (c, e, a).
   Departure from the statement originally asked for, in the branch [stored r c e a = None] only: the
   disjunct [o = ORebuild /\ d' = data_new (aid_dim a)] is new.  It cannot be avoided: an entity that
   holds c through an instance that does not bind a (built for another entity - the first holder of a
   shared group that has left since) gets, on rebuild, an instance built for itself (or for the current
   first holder), which may bind a.  [track_op_uniform] below gives the original statement verbatim
   under the scenario-level hypothesis [uniform sc c a]. *)
Theorem track_op : forall sc c e a w o oo,
  reg_inv sc w -> cfg_inv sc (w_reg w) -> owner sc c a ->
  apply_op sc w o = Some oo ->
  let r := w_reg w in let r' := w_reg (oo_world oo) in
  let evs := ev_of e a (oo_events oo) in
  cfg_inv sc r' /\
  match stored r c e a with
  | None =>
      evs = [] /\
      (forall d', stored r' c e a = Some d' ->
         (o = ORebuild /\ d' = data_new (aid_dim a)) \/
         (deactivates o c e = false /\
          (d' = data_new (aid_dim a) \/
           (ctx_shared c = true /\ exists e2, e2 <> e /\ stored r c e2 a = Some d'))))
  | Some d =>
      if deactivates o c e then
        close_chunk (acc_of (d_state d)) (kinds evs) = true /\ closing_ok a evs = true /\
        (stored r' c e a = None \/ stored r' c e a = Some (data_new (aid_dim a)))
      else evs = [] /\ stored r' c e a = Some d
  end.
Proof.
  intros sc c e a w o oo Hinv Hcfg Ho H. cbv zeta.
  change (cfg_inv sc (w_reg (oo_world oo)) /\ op_verdict c e a o (w_reg w) (w_reg (oo_world oo)) (ev_of e a (oo_events oo))).
  destruct o as [e' cs|e' c'|e' c'|e'|].
  - apply track_spawn; assumption.
  - cbn [apply_op] in H. injection H as <-. apply track_insert; assumption.
  - cbn [apply_op] in H. apply track_remove; assumption.
  - apply track_despawn; assumption.
  - destruct (track_rebuild sc c e a w Hinv Hcfg Ho oo H) as (H1 & H2 & _). split; assumption.
Qed.

(* ================================================================================================ *)
(* 12. the statement as originally asked for, when binding a does not depend on the entity          *)
(* ================================================================================================ *)
Lemma reg_inv_get_wf sc w c e i : reg_inv sc w -> reg_get c e (w_reg w) = Some i -> inst_wf i.
Proof.
  intros (_ & _ & Hf & _) H. destruct (reg_get_group c e _ i H) as (l1 & g & l2 & Er & _ & _ & Hget).
  rewrite Er in Hf. apply Forall_app in Hf. destruct Hf as [_ Hf]. inversion Hf as [|? ? (_ & _ & _ & _ & G5) _]; subst.
  unfold ginsts_wf in G5. rewrite Forall_forall in G5. apply G5. eapply group_get_insts; exact Hget.
Qed.
Lemma stored_none_unbound sc w c e a : reg_inv sc w -> stored (w_reg w) c e a = None -> unbound (w_reg w) c e a.
Proof.
  intros Hinv Hs i Hg Hin. pose proof (reg_inv_get_wf sc w c e i Hinv Hg) as Hwf.
  apply in_map_iff in Hin. destruct Hin as (b & Hb & Hin). specialize (Hwf b Hin). rewrite Hb in Hwf.
  destruct (lookup a (in_actions i)) as [d|] eqn:El; [|congruence].
  assert (H : stored (w_reg w) c e a = Some d).
  { apply stored_some. exists i. split; [exact Hg|]. split; [|exact El]. unfold ids. rewrite <- Hb. apply in_map. exact Hin. }
  congruence.
Qed.
Lemma unbound_stored_none r c e a : unbound r c e a -> stored r c e a = None.
Proof.
  intros H. unfold stored. destruct (reg_get c e r) as [i|] eqn:Eg; [|reflexivity]. specialize (H i Eg).
  apply memz_false in H. unfold ids in H. rewrite H. reflexivity.
Qed.

Theorem track_op_uniform : forall sc c e a w o oo,
  reg_inv sc w -> cfg_inv sc (w_reg w) -> owner sc c a -> uniform sc c a ->
  apply_op sc w o = Some oo ->
  let r := w_reg w in let r' := w_reg (oo_world oo) in
  let evs := ev_of e a (oo_events oo) in
  cfg_inv sc r' /\
  match stored r c e a with
  | None =>
      evs = [] /\
      (forall d', stored r' c e a = Some d' ->
         deactivates o c e = false /\
         (d' = data_new (aid_dim a) \/
          (ctx_shared c = true /\ exists e2, e2 <> e /\ stored r c e2 a = Some d')))
  | Some d =>
      if deactivates o c e then
        close_chunk (acc_of (d_state d)) (kinds evs) = true /\ closing_ok a evs = true /\
        (stored r' c e a = None \/ stored r' c e a = Some (data_new (aid_dim a)))
      else evs = [] /\ stored r' c e a = Some d
  end.
Proof.
  intros sc c e a w o oo Hinv Hcfg Ho Hu H. cbv zeta.
  destruct (track_op sc c e a w o oo Hinv Hcfg Ho H) as [H1 H2]. cbv zeta in H2. split; [exact H1|].
  destruct (stored (w_reg w) c e a) as [d|] eqn:Es; [exact H2|]. destruct H2 as [H2 H3]. split; [exact H2|].
  intros d' Hd'. destruct (H3 d' Hd') as [[-> _]|H4]; [|exact H4]. exfalso.
  destruct (track_rebuild sc c e a w Hinv Hcfg Ho oo H) as (_ & _ & H5).
  pose proof (H5 Hu (stored_none_unbound sc w c e a Hinv Es)) as H6. apply unbound_stored_none in H6. congruence.
Qed.

(* ================================================================================================ *)
(* 13. the episode acceptor across one operation                                                    *)
(* ================================================================================================ *)
Definition acc_at (r : registry) (c : ctx) (e : entity) (a : aid) : acc :=
  match stored r c e a with Some d => acc_of (d_state d) | None => Idle end.

(* an operation either leaves (c, e, a) alone, or closes it, or makes e join a shared instance that
   other entities already drive *)
Corollary track_op_acc : forall sc c e a w o oo,
  reg_inv sc w -> cfg_inv sc (w_reg w) -> owner sc c a ->
  apply_op sc w o = Some oo ->
  let r := w_reg w in let r' := w_reg (oo_world oo) in
  let evs := ev_of e a (oo_events oo) in
  (evs = [] /\ acc_at r' c e a = acc_at r c e a) \/
  (close_chunk (acc_at r c e a) (kinds evs) = true /\ closing_ok a evs = true /\ acc_at r' c e a = Idle) \/
  (evs = [] /\ stored r c e a = None /\ ctx_shared c = true /\ deactivates o c e = false /\
   exists e2 d', e2 <> e /\ stored r c e2 a = Some d' /\ stored r' c e a = Some d').
Proof.
  intros sc c e a w o oo Hinv Hcfg Ho H. cbv zeta.
  destruct (track_op sc c e a w o oo Hinv Hcfg Ho H) as [_ H2]. cbv zeta in H2. unfold acc_at.
  destruct (stored (w_reg w) c e a) as [d|] eqn:Es.
  - destruct (deactivates o c e).
    + destruct H2 as (H3 & H4 & H5). right. left. split; [exact H3|]. split; [exact H4|]. destruct H5 as [-> | ->]; reflexivity.
    + destruct H2 as (H3 & ->). left. split; [exact H3 | reflexivity].
  - destruct H2 as [H3 H4]. destruct (stored (w_reg (oo_world oo)) c e a) as [d'|] eqn:Es'; [|left; split; [exact H3 | reflexivity]].
    destruct (H4 d' eq_refl) as [[_ ->]|[Hd [-> |(Hsh & e2 & Hne & He2)]]]; [left; split; [exact H3 | reflexivity] ..|].
    right. right. split; [exact H3|]. split; [reflexivity|]. split; [exact Hsh|]. split; [exact Hd|].
    exists e2, d'. split; [exact Hne|]. split; [exact He2 | reflexivity].
Qed.

(* ================================================================================================ *)
(* 14. a list of operations run by run_ops, judged chunk by chunk                                   *)
(* ================================================================================================ *)
Definition run_f (sc : scenario) := fun (acc : option op_out) (o : op) =>
  match acc with
  | None => None
  | Some a => match apply_op sc (oo_world a) o with
              | Some r => Some (mkOpOut (oo_world r) (oo_events a ++ oo_events r) (oo_built a ++ oo_built r))
              | None => None
              end
  end.
Definition prefix_out (ev : list event) (bl : list (ctx * entity)) (o : op_out) : op_out :=
  mkOpOut (oo_world o) (ev ++ oo_events o) (bl ++ oo_built o).

Lemma run_f_none sc ops : fold_left (run_f sc) ops None = None.
Proof. induction ops as [|o ops IH]; cbn [fold_left run_f]; [reflexivity | exact IH]. Qed.
Lemma run_f_acc sc ops : forall w ev bl,
  fold_left (run_f sc) ops (Some (mkOpOut w ev bl)) = option_map (prefix_out ev bl) (fold_left (run_f sc) ops (Some (mkOpOut w [] []))).
Proof.
  induction ops as [|o ops IH]; intros w ev bl; cbn [fold_left].
  - cbn [option_map]. unfold prefix_out. cbn [oo_world oo_events oo_built]. rewrite !app_nil_r. reflexivity.
  - cbn [run_f oo_world oo_events oo_built]. destruct (apply_op sc w o) as [r|]; [|rewrite run_f_none; reflexivity].
    rewrite (IH (oo_world r) (ev ++ oo_events r) (bl ++ oo_built r)), (IH (oo_world r) ([] ++ oo_events r) ([] ++ oo_built r)).
    destruct (fold_left (run_f sc) ops (Some (mkOpOut (oo_world r) [] []))) as [o2|]; [|reflexivity].
    cbn [option_map app]. unfold prefix_out. cbn [oo_world oo_events oo_built]. rewrite !app_assoc. reflexivity.
Qed.
(* run_ops, one operation at a time *)
Lemma run_ops_nil sc w : run_ops sc w [] = Some (mkOpOut w [] []).
Proof. reflexivity. Qed.
Lemma run_ops_cons sc w o ops :
  run_ops sc w (o :: ops) =
  match apply_op sc w o with
  | Some r => option_map (prefix_out (oo_events r) (oo_built r)) (run_ops sc (oo_world r) ops)
  | None => None
  end.
Proof.
  unfold run_ops. change (fold_left (run_f sc) (o :: ops) (Some (mkOpOut w [] [])) =
    match apply_op sc w o with
    | Some r => option_map (prefix_out (oo_events r) (oo_built r)) (fold_left (run_f sc) ops (Some (mkOpOut (oo_world r) [] [])))
    | None => None
    end).
  cbn [fold_left run_f oo_world oo_events oo_built]. destruct (apply_op sc w o) as [r|]; [|apply run_f_none].
  cbn [app]. apply run_f_acc.
Qed.

(* the judgement of a list of operations: every operation judged on the registry its predecessors left *)
Fixpoint ops_verdict (sc : scenario) (c : ctx) (e : entity) (a : aid) (w : world) (ops : list op) : Prop :=
  match ops with
  | [] => True
  | o :: rest =>
      match apply_op sc w o with
      | Some r => op_verdict c e a o (w_reg w) (w_reg (oo_world r)) (ev_of e a (oo_events r)) /\ ops_verdict sc c e a (oo_world r) rest
      | None => False
      end
  end.
(* the chunks (e, a) receives, one per operation *)
Fixpoint ops_chunks (sc : scenario) (e : entity) (a : aid) (w : world) (ops : list op) : list (list event) :=
  match ops with
  | [] => []
  | o :: rest =>
      match apply_op sc w o with
      | Some r => ev_of e a (oo_events r) :: ops_chunks sc e a (oo_world r) rest
      | None => []
      end
  end.

Theorem track_ops : forall sc c e a ops w oo,
  reg_inv sc w -> cfg_inv sc (w_reg w) -> owner sc c a ->
  run_ops sc w ops = Some oo ->
  reg_inv sc (oo_world oo) /\ cfg_inv sc (w_reg (oo_world oo)) /\
  ev_of e a (oo_events oo) = concat (ops_chunks sc e a w ops) /\
  length (ops_chunks sc e a w ops) = length ops /\
  ops_verdict sc c e a w ops.
Proof.
  intros sc c e a ops. induction ops as [|o ops IH]; intros w oo Hinv Hcfg Ho H.
  - rewrite run_ops_nil in H. injection H as <-. cbn [oo_world oo_events ops_chunks ops_verdict concat length].
    split; [exact Hinv|]. split; [exact Hcfg|]. repeat split.
  - rewrite run_ops_cons in H. cbn [ops_chunks ops_verdict]. destruct (apply_op sc w o) as [r|] eqn:Ea; [|discriminate].
    destruct (apply_op_inv sc w o Hinv) as (r0 & Hr0 & Hinv1). rewrite Ea in Hr0. injection Hr0 as <-.
    destruct (track_op sc c e a w o r Hinv Hcfg Ho Ea) as [T1 T2]. cbv zeta in T1, T2.
    destruct (run_ops sc (oo_world r) ops) as [o2|] eqn:E2; [|discriminate]. cbn [option_map] in H. injection H as <-.
    destruct (IH (oo_world r) o2 Hinv1 T1 Ho E2) as (I1 & I2 & I3 & I4 & I5).
    unfold prefix_out. cbn [oo_world oo_events concat length].
    split; [exact I1|]. split; [exact I2|]. split; [rewrite ev_of_app, I3; reflexivity|]. split; [rewrite I4; reflexivity|].
    split; [exact T2 | exact I5].
Qed.

Print Assumptions track_op.
Print Assumptions track_op_uniform.
Print Assumptions track_op_acc.
Print Assumptions track_ops.
