(* Soundness (S) and transfer (T) of the executable judgement Check/C01c.v (stage "frames" of C01) on the model's own runs:
     C01_app_judgement_sound    : forall sc, profile_C01 sc -> ok (sc, trace (run sc)) = 0
     C01_app_judgement_transfer : forall sc t, profile_C01 sc -> agree_full (sc, t) = true -> ok (sc, t) = 0
   Ladder: (A) one action evaluation with the results of its action-level conditions read back from the log; one
   (context, entity, action) followed through a registry update, events-only blocking included (generalises
   Proofs/TrackFrameP.v); (B) the invariant [K]: every stored instance has the signature of the instance
   context_instance() builds for its own (context, entity), its data table has exactly the bound actions as keys and values
   of the declared dimension; kept by every operation and every frame; (C) the log of a frame has pairwise distinct ids;
   (D) one step of the judgement; (E) induction over the steps. *)
From Coq Require Import List ZArith QArith Bool Lia Permutation.
From BEI Require Import Model.Frame Spec.Law Spec.Events Proofs.StateP Proofs.ValueP Proofs.ActionP Proofs.InstanceP Proofs.MergeP
  Proofs.RegistryP Proofs.FanoutP Proofs.FrameLiftP Proofs.TrackDefs Proofs.TrackFrameP Proofs.TrackOpP Check.App Check.C01c.
From BEI Require Proofs.JudgeC03P Proofs.JudgeC07P Proofs.JudgeC12P.
Import ListNotations.
Open Scope Z_scope.

(* ================================================================================================ *)
(* 0. helpers                                                                                       *)
(* ================================================================================================ *)
Definition all_true (l : list (Z * bool)) : Prop := forall k b, In (k, b) l -> b = true.
Lemma all_true_first_fail l : all_true l -> first_fail l = 0.
Proof.
  induction l as [|[k b] l IH]; intros H; cbn [first_fail]; [reflexivity|].
  rewrite (H k b (or_introl eq_refl)). apply IH. intros k' b' Hin. apply (H k' b'). right. exact Hin.
Qed.
Lemma all_true_app l1 l2 : all_true l1 -> all_true l2 -> all_true (l1 ++ l2).
Proof. intros H1 H2 k b Hin. apply in_app_or in Hin. destruct Hin as [Hin|Hin]; [exact (H1 k b Hin) | exact (H2 k b Hin)]. Qed.
Lemma all_true_cons k b l : b = true -> all_true l -> all_true ((k, b) :: l).
Proof. intros Hb Hl k' b' [[= <- <-]|Hin]; [exact Hb | exact (Hl k' b' Hin)]. Qed.
Lemma all_true_nil : all_true [].
Proof. intros k b []. Qed.
Lemma all_true_concat (ls : list (list (Z * bool))) : (forall l, In l ls -> all_true l) -> all_true (concat ls).
Proof.
  induction ls as [|l ls IH]; intros H; cbn [concat]; [apply all_true_nil|].
  apply all_true_app; [apply H; left; reflexivity | apply IH; intros l' Hl'; apply H; right; exact Hl'].
Qed.

Notation ck_of := JudgeC03P.ck_of.
Notation sig := JudgeC03P.sig.

(* ================================================================================================ *)
(* 1. the results of a list of conditions, and what they do to [events_blocked]                     *)
(* ================================================================================================ *)
Definition cres := (Z * ckind * state)%type.
Definition blk (x : cres) : bool := match snd (fst x), snd x with KBlocker true, SNone => true | _, _ => false end.
Definition conds_rs (m : actions) (tm : time) (v : value) (cs : list (Z * cond)) : list cres :=
  map (fun x => (fst x, cond_kind (snd x), snd (cond_eval (look_of m) tm v (snd x)))) cs.

Lemma conds_rs_ck m tm v cs : map fst (conds_rs m tm v cs) = ck_of cs.
Proof. unfold conds_rs, JudgeC03P.ck_of. rewrite map_map. reflexivity. Qed.

Lemma apply_result_eb_blk t id k s : events_blocked (apply_result t k s) = events_blocked t || blk (id, k, s).
Proof.
  unfold blk. cbn [fst snd]. destruct k as [| |[|]], s; cbn [apply_result events_blocked is_s state_eqb state_rank Nat.eqb];
    rewrite ?orb_false_r, ?orb_true_r; reflexivity.
Qed.

Lemma apply_conds_eb_rs m tm cs : forall t,
  events_blocked (snd (fst (apply_conds m tm t cs))) = events_blocked t || existsb blk (conds_rs m tm (t_value t) cs).
Proof.
  induction cs as [|[id c] rest IH]; intros t; cbn [apply_conds conds_rs map existsb]; [rewrite orb_false_r; reflexivity|].
  cbn [fst snd]. destruct (cond_eval (look_of m) tm (t_value t) c) as [c' s] eqn:E.
  specialize (IH (apply_result t (cond_kind c) s)).
  destruct (apply_conds m tm (apply_result t (cond_kind c) s) rest) as [[rest' t'] lg]. cbn [fst snd] in *.
  rewrite IH, apply_result_value, (apply_result_eb_blk t id). unfold conds_rs. rewrite orb_assoc. reflexivity.
Qed.

Lemma apply_conds_rs_log m tm cs t x : In x (conds_rs m tm (t_value t) cs) ->
  In (LCond (fst (fst x)) (t_value t) (snd x) (seen_of m)) (snd (apply_conds m tm t cs)).
Proof.
  intros Hin. rewrite JudgeC03P.apply_conds_log. unfold conds_rs in Hin. apply in_map_iff in Hin. destruct Hin as (y & <- & Hy).
  cbn [fst snd]. apply in_map_iff. exists y. split; [reflexivity | exact Hy].
Qed.

(* ================================================================================================ *)
(* 2. one evaluation of an action whose input-level conditions contain no events-only blocker       *)
(* ================================================================================================ *)
Definition inputs_free (ab : abind) : Prop :=
  Forall (fun ib => ~ In (KBlocker true) (conds_kinds (ib_conds ib))) (ab_inputs ab).

Lemma action_update_evb m tm r c dev recips ab : inputs_free ab ->
  exists (s : state) (v : value) (rs : list cres),
    let a := ab_id ab in
    let d := old_data m a in
    let d' := data_update (vdelta tm) d s v in
    let o := action_update m tm r c dev recips ab in
    vdim v = aid_dim a /\
    lookup a (o_actions o) = Some d' /\
    (forall b, b <> a -> lookup b (o_actions o) = lookup b m) /\
    o_events o = Some (if existsb blk rs then [] else flat_map (fun k => map (mk_event a d' k) recips) (table (d_state d) s)) /\
    map fst rs = ck_of (ab_conds ab) /\
    (forall x, In x rs -> exists vin sn, In (LCond (fst (fst x)) vin (snd x) sn) (o_log o)).
Proof.
  intros Hb2. cbv zeta. unfold action_update, old_data.
  pose proof (input_loop_track m tm r c dev (ab_id ab) (ab_inputs ab)
                (mkLoop (tracker_new (vzero (aid_dim (ab_id ab)))) [] [])) as [_ Hl].
  specialize (Hl Hb2 eq_refl).
  destruct (input_loop m tm r c dev (ab_id ab) _ (ab_inputs ab)) as [st inputs']. cbn [fst] in Hl.
  destruct (apply_mods m tm (t_value (l_tracker st)) (ab_mods ab)) as [[ms' v1] lg1].
  pose proof (apply_conds_eb_rs m tm (ab_conds ab) (with_value (l_tracker st) v1)) as He.
  pose proof (apply_conds_rs_log m tm (ab_conds ab) (with_value (l_tracker st) v1)) as Hlog.
  destruct (apply_conds m tm (with_value (l_tracker st) v1) (ab_conds ab)) as [[cs' tr] lg2]. cbn [fst snd] in He, Hlog.
  set (rs := conds_rs m tm (t_value (with_value (l_tracker st) v1)) (ab_conds ab)) in *.
  assert (Hev : events_blocked tr = existsb blk rs).
  { rewrite He. unfold with_value at 1. cbn [events_blocked]. rewrite Hl. reflexivity. }
  set (a := ab_id ab).
  set (d := match lookup a m with Some d => d | None => data_new (aid_dim a) end).
  exists (tracker_state tr), (convert (aid_dim a) (t_value tr)), rs.
  cbn [o_actions o_events o_log]. split; [apply ValueP.convert_dim|]. split; [apply lookup_store_same|].
  split; [intros b Hb; apply lookup_store_other; congruence|].
  split; [|split].
  - rewrite Hev. destruct (existsb blk rs); [reflexivity|]. rewrite emit_some.
    + destruct (data_update_fields (vdelta tm) d (tracker_state tr) (convert (aid_dim a) (t_value tr))) as (_ & _ & Ht).
      rewrite Ht. reflexivity.
    + destruct (data_update_fields (vdelta tm) d (tracker_state tr) (convert (aid_dim a) (t_value tr))) as (_ & Hv & _).
      rewrite Hv. apply ValueP.convert_dim.
  - apply conds_rs_ck.
  - intros x Hx. eexists; eexists. apply in_or_app. right. apply in_or_app. right. apply Hlog. exact Hx.
Qed.

(* ================================================================================================ *)
(* 3. following (e, a) through one instance, one group, the registry - with events-only blocking    *)
(*    (Proofs/TrackFrameP.v section 5, generalised: the binding of a may carry events-only blockers *)
(*    at action level; their results are read back from the log)                                    *)
(* ================================================================================================ *)
Section Track2.
  Variables (e : entity) (a : aid) (tm : time) (r : raw) (ck0 : list (Z * ckind)).

  Definition logged (rs : list cres) (lg : list logitem) : Prop :=
    forall x, In x rs -> exists vin sn, In (LCond (fst (fst x)) vin (snd x) sn) lg.
  Lemma logged_app_l rs l1 l2 : logged rs l1 -> logged rs (l1 ++ l2).
  Proof. intros H x Hx. destruct (H x Hx) as (vin & sn & Hin). exists vin, sn. apply in_or_app. left. exact Hin. Qed.
  Lemma logged_app_r rs l1 l2 : logged rs l2 -> logged rs (l1 ++ l2).
  Proof. intros H x Hx. destruct (H x Hx) as (vin & sn & Hin). exists vin, sn. apply in_or_app. right. exact Hin. Qed.

  Definition track_res2 (old new : option data) (evs : list event) (lg : list logitem) : Prop :=
    match old with
    | None => ev_of e a evs = [] /\ new = None
    | Some d => exists (s1 : state) (v : value) (rs : list cres),
        let d' := data_update (vdelta tm) d s1 v in
        vdim v = aid_dim a /\ new = Some d' /\
        ev_of e a evs = (if existsb blk rs then [] else map (fun k => mk_event a d' k e) (table (d_state d) s1)) /\
        map fst rs = ck0 /\ logged rs lg
    end.

  Lemma track_res2_app_l old new ev1 ev2 l1 l2 : track_res2 old new ev1 l1 -> ev_of e a ev2 = [] -> track_res2 old new (ev1 ++ ev2) (l1 ++ l2).
  Proof.
    unfold track_res2. intros H H2. rewrite ev_of_app, H2, app_nil_r. destruct old as [d|]; [|exact H].
    destruct H as (s1 & v & rs & A & B & C & D & E). exists s1, v, rs. cbv zeta. repeat (split; [assumption|]). apply logged_app_l. exact E.
  Qed.
  Lemma track_res2_app_r old new ev1 ev2 l1 l2 : ev_of e a ev1 = [] -> track_res2 old new ev2 l2 -> track_res2 old new (ev1 ++ ev2) (l1 ++ l2).
  Proof.
    unfold track_res2. intros H1 H. rewrite ev_of_app, H1. cbn [app]. destruct old as [d|]; [|exact H].
    destruct H as (s1 & v & rs & A & B & C & D & E). exists s1, v, rs. cbv zeta. repeat (split; [assumption|]). apply logged_app_r. exact E.
  Qed.
  Lemma track_res2_quiet old new evs lg : track_res2 old new evs lg -> old = None -> ev_of e a evs = [] /\ new = None.
  Proof. intros H ->. exact H. Qed.

  (* the hypotheses on an instance evaluated for [recips] *)
  Definition inst_good2 (recips : list entity) (i : inst) : Prop :=
    inst_wf i /\ NoDup (bind_ids i) /\
    (forall b, In b (in_binds i) -> ab_id b = a -> inputs_free b /\ (In e recips -> ck_of (ab_conds b) = ck0)).

  Lemma binds_track2 dev recips bs : forall m c0,
    NoDup (map ab_id bs) -> NoDup recips ->
    (forall b, In b bs -> ab_id b = a -> inputs_free b /\ (In e recips -> ck_of (ab_conds b) = ck0)) ->
    exists bs' m' c' evs lg,
      binds_update m tm r c0 dev recips bs = (bs', m', c', Some evs, lg) /\
      map ab_id bs' = map ab_id bs /\
      (~ In e recips -> ev_of e a evs = []) /\
      if memz a (map ab_id bs)
      then exists (s1 : state) (v : value) (rs : list cres),
             let d' := data_update (vdelta tm) (old_data m a) s1 v in
             vdim v = aid_dim a /\ lookup a m' = Some d' /\ logged rs lg /\
             (In e recips -> map fst rs = ck0 /\
                ev_of e a evs = (if existsb blk rs then [] else map (fun k => mk_event a d' k e) (table (d_state (old_data m a)) s1)))
      else lookup a m' = lookup a m /\ ev_of e a evs = [].
  Proof.
    induction bs as [|b rest IH]; intros m c0 Hnd Hr Hfree.
    - exists [], m, c0, [], []. cbn [binds_update map memz existsb]. repeat split; reflexivity.
    - cbn [map] in Hnd. inversion Hnd as [|x l Hx Hl]; subst.
      assert (Hfree' : forall b0, In b0 rest -> ab_id b0 = a -> inputs_free b0 /\ (In e recips -> ck_of (ab_conds b0) = ck0))
        by (intros b0 Hb0; apply Hfree; right; exact Hb0).
      cbn [binds_update]. cbv zeta.
      pose proof (action_update_id m tm r c0 dev recips b) as Hid.
      pose proof (action_update_result m tm r c0 dev recips b) as Hres.
      destruct (Z.eqb a (ab_id b)) eqn:E.
      + apply Z.eqb_eq in E.
        destruct (Hfree b (or_introl eq_refl) (eq_sym E)) as [Hb Hck].
        destruct (action_update_evb m tm r c0 dev recips b Hb) as (s & v & rs & Hv & Hl1 & Ho & He & Hrs & Hlog). cbv zeta in *.
        set (o := action_update m tm r c0 dev recips b) in *.
        destruct (IH (o_actions o) (o_consumed o) Hl Hr Hfree') as (rest' & m' & c' & evs2 & lg & Hbu & Hids & Hn2 & Hcase).
        rewrite Hbu, He. rewrite <- E in *.
        assert (Hm : memz a (map ab_id rest) = false) by (apply memz_false; exact Hx).
        rewrite Hm in Hcase. destruct Hcase as [Hlk Hev2].
        eexists _, m', c', _, _. split; [reflexivity|].
        split; [cbn [map]; rewrite Hid, Hids, <- E; reflexivity|].
        split.
        * intros Hne. rewrite ev_of_app, Hev2, app_nil_r. destruct (existsb blk rs); [reflexivity|]. apply ev_of_flat_notin. exact Hne.
        * cbn [map]. unfold memz at 1. cbn [existsb]. rewrite <- E, Z.eqb_refl. cbn [orb]. exists s, v, rs. cbv zeta.
          split; [exact Hv|]. split; [rewrite Hlk; exact Hl1|]. split; [apply logged_app_l; exact Hlog|].
          intros Hin. split; [rewrite Hrs; apply Hck; exact Hin|].
          rewrite ev_of_app, Hev2, app_nil_r. destruct (existsb blk rs); [reflexivity|]. apply ev_of_flat_in; assumption.
      + apply Z.eqb_neq in E.
        destruct Hres as (s & v & bl & Hv & Hl1 & Ho & He). cbv zeta in *.
        set (o := action_update m tm r c0 dev recips b) in *.
        destruct (IH (o_actions o) (o_consumed o) Hl Hr Hfree') as (rest' & m' & c' & evs2 & lg & Hbu & Hids & Hn2 & Hcase).
        rewrite Hbu, He.
        assert (Hlk : lookup a (o_actions o) = lookup a m) by (apply Ho; exact E).
        assert (Hod : old_data (o_actions o) a = old_data m a) by (unfold old_data; rewrite Hlk; reflexivity).
        rewrite Hod in Hcase.
        assert (Hev1 : ev_of e a (if bl then [] else
                   flat_map (fun k => map (mk_event (ab_id b) (data_update (vdelta tm) (old_data m (ab_id b)) s v) k) recips)
                            (table (d_state (old_data m (ab_id b))) s)) = []).
        { destruct bl; [reflexivity|]. apply ev_of_flat_other. intros E2. apply E. symmetry. exact E2. }
        eexists _, m', c', _, _. split; [reflexivity|].
        split; [cbn [map]; rewrite Hid, Hids; reflexivity|].
        split.
        * intros Hne. rewrite ev_of_app, Hev1. apply Hn2. exact Hne.
        * cbn [map]. unfold memz at 1. cbn [existsb]. apply Z.eqb_neq in E. rewrite E. cbn [orb].
          change (existsb (Z.eqb a) (map ab_id rest)) with (memz a (map ab_id rest)).
          destruct (memz a (map ab_id rest)).
          -- destruct Hcase as (s1 & v1 & rs & Hv1 & Hl2 & Hlog & Hev2). exists s1, v1, rs. cbv zeta.
             split; [exact Hv1|]. split; [exact Hl2|]. split; [apply logged_app_r; exact Hlog|].
             intros Hin. destruct (Hev2 Hin) as [Hck Hev3]. split; [exact Hck|]. rewrite ev_of_app, Hev1. exact Hev3.
          -- destruct Hcase as [Hl2 Hev2]. split; [rewrite Hl2; exact Hlk|]. rewrite ev_of_app, Hev1, Hev2. reflexivity.
  Qed.

  (* --- one instance --- *)
  Lemma inst_track2 c0 recips i : inst_good2 recips i -> NoDup recips ->
    exists evs, io_events (inst_update tm r c0 recips i) = Some evs /\
      (~ In e recips -> ev_of e a evs = []) /\
      (In e recips -> track_res2 (istored i a) (istored (io_inst (inst_update tm r c0 recips i)) a) evs (io_log (inst_update tm r c0 recips i))) /\
      (istored i a = None -> ev_of e a evs = [] /\ istored (io_inst (inst_update tm r c0 recips i)) a = None).
  Proof.
    intros (Hwf & Hnd & Hfree) Hr. unfold inst_update.
    destruct (binds_track2 (in_pad i) recips (in_binds i) (in_actions i) c0 Hnd Hr Hfree)
      as (bs' & m' & c' & evs & lg & Hbu & Hids & Hn & Hcase).
    rewrite Hbu. cbn [io_events io_inst io_log]. exists evs. split; [reflexivity|]. split; [exact Hn|].
    unfold istored, bind_ids. cbn [in_binds in_actions]. rewrite Hids.
    destruct (memz a (map ab_id (in_binds i))) eqn:Em.
    - destruct Hcase as (s1 & v & rs & Hv & Hl & Hlog & Hev). cbv zeta in *.
      assert (Hsome : lookup a (in_actions i) <> None).
      { apply memz_in in Em. apply in_map_iff in Em. destruct Em as (b & Hb & Hin). rewrite <- Hb. apply Hwf. exact Hin. }
      destruct (lookup a (in_actions i)) as [d|] eqn:El; [|congruence].
      assert (Hod : old_data (in_actions i) a = d) by (unfold old_data; rewrite El; reflexivity).
      rewrite Hod in *. split; [|discriminate].
      intros Hin. destruct (Hev Hin) as [Hck Hev']. unfold track_res2. exists s1, v, rs. cbv zeta. repeat (split; [assumption|]). exact Hlog.
    - destruct Hcase as [Hl Hev]. split; [|intros _; split; [exact Hev | reflexivity]].
      intros _. unfold track_res2. split; [exact Hev | reflexivity].
  Qed.

  (* --- an exclusive group --- *)
  Lemma excl_track2 insts : forall c0,
    NoDup (map fst insts) -> Forall (fun ei => inst_good2 [fst ei] (snd ei)) insts ->
    exists insts' c' evs lg,
      excl_update tm r c0 insts = (insts', c', Some evs, lg) /\
      track_res2 (lstored insts e a) (lstored insts' e a) evs lg.
  Proof.
    induction insts as [|[en i] rest IH]; intros c0 Hnd Hg.
    - exists [], c0, [], []. split; [reflexivity|]. unfold track_res2, lstored. cbn [find option_map]. split; reflexivity.
    - cbn [map fst] in Hnd. inversion Hnd as [|x l Hx Hl]; subst. inversion Hg as [|y l' Hy Hl']; subst. cbn [fst snd] in Hy.
      cbn [excl_update]. cbv zeta.
      assert (Hen : NoDup [en]) by (constructor; [intros [] | constructor]).
      destruct (inst_track2 c0 [en] i Hy Hen) as (evs1 & Hev & Hn & Hin & _).
      set (o := inst_update tm r c0 [en] i) in *.
      destruct (IH (io_consumed o) Hl Hl') as (rest' & c' & evs2 & lg & Hex & Htr).
      rewrite Hex, Hev. cbn [cat_ev]. eexists _, c', _, _. split; [reflexivity|].
      rewrite !lstored_cons. destruct (Z.eqb en e) eqn:E.
      + apply Z.eqb_eq in E. subst en.
        destruct (track_res2_quiet _ _ _ _ Htr (lstored_absent rest e a Hx)) as [Hq _].
        apply track_res2_app_l; [|exact Hq]. apply Hin. left. reflexivity.
      + apply Z.eqb_neq in E. apply track_res2_app_r; [|exact Htr].
        apply Hn. intros [H|[]]. apply E. exact H.
  Qed.

  (* --- a shared group --- *)
  Lemma shared_track2 c0 cx p ents i : inst_good2 ents i -> NoDup ents ->
    exists evs, io_events (inst_update tm r c0 ents i) = Some evs /\
      track_res2 (gstored (GShared cx p ents i) e a)
                 (gstored (GShared cx p ents (io_inst (inst_update tm r c0 ents i))) e a) evs (io_log (inst_update tm r c0 ents i)).
  Proof.
    intros Hg Hnd. destruct (inst_track2 c0 ents i Hg Hnd) as (evs & Hev & Hn & Hin & _).
    exists evs. split; [exact Hev|]. unfold gstored. cbn [group_get].
    change (existsb (Z.eqb e) ents) with (memz e ents). destruct (memz e ents) eqn:Em.
    - apply Hin. apply memz_in. exact Em.
    - unfold track_res2. split; [|reflexivity]. apply Hn. apply memz_false. exact Em.
  Qed.

  (* --- the registry --- *)
  Variable c : ctx.
  Definition group_good2 (g : group) : Prop :=
    NoDup (g_ents g) /\
    match g with
    | GExcl _ _ insts => Forall (fun ei => inst_good2 [fst ei] (snd ei)) insts
    | GShared _ _ ents i => inst_good2 ents i
    end /\
    (g_ctx g <> c -> Forall (fun i => ~ In a (bind_ids i)) (g_insts g)).

  Lemma reg_track2 gs : forall c0, NoDup (map g_ctx gs) -> Forall group_good2 gs ->
    exists main, ro_events (reg_update tm r c0 gs) = Some main /\
      track_res2 (stored gs c e a) (stored (ro_reg (reg_update tm r c0 gs)) c e a) main (ro_log (reg_update tm r c0 gs)).
  Proof.
    induction gs as [|g gs IH]; intros c0 Hnd Hg.
    - exists []. cbn [reg_update ro_events ro_reg]. split; [reflexivity|]. unfold track_res2. split; reflexivity.
    - cbn [map] in Hnd. inversion Hnd as [|x l Hx Hl]; subst. inversion Hg as [|y l' Hy Hl']; subst.
      destruct Hy as (Hents & Hgood & Hother).
      destruct g as [cx p insts|cx p ents i]; cbn [g_ctx g_ents g_insts] in *.
      + destruct (excl_track2 insts c0 Hents Hgood) as (insts' & c' & evs1 & lg & Hex & Htr).
        cbn [reg_update]. rewrite Hex. cbv zeta. cbn [ro_events ro_reg ro_log].
        destruct (IH c' Hl Hl') as (main2 & Hev2 & Htr2). rewrite Hev2. cbn [cat_ev].
        exists (evs1 ++ main2). split; [reflexivity|]. rewrite !stored_cons. cbn [g_ctx]. rewrite !gstored_excl.
        destruct (Z.eqb cx c) eqn:E.
        * apply Z.eqb_eq in E. subst cx.
          destruct (track_res2_quiet _ _ _ _ Htr2 (stored_absent gs c e a Hx)) as [Hq _].
          apply track_res2_app_l; assumption.
        * apply Z.eqb_neq in E.
          destruct (track_res2_quiet _ _ _ _ Htr (lstored_unbound insts e a (Hother E))) as [Hq _].
          apply track_res2_app_r; assumption.
      + destruct (shared_track2 c0 cx p ents i Hgood Hents) as (evs1 & Hev1 & Htr).
        cbn [reg_update]. cbv zeta. cbn [ro_events ro_reg ro_log].
        set (io := inst_update tm r c0 ents i) in *.
        destruct (IH (io_consumed io) Hl Hl') as (main2 & Hev2 & Htr2). rewrite Hev1, Hev2. cbn [cat_ev].
        exists (evs1 ++ main2). split; [reflexivity|]. rewrite !stored_cons. cbn [g_ctx].
        destruct (Z.eqb cx c) eqn:E.
        * apply Z.eqb_eq in E. subst cx.
          destruct (track_res2_quiet _ _ _ _ Htr2 (stored_absent gs c e a Hx)) as [Hq _].
          apply track_res2_app_l; assumption.
        * apply Z.eqb_neq in E.
          destruct (track_res2_quiet _ _ _ _ Htr (gstored_unbound e a (GShared cx p ents i) (Hother E))) as [Hq _].
          apply track_res2_app_r; assumption.
  Qed.
End Track2.

(* ================================================================================================ *)
(* 4. the invariant: every stored instance looks like the one built for its own (context, entity)   *)
(* ================================================================================================ *)
Definition sigs (i : inst) := map sig (in_binds i).
Definition keys_ok (i : inst) : Prop := forall x, lookup x (in_actions i) <> None -> In x (bind_ids i).
Definition dims_ok (i : inst) : Prop := forall x d, lookup x (in_actions i) = Some d -> vdim (d_value d) = aid_dim x.
Definition P (sc : scenario) (c : ctx) (e0 : entity) (i : inst) : Prop :=
  sigs i = sigs (mk_inst sc c e0) /\ keys_ok i /\ dims_ok i.
(* for an exclusive context type the instance of entity e is built for e; for a shared one, for one of the holders *)
Definition K (sc : scenario) (w : world) : Prop :=
  forall c e i, reg_get c e (w_reg w) = Some i -> exists e0, (ctx_shared c = false -> e0 = e) /\ P sc c e0 i.

Lemma sig_id b : ab_id b = fst (fst (fst (sig b))).
Proof. reflexivity. Qed.
Lemma sigs_ids i j : sigs i = sigs j -> bind_ids i = bind_ids j.
Proof.
  unfold sigs, bind_ids. intros H.
  assert (G : forall l, map ab_id l = map (fun x => fst (fst (fst x))) (map sig l)) by (intros l; rewrite map_map; reflexivity).
  rewrite !G, H. reflexivity.
Qed.

Lemma lookup_store_inv a d m x : lookup x (store a d m) <> None -> x = a \/ lookup x m <> None.
Proof.
  intros H. destruct (Z.eq_dec a x) as [->|Hne]; [left; reflexivity|]. rewrite lookup_store_other in H by exact Hne. right. exact H.
Qed.
Lemma bind_action_keys i s : keys_ok i -> keys_ok (bind_action i s).
Proof.
  unfold keys_ok, bind_ids, bind_action. intros Hk.
  destruct (extend s (in_binds i)) as [bs|] eqn:E; cbn [in_binds in_actions].
  - rewrite (RegistryP.extend_ids s (in_binds i) bs E). exact Hk.
  - intros x Hx. rewrite map_app. apply in_or_app. apply lookup_store_inv in Hx. destruct Hx as [->|Hx]; [right; left; reflexivity | left; apply Hk; exact Hx].
Qed.
Lemma instantiate_keys s : keys_ok (instantiate s).
Proof.
  unfold instantiate. assert (H0 : keys_ok (mkInst (i_pad s) [] [])) by (intros x H; exfalso; apply H; reflexivity).
  revert H0. generalize (mkInst (i_pad s) [] []). induction (i_actions s) as [|x l IH]; intros i Hi; cbn [fold_left]; [exact Hi|].
  apply IH. apply bind_action_keys. exact Hi.
Qed.
Lemma vdim_vzero dm : vdim (vzero dm) = dm.
Proof. destruct dm; reflexivity. Qed.
Lemma P_mk sc c e : P sc c e (mk_inst sc c e).
Proof.
  split; [reflexivity|]. split; [apply instantiate_keys|].
  intros x d Hx. destruct (mk_inst_fresh sc c e) as [_ Hf].
  assert (Hin : In x (ids (mk_inst sc c e))) by (apply (instantiate_keys (cfg_lookup sc c e)); unfold mk_inst in Hx; rewrite Hx; discriminate).
  rewrite (Hf x Hin) in Hx. injection Hx as <-. apply vdim_vzero.
Qed.

Lemma binds_update_P tm r dev recips bs : forall m c,
  let '(bs', m', _, _, _) := binds_update m tm r c dev recips bs in
  map sig bs' = map sig bs /\
  (forall x, lookup x m' <> None -> lookup x m <> None \/ In x (map ab_id bs)) /\
  ((forall x d, lookup x m = Some d -> vdim (d_value d) = aid_dim x) ->
   forall x d, lookup x m' = Some d -> vdim (d_value d) = aid_dim x).
Proof.
  induction bs as [|b bs IH]; intros m c; cbn [binds_update].
  - split; [reflexivity|]. split; [intros x H; left; exact H | intros H; exact H].
  - cbv zeta. destruct (JudgeC03P.action_update_shape m tm r c dev recips b) as [Hs _].
    destruct (action_update_result m tm r c dev recips b) as (s & v & bl & Hv & Hl & Ho & _). cbv zeta in *.
    set (o := action_update m tm r c dev recips b) in *. specialize (IH (o_actions o) (o_consumed o)).
    destruct (binds_update (o_actions o) tm r (o_consumed o) dev recips bs) as [[[[bs' m'] c'] ev] lg]. destruct IH as (I1 & I2 & I3).
    split; [cbn [map]; rewrite Hs, I1; reflexivity|]. split.
    + intros x Hx. destruct (I2 x Hx) as [H|H]; [|right; right; exact H].
      destruct (Z.eq_dec x (ab_id b)) as [->|Hne]; [right; left; reflexivity|]. left. rewrite <- (Ho x Hne). exact H.
    + intros Hd. apply I3. intros x d Hx. destruct (Z.eq_dec x (ab_id b)) as [->|Hne].
      * rewrite Hl in Hx. injection Hx as <-.
        destruct (data_update_fields (vdelta tm) (old_data m (ab_id b)) s v) as (_ & Hval & _). rewrite Hval. exact Hv.
      * rewrite (Ho x Hne) in Hx. exact (Hd x d Hx).
Qed.

Lemma inst_update_P sc c e0 tm r c1 recips i : P sc c e0 i -> P sc c e0 (io_inst (inst_update tm r c1 recips i)).
Proof.
  intros (Hs & Hk & Hd). unfold inst_update.
  pose proof (binds_update_P tm r (in_pad i) recips (in_binds i) (in_actions i) c1) as H.
  destruct (binds_update (in_actions i) tm r c1 (in_pad i) recips (in_binds i)) as [[[[bs m] c'] ev] lg].
  destruct H as (H1 & H2 & H3). cbn [io_inst].
  assert (Hids : map ab_id bs = map ab_id (in_binds i)).
  { change (bind_ids (mkInst (in_pad i) bs m) = bind_ids i). apply sigs_ids. exact H1. }
  split; [unfold sigs; cbn [in_binds]; rewrite H1; exact Hs|]. split.
  - intros x Hx. unfold bind_ids. cbn [in_binds in_actions] in *. rewrite Hids. destruct (H2 x Hx) as [H|H]; [apply Hk; exact H | exact H].
  - intros x d Hx. cbn [in_actions] in Hx. exact (H3 Hd x d Hx).
Qed.

(* what ContextInstances::get answers after an update *)
Lemma excl_update_get tm r insts : forall c0 e i',
  option_map snd (find (fun ei => Z.eqb (fst ei) e) (fst (fst (fst (excl_update tm r c0 insts))))) = Some i' ->
  exists i c1, option_map snd (find (fun ei => Z.eqb (fst ei) e) insts) = Some i /\ i' = io_inst (inst_update tm r c1 [e] i).
Proof.
  induction insts as [|[en i] rest IH]; intros c0 e i'; cbn [excl_update]; [cbn; discriminate|]. cbv zeta.
  specialize (IH (io_consumed (inst_update tm r c0 [en] i)) e i').
  destruct (excl_update tm r (io_consumed (inst_update tm r c0 [en] i)) rest) as [[[rest' c'] ev] lg]. cbn [fst snd find] in *.
  destruct (Z.eqb en e) eqn:E.
  - apply Z.eqb_eq in E. subst en. cbn [option_map snd]. intros [= <-]. exists i, c0. split; reflexivity.
  - exact IH.
Qed.
Lemma reg_update_get tm r gs : forall c0 c e i',
  reg_get c e (ro_reg (reg_update tm r c0 gs)) = Some i' ->
  exists i c1 recips, reg_get c e gs = Some i /\ i' = io_inst (inst_update tm r c1 recips i).
Proof.
  induction gs as [|[cx p insts|cx p ents i] gs IH]; intros c0 c e i'; cbn [reg_update].
  - cbn. discriminate.
  - pose proof (excl_update_get tm r insts c0 e i') as He. destruct (excl_update tm r c0 insts) as [[[insts' c'] ev] lg]. cbn [fst] in He.
    cbv zeta. cbn [ro_reg]. rewrite !tk_reg_get_cons. cbn [g_ctx]. destruct (Z.eqb cx c).
    + cbn [group_get]. intros H. destruct (He H) as (i & c1 & H1 & H2). exists i, c1, [e]. split; assumption.
    + apply IH.
  - cbv zeta. cbn [ro_reg]. rewrite !tk_reg_get_cons. cbn [g_ctx]. destruct (Z.eqb cx c).
    + cbn [group_get]. destruct (existsb (Z.eqb e) ents); [|discriminate]. intros [= <-]. exists i, c0, ents. split; reflexivity.
    + apply IH.
Qed.

Lemma K_reg sc w1 w2 : w_reg w1 = w_reg w2 -> K sc w1 -> K sc w2.
Proof. unfold K. intros <-. auto. Qed.
Lemma K_init sc : K sc world_init.
Proof. intros c e i H. cbn in H. discriminate. Qed.
Lemma K_update sc w h tm' tm r c0 : K sc w -> K sc (mkWorld h (ro_reg (reg_update tm r c0 (w_reg w))) tm').
Proof.
  intros HK c e i' Hg. cbn [w_reg] in Hg. destruct (reg_update_get tm r (w_reg w) c0 c e i' Hg) as (i & c1 & recips & H1 & ->).
  destruct (HK c e i H1) as (e0 & He0 & HP). exists e0. split; [exact He0 | apply inst_update_P; exact HP].
Qed.

(* --- operations: arrivals, departures, rebuilds (classification of Proofs/JudgeC07P.v section 4) --- *)
Lemma K_grow sc w w' bl : reg_inv sc w -> reg_inv sc w' -> JudgeC07P.grow sc w w' bl -> K sc w -> K sc w'.
Proof.
  intros Hinv Hinv' G HK c e i Hg.
  pose proof (mirror_some sc w' c e i Hinv' Hg) as Hh'.
  destruct (JudgeC07P.holds_dec w c e) as [Hh|Hh].
  - rewrite (JudgeC07P.g_keep _ _ _ _ G c e Hh) in Hg. exact (HK c e i Hg).
  - destruct (ctx_shared c) eqn:Hs.
    + destruct (JudgeC07P.someone_dec sc w c Hinv) as [(e1 & H1)|Hno].
      * pose proof (JudgeC07P.g_mono _ _ _ _ G c e1 H1) as H1'.
        destruct (inv_shared_common sc w' c Hinv' Hs e e1 Hh' H1') as (j & R1 & R2). rewrite Hg in R1. injection R1 as <-.
        rewrite (JudgeC07P.g_keep _ _ _ _ G c e1 H1) in R2. destruct (HK c e1 i R2) as (e0 & _ & HP).
        exists e0. split; [intros; congruence | exact HP].
      * destruct (proj2 (JudgeC07P.g_bs _ _ _ _ G c Hs) (conj (ex_intro _ e Hh') Hno)) as (e2 & Hin).
        destruct (JudgeC07P.g_fs _ _ _ _ G c Hs (ex_intro _ e2 Hin)) as (e0 & _ & Hall). rewrite (Hall e Hh') in Hg. injection Hg as <-.
        exists e0. split; [intros; congruence | apply P_mk].
    + assert (Hin : In (c, e) bl) by (apply (JudgeC07P.g_bx _ _ _ _ G c e Hs); split; assumption).
      rewrite (JudgeC07P.g_fx _ _ _ _ G c e Hs Hin) in Hg. injection Hg as <-. exists e. split; [reflexivity | apply P_mk].
Qed.
Lemma K_shrink sc w w' : reg_inv sc w' -> JudgeC07P.shrink w w' -> K sc w -> K sc w'.
Proof.
  intros Hinv' S HK c e i Hg. pose proof (mirror_some sc w' c e i Hinv' Hg) as Hh'.
  rewrite (JudgeC07P.s_keep _ _ S c e Hh') in Hg. exact (HK c e i Hg).
Qed.
Lemma K_rebuilt sc w w' bl : reg_inv sc w -> reg_inv sc w' -> JudgeC07P.rebuilt sc (s_menu sc) w w' bl -> K sc w'.
Proof.
  intros Hinv Hinv' R c e i Hg. pose proof (mirror_some sc w' c e i Hinv' Hg) as Hh'.
  pose proof (proj1 (JudgeC07P.r_holds _ _ _ _ _ R c e) Hh') as Hh.
  assert (Hc : In c (s_menu sc)).
  { destruct Hh as (cs & H1 & H2). destruct Hinv as (_ & _ & _ & _ & _ & Hcs). apply (Hcs e cs H1). apply memz_in. exact H2. }
  destruct (ctx_shared c) eqn:Hs.
  - destruct (JudgeC07P.r_bs _ _ _ _ _ R c Hs Hc (ex_intro _ e Hh)) as (e2 & Hin).
    destruct (JudgeC07P.r_fs _ _ _ _ _ R c Hs (ex_intro _ e2 Hin)) as (e0 & _ & Hall). rewrite (Hall e Hh') in Hg. injection Hg as <-.
    exists e0. split; [intros; congruence | apply P_mk].
  - pose proof (JudgeC07P.r_bx _ _ _ _ _ R c e Hs Hc Hh) as Hin.
    rewrite (JudgeC07P.r_fx _ _ _ _ _ R c e Hs Hin) in Hg. injection Hg as <-. exists e. split; [reflexivity | apply P_mk].
Qed.

Lemma apply_op_K sc w o oo : reg_inv sc w -> K sc w -> apply_op sc w o = Some oo -> K sc (oo_world oo).
Proof.
  intros Hinv HK Hop. destruct o as [e cs|e c|e c|e|]; cbn [apply_op] in *.
  - destruct (holds_of e (w_holds w)) as [old|] eqn:He.
    + injection Hop as <-. exact HK.
    + injection Hop as <-. pose proof (spawn_world_inv sc w e Hinv He) as Hinv0.
      set (w0 := mkWorld (w_holds w ++ [(e, [])]) (w_reg w) (w_time w)) in *.
      destruct (JudgeC07P.spawn_fold_grow sc e cs (mkOpOut w0 [] []) Hinv0) as (bl & _ & Hinv2 & G). cbn [oo_world] in G, Hinv2.
      exact (K_grow sc w0 _ bl Hinv0 Hinv2 G (K_reg sc w w0 eq_refl HK)).
  - injection Hop as <-. exact (K_grow sc w _ _ Hinv (insert_ctx_inv sc w e c Hinv) (JudgeC07P.insert_grow sc w e c Hinv) HK).
  - destruct (remove_ctx_spec sc w e c Hinv) as (o' & Ho' & Hinv' & _). rewrite Hop in Ho'. injection Ho' as <-.
    destruct (JudgeC07P.remove_shrink sc w e c oo Hinv Hop) as [S _]. exact (K_shrink sc w _ Hinv' S HK).
  - destruct (holds_of e (w_holds w)) as [cs0|] eqn:He.
    2:{ injection Hop as <-. exact HK. }
    change (match fold_left (despawn_f e) (filter (fun c => memz c cs0) (s_menu sc)) (Some (mkOpOut w [] [])) with
            | Some a => Some (mkOpOut (mkWorld (del_ent e (w_holds (oo_world a))) (w_reg (oo_world a)) (w_time w)) (oo_events a) [])
            | None => None end = Some oo) in Hop.
    destruct (fold_left (despawn_f e) _ _) as [a|] eqn:Ef; [|discriminate]. injection Hop as <-. cbn [oo_world].
    destruct (JudgeC07P.despawn_fold_shrink sc e _ (mkOpOut w [] []) a Hinv Ef) as [S Hinv1]. cbn [oo_world] in S.
    apply (K_reg sc (oo_world a)); [reflexivity|]. exact (K_shrink sc w _ Hinv1 S HK).
  - change (fold_left (rebuild_f sc) (s_menu sc) (Some (mkOpOut w [] [])) = Some oo) in Hop.
    destruct (JudgeC07P.rebuild_fold_rebuilt sc (s_menu sc) (mkOpOut w [] []) oo Hinv Hop) as (bl & _ & Hinv' & R). cbn [oo_world] in R.
    exact (K_rebuilt sc w _ bl Hinv Hinv' R).
Qed.

Lemma run_ops_K sc ops : forall w a, reg_inv sc w -> K sc w -> run_ops sc w ops = Some a -> K sc (oo_world a).
Proof.
  induction ops as [|o ops IH]; intros w a Hinv HK H.
  - rewrite run_ops_nil in H. injection H as <-. exact HK.
  - rewrite run_ops_cons in H. destruct (apply_op_inv sc w o Hinv) as (r & Hr & Hinv1). rewrite Hr in H.
    destruct (run_ops sc (oo_world r) ops) as [a2|] eqn:E2; [|discriminate]. cbn [option_map] in H. injection H as <-.
    cbn [prefix_out oo_world]. apply (IH (oo_world r) a2 Hinv1); [|exact E2]. exact (apply_op_K sc w o r Hinv HK Hr).
Qed.

Lemma step_res_K sc w st w' o : reg_inv sc w -> K sc w -> JudgeC07P.step_res sc w st = Some (w', o) -> K sc w'.
Proof.
  intros Hinv HK Hs. destruct st as [op|f]; cbn [JudgeC07P.step_res] in Hs.
  - destruct (apply_op sc w op) as [oo|] eqn:Eo; [|discriminate]. injection Hs as <- _. exact (apply_op_K sc w op oo Hinv HK Eo).
  - destruct (frame sc w f) as [fo|] eqn:Ef; [|discriminate]. injection Hs as <- _.
    destruct (frame_decompose sc w f fo Ef) as (_ & a & Hops & Hw & _). cbv zeta in Hops. rewrite Hw.
    apply (run_ops_K sc (f_ops f) _ a (reg_update_inv sc w (frame_time f) (f_raw f) (update_state (f_raw f)) Hinv)); [|exact Hops].
    apply K_update. exact HK.
Qed.

(* ================================================================================================ *)
(* 5. the profile: a computable condition on the scenario alone                                     *)
(* ================================================================================================ *)
Notation nodupz := JudgeC12P.nodupz.
Notation disjz := JudgeC12P.disjz.
Definition cfg_entry := (ctx * entity * inst_spec)%type.
Definition key_eqb (x y : cfg_entry) : bool := Z.eqb (fst (fst x)) (fst (fst y)) && Z.eqb (snd (fst x)) (snd (fst y)).
Fixpoint nodup_keys (l : list cfg_entry) : bool :=
  match l with [] => true | x :: r => negb (existsb (key_eqb x) r) && nodup_keys r end.
(* all log ids of a configuration (modifiers and conditions, both levels); the action ids it binds *)
Definition sids (s : inst_spec) : list Z := JudgeC03P.all_ids (merged_actions s).
Definition aids_of (s : inst_spec) : list Z := map a_id (i_actions s).
Definition same_shared (x y : cfg_entry) : bool := Z.eqb (fst (fst x)) (fst (fst y)) && ctx_shared (fst (fst x)).
Definition is_evb (k : ckind) : bool := match k with KBlocker true => true | _ => false end.
Definition ckind_eqb (a b : ckind) : bool :=
  match a, b with
  | KExplicit, KExplicit | KImplicit, KImplicit => true
  | KBlocker x, KBlocker y => Bool.eqb x y
  | _, _ => false
  end.
(* what the judgement reads of a binding: the action and the (log id, kind) of its action-level conditions *)
Definition csig (b : abind) : Z * list (Z * ckind) := (ab_id b, ck_of (ab_conds b)).
Definition zk_eqb (a b : Z * ckind) : bool := Z.eqb (fst a) (fst b) && ckind_eqb (snd a) (snd b).
Definition csig_eqb (a b : Z * list (Z * ckind)) : bool := Z.eqb (fst a) (fst b) && list_eqb zk_eqb (snd a) (snd b).

(* one configuration per (context type, entity) *)
Definition p_keys (sc : scenario) : bool := nodup_keys (s_cfg sc).
(* an action type is bound by one context type only (events carry no context) *)
Definition p_owner (sc : scenario) : bool :=
  forallb (fun x => forallb (fun y => Z.eqb (fst (fst x)) (fst (fst y)) || disjz (aids_of (snd x)) (aids_of (snd y))) (s_cfg sc)) (s_cfg sc).
(* log ids are distinct inside a configuration and across configurations (the holders of a shared type excepted) *)
Definition p_ids (sc : scenario) : bool :=
  forallb (fun x => nodupz (sids (snd x))) (s_cfg sc) &&
  forallb (fun x => forallb (fun y => key_eqb x y || same_shared x y || disjz (sids (snd x)) (sids (snd y))) (s_cfg sc)) (s_cfg sc).
(* the holders of a shared context type are configured alike, as far as the judgement looks *)
Definition p_shared (sc : scenario) : bool :=
  forallb (fun x => forallb (fun y => negb (same_shared x y) ||
     list_eqb csig_eqb (map csig (merged_actions (snd x))) (map csig (merged_actions (snd y)))) (s_cfg sc)) (s_cfg sc).
(* events-only blockers at action level only *)
Definition p_inputs (sc : scenario) : bool :=
  forallb (fun x => forallb (fun b => forallb (fun ib => negb (existsb (fun ic => is_evb (cond_kind (snd ic))) (ib_conds ib)))
                                             (ab_inputs b)) (merged_actions (snd x))) (s_cfg sc).

Definition profile_C01b (sc : scenario) : bool := p_keys sc && p_owner sc && p_ids sc && p_shared sc && p_inputs sc.
Definition profile_C01 (sc : scenario) : Prop := profile_C01b sc = true.

(* ---- the profile as facts ---- *)
Definition cfgids (sc : scenario) (c : ctx) (e : entity) : list Z := sids (cfg_lookup sc c e).
Record facts (sc : scenario) : Prop := mkFacts {
  f_key : forall x, In x (s_cfg sc) -> cfg_lookup sc (fst (fst x)) (snd (fst x)) = snd x;
  f_owner : forall c c' e e' a, c' <> c -> In a (ids (mk_inst sc c e)) -> ~ In a (ids (mk_inst sc c' e'));
  f_nd : forall c e, NoDup (cfgids sc c e);
  f_dj : forall c1 e1 c2 e2 x, c1 <> c2 \/ (ctx_shared c1 = false /\ e1 <> e2) -> In x (cfgids sc c1 e1) -> ~ In x (cfgids sc c2 e2);
  f_shared : forall c e1 e2, ctx_shared c = true -> has_cfg sc c e1 = true -> has_cfg sc c e2 = true ->
             map csig (in_binds (mk_inst sc c e1)) = map csig (in_binds (mk_inst sc c e2));
  f_inputs : forall c e b, In b (in_binds (mk_inst sc c e)) -> inputs_free b }.

Lemma key_eqb_iff x y : key_eqb x y = true <-> fst x = fst y.
Proof.
  unfold key_eqb. rewrite andb_true_iff, !Z.eqb_eq. destruct x as [[c e] s], y as [[c' e'] s']. cbn [fst snd].
  split; [intros [-> ->]; reflexivity | intros [= -> ->]; split; reflexivity].
Qed.
Lemma nodup_keys_inj l : nodup_keys l = true -> forall x y, In x l -> In y l -> fst x = fst y -> x = y.
Proof.
  induction l as [|z l IH]; cbn [nodup_keys]; intros H x y Hx Hy E; [destruct Hx|].
  apply andb_true_iff in H. destruct H as [H1 H2]. apply negb_true_iff in H1.
  assert (Hno : forall u, In u l -> fst z <> fst u).
  { intros u Hu E'. assert (X : existsb (key_eqb z) l = true) by (apply existsb_exists; exists u; split; [exact Hu | apply key_eqb_iff; exact E']). congruence. }
  destruct Hx as [<-|Hx], Hy as [<-|Hy].
  - reflexivity.
  - exfalso. exact (Hno y Hy E).
  - exfalso. exact (Hno x Hx (eq_sym E)).
  - exact (IH H2 x y Hx Hy E).
Qed.

Lemma cfg_cases sc c e :
  (cfg_lookup sc c e = mkSpec None [] /\ has_cfg sc c e = false) \/
  (exists x, In x (s_cfg sc) /\ fst x = (c, e) /\ cfg_lookup sc c e = snd x /\ has_cfg sc c e = true).
Proof.
  unfold cfg_lookup, has_cfg.
  destruct (find (fun x => Z.eqb (fst (fst x)) c && Z.eqb (snd (fst x)) e) (s_cfg sc)) as [x|] eqn:Ef.
  - right. pose proof (find_some _ _ Ef) as [Hin Hp]. exists x. split; [exact Hin|]. split; [|split; [reflexivity|]].
    + apply andb_true_iff in Hp. destruct Hp as [H1 H2]. apply Z.eqb_eq in H1. apply Z.eqb_eq in H2. clear Ef Hin. destruct x as [[c' e'] s]. cbn [fst snd] in *. subst. reflexivity.
    + apply existsb_exists. exists x. split; assumption.
  - left. split; [reflexivity|]. apply JudgeC07P.existsb_false. intros x Hx. exact (find_none _ _ Ef x Hx).
Qed.
Lemma cfg_key sc : p_keys sc = true -> forall x, In x (s_cfg sc) -> cfg_lookup sc (fst (fst x)) (snd (fst x)) = snd x.
Proof.
  intros Hk x Hx. destruct (cfg_cases sc (fst (fst x)) (snd (fst x))) as [[_ Hn]|(y & Hy & Ek & El & _)].
  - exfalso. unfold has_cfg in Hn. assert (X : existsb (fun x0 => Z.eqb (fst (fst x0)) (fst (fst x)) && Z.eqb (snd (fst x0)) (snd (fst x))) (s_cfg sc) = true).
    { apply existsb_exists. exists x. split; [exact Hx | rewrite !Z.eqb_refl; reflexivity]. }
    congruence.
  - rewrite El. f_equal. apply (nodup_keys_inj _ Hk y x Hy Hx). rewrite Ek. destruct x as [[c e] s]. reflexivity.
Qed.

Lemma list_eqb_eq {A} (f : A -> A -> bool) : (forall x y, f x y = true -> x = y) -> forall a b, list_eqb f a b = true -> a = b.
Proof.
  intros Hf. induction a as [|x a IH]; intros [|y b] H; cbn [list_eqb] in H; try discriminate; [reflexivity|].
  apply andb_true_iff in H. destruct H as [H1 H2]. rewrite (Hf x y H1), (IH b H2). reflexivity.
Qed.
Lemma zk_eqb_eq x y : zk_eqb x y = true -> x = y.
Proof.
  unfold zk_eqb. intros H. apply andb_true_iff in H. destruct H as [H1 H2]. apply Z.eqb_eq in H1. destruct x as [i k], y as [j k']. cbn [fst snd] in *.
  subst j. f_equal. destruct k as [| |b], k' as [| |b']; cbn in H2; try discriminate; try reflexivity. apply eqb_prop in H2. congruence.
Qed.
Lemma csig_eqb_eq x y : csig_eqb x y = true -> x = y.
Proof.
  unfold csig_eqb. intros H. apply andb_true_iff in H. destruct H as [H1 H2]. apply Z.eqb_eq in H1. destruct x as [i l], y as [j l']. cbn [fst snd] in *.
  subst j. f_equal. exact (list_eqb_eq zk_eqb zk_eqb_eq l l' H2).
Qed.

Lemma sids_empty : sids (mkSpec None []) = [].
Proof. reflexivity. Qed.

Lemma profile_facts sc : profile_C01 sc -> facts sc.
Proof.
  unfold profile_C01, profile_C01b. intros H.
  apply andb_true_iff in H. destruct H as [H Hinp]. apply andb_true_iff in H. destruct H as [H Hsh].
  apply andb_true_iff in H. destruct H as [H Hids]. apply andb_true_iff in H. destruct H as [Hk How].
  apply andb_true_iff in Hids. destruct Hids as [Hnd Hdj].
  unfold p_owner in How. unfold p_shared in Hsh. unfold p_inputs in Hinp. rewrite forallb_forall in How, Hnd, Hdj, Hsh, Hinp.
  constructor.
  - exact (cfg_key sc Hk).
  - intros c c' e e' a Hne Hin Hin'. unfold mk_inst in Hin, Hin'. apply JudgeC07P.in_ids_instantiate in Hin. apply JudgeC07P.in_ids_instantiate in Hin'.
    destruct (cfg_cases sc c e) as [[E _]|(x & Hx & Ekx & Elx & _)]; [rewrite E in Hin; destruct Hin|].
    destruct (cfg_cases sc c' e') as [[E _]|(y & Hy & Eky & Ely & _)]; [rewrite E in Hin'; destruct Hin'|].
    rewrite Elx in Hin. rewrite Ely in Hin'. specialize (How x Hx). rewrite forallb_forall in How. specialize (How y Hy).
    apply orb_true_iff in How. destruct How as [How|How]; [|exact (JudgeC12P.disjz_spec _ _ a How Hin Hin')].
    apply Z.eqb_eq in How. destruct x as [[cx ex] sx], y as [[cy ey] sy]. cbn [fst snd] in *.
    injection Ekx as -> ->. injection Eky as -> ->. apply Hne. symmetry. exact How.
  - intros c e. unfold cfgids. destruct (cfg_cases sc c e) as [[E _]|(x & Hx & _ & El & _)]; rewrite ?E, ?El; [constructor|].
    apply JudgeC12P.nodupz_spec. exact (Hnd x Hx).
  - intros c1 e1 c2 e2 z Hor H1 H2. unfold cfgids in *.
    destruct (cfg_cases sc c1 e1) as [[E _]|(x & Hx & Ekx & Elx & _)]; [rewrite E in H1; destruct H1|].
    destruct (cfg_cases sc c2 e2) as [[E _]|(y & Hy & Eky & Ely & _)]; [rewrite E in H2; destruct H2|].
    rewrite Elx in H1. rewrite Ely in H2. specialize (Hdj x Hx). rewrite forallb_forall in Hdj. specialize (Hdj y Hy).
    apply orb_true_iff in Hdj. destruct Hdj as [Hdj|Hdj]; [|exact (JudgeC12P.disjz_spec _ _ z Hdj H1 H2)].
    exfalso. unfold key_eqb, same_shared in Hdj. destruct x as [[cx ex] sx], y as [[cy ey] sy]. cbn [fst snd] in *.
    injection Ekx as -> ->. injection Eky as -> ->.
    apply orb_true_iff in Hdj. destruct Hdj as [Hdj|Hdj]; apply andb_true_iff in Hdj; destruct Hdj as [D1 D2]; apply Z.eqb_eq in D1.
    + apply Z.eqb_eq in D2. destruct Hor as [Hor|[_ Hor]]; [exact (Hor D1) | exact (Hor D2)].
    + destruct Hor as [Hor|[Hor _]]; [exact (Hor D1) | congruence].
  - intros c e1 e2 Hs H1 H2. unfold mk_inst.
    destruct (cfg_cases sc c e1) as [[_ E]|(x & Hx & Ekx & Elx & _)]; [congruence|].
    destruct (cfg_cases sc c e2) as [[_ E]|(y & Hy & Eky & Ely & _)]; [congruence|].
    rewrite Elx, Ely. specialize (Hsh x Hx). rewrite forallb_forall in Hsh. specialize (Hsh y Hy).
    apply orb_true_iff in Hsh. destruct Hsh as [Hsh|Hsh]; [|exact (list_eqb_eq csig_eqb csig_eqb_eq _ _ Hsh)].
    exfalso. apply negb_true_iff in Hsh. unfold same_shared in Hsh. destruct x as [[cx ex] sx], y as [[cy ey] sy]. cbn [fst snd] in *.
    injection Ekx as -> ->. injection Eky as -> ->. rewrite Z.eqb_refl, Hs in Hsh. discriminate.
  - intros c e b Hb. unfold mk_inst in Hb. destruct (cfg_cases sc c e) as [[E _]|(x & Hx & _ & El & _)]; [rewrite E in Hb; destruct Hb|].
    rewrite El in Hb. specialize (Hinp x Hx). rewrite forallb_forall in Hinp. specialize (Hinp b Hb). rewrite forallb_forall in Hinp.
    unfold inputs_free. apply Forall_forall. intros ib Hib Hin. specialize (Hinp ib Hib). apply negb_true_iff in Hinp.
    unfold conds_kinds in Hin. apply in_map_iff in Hin. destruct Hin as (ic & Hk' & Hic).
    assert (X : existsb (fun ic => is_evb (cond_kind (snd ic))) (ib_conds ib) = true) by (apply existsb_exists; exists ic; split; [exact Hic | rewrite Hk'; reflexivity]).
    congruence.
Qed.

(* ================================================================================================ *)
(* 6. the invariant, group by group; the ids of a frame's log are pairwise distinct                 *)
(* ================================================================================================ *)
Definition Sg (sc : scenario) (g : group) : Prop :=
  match g with
  | GExcl c _ insts => Forall (fun ei => P sc c (fst ei) (snd ei)) insts
  | GShared c _ _ i => exists e0, P sc c e0 i
  end.

Lemma K_S sc w : reg_inv sc w -> K sc w -> Forall (Sg sc) (w_reg w).
Proof.
  intros Hinv HK. apply Forall_forall. intros g Hg. destruct (ctx_shared (g_ctx g)) eqn:Hs.
  - destruct (inv_shared sc w (g_ctx g) g Hinv Hg eq_refl Hs) as (ents & i & Eg & _ & Hne & _ & Hget). rewrite Eg. cbn [Sg].
    destruct ents as [|e0 ents]; [congruence|]. specialize (Hget e0).
    assert (Hm : memz e0 (e0 :: ents) = true) by (apply memz_in; left; reflexivity). rewrite Hm in Hget.
    destruct (HK _ _ _ Hget) as (e1 & _ & HP). exists e1. exact HP.
  - destruct (inv_exclusive sc w (g_ctx g) g Hinv Hg eq_refl Hs) as (insts & Eg & _ & _ & Hget). rewrite Eg. cbn [Sg].
    apply Forall_forall. intros [e i] Hin. cbn [fst snd]. destruct (HK _ _ _ (proj2 (Hget e i) Hin)) as (e0 & He0 & HP).
    rewrite <- (He0 Hs). exact HP.
Qed.

Lemma inst_ids_thin sc c e0 r i : P sc c e0 i -> JudgeC03P.thin (JudgeC12P.inst_ids r i) (cfgids sc c e0).
Proof.
  intros (Hs & _). unfold JudgeC12P.inst_ids, cfgids, sids. rewrite flat_map_concat_map.
  change (merged_actions (cfg_lookup sc c e0)) with (in_binds (mk_inst sc c e0)).
  rewrite <- (JudgeC03P.all_ids_sig _ _ Hs). unfold JudgeC03P.all_ids. apply JudgeC03P.thin_concat. intros b.
  unfold JudgeC12P.sk_abind_ids, JudgeC03P.ab_ids. apply JudgeC03P.thin_app; [|apply JudgeC03P.thin_refl].
  unfold JudgeC12P.sk_inputs_ids.
  apply (JudgeC03P.thin_concat JudgeC03P.ib_ids (fun ib => input_ids (JudgeC12P.frame_sk r (in_pad i) ib) ib)).
  intros ib. apply JudgeC03P.input_ids_thin.
Qed.

Section LogIds.
  Variable sc : scenario.
  Hypothesis F : facts sc.
  Variable r : raw.

  Lemma excl_ids_nodup c insts : ctx_shared c = false -> NoDup (map fst insts) ->
    Forall (fun ei => P sc c (fst ei) (snd ei)) insts ->
    NoDup (flat_map (fun ei => JudgeC12P.inst_ids r (snd ei)) insts) /\
    forall x, In x (flat_map (fun ei => JudgeC12P.inst_ids r (snd ei)) insts) -> exists e', In e' (map fst insts) /\ In x (cfgids sc c e').
  Proof.
    intros Hs. induction insts as [|[e i] rest IH]; intros Hnd HP.
    - split; [constructor | intros x []].
    - cbn [map fst] in Hnd. inversion Hnd as [|? ? Hn1 Hn2]; subst. inversion HP as [|? ? HP1 HP2]; subst. cbn [fst snd] in *.
      destruct (IH Hn2 HP2) as [I1 I2]. destruct (inst_ids_thin sc c e r i HP1) as [Hincl Hn].
      cbn [flat_map snd]. split.
      + apply JudgeC03P.nodup_app. split; [apply Hn, (f_nd sc F)|]. split; [exact I1|].
        intros x Hx Hx'. destruct (I2 x Hx') as (e' & He' & Hin').
        apply (f_dj sc F c e c e' x); [right; split; [exact Hs | intros ->; contradiction] | apply Hincl; exact Hx | exact Hin'].
      + intros x Hx. apply in_app_or in Hx. destruct Hx as [Hx|Hx].
        * exists e. split; [left; reflexivity | apply Hincl; exact Hx].
        * destruct (I2 x Hx) as (e' & He' & Hin'). exists e'. split; [right; exact He' | exact Hin'].
  Qed.

  Lemma group_ids_nodup g : group_ok g -> Sg sc g ->
    NoDup (JudgeC12P.group_ids r g) /\ forall x, In x (JudgeC12P.group_ids r g) -> exists e', In x (cfgids sc (g_ctx g) e').
  Proof.
    intros (_ & Gs & _ & Gn & _) HS. destruct g as [c p insts|c p ents i]; cbn [Sg g_shared g_ctx g_ents JudgeC12P.group_ids] in *.
    - destruct (excl_ids_nodup c insts (eq_sym Gs) Gn HS) as [I1 I2]. split; [exact I1|].
      intros x Hx. destruct (I2 x Hx) as (e' & _ & Hin). exists e'. exact Hin.
    - destruct HS as (e0 & HP). destruct (inst_ids_thin sc c e0 r i HP) as [Hincl Hn]. split; [apply Hn, (f_nd sc F)|].
      intros x Hx. exists e0. apply Hincl. exact Hx.
  Qed.

  Lemma reg_ids_nodup gs : NoDup (map g_ctx gs) -> Forall group_ok gs -> Forall (Sg sc) gs -> NoDup (flat_map (JudgeC12P.group_ids r) gs).
  Proof.
    induction gs as [|g gs IH]; intros Hnd Hok HS; [constructor|].
    cbn [map] in Hnd. inversion Hnd as [|? ? Hn1 Hn2]; subst. inversion Hok as [|? ? Ho1 Ho2]; subst. inversion HS as [|? ? HS1 HS2]; subst.
    destruct (group_ids_nodup g Ho1 HS1) as [G1 G2]. cbn [flat_map]. apply JudgeC03P.nodup_app. split; [exact G1|]. split; [apply IH; assumption|].
    intros x Hx Hx'. destruct (G2 x Hx) as (e1 & H1). apply in_flat_map in Hx'. destruct Hx' as (g' & Hg' & Hx').
    rewrite Forall_forall in Ho2, HS2. destruct (group_ids_nodup g' (Ho2 g' Hg') (HS2 g' Hg')) as [_ G2']. destruct (G2' x Hx') as (e2 & H2).
    apply (f_dj sc F (g_ctx g) e1 (g_ctx g') e2 x); [left | exact H1 | exact H2].
    intros E. apply Hn1. rewrite E. apply in_map. exact Hg'.
  Qed.
End LogIds.

Lemma frame_log_nodup sc w tm r c0 : facts sc -> reg_inv sc w -> K sc w ->
  NoDup (map log_id (ro_log (reg_update tm r c0 (w_reg w)))).
Proof.
  intros F Hinv HK. rewrite <- JudgeC12P.log_ids_map, JudgeC12P.reg_update_log_ids.
  pose proof (K_S sc w Hinv HK) as HS. destruct Hinv as (_ & Hd & Hf & _). apply (reg_ids_nodup sc F); assumption.
Qed.

(* ================================================================================================ *)
(* 7. one entry of the judgement against the frame of a world satisfying the invariant               *)
(* ================================================================================================ *)
Lemma sig_csig b b' : sig b = sig b' -> csig b = csig b'.
Proof. unfold JudgeC03P.sig, csig. intros [= H1 _ H3 _]. rewrite H1, H3. reflexivity. Qed.
Lemma conds_kinds_ck cs : conds_kinds cs = map snd (ck_of cs).
Proof. unfold conds_kinds, JudgeC03P.ck_of. rewrite map_map. reflexivity. Qed.
Lemma inputs_free_sig b b' : sig b = sig b' -> inputs_free b' -> inputs_free b.
Proof.
  unfold JudgeC03P.sig, inputs_free. intros [= _ _ _ H4] Hf.
  assert (G : forall l, Forall (fun ib => ~ In (KBlocker true) (conds_kinds (ib_conds ib))) l <->
                        Forall (fun s : list Z * list (Z * ckind) => ~ In (KBlocker true) (map snd (snd s))) (map JudgeC03P.isig l)).
  { intros l. rewrite Forall_map. split; intros H; (eapply Forall_impl; [|exact H]); intros ib; cbv beta; rewrite conds_kinds_ck; cbn [JudgeC03P.isig snd]; auto. }
  apply G. rewrite H4. apply G. exact Hf.
Qed.

(* the static side: what the profile says about an instance that satisfies P, seen from the entry (c, e, b0) *)
Lemma P_good sc (F : facts sc) c e b0 cg e1 i1 recips :
  In b0 (in_binds (mk_inst sc c e)) -> has_cfg sc c e = true ->
  P sc cg e1 i1 -> inst_wf i1 -> (ctx_shared cg = false -> In e recips -> e1 = e) ->
  inst_good2 e (ab_id b0) (ck_of (ab_conds b0)) recips i1 /\ (cg <> c -> ~ In (ab_id b0) (bind_ids i1)).
Proof.
  intros Hb0 Hcfg (Hs & _) Hwf Hrec.
  assert (Ha0 : In (ab_id b0) (ids (mk_inst sc c e))) by (unfold ids; apply in_map; exact Hb0).
  assert (Hids : bind_ids i1 = ids (mk_inst sc cg e1)) by (apply sigs_ids; exact Hs).
  assert (Hnd : NoDup (ids (mk_inst sc c e))) by (apply mk_inst_fresh).
  split; [|intros Hne; rewrite Hids; exact (f_owner sc F c cg e e1 _ Hne Ha0)].
  split; [exact Hwf|]. split; [rewrite Hids; apply mk_inst_fresh|].
  intros b Hb Hid.
  destruct (@JudgeC03P.sig_find (in_binds (mk_inst sc cg e1)) (in_binds i1) b (eq_sym Hs) Hb) as (b' & Hb' & Hsig).
  split; [apply (inputs_free_sig b b' (eq_sym Hsig)); exact (f_inputs sc F cg e1 b' Hb')|].
  intros Hin.
  assert (Hid' : ab_id b' = ab_id b0) by (rewrite <- Hid, !sig_id, Hsig; reflexivity).
  assert (Hcg : cg = c).
  { destruct (Z.eq_dec cg c) as [E|Hne]; [exact E|]. exfalso. apply (f_owner sc F c cg e e1 _ Hne Ha0). rewrite <- Hid'. unfold ids. apply in_map. exact Hb'. }
  subst cg. pose proof (sig_csig _ _ Hsig) as Hcs. unfold csig in Hcs. injection Hcs as _ Hck. rewrite <- Hck.
  destruct (ctx_shared c) eqn:Hsh.
  - destruct (cfg_cases sc c e1) as [[E _]|(_ & _ & _ & _ & Hcfg1)].
    { unfold mk_inst in Hb'. rewrite E in Hb'. destruct Hb'. }
    pose proof (f_shared sc F c e1 e Hsh Hcfg1 Hcfg) as Heq.
    assert (Hc' : In (csig b') (map csig (in_binds (mk_inst sc c e)))) by (rewrite <- Heq; apply in_map; exact Hb').
    apply in_map_iff in Hc'. destruct Hc' as (b'' & Hcs & Hb''). unfold csig in Hcs. injection Hcs as Hi Hk. rewrite <- Hk.
    f_equal. f_equal. apply (JudgeC12P.NoDup_map_inj ab_id (in_binds (mk_inst sc c e))); [exact Hnd | exact Hb'' | exact Hb0 | congruence].
  - rewrite (Hrec eq_refl Hin) in Hb'. f_equal. f_equal.
    apply (JudgeC12P.NoDup_map_inj ab_id (in_binds (mk_inst sc c e))); [exact Hnd | exact Hb' | exact Hb0 | exact Hid'].
Qed.

Lemma K_group_good sc (F : facts sc) w c e b0 :
  reg_inv sc w -> K sc w -> In b0 (in_binds (mk_inst sc c e)) -> has_cfg sc c e = true ->
  Forall (group_good2 e (ab_id b0) (ck_of (ab_conds b0)) c) (w_reg w).
Proof.
  intros Hinv HK Hb0 Hcfg. pose proof (K_S sc w Hinv HK) as HS. destruct Hinv as (_ & _ & Hok & _).
  rewrite Forall_forall in *. intros g Hg. specialize (HS g Hg). destruct (Hok g Hg) as (_ & Gs & _ & Gn & Gw).
  unfold group_good2. split; [exact Gn|]. unfold ginsts_wf in Gw. rewrite Forall_forall in Gw.
  destruct g as [cg p insts|cg p ents i]; cbn [Sg g_ctx g_insts g_shared g_ents] in *.
  - rewrite Forall_forall in HS. split.
    + apply Forall_forall. intros [e1 i1] Hin. cbn [fst snd].
      apply (P_good sc F c e b0 cg e1 i1 [e1] Hb0 Hcfg (HS _ Hin)).
      * apply Gw. apply in_map_iff. exists (e1, i1). split; [reflexivity | exact Hin].
      * intros _ [H|[]]. exact H.
    + intros Hne. apply Forall_forall. intros i1 Hi1. apply in_map_iff in Hi1. destruct Hi1 as ([e1 i1'] & <- & Hin). cbn [snd].
      apply (P_good sc F c e b0 cg e1 i1' [e1] Hb0 Hcfg (HS _ Hin)); [|intros _ [H|[]]; exact H|exact Hne].
      apply Gw. apply in_map_iff. exists (e1, i1'). split; [reflexivity | exact Hin].
  - destruct HS as (e0 & HP).
    assert (G : inst_good2 e (ab_id b0) (ck_of (ab_conds b0)) ents i /\ (cg <> c -> ~ In (ab_id b0) (bind_ids i))).
    { apply (P_good sc F c e b0 cg e0 i ents Hb0 Hcfg HP); [apply Gw; left; reflexivity|]. intros Hx. congruence. }
    split; [exact (proj1 G)|]. intros Hne. constructor; [exact (proj2 G Hne) | constructor].
Qed.

(* reading the verdict of the events-only blockers back from a log with distinct ids *)
Lemma ev_blocked_rs b0 lg rs : NoDup (map log_id lg) -> map fst rs = ck_of (ab_conds b0) -> logged rs lg ->
  ev_blocked b0 lg = existsb blk rs.
Proof.
  intros Hnd. unfold ev_blocked. generalize (ab_conds b0). intros cs. revert rs.
  induction cs as [|ic cs IH]; intros [|x rs] Hm Hlog; try discriminate; [reflexivity|].
  cbn [map JudgeC03P.ck_of] in Hm. injection Hm as Hx Hm. cbn [existsb].
  rewrite (IH rs Hm (fun y Hy => Hlog y (or_intror Hy))). f_equal.
  destruct (Hlog x (or_introl eq_refl)) as (vin & sn & Hin). destruct x as [[id k] s]. cbn [fst snd] in *. injection Hx as -> ->.
  rewrite (JudgeC03P.find_cond_in lg Hnd _ _ _ _ Hin). unfold blk. cbn [fst snd]. reflexivity.
Qed.

(* the frame of a world, for one entry of the configuration *)
Theorem frame_entry sc (F : facts sc) w tm r c0 x b0 i' d' :
  reg_inv sc w -> K sc w -> In x (s_cfg sc) -> In b0 (merged_actions (snd x)) ->
  let c := fst (fst x) in let e := snd (fst x) in let a := ab_id b0 in
  let o := reg_update tm r c0 (w_reg w) in
  reg_get c e (ro_reg o) = Some i' -> lookup a (in_actions i') = Some d' ->
  exists main i d s1 v,
    ro_events o = Some main /\ reg_get c e (w_reg w) = Some i /\ lookup a (in_actions i) = Some d /\
    d' = data_update (vdelta tm) d s1 v /\ vdim v = aid_dim a /\
    ev_of e a main = (if ev_blocked b0 (ro_log o) then [] else map (fun k => mk_event a d' k e) (table (d_state d) s1)).
Proof.
  intros Hinv HK Hx Hb0 c e a o Hg' Hl'.
  assert (Hlk : cfg_lookup sc c e = snd x) by (apply (f_key sc F); exact Hx).
  assert (Hb0' : In b0 (in_binds (mk_inst sc c e))) by (unfold mk_inst; rewrite Hlk; exact Hb0).
  assert (Hcfg : has_cfg sc c e = true).
  { unfold has_cfg. apply existsb_exists. exists x. split; [exact Hx | subst c e; rewrite !Z.eqb_refl; reflexivity]. }
  pose proof (K_group_good sc F w c e b0 Hinv HK Hb0' Hcfg) as Hgood.
  pose proof (frame_log_nodup sc w tm r c0 F Hinv HK) as Hnd. fold o in Hnd.
  assert (Hd : NoDup (map g_ctx (w_reg w))) by (destruct Hinv as (_ & H & _); exact H).
  destruct (reg_track2 e a tm r (ck_of (ab_conds b0)) c (w_reg w) c0 Hd Hgood) as (main & Hev & Htr). fold o in Hev, Htr.
  (* the instance after the update binds a *)
  pose proof (K_update sc w (w_holds w) tm tm r c0 HK) as HK'. fold o in HK'.
  destruct (HK' c e i' Hg') as (e0 & _ & (_ & Hkeys & _)).
  assert (Hst' : stored (ro_reg o) c e a = Some d').
  { apply stored_some. exists i'. split; [exact Hg'|]. split; [|exact Hl']. apply Hkeys. rewrite Hl'. discriminate. }
  unfold track_res2 in Htr. destruct (stored (w_reg w) c e a) as [d|] eqn:Est.
  2:{ destruct Htr as [_ Hn]. congruence. }
  destruct Htr as (s1 & v & rs & Hv & Hnew & Hevs & Hck & Hlog). cbv zeta in *.
  apply stored_some in Est. destruct Est as (i & Hg & _ & Hl).
  exists main, i, d, s1, v. split; [exact Hev|]. split; [exact Hg|]. split; [exact Hl|]. split; [congruence|]. split; [exact Hv|].
  rewrite (ev_blocked_rs b0 (ro_log o) rs Hnd Hck Hlog), Hevs. replace d' with (data_update (vdelta tm) d s1 v) by congruence. reflexivity.
Qed.

(* ================================================================================================ *)
(* 8. the clauses of one step                                                                       *)
(* ================================================================================================ *)
(* what the judgement knows of the state before a step: the previous output shows the world, or nothing has happened yet *)
Definition prev_rel (sc : scenario) (w : world) (prev : out) : Prop :=
  x_snaps prev = model_snaps sc w \/ (w = world_init /\ x_snaps prev = []).

Lemma snap_of_entry_some sc w c e a s : snap_of_entry c e a (model_snaps sc w) = Some s ->
  In c (s_menu sc) /\ In e (s_ents sc) /\ has_cfg sc c e = true /\ In a (spec_aids (cfg_lookup sc c e)) /\ JudgeC07P.snapv w c e a = Some s.
Proof.
  unfold snap_of_entry.
  destruct (find (fun x => match x with sn c' e' a' _ => Z.eqb c c' && Z.eqb e e' && Z.eqb a a' end) (model_snaps sc w)) as [[c' e' a' os]|] eqn:Ef; [|discriminate].
  intros ->. apply find_some in Ef. destruct Ef as [Hin Hp].
  apply andb_true_iff in Hp. destruct Hp as [Hp H3]. apply andb_true_iff in Hp. destruct Hp as [H1 H2].
  apply Z.eqb_eq in H1. apply Z.eqb_eq in H2. apply Z.eqb_eq in H3. subst c' e' a'.
  apply JudgeC07P.in_model_snaps in Hin. destruct Hin as (c' & e' & a' & Hc & He & Ec & Ha & [= -> -> -> Hs]). repeat (split; [assumption|]). symmetry. exact Hs.
Qed.

Lemma dim_eqb_refl d : dim_eqb d d = true.
Proof. destruct d; reflexivity. Qed.
Lemma clause3_ok sc w c e a s : K sc w -> JudgeC07P.snapv w c e a = Some s -> dim_eqb (vdim (sn_value s)) (aid_dim a) = true.
Proof.
  intros HK. unfold JudgeC07P.snapv. destruct (reg_get c e (w_reg w)) as [i|] eqn:Eg; [|discriminate].
  destruct (lookup a (in_actions i)) as [d|] eqn:El; [|discriminate]. cbn [option_map]. intros [= <-]. cbn [snap_of sn_value].
  destruct (HK c e i Eg) as (e0 & _ & (_ & _ & Hd)). rewrite (Hd a d El). apply dim_eqb_refl.
Qed.

(* a step that is not a plain frame: only the declared type of the polled value is judged *)
Lemma judge_entry_other sc w' prev o entry : K sc w' -> x_snaps o = model_snaps sc w' -> all_true (judge_entry false prev o entry).
Proof.
  intros HK Hs. destruct entry as [[c e] b]. cbn [judge_entry]. rewrite Hs.
  destruct (snap_of_entry c e (ab_id b) (model_snaps sc w')) as [s|] eqn:Es; [|apply all_true_nil].
  destruct (snap_of_entry_some sc w' c e (ab_id b) s Es) as (_ & _ & _ & _ & Hsv).
  apply all_true_cons; [|apply all_true_nil]. exact (clause3_ok sc w' c e (ab_id b) s HK Hsv).
Qed.

Lemma frame_noops sc w f fo : f_ops f = [] -> frame sc w f = Some fo ->
  let o := reg_update (frame_time f) (f_raw f) (update_state (f_raw f)) (w_reg w) in
  ro_events o = Some (fo_main fo) /\ fo_log fo = ro_log o /\ fo_world fo = mkWorld (w_holds w) (ro_reg o) (frame_time f).
Proof.
  unfold frame. intros Hops. cbv zeta. rewrite Hops, run_ops_nil.
  destruct (ro_events (reg_update (frame_time f) (f_raw f) (update_state (f_raw f)) (w_reg w))) as [main|]; [|discriminate].
  intros [= <-]. cbn [fo_main fo_log fo_world oo_world]. repeat split.
Qed.

Lemma expected_model e a p d' : expected_events e a p (snap_of d') = map (fun k => mk_event a d' k e) (table p (d_state d')).
Proof. unfold expected_events. cbn [snap_of sn_state sn_value sn_elapsed sn_fired]. apply map_ext. intros k. destruct k; reflexivity. Qed.
Lemma evkind_eqb_refl k : evkind_eqb k k = true.
Proof. destruct k; reflexivity. Qed.
Lemma oq_eqb_refl x : oq_eqb x x = true.
Proof. destruct x as [q|]; [apply JudgeC07P.qeqb_refl | reflexivity]. Qed.
Lemma event_eqb_refl x : event_eqb x x = true.
Proof.
  unfold event_eqb. rewrite !Z.eqb_refl, evkind_eqb_refl, JudgeC07P.veqb_refl, JudgeC07P.state_eqb_refl, !oq_eqb_refl. reflexivity.
Qed.
Lemma list_eqb_refl {A} (f : A -> A -> bool) l : (forall x, f x x = true) -> list_eqb f l l = true.
Proof. intros H. induction l as [|x l IH]; cbn [list_eqb]; [reflexivity | rewrite H, IH; reflexivity]. Qed.
Lemma events_mask p c : Z.of_N (events_new p c) = mask_of (table p c).
Proof. destruct p, c; reflexivity. Qed.
Lemma data_update_events dt d s v : d_events (data_update dt d s v) = events_new (d_state d) s.
Proof. unfold data_update. destruct (d_state d); reflexivity. Qed.

(* a plain frame: clauses 1-4 for one entry of the configuration *)
Lemma judge_entry_frame sc (F : facts sc) w prev f fo x b0 :
  reg_inv sc w -> K sc w -> prev_rel sc w prev -> f_ops f = [] -> frame sc w f = Some fo ->
  In x (s_cfg sc) -> In b0 (merged_actions (snd x)) ->
  all_true (judge_entry true prev
              (mkOut [] (fo_main fo) (fo_post fo) (fo_log fo) (model_snaps sc (fo_world fo)) (model_mirror sc (fo_world fo))
                     (fo_built fo) true true false) (fst (fst x), snd (fst x), b0)).
Proof.
  intros Hinv HK Hprev Hops Hfr Hx Hb0. set (c := fst (fst x)). set (e := snd (fst x)). set (a := ab_id b0).
  cbn [judge_entry x_snaps x_main x_log x_pre]. fold a.
  destruct (snap_of_entry c e a (model_snaps sc (fo_world fo))) as [s|] eqn:Es; [|apply all_true_nil].
  destruct (snap_of_entry_some sc _ c e a s Es) as (Hc & He & Hcfg & Ha & Hsv).
  destruct (frame_noops sc w f fo Hops Hfr) as (Hmain & Hlog & Hw). cbv zeta in *.
  set (tm := frame_time f) in *. set (o := reg_update tm (f_raw f) (update_state (f_raw f)) (w_reg w)) in *.
  unfold JudgeC07P.snapv in Hsv. rewrite Hw in Hsv. cbn [w_reg] in Hsv.
  destruct (reg_get c e (ro_reg o)) as [i'|] eqn:Eg'; [|discriminate].
  destruct (lookup a (in_actions i')) as [d'|] eqn:El'; [|discriminate]. cbn [option_map] in Hsv. injection Hsv as <-.
  destruct (frame_entry sc F w tm (f_raw f) (update_state (f_raw f)) x b0 i' d' Hinv HK Hx Hb0 Eg' El')
    as (main & i & d & s1 & v & Hev & Hg & Hl & Hd' & Hv & Hevs). fold o in Hev, Hevs. fold c e a in Hg, Hl, Hevs.
  rewrite Hmain in Hev. injection Hev as <-.
  destruct (data_update_fields (vdelta tm) d s1 v) as (Hst & Hval & _). rewrite <- Hd' in Hst, Hval.
  (* the state before the frame, as the judgement reads it *)
  assert (Hps : snap_of_entry c e a (x_snaps prev) = Some (snap_of d)).
  { destruct Hprev as [Hp|[Hp _]].
    - rewrite Hp, (JudgeC07P.snap_of_entry_model sc w c e a Hc He Hcfg Ha). unfold JudgeC07P.snapv. rewrite Hg, Hl. reflexivity.
    - rewrite Hp in Hg. cbn in Hg. discriminate. }
  rewrite Hps. cbn [snap_of sn_state sn_events sn_value].
  apply all_true_cons; [|apply all_true_cons; [|apply all_true_cons; [|apply all_true_cons; [|apply all_true_nil]]]].
  - change (events_for e a (fo_main fo)) with (ev_of e a (fo_main fo)). rewrite Hlog, Hevs.
    destruct (ev_blocked b0 (ro_log o)); [reflexivity|].
    change (mkSnap (d_state d') (Z.of_N (d_events d')) (d_value d') (d_elapsed d') (d_fired d')) with (snap_of d').
    rewrite expected_model, Hst. apply list_eqb_refl. exact event_eqb_refl.
  - rewrite Hd' at 1. rewrite data_update_events, events_mask, Hst. apply Z.eqb_refl.
  - rewrite Hval, Hv. apply dim_eqb_refl.
  - reflexivity.
Qed.

(* clause 6: an operation between frames leaves the polled data of the instances it does not touch alone *)
Lemma clause6_ok sc prev o w w' isreb : prev_rel sc w prev -> x_snaps o = model_snaps sc w' -> reg_inv sc w ->
  JudgeC07P.effect sc isreb w w' (x_built o) -> ops_leave_others prev o = true.
Proof.
  intros Hprev Hs Hinv [_ _ _ _ U]. unfold ops_leave_others. apply forallb_forall. intros s Hin.
  destruct s as [c e a [d|]]; [|reflexivity].
  destruct Hprev as [Hp|[_ Hp]]; [|rewrite Hp in Hin; destruct Hin].
  rewrite Hp in Hin. apply JudgeC07P.in_model_snaps in Hin. destruct Hin as (c' & e' & a' & Hc & He & Ec & Ha & [= -> -> -> Hd]).
  unfold JudgeC07P.snapv in Hd. destruct (reg_get c' e' (w_reg w)) as [i|] eqn:Hg; [|discriminate].
  destruct (lookup a' (in_actions i)) as [dd|] eqn:Hl; [|discriminate]. cbn [option_map] in Hd. injection Hd as ->.
  destruct (touched_by c' e' o) eqn:Et; [reflexivity|]. cbn [orb].
  rewrite Hs, (JudgeC07P.snap_of_entry_model sc w' c' e' a' Hc He Ec Ha). unfold JudgeC07P.snapv.
  destruct (U c' e' (mirror_some sc w c' e' i Hinv Hg)) as [Hn|Hsame].
  - intros Ht. apply JudgeC07P.touched_by_iff in Ht. congruence.
  - rewrite Hn. reflexivity.
  - rewrite Hsame, Hg, Hl. cbn [option_map]. apply JudgeC07P.snap_eqb_refl.
Qed.

(* ================================================================================================ *)
(* 9. all steps                                                                                     *)
(* ================================================================================================ *)
Lemma in_all_entries sc entry : In entry (all_entries sc) ->
  exists x b, In x (s_cfg sc) /\ In b (merged_actions (snd x)) /\ entry = (fst (fst x), snd (fst x), b).
Proof.
  unfold all_entries. intros H. apply in_flat_map in H. destruct H as (x & Hx & H). apply in_map_iff in H. destruct H as (b & <- & Hb).
  exists x, b. repeat split; assumption.
Qed.

Lemma judge_steps_sound sc (F : facts sc) : forall steps w prev, reg_inv sc w -> K sc w -> prev_rel sc w prev ->
  all_true (judge_steps (all_entries sc) prev steps (run_steps sc w steps)).
Proof.
  induction steps as [|st steps IH]; intros w prev Hinv HK Hprev; [apply all_true_nil|].
  rewrite JudgeC07P.run_steps_cons. destruct (JudgeC07P.step_res_inv sc w st Hinv) as (w' & o & Hs & Hinv' & (_ & Hsn & Hpan)). rewrite Hs.
  pose proof (step_res_K sc w st w' o Hinv HK Hs) as HK'.
  cbn [judge_steps].
  assert (Hpu : x_probe o && x_update o = true).
  { destruct st as [op|f]; cbn [JudgeC07P.step_res] in Hs.
    - destruct (apply_op sc w op); [|discriminate]. injection Hs as _ <-. reflexivity.
    - destruct (frame sc w f); [|discriminate]. injection Hs as _ <-. reflexivity. }
  apply all_true_cons; [exact Hpu|]. apply all_true_cons; [rewrite Hpan; reflexivity|]. apply all_true_cons.
  { destruct st as [op|f]; [|reflexivity].
    destruct (JudgeC07P.step_res_effect sc w (SOp op) w' o Hinv Hs eq_refl) as (isreb & Heff).
    exact (clause6_ok sc prev o w w' isreb Hprev Hsn Hinv Heff). }
  apply all_true_app; [|apply (IH w' o Hinv' HK'); left; exact Hsn].
  apply all_true_concat. intros l Hl. apply in_map_iff in Hl. destruct Hl as (entry & <- & Hentry).
  destruct (in_all_entries sc entry Hentry) as (x & b & Hx & Hb & ->).
  destruct st as [op|f]; [exact (judge_entry_other sc w' prev o _ HK' Hsn)|].
  destruct (f_ops f) as [|op ops] eqn:Hops; [|exact (judge_entry_other sc w' prev o _ HK' Hsn)].
  cbn [JudgeC07P.step_res] in Hs. destruct (frame sc w f) as [fo|] eqn:Hfr; [|discriminate]. injection Hs as <- <-.
  exact (judge_entry_frame sc F w prev f fo x b Hinv HK Hprev Hops Hfr Hx Hb).
Qed.

Theorem C01_app_judgement_sound : forall sc, profile_C01 sc -> ok (sc, trace (run sc)) = 0%Z.
Proof.
  intros sc Hp. unfold ok. apply all_true_first_fail. unfold run.
  apply (judge_steps_sound sc (profile_facts sc Hp)); [apply reg_inv_init | apply K_init | right; split; reflexivity].
Qed.

(* ================================================================================================ *)
(* 10. the profile is satisfiable, and each of its five conditions is needed                        *)
(* ================================================================================================ *)
Definition c01x_raw (keys : list Z) : raw := mkRaw keys [] (0%Q, 0%Q) (0%Q, 0%Q) [] [].
Definition c01x_fr (dt : Q) (paused : bool) (keys : list Z) (ops : list op) : step := SFrame (mkFrame dt 1 paused 0 (c01x_raw keys) ops).
Definition c01x_act (a : Z) (mid : Z) (ms : list mout) (cs : list (Z * cond)) : action_spec := mkAction a [(mid, m_script ms)] cs [].
(* a shared type (3) with one action of type bool driven by a scripted explicit condition, an events-only blocker and a
   plain blocker; an exclusive type (2) with two actions (1-d and 2-d) per entity, each entity with its own log ids *)
Definition c01x_sp3 : inst_spec := mkSpec None
  [c01x_act 0 1 [MPass; MSet (V2 (1#2) 0); MPass; MSet (VB true)]
     [(2, c_script KExplicit [SNone; SFired; SOngoing; SFired; SNone]);
      (3, c_script (KBlocker true) [SFired; SNone; SFired; SFired; SFired]);
      (4, c_script (KBlocker false) [SFired; SFired; SFired; SNone; SFired])]].
Definition c01x_sp2 (k : Z) : inst_spec := mkSpec None
  [c01x_act 16 (k+1) [MSet (V1 1); MPass] [(k+2, c_script KExplicit [SFired; SFired; SOngoing; SNone; SFired])];
   c01x_act 33 (k+3) [] [(k+4, c_script KExplicit [SOngoing; SFired; SNone; SNone; SFired]);
                       (k+5, c_script (KBlocker true) [SNone; SFired; SNone; SFired; SNone])]].
Definition c01x_scenario : scenario := mkScenario [2; 3] [0; 1]
  [((3, 0), c01x_sp3); ((3, 1), c01x_sp3); ((2, 0), c01x_sp2 10); ((2, 1), c01x_sp2 20)]
  [SOp (OSpawn 0 [2; 3]); SOp (OSpawn 1 [3]); c01x_fr (1#64) false [] []; c01x_fr (1#8) false [] []; SOp (OInsert 1 2);
   c01x_fr (1#4) true [] []; SOp (ORemove 0 3); c01x_fr (3#16) false [] [ORemove 1 2]; SOp (ODespawn 1); c01x_fr (1#64) false [] [];
   SOp ORebuild; c01x_fr 0 false [] []].

Example C01_app_judgement_sound_satisfiable :
  profile_C01 c01x_scenario /\ ok (c01x_scenario, trace (run c01x_scenario)) = 0 /\
  existsb (fun o => existsb (fun ev => match e_kind ev with EFired => true | _ => false end) (x_main o)) (run c01x_scenario) = true /\
  existsb (fun o => existsb (fun ev => match e_kind ev with ECanceled => true | _ => false end) (x_main o)) (run c01x_scenario) = true.
Proof. vm_compute. repeat split. Qed.

(* each line: (p_keys, p_owner, p_ids, p_shared, p_inputs) and the verdict on the model's own run *)
Definition c01x_parts (sc : scenario) := (p_keys sc, p_owner sc, p_ids sc, p_shared sc, p_inputs sc).
Definition c01x_blocked (k : Z) := c01x_act 0 k [] [(k+1, c_script KExplicit [SFired]); (k+2, c_script (KBlocker true) [SNone])].
Definition c01x_free (k : Z) := c01x_act 0 k [] [(k+1, c_script KExplicit [SFired]); (k+2, c_script (KBlocker true) [SFired])].
Definition c01x_plain (k : Z) := c01x_act 0 k [] [(k+1, c_script KExplicit [SFired])].

(* two configurations for one (context, entity): the instance is built from the first, the second is judged as well *)
Example C01_app_judgement_sound_needs_p_keys :
  let sc := mkScenario [0] [0] [((0, 0), mkSpec None [c01x_blocked 1]); ((0, 0), mkSpec None [c01x_plain 5])]
              [SOp (OSpawn 0 [0]); c01x_fr (1#64) false [] []] in
  c01x_parts sc = (false, true, true, true, true) /\ ok (sc, trace (run sc)) = 1.
Proof. vm_compute. split; reflexivity. Qed.
(* one action type bound by two context types of the same entity: it receives the events of both *)
Example C01_app_judgement_sound_needs_p_owner :
  let sc := mkScenario [0; 2] [0] [((0, 0), mkSpec None [c01x_plain 1]); ((2, 0), mkSpec None [c01x_plain 5])]
              [SOp (OSpawn 0 [0; 2]); c01x_fr (1#64) false [] []] in
  c01x_parts sc = (true, false, true, true, true) /\ ok (sc, trace (run sc)) = 1.
Proof. vm_compute. split; reflexivity. Qed.
(* two instances with the same log ids: the judgement reads the blocker of the first one for both *)
Example C01_app_judgement_sound_needs_p_ids :
  let sc := mkScenario [0] [0; 1] [((0, 0), mkSpec None [c01x_blocked 1]); ((0, 1), mkSpec None [c01x_free 1])]
              [SOp (OSpawn 0 [0]); SOp (OSpawn 1 [0]); c01x_fr (1#64) false [] []] in
  c01x_parts sc = (true, true, false, true, true) /\ ok (sc, trace (run sc)) = 1.
Proof. vm_compute. split; reflexivity. Qed.
(* holders of a shared type configured differently: the instance is the first holder's, the second holder's is judged *)
Example C01_app_judgement_sound_needs_p_shared :
  let sc := mkScenario [1] [0; 1] [((1, 0), mkSpec None [c01x_blocked 1]); ((1, 1), mkSpec None [c01x_plain 5])]
              [SOp (OSpawn 0 [1]); SOp (OSpawn 1 [1]); c01x_fr (1#64) false [] []] in
  c01x_parts sc = (true, true, true, false, true) /\ ok (sc, trace (run sc)) = 1.
Proof. vm_compute. split; reflexivity. Qed.
(* an events-only blocker at input level withholds the events; the judgement looks at action level only *)
Example C01_app_judgement_sound_needs_p_inputs :
  let sc := mkScenario [0] [0]
              [((0, 0), mkSpec None [mkAction 0 [] [] [mkBind (IKey 0 0) [] [(3, c_script (KBlocker true) [SFired; SNone])]]])]
              [SOp (OSpawn 0 [0]); c01x_fr (1#64) false [] []; c01x_fr (1#64) false [0] []] in
  c01x_parts sc = (true, true, true, true, false) /\ ok (sc, trace (run sc)) = 1.
Proof. vm_compute. split; reflexivity. Qed.

(* ================================================================================================ *)
(* 11. transfer: the judgement reads a trace only up to the equalities [agree_full] uses            *)
(* ================================================================================================ *)
Ltac split_andb :=
  repeat match goal with H : _ && _ = true |- _ => apply andb_true_iff in H; destruct H end.

Lemma qeqb_sym a b : qeqb a b = true -> qeqb b a = true.
Proof. unfold qeqb. rewrite !Qeq_bool_iff. intros H. symmetry. exact H. Qed.
Lemma qeqb_trans a b c : qeqb a b = true -> qeqb b c = true -> qeqb a c = true.
Proof. unfold qeqb. rewrite !Qeq_bool_iff. intros H1 H2. rewrite H1. exact H2. Qed.
Lemma veqb_sym a b : veqb a b = true -> veqb b a = true.
Proof.
  rewrite !veqb_veq. destruct a, b; cbn [veq]; try tauto.
  - congruence.
  - intros H; symmetry; exact H.
  - intros [H1 H2]; split; symmetry; assumption.
  - intros (H1 & H2 & H3); repeat split; symmetry; assumption.
Qed.
Lemma veqb_trans a b c : veqb a b = true -> veqb b c = true -> veqb a c = true.
Proof.
  rewrite !veqb_veq. destruct a, b, c; cbn [veq]; try tauto.
  - congruence.
  - intros H1 H2; rewrite H1; exact H2.
  - intros [H1 H2] [H3 H4]; split; [rewrite H1; exact H3 | rewrite H2; exact H4].
  - intros (H1 & H2 & H3) (H4 & H5 & H6); repeat split; [rewrite H1; exact H4 | rewrite H2; exact H5 | rewrite H3; exact H6].
Qed.
Lemma evkind_eqb_eq a b : evkind_eqb a b = true -> a = b.
Proof. destruct a, b; cbn; intros H; try discriminate; reflexivity. Qed.
Lemma oq_eqb_sym a b : oq_eqb a b = true -> oq_eqb b a = true.
Proof. destruct a, b; cbn [oq_eqb]; try discriminate; [apply qeqb_sym | auto]. Qed.
Lemma oq_eqb_trans a b c : oq_eqb a b = true -> oq_eqb b c = true -> oq_eqb a c = true.
Proof. destruct a, b, c; cbn [oq_eqb]; try discriminate; [apply qeqb_trans | auto]. Qed.

Lemma event_eqb_sym x y : event_eqb x y = true -> event_eqb y x = true.
Proof.
  unfold event_eqb. intros H. split_andb.
  repeat match goal with H : Z.eqb _ _ = true |- _ => apply Z.eqb_eq in H end.
  match goal with H : evkind_eqb _ _ = true |- _ => apply evkind_eqb_eq in H end.
  match goal with H : state_eqb _ _ = true |- _ => apply MergeP.state_eqb_eq in H end.
  repeat match goal with H : _ = _ |- _ => rewrite H end.
  rewrite !Z.eqb_refl, evkind_eqb_refl, JudgeC07P.state_eqb_refl.
  repeat match goal with H : veqb _ _ = true |- _ => apply veqb_sym in H; rewrite H end.
  repeat match goal with H : oq_eqb _ _ = true |- _ => apply oq_eqb_sym in H; rewrite H end. reflexivity.
Qed.
Lemma event_eqb_trans x y z : event_eqb x y = true -> event_eqb y z = true -> event_eqb x z = true.
Proof.
  unfold event_eqb. intros H1 H2. split_andb.
  repeat match goal with H : Z.eqb _ _ = true |- _ => apply Z.eqb_eq in H end.
  repeat match goal with H : evkind_eqb _ _ = true |- _ => apply evkind_eqb_eq in H end.
  repeat match goal with H : state_eqb _ _ = true |- _ => apply MergeP.state_eqb_eq in H end.
  replace (e_target x) with (e_target z) by congruence. replace (e_action x) with (e_action z) by congruence.
  replace (e_kind x) with (e_kind z) by congruence. replace (e_state x) with (e_state z) by congruence.
  rewrite !Z.eqb_refl, evkind_eqb_refl, JudgeC07P.state_eqb_refl.
  rewrite (veqb_trans (e_value x) (e_value y) (e_value z)), (oq_eqb_trans (e_elapsed x) (e_elapsed y) (e_elapsed z)),
          (oq_eqb_trans (e_fired x) (e_fired y) (e_fired z)) by assumption. reflexivity.
Qed.

Lemma snap_eqb_sym x y : snap_eqb x y = true -> snap_eqb y x = true.
Proof.
  unfold snap_eqb. intros H. split_andb.
  match goal with H : Z.eqb _ _ = true |- _ => apply Z.eqb_eq in H; rewrite H end.
  match goal with H : state_eqb _ _ = true |- _ => apply MergeP.state_eqb_eq in H; rewrite H end.
  rewrite Z.eqb_refl, JudgeC07P.state_eqb_refl.
  match goal with H : veqb _ _ = true |- _ => apply veqb_sym in H; rewrite H end.
  repeat match goal with H : qeqb _ _ = true |- _ => apply qeqb_sym in H; rewrite H end. reflexivity.
Qed.
Lemma snap_eqb_trans x y z : snap_eqb x y = true -> snap_eqb y z = true -> snap_eqb x z = true.
Proof.
  unfold snap_eqb. intros H1 H2. split_andb.
  repeat match goal with H : Z.eqb _ _ = true |- _ => apply Z.eqb_eq in H end.
  repeat match goal with H : state_eqb _ _ = true |- _ => apply MergeP.state_eqb_eq in H end.
  replace (sn_state x) with (sn_state z) by congruence. replace (sn_events x) with (sn_events z) by congruence.
  rewrite Z.eqb_refl, JudgeC07P.state_eqb_refl.
  rewrite (veqb_trans (sn_value x) (sn_value y) (sn_value z)), (qeqb_trans (sn_elapsed x) (sn_elapsed y) (sn_elapsed z)),
          (qeqb_trans (sn_fired x) (sn_fired y) (sn_fired z)) by assumption. reflexivity.
Qed.

(* a Boolean partial equivalence is a congruence for itself *)
Lemma eqv_cong {A} (f : A -> A -> bool) :
  (forall x y, f x y = true -> f y x = true) -> (forall x y z, f x y = true -> f y z = true -> f x z = true) ->
  forall x x' y y', f x x' = true -> f y y' = true -> f x y = f x' y'.
Proof.
  intros S T x x' y y' H1 H2. destruct (f x y) eqn:E1, (f x' y') eqn:E2; try reflexivity.
  - rewrite <- E2. symmetry. exact (T x' x y' (S _ _ H1) (T x y y' E1 H2)).
  - rewrite <- E1. exact (T x x' y (H1) (T x' y' y E2 (S _ _ H2))).
Qed.
Lemma list_eqb_sym {A} (f : A -> A -> bool) : (forall x y, f x y = true -> f y x = true) ->
  forall a b, list_eqb f a b = true -> list_eqb f b a = true.
Proof.
  intros S. induction a as [|x a IH]; intros [|y b] H; cbn [list_eqb] in *; try discriminate; [reflexivity|].
  apply andb_true_iff in H. destruct H as [H1 H2]. rewrite (S _ _ H1), (IH b H2). reflexivity.
Qed.
Lemma list_eqb_trans {A} (f : A -> A -> bool) : (forall x y z, f x y = true -> f y z = true -> f x z = true) ->
  forall a b c, list_eqb f a b = true -> list_eqb f b c = true -> list_eqb f a c = true.
Proof.
  intros T. induction a as [|x a IH]; intros [|y b] [|z c] H1 H2; cbn [list_eqb] in *; try discriminate; [reflexivity|].
  apply andb_true_iff in H1. destruct H1 as [H1 H1']. apply andb_true_iff in H2. destruct H2 as [H2 H2'].
  rewrite (T _ _ _ H1 H2), (IH b c H1' H2'). reflexivity.
Qed.
Definition evs_eqb := list_eqb event_eqb.
Lemma evs_cong l1 l1' l2 l2' : evs_eqb l1 l1' = true -> evs_eqb l2 l2' = true -> evs_eqb l1 l2 = evs_eqb l1' l2'.
Proof.
  apply (eqv_cong evs_eqb).
  - apply list_eqb_sym. exact event_eqb_sym.
  - apply list_eqb_trans. exact event_eqb_trans.
Qed.

(* ---- the pieces of an output the judgement reads ---- *)
Lemma snap_of_entry_osnap c e a : forall l l', list_eqb snap_entry_eqb l l' = true ->
  osnap_eqb (snap_of_entry c e a l) (snap_of_entry c e a l') = true.
Proof.
  unfold snap_of_entry. induction l as [|x l IH]; intros [|y l'] H; cbn [list_eqb] in H; try discriminate; [reflexivity|].
  apply andb_true_iff in H. destruct H as [Hxy H]. specialize (IH l' H).
  destruct x as [c1 e1 a1 s1], y as [c2 e2 a2 s2]. cbn [snap_entry_eqb] in Hxy. split_andb.
  repeat match goal with H : Z.eqb _ _ = true |- _ => apply Z.eqb_eq in H end. subst c2 e2 a2. cbn [find].
  destruct (Z.eqb c c1 && Z.eqb e e1 && Z.eqb a a1); [assumption | exact IH].
Qed.
Lemma snap_any_state c a : forall l l', list_eqb snap_entry_eqb l l' = true ->
  option_map sn_state (snap_any c a l) = option_map sn_state (snap_any c a l').
Proof.
  unfold snap_any. induction l as [|x l IH]; intros [|y l'] H; cbn [list_eqb] in H; try discriminate; [reflexivity|].
  apply andb_true_iff in H. destruct H as [Hxy H]. specialize (IH l' H).
  destruct x as [c1 e1 a1 s1], y as [c2 e2 a2 s2]. cbn [snap_entry_eqb] in Hxy. split_andb.
  repeat match goal with H : Z.eqb _ _ = true |- _ => apply Z.eqb_eq in H end. subst c2 e2 a2. cbn [find].
  destruct s1 as [d1|], s2 as [d2|]; cbn [osnap_eqb] in *; try discriminate; [|exact IH].
  destruct (Z.eqb c c1 && Z.eqb a a1); [|exact IH]. cbn [option_map].
  match goal with H : snap_eqb d1 d2 = true |- _ => unfold snap_eqb in H end. split_andb.
  match goal with H : state_eqb _ _ = true |- _ => apply MergeP.state_eqb_eq in H; rewrite H end. reflexivity.
Qed.
Lemma ev_blocked_rel b lg lg' : list_eqb logitem_eqb lg lg' = true -> ev_blocked b lg = ev_blocked b lg'.
Proof.
  intros H. unfold ev_blocked. induction (ab_conds b) as [|ic cs IH]; [reflexivity|]. cbn [existsb]. rewrite IH. f_equal.
  pose proof (JudgeC03P.find_cond_rel (fst ic) lg lg' H) as Hf.
  destruct (find_cond (fst ic) lg) as [[[v s] sn']|], (find_cond (fst ic) lg') as [[[v' s'] sn'']|]; try contradiction; [subst s'|]; reflexivity.
Qed.
Lemma events_for_rel e a : forall l l', evs_eqb l l' = true -> evs_eqb (events_for e a l) (events_for e a l') = true.
Proof.
  unfold evs_eqb, events_for. induction l as [|x l IH]; intros [|y l'] H; cbn [list_eqb] in H; try discriminate; [reflexivity|].
  apply andb_true_iff in H. destruct H as [Hxy H]. specialize (IH l' H). cbn [filter].
  assert (Ht : e_target x = e_target y /\ e_action x = e_action y).
  { unfold event_eqb in Hxy. split_andb. repeat match goal with H : Z.eqb _ _ = true |- _ => apply Z.eqb_eq in H end. split; assumption. }
  destruct Ht as [-> ->]. destruct (Z.eqb (e_target y) e && Z.eqb (e_action y) a); [|exact IH].
  cbn [list_eqb]. rewrite Hxy, IH. reflexivity.
Qed.
Lemma evs_eqb_nil l l' : evs_eqb l l' = true -> match l with [] => true | _ => false end = match l' with [] => true | _ => false end.
Proof. destruct l, l'; cbn; intros H; try discriminate; reflexivity. Qed.
Lemma expected_rel e a p s s' : snap_eqb s s' = true -> evs_eqb (expected_events e a p s) (expected_events e a p s') = true.
Proof.
  intros H. unfold snap_eqb in H. split_andb.
  match goal with H : state_eqb _ _ = true |- _ => apply MergeP.state_eqb_eq in H end.
  unfold expected_events, evs_eqb. replace (sn_state s') with (sn_state s) by assumption.
  induction (table p (sn_state s)) as [|k ks IH]; [reflexivity|]. cbn [map list_eqb]. rewrite IH, andb_true_r.
  unfold event_eqb. cbn [e_target e_action e_kind e_value e_state e_elapsed e_fired].
  rewrite !Z.eqb_refl, evkind_eqb_refl, JudgeC07P.state_eqb_refl.
  match goal with H : veqb _ _ = true |- _ => rewrite H end.
  destruct (carries_elapsed k), (carries_fired k); cbn [oq_eqb];
    repeat match goal with H : qeqb _ _ = true |- _ => rewrite H end; reflexivity.
Qed.
Lemma veqb_vdim v v' : veqb v v' = true -> vdim v = vdim v'.
Proof. destruct v, v'; cbn; intros H; try discriminate; reflexivity. Qed.

Lemma judge_entry_rel isf prev prev' o o' entry :
  list_eqb snap_entry_eqb (x_snaps prev) (x_snaps prev') = true ->
  list_eqb snap_entry_eqb (x_snaps o) (x_snaps o') = true ->
  (isf = true -> evs_eqb (x_main o) (x_main o') = true) -> evs_eqb (x_pre o) (x_pre o') = true ->
  list_eqb logitem_eqb (x_log o) (x_log o') = true ->
  judge_entry isf prev o entry = judge_entry isf prev' o' entry.
Proof.
  intros Hp Hs Hm Hpre Hl. destruct entry as [[c e] b]. cbn [judge_entry].
  pose proof (snap_of_entry_osnap c e (ab_id b) _ _ Hs) as Hos.
  destruct (snap_of_entry c e (ab_id b) (x_snaps o)) as [s|], (snap_of_entry c e (ab_id b) (x_snaps o')) as [s'|]; cbn [osnap_eqb] in Hos; try discriminate; [|reflexivity].
  assert (Hst : sn_state s = sn_state s' /\ sn_events s = sn_events s' /\ vdim (sn_value s) = vdim (sn_value s')).
  { pose proof Hos as H. unfold snap_eqb in H. split_andb.
    match goal with H : state_eqb _ _ = true |- _ => apply MergeP.state_eqb_eq in H end.
    match goal with H : Z.eqb _ _ = true |- _ => apply Z.eqb_eq in H end.
    match goal with H : veqb _ _ = true |- _ => apply veqb_vdim in H end. repeat split; assumption. }
  destruct Hst as (Hst & Hse & Hsd).
  destruct isf; [|rewrite Hsd; reflexivity].
  assert (Hps : match snap_of_entry c e (ab_id b) (x_snaps prev) with
                | Some p => sn_state p
                | None => if ctx_shared c then match snap_any c (ab_id b) (x_snaps prev) with Some p => sn_state p | None => SNone end else SNone
                end =
                match snap_of_entry c e (ab_id b) (x_snaps prev') with
                | Some p => sn_state p
                | None => if ctx_shared c then match snap_any c (ab_id b) (x_snaps prev') with Some p => sn_state p | None => SNone end else SNone
                end).
  { pose proof (snap_of_entry_osnap c e (ab_id b) _ _ Hp) as H1. pose proof (snap_any_state c (ab_id b) _ _ Hp) as H2.
    destruct (snap_of_entry c e (ab_id b) (x_snaps prev)) as [p|], (snap_of_entry c e (ab_id b) (x_snaps prev')) as [p'|]; cbn [osnap_eqb] in H1; try discriminate.
    - unfold snap_eqb in H1. split_andb. match goal with H : state_eqb _ _ = true |- _ => apply MergeP.state_eqb_eq in H; exact H end.
    - destruct (ctx_shared c); [|reflexivity].
      destruct (snap_any c (ab_id b) (x_snaps prev)) as [p|], (snap_any c (ab_id b) (x_snaps prev')) as [p'|]; cbn [option_map] in H2; congruence. }
  rewrite Hps. set (ps := match snap_of_entry c e (ab_id b) (x_snaps prev') with Some p => sn_state p | None => _ end).
  rewrite (ev_blocked_rel b _ _ Hl), Hst, Hse, Hsd.
  pose proof (events_for_rel e (ab_id b) _ _ (Hm eq_refl)) as Hem. pose proof (events_for_rel e (ab_id b) _ _ Hpre) as Hep.
  rewrite (evs_eqb_nil _ _ Hem), (evs_eqb_nil _ _ Hep).
  change (list_eqb event_eqb) with evs_eqb.
  rewrite (evs_cong _ _ _ _ Hem (expected_rel e (ab_id b) ps s s' Hos)). rewrite <- Hst. reflexivity.
Qed.

Lemma forallb_rel {A} (R : A -> A -> bool) (f f' : A -> bool) : (forall x x', R x x' = true -> f x = f' x') ->
  forall l l', list_eqb R l l' = true -> forallb f l = forallb f' l'.
Proof.
  intros H. induction l as [|x l IH]; intros [|y l'] Hl; cbn [list_eqb] in Hl; try discriminate; [reflexivity|].
  apply andb_true_iff in Hl. destruct Hl as [H1 H2]. cbn [forallb]. rewrite (H x y H1), (IH l' H2). reflexivity.
Qed.
Lemma existsb_in_ext {A} (f : A -> bool) l l' : (forall p, In p l <-> In p l') -> existsb f l = existsb f l'.
Proof.
  intros H. apply bool_eq_iff. rewrite !existsb_exists. split; intros (x & Hx & Hf); exists x; (split; [apply H; exact Hx | exact Hf]).
Qed.
Lemma ops_leave_others_rel prev prev' o o' :
  list_eqb snap_entry_eqb (x_snaps prev) (x_snaps prev') = true ->
  list_eqb snap_entry_eqb (x_snaps o) (x_snaps o') = true ->
  (forall p, In p (x_built o) <-> In p (x_built o')) ->
  ops_leave_others prev o = ops_leave_others prev' o'.
Proof.
  intros Hp Hs Hb. unfold ops_leave_others. apply (forallb_rel snap_entry_eqb); [|exact Hp].
  intros [c e a s1] [c2 e2 a2 s2] H. cbn [snap_entry_eqb] in H. split_andb.
  repeat match goal with H : Z.eqb _ _ = true |- _ => apply Z.eqb_eq in H end. subst c2 e2 a2.
  destruct s1 as [d|], s2 as [d2|]; cbn [osnap_eqb] in *; try discriminate; [|reflexivity].
  assert (Ht : touched_by c e o = touched_by c e o') by (unfold touched_by; destruct (ctx_shared c); apply existsb_in_ext; exact Hb).
  rewrite Ht. f_equal.
  pose proof (snap_of_entry_osnap c e a _ _ Hs) as Hos.
  destruct (snap_of_entry c e a (x_snaps o)) as [s|], (snap_of_entry c e a (x_snaps o')) as [s'|]; cbn [osnap_eqb] in Hos; try discriminate; [|reflexivity].
  apply (eqv_cong snap_eqb snap_eqb_sym snap_eqb_trans); assumption.
Qed.

(* what agree_full guarantees of each output record, as far as this judgement reads it *)
Lemma out_diff_fields key isf a b : out_diff_k key isf a b = 0 ->
  evs_eqb (x_pre a) (x_pre b) = true /\ (isf = true -> evs_eqb (x_main a) (x_main b) = true) /\
  list_eqb logitem_eqb (x_log a) (x_log b) = true /\ list_eqb snap_entry_eqb (x_snaps a) (x_snaps b) = true /\
  (forall p, In p (x_built a) <-> In p (x_built b)) /\
  x_probe a = x_probe b /\ x_update a = x_update b /\ x_panicked a = x_panicked b.
Proof.
  unfold out_diff_k, first_fail. intros H.
  destruct (list_eqb event_eqb (x_pre a) (x_pre b)) eqn:E1; [|discriminate].
  match type of H with (if ?c then _ else _) = _ => destruct c eqn:E2; [|discriminate] end.
  match type of H with (if ?c then _ else _) = _ => destruct c; [|discriminate] end.
  destruct (list_eqb logitem_eqb (x_log a) (x_log b)) eqn:E4; [|discriminate].
  destruct (list_eqb snap_entry_eqb (x_snaps a) (x_snaps b)) eqn:E5; [|discriminate].
  destruct (list_eqb mirror_eqb (x_mirror a) (x_mirror b)); [|discriminate].
  destruct (list_eqb zz_eqb (canon_built (x_built a)) (canon_built (x_built b))) eqn:E7; [|discriminate].
  destruct (Bool.eqb (x_probe a) (x_probe b)) eqn:E8; [|discriminate].
  destruct (Bool.eqb (x_update a) (x_update b)) eqn:E9; [|discriminate].
  destruct (Bool.eqb (x_panicked a) (x_panicked b)) eqn:E10; [|discriminate].
  split; [exact E1|]. split; [intros ->; exact E2|]. split; [reflexivity|]. split; [reflexivity|].
  split; [|split; [apply eqb_prop; exact E8 | split; apply eqb_prop; assumption]].
  apply JudgeC12P.list_eqb_zz in E7. unfold canon_built in E7. intros p.
  rewrite <- (JudgeC12P.sort_by_in (fun p => fst p * 1000 + snd p) (x_built a)), <- (JudgeC12P.sort_by_in (fun p => fst p * 1000 + snd p) (x_built b)), E7. tauto.
Qed.

Lemma judge_steps_rel ents key : forall steps a b prev prev' i,
  0 <= i -> outs_diff key i steps a b = 0 -> list_eqb snap_entry_eqb (x_snaps prev) (x_snaps prev') = true ->
  judge_steps ents prev steps a = judge_steps ents prev' steps b.
Proof.
  induction steps as [|st steps IH]; intros a b prev prev' i Hi H Hp.
  - destruct a as [|x r].
    + rewrite (JudgeC03P.outs_diff_nil_l key i [] b Hi H). reflexivity.
    + destruct b as [|y s]; [discriminate (JudgeC03P.outs_diff_nil_r key i [] _ Hi H)|]. reflexivity.
  - destruct a as [|x r].
    + rewrite (JudgeC03P.outs_diff_nil_l key i _ b Hi H). reflexivity.
    + destruct b as [|y s]; [discriminate (JudgeC03P.outs_diff_nil_r key i _ _ Hi H)|].
      destruct (JudgeC03P.outs_diff_cons key i (st :: steps) x r y s Hi H) as [E H']. cbn [tl] in H'.
      destruct (out_diff_fields _ _ _ _ E) as (Hpre & Hmain & Hlog & Hsnap & Hbuilt & Hpr & Hup & Hpan).
      assert (Hi' : 0 <= i + 1) by lia.
      cbn [judge_steps]. rewrite Hpr, Hup, Hpan, (IH r s x y (i + 1) Hi' H' Hsnap).
      f_equal. f_equal. f_equal; [destruct st as [op|f]; [f_equal; apply ops_leave_others_rel; assumption | reflexivity]|].
      f_equal. f_equal. apply map_ext. intros entry. apply judge_entry_rel; try assumption.
      intros Hf. apply Hmain. destruct st as [op|f]; [discriminate | reflexivity].
Qed.

(* whatever the judgement says about the model's run, it says about every trace that agrees with it *)
Theorem C01_app_judgement_respects_agree : forall sc t, agree_full (sc, t) = true -> ok (sc, t) = ok (sc, trace (run sc)).
Proof.
  intros sc t H. unfold agree_full in H. cbn [fst snd] in H. apply Z.eqb_eq in H.
  destruct t as [outs|]; [|discriminate H]. cbn [trace_diff] in H. unfold ok. f_equal. symmetry.
  apply (judge_steps_rel (all_entries sc) (ctx_key sc) (s_steps sc) (run sc) outs _ _ 0 (Z.le_refl 0) H). reflexivity.
Qed.

(* (T) *)
Theorem C01_app_judgement_transfer : forall sc t, profile_C01 sc -> agree_full (sc, t) = true -> ok (sc, t) = 0%Z.
Proof. intros sc t Hp Ha. rewrite (C01_app_judgement_respects_agree sc t Ha). apply C01_app_judgement_sound. exact Hp. Qed.

(* (T) on a trace that agrees with the model's run without being equal to it: every rational of the events and of the polled
   data written as an unreduced fraction *)
Definition unred_q (x : Q) : Q := Qmake (2 * Qnum x) (2 * Qden x).
Definition unred_v (v : value) : value :=
  match v with VB b => VB b | V1 x => V1 (unred_q x) | V2 x y => V2 (unred_q x) (unred_q y)
             | V3 x y z => V3 (unred_q x) (unred_q y) (unred_q z) end.
Definition unred_ev (x : event) : event :=
  mkEv (e_target x) (e_action x) (e_kind x) (unred_v (e_value x)) (e_state x) (option_map unred_q (e_elapsed x)) (option_map unred_q (e_fired x)).
Definition unred_sn (x : snap_entry) : snap_entry :=
  match x with
  | sn c e a (Some d) => sn c e a (Some (mkSnap (sn_state d) (sn_events d) (unred_v (sn_value d)) (unred_q (sn_elapsed d)) (unred_q (sn_fired d))))
  | _ => x
  end.
Definition unred_out (o : out) : out :=
  mkOut (x_pre o) (map unred_ev (x_main o)) (map unred_ev (x_post o)) (x_log o) (map unred_sn (x_snaps o)) (x_mirror o) (rev (x_built o))
        (x_probe o) (x_update o) (x_panicked o).
Example C01_app_judgement_transfer_satisfiable :
  let t := trace (map unred_out (run c01x_scenario)) in
  profile_C01 c01x_scenario /\ agree_full (c01x_scenario, t) = true /\ t <> trace (run c01x_scenario) /\ ok (c01x_scenario, t) = 0.
Proof. vm_compute. repeat split. discriminate. Qed.

Print Assumptions C01_app_judgement_sound.
Print Assumptions C01_app_judgement_respects_agree.
Print Assumptions C01_app_judgement_transfer.
