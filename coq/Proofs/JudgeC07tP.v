(* Transfer for C07: the judgement Check/C07c.v cannot tell two traces apart that agree_full identifies, hence it accepts
   every trace that agrees with the model's run of a scenario in the profile. *)
From Coq Require Import ZArith QArith List Bool Lia.
From BEI Require Import Model.Frame Spec.ReadSpec Proofs.ValueP Proofs.MergeP Proofs.RegistryP Proofs.TrackOpP Check.C07c Proofs.JudgeC07P.
Import ListNotations.
Open Scope Z_scope.

(* ================================================================================================ *)
(* 1. the equalities agree_full uses are equivalences the clauses respect                           *)
(* ================================================================================================ *)
Lemma qeqb_true a b : qeqb a b = true <-> (a == b)%Q.
Proof. unfold qeqb. apply Qeq_bool_iff. Qed.
Lemma qeqb_compat_l a b c : qeqb a b = true -> qeqb a c = qeqb b c.
Proof. intros H. apply qeqb_true in H. apply bool_eq_iff. rewrite !qeqb_true, H. tauto. Qed.
Lemma qeqb_compat_r a b c : qeqb a b = true -> qeqb c a = qeqb c b.
Proof. intros H. apply qeqb_true in H. apply bool_eq_iff. rewrite !qeqb_true, H. tauto. Qed.

Lemma veq_sym a b : veq a b -> veq b a.
Proof. destruct a, b; cbn [veq]; try tauto; intros H; decompose [and] H; repeat split; symmetry; assumption. Qed.
Lemma veq_trans a b c : veq a b -> veq b c -> veq a c.
Proof.
  destruct a, b, c; cbn [veq]; try tauto; intros H1 H2; decompose [and] H1; decompose [and] H2; repeat split;
    etransitivity; eassumption.
Qed.
Lemma veqb_compat_l a b c : veqb a b = true -> veqb a c = veqb b c.
Proof.
  intros H. apply veqb_veq in H. apply bool_eq_iff. rewrite !veqb_veq. split; intros H1.
  - eapply veq_trans; [apply veq_sym; exact H | exact H1].
  - eapply veq_trans; eassumption.
Qed.
Lemma veqb_compat_r a b c : veqb a b = true -> veqb c a = veqb c b.
Proof.
  intros H. apply veqb_veq in H. apply bool_eq_iff. rewrite !veqb_veq. split; intros H1.
  - eapply veq_trans; eassumption.
  - eapply veq_trans; [exact H1 | apply veq_sym; exact H].
Qed.

Lemma snap_eqb_parts a b : snap_eqb a b = true ->
  sn_state a = sn_state b /\ sn_events a = sn_events b /\ veqb (sn_value a) (sn_value b) = true /\
  qeqb (sn_elapsed a) (sn_elapsed b) = true /\ qeqb (sn_fired a) (sn_fired b) = true.
Proof.
  unfold snap_eqb. rewrite !andb_true_iff. intros [[[[H1 H2] H3] H4] H5].
  apply state_eqb_eq in H1. apply Z.eqb_eq in H2. repeat split; assumption.
Qed.
Lemma snap_eqb_compat a a' b b' : snap_eqb a a' = true -> snap_eqb b b' = true -> snap_eqb a b = snap_eqb a' b'.
Proof.
  intros Ha Hb. apply snap_eqb_parts in Ha. apply snap_eqb_parts in Hb.
  destruct Ha as (A1 & A2 & A3 & A4 & A5). destruct Hb as (B1 & B2 & B3 & B4 & B5). unfold snap_eqb.
  rewrite A1, A2, B1, B2.
  rewrite (veqb_compat_l _ _ _ A3), (veqb_compat_r _ _ _ B3).
  rewrite (qeqb_compat_l _ _ _ A4), (qeqb_compat_r _ _ _ B4), (qeqb_compat_l _ _ _ A5), (qeqb_compat_r _ _ _ B5).
  reflexivity.
Qed.

(* ================================================================================================ *)
(* 2. list helpers                                                                                  *)
(* ================================================================================================ *)
Lemma forallb_ext' {A} (f g : A -> bool) l : (forall x, f x = g x) -> forallb f l = forallb g l.
Proof. intros H. induction l as [|x l IH]; cbn [forallb]; [reflexivity|]. rewrite H, IH. reflexivity. Qed.
Lemma forallb_rel {A} (R : A -> A -> bool) (f g : A -> bool) : forall l l',
  list_eqb R l l' = true -> (forall x y, R x y = true -> f x = g y) -> forallb f l = forallb g l'.
Proof.
  induction l as [|x l IH]; intros [|y l'] H Hfg; cbn [list_eqb] in H; try discriminate; [reflexivity|].
  apply andb_true_iff in H. destruct H as [Hxy H]. cbn [forallb]. rewrite (Hfg x y Hxy), (IH l' H Hfg). reflexivity.
Qed.
Lemma list_eqb_eq {A} (R : A -> A -> bool) : (forall x y, R x y = true -> x = y) -> forall l l', list_eqb R l l' = true -> l = l'.
Proof.
  intros HR. induction l as [|x l IH]; intros [|y l'] H; cbn [list_eqb] in H; try discriminate; [reflexivity|].
  apply andb_true_iff in H. destruct H as [Hxy H]. rewrite (HR x y Hxy), (IH l' H). reflexivity.
Qed.
Lemma mirror_eqb_eq a b : mirror_eqb a b = true -> a = b.
Proof.
  destruct a as [c1 e1 g1 h1], b as [c2 e2 g2 h2]. cbn [mirror_eqb]. rewrite !andb_true_iff. intros [[[H1 H2] H3] H4].
  apply Z.eqb_eq in H1. apply Z.eqb_eq in H2. apply eqb_prop in H3. apply eqb_prop in H4. congruence.
Qed.
Lemma zz_eqb_eq a b : zz_eqb a b = true -> a = b.
Proof.
  destruct a, b. unfold zz_eqb. cbn [fst snd]. rewrite andb_true_iff. intros [H1 H2]. apply Z.eqb_eq in H1. apply Z.eqb_eq in H2. congruence.
Qed.

(* the canonical form of the list of built instances is a rearrangement of it *)
Lemma insert_by_in {A} (key : A -> Z) x l : forall z, In z (insert_by key x l) <-> z = x \/ In z l.
Proof.
  induction l as [|y l IH]; intros z; cbn [insert_by In]; [intuition congruence|].
  destruct (Z.ltb (key x) (key y)); cbn [In]; [intuition congruence|]. rewrite IH. intuition congruence.
Qed.
Lemma sort_by_in {A} (key : A -> Z) l z : In z (sort_by key l) <-> In z l.
Proof.
  unfold sort_by. assert (G : forall acc, In z (fold_left (fun acc x => insert_by key x acc) l acc) <-> In z acc \/ In z l).
  { induction l as [|x l IH]; intros acc; cbn [fold_left In]; [tauto|]. rewrite IH, insert_by_in. intuition congruence. }
  rewrite G. cbn [In]. tauto.
Qed.
Lemma existsb_perm {A} (f : A -> bool) l l' : (forall z, In z l <-> In z l') -> existsb f l = existsb f l'.
Proof. intros H. apply bool_eq_iff. rewrite !existsb_exists. split; intros (x & Hx & Hf); exists x; (split; [apply H; exact Hx | exact Hf]). Qed.

(* ================================================================================================ *)
(* 3. two outputs the judgement cannot tell apart                                                   *)
(* ================================================================================================ *)
Definition out_rel (a b : out) : Prop :=
  x_mirror a = x_mirror b /\ (forall z, In z (x_built a) <-> In z (x_built b)) /\
  list_eqb snap_entry_eqb (x_snaps a) (x_snaps b) = true /\ list_eqb logitem_eqb (x_log a) (x_log b) = true /\
  x_panicked a = x_panicked b.

Lemma out_diff_rel key fr a b : out_diff_k key fr a b = 0 -> out_rel a b.
Proof.
  unfold out_diff_k. intros H.
  match type of H with first_fail ?l = 0 => assert (Hk : forall k b0, In (k, b0) l -> k <> 0) end.
  { intros k b0 Hin. cbn [In] in Hin. repeat (destruct Hin as [Hin|Hin]; [inversion Hin; discriminate|]). destruct Hin. }
  match type of H with first_fail ?l = 0 => assert (Hall : forall k b0, In (k, b0) l -> b0 = true) end.
  { intros k b0 Hin. apply (first_fail_zero _ H k b0 Hin (Hk k b0 Hin) Hk). }
  clear H Hk. split; [|split; [|split; [|split]]].
  - apply (list_eqb_eq mirror_eqb mirror_eqb_eq). apply (Hall 6). cbn [In]. tauto.
  - assert (E : canon_built (x_built a) = canon_built (x_built b)).
    { apply (list_eqb_eq zz_eqb zz_eqb_eq). apply (Hall 7). cbn [In]. tauto. }
    intros z. unfold canon_built in E.
    pose proof (sort_by_in (fun p : Z * Z => fst p * 1000 + snd p) (x_built a) z) as Sa.
    pose proof (sort_by_in (fun p : Z * Z => fst p * 1000 + snd p) (x_built b) z) as Sb.
    rewrite E in Sa. tauto.
  - apply (Hall 5). cbn [In]. tauto.
  - apply (Hall 4). cbn [In]. tauto.
  - apply eqb_prop. apply (Hall 10). cbn [In]. tauto.
Qed.

Lemma out_rel_empty sc : out_rel (empty_out sc) (empty_out sc).
Proof. repeat split; tauto. Qed.

Lemma out_diff_range key fr a b : 0 <= out_diff_k key fr a b <= 10.
Proof.
  unfold out_diff_k. cbn [first_fail]. repeat match goal with |- context [if ?b then _ else _] => destruct b end; lia.
Qed.
Lemma outs_diff_cons key i steps x r y s : 0 <= i -> outs_diff key i steps (x :: r) (y :: s) = 0 ->
  out_diff_k key (match steps with st :: _ => is_frame st | [] => false end) x y = 0 /\ outs_diff key (i + 1) (tl steps) r s = 0.
Proof.
  intros Hi H. cbn [outs_diff] in H. pose proof (out_diff_range key (match steps with st :: _ => is_frame st | [] => false end) x y) as Hr.
  destruct (Z.eqb _ 0) eqn:E; [apply Z.eqb_eq in E; tauto|]. apply Z.eqb_neq in E. lia.
Qed.
Lemma outs_diff_nil_l key i steps b : 0 <= i -> outs_diff key i steps [] b = 0 -> b = [].
Proof. intros Hi H. destruct b; [reflexivity|]. cbn [outs_diff] in H. lia. Qed.
Lemma outs_diff_nil_r key i steps a : 0 <= i -> outs_diff key i steps a [] = 0 -> a = [].
Proof. intros Hi H. destruct a; [reflexivity|]. cbn [outs_diff] in H. lia. Qed.

(* ---- the vocabulary of the judgement on related outputs ---- *)
Section Rel.
Variables (o o' : out).
Hypothesis Hrel : out_rel o o'.

Lemma has_of_rel c e : has_of c e o = has_of c e o'.
Proof. destruct Hrel as (Hm & _). unfold has_of. rewrite Hm. reflexivity. Qed.
Lemma got_of_rel c e : got_of c e o = got_of c e o'.
Proof. destruct Hrel as (Hm & _). unfold got_of. rewrite Hm. reflexivity. Qed.
Lemma holders_has_rel c sc : holders_has c sc o = holders_has c sc o'.
Proof. unfold holders_has. apply filter_ext. intros e. apply has_of_rel. Qed.
Lemma built_ctx_rel c : built_ctx c o = built_ctx c o'.
Proof. destruct Hrel as (_ & Hb & _). unfold built_ctx. apply existsb_perm. exact Hb. Qed.
Lemma built_has_rel c e : built_has c e o = built_has c e o'.
Proof. destruct Hrel as (_ & Hb & _). unfold built_has. apply existsb_perm. exact Hb. Qed.
Lemma touched_by_rel c e : touched_by c e o = touched_by c e o'.
Proof. destruct Hrel as (_ & Hb & _). unfold touched_by. destruct (ctx_shared c); apply existsb_perm; exact Hb. Qed.

Lemma snap_of_entry_rel c e a : osnap_eqb (snap_of_entry c e a (x_snaps o)) (snap_of_entry c e a (x_snaps o')) = true.
Proof.
  destruct Hrel as (_ & _ & Hs & _). revert Hs. generalize (x_snaps o) (x_snaps o'). unfold snap_of_entry.
  induction l as [|x l IH]; intros [|y l'] H; cbn [list_eqb] in H; try discriminate; [reflexivity|].
  apply andb_true_iff in H. destruct H as [Hxy H]. specialize (IH l' H).
  destruct x as [c1 e1 a1 s1], y as [c2 e2 a2 s2]. cbn [snap_entry_eqb] in Hxy.
  rewrite !andb_true_iff in Hxy. destruct Hxy as [[[E1 E2] E3] E4].
  apply Z.eqb_eq in E1. apply Z.eqb_eq in E2. apply Z.eqb_eq in E3. subst c2 e2 a2. cbn [find].
  destruct (Z.eqb c c1 && Z.eqb e e1 && Z.eqb a a1); [exact E4 | exact IH].
Qed.

Lemma fresh_ok_rel sc c e : fresh_ok sc c e o = fresh_ok sc c e o'.
Proof.
  unfold fresh_ok. apply forallb_ext'. intros a. pose proof (snap_of_entry_rel c e a) as H.
  destruct (snap_of_entry c e a (x_snaps o)) as [s|], (snap_of_entry c e a (x_snaps o')) as [s'|]; cbn [osnap_eqb] in H; try discriminate; [|reflexivity].
  apply snap_eqb_parts in H. destruct H as (A1 & A2 & A3 & A4 & A5).
  rewrite A1, A2, (veqb_compat_l _ _ _ A3), (qeqb_compat_l _ _ _ A4), (qeqb_compat_l _ _ _ A5). reflexivity.
Qed.

Lemma find_mod_rel id :
  match find_mod id (x_log o), find_mod id (x_log o') with
  | Some (v, _, _), Some (v', _, _) => veqb v v' = true
  | None, None => True
  | _, _ => False
  end.
Proof.
  destruct Hrel as (_ & _ & _ & Hl & _). revert Hl. generalize (x_log o) (x_log o').
  induction l as [|x lg IH]; intros [|y lg'] H; cbn [list_eqb] in H; try discriminate; [exact I|].
  apply andb_true_iff in H. destruct H as [Hxy H]. specialize (IH lg' H).
  destruct x as [i1 v1 r1 s1|i1 v1 o1 s1], y as [i2 v2 r2 s2|i2 v2 o2 s2]; cbn [logitem_eqb] in Hxy; try discriminate; cbn [find_mod].
  - exact IH.
  - rewrite !andb_true_iff in Hxy. destruct Hxy as [[[E1 E2] E3] E4]. apply Z.eqb_eq in E1. subst i2.
    destruct (Z.eqb i1 id); [exact E2 | exact IH].
Qed.
End Rel.

Lemma ops_leave_others_rel before before' o o' : out_rel before before' -> out_rel o o' ->
  ops_leave_others before o = ops_leave_others before' o'.
Proof.
  intros Hb Ho. unfold ops_leave_others. destruct Hb as (_ & _ & Hs & _).
  apply (forallb_rel snap_entry_eqb _ _ _ _ Hs). intros [c1 e1 a1 s1] [c2 e2 a2 s2] Hxy. cbn [snap_entry_eqb] in Hxy.
  rewrite !andb_true_iff in Hxy. destruct Hxy as [[[E1 E2] E3] E4].
  apply Z.eqb_eq in E1. apply Z.eqb_eq in E2. apply Z.eqb_eq in E3. subst c2 e2 a2.
  destruct s1 as [d|], s2 as [d'|]; cbn [osnap_eqb] in E4; try discriminate; [|reflexivity].
  rewrite (touched_by_rel o o' Ho). f_equal. pose proof (snap_of_entry_rel o o' Ho c1 e1 a1) as H.
  destruct (snap_of_entry c1 e1 a1 (x_snaps o)) as [s|], (snap_of_entry c1 e1 a1 (x_snaps o')) as [s'|]; cbn [osnap_eqb] in H; try discriminate; [|reflexivity].
  apply snap_eqb_compat; assumption.
Qed.

Lemma judge_step_rel sc st before before' o o' : out_rel before before' -> out_rel o o' ->
  judge_step sc st before o = judge_step sc st before' o'.
Proof.
  intros Hb Ho. unfold judge_step. pose proof Ho as (Hm & _ & _ & _ & Hp).
  rewrite Hp, Hm. f_equal. f_equal. destruct (single_op st); [|reflexivity]. f_equal. apply map_ext. intros c.
  destruct (ctx_shared c).
  - rewrite (built_ctx_rel o o' Ho), (holders_has_rel before before' Hb), (holders_has_rel o o' Ho).
    rewrite (forallb_ext' _ (fun e => fresh_ok sc c e o') _ (fun e => fresh_ok_rel o o' Ho sc c e)). reflexivity.
  - f_equal. apply map_ext. intros e.
    rewrite (built_has_rel o o' Ho), (has_of_rel before before' Hb), (has_of_rel o o' Ho), (fresh_ok_rel o o' Ho). reflexivity.
Qed.

Lemma judge_own_device_rel sc st before before' o o' : out_rel before before' -> out_rel o o' ->
  judge_own_device sc st before o = judge_own_device sc st before' o'.
Proof.
  intros Hb Ho. destruct st as [op|f]; cbn [judge_own_device].
  - rewrite (ops_leave_others_rel before before' o o' Hb Ho). reflexivity.
  - apply flat_map_ext. intros [[c e] spec]. rewrite (got_of_rel before before' Hb).
    destruct (negb (ctx_shared c) && got_of c e before'); [|reflexivity].
    apply flat_map_ext. intros ab. apply flat_map_ext. intros ib.
    destruct (ib_mods ib) as [|[id m] rest]; [reflexivity|]. destruct m; try reflexivity. destruct outs; [|reflexivity].
    pose proof (find_mod_rel o o' Ho id) as H.
    destruct (find_mod id (x_log o)) as [[[v ?] ?]|], (find_mod id (x_log o')) as [[[v' ?] ?]|]; try contradiction; [|reflexivity].
    rewrite (veqb_compat_l _ _ _ H). reflexivity.
Qed.

Lemma judge_steps_rel sc key : forall steps a b before before' i,
  0 <= i -> outs_diff key i steps a b = 0 -> out_rel before before' ->
  judge_steps sc before steps a = judge_steps sc before' steps b.
Proof.
  induction steps as [|st steps IH]; intros a b before before' i Hi H Hb.
  - destruct a as [|x r].
    + rewrite (outs_diff_nil_l key i [] b Hi H). reflexivity.
    + destruct b as [|y s]; [discriminate (outs_diff_nil_r key i [] _ Hi H) | reflexivity].
  - destruct a as [|x r].
    + rewrite (outs_diff_nil_l key i _ b Hi H). reflexivity.
    + destruct b as [|y s]; [discriminate (outs_diff_nil_r key i _ _ Hi H)|].
      destruct (outs_diff_cons key i (st :: steps) x r y s Hi H) as [E H']. cbn [tl] in H'.
      pose proof (out_diff_rel _ _ _ _ E) as Ho. cbn [judge_steps].
      rewrite (judge_step_rel sc st before before' x y Hb Ho), (judge_own_device_rel sc st before before' x y Hb Ho).
      rewrite (IH r s x y (i + 1)); [reflexivity | lia | exact H' | exact Ho].
Qed.

(* ================================================================================================ *)
(* 4. the theorems                                                                                  *)
(* ================================================================================================ *)
(* whatever the judgement says about the model's run, it says about every trace that agrees with it; in particular
   the order of x_built, which agree_full leaves open across context types, does not matter to any clause *)
Theorem C07_judgement_respects_agree : forall sc t, agree_full (sc, t) = true -> C07c.ok (sc, t) = C07c.ok (sc, trace (run sc)).
Proof.
  intros sc t H. unfold agree_full in H. cbn [fst snd] in H. apply Z.eqb_eq in H.
  destruct t as [outs|]; [|discriminate H]. cbn [trace_diff] in H. unfold C07c.ok.
  rewrite (judge_steps_rel sc (ctx_key sc) (s_steps sc) (run sc) outs (empty_out sc) (empty_out sc) 0 (Z.le_refl 0) H (out_rel_empty sc)).
  reflexivity.
Qed.

(* (T): no side condition beyond the profile of (S) *)
Theorem C07_app_judgement_transfer : forall sc t, profile_C07 sc -> agree_full (sc, t) = true -> C07c.ok (sc, t) = 0%Z.
Proof. intros sc t Hp Ha. rewrite (C07_judgement_respects_agree sc t Ha). apply C07_judgement_sound. exact Hp. Qed.

(* the per-clause versions: clauses 8, 1, 9, 4 transfer for every scenario *)
Theorem C07_mirror_transfer : forall sc outs k b, agree_full (sc, trace outs) = true ->
  In (k, b) (judge_steps sc (empty_out sc) (s_steps sc) outs) -> In k [8; 1; 9; 4] -> b = true.
Proof.
  intros sc outs k b H Hin Hk. unfold agree_full in H. cbn [fst snd] in H. apply Z.eqb_eq in H. cbn [trace_diff] in H.
  rewrite <- (judge_steps_rel sc (ctx_key sc) (s_steps sc) (run sc) outs (empty_out sc) (empty_out sc) 0 (Z.le_refl 0) H (out_rel_empty sc)) in Hin.
  exact (C07_mirror_sound sc k b Hin Hk).
Qed.

(* (T) on a trace that agrees with the model's run without being equal to it: the instances built by a rebuild are listed
   in the opposite order and the durations of the snapshots are written as unreduced fractions *)
Definition unreduce_q (x : Q) : Q := Qmake (2 * Qnum x) (2 * Qden x).
Definition unreduce_snap (s : snap_entry) : snap_entry :=
  match s with
  | sn c e a (Some d) => sn c e a (Some (mkSnap (sn_state d) (sn_events d) (sn_value d) (unreduce_q (sn_elapsed d)) (unreduce_q (sn_fired d))))
  | _ => s
  end.
Definition other_out (o : out) : out :=
  mkOut (x_pre o) (x_main o) (x_post o) (x_log o) (map unreduce_snap (x_snaps o)) (x_mirror o) (rev (x_built o))
        (x_probe o) (x_update o) (x_panicked o).
Definition other_trace : trace_t := trace (map other_out (run ex_scenario)).

Example C07_transfer_example :
  other_trace <> trace (run ex_scenario) /\ agree_full (ex_scenario, other_trace) = true /\ C07c.ok (ex_scenario, other_trace) = 0.
Proof.
  split; [|split].
  - intros H. apply (f_equal (fun t => match t with trace l => map x_built l | panic => [] end)) in H. vm_compute in H. discriminate.
  - vm_compute. reflexivity.
  - apply C07_app_judgement_transfer; [|vm_compute; reflexivity]. vm_compute. repeat split.
Qed.

Print Assumptions C07_judgement_respects_agree.
Print Assumptions C07_app_judgement_transfer.
Print Assumptions C07_mirror_transfer.
