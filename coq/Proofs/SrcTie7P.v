(* Seventh wave: ContextInstances::update (Generated/RegistrySrc.v) against reg_update (Model/Registry.v).
   Opaque parameter: ctx.update(commands, reader, time, entities) = instance_update' ctx commands reader entities.
   It is instantiated by ANY function [upd] that behaves like the model's inst_update on embedded readers
   (hypothesis upd_ok): new instance, events appended to the queue, consumed set updated, gamepad := the instance's. *)
From Coq Require Import String.
From BEI Require Import Model.Num Model.Value Model.State Model.Tracker Model.Cond Model.Modif Model.Reader.
From BEI Require Import Model.Action Model.Registry.
From BEI Require Import Generated.BevyTbl Generated.RegTbl Generated.ReaderSrc Generated.ActionSrc Generated.RegistrySrc.
From BEI Require Import Proofs.SrcTie3P.
Local Open Scope Z_scope.

Section Tie.
Variables (tm : time) (r : raw).
Definition Cmds := option (list event).
Variable upd : inst -> Cmds -> InputReader_src -> list Z -> inst * Cmds * InputReader_src.
Hypothesis upd_ok : forall i cmds c d ents,
  upd i cmds (reader_of r c d) ents =
  let o := inst_update tm r c ents i in (io_inst o, cat_ev cmds (io_events o), reader_of r (io_consumed o) (in_pad i)).

Lemma cat_ev_nil x : cat_ev x (Some []) = x.
Proof. destruct x; simpl; [now rewrite app_nil_r|reflexivity]. Qed.
Lemma cat_ev_assoc x y z : cat_ev (cat_ev x y) z = cat_ev x (cat_ev y z).
Proof. destruct x, y, z; simpl; try reflexivity. now rewrite app_assoc. Qed.

Lemma excl_cons e i rest c :
  let o := inst_update tm r c [e] i in
  let X := excl_update tm r (io_consumed o) rest in
  excl_update tm r c ((e, i) :: rest) =
  ((e, io_inst o) :: fst (fst (fst X)), snd (fst (fst X)), cat_ev (io_events o) (snd (fst X)), io_log o ++ snd X).
Proof.
  cbv zeta. cbn [excl_update]. 
  generalize (excl_update tm r (io_consumed (inst_update tm r c [e] i)) rest). intros [[[a b] c0] d0]. reflexivity.
Qed.

Lemma excl_tie sf g0 ins0 insts : forall cmds c d, exists d',
  for_mut (ContextInstances_update_step_src Cmds upd sf g0 ins0) (cmds, reader_of r c d) insts =
  (cat_ev cmds (snd (fst (excl_update tm r c insts))), reader_of r (snd (fst (fst (excl_update tm r c insts)))) d',
   fst (fst (fst (excl_update tm r c insts)))).
Proof.
  induction insts as [|[e i] rest IH]; intros cmds c d.
  - exists d. cbn [for_mut excl_update fst snd]. rewrite cat_ev_nil. reflexivity.
  - cbn [for_mut]. unfold ContextInstances_update_step_src at 1. rewrite upd_ok. cbv zeta.
    destruct (IH (cat_ev cmds (io_events (inst_update tm r c [e] i))) (io_consumed (inst_update tm r c [e] i)) (in_pad i)) as [d' H].
    exists d'. rewrite H. rewrite excl_cons. cbv zeta. cbn [fst snd]. rewrite cat_ev_assoc. reflexivity.
Qed.

Theorem ContextInstances_update_tie gs : forall cmds c d, exists d',
  ContextInstances_update_src Cmds upd gs cmds (reader_of r c d) =
  let o := reg_update tm r c gs in (ro_reg o, cat_ev cmds (ro_events o), reader_of r (ro_consumed o) d').
Proof.
  unfold ContextInstances_update_src.
  assert (L : forall sf gs cmds c d, exists d',
    for_mut (ContextInstances_update_step2_src Cmds upd sf) (cmds, reader_of r c d) gs =
    let o := reg_update tm r c gs in ((cat_ev cmds (ro_events o), reader_of r (ro_consumed o) d'), ro_reg o)).
  { intros sf. induction gs0 as [|g rest IH]; intros cmds c d.
    - exists d. cbn [for_mut reg_update ro_reg ro_events ro_consumed]. rewrite cat_ev_nil; reflexivity.
    - destruct g as [cx p insts|cx p ents i]; cbn [for_mut reg_update];
        unfold ContextInstances_update_step2_src at 1; cbv zeta.
      + destruct (excl_tie sf (GExcl cx p insts) insts insts cmds c d) as [d1 H1]. rewrite H1. clear H1.
        generalize (excl_update tm r c insts). intros [[[insts' c'] ev] lg]. cbn [fst snd].
        destruct (IH (cat_ev cmds ev) c' d1) as [d' H]. exists d'. rewrite H. cbn. rewrite cat_ev_assoc; reflexivity.
      + rewrite upd_ok. cbv zeta.
        destruct (IH (cat_ev cmds (io_events (inst_update tm r c ents i))) (io_consumed (inst_update tm r c ents i)) (in_pad i)) as [d' H].
        exists d'. rewrite H. cbn. rewrite cat_ev_assoc; reflexivity. }
  intros cmds c d. destruct (L gs gs cmds c d) as [d' H]. exists d'. rewrite H. reflexivity.
Qed.
End Tie.
Print Assumptions ContextInstances_update_tie.
