(* Soundness (and transfer) of the executable judgements of C15 / C16 on the model's own run:
     Check/Readc.v  (ok)      - every probed read equals Spec/ReadSpec.spec_read   (non-consuming profiles)
     Check/C15c.v   (ok_ext)  - Readc.ok (or C05c.ok5 for consuming profiles) and C08c.ok8.
   Built on Proofs/JudgeC07P.v (where a logged modifier invocation comes from: sites, insts_ok) and on
   Proofs/JudgeC12P.v (the judgement's held map against the model's suppression flags: h_inv, OInv). *)
From Coq Require Import ZArith QArith List Bool Lia Permutation Sorted.
From BEI Require Import Model.Frame Spec.ReadSpec Spec.Law Proofs.ActionP Proofs.ReaderP Proofs.StateP Proofs.ConsumeP Proofs.SuppressP
  Proofs.FrameLiftP Proofs.SuppressLiftP Proofs.RegistryP Proofs.TrackDefs Proofs.TrackOpP Proofs.ValueP.
From BEI Require Proofs.JudgeC03P Proofs.JudgeC07P.
From BEI Require Import Proofs.JudgeC12P.
From BEI Require Import Check.App Check.C12c Check.C08c Check.Merge Check.C05c Check.Readc Check.C15c.
Import ListNotations.
Open Scope Z_scope.

Module J7 := BEI.Proofs.JudgeC07P.
Module J12 := BEI.Proofs.JudgeC12P.
Module J3 := BEI.Proofs.JudgeC03P.

(* ================================================================================================ *)
(* 0. helpers                                                                                       *)
(* ================================================================================================ *)
Lemma all_true_app a b : all_true a -> all_true b -> all_true (a ++ b).
Proof. intros Ha Hb k x Hin. apply in_app_or in Hin. destruct Hin as [H|H]; [exact (Ha k x H) | exact (Hb k x H)]. Qed.
Lemma all_true_cons k l : all_true l -> all_true ((k, true) :: l).
Proof. intros H k' b [E|Hin]; [inversion E; reflexivity | exact (H k' b Hin)]. Qed.

Definition out0 : out := mkOut [] [] [] [] [] [] [] true true false.

(* ================================================================================================ *)
(* 1. Readc: one frame from any world all of whose instances come from the configuration            *)
(* ================================================================================================ *)
Lemma read_frame sc w f fo before o :
  J7.sites_distinctb sc = true -> J7.insts_ok sc w -> frame sc w f = Some fo -> x_log o = fo_log fo ->
  all_true (Readc.judge_frame sc f before o).
Proof.
  intros Hdist Hok Hf Hlog k b Hin. apply J7.nodupb_NoDup in Hdist.
  assert (Hl : x_log o = ro_log (reg_update (frame_time f) (f_raw f) (update_state (f_raw f)) (w_reg w))).
  { rewrite Hlog. unfold frame in Hf. destruct (ro_events _) as [main|]; [|discriminate].
    destruct (run_ops sc _ (f_ops f)) as [a|]; [|discriminate]. injection Hf as <-. reflexivity. }
  unfold Readc.judge_frame in Hin. apply in_flat_map in Hin. destruct Hin as ([[c e] spec] & Hcfg & Hin).
  destruct (Readc.got_of c e before); [|destruct Hin].
  apply in_flat_map in Hin. destruct Hin as (ab & Hab & Hin). apply in_flat_map in Hin. destruct Hin as (ib & Hib & Hin).
  destruct (ib_mods ib) as [|[id m] rest] eqn:Em; [destruct Hin|].
  destruct (find_mod id (x_log o)) as [[[vin vo] sn]|] eqn:Efm; [|destruct Hin].
  destruct Hin as [E|[]]. injection E as _ <-.
  apply J7.find_mod_in in Efm. rewrite Hl in Efm.
  assert (Hnc : Forall J7.nonconsuming (J7.all_insts (w_reg w))) by (eapply Forall_impl; [|exact Hok]; intros i [_ H]; exact H).
  destruct (J7.frame_log_sites _ _ _ _ _ Hnc Efm) as (i & Hi & s & Hs & Hread).
  unfold J7.insts_ok in Hok. rewrite Forall_forall in Hok. destruct (Hok i Hi) as [(c' & e' & Hsites) _].
  assert (Hspec : In (id, Some (i_pad spec, ib_input ib)) (J7.cfg_sites sc)).
  { unfold J7.cfg_sites. apply in_flat_map. exists (c, e, spec). split; [exact Hcfg|]. cbn [snd]. unfold J7.inst_sites.
    apply in_flat_map. exists ab. split; [exact Hab|]. rewrite J7.in_pad_instantiate. unfold J7.ab_sites. apply in_or_app. left.
    apply in_flat_map. exists ib. split; [exact Hib|]. unfold J7.ib_sites, ids_of. rewrite Em. left. reflexivity. }
  assert (Hreg : In (id, s) (J7.cfg_sites sc)).
  { rewrite Hsites in Hs. unfold mk_inst in Hs. destruct (J7.cfg_lookup_cases sc c' e') as [E|(x & Hx & E)]; rewrite E in Hs.
    - destruct Hs.
    - unfold J7.cfg_sites. apply in_flat_map. exists x. split; assumption. }
  pose proof (J7.nodup_fst_functional _ _ _ _ Hdist Hreg Hspec) as ->.
  rewrite (Hread _ _ eq_refl), read_fresh. apply J7.veqb_refl.
Qed.

(* ---- R3 for Readc: induction over the steps ---- *)
Lemma read_steps sc : J7.nonconsumingb sc = true -> J7.sites_distinctb sc = true ->
  forall steps w before, reg_inv sc w -> J7.insts_ok sc w ->
  all_true (Readc.judge_steps sc before steps (run_steps sc w steps)).
Proof.
  intros Hnc Hdist. induction steps as [|st steps IH]; intros w before Hinv Hok; [intros k b []|].
  rewrite J7.run_steps_cons. destruct (J7.step_res_inv sc w st Hinv) as (w' & o & Hs & Hinv' & (_ & _ & Hp)). rewrite Hs.
  pose proof (J7.step_res_insts sc (J7.mk_inst_from_spec sc Hnc) w st w' o Hinv Hs Hok) as Hok'.
  destruct st as [op|f]; cbn [Readc.judge_steps]; rewrite Hp; cbn [negb]; apply all_true_cons.
  - apply IH; assumption.
  - apply all_true_app; [|apply IH; assumption].
    cbn [J7.step_res] in Hs. destruct (frame sc w f) as [fo|] eqn:Ef; [|discriminate]. injection Hs as <- <-.
    apply (read_frame sc w f fo before _ Hdist Hok Ef). reflexivity.
Qed.

(* the class of scenarios on which Readc.ok is meant to be used: no action consumes its inputs; the log ids of the
   modifiers are pairwise distinct over the whole configuration *)
Definition profile_Readb (sc : scenario) : bool := J7.nonconsumingb sc && J7.sites_distinctb sc.
Definition profile_Read (sc : scenario) : Prop := profile_Readb sc = true.

Theorem Read_judgement_sound : forall sc, profile_Read sc -> Readc.ok (sc, trace (run sc)) = 0%Z.
Proof.
  intros sc Hp. apply andb_true_iff in Hp. destruct Hp as [Hnc Hdist]. unfold Readc.ok, run. apply all_true_first_fail.
  apply (read_steps sc Hnc Hdist); [apply reg_inv_init | apply J7.insts_ok_init].
Qed.

(* ================================================================================================ *)
(* 2. (T) for Readc: the judgement respects the equalities agree_full uses                          *)
(* ================================================================================================ *)
Lemma qeqb_compat_l x x' y : qeqb x x' = true -> qeqb x y = qeqb x' y.
Proof.
  unfold qeqb. intros H. apply Qeq_bool_iff in H.
  destruct (Qeq_bool x y) eqn:E1, (Qeq_bool x' y) eqn:E2; try reflexivity.
  - apply Qeq_bool_iff in E1. assert (E : (x' == y)%Q) by (rewrite <- H; exact E1). apply Qeq_bool_iff in E. congruence.
  - apply Qeq_bool_iff in E2. assert (E : (x == y)%Q) by (rewrite H; exact E2). apply Qeq_bool_iff in E. congruence.
Qed.
Lemma veqb_compat_l a a' b : veqb a a' = true -> veqb a b = veqb a' b.
Proof.
  destruct a, a'; cbn [veqb]; try discriminate; intros H; destruct b; cbn [veqb]; try reflexivity.
  - apply eqb_prop in H. subst. reflexivity.
  - apply qeqb_compat_l. exact H.
  - apply andb_true_iff in H. destruct H as [H1 H2]. rewrite (qeqb_compat_l _ _ _ H1), (qeqb_compat_l _ _ _ H2). reflexivity.
  - apply andb_true_iff in H. destruct H as [H H3]. apply andb_true_iff in H. destruct H as [H1 H2].
    rewrite (qeqb_compat_l _ _ _ H1), (qeqb_compat_l _ _ _ H2), (qeqb_compat_l _ _ _ H3). reflexivity.
Qed.

(* what agree_full guarantees of each out record, as far as the judgements of this file read it *)
Definition out_rel (a b : out) : Prop :=
  list_eqb logitem_eqb (x_log a) (x_log b) = true /\ list_eqb snap_entry_eqb (x_snaps a) (x_snaps b) = true /\
  x_mirror a = x_mirror b /\ x_panicked a = x_panicked b /\ (forall p, In p (x_built a) <-> In p (x_built b)).

Lemma out_diff_rel key isf a b : out_diff_k key isf a b = 0 -> out_rel a b.
Proof.
  intros H. destruct (J12.out_diff_agree key isf a b H) as (_ & A2 & A3 & A4).
  destruct (J3.out_diff_fields key isf a b H) as (_ & B2 & B3 & _). repeat split; try assumption; apply A4.
Qed.
Lemma outs_diff_rel key : forall a b i steps, outs_diff key i steps a b = 0 -> Forall2 out_rel a b.
Proof.
  induction a as [|x a IH]; intros [|y b] i steps H; cbn [outs_diff] in H; [constructor | lia | lia |].
  pose proof (J12.out_diff_range key (match steps with st :: _ => is_frame st | [] => false end) x y) as R.
  destruct (Z.eqb (out_diff_k key (match steps with st :: _ => is_frame st | [] => false end) x y) 0) eqn:E; [|apply Z.eqb_neq in E; lia].
  apply Z.eqb_eq in E. constructor; [exact (out_diff_rel _ _ _ _ E) | exact (IH _ _ _ H)].
Qed.
Lemma agree_rel sc outs : agree_full (sc, trace outs) = true -> Forall2 out_rel (run sc) outs.
Proof.
  unfold agree_full. cbn [fst snd trace_diff]. intros H. apply Z.eqb_eq in H. exact (outs_diff_rel _ _ _ _ _ H).
Qed.

Definition vin_rel (a b : option (value * value * list (Z * state))) : Prop :=
  match a, b with Some (v, _, _), Some (v', _, _) => veqb v v' = true | None, None => True | _, _ => False end.
Lemma find_mod_vin id : forall lg lg', list_eqb logitem_eqb lg lg' = true -> vin_rel (find_mod id lg) (find_mod id lg').
Proof.
  induction lg as [|x lg IH]; intros [|y lg'] H; cbn [list_eqb] in H; try discriminate; [exact I|].
  apply andb_true_iff in H. destruct H as [Hxy H]. specialize (IH lg' H).
  destruct x as [i1 v1 r1 s1|i1 v1 o1 s1], y as [i2 v2 r2 s2|i2 v2 o2 s2]; cbn [logitem_eqb] in Hxy; try discriminate; cbn [find_mod].
  - exact IH.
  - apply andb_true_iff in Hxy. destruct Hxy as [Hxy _]. apply andb_true_iff in Hxy. destruct Hxy as [Hxy _].
    apply andb_true_iff in Hxy. destruct Hxy as [E1 E2]. apply Z.eqb_eq in E1. subst i2.
    destruct (Z.eqb i1 id); [exact E2 | exact IH].
Qed.

Lemma read_frame_cong sc f before before' o o' : x_mirror before = x_mirror before' -> out_rel o o' ->
  Readc.judge_frame sc f before o = Readc.judge_frame sc f before' o'.
Proof.
  intros M (L & _). unfold Readc.judge_frame.
  apply FrameLiftP.flat_map_ext_in. intros [[c e] spec] _. unfold Readc.got_of. rewrite M.
  destruct (existsb _ (x_mirror before')); [|reflexivity].
  apply FrameLiftP.flat_map_ext_in. intros ab _. apply FrameLiftP.flat_map_ext_in. intros ib _.
  destruct (ib_mods ib) as [|[id m] rest]; [reflexivity|].
  pose proof (find_mod_vin id _ _ L) as R. unfold vin_rel in R.
  destruct (find_mod id (x_log o)) as [[[v a1] a2]|], (find_mod id (x_log o')) as [[[v' b1] b2]|]; try contradiction; [|reflexivity].
  rewrite (veqb_compat_l _ _ _ R). reflexivity.
Qed.
Lemma read_steps_cong sc : forall steps before before' outs outs',
  x_mirror before = x_mirror before' -> Forall2 out_rel outs outs' ->
  Readc.judge_steps sc before steps outs = Readc.judge_steps sc before' steps outs'.
Proof.
  induction steps as [|st steps IH]; intros before before' outs outs' M HA.
  - inversion HA; subst; reflexivity.
  - inversion HA as [|o o' r r' Ho HA']; subst; [destruct st; reflexivity|].
    pose proof Ho as (_ & _ & M' & P & _).
    destruct st as [op|f]; cbn [Readc.judge_steps]; rewrite P, (IH o o' r r' M' HA'); [reflexivity|].
    rewrite (read_frame_cong sc f before before' o o' M Ho). reflexivity.
Qed.

Theorem Read_judgement_respects_agree : forall sc t, agree_full (sc, t) = true -> Readc.ok (sc, t) = Readc.ok (sc, trace (run sc)).
Proof.
  intros sc [outs|] H; [|discriminate H]. unfold Readc.ok. f_equal. symmetry.
  apply read_steps_cong; [reflexivity | apply agree_rel; exact H].
Qed.
Theorem Read_judgement_transfer : forall sc t, profile_Read sc -> agree_full (sc, t) = true -> Readc.ok (sc, t) = 0%Z.
Proof. intros sc t Hp Ha. rewrite (Read_judgement_respects_agree sc t Ha). apply Read_judgement_sound. exact Hp. Qed.

(* ================================================================================================ *)
(* 3. ok8 (Check/C08c.v): which probed bindings are logged, against the held map                     *)
(* ================================================================================================ *)
(* ---- 3.1 pure lists: the first id of a configured binding is logged iff its stored counterpart is not skipped ---- *)
Lemma input_ids_sub sk b b0 l : ib_sim sk l b b0 -> incl (input_ids (sk b) b) (input_all_ids b0).
Proof.
  intros (_ & Hm & Hc & _) x Hx. unfold input_ids in Hx. destruct (sk b); [destruct Hx|].
  unfold input_all_ids. rewrite <- Hm, <- Hc. exact Hx.
Qed.

Lemma inputs_logged sk l bs bs0 : Forall2 (ib_sim sk l) bs bs0 -> NoDup (inputs_all_ids bs0) ->
  forall b0 id rest, In b0 bs0 -> input_all_ids b0 = id :: rest ->
  exists b, In b bs /\ ib_sim sk l b b0 /\ (In id (sk_inputs_ids sk bs) <-> sk b = false).
Proof.
  induction 1 as [|b b0 bs bs0 Hb Hbs IH]; intros Hnd x0 id rest Hin Hid; [destruct Hin|].
  unfold inputs_all_ids in Hnd. cbn [flat_map] in Hnd. fold (inputs_all_ids bs0) in Hnd.
  destruct (NoDup_app_inv _ _ Hnd) as (_ & Hnd' & Hd12).
  unfold sk_inputs_ids. cbn [map concat]. fold (sk_inputs_ids sk bs).
  destruct Hin as [<-|Hin].
  - exists b. split; [left; reflexivity|]. split; [exact Hb|]. rewrite in_app_iff.
    assert (Hidin : In id (input_all_ids b0)) by (rewrite Hid; left; reflexivity).
    split.
    + intros [H|H].
      * unfold input_ids in H. destruct (sk b); [destruct H | reflexivity].
      * exfalso. apply (Hd12 id Hidin). exact (sk_inputs_sub sk l _ _ Hbs id H).
    + intros E. left. unfold input_ids. rewrite E. destruct Hb as (_ & Hm & Hc & _). unfold input_all_ids in Hidin.
      rewrite Hm, Hc. exact Hidin.
  - destruct (IH Hnd' x0 id rest Hin Hid) as (b1 & Hb1 & Hsim & Hiff). exists b1. split; [right; exact Hb1|]. split; [exact Hsim|].
    rewrite in_app_iff, <- Hiff. split; [|tauto]. intros [H|H]; [|exact H]. exfalso.
    apply (Hd12 id (input_ids_sub sk b b0 l Hb id H)). unfold inputs_all_ids. apply in_flat_map. exists x0. split; [exact Hin|].
    rewrite Hid. left. reflexivity.
Qed.

Lemma abinds_logged sk l abs abs0 : Forall2 (ab_sim sk l) abs abs0 -> NoDup (abinds_all_ids abs0) ->
  forall ab0 b0 id rest, In ab0 abs0 -> In b0 (ab_inputs ab0) -> input_all_ids b0 = id :: rest ->
  exists ab b, In ab abs /\ In b (ab_inputs ab) /\ ib_sim sk l b b0 /\ (In id (flat_map (sk_abind_ids sk) abs) <-> sk b = false).
Proof.
  induction 1 as [|ab ab0 abs abs0 Hab Habs IH]; intros Hnd x0 b0 id rest Hin Hb0 Hid; [destruct Hin|].
  pose proof Hab as (Hm & Hc & Hi).
  unfold abinds_all_ids in Hnd. cbn [flat_map] in Hnd. fold (abinds_all_ids abs0) in Hnd.
  destruct (NoDup_app_inv _ _ Hnd) as (Hnd1 & Hnd2 & Hd12).
  unfold abind_all_ids in Hnd1. destruct (NoDup_app_inv _ _ Hnd1) as (Hnd11 & _ & Hd11).
  cbn [flat_map]. destruct Hin as [<-|Hin].
  - destruct (inputs_logged sk l _ _ Hi Hnd11 b0 id rest Hb0 Hid) as (b & Hb & Hsim & Hiff).
    exists ab, b. split; [left; reflexivity|]. split; [exact Hb|]. split; [exact Hsim|].
    assert (Hidin : In id (inputs_all_ids (ab_inputs ab0))).
    { unfold inputs_all_ids. apply in_flat_map. exists b0. split; [exact Hb0|]. rewrite Hid. left. reflexivity. }
    rewrite <- Hiff. unfold sk_abind_ids at 1. rewrite !in_app_iff. split; [|tauto].
    intros [[H|H]|H]; [exact H | |]; exfalso.
    + rewrite Hm, Hc in H. apply (Hd11 id Hidin). apply in_or_app. exact H.
    + apply (Hd12 id); [unfold abind_all_ids; apply in_or_app; left; exact Hidin | exact (sk_abinds_sub sk l _ _ Habs id H)].
  - destruct (IH Hnd2 x0 b0 id rest Hin Hb0 Hid) as (ab1 & b & Hab1 & Hb & Hsim & Hiff).
    exists ab1, b. split; [right; exact Hab1|]. split; [exact Hb|]. split; [exact Hsim|].
    rewrite in_app_iff, <- Hiff. split; [|tauto]. intros [H|H]; [|exact H]. exfalso.
    apply (Hd12 id (sk_abind_sub sk l _ _ Hab id H)). unfold abinds_all_ids. apply in_flat_map. exists x0. split; [exact Hin|].
    unfold abind_all_ids. apply in_or_app. left. unfold inputs_all_ids. apply in_flat_map. exists b0. split; [exact Hb0|].
    rewrite Hid. left. reflexivity.
Qed.

Lemma input_eqb_eq i j : input_eqb i j = true -> i = j.
Proof.
  destruct i, j; cbn [input_eqb]; try discriminate; intros H;
    repeat (apply andb_true_iff in H; destruct H as [H ?]);
    repeat match goal with E : Z.eqb _ _ = true |- _ => apply Z.eqb_eq in E end; congruence.
Qed.
Lemma held_iff i l : existsb (input_eqb i) l = true <-> In i l.
Proof.
  split; [|apply held_in]. intros H. apply existsb_exists in H. destruct H as (j & Hj & E). apply input_eqb_eq in E. subst j. exact Hj.
Qed.

(* ---- 3.2 the converse invariant: an input still in the held list belongs to a binding that is still suppressed ---- *)
Definition conv_inst (l : list input) (i : inst) : Prop :=
  Forall (fun ab => Forall (fun b => In (ib_input b) l -> ib_ignored b = true) (ab_inputs ab)) (in_binds i).
Definition conv_group (h : held_map) (g : group) : Prop :=
  match g with
  | GExcl c _ insts => Forall (fun ei => conv_inst (held_lookup h c (fst ei)) (snd ei)) insts
  | GShared c _ _ i => forall e0, h_owner h c = Some e0 -> conv_inst (held_lookup h c e0) i
  end.
Definition c_inv (r : registry) (h : held_map) : Prop := Forall (conv_group h) r.

Lemma fresh_conv l s : conv_inst l (instantiate s).
Proof.
  unfold conv_inst. eapply Forall_impl; [|apply instantiate_ignored]. intros ab H. eapply Forall_impl; [|exact H].
  intros b Hb _. exact Hb.
Qed.
Lemma mk_conv l sc c e : conv_inst l (mk_inst sc c e).
Proof. apply fresh_conv. Qed.

Lemma conv_group_other h h' g :
  (forall e, held_lookup h' (g_ctx g) e = held_lookup h (g_ctx g) e) -> h_owner h' (g_ctx g) = h_owner h (g_ctx g) ->
  conv_group h g -> conv_group h' g.
Proof.
  destruct g as [c p insts|c p ents i]; cbn [conv_group g_ctx]; intros H1 H2 H.
  - eapply Forall_impl; [|exact H]. intros ei Hei. cbv beta in *. rewrite H1. exact Hei.
  - intros e0 He0. rewrite H1. apply H. rewrite <- H2. exact He0.
Qed.
Lemma conv_group_set_other h c e l g : g_ctx g <> c -> conv_group h g -> conv_group (held_set h c e l) g.
Proof.
  intros Hne. apply conv_group_other.
  - intros e'. rewrite held_lookup_set. replace (Z.eqb c (g_ctx g)) with false by (symmetry; apply Z.eqb_neq; congruence). reflexivity.
  - rewrite h_owner_set. replace (Z.eqb c (g_ctx g)) with false by (symmetry; apply Z.eqb_neq; congruence). reflexivity.
Qed.
Lemma Forall_conv_set_other h c e l gs : ~ In c (map g_ctx gs) -> Forall (conv_group h) gs -> Forall (conv_group (held_set h c e l)) gs.
Proof.
  intros Hn H. apply Forall_forall. intros g Hg. rewrite Forall_forall in H. apply conv_group_set_other; [|apply H; exact Hg].
  intros E. apply Hn. rewrite <- E. apply in_map. exact Hg.
Qed.

(* one registry update *)
Lemma conv_inst_step r l i i' s : inst_sim l i s -> conv_inst l i -> flags_step r i i' ->
  conv_inst (filter (fun x => phys_active r (i_pad s) x) l) i'.
Proof.
  intros [Hp _] Hc [_ Hb']. unfold conv_inst in *.
  refine (Forall2_Forall _ _ _ _ _ _ Hb' Hc). intros ab ab' (_ & _ & _ & Si) Hab.
  refine (Forall2_Forall _ _ _ _ _ _ Si Hab). intros b b' (Ti & _ & _ & Tf & _) Hbb Hin.
  apply filter_In in Hin. destruct Hin as [Hin Hph]. rewrite Ti in Hin, Hph. rewrite Tf, (Hbb Hin). cbn [andb].
  rewrite phys_active_phys, <- Hp in Hph. exact Hph.
Qed.
Lemma conv_group_step sc r h g g' : group_rel sc h g -> conv_group h g -> group_flags_step r g g' -> conv_group (hfilter sc r h) g'.
Proof.
  destruct g as [c p insts|c p ents i], g' as [c' p' insts'|c' p' ents' i']; cbn [group_rel conv_group group_flags_step]; intros H C S; try contradiction.
  - destruct S as (-> & _ & S).
    assert (HC : Forall (fun ei => inst_sim (held_lookup h c (fst ei)) (snd ei) (cfg_lookup sc c (fst ei)) /\
                                   conv_inst (held_lookup h c (fst ei)) (snd ei)) insts).
    { apply Forall_forall. intros ei Hei. rewrite Forall_forall in H, C. split; [apply H | apply C]; exact Hei. }
    refine (Forall2_Forall _ _ _ _ _ _ S HC). intros [e i] [e' i'] [E F] [Hs Hc]. cbn [fst snd] in *. subst e'.
    rewrite held_lookup_filter. exact (conv_inst_step r _ i i' _ Hs Hc F).
  - destruct S as (-> & _ & _ & F). destruct H as (e0 & Ho & Hs). intros e1 He1. rewrite h_owner_filter in He1.
    assert (e1 = e0) by congruence. subst e1. rewrite held_lookup_filter. exact (conv_inst_step r _ i i' _ Hs (C e0 Ho) F).
Qed.
Lemma c_inv_update sc tm r c gs h : h_inv sc gs h -> c_inv gs h -> c_inv (ro_reg (reg_update tm r c gs)) (hfilter sc r h).
Proof.
  unfold h_inv, c_inv. intros H C.
  assert (HC : Forall (fun g => group_rel sc h g /\ conv_group h g) gs).
  { apply Forall_forall. intros g Hg. rewrite Forall_forall in H, C. split; [apply H | apply C]; exact Hg. }
  refine (Forall2_Forall _ _ _ _ _ _ (reg_update_flags tm r gs c) HC).
  intros g g' S [Hg Cg]. exact (conv_group_step sc r h g g' Hg Cg S).
Qed.

(* ---- 3.3 the converse invariant through operations (the skeleton is that of JudgeC12P, section 8) ---- *)
Lemma reg_add_cinv sc c e r h : reg_wf r -> c_inv r h -> ~ holds_in c e r ->
  c_inv (reg_add (mk_inst sc c) c e r) (rebuilt sc h (add_built c e r)).
Proof.
  intros Hwf Hh Hnh. unfold add_built, c_inv in *. destruct (index_of c r) as [n|] eqn:Ei.
  - destruct (index_of_some c r n Ei) as (l1 & g & l2 & -> & _ & Hc & Hn1).
    destruct (reg_wf_absent _ _ _ Hwf) as [_ Hn2]. rewrite Hc in Hn2.
    destruct (reg_wf_group _ _ _ Hwf) as (_ & Hsh & _). rewrite Hc in Hsh.
    rewrite (reg_add_old _ c e l1 g l2 Hn1 Hc).
    apply Forall_app in Hh. destruct Hh as [H1 H2]. inversion H2 as [|? ? Hg H3]; subst.
    assert (Hne : ~ In e (g_ents g)).
    { intros H. apply Hnh. exists g. split; [apply in_or_app; right; left; reflexivity | split; [reflexivity | exact H]]. }
    destruct g as [c0 p insts|c0 p ents i]; cbn [g_ctx g_shared g_ents add_ent conv_group] in *.
    + rewrite <- Hsh, rebuilt_one. apply Forall_app. split; [apply Forall_conv_set_other; assumption|].
      constructor; [|apply Forall_conv_set_other; assumption]. cbn [conv_group]. apply Forall_app. split.
      * apply Forall_forall. intros [e' i'] Hin. rewrite Forall_forall in Hg. specialize (Hg _ Hin). cbn [fst snd] in *.
        rewrite held_lookup_set. replace (Z.eqb e e') with false; [rewrite andb_false_r; exact Hg|].
        symmetry. apply Z.eqb_neq. intros ->. apply Hne. apply in_map_iff. exists (e', i'). split; [reflexivity | exact Hin].
      * constructor; [|constructor]. cbn [fst snd]. apply mk_conv.
    + rewrite <- Hsh. cbn [rebuilt fold_left]. apply Forall_app. split; [exact H1|]. constructor; [exact Hg | exact H3].
  - rewrite (reg_add_new _ c e r Ei), rebuilt_one. apply index_of_none in Ei. apply Forall_insert_at.
    + apply Forall_conv_set_other; assumption.
    + unfold new_group. destruct (ctx_shared c); cbn [conv_group].
      * intros e0 _. apply mk_conv.
      * constructor; [|constructor]. cbn [fst snd]. apply mk_conv.
Qed.

Definition OInv2 (sc : scenario) (T : list (Z * Z)) (w : world) (h : held_map) : Prop := OInv sc T w h /\ c_inv (w_reg w) h.
Definition AInv2 (sc : scenario) (T : list (Z * Z)) (h : held_map) (a : op_out) : Prop :=
  OInv2 sc T (oo_world a) (rebuilt sc h (oo_built a)).

Lemma insert_ctx_OInv2 sc T w h e c : OInv2 sc T w h -> In (e, c) T ->
  OInv2 sc T (oo_world (insert_ctx sc w e c)) (rebuilt sc h (oo_built (insert_ctx sc w e c))).
Proof.
  intros [HO HC] Hin. split; [apply insert_ctx_OInv; assumption|]. destruct HO as (Hinv & _ & _). unfold insert_ctx.
  destruct (holds_of e (w_holds w)) as [cs|] eqn:He; [|exact HC].
  destruct (memz c cs || negb (memz c (s_menu sc))) eqn:Em; [exact HC|].
  cbn [oo_world oo_built w_reg]. apply orb_false_iff in Em. destruct Em as [Em _].
  pose proof (proj1 (reg_inv_alt sc w) Hinv) as (Hwf & Hm & _).
  apply (reg_add_cinv sc c e (w_reg w) h Hwf HC). intros H. apply Hm in H. destruct H as (cs' & H1 & H2). congruence.
Qed.
Lemma spawn_fold_OInv2 sc T h e cs : (forall c, In c cs -> In (e, c) T) -> forall acc, AInv2 sc T h acc ->
  AInv2 sc T h (fold_left (fun acc c => let o := insert_ctx sc (oo_world acc) e c in
                                        mkOpOut (oo_world o) (oo_events acc ++ oo_events o) (oo_built acc ++ oo_built o)) cs acc).
Proof.
  induction cs as [|c cs IH]; intros Hin acc Ha; cbn [fold_left]; [exact Ha|].
  apply IH; [intros c' Hc'; apply Hin; right; exact Hc'|]. unfold AInv2 in *. cbv zeta. cbn [oo_world oo_built].
  rewrite rebuilt_app. apply insert_ctx_OInv2; [exact Ha | apply Hin; left; reflexivity].
Qed.

Lemma reg_remove_cinv tm c e r r' oevs h : reg_remove tm c e r = Some (r', oevs) -> c_inv r h -> c_inv r' h.
Proof.
  unfold reg_remove, c_inv. intros H Hh.
  destruct (index_of c r) as [n|]; [|discriminate]. destruct (nth_error r n) as [g|] eqn:En; [|discriminate].
  assert (Hg : conv_group h g) by (rewrite Forall_forall in Hh; apply Hh; eapply nth_error_In; exact En).
  destruct g as [c' p insts|c' p ents i].
  - destruct (position (fun ei : Z * inst => Z.eqb (fst ei) e) insts) as [k|]; [|discriminate].
    destruct (nth_error insts k) as [[x i]|]; [|discriminate]. injection H as <- _.
    destruct (swap_remove k insts) as [|q rest] eqn:Es; [apply Forall_remove_at; exact Hh|].
    apply Forall_update_at; [exact Hh|]. intros _ _. cbn [conv_group] in *. rewrite Forall_forall in *.
    intros ei Hei. apply Hg. apply (swap_remove_incl k insts). rewrite Es. exact Hei.
  - destruct (position (Z.eqb e) ents) as [k|]; [|discriminate]. injection H as <- _.
    destruct (swap_remove k ents) as [|q rest]; [apply Forall_remove_at; exact Hh|].
    apply Forall_update_at; [exact Hh|]. intros _ _. exact Hg.
Qed.
Lemma remove_ctx_OInv2 sc T w h e c o : OInv2 sc T w h -> remove_ctx w e c = Some o -> OInv2 sc T (oo_world o) h /\ oo_built o = [].
Proof.
  intros [HO HC] H. destruct (remove_ctx_OInv sc T w h e c o HO H) as [HO' Hb]. split; [|exact Hb]. split; [exact HO'|].
  unfold remove_ctx in H. destruct (holds_of e (w_holds w)) as [cs|]; [|injection H as <-; exact HC].
  destruct (negb (memz c cs)); [injection H as <-; exact HC|].
  destruct (reg_remove (w_time w) c e (w_reg w)) as [[r' [evs|]]|] eqn:Er; try discriminate. injection H as <-.
  cbn [oo_world w_reg]. exact (reg_remove_cinv _ _ _ _ _ _ h Er HC).
Qed.
Lemma despawn_fold_OInv2 sc T h e cs : forall a a', fold_left (despawn_f e) cs (Some a) = Some a' ->
  OInv2 sc T (oo_world a) h -> OInv2 sc T (oo_world a') h.
Proof.
  induction cs as [|c cs IH]; intros a a' H Ha; cbn [fold_left] in H; [injection H as <-; exact Ha|].
  cbn [despawn_f] in H. destruct (remove_ctx (oo_world a) e c) as [o|] eqn:Er; [|rewrite despawn_f_none in H; discriminate].
  apply (IH _ _ H). cbn [oo_world]. exact (proj1 (remove_ctx_OInv2 sc T _ h e c o Ha Er)).
Qed.

Lemma reg_rebuild_cinv sc tm c r r' oevs h : reg_wf r -> c_inv r h ->
  reg_rebuild (mk_inst sc c) tm c r = Some (r', oevs) -> c_inv r' (rebuilt sc h (built_of c r)).
Proof.
  intros Hwf Hh H. unfold built_of, c_inv in *. destruct (index_of c r) as [n|] eqn:Ei.
  - destruct (index_of_some c r n Ei) as (l1 & g & l2 & -> & Hl & Hc & Hn1).
    destruct (reg_wf_absent _ _ _ Hwf) as [_ Hn2]. rewrite Hc in Hn2.
    destruct (reg_wf_group _ _ _ Hwf) as (_ & _ & Hne & _).
    destruct (reg_rebuild_form _ tm c l1 g l2 r' oevs Hn1 Hc Hne H) as [-> _].
    rewrite <- Hl, nth_error_mid.
    apply Forall_app in Hh. destruct Hh as [H1 H2]. inversion H2 as [|? ? Hg H3]; subst.
    assert (Hother : forall built gs, (forall p, In p built -> fst p = g_ctx g) -> ~ In (g_ctx g) (map g_ctx gs) ->
                       Forall (conv_group h) gs -> Forall (conv_group (rebuilt sc h built)) gs).
    { intros built gs Hb Hn HF. apply Forall_forall. intros g' Hg'. rewrite Forall_forall in HF.
      assert (Hd : forall p, In p built -> fst p <> g_ctx g').
      { intros p Hp E. apply Hn. rewrite <- (Hb p Hp), E. apply in_map. exact Hg'. }
      destruct (rebuilt_other sc built h (g_ctx g') Hd) as [R1 R2]. apply (conv_group_other h); [exact R1 | exact R2 | apply HF; exact Hg']. }
    destruct g as [c0 p insts|c0 p ents i]; cbn [g_ctx g_ents regroup] in *.
    + assert (Hb : forall q, In q (map (fun ei : entity * inst => (c0, fst ei)) insts) -> fst q = c0).
      { intros q Hq. apply in_map_iff in Hq. destruct Hq as (ei & <- & _). reflexivity. }
      apply Forall_app. split; [apply Hother; assumption|]. constructor; [|apply Hother; assumption].
      cbn [conv_group]. apply Forall_forall. intros ei Hei. apply in_map_iff in Hei. destruct Hei as ([e' i'] & <- & Hin). cbn [fst snd].
      apply mk_conv.
    + destruct ents as [|e0 ents]; [congruence|]. cbn [hd].
      assert (Hb : forall q, In q [(c0, e0)] -> fst q = c0) by (intros q [<-|[]]; reflexivity).
      apply Forall_app. split; [apply Hother; assumption|]. constructor; [|apply Hother; assumption].
      cbn [conv_group]. intros e1 _. apply mk_conv.
  - rewrite (reg_rebuild_absent _ tm c r Ei) in H. injection H as <- _.
    destruct (nth_error r 0) as [[? ? ?|? ? [|? ?] ?]|]; exact Hh.
Qed.

Lemma rebuild_one_AInv2 sc T h c a a' : rebuild_one sc (Some a) c = Some a' -> AInv2 sc T h a -> AInv2 sc T h a'.
Proof.
  unfold AInv2. intros H [HO HC]. split; [exact (rebuild_one_AInv sc T h c a a' H HO)|].
  destruct HO as (Hinv & _ & _). cbn [rebuild_one] in H. cbv zeta in H.
  fold (built_of c (w_reg (oo_world a))) in H.
  pose proof (proj1 (reg_inv_alt sc _) Hinv) as (Hwf & _ & _).
  destruct (reg_rebuild (mk_inst sc c) (w_time (oo_world a)) c (w_reg (oo_world a))) as [[r' [evs|]]|] eqn:Er; try discriminate.
  injection H as <-. cbn [oo_world oo_built w_reg]. rewrite rebuilt_app.
  exact (reg_rebuild_cinv sc _ c _ r' _ _ Hwf HC Er).
Qed.
Lemma rebuild_fold_AInv2 sc T h cs : forall a a', fold_left (rebuild_one sc) cs (Some a) = Some a' -> AInv2 sc T h a -> AInv2 sc T h a'.
Proof.
  induction cs as [|c cs IH]; intros a a' H Ha; cbn [fold_left] in H; [injection H as <-; exact Ha|].
  destruct (rebuild_one sc (Some a) c) as [a1|] eqn:E; [|rewrite rebuild_fold_none in H; discriminate].
  exact (IH a1 a' H (rebuild_one_AInv2 sc T h c a a1 E Ha)).
Qed.

Lemma apply_op_OInv2 sc T w h o r : OInv2 sc T w h -> incl (op_targets o) T -> apply_op sc w o = Some r ->
  OInv2 sc T (oo_world r) (rebuilt sc h (oo_built r)).
Proof.
  intros HO2 Hin H. pose proof HO2 as [HO HC].
  split; [exact (apply_op_OInv sc T w h o r HO Hin H)|].
  destruct o as [e cs|e c|e c|e|]; cbn [apply_op op_targets] in *.
  - destruct (holds_of e (w_holds w)) as [old|] eqn:He; injection H as <-; [exact HC|].
    refine (proj2 (spawn_fold_OInv2 sc T h e cs _ (mkOpOut (mkWorld (w_holds w ++ [(e, [])]) (w_reg w) (w_time w)) [] []) _)).
    + intros c Hc. apply Hin. apply in_map. exact Hc.
    + unfold AInv2. cbn [oo_world oo_built rebuilt fold_left]. split; [|exact HC].
      pose proof (apply_op_OInv sc T w h (OSpawn e []) (mkOpOut (mkWorld (w_holds w ++ [(e, [])]) (w_reg w) (w_time w)) [] []) HO) as G.
      cbn [apply_op op_targets map] in G. rewrite He in G. cbn [fold_left oo_world oo_built rebuilt] in G.
      apply G; [intros x [] | reflexivity].
  - injection H as <-. refine (proj2 (insert_ctx_OInv2 sc T w h e c HO2 _)). apply Hin; left; reflexivity.
  - destruct (remove_ctx_OInv2 sc T w h e c r HO2 H) as [H1 ->]. exact (proj2 H1).
  - destruct (holds_of e (w_holds w)) as [cs0|] eqn:He; [|injection H as <-; exact HC].
    change (match fold_left (despawn_f e) (filter (fun c => memz c cs0) (s_menu sc)) (Some (mkOpOut w [] [])) with
            | Some a => Some (mkOpOut (mkWorld (del_ent e (w_holds (oo_world a))) (w_reg (oo_world a)) (w_time w)) (oo_events a) [])
            | None => None end = Some r) in H.
    destruct (fold_left (despawn_f e) (filter (fun c => memz c cs0) (s_menu sc)) (Some (mkOpOut w [] []))) as [a|] eqn:Ef; [|discriminate].
    injection H as <-. cbn [oo_world oo_built rebuilt fold_left w_reg].
    exact (proj2 (despawn_fold_OInv2 sc T h e _ _ _ Ef HO2)).
  - change (fold_left (rebuild_one sc) (s_menu sc) (Some (mkOpOut w [] [])) = Some r) in H.
    exact (proj2 (rebuild_fold_AInv2 sc T h _ _ _ H HO2)).
Qed.

Lemma run_ops_OInv2 sc T ops : forall w h a, OInv2 sc T w h -> incl (flat_map op_targets ops) T -> run_ops sc w ops = Some a ->
  OInv2 sc T (oo_world a) (rebuilt sc h (oo_built a)).
Proof.
  induction ops as [|o ops IH]; intros w h a HO Hin H.
  - rewrite run_ops_nil in H. injection H as <-. exact HO.
  - rewrite run_ops_cons in H. destruct (apply_op sc w o) as [r|] eqn:Eo; [|discriminate].
    destruct (run_ops sc (oo_world r) ops) as [a2|] eqn:Er; [|discriminate]. cbn [option_map] in H. injection H as <-.
    unfold prefix_out. cbn [oo_world oo_built]. rewrite rebuilt_app. cbn [flat_map] in Hin.
    apply (IH (oo_world r)); [|intros x Hx; apply Hin; apply in_or_app; right; exact Hx | exact Er].
    apply (apply_op_OInv2 sc T w h o r HO); [intros x Hx; apply Hin; apply in_or_app; left; exact Hx | exact Eo].
Qed.

(* ---- 3.4 R1: the clauses of one frame ---- *)
Definition check8 (sc : scenario) (h1 : held_map) (lg : list Z) (ce : Z * Z) : list (Z * bool) :=
  let '(c, e) := ce in
  let owner := match find (fun x => Z.eqb (fst (fst x)) c) h1 with Some x => snd (fst x) | None => e end in
  let e' := if ctx_shared c then owner else e in
  let held := held_lookup h1 c e' in
  flat_map (fun ab => map (fun b =>
       if has_ids b then
         let still := existsb (input_eqb (ib_input b)) held in
         (if still then 1 else 2, Bool.eqb (bind_logged b lg) (negb still))
       else (2, true)) (ab_inputs ab)) (merged_actions (cfg_lookup sc c e')).

Lemma judge_steps8_frame sc h before f steps o outs :
  judge_steps8 sc h before (SFrame f :: steps) (o :: outs) =
  (8, negb (x_panicked o)) :: flat_map (check8 sc (hfilter sc (f_raw f) h) (log_ids (x_log o))) (evaluated sc before)
  ++ judge_steps8 sc (rebuilt sc (hfilter sc (f_raw f) h) (x_built o)) o steps outs.
Proof. reflexivity. Qed.
Lemma judge_steps8_op sc h before op steps o outs :
  judge_steps8 sc h before (SOp op :: steps) (o :: outs) =
  (8, negb (x_panicked o)) :: judge_steps8 sc (rebuilt sc h (x_built o)) o steps outs.
Proof. reflexivity. Qed.

(* ids are unique inside every configuration, and disjoint between configurations whose instances can be evaluated in
   the same frame: those of different context types, and those of different entities for an exclusive type *)
Definition uniq2 (sc : scenario) : Prop :=
  (forall c e, NoDup (cfg_ids sc c e)) /\
  (forall c1 e1 c2 e2 x, c1 <> c2 \/ (ctx_shared c1 = false /\ e1 <> e2) -> In x (cfg_ids sc c1 e1) -> ~ In x (cfg_ids sc c2 e2)).

Lemma check8_inst sc r h c e' i gs g :
  uniq2 sc -> NoDup (map g_ctx gs) -> Forall (group_rel sc h) gs -> In g gs -> g_ctx g = c ->
  incl (inst_ids r i) (group_ids r g) ->
  (forall x, In x (group_ids r g) -> In x (inst_ids r i) \/ exists e2, e2 <> e' /\ ctx_shared c = false /\ In x (cfg_ids sc c e2)) ->
  inst_sim (held_lookup h c e') i (cfg_lookup sc c e') -> conv_inst (held_lookup h c e') i ->
  all_true (flat_map (fun ab => map (fun b =>
       if has_ids b then
         let still := existsb (input_eqb (ib_input b)) (held_lookup (hfilter sc r h) c e') in
         (if still then 1 else 2, Bool.eqb (bind_logged b (flat_map (group_ids r) gs)) (negb still))
       else (2, true)) (ab_inputs ab)) (merged_actions (cfg_lookup sc c e'))).
Proof.
  intros [U1 U2] Hnd Hrel Hg Hc Hsub Hsup Hsim Hconv k bb Hin.
  apply in_flat_map in Hin. destruct Hin as (ab0 & Hab0 & Hin). apply in_map_iff in Hin. destruct Hin as (b0 & E & Hb0).
  unfold has_ids, bind_logged in E.
  change (ids_of' (ib_mods b0) ++ ids_of' (ib_conds b0)) with (input_all_ids b0) in E.
  destruct (input_all_ids b0) as [|id rest] eqn:Eid; [inversion E; reflexivity|]. cbv zeta in E.
  rewrite held_lookup_filter in E.
  set (s := cfg_lookup sc c e') in *. set (l := held_lookup h c e') in *.
  set (l' := filter (fun x => phys_active r (i_pad s) x) l) in *.
  pose proof (inst_sim_frame r l i s Hsim) as Hfr. fold l' in Hfr.
  destruct (abinds_logged _ _ _ _ Hfr (U1 c e') ab0 b0 id rest Hab0 Hb0 Eid) as (ab & b & Hab & Hb & (Hi & _ & _ & Hheld) & Hiff).
  assert (Hidcfg : In id (cfg_ids sc c e')).
  { unfold cfg_ids. fold s. unfold abinds_all_ids. apply in_flat_map. exists ab0. split; [exact Hab0|].
    unfold abind_all_ids. apply in_or_app. left. unfold inputs_all_ids. apply in_flat_map. exists b0. split; [exact Hb0|].
    rewrite Eid. left. reflexivity. }
  (* the id is logged iff the stored binding is live *)
  assert (Hlog : memz id (flat_map (group_ids r) gs) = negb (frame_sk r (in_pad i) b)).
  { destruct (frame_sk r (in_pad i) b) eqn:Esk; cbn [negb].
    - apply memz_false. intros Hx. apply in_flat_map in Hx. destruct Hx as (g' & Hg' & Hx).
      destruct (Z.eq_dec (g_ctx g') c) as [Ec|Ec].
      + assert (g' = g).
        { destruct (reg_split gs g Hnd Hg) as (l1 & l2 & -> & Hn1 & Hn2). apply in_app_or in Hg'. destruct Hg' as [Hg'|[Hg'|Hg']].
          - exfalso. apply Hn1. rewrite Hc, <- Ec. apply in_map. exact Hg'.
          - symmetry. exact Hg'.
          - exfalso. apply Hn2. rewrite Hc, <- Ec. apply in_map. exact Hg'. }
        subst g'. destruct (Hsup id Hx) as [Hx'|(e2 & Hne & Hex & Hx')].
        * apply Hiff in Hx'. congruence.
        * apply (U2 c e' c e2 id); [right; split; [exact Hex | congruence] | exact Hidcfg | exact Hx'].
      + assert (Hr' : group_rel sc h g') by (rewrite Forall_forall in Hrel; auto).
        destruct (group_ids_sub sc r h g' id Hr' Hx) as (e2 & He2).
        apply (U2 c e' (g_ctx g') e2 id); [left; congruence | exact Hidcfg | exact He2].
    - apply memz_in. apply in_flat_map. exists g. split; [exact Hg|]. apply Hsub. apply Hiff. reflexivity. }
  (* the input is still held iff the stored binding is skipped *)
  assert (Hstill : existsb (input_eqb (ib_input b0)) l' = frame_sk r (in_pad i) b).
  { destruct (frame_sk r (in_pad i) b) eqn:Esk.
    - apply held_iff. rewrite <- Hi. apply Hheld. reflexivity.
    - destruct (existsb (input_eqb (ib_input b0)) l') eqn:Ex; [|reflexivity]. apply held_iff in Ex. rewrite <- Hi in Ex.
      unfold l' in Ex. apply filter_In in Ex. destruct Ex as [Ex1 Ex2].
      unfold conv_inst in Hconv. rewrite Forall_forall in Hconv. specialize (Hconv ab Hab). rewrite Forall_forall in Hconv.
      specialize (Hconv b Hb Ex1). unfold frame_sk in Esk. rewrite Hconv in Esk. cbn [andb] in Esk.
      destruct Hsim as [Hp _]. rewrite phys_active_phys, <- Hp in Ex2. congruence. }
  rewrite Hlog, Hstill in E. inversion E. destruct (frame_sk r (in_pad i) b); reflexivity.
Qed.

Lemma check8_sound sc r h gs c e :
  uniq2 sc -> NoDup (map g_ctx gs) -> Forall group_ok gs -> Forall (group_rel sc h) gs -> Forall (conv_group h) gs ->
  reg_get c e gs <> None -> all_true (check8 sc (hfilter sc r h) (flat_map (group_ids r) gs) (c, e)).
Proof.
  intros U Hnd Hok Hrel Hconv Hget. apply (reg_get_iff gs Hnd) in Hget. destruct Hget as (g & Hg & Hc & He).
  rewrite Forall_forall in Hok, Hconv. destruct (Hok g Hg) as (_ & Hsh & _ & Hnde & _). specialize (Hconv g Hg).
  assert (Hrg : group_rel sc h g) by (rewrite Forall_forall in Hrel; auto).
  unfold check8. rewrite owner_or, h_owner_filter.
  destruct g as [c0 p insts|c0 p ents i]; cbn [group_rel conv_group g_ctx g_shared g_ents] in *; subst c0; rewrite <- Hsh.
  - apply in_map_iff in He. destruct He as ([e1 i] & E1 & Hin). cbn [fst] in E1. subst e1.
    rewrite Forall_forall in Hrg, Hconv. pose proof (Hrg _ Hin) as Hs. pose proof (Hconv _ Hin) as Hcv. cbn [fst snd] in Hs, Hcv.
    apply (check8_inst sc r h c e i gs (GExcl c p insts)); try assumption; [reflexivity | |].
    + cbn [group_ids]. intros x Hx. apply in_flat_map. exists (e, i). split; [exact Hin | exact Hx].
    + cbn [group_ids]. intros x Hx. apply in_flat_map in Hx. destruct Hx as ([e2 i2] & Hin2 & Hx). cbn [snd] in Hx.
      destruct (Z.eq_dec e2 e) as [->|Hne].
      * left. assert (E : (e, i2) = (e, i)) by (apply (NoDup_map_inj fst insts); [exact Hnde | exact Hin2 | exact Hin | reflexivity]).
        inversion E. subst i2. exact Hx.
      * right. exists e2. split; [exact Hne|]. split; [symmetry; exact Hsh|].
        pose proof (Hrg _ Hin2) as Hs2. cbn [fst snd] in Hs2. exact (inst_ids_sub r _ _ _ Hs2 x Hx).
  - destruct Hrg as (e0 & Ho & Hs). rewrite Ho.
    apply (check8_inst sc r h c e0 i gs (GShared c p ents i)); try assumption; [reflexivity | apply incl_refl | | exact (Hconv e0 Ho)].
    intros x Hx. left. exact Hx.
Qed.

(* what the judgement evaluates are instances of the registry *)
Definition evaluated_in (sc : scenario) (w : world) (before : out) : Prop :=
  forall c e, In (c, e) (evaluated sc before) -> reg_get c e (w_reg w) <> None.

Lemma holders_got sc w o c e : x_mirror o = model_mirror sc w -> In e (holders c o) -> reg_get c e (w_reg w) <> None.
Proof.
  intros Hx Hin. unfold holders in Hin. rewrite Hx in Hin. apply in_flat_map in Hin. destruct Hin as ([c' e' g hs] & Hm & Hin).
  destruct (Z.eqb c c' && g) eqn:E; [|destruct Hin]. destruct Hin as [<-|[]].
  apply andb_true_iff in E. destruct E as [E1 E2]. apply Z.eqb_eq in E1. subst c' g.
  unfold model_mirror in Hm. apply in_flat_map in Hm. destruct Hm as (c1 & _ & Hm). apply in_map_iff in Hm. destruct Hm as (e1 & E & _).
  inversion E as [[Ec Ee Eg Eh]]. subst c1 e1. destruct (reg_get c e' (w_reg w)); [discriminate | discriminate].
Qed.
Lemma evaluated_model sc w o : x_mirror o = model_mirror sc w -> evaluated_in sc w o.
Proof.
  intros Hx c e Hin. unfold evaluated in Hin. apply in_flat_map in Hin. destruct Hin as (c1 & _ & Hin).
  destruct (holders c1 o) as [|e1 rest] eqn:Eh; [destruct Hin|].
  destruct (ctx_shared c1).
  - destruct Hin as [E|[]]. inversion E. subst c1 e1. apply (holders_got sc w o c e Hx). rewrite Eh. left. reflexivity.
  - apply in_map_iff in Hin. destruct Hin as (x & E & Hin). inversion E. subst c1 x. apply (holders_got sc w o c e Hx). rewrite Eh. exact Hin.
Qed.

Theorem frame_clause8 sc T w h before tm r c0 :
  uniq2 sc -> OInv2 sc T w h -> evaluated_in sc w before ->
  all_true (flat_map (check8 sc (hfilter sc r h) (log_ids (ro_log (reg_update tm r c0 (w_reg w))))) (evaluated sc before)).
Proof.
  intros U ((Hinv & Hh & HT) & HC) HM. rewrite reg_update_log_ids.
  pose proof Hinv as (_ & Hd & Hok & _).
  intros k b Hin. apply in_flat_map in Hin. destruct Hin as ([c e] & Hce & Hin).
  exact (check8_sound sc r h (w_reg w) c e U Hd Hok Hh HC (HM c e Hce) k b Hin).
Qed.

(* ---- 3.5 R3 for ok8: induction over the steps ---- *)
Theorem steps_sound8 sc T : uniq2 sc -> forall steps w h before,
  incl (flat_map step_targets steps) T -> OInv2 sc T w h -> evaluated_in sc w before ->
  all_true (judge_steps8 sc h before steps (run_steps sc w steps)).
Proof.
  intros U. induction steps as [|st steps IH]; intros w h before Hin HO HM; [intros k b []|].
  cbn [flat_map] in Hin.
  assert (Hin1 : incl (step_targets st) T) by (intros x Hx; apply Hin; apply in_or_app; left; exact Hx).
  assert (Hin2 : incl (flat_map step_targets steps) T) by (intros x Hx; apply Hin; apply in_or_app; right; exact Hx).
  pose proof HO as ((Hinv & Hh & HT) & HC).
  destruct st as [o|f]; cbn [run_steps].
  - destruct (apply_op_inv sc w o Hinv) as (r & Er & _). rewrite Er. rewrite judge_steps8_op. cbn [x_panicked x_built negb].
    apply all_true_cons.
    apply IH; [exact Hin2 | exact (apply_op_OInv2 sc T w h o r HO Hin1 Er) | apply evaluated_model; reflexivity].
  - destruct (frame_inv sc w f Hinv) as (fo & Ef & _). rewrite Ef. rewrite judge_steps8_frame. cbn [x_panicked x_built x_log negb].
    destruct (frame_parts sc w f fo Ef) as (a & Ea & Ew & El & Eb). cbv zeta in *.
    apply all_true_cons. apply all_true_app.
    + rewrite El. exact (frame_clause8 sc T w h before _ _ _ U HO HM).
    + rewrite Eb, Ew. apply IH; [exact Hin2 | | apply evaluated_model; reflexivity].
      refine (run_ops_OInv2 sc T (f_ops f) _ _ a _ Hin1 Ea). split.
      * split; [apply reg_update_inv; exact Hinv|]. split; [cbn [w_reg]; apply h_inv_update; exact Hh | exact HT].
      * cbn [w_reg]. apply c_inv_update; assumption.
Qed.

(* the profile of ok8: a computable condition on the configuration alone *)
Definition p_ids_disj2 (sc : scenario) : bool :=
  forallb (fun x => forallb (fun y =>
     (Z.eqb (fst (fst x)) (fst (fst y)) && (ctx_shared (fst (fst x)) || Z.eqb (snd (fst x)) (snd (fst y)))) ||
     disjz (spec_ids (snd x)) (spec_ids (snd y))) (s_cfg sc)) (s_cfg sc).
Definition profile_C08b (sc : scenario) : bool := p_ids_nodup sc && p_ids_disj2 sc.
Definition profile_C08 (sc : scenario) : Prop := profile_C08b sc = true.

Lemma cfg_lookup_cases2 sc c e :
  (exists x, In x (s_cfg sc) /\ fst (fst x) = c /\ snd (fst x) = e /\ cfg_lookup sc c e = snd x) \/ cfg_ids sc c e = [].
Proof.
  unfold cfg_ids, cfg_lookup.
  destruct (find (fun x : Z * Z * inst_spec => Z.eqb (fst (fst x)) c && Z.eqb (snd (fst x)) e) (s_cfg sc)) as [x|] eqn:E;
    [left | right; reflexivity].
  apply find_some in E. destruct E as [E1 E2]. apply andb_true_iff in E2. destruct E2 as [E2 E3]. apply Z.eqb_eq in E2, E3.
  exists x. repeat split; assumption.
Qed.
Lemma profile_uniq2 sc : profile_C08 sc -> uniq2 sc.
Proof.
  unfold profile_C08, profile_C08b, p_ids_nodup, p_ids_disj2. intros H. apply andb_true_iff in H. destruct H as [H5 H6].
  rewrite forallb_forall in H5, H6. split.
  - intros c e. destruct (cfg_lookup_cases2 sc c e) as [(x & Hx & _ & _ & E)|E]; [|rewrite E; constructor].
    unfold cfg_ids. rewrite E. apply nodupz_spec. exact (H5 x Hx).
  - intros c1 e1 c2 e2 y Hne Hy1 Hy2.
    destruct (cfg_lookup_cases2 sc c1 e1) as [(x1 & Hx1 & Hc1 & He1 & E1)|E1]; [|rewrite E1 in Hy1; destruct Hy1].
    destruct (cfg_lookup_cases2 sc c2 e2) as [(x2 & Hx2 & Hc2 & He2 & E2)|E2]; [|rewrite E2 in Hy2; destruct Hy2].
    unfold cfg_ids in Hy1, Hy2. rewrite E1 in Hy1. rewrite E2 in Hy2.
    specialize (H6 _ Hx1). rewrite forallb_forall in H6. specialize (H6 _ Hx2). cbv beta in H6.
    apply orb_true_iff in H6. destruct H6 as [H6|H6]; [|exact (disjz_spec _ _ y H6 Hy1 Hy2)].
    apply andb_true_iff in H6. destruct H6 as [H6 H7]. apply Z.eqb_eq in H6.
    assert (Ec : c1 = c2) by (rewrite <- Hc1, <- Hc2; exact H6).
    destruct Hne as [Hne|[Hsh Hne]]; [contradiction|].
    assert (H7' : ctx_shared c1 || Z.eqb e1 e2 = true) by (rewrite <- Hc1, <- He1, <- He2; exact H7).
    rewrite Hsh in H7'. cbn [orb] in H7'. apply Z.eqb_eq in H7'. contradiction.
Qed.

Lemma OInv2_init sc : OInv2 sc (targets sc) world_init [].
Proof. split; [|constructor]. split; [apply reg_inv_init|]. split; [constructor | intros c e (cs & H & _); discriminate]. Qed.

Theorem C08_ok8_sound : forall sc, profile_C08 sc -> C08c.ok8 (sc, trace (run sc)) = 0%Z.
Proof.
  intros sc Hp. unfold C08c.ok8, run. apply all_true_first_fail.
  apply (steps_sound8 sc (targets sc) (profile_uniq2 sc Hp)); [apply incl_refl | apply OInv2_init |].
  intros c e Hin. unfold evaluated in Hin. apply in_flat_map in Hin. destruct Hin as (c1 & _ & Hin). destruct Hin.
Qed.

(* ---- 3.6 (T) for ok8 ---- *)
Lemma check8_view sc h1 h1' lg ce : same_view h1 h1' -> check8 sc h1 lg ce = check8 sc h1' lg ce.
Proof.
  intros [V1 V2]. destruct ce as [c e]. unfold check8. rewrite !owner_or.
  destruct (ctx_shared c) eqn:Es; [rewrite (V2 c Es)|]; rewrite V1; reflexivity.
Qed.
Lemma judge_steps8_cong sc : forall steps h h' before before' outs outs',
  same_view h h' -> x_mirror before = x_mirror before' -> Forall2 out_rel outs outs' ->
  Forall (fun o => fun_built (x_built o)) outs ->
  judge_steps8 sc h before steps outs = judge_steps8 sc h' before' steps outs'.
Proof.
  induction steps as [|st steps IH]; intros h h' before before' outs outs' V M HA HFb.
  - inversion HA; subst; reflexivity.
  - inversion HA as [|o o' outs1 outs1' (A1 & _ & A2 & A3 & A4) HA']; subst; [destruct st; reflexivity|].
    inversion HFb as [|? ? Hfo HFb']; subst.
    destruct st as [op|f].
    + rewrite !judge_steps8_op, A3. f_equal. apply IH; [apply rebuilt_view; assumption | exact A2 | exact HA' | exact HFb'].
    + rewrite !judge_steps8_frame, A3, (list_eqb_log_ids _ _ A1), (evaluated_mirror sc before before' M).
      pose proof (hfilter_view sc (f_raw f) h h' V) as V'.
      f_equal. f_equal.
      * apply FrameLiftP.flat_map_ext_in. intros ce _. apply check8_view. exact V'.
      * apply IH; [apply rebuilt_view; assumption | exact A2 | exact HA' | exact HFb'].
Qed.

(* the model never builds a shared type for two entities in one step: one operation per frame, context types registered once *)
Definition transfer_side (sc : scenario) : bool := one_op_frames sc && nodupz (s_menu sc).

Lemma run_built_fun' sc T : NoDup (s_menu sc) -> forall steps w h,
  forallb (fun st => match st with SFrame f => Nat.leb (length (f_ops f)) 1 | SOp _ => true end) steps = true ->
  incl (flat_map step_targets steps) T -> OInv sc T w h ->
  Forall (fun o => fun_built (x_built o)) (run_steps sc w steps).
Proof.
  intros Hmenu. induction steps as [|st steps IH]; intros w h H1 Hin HO; [constructor|].
  cbn [forallb] in H1. apply andb_true_iff in H1. destruct H1 as [H1 H1']. cbn [flat_map] in Hin.
  assert (Hin1 : incl (step_targets st) T) by (intros x Hx; apply Hin; apply in_or_app; left; exact Hx).
  assert (Hin2 : incl (flat_map step_targets steps) T) by (intros x Hx; apply Hin; apply in_or_app; right; exact Hx).
  pose proof HO as (Hinv & Hh & HT).
  destruct st as [o|f]; cbn [run_steps].
  - destruct (apply_op_inv sc w o Hinv) as (r & Er & _). rewrite Er. constructor.
    + cbn [x_built]. exact (apply_op_built_fun sc T w h o r Hmenu HO Er).
    + exact (IH _ _ H1' Hin2 (apply_op_OInv sc T w h o r HO Hin1 Er)).
  - destruct (frame_inv sc w f Hinv) as (fo & Ef & _). rewrite Ef.
    destruct (frame_parts sc w f fo Ef) as (a & Ea & Ew & El & Eb). cbv zeta in *.
    assert (HO1 : OInv sc T (mkWorld (w_holds w) (ro_reg (reg_update (frame_time f) (f_raw f) (update_state (f_raw f)) (w_reg w))) (frame_time f))
                       (hfilter sc (f_raw f) h)).
    { split; [apply reg_update_inv; exact Hinv|]. split; [cbn [w_reg]; apply h_inv_update; exact Hh | exact HT]. }
    constructor.
    + cbn [x_built]. rewrite Eb. destruct (f_ops f) as [|o [|o2 ops]]; [| |discriminate].
      * rewrite run_ops_nil in Ea. injection Ea as <-. apply fun_built_nil.
      * rewrite run_ops_cons in Ea. destruct (apply_op sc _ o) as [r|] eqn:Eo; [|discriminate].
        rewrite run_ops_nil in Ea. cbn [option_map] in Ea. injection Ea as <-. unfold prefix_out. cbn [oo_built]. rewrite app_nil_r.
        exact (apply_op_built_fun sc T _ _ o r Hmenu HO1 Eo).
    + rewrite Ew. exact (IH _ _ H1' Hin2 (run_ops_OInv sc T (f_ops f) _ _ a HO1 Hin1 Ea)).
Qed.

Theorem C08_ok8_transfer : forall sc t, profile_C08 sc -> transfer_side sc = true ->
  agree_full (sc, t) = true -> C08c.ok8 (sc, t) = 0%Z.
Proof.
  intros sc t Hp H1 Ha. destruct t as [outs|]; [|discriminate]. apply agree_rel in Ha.
  apply andb_true_iff in H1. destruct H1 as [H1 Hm]. apply nodupz_spec in Hm.
  pose proof (run_built_fun' sc (targets sc) Hm (s_steps sc) world_init [] H1 (incl_refl _) (proj1 (OInv2_init sc))) as Hfb.
  unfold C08c.ok8. fold (run sc) in Hfb.
  rewrite <- (judge_steps8_cong sc (s_steps sc) [] [] _ _ (run sc) outs (same_view_refl []) eq_refl Ha Hfb).
  exact (C08_ok8_sound sc Hp).
Qed.

(* ================================================================================================ *)
(* 4. ok_ext (Check/C15c.v) on non-consuming profiles                                               *)
(* ================================================================================================ *)
(* the class of scenarios C15.py / C16.py generate, consuming families excepted: no action consumes its inputs; the log
   ids of the modifiers are pairwise distinct over the whole configuration; the log ids (modifiers and conditions) are
   distinct inside a configuration and disjoint between the configurations of different context types and of different
   entities of an exclusive type *)
Definition profile_C15b (sc : scenario) : bool := profile_Readb sc && profile_C08b sc.
Definition profile_C15 (sc : scenario) : Prop := profile_C15b sc = true.

Lemma nonconsuming_profile sc : J7.nonconsumingb sc = true -> consuming_profile sc = false.
Proof.
  unfold J7.nonconsumingb, consuming_profile. intros H. rewrite forallb_forall in H.
  apply J7.existsb_false. intros x Hx. specialize (H x Hx). rewrite forallb_forall in H.
  apply J7.existsb_false. intros a Ha. apply negb_true_iff. exact (H a Ha).
Qed.

Lemma ok_ext_parts sc outs : consuming_profile sc = false -> Readc.ok (sc, trace outs) = 0 -> C08c.ok8 (sc, trace outs) = 0 ->
  ok_ext (sc, trace outs) = 0.
Proof. intros Hc H1 H2. unfold ok_ext. rewrite Hc, H1, H2. reflexivity. Qed.

Theorem C15_app_judgement_sound : forall sc, profile_C15 sc -> ok_ext (sc, trace (run sc)) = 0%Z.
Proof.
  intros sc Hp. apply andb_true_iff in Hp. destruct Hp as [Hr H12].
  pose proof Hr as Hr'. apply andb_true_iff in Hr'. destruct Hr' as [Hnc _].
  apply ok_ext_parts; [apply nonconsuming_profile; exact Hnc | apply Read_judgement_sound; exact Hr | apply C08_ok8_sound; exact H12].
Qed.

Theorem C15_app_judgement_transfer : forall sc t, profile_C15 sc -> transfer_side sc = true ->
  agree_full (sc, t) = true -> ok_ext (sc, t) = 0%Z.
Proof.
  intros sc t Hp H1 Ha. destruct t as [outs|]; [|discriminate Ha].
  apply andb_true_iff in Hp. destruct Hp as [Hr H12].
  pose proof Hr as Hr'. apply andb_true_iff in Hr'. destruct Hr' as [Hnc _].
  apply ok_ext_parts; [apply nonconsuming_profile; exact Hnc | apply Read_judgement_transfer; assumption | apply C08_ok8_transfer; assumption].
Qed.

(* consuming profiles: ok_ext hands the reads to the consumption-aware judgement C05c.ok5 (clause 11); with that judgement's
   verdict on the run as a premise, the rest of ok_ext (clauses 8, 9, 12) is sound on the same profile of ids *)
Theorem C15_app_judgement_sound_consuming : forall sc, profile_C08 sc -> consuming_profile sc = true ->
  C05c.ok5 (sc, trace (run sc)) = 0 -> ok_ext (sc, trace (run sc)) = 0%Z.
Proof. intros sc Hp Hc H5. unfold ok_ext. rewrite Hc, H5, (C08_ok8_sound sc Hp). reflexivity. Qed.
Theorem C15_app_judgement_transfer_consuming : forall sc t, profile_C08 sc -> transfer_side sc = true -> consuming_profile sc = true ->
  agree_full (sc, t) = true -> C05c.ok5 (sc, t) = 0 -> ok_ext (sc, t) = 0%Z.
Proof.
  intros sc t Hp H1 Hc Ha H5. destruct t as [outs|]; [|discriminate Ha].
  unfold ok_ext. rewrite Hc, H5, (C08_ok8_transfer sc _ Hp H1 Ha). reflexivity.
Qed.

(* on a consuming profile nothing but clause 11 (the verdict of C05c.ok5) can fail on the model's run *)
Theorem C15_app_judgement_sound_upto11 : forall sc, profile_C08 sc -> consuming_profile sc = true ->
  ok_ext (sc, trace (run sc)) = 0%Z \/ ok_ext (sc, trace (run sc)) = 11%Z.
Proof.
  intros sc Hp Hc. unfold ok_ext. rewrite Hc, (C08_ok8_sound sc Hp).
  destruct (Z.eqb (C05c.ok5 (sc, trace (run sc))) 0); cbn; [left | right]; reflexivity.
Qed.

(* ================================================================================================ *)
(* 4b. a rung for the consumption-aware judgement (C05c.ok5, clause 11 of ok_ext): one action         *)
(* ================================================================================================ *)
(* the consuming families of C15.py / C16.py bind every action once, to one input with one (probe) modifier and no
   conditions.  For such an action: what action_update logs, the state it stores and what it consumes; and R1 at the
   level of one action - C05c.judge_action accepts it and the judgement's hidden list tracks the model's consumed set *)
Lemma as_bool_convert_true d v : as_bool (convert d v) = true -> as_bool v = true.
Proof.
  destruct d, v; cbn [convert as_bool as1 as2 as3]; intros H; rewrite ?qnz_b2q, ?qnz_0, ?orb_false_r in H; try exact H; try discriminate;
    try (rewrite H; rewrite ?orb_true_r; reflexivity).
  all: try (apply orb_true_iff in H; destruct H as [H|H]; rewrite ?H, ?orb_true_r; try reflexivity).
Qed.

Definition simple_ab (a : aid) (id : Z) (i : input) (x : modif) (ig : bool) : abind :=
  mkAbind a [] [] [mkIbind i [(id, x)] [] ig].

Lemma vdim_vzero d : vdim (vzero d) = d.
Proof. destruct d; reflexivity. Qed.

Lemma ts_new v : tracker_state (tracker_new v) = if as_bool v then SFired else SNone.
Proof. reflexivity. Qed.

Lemma simple_action_update m tm r c dev recips a id i x ig :
  let o := action_update m tm r c dev recips (simple_ab a id i x ig) in
  let v := reader_value r c dev i in
  let sk := ig && as_bool (reader_value r consumed_reset dev i) in
  let v' := snd (modif_apply (look_of m) tm v x) in
  let live := negb sk && as_bool (convert (aid_dim a) v') in
  o_log o = (if sk then [] else [LMod id v v' (seen_of m)]) /\
  (match lookup a (o_actions o) with Some d => d_state d | None => SNone end) = (if live then SFired else SNone) /\
  o_consumed o = (if aid_consume a && live then consume c dev i else c).
Proof.
  cbv zeta. unfold action_update, simple_ab. cbn [ab_id ab_inputs ab_mods ab_conds input_loop]. unfold input_step. cbn [ib_ignored ib_input ib_mods ib_conds].
  destruct (ig && as_bool (reader_value r consumed_reset dev i)) eqn:Esk; cbn [negb andb].
  - cbn [apply_mods apply_conds l_tracker l_buffer l_log t_value tracker_new o_log o_actions o_consumed app fold_left].
    rewrite lookup_store_same.
    destruct (data_update_fields (vdelta tm) (match lookup a m with Some d => d | None => data_new (aid_dim a) end)
                (tracker_state (with_value (tracker_new (vzero (aid_dim a))) (vzero (aid_dim a))))
                (convert (aid_dim a) (t_value (with_value (tracker_new (vzero (aid_dim a))) (vzero (aid_dim a)))))) as (Hs & _).
    rewrite Hs. unfold tracker_state. cbn [with_value tracker_new blocked found_explicit found_implicit negb andb t_value].
    rewrite as_bool_zero. rewrite !andb_false_r. repeat split.
  - cbn [apply_mods]. destruct (modif_apply (look_of m) tm (reader_value r c dev i) x) as [x' v'] eqn:Em. cbn [snd apply_conds].
    cbn [l_tracker l_buffer l_log]. rewrite !ts_new, as_bool_zero.
    destruct (as_bool v') eqn:Ev; cbn [state_eqb state_rank Nat.eqb state_cmp Nat.compare].
    + cbn [l_tracker l_buffer l_log t_value o_log o_actions o_consumed app apply_mods apply_conds].
      rewrite lookup_store_same.
      set (tr := with_value (tr_overwrite (tracker_new (vzero (aid_dim a))) (tracker_new v')) (t_value (tr_overwrite (tracker_new (vzero (aid_dim a))) (tracker_new v')))).
      destruct (data_update_fields (vdelta tm) (match lookup a m with Some d => d | None => data_new (aid_dim a) end)
                  (tracker_state tr) (convert (aid_dim a) (t_value tr))) as (Hs & _).
      rewrite Hs.
      assert (Et : tracker_state tr = if as_bool (convert (aid_dim a) v') then SFired else SNone).
      { unfold tr, tracker_state, tr_overwrite. cbn [with_value tracker_new blocked found_explicit found_implicit negb andb t_value]. rewrite vdim_vzero. reflexivity. }
      rewrite Et. split; [reflexivity|]. split; [reflexivity|].
      destruct (as_bool (convert (aid_dim a) v')); cbn [state_eqb state_rank Nat.eqb negb]; rewrite ?andb_true_r, ?andb_false_r; [|reflexivity].
      destruct (aid_consume a); reflexivity.
    + cbn [l_tracker l_buffer l_log t_value o_log o_actions o_consumed app apply_mods apply_conds].
      rewrite lookup_store_same.
      destruct (data_update_fields (vdelta tm) (match lookup a m with Some d => d | None => data_new (aid_dim a) end)
                  (tracker_state (with_value (tracker_new (vzero (aid_dim a))) (t_value (tracker_new (vzero (aid_dim a))))))
                  (convert (aid_dim a) (t_value (with_value (tracker_new (vzero (aid_dim a))) (t_value (tracker_new (vzero (aid_dim a)))))))) as (Hs & _).
      rewrite Hs. unfold tracker_state. cbn [with_value tracker_new blocked found_explicit found_implicit negb andb t_value].
      rewrite as_bool_zero.
      assert (En : as_bool (convert (aid_dim a) v') = false).
      { destruct (as_bool (convert (aid_dim a) v')) eqn:E; [|reflexivity]. apply as_bool_convert_true in E. congruence. }
      rewrite En, !andb_false_r. repeat split.
Qed.

Lemma rows_of_simple a id i x0 ig lg :
  rows_of (simple_ab a id i x0 ig) lg =
  match find_mod id lg with Some (vin, vout, _) => [mkRow i vin vout [] (law [] vout) true] | None => [] end.
Proof.
  unfold rows_of, simple_ab. cbn [ab_inputs flat_map ib_mods ib_conds ib_input first_mod_in last_mod_out rev app results_of forallb].
  destruct (find_mod id lg) as [[[vin vout] sn]|]; reflexivity.
Qed.

Lemma law_nil v : law [] v = if as_bool v then SFired else SNone.
Proof. reflexivity. Qed.

(* R1a for ok5: through one action with a single probed binding the judgement's hidden list tracks the model's consumed set *)
Theorem judge_action_simple f c e dev a id i x0 x ig o h m tm recips :
  let r := f_raw f in
  let ou := action_update m tm r (consume_list h (update_state r)) dev recips (simple_ab a id i x ig) in
  find_mod id (x_log o) = match o_log ou with LMod _ vin vout seen :: _ => Some (vin, vout, seen) | _ => None end ->
  (exists s, snap_of_entry c e a (x_snaps o) = Some s /\
             sn_state s = match lookup a (o_actions ou) with Some d => d_state d | None => SNone end) ->
  exists chk h', C05c.judge_action f c e dev (simple_ab a id i x0 true) o h = (chk, Some h') /\ all_true chk /\
                 o_consumed ou = consume_list h' (update_state r).
Proof.
  cbv zeta. intros Hfind (s & Hsnap & Hstate).
  destruct (simple_action_update m tm (f_raw f) (consume_list h (update_state (f_raw f))) dev recips a id i x ig) as (Hlog & Hst & Hcons).
  cbv zeta in Hlog, Hst, Hcons. rewrite Hlog in Hfind. rewrite Hst in Hstate. rewrite Hcons. clear Hlog Hst Hcons.
  unfold C05c.judge_action. rewrite rows_of_simple, Hfind. change (ab_id (simple_ab a id i x0 true)) with a. rewrite Hsnap, Hstate.
  set (v := reader_value (f_raw f) (consume_list h (update_state (f_raw f))) dev i) in *.
  destruct (ig && as_bool (reader_value (f_raw f) consumed_reset dev i)); cbn [negb andb].
  - (* still suppressed: no row, nothing consumed *)
    rewrite andb_false_r. cbn [state_eqb state_rank Nat.eqb negb andb map]. unfold regular. cbn [filter prefixes_ok].
    exists [], h. rewrite andb_false_r. repeat split. intros k b [].
  - set (v' := snd (modif_apply (look_of m) tm v x)) in *.
    cbn [map rw_input rw_read]. unfold regular. cbn [filter rw_own]. rewrite law_nil.
    assert (Hchk : all_true [if is_hidden h dev i then (1, veqb v (zero_of i)) else (2, veqb v (spec_read (f_raw f) (ui_any (f_raw f)) dev i))]).
    { intros k b [E|[]]. unfold v in E. rewrite read_in_frame in E. change (hidden h dev i) with (is_hidden h dev i) in E.
      destruct (is_hidden h dev i); inversion E; apply J7.veqb_refl. }
    destruct (as_bool (convert (aid_dim a) v')) eqn:Ec.
    + pose proof (as_bool_convert_true _ _ Ec) as Ev. rewrite Ev. cbn [state_eqb state_rank Nat.eqb negb prefixes_ok andb app].
      eexists. eexists. split; [reflexivity|]. split; [exact Hchk|].
      destruct (aid_consume a); cbn [andb]; [|reflexivity].
      unfold contributing, max_state. cbn [fold_left rw_own state_max state_rank Nat.leb state_eqb Nat.eqb filter map rw_input].
      rewrite consume_list_app. reflexivity.
    + rewrite !andb_false_r. cbn [state_eqb state_rank Nat.eqb negb andb].
      destruct (as_bool v'); cbn [state_eqb state_rank Nat.eqb negb prefixes_ok andb app]; eexists; eexists; (split; [reflexivity|]); (split; [exact Hchk | reflexivity]).
Qed.

(* ================================================================================================ *)
(* 5. the profile is satisfiable on a non-trivial scenario; every conjunct of it is needed           *)
(* ================================================================================================ *)
Definition ex_pr : modif := m_script [].
Definition ex_fr (r : raw) (ops : list op) : step := SFrame (mkFrame (1#64) 1 false 0 r ops).
Definition ex_z2 : Q * Q := (0%Q, 0%Q).
Definition ex_mo : Q * Q := (1%Q, (-1#2)%Q).
(* the families of C15.py / C16.py in one scenario: Ctrl+key / key / Ctrl+Shift+key / Shift+motion on an exclusive type created in
   mid-run while the key is down (and rebuilt later), a context tied to gamepad 0 with a second gamepad appearing, a shared type
   with mouse button and wheel, UI elements hovered / pressed / gone *)
Definition ex_sc15 : scenario := mkScenario [0; 2; 3] [0]
  [((0, 0), mkSpec None [mkAction 0 [] [] [mkBind (IKey 1 2) [(1, ex_pr)] []; mkBind (IKey 1 0) [(2, ex_pr)] [];
                                          mkBind (IKey 1 6) [(3, ex_pr)] []; mkBind (IMotion 4) [(4, ex_pr)] []]]);
   ((2, 0), mkSpec (Some 0) [mkAction 4 [] [] [mkBind (IPadButton 0) [(5, ex_pr)] []; mkBind (IPadAxis 0) [(6, ex_pr)] []]]);
   ((3, 0), mkSpec None [mkAction 8 [] [] [mkBind (IMouseButton 0 0) [(7, ex_pr)] []; mkBind (IWheel 0) [(8, ex_pr)] []]])]
  [SOp (OSpawn 0 [2; 3]); ex_fr (mkRaw [] [] ex_z2 ex_z2 [mkPad 0 [] []] []) [];
   ex_fr (mkRaw [1] [0] ex_mo ex_z2 [mkPad 0 [0] [(0, 1#2)]] []) [];
   SOp (OInsert 0 0);
   ex_fr (mkRaw [1] [0] ex_mo ex_z2 [mkPad 0 [0] [(0, 1#2)]] [1]) [];
   ex_fr (mkRaw [1; 102] [0] ex_mo (0%Q, 1%Q) [mkPad 0 [] [(0, 1#2)]; mkPad 1 [0] []] [0]) [];
   ex_fr (mkRaw [1; 102; 104] [] ex_mo (0%Q, 1%Q) [mkPad 1 [0] []] [2; 0]) [];
   SOp ORebuild;
   ex_fr (mkRaw [1; 102; 104] [0] ex_mo ex_z2 [mkPad 0 [0] []] []) [];
   ex_fr (mkRaw [] [] ex_mo ex_z2 [mkPad 0 [0] []] []) [];
   ex_fr (mkRaw [1; 102] [0] ex_z2 ex_z2 [mkPad 0 [] []] []) []].

Example C15_app_judgement_sound_satisfiable :
  profile_C15 ex_sc15 /\ ok_ext (ex_sc15, trace (run ex_sc15)) = 0 /\ Readc.ok (ex_sc15, trace (run ex_sc15)) = 0 /\
  (* which bindings are driven differs from frame to frame *)
  map (fun o => log_ids (x_log o)) (run ex_sc15) =
    [[]; [7; 8; 5; 6]; [7; 8; 5; 6]; []; [1; 3; 4; 7; 8; 5; 6]; [1; 3; 4; 7; 8; 5; 6]; [1; 3; 4; 7; 8; 5; 6]; []; [8; 6];
     [1; 2; 3; 4; 7; 8; 6]; [1; 2; 3; 4; 7; 8; 5; 6]] /\
  (* some action reaches Fired *)
  existsb (fun o => existsb (fun ev => state_eqb (e_state ev) SFired) (x_main o)) (run ex_sc15) = true.
Proof. vm_compute. repeat split. Qed.

(* (T) on a trace that differs from the model's run (the instances built by the Rebuild step listed in another order) *)
Example C15_app_judgement_transfer_satisfiable :
  let t := trace (map rev_built (run ex_sc15)) in
  profile_C15 ex_sc15 /\ transfer_side ex_sc15 = true /\ agree_full (ex_sc15, t) = true /\ t <> trace (run ex_sc15) /\ ok_ext (ex_sc15, t) = 0.
Proof. vm_compute. repeat split. discriminate. Qed.

(* each line: (nonconsumingb, sites_distinctb, p_ids_nodup, p_ids_disj2) and the verdicts on the model's own run *)
Definition ex_parts15 (sc : scenario) := (J7.nonconsumingb sc, J7.sites_distinctb sc, p_ids_nodup sc, p_ids_disj2 sc).
Definition ex_key (id k : Z) : inst_spec := mkSpec None [mkAction 0 [] [] [mkBind (IKey k 0) [(id, ex_pr)] []]].

(* a consuming action above a listener on the same key: the listener reads inactive, the consumption-blind Readc.ok objects
   (ok_ext hands such profiles to the consumption-aware judgement instead, and accepts) *)
Example Read_judgement_sound_needs_nonconsuming :
  let sc := mkScenario [0; 2] [0]
              [((0, 0), mkSpec None [mkAction 2 [] [] [mkBind (IKey 0 0) [(1, ex_pr)] []]]);
               ((2, 0), mkSpec None [mkAction 4 [] [] [mkBind (IKey 0 0) [(2, ex_pr)] []]])]
              [SOp (OSpawn 0 [0; 2]); ex_frame [] []; ex_frame [0] []] in
  ex_parts15 sc = (false, true, true, true) /\ Readc.ok (sc, trace (run sc)) = 1 /\ ok_ext (sc, trace (run sc)) = 0.
Proof. vm_compute. repeat split. Qed.
(* two holders of a shared type configured with the same probe id on different keys: the instance is the first holder's *)
Example C15_app_judgement_sound_needs_sites_distinct :
  let sc := mkScenario [1] [0; 1] [((1, 0), ex_key 1 0); ((1, 1), ex_key 1 1)]
              [SOp (OSpawn 0 [1]); SOp (OSpawn 1 [1]); ex_frame [] []; ex_frame [0] []] in
  ex_parts15 sc = (true, false, true, true) /\ Readc.ok (sc, trace (run sc)) = 1 /\ ok_ext (sc, trace (run sc)) = 1.
Proof. vm_compute. repeat split. Qed.
(* equal ids in one configuration: the id logged by the second input is taken for the first (suppressed) one *)
Example C15_app_judgement_sound_needs_p_ids_nodup :
  let sc := mkScenario [0] [0]
              [((0, 0), mkSpec None [mkAction 0 [] [] [mkBind (IKey 0 0) [] [(5, c_press (1#2))]; mkBind (IKey 1 0) [] [(5, c_press (1#2))]]])]
              [SOp (OSpawn 0 [0]); ex_frame [0] []] in
  ex_parts15 sc = (true, true, false, true) /\ ok_ext (sc, trace (run sc)) = 12.
Proof. vm_compute. repeat split. Qed.
(* the same across two context types ... *)
Example C15_app_judgement_sound_needs_p_ids_disj2 :
  let sc := mkScenario [0; 2] [0] [((0, 0), ex_one 5 0); ((2, 0), ex_one 5 1)] [SOp (OSpawn 0 [0; 2]); ex_frame [0] []] in
  ex_parts15 sc = (true, true, true, false) /\ ok_ext (sc, trace (run sc)) = 12.
Proof. vm_compute. repeat split. Qed.
(* ... and across two entities of an exclusive type *)
Example C15_app_judgement_sound_needs_p_ids_disj2_entities :
  let sc := mkScenario [0] [0; 1] [((0, 0), ex_one 5 0); ((0, 1), ex_one 5 1)] [SOp (OSpawn 0 [0]); SOp (OSpawn 1 [0]); ex_frame [0] []] in
  ex_parts15 sc = (true, true, true, false) /\ ok_ext (sc, trace (run sc)) = 12.
Proof. vm_compute. repeat split. Qed.
(* what the profile does NOT ask for: several holders of an exclusive type, equal priorities, slots listed twice or not at all *)
Example C15_app_judgement_sound_liberal :
  let sc := mkScenario [7; 9; 0] [0; 1; 1]
              [((7, 0), ex_key 1 0); ((9, 0), ex_key 2 0); ((0, 0), ex_key 3 1); ((0, 1), ex_key 4 1); ((0, 5), ex_key 5 1)]
              [SOp (OSpawn 1 [0]); SOp (OSpawn 0 [7; 9; 0]); SOp (OSpawn 5 [0]); ex_frame [1] []; ex_frame [0] []; ex_frame [] [];
               ex_frame [0; 1] []; SOp ORebuild; ex_frame [0; 1] []; ex_frame [0] []; ex_frame [0; 1] []] in
  profile_C15 sc /\ profile_C12b sc = false /\ ok_ext (sc, trace (run sc)) = 0.
Proof. vm_compute. repeat split. Qed.
(* several operations in one frame can build a shared type for two entities; agree_full compares the lists of built
   instances up to order, the judgement takes the last one as the owner of the configuration *)
Example C15_app_judgement_transfer_needs_one_op_frames :
  let sc := mkScenario [1] [0; 1] [((1, 0), ex_key 1 0); ((1, 1), ex_key 2 0)]
              [SOp (OSpawn 0 []); SOp (OSpawn 1 []); ex_frame [] [OInsert 0 1; ORemove 0 1; OInsert 1 1]; ex_frame [] []] in
  let t := trace (map rev_built (run sc)) in
  profile_C15 sc /\ one_op_frames sc = false /\ agree_full (sc, t) = true /\ ok_ext (sc, t) = 12 /\ ok_ext (sc, trace (run sc)) = 0.
Proof. vm_compute. repeat split. Qed.

(* the premises of the conditional statements for consuming profiles are satisfiable: consuming actions in contexts tied to
   different gamepads, Ctrl+click consumed above listeners on Ctrl+key / Ctrl+click / key, a context created in mid-run;
   the consumption-blind Readc.ok objects to the hidden reads, C05c.ok5 and hence ok_ext accept *)
Definition ex_one_bind (a id : Z) (i : input) : action_spec := mkAction a [] [] [mkBind i [(id, ex_pr)] []].
Definition ex_cons : scenario := mkScenario [0; 2; 3; 4] [0]
  [((0, 0), mkSpec (Some 0) [ex_one_bind 2 1 (IPadButton 0); ex_one_bind 18 2 (IPadAxis 0); ex_one_bind 34 3 (IMouseButton 0 2)]);
   ((4, 0), mkSpec (Some 1) [ex_one_bind 6 4 (IPadButton 0); ex_one_bind 22 5 (IPadAxis 0)]);
   ((3, 0), mkSpec None [ex_one_bind 8 6 (IKey 1 2); ex_one_bind 24 7 (IMouseButton 0 2); ex_one_bind 40 8 (IKey 1 0);
                         ex_one_bind 56 9 (IPadButton 0); ex_one_bind 10 10 (IKey 2 0); ex_one_bind 12 11 (IKey 2 0)]);
   ((2, 0), mkSpec None [ex_one_bind 14 12 (IPadAxis 0)])]
  [SOp (OSpawn 0 [0; 3; 4]); ex_fr (mkRaw [] [] ex_z2 ex_z2 [mkPad 0 [] []; mkPad 1 [] []] []) [];
   ex_fr (mkRaw [1; 2; 102] [0] ex_z2 ex_z2 [mkPad 0 [0] [(0, 1#2)]; mkPad 1 [] []] []) [];
   SOp (OInsert 0 2);
   ex_fr (mkRaw [1; 2] [0] ex_z2 ex_z2 [mkPad 0 [] [(0, 1#2)]; mkPad 1 [0] []] [1]) [];
   ex_fr (mkRaw [1; 102] [0] ex_z2 ex_z2 [mkPad 0 [0] []; mkPad 1 [0] [(0, 1#4)]] []) [];
   ex_fr (mkRaw [] [] ex_z2 ex_z2 [mkPad 0 [] [(0, (-1)#1)]; mkPad 1 [] []] []) [];
   ex_fr (mkRaw [2] [] ex_z2 ex_z2 [mkPad 0 [] [(0, (-1)#1)]; mkPad 1 [] []] []) []].
Example C15_app_judgement_sound_consuming_satisfiable :
  profile_C08 ex_cons /\ consuming_profile ex_cons = true /\ transfer_side ex_cons = true /\
  C05c.ok5 (ex_cons, trace (run ex_cons)) = 0 /\ ok_ext (ex_cons, trace (run ex_cons)) = 0 /\ Readc.ok (ex_cons, trace (run ex_cons)) = 1.
Proof. vm_compute. repeat split. Qed.

Print Assumptions Read_judgement_sound.
Print Assumptions Read_judgement_transfer.
Print Assumptions C08_ok8_sound.
Print Assumptions C08_ok8_transfer.
Print Assumptions C15_app_judgement_sound.
Print Assumptions C15_app_judgement_transfer.
Print Assumptions C15_app_judgement_sound_consuming.
Print Assumptions C15_app_judgement_transfer_consuming.
Print Assumptions C15_app_judgement_sound_upto11.
Print Assumptions judge_action_simple.
