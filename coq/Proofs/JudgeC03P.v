(* Soundness (S) and transfer (T) of the executable judgement Check/C03c.v:
     C03_judgement_sound          : forall sc, profile_C03 sc -> C03c.ok (sc, trace (run sc)) = 0
     C03_judgement_respects_agree : forall sc t, agree_full (sc, t) = true -> C03c.ok (sc, t) = C03c.ok (sc, trace (run sc))
     C03_judgement_transfer       : forall sc t, profile_C03 sc -> agree_full (sc, t) = true -> C03c.ok (sc, t) = 0
   Ladder: R1 one action evaluation (section 4: judge_action_model), every action of one instance update (section 8:
   inst_update_judged); R2 the invariant [inst_inv] (signature and merge-safety of the bindings) is kept by every evaluation
   (sections 6, 8) and holds after the spawn; R3 induction over the steps (section 10: frames_judged). *)
From BEI Require Import Model.Frame Spec.Law Spec.Events Check.App Check.C03c.
From BEI Require Import Proofs.ValueP Proofs.StateP Proofs.TrackerP Proofs.ActionP Proofs.MergeP Proofs.InstanceP.
Open Scope Z_scope.

(* ================================================================================================ *)
(* 0. lists                                                                                         *)
(* ================================================================================================ *)

Lemma first_fail_zero l : (forall k b, In (k, b) l -> b = true) -> first_fail l = 0.
Proof.
  induction l as [|[k b] r IH]; intros H; cbn [first_fail]; [reflexivity|].
  rewrite (H k b (or_introl eq_refl)). apply IH. intros k' b' Hin. apply (H k' b'). now right.
Qed.
(* the converse, for clause numbers that are not 0 *)
Lemma first_fail_zero_inv l : (forall k b, In (k, b) l -> k <> 0) -> first_fail l = 0 -> forall k b, In (k, b) l -> b = true.
Proof.
  induction l as [|[k b] r IH]; intros Hk H k' b' Hin; [destruct Hin|].
  cbn [first_fail] in H. destruct b.
  - destruct Hin as [Hin|Hin]; [congruence|]. apply (IH (fun k b Hi => Hk k b (or_intror Hi)) H k' b' Hin).
  - exfalso. apply (Hk k false (or_introl eq_refl)). exact H.
Qed.

Lemma nodup_app {A} (a b : list A) :
  NoDup (a ++ b) <-> NoDup a /\ NoDup b /\ (forall x, In x a -> ~ In x b).
Proof.
  induction a as [|x a IH]; cbn [app].
  - split; [intros H; repeat split; [constructor|exact H|intros x []]|tauto].
  - split.
    + intros H. inversion H as [|? ? Hn Hd]; subst. apply IH in Hd. destruct Hd as (Ha & Hb & Hab).
      repeat split; [constructor; [intros Hi; apply Hn; apply in_or_app; now left|exact Ha]|exact Hb|].
      intros y [Hy|Hy]; [subst y; intros Hi; apply Hn; apply in_or_app; now right|now apply Hab].
    + intros (Ha & Hb & Hab). inversion Ha as [|? ? Hn Hd]; subst. constructor.
      * intros Hi. apply in_app_or in Hi. destruct Hi as [Hi|Hi]; [tauto|]. apply (Hab x (or_introl eq_refl) Hi).
      * apply IH. repeat split; [exact Hd|exact Hb|]. intros y Hy. apply Hab. now right.
Qed.

Lemma find_app {A} (p : A -> bool) a b : find p (a ++ b) = match find p a with Some y => Some y | None => find p b end.
Proof. induction a as [|x a IH]; cbn [app find]; [reflexivity|]. destruct (p x); [reflexivity|exact IH]. Qed.

Lemma find_none_all {A} (p : A -> bool) l : (forall y, In y l -> p y = false) -> find p l = None.
Proof.
  induction l as [|x l IH]; intros H; cbn [find]; [reflexivity|].
  rewrite (H x (or_introl eq_refl)). apply IH. intros y Hy. apply H. now right.
Qed.

(* the first match of a search through a flat_map lies in the first block whose key qualifies *)
Lemma find_flat_map {A B} (p : B -> bool) (f : A -> list B) (q : A -> bool) l res :
  (forall x y, In y (f x) -> p y = true -> q x = true) ->
  (forall x, q x = true -> find p (f x) = Some res) ->
  (exists x, In x l /\ q x = true) -> find p (flat_map f l) = Some res.
Proof.
  intros Hp Hq. induction l as [|x l IH]; intros (x0 & Hin & Hx0); [destruct Hin|].
  cbn [flat_map]. rewrite find_app. destruct (q x) eqn:Eq.
  - rewrite (Hq x Eq). reflexivity.
  - rewrite find_none_all.
    + apply IH. destruct Hin as [->|Hin]; [congruence|]. exists x0. split; assumption.
    + intros y Hy. destruct (p y) eqn:Ep; [|reflexivity]. rewrite (Hp x y Hy Ep) in Eq. discriminate.
Qed.

Lemma memz_in x l : memz x l = true <-> In x l.
Proof.
  unfold memz. rewrite existsb_exists. split.
  - intros (y & Hy & E). apply Z.eqb_eq in E. now subst.
  - intros H. exists x. split; [exact H|apply Z.eqb_refl].
Qed.

(* ================================================================================================ *)
(* 1. reading the invocation log                                                                    *)
(* ================================================================================================ *)

Lemma find_cond_in lg : NoDup (map log_id lg) -> forall id v s sn,
  In (LCond id v s sn) lg -> find_cond id lg = Some (v, s, sn).
Proof.
  induction lg as [|x lg IH]; intros Hd id v s sn Hin; [destruct Hin|].
  cbn [map] in Hd. inversion Hd as [|? ? Hn Hd']; subst.
  destruct Hin as [->|Hin]; cbn [find_cond].
  - rewrite Z.eqb_refl. reflexivity.
  - assert (Hne : log_id x <> id).
    { intros E. apply Hn. rewrite E. change id with (log_id (LCond id v s sn)). apply in_map. exact Hin. }
    destruct x as [i ? ? ?|i ? ? ?]; cbn [log_id] in Hne.
    + destruct (Z.eqb i id) eqn:E; [apply Z.eqb_eq in E; congruence|]. apply IH; assumption.
    + apply IH; assumption.
Qed.
Lemma find_mod_in lg : NoDup (map log_id lg) -> forall id v o sn,
  In (LMod id v o sn) lg -> find_mod id lg = Some (v, o, sn).
Proof.
  induction lg as [|x lg IH]; intros Hd id v s sn Hin; [destruct Hin|].
  cbn [map] in Hd. inversion Hd as [|? ? Hn Hd']; subst.
  destruct Hin as [->|Hin]; cbn [find_mod].
  - rewrite Z.eqb_refl. reflexivity.
  - assert (Hne : log_id x <> id).
    { intros E. apply Hn. rewrite E. change id with (log_id (LMod id v s sn)). apply in_map. exact Hin. }
    destruct x as [i ? ? ?|i ? ? ?]; cbn [log_id] in Hne.
    + apply IH; assumption.
    + destruct (Z.eqb i id) eqn:E; [apply Z.eqb_eq in E; congruence|]. apply IH; assumption.
Qed.
Lemma find_mod_notin lg id : ~ In id (map log_id lg) -> find_mod id lg = None.
Proof.
  induction lg as [|x lg IH]; intros Hn; [reflexivity|].
  cbn [map] in Hn. destruct x as [i ? ? ?|i ? ? ?]; cbn [find_mod log_id In] in *.
  - apply IH. tauto.
  - destruct (Z.eqb i id) eqn:E; [apply Z.eqb_eq in E; tauto|]. apply IH. tauto.
Qed.

(* the log written by a list of conditions: all of them are shown the same value *)
Lemma apply_conds_log m tm cs : forall t,
  snd (apply_conds m tm t cs) =
  map (fun x => LCond (fst x) (t_value t) (snd (cond_eval (look_of m) tm (t_value t) (snd x))) (seen_of m)) cs.
Proof.
  induction cs as [|[id c] r IH]; intros t; cbn [apply_conds map]; [reflexivity|].
  destruct (cond_eval (look_of m) tm (t_value t) c) as [c' s] eqn:E.
  specialize (IH (apply_result t (cond_kind c) s)).
  destruct (apply_conds m tm (apply_result t (cond_kind c) s) r) as [[r' t'] lg].
  cbn [fst snd] in *. rewrite IH, apply_result_value, E. reflexivity.
Qed.

(* the log written by a non-empty list of modifiers: the output of the last one is the final value *)
Lemma apply_mods_last m tm ms : forall v id x r',
  rev ms = (id, x) :: r' ->
  exists vin, In (LMod id vin (fold_mods (look_of m) tm v ms) (seen_of m)) (snd (apply_mods m tm v ms)).
Proof.
  induction ms as [|[i0 x0] r IH]; intros v id x r' Hrev; [discriminate|].
  cbn [apply_mods]. destruct (modif_apply (look_of m) tm v x0) as [x0' v'] eqn:E.
  assert (Hf : fold_mods (look_of m) tm v ((i0, x0) :: r) = fold_mods (look_of m) tm v' r).
  { unfold fold_mods. cbn [fold_left snd]. rewrite E. reflexivity. }
  rewrite Hf. destruct r as [|p r2].
  - cbn [rev app] in Hrev. inversion Hrev; subst. cbn [apply_mods snd]. exists v. left. reflexivity.
  - change (rev ((i0, x0) :: p :: r2)) with (rev (p :: r2) ++ [(i0, x0)]) in Hrev. destruct (rev (p :: r2)) as [|q l] eqn:Er.
    + exfalso. apply (f_equal (@length _)) in Er. rewrite rev_length in Er. discriminate.
    + cbn [app] in Hrev. inversion Hrev; subst.
      destruct (IH v' id x l eq_refl) as (vin & Hin).
      destruct (apply_mods m tm v' (p :: r2)) as [[r'' v''] lg]. cbn [snd] in *. exists vin. right. exact Hin.
Qed.

Lemma results_of_found look tm v sn cs LG :
  (forall id c, In (id, c) cs -> find_cond id LG = Some (v, snd (cond_eval look tm v c), sn)) ->
  results_of cs LG = Some (cond_results look tm v cs).
Proof.
  induction cs as [|[id c] r IH]; intros H; cbn [results_of cond_results map]; [reflexivity|].
  rewrite (H id c (or_introl eq_refl)). fold (cond_results look tm v r).
  rewrite IH; [reflexivity|]. intros id' c' Hin. apply H. now right.
Qed.

(* ================================================================================================ *)
(* 2. the judgement reads only the signature of a binding: ids, kinds, shape                        *)
(* ================================================================================================ *)

Definition ck_of (cs : list (Z * cond)) : list (Z * ckind) := map (fun x => (fst x, cond_kind (snd x))) cs.
Definition isig (ib : ibind) : list Z * list (Z * ckind) := (ids_of (ib_mods ib), ck_of (ib_conds ib)).
Definition sig (b : abind) := (ab_id b, ids_of (ab_mods b), ck_of (ab_conds b), map isig (ab_inputs b)).

Lemma results_of_sig lg : forall cs cs', ck_of cs = ck_of cs' -> results_of cs lg = results_of cs' lg.
Proof.
  induction cs as [|[id c] r IH]; intros [|[id' c'] r'] H; try discriminate; [reflexivity|].
  cbn [ck_of map fst snd] in H. inversion H as [[H1 H2 H3]]. cbn [results_of].
  rewrite (IH r' H3), H2. reflexivity.
Qed.
Lemma last_mod_out_ids ms lg :
  last_mod_out ms lg = match rev (ids_of ms) with id :: _ => option_map (fun x => snd (fst x)) (find_mod id lg) | [] => None end.
Proof.
  unfold last_mod_out, ids_of. rewrite <- map_rev. destruct (rev ms) as [|[id x] r]; reflexivity.
Qed.
Lemma last_mod_out_sig lg ms ms' : ids_of ms = ids_of ms' -> last_mod_out ms lg = last_mod_out ms' lg.
Proof. intros H. rewrite !last_mod_out_ids, H. reflexivity. Qed.

Lemma input_rows_sig lg b b' : map isig (ab_inputs b) = map isig (ab_inputs b') -> input_rows b lg = input_rows b' lg.
Proof.
  unfold input_rows. generalize (ab_inputs b) (ab_inputs b'). clear b b'.
  induction l as [|ib r IH]; intros [|ib' r'] H; try discriminate; [reflexivity|].
  cbn [map] in H. inversion H as [[H1 H2 H3]]. cbn [flat_map].
  rewrite (IH r' H3), (results_of_sig lg _ _ H2), (last_mod_out_sig lg _ _ H1). reflexivity.
Qed.

Lemma judge_action_sig c e b b' prev o : sig b = sig b' -> judge_action c e b prev o = judge_action c e b' prev o.
Proof.
  unfold sig. intros H. inversion H as [[H1 H2 H3 H4]]. unfold judge_action.
  rewrite (input_rows_sig _ b b' H4), (results_of_sig _ _ _ H3), (last_mod_out_sig _ _ _ H2), H1. reflexivity.
Qed.

(* ================================================================================================ *)
(* 3. the log of one action evaluation                                                              *)
(* ================================================================================================ *)

Definition input_log (m : actions) (tm : time) (r : raw) (c : consumed) (dev : device) (ib : ibind) : list logitem :=
  snd (apply_mods m tm (reader_value r c dev (ib_input ib)) (ib_mods ib)) ++
  snd (apply_conds m tm (tracker_new (snd (own_pair m tm r c dev ib))) (ib_conds ib)).

Lemma input_step_log m tm r c dev a st ib :
  l_log (fst (input_step m tm r c dev a st ib)) =
  l_log st ++ (if skipped r c dev ib then [] else input_log m tm r c dev ib).
Proof.
  destruct (skipped r c dev ib) eqn:Hs.
  - unfold input_step. unfold skipped in Hs. rewrite Hs. cbn [fst]. now rewrite app_nil_r.
  - destruct (input_step_own m tm r c dev ib) as (ms' & cs' & lg1 & lg2 & Hm & Hc).
    unfold input_step, input_log. unfold skipped in Hs. rewrite Hs, Hm, Hc. cbn [snd].
    destruct (state_eqb _ SNone); [reflexivity|]. destruct (state_cmp _ _); reflexivity.
Qed.

Lemma input_loop_log m tm r c dev a bs : forall st,
  l_log (fst (input_loop m tm r c dev a st bs)) = l_log st ++ flat_map (input_log m tm r c dev) (evaluated r c dev bs).
Proof.
  induction bs as [|b rest IH]; intros st; cbn [input_loop].
  - cbn. now rewrite app_nil_r.
  - pose proof (input_step_log m tm r c dev a st b) as Hs.
    destruct (input_step m tm r c dev a st b) as [st1 b']. cbn [fst] in Hs.
    specialize (IH st1). destruct (input_loop m tm r c dev a st1 rest) as [st2 rest']. cbn [fst] in *.
    rewrite IH, Hs, <- app_assoc. unfold evaluated. cbn [filter].
    destruct (skipped r c dev b); cbn [negb flat_map app]; reflexivity.
Qed.

Lemma action_update_log m tm r c dev recips ab :
  let fin := merged_pair m tm r c dev ab in
  let v1 := fold_mods (look_of m) tm (snd fin) (ab_mods ab) in
  o_log (action_update m tm r c dev recips ab) =
  flat_map (input_log m tm r c dev) (evaluated r c dev (ab_inputs ab)) ++
  snd (apply_mods m tm (snd fin) (ab_mods ab)) ++
  snd (apply_conds m tm (tr_of (fst fin) v1) (ab_conds ab)).
Proof.
  cbv zeta. unfold action_update, merged_pair.
  pose proof (input_loop_tracker m tm r c dev (ab_id ab) (ab_inputs ab)
                (mkLoop (tracker_new (vzero (aid_dim (ab_id ab)))) [] []) ([], vzero (aid_dim (ab_id ab))) eq_refl) as Hl.
  pose proof (input_loop_log m tm r c dev (ab_id ab) (ab_inputs ab)
                (mkLoop (tracker_new (vzero (aid_dim (ab_id ab)))) [] [])) as Hg.
  destruct (input_loop m tm r c dev (ab_id ab) _ (ab_inputs ab)) as [st inputs']. cbn [fst l_log app] in Hl, Hg.
  set (fin := fold_left _ _ _) in *.
  pose proof (apply_mods_value m tm (ab_mods ab) (t_value (l_tracker st))) as Hm.
  rewrite Hl in *. unfold tr_ofp in *. rewrite tr_of_value in *.
  destruct (apply_mods m tm (snd fin) (ab_mods ab)) as [[ms' v1] lg1]. cbn [fst snd] in Hm. subst v1.
  rewrite with_value_of.
  destruct (apply_conds m tm (tr_of (fst fin) (fold_mods (look_of m) tm (snd fin) (ab_mods ab))) (ab_conds ab)) as [[cs' tr] lg2].
  cbn [o_log snd]. rewrite Hg. reflexivity.
Qed.

Lemma conds_found LG m tm t cs :
  NoDup (map log_id LG) -> incl (snd (apply_conds m tm t cs)) LG ->
  results_of cs LG = Some (cond_results (look_of m) tm (t_value t) cs).
Proof.
  intros Hd Hi. apply results_of_found with (sn := seen_of m). intros id c Hin.
  apply find_cond_in; [exact Hd|]. apply Hi. rewrite apply_conds_log. apply in_map_iff. exists (id, c). split; [reflexivity|exact Hin].
Qed.
Lemma mods_found LG m tm v ms :
  NoDup (map log_id LG) -> incl (snd (apply_mods m tm v ms)) LG -> ms <> [] ->
  last_mod_out ms LG = Some (fold_mods (look_of m) tm v ms).
Proof.
  intros Hd Hi Hne. unfold last_mod_out. destruct (rev ms) as [|[id x] r'] eqn:Er.
  - exfalso. apply Hne. rewrite <- (rev_involutive ms), Er. reflexivity.
  - destruct (apply_mods_last m tm ms v id x r' Er) as (vin & Hin).
    rewrite (find_mod_in LG Hd id vin _ _ (Hi _ Hin)). reflexivity.
Qed.
Lemma mods_notfound LG ms :
  (forall id, In id (ids_of ms) -> ~ In id (map log_id LG)) -> last_mod_out ms LG = None.
Proof.
  intros H. rewrite last_mod_out_ids. destruct (rev (ids_of ms)) as [|id l] eqn:Er; [reflexivity|].
  rewrite find_mod_notin; [reflexivity|]. apply H. apply in_rev. rewrite Er. now left.
Qed.

(* the rows the judgement reconstructs from the log are the own pairs of the evaluated inputs *)
Lemma input_rows_model LG m tm r c dev : NoDup (map log_id LG) -> forall ibs,
  (forall ib, In ib ibs -> ib_mods ib <> []) ->
  (forall ib, In ib ibs -> skipped r c dev ib = false -> incl (input_log m tm r c dev ib) LG) ->
  (forall ib, In ib ibs -> skipped r c dev ib = true -> forall id, In id (ids_of (ib_mods ib)) -> ~ In id (map log_id LG)) ->
  flat_map (fun ib => match results_of (ib_conds ib) LG, last_mod_out (ib_mods ib) LG with
                      | Some rs, Some v => [(rs, law rs v)]
                      | _, _ => []
                      end) ibs
  = map (fun p => (fst p, lawp p)) (own_pairs m tm r c dev ibs).
Proof.
  intros Hd. induction ibs as [|ib rest IH]; intros Hne Hev Hsk; [reflexivity|].
  cbn [flat_map]. unfold own_pairs, evaluated. cbn [filter].
  rewrite IH; [|intros x Hx; apply Hne; now right|intros x Hx; apply Hev; now right|intros x Hx; apply Hsk; now right].
  destruct (skipped r c dev ib) eqn:Hs; cbn [negb].
  - rewrite (mods_notfound LG (ib_mods ib) (Hsk ib (or_introl eq_refl) Hs)).
    destruct (results_of (ib_conds ib) LG); reflexivity.
  - pose proof (Hev ib (or_introl eq_refl) Hs) as Hi. unfold input_log in Hi.
    rewrite (conds_found LG m tm (tracker_new (snd (own_pair m tm r c dev ib))) (ib_conds ib) Hd)
      by (intros x Hx; apply Hi; apply in_or_app; now right).
    rewrite (mods_found LG m tm (reader_value r c dev (ib_input ib)) (ib_mods ib) Hd)
      by (try (apply Hne; now left); intros x Hx; apply Hi; apply in_or_app; now left).
    reflexivity.
Qed.

Lemma state_max_same a b : Check.App.state_max a b = MergeP.state_max a b.
Proof. destruct a, b; reflexivity. Qed.
Lemma rows_max ins : forall acc,
  fold_left (fun acc (r : list res * state) => Check.App.state_max acc (snd r)) (map (fun p => (fst p, lawp p)) ins) acc =
  MergeP.state_max acc (max_own ins).
Proof.
  induction ins as [|p ins IH]; intros acc; cbn [map fold_left max_own fold_right].
  - now rewrite state_max_none_r.
  - rewrite IH. cbn [snd]. rewrite state_max_same, <- state_max_assoc. reflexivity.
Qed.
Lemma contributing_model (ins : list pair) :
  let rows := map (fun p => (fst p, lawp p)) ins in
  let m := fold_left (fun acc (r : list res * state) => Check.App.state_max acc (snd r)) rows SNone in
  (if state_eqb m SNone then [] else flat_map (fun r : list res * state => if state_eqb (snd r) m then fst r else []) rows) =
  concat (map fst (contrib ins)).
Proof.
  cbv zeta. rewrite rows_max, state_max_none_l. unfold contrib.
  destruct (state_eqb (max_own ins) SNone); [reflexivity|]. generalize (max_own ins) as s. intros s.
  induction ins as [|p ins IH]; [reflexivity|]. cbn [map flat_map filter snd fst]. rewrite IH.
  destruct (state_eqb (lawp p) s); reflexivity.
Qed.

(* ================================================================================================ *)
(* 4. R1: one action evaluation.  Given the log, snapshot and events that action_update produces,   *)
(*    both clauses of judge_action are true                                                         *)
(* ================================================================================================ *)

Lemma length_fanout {A} (f : evkind -> entity -> A) e ks : length (flat_map (fun k => [f k e]) ks) = length ks.
Proof. induction ks as [|k ks IH]; [reflexivity|]. cbn [flat_map]. rewrite app_length, IH. reflexivity. Qed.

Lemma judge_action_model c e b prev out m tm r cs dev :
  let o := action_update m tm r cs dev [e] b in
  let a := ab_id b in
  NoDup (map log_id (x_log out)) ->
  incl (o_log o) (x_log out) ->
  (forall ib, In ib (ab_inputs b) -> skipped r cs dev ib = true ->
              forall id, In id (ids_of (ib_mods ib)) -> ~ In id (map log_id (x_log out))) ->
  ab_mods b <> [] -> (forall ib, In ib (ab_inputs b) -> ib_mods ib <> []) ->
  regular (aid_accum a) (aid_dim a) (own_pairs m tm r cs dev (ab_inputs b)) = true ->
  snap_of_entry c e a (x_snaps out) = option_map snap_of (lookup a (o_actions o)) ->
  prev = option_map snap_of (lookup a m) ->
  (forall evs, o_events o = Some evs -> events_for e a (x_main out) = evs) ->
  forall k bb, In (k, bb) (judge_action c e b prev out) -> bb = true.
Proof.
  cbv zeta. intros Hd Hincl Hsk Hne Hnei Hreg Hsnap Hprev Hev k bb.
  pose proof (action_update_merged m tm r cs dev [e] b) as Hmerged. cbv zeta in Hmerged.
  pose proof (action_update_log m tm r cs dev [e] b) as Hlog. cbv zeta in Hlog.
  unfold merged_pair in *.
  set (ins := own_pairs m tm r cs dev (ab_inputs b)) in *.
  set (fin := fold_left (merge (aid_accum (ab_id b))) ins ([], vzero (aid_dim (ab_id b)))) in *.
  set (v1 := fold_mods (look_of m) tm (snd fin) (ab_mods b)) in *.
  destruct (most_significant_win _ _ _ Hreg) as (Hfst & _ & _). fold fin in Hfst.
  rewrite Hlog in Hincl.
  assert (Hi1 : forall ib, In ib (ab_inputs b) -> skipped r cs dev ib = false -> incl (input_log m tm r cs dev ib) (x_log out)).
  { intros ib Hib Hs x Hx. apply Hincl. apply in_or_app. left. apply in_flat_map. exists ib. split; [|exact Hx].
    unfold evaluated. apply filter_In. split; [exact Hib|]. now rewrite Hs. }
  assert (Hi2 : incl (snd (apply_mods m tm (snd fin) (ab_mods b))) (x_log out)).
  { intros x Hx. apply Hincl. apply in_or_app. right. apply in_or_app. now left. }
  assert (Hi3 : incl (snd (apply_conds m tm (tr_of (fst fin) v1) (ab_conds b))) (x_log out)).
  { intros x Hx. apply Hincl. apply in_or_app. right. apply in_or_app. now right. }
  unfold judge_action, input_rows.
  rewrite (input_rows_model (x_log out) m tm r cs dev Hd (ab_inputs b) Hnei Hi1 Hsk). fold ins.
  rewrite (contributing_model ins), <- Hfst.
  rewrite (conds_found _ m tm (tr_of (fst fin) v1) (ab_conds b) Hd Hi3), tr_of_value.
  rewrite (mods_found _ m tm (snd fin) (ab_mods b) Hd Hi2 Hne). fold v1.
  destruct Hmerged as [Hlook Hevs]. rewrite Hsnap, Hlook. cbn [option_map].
  set (rs := fst fin ++ cond_results (look_of m) tm v1 (ab_conds b)) in *.
  rewrite (Hev _ Hevs).
  destruct (data_update_fields (vdelta tm) (old_data m (ab_id b)) (law rs v1) (convert (aid_dim (ab_id b)) v1)) as (Hst & _ & _).
  assert (Hp : match prev with Some p => sn_state p | None => SNone end = d_state (old_data m (ab_id b))).
  { rewrite Hprev. unfold old_data. destruct (lookup (ab_id b) m); reflexivity. }
  rewrite Hp. cbn [snap_of sn_state]. rewrite Hst.
  intros [Hin|[Hin|[]]]; inversion Hin; subst.
  - destruct (law rs v1); reflexivity.
  - destruct (suppressed rs); [reflexivity|]. rewrite length_fanout. apply Nat.eqb_refl.
Qed.

(* ================================================================================================ *)
(* 5. when the merge of the inputs is the specified one (MergeP.regular), from the configuration    *)
(* ================================================================================================ *)

(* values on the non-negative X axis: what key-like inputs produce, closed under conversion and accumulation *)
Definition nn (v : value) : Prop := let '(x, y, z) := as3 v in (0 <= x /\ y == 0 /\ z == 0)%Q.

Lemma b2q_nonneg b : (0 <= b2q b)%Q.
Proof. destruct b; unfold b2q; lra. Qed.

Lemma nn_convert d v : nn v -> nn (convert d v) /\ as_bool (convert d v) = as_bool v.
Proof.
  destruct v as [b|x|x y|x y z], d; unfold nn; cbn [convert as1 as2 as3 as_bool]; intros (Hx & Hy & Hz);
    (split; [repeat split; try assumption; try reflexivity; try apply b2q_nonneg|
             apply qnz_false_iff in Hy; apply qnz_false_iff in Hz;
             rewrite ?Hy, ?Hz, ?qnz_b2q, ?qnz_0, ?orb_false_r; reflexivity]).
Qed.

Lemma nn_as_bool v : nn v -> as_bool v = qnz (fst (fst (as3 v))).
Proof.
  destruct v as [b|x|x y|x y z]; unfold nn; cbn [as3 as_bool fst]; intros (Hx & Hy & Hz);
    apply qnz_false_iff in Hy; apply qnz_false_iff in Hz; rewrite ?Hy, ?Hz, ?qnz_b2q, ?orb_false_r; reflexivity.
Qed.

Lemma qnz_sum x y : (0 <= x)%Q -> (0 <= y)%Q -> qnz (Qred (x + y)) = qnz x || qnz y.
Proof.
  intros Hx Hy. destruct (qnz x) eqn:E1; [|destruct (qnz y) eqn:E2]; cbn [orb].
  - apply qnz_true_iff in E1. apply qnz_true_iff. intros H. rewrite Qred_correct in H. apply E1. lra.
  - apply qnz_true_iff in E2. apply qnz_true_iff. intros H. rewrite Qred_correct in H. apply E2. lra.
  - apply qnz_false_iff in E1. apply qnz_false_iff in E2. apply qnz_false_iff. rewrite Qred_correct. lra.
Qed.

Lemma qabs_nonneg_id a : (0 <= a)%Q -> qabs a = a.
Proof. intros H. unfold qabs. rewrite (proj2 (Qle_bool_iff 0 a) H). reflexivity. Qed.

Lemma pick_nn x y : (0 <= x)%Q -> (0 <= y)%Q ->
  let p := if qltb (qabs x) (qabs y) then y else x in
  (0 <= p)%Q /\ qnz p = qnz x || qnz y /\ ((x == 0)%Q -> (y == 0)%Q -> (p == 0)%Q).
Proof.
  intros Hx Hy. cbv zeta. rewrite !qabs_nonneg_id by assumption. unfold qltb.
  destruct (Qle_bool y x) eqn:E; cbn [negb].
  - apply Qle_bool_iff in E. split; [exact Hx|]. split; [|tauto].
    destruct (qnz x) eqn:E1; [reflexivity|]. apply qnz_false_iff in E1. cbn [orb]. symmetry. apply qnz_false_iff. lra.
  - assert (Hlt : (x < y)%Q).
    { apply Qnot_le_lt. intros H. apply Qle_bool_iff in H. congruence. }
    split; [exact Hy|]. split; [|tauto].
    assert (E2 : qnz y = true) by (apply qnz_true_iff; intros H; lra). rewrite E2. now rewrite orb_true_r.
Qed.

Lemma nn_combine acc v1 v2 : nn v1 -> nn v2 ->
  nn (combine_value acc v1 v2) /\ as_bool (combine_value acc v1 v2) = as_bool v1 || as_bool v2.
Proof.
  intros H1 H2. rewrite (nn_as_bool v1 H1), (nn_as_bool v2 H2). unfold combine_value.
  assert (H : nn (of3 match acc with MaxAbs => v3maxabs (as3 v1) (as3 v2) | Cumulative => v3add (as3 v1) (as3 v2) end) /\
              as_bool (of3 match acc with MaxAbs => v3maxabs (as3 v1) (as3 v2) | Cumulative => v3add (as3 v1) (as3 v2) end) =
              qnz (fst (fst (as3 v1))) || qnz (fst (fst (as3 v2)))).
  { unfold nn in H1, H2. destruct (as3 v1) as [[x1 y1] z1], (as3 v2) as [[x2 y2] z2].
    destruct H1 as (Hx1 & Hy1 & Hz1), H2 as (Hx2 & Hy2 & Hz2). cbn [fst]. destruct acc.
    - unfold v3add, of3, nn. cbn [as3 as_bool]. split.
      + rewrite !Qred_correct. repeat split; lra.
      + assert (E2 : qnz (Qred (y1 + y2)) = false) by (apply qnz_false_iff; rewrite Qred_correct; lra).
        assert (E3 : qnz (Qred (z1 + z2)) = false) by (apply qnz_false_iff; rewrite Qred_correct; lra).
        rewrite E2, E3, !orb_false_r. apply qnz_sum; assumption.
    - unfold v3maxabs, of3, nn. cbn [as3 as_bool].
      assert (Hy1' : (0 <= y1)%Q) by lra. assert (Hy2' : (0 <= y2)%Q) by lra.
      assert (Hz1' : (0 <= z1)%Q) by lra. assert (Hz2' : (0 <= z2)%Q) by lra.
      destruct (pick_nn x1 x2 Hx1 Hx2) as (Px1 & Px2 & _).
      destruct (pick_nn y1 y2 Hy1' Hy2') as (_ & _ & Py). destruct (pick_nn z1 z2 Hz1' Hz2') as (_ & _ & Pz).
      cbv zeta in *. specialize (Py Hy1 Hy2). specialize (Pz Hz1 Hz2). split.
      + repeat split; assumption.
      + apply qnz_false_iff in Py. apply qnz_false_iff in Pz. rewrite Py, Pz, !orb_false_r. exact Px2. }
  destruct H as [Hn Hb]. destruct (nn_convert (vdim v1) _ Hn) as [Hn' Hb']. split; [exact Hn'|]. rewrite Hb'. exact Hb.
Qed.

Lemma condless_active p : condless (fst p) = true -> lawp p <> SNone -> as_bool (snd p) = true.
Proof.
  intros Hc. unfold lawp. rewrite (law_condless _ _ Hc). destruct (existsb blocker_failed (fst p)); [congruence|].
  destruct (as_bool (snd p)); congruence.
Qed.

(* every input that has no explicit / implicit condition carries such a value: the running value of
   condition-less contributors never collapses to zero *)
Lemma regular_from_nn acc ins : forall run started,
  (forall p, In p ins -> condless (fst p) = true -> nn (snd p)) ->
  (condless (fst run) = true -> nn (snd run) /\ (started = true -> as_bool (snd run) = true)) ->
  (started = false -> lawp run = SNone) ->
  regular_from acc run started ins = true.
Proof.
  induction ins as [|cur rest IH]; intros run started Hall Hrun Hs0; cbn [regular_from]; [reflexivity|].
  apply andb_true_iff. split.
  - destruct started; [|rewrite andb_false_r; reflexivity].
    destruct (condless (fst run)) eqn:Hc; [|rewrite andb_false_r; reflexivity].
    destruct (Hrun eq_refl) as [_ Hb]. rewrite (Hb eq_refl). apply orb_true_r.
  - apply IH.
    + intros p Hp. apply Hall. now right.
    + unfold merge, nonnone. destruct (state_eqb (lawp cur) SNone) eqn:En; cbn [negb].
      * rewrite orb_false_r. exact Hrun.
      * apply state_eqb_neq in En. rewrite orb_true_r.
        destruct (state_cmp (lawp cur) (lawp run)) eqn:Ecmp; cbn [fst snd].
        -- rewrite condless_app. intros Hc. apply andb_true_iff in Hc. destruct Hc as [Hc1 Hc2].
           destruct (Hrun Hc1) as [Hn1 _]. pose proof (Hall cur (or_introl eq_refl) Hc2) as Hn2.
           destruct (nn_combine acc _ _ Hn1 Hn2) as [Hn Hb]. split; [exact Hn|]. intros _.
           rewrite Hb, (condless_active cur Hc2 En). apply orb_true_r.
        -- intros Hc. destruct (Hrun Hc) as [Hn Hb]. split; [exact Hn|]. intros _.
           destruct started; [now apply Hb|]. rewrite Hs0 in Ecmp by reflexivity. destruct (lawp cur); discriminate.
        -- intros Hc. pose proof (Hall cur (or_introl eq_refl) Hc) as Hn2.
           destruct (nn_convert (vdim (snd run)) _ Hn2) as [Hn Hb]. split; [exact Hn|]. intros _.
           rewrite Hb. apply (condless_active cur Hc En).
    + intros Hst. apply orb_false_iff in Hst. destruct Hst as [-> Hst]. unfold nonnone in Hst. apply negb_false_iff in Hst.
      unfold merge. rewrite Hst. auto.
Qed.

(* ---- the static conditions ---- *)
Definition is_ei (k : ckind) : bool := match k with KExplicit | KImplicit => true | _ => false end.
Definition bool_input (i : input) : bool := match i with IKey _ _ | IMouseButton _ _ | IPadButton _ => true | _ => false end.
Definition is_probe (x : modif) : bool := match x with MScript [] => true | _ => false end.
(* an input is safe to merge if it has an explicit or implicit condition of its own, or reads a button-like
   input through identity probes only *)
Definition safe_ib (ib : ibind) : bool :=
  existsb (fun x => is_ei (snd x)) (ck_of (ib_conds ib)) ||
  (bool_input (ib_input ib) && forallb (fun x => is_probe (snd x)) (ib_mods ib)).
Definition safe_ab (b : abind) : bool := (length (ab_inputs b) <=? 1)%nat || forallb safe_ib (ab_inputs b).

Lemma condless_ck look tm v cs : condless (cond_results look tm v cs) = negb (existsb (fun x => is_ei (snd x)) (ck_of cs)).
Proof.
  unfold condless. rewrite <- negb_orb. f_equal.
  induction cs as [|[id c] r IH]; [reflexivity|]. cbn [cond_results ck_of map existsb fst snd]. fold (cond_results look tm v r). fold (ck_of r).
  rewrite <- IH. unfold is_expl, is_impl. cbn [fst]. destruct (cond_kind c) as [| |[|]]; cbn [is_ei orb]; try reflexivity.
  destruct (existsb _ _); reflexivity.
Qed.

Lemma reader_bool r c dev i : bool_input i = true -> exists b, reader_value r c dev i = VB b.
Proof.
  destruct i; try discriminate; intros _; cbn [reader_value]; unfold bval; try (eexists; reflexivity).
  destruct (memdz dev b (c_pbuttons c)); [eexists; reflexivity|]. destruct dev; eexists; reflexivity.
Qed.

Lemma probes_id look tm ms : forallb (fun x => is_probe (snd x)) ms = true -> forall v, fold_mods look tm v ms = v.
Proof.
  induction ms as [|[id x] r IH]; intros H v; [reflexivity|]. cbn [forallb snd] in H. apply andb_true_iff in H. destruct H as [Hx Hr].
  destruct x; try discriminate. destruct outs; try discriminate.
  unfold fold_mods. cbn [fold_left modif_apply snd]. apply (IH Hr).
Qed.

Lemma nn_vzero d : nn (vzero d).
Proof. destruct d; unfold nn; cbn [vzero as3 b2q]; repeat split; try reflexivity; apply Qle_refl. Qed.

Lemma safe_own_nn m tm r c dev ib :
  safe_ib ib = true -> condless (fst (own_pair m tm r c dev ib)) = true -> nn (snd (own_pair m tm r c dev ib)).
Proof.
  unfold own_pair, safe_ib. cbn [fst snd]. rewrite condless_ck.
  destruct (existsb _ (ck_of (ib_conds ib))); cbn [orb negb]; [discriminate|]. intros H _.
  apply andb_true_iff in H. destruct H as [Hi Hp]. rewrite (probes_id _ _ _ Hp).
  destruct (reader_bool r c dev _ Hi) as (b & ->). unfold nn. cbn [as3]. split; [apply b2q_nonneg|split; reflexivity].
Qed.

Lemma filter_len {A} (f : A -> bool) l : (length (filter f l) <= length l)%nat.
Proof. induction l as [|x l IH]; cbn [filter length]; [lia|]. destruct (f x); cbn [length]; lia. Qed.

Lemma safe_regular m tm r c dev b :
  safe_ab b = true -> regular (aid_accum (ab_id b)) (aid_dim (ab_id b)) (own_pairs m tm r c dev (ab_inputs b)) = true.
Proof.
  unfold safe_ab. intros H. apply orb_true_iff in H. destruct H as [H|H].
  - apply regular_single. apply Nat.leb_le in H. unfold active_inputs, own_pairs, evaluated.
    pose proof (filter_len (fun p => nonnone (lawp p)) (map (own_pair m tm r c dev) (filter (fun b0 => negb (skipped r c dev b0)) (ab_inputs b)))) as H1.
    rewrite map_length in H1. pose proof (filter_len (fun b0 => negb (skipped r c dev b0)) (ab_inputs b)). lia.
  - apply regular_from_nn.
    + intros p Hp. unfold own_pairs in Hp. apply in_map_iff in Hp. destruct Hp as (ib & <- & Hib).
      unfold evaluated in Hib. apply filter_In in Hib. destruct Hib as [Hib _].
      apply safe_own_nn. rewrite forallb_forall in H. apply H. exact Hib.
    + intros _. split; [apply nn_vzero|discriminate].
    + intros _. apply law_nil_zero.
Qed.

(* ================================================================================================ *)
(* 6. evaluation keeps the signature and the safety of a binding (R2, binding level)                *)
(* ================================================================================================ *)

Lemma cond_eval_kind look tm v c : cond_kind (fst (cond_eval look tm v c)) = cond_kind c.
Proof.
  destruct c; cbn [cond_eval]; cbv zeta; try reflexivity;
    repeat match goal with |- context [if ?b then _ else _] => destruct b end; reflexivity.
Qed.
Lemma apply_conds_ck m tm cs : forall t, ck_of (fst (fst (apply_conds m tm t cs))) = ck_of cs.
Proof.
  induction cs as [|[id c] rest IH]; intros t; cbn [apply_conds]; [reflexivity|].
  pose proof (cond_eval_kind (look_of m) tm (t_value t) c) as Hk.
  destruct (cond_eval (look_of m) tm (t_value t) c) as [c' s]. cbn [fst] in Hk.
  specialize (IH (apply_result t (cond_kind c) s)).
  destruct (apply_conds m tm (apply_result t (cond_kind c) s) rest) as [[rest' t'] lg]. cbn [fst] in *.
  unfold ck_of in *. cbn [map fst snd]. rewrite Hk, IH. reflexivity.
Qed.
Lemma apply_mods_ids' m tm v ms : ids_of (fst (fst (apply_mods m tm v ms))) = ids_of ms.
Proof. pose proof (apply_mods_ids m tm v ms) as H. destruct (apply_mods m tm v ms) as [[ms' v'] lg]. apply H. Qed.
Lemma apply_mods_probes m tm ms : forallb (fun x => is_probe (snd x)) ms = true -> forall v, fst (fst (apply_mods m tm v ms)) = ms.
Proof.
  induction ms as [|[id x] r IH]; intros H v; [reflexivity|]. cbn [forallb snd] in H. apply andb_true_iff in H. destruct H as [Hx Hr].
  destruct x; try discriminate. destruct outs; try discriminate.
  cbn [apply_mods modif_apply tl]. specialize (IH Hr v). destruct (apply_mods m tm v r) as [[r' v''] lg]. cbn [fst] in *. now rewrite IH.
Qed.

Lemma input_step_shape m tm r c dev a st ib :
  let ib' := snd (input_step m tm r c dev a st ib) in
  isig ib' = isig ib /\ (safe_ib ib = true -> safe_ib ib' = true).
Proof.
  cbv zeta. unfold input_step. destruct (ib_ignored ib && as_bool _); [split; auto|].
  pose proof (apply_mods_ids' m tm (reader_value r c dev (ib_input ib)) (ib_mods ib)) as Hi.
  pose proof (apply_mods_probes m tm (ib_mods ib)) as Hp. specialize (fun H => Hp H (reader_value r c dev (ib_input ib))).
  destruct (apply_mods m tm (reader_value r c dev (ib_input ib)) (ib_mods ib)) as [[ms' v'] lg1]. cbn [fst] in Hi, Hp.
  pose proof (apply_conds_ck m tm (ib_conds ib) (tracker_new v')) as Hc.
  destruct (apply_conds m tm (tracker_new v') (ib_conds ib)) as [[cs' cur] lg2]. cbn [fst] in Hc.
  assert (G : isig (mkIbind (ib_input ib) ms' cs' false) = isig ib /\ (safe_ib ib = true -> safe_ib (mkIbind (ib_input ib) ms' cs' false) = true)).
  { unfold isig, safe_ib. cbn [ib_mods ib_conds ib_input]. rewrite Hi, Hc. split; [reflexivity|].
    intros H. apply orb_true_iff in H. apply orb_true_iff. destruct H as [H|H]; [now left|right].
    apply andb_true_iff in H. destruct H as [H1 H2]. rewrite (Hp H2), H1, H2. reflexivity. }
  destruct (state_eqb (tracker_state cur) SNone); [exact G|].
  destruct (state_cmp (tracker_state cur) (tracker_state (l_tracker st))); exact G.
Qed.

Lemma input_loop_shape m tm r c dev a ibs : forall st,
  let ibs' := snd (input_loop m tm r c dev a st ibs) in
  map isig ibs' = map isig ibs /\ (forallb safe_ib ibs = true -> forallb safe_ib ibs' = true).
Proof.
  induction ibs as [|ib rest IH]; intros st; cbn [input_loop]; [split; auto|].
  pose proof (input_step_shape m tm r c dev a st ib) as Hs. cbv zeta in Hs.
  destruct (input_step m tm r c dev a st ib) as [st1 ib']. cbn [snd] in Hs. destruct Hs as [Hs1 Hs2].
  specialize (IH st1). cbv zeta in IH. destruct (input_loop m tm r c dev a st1 rest) as [st2 rest']. cbn [snd] in *.
  destruct IH as [IH1 IH2]. cbn [map forallb]. rewrite Hs1, IH1. split; [reflexivity|].
  intros H. apply andb_true_iff in H. destruct H as [H1 H2]. rewrite (Hs2 H1), (IH2 H2). reflexivity.
Qed.

Lemma action_update_shape m tm r c dev recips ab :
  let o := action_update m tm r c dev recips ab in
  sig (o_bind o) = sig ab /\ (safe_ab ab = true -> safe_ab (o_bind o) = true).
Proof.
  cbv zeta. unfold action_update.
  pose proof (input_loop_shape m tm r c dev (ab_id ab) (ab_inputs ab) (mkLoop (tracker_new (vzero (aid_dim (ab_id ab)))) [] [])) as Hl.
  cbv zeta in Hl. destruct (input_loop m tm r c dev (ab_id ab) _ (ab_inputs ab)) as [st inputs']. cbn [snd] in Hl. destruct Hl as [Hl1 Hl2].
  pose proof (apply_mods_ids' m tm (t_value (l_tracker st)) (ab_mods ab)) as Hi.
  destruct (apply_mods m tm (t_value (l_tracker st)) (ab_mods ab)) as [[ms' v1] lg1]. cbn [fst] in Hi.
  pose proof (apply_conds_ck m tm (ab_conds ab) (with_value (l_tracker st) v1)) as Hc.
  destruct (apply_conds m tm (with_value (l_tracker st) v1) (ab_conds ab)) as [[cs' tr] lg2]. cbn [fst] in Hc.
  cbn [o_bind]. unfold sig, safe_ab. cbn [ab_id ab_mods ab_conds ab_inputs]. rewrite Hi, Hc, Hl1. split; [reflexivity|].
  assert (Hlen : length inputs' = length (ab_inputs ab)) by (rewrite <- (map_length isig inputs'), Hl1; apply map_length).
  rewrite Hlen. intros H. apply orb_true_iff in H. apply orb_true_iff. destruct H as [H|H]; [now left|right; now apply Hl2].
Qed.

(* what the events of one evaluation look like *)
Lemma action_events_shape m tm r c dev e b :
  exists oe, o_events (action_update m tm r c dev [e] b) = Some oe /\
             Forall (fun x => e_target x = e /\ e_action x = ab_id b) oe.
Proof.
  destruct (action_update_result m tm r c dev [e] b) as (s & v & bl & _ & _ & _ & He).
  eexists. split; [exact He|]. destruct bl; [constructor|].
  apply Forall_forall. intros x Hx. apply in_flat_map in Hx. destruct Hx as (k & _ & Hx).
  apply in_map_iff in Hx. destruct Hx as (e' & <- & [<-|[]]).
  match goal with |- context [mk_event ?a ?d k e] => destruct (mk_event_payload a d k e) as (H1 & H2 & _) end.
  split; assumption.
Qed.

Lemma filter_true {A} (f : A -> bool) l : Forall (fun x => f x = true) l -> filter f l = l.
Proof. induction 1 as [|x l Hx _ IH]; cbn [filter]; [reflexivity|]. now rewrite Hx, IH. Qed.
Lemma filter_false {A} (f : A -> bool) l : Forall (fun x => f x = false) l -> filter f l = [].
Proof. induction 1 as [|x l Hx _ IH]; cbn [filter]; [reflexivity|]. now rewrite Hx, IH. Qed.

(* ---- one update of an instance: every binding is evaluated once, against a table in which its own entry is still the
   one from before the frame; its log is part of the frame's log, its events are those of the frame that carry its id ---- *)
Definition ev_is (e : entity) (a : aid) (x : event) : bool := Z.eqb (e_target x) e && Z.eqb (e_action x) a.

Lemma binds_update_spec e tm r dev bs : forall m c,
  NoDup (map ab_id bs) ->
  let '(bs', m', c', ev, lg) := binds_update m tm r c dev [e] bs in
  map sig bs' = map sig bs /\
  (forallb safe_ab bs = true -> forallb safe_ab bs' = true) /\
  map log_id lg = concat (map (action_ids r consumed_reset dev) bs) /\
  (forall a, ~ In a (map ab_id bs) -> lookup a m' = lookup a m) /\
  exists evs, ev = Some evs /\ Forall (fun x => In (e_action x) (map ab_id bs)) evs /\
    forall b, In b bs -> exists mb cb,
      let o := action_update mb tm r cb dev [e] b in
      incl (o_log o) lg /\ lookup (ab_id b) mb = lookup (ab_id b) m /\
      lookup (ab_id b) m' = lookup (ab_id b) (o_actions o) /\
      (forall oe, o_events o = Some oe -> filter (ev_is e (ab_id b)) evs = oe).
Proof.
  induction bs as [|b rest IH]; intros m c Hd.
  - cbn [binds_update map concat forallb]. repeat split; auto. exists []. repeat split; [constructor|intros b []].
  - cbn [map] in Hd. inversion Hd as [|? ? Hn Hd']; subst. cbn [binds_update].
    set (o := action_update m tm r c dev [e] b).
    specialize (IH (o_actions o) (o_consumed o) Hd').
    destruct (binds_update (o_actions o) tm r (o_consumed o) dev [e] rest) as [[[[rest' m'] c'] ev] lg].
    destruct IH as (I1 & I2 & I3 & I4 & evs & -> & I5 & I6).
    destruct (action_update_shape m tm r c dev [e] b) as [S1 S2]. fold o in S1, S2.
    destruct (action_events_shape m tm r c dev e b) as (oe & Hoe & Hsh). fold o in Hoe.
    destruct (action_update_result m tm r c dev [e] b) as (s0 & v0 & bl0 & _ & _ & Hother & _). fold o in Hother.
    split; [cbn [map]; now rewrite S1, I1|].
    split; [cbn [forallb]; intros H; apply andb_true_iff in H; destruct H as [H1 H2]; now rewrite (S2 H1), (I2 H2)|].
    split; [rewrite map_app, I3; cbn [map concat]; unfold o; rewrite action_update_ids; reflexivity|].
    split.
    { intros a Ha. cbn [map In] in Ha. rewrite I4 by tauto. apply Hother. intros E. apply Ha. left. now rewrite E. }
    rewrite Hoe. exists (oe ++ evs). split; [reflexivity|]. split.
    { apply Forall_app. split.
      - eapply Forall_impl; [|exact Hsh]. intros x [_ Hx]. left. now rewrite Hx.
      - eapply Forall_impl; [|exact I5]. intros x Hx. now right. }
    intros b0 [<-|Hb0].
    + exists m, c. fold o. split; [intros x Hx; apply in_or_app; now left|]. split; [reflexivity|].
      split; [apply I4; exact Hn|]. intros oe' Hoe'. rewrite Hoe in Hoe'. inversion Hoe'; subst oe'.
      rewrite filter_app, filter_true, filter_false, app_nil_r; [reflexivity| |].
      * eapply Forall_impl; [|exact I5]. intros x Hx. unfold ev_is.
        destruct (Z.eqb (e_action x) (ab_id b)) eqn:E; [|apply andb_false_r]. apply Z.eqb_eq in E. exfalso. apply Hn. rewrite <- E. exact Hx.
      * eapply Forall_impl; [|exact Hsh]. intros x [H1 H2]. unfold ev_is. now rewrite H1, H2, !Z.eqb_refl.
    + destruct (I6 b0 Hb0) as (mb & cb & J1 & J2 & J3 & J4). exists mb, cb.
      assert (Hne : ab_id b0 <> ab_id b).
      { intros E. apply Hn. rewrite <- E. apply in_map. exact Hb0. }
      split; [intros x Hx; apply in_or_app; right; now apply J1|].
      split; [rewrite J2; apply Hother; exact Hne|]. split; [exact J3|].
      intros oe' Hoe'. rewrite filter_app, filter_false, (J4 oe' Hoe'); [reflexivity|].
      eapply Forall_impl; [|exact Hsh]. intros x [_ H2]. unfold ev_is. rewrite H2.
      destruct (Z.eqb (ab_id b) (ab_id b0)) eqn:E; [apply Z.eqb_eq in E; congruence|apply andb_false_r].
Qed.

(* ================================================================================================ *)
(* 7. log ids are unique: what is in the frame's log, what is not                                   *)
(* ================================================================================================ *)

Definition ib_ids (ib : ibind) : list Z := ids_of (ib_mods ib) ++ ids_of (ib_conds ib).
Definition ab_ids (b : abind) : list Z := concat (map ib_ids (ab_inputs b)) ++ ids_of (ab_mods b) ++ ids_of (ab_conds b).
Definition all_ids (bs : list abind) : list Z := concat (map ab_ids bs).

Lemma ids_of_ck (cs : list (Z * cond)) : ids_of cs = map fst (ck_of cs).
Proof. unfold ids_of, ck_of. rewrite map_map. reflexivity. Qed.

Lemma map_via {A S B} (s : A -> S) (f : A -> B) : (forall x y, s x = s y -> f x = f y) ->
  forall l l', map s l = map s l' -> map f l = map f l'.
Proof.
  intros H. induction l as [|x l IH]; intros [|y l'] E; try discriminate; [reflexivity|].
  cbn [map] in *. inversion E as [[E1 E2]]. now rewrite (H x y E1), (IH l' E2).
Qed.
Lemma ib_ids_sig ib ib' : isig ib = isig ib' -> ib_ids ib = ib_ids ib'.
Proof. unfold isig. intros H. inversion H as [[H1 H2]]. unfold ib_ids. now rewrite !ids_of_ck, H1, H2. Qed.
Lemma ab_ids_sig b b' : sig b = sig b' -> ab_ids b = ab_ids b'.
Proof.
  unfold sig. intros H. inversion H as [[H1 H2 H3 H4]]. unfold ab_ids.
  now rewrite (map_via isig ib_ids ib_ids_sig _ _ H4), !ids_of_ck, H2, H3.
Qed.
Lemma all_ids_sig bs bs' : map sig bs = map sig bs' -> all_ids bs = all_ids bs'.
Proof. intros H. unfold all_ids. now rewrite (map_via sig ab_ids ab_ids_sig _ _ H). Qed.

(* l' is l with some elements left out *)
Definition thin {B} (l' l : list B) : Prop := incl l' l /\ (NoDup l -> NoDup l').
Lemma thin_refl {B} (l : list B) : thin l l. Proof. split; [apply incl_refl|auto]. Qed.
Lemma thin_nil {B} (l : list B) : thin [] l. Proof. split; [intros x []|intros _; constructor]. Qed.
Lemma thin_app {B} (a' a b' b : list B) : thin a' a -> thin b' b -> thin (a' ++ b') (a ++ b).
Proof.
  intros [Ia Na] [Ib Nb]. split; [apply incl_app_app; assumption|].
  intros H. apply nodup_app in H. destruct H as (Ha & Hb & Hab). apply nodup_app.
  repeat split; [auto|auto|]. intros x Hx Hx'. apply (Hab x); auto.
Qed.
Lemma thin_concat {A B} (f g : A -> list B) l : (forall x, thin (g x) (f x)) -> thin (concat (map g l)) (concat (map f l)).
Proof. intros H. induction l as [|x l IH]; cbn [map concat]; [apply thin_refl|]. apply thin_app; [apply H|exact IH]. Qed.

Lemma input_ids_thin sk ib : thin (input_ids sk ib) (ib_ids ib).
Proof. unfold input_ids, ib_ids. destruct sk; [apply thin_nil|apply thin_refl]. Qed.
Lemma action_ids_thin r c dev b : thin (action_ids r c dev b) (ab_ids b).
Proof.
  unfold action_ids, ab_ids. apply thin_app; [|apply thin_refl].
  apply (thin_concat ib_ids (fun ib => input_ids (skipped r c dev ib) ib)). intros ib. apply input_ids_thin.
Qed.
Lemma frame_ids_thin r c dev bs : thin (concat (map (action_ids r c dev) bs)) (all_ids bs).
Proof. apply thin_concat. intros b. apply action_ids_thin. Qed.

Lemma nodup_concat_in {A B} (f : A -> list B) l x : NoDup (concat (map f l)) -> In x l -> NoDup (f x).
Proof.
  intros Hd Hx. apply in_split in Hx. destruct Hx as (l1 & l2 & ->).
  rewrite map_app, concat_app in Hd. cbn [map concat] in Hd.
  apply nodup_app in Hd. destruct Hd as (_ & Hd & _). apply nodup_app in Hd. tauto.
Qed.
Lemma in_concat_map {A B} (f : A -> list B) l x y : In x l -> In y (f x) -> In y (concat (map f l)).
Proof. intros Hx Hy. apply in_concat. exists (f x). split; [now apply in_map|exact Hy]. Qed.

(* an id that belongs to block x and is left out of x's thinned block is in no thinned block *)
Lemma concat_unique {A B} (f g : A -> list B) l x id :
  NoDup (concat (map f l)) -> In x l -> In id (f x) -> (forall y, incl (g y) (f y)) -> ~ In id (g x) ->
  ~ In id (concat (map g l)).
Proof.
  intros Hd Hx Hid Hg Hn. apply in_split in Hx. destruct Hx as (l1 & l2 & ->).
  rewrite map_app, concat_app in *. cbn [map concat] in *.
  apply nodup_app in Hd. destruct Hd as (_ & Hd2 & Hd12). apply nodup_app in Hd2. destruct Hd2 as (_ & _ & Hd23).
  assert (Hi : forall l0, incl (concat (map g l0)) (concat (map f l0))).
  { intros l0 y Hy. apply in_concat in Hy. destruct Hy as (ys & Hys & Hy). apply in_map_iff in Hys. destruct Hys as (z & <- & Hz).
    apply (in_concat_map f l0 z y Hz). now apply Hg. }
  intros H. apply in_app_or in H. destruct H as [H|H].
  - apply (Hd12 id (Hi l1 id H)). apply in_or_app. now left.
  - apply in_app_or in H. destruct H as [H|H]; [tauto|]. apply (Hd23 id Hid). now apply Hi.
Qed.

Lemma skipped_ids_absent r c dev bs b ib id :
  NoDup (all_ids bs) -> In b bs -> In ib (ab_inputs b) -> skipped r c dev ib = true -> In id (ib_ids ib) ->
  ~ In id (concat (map (action_ids r c dev) bs)).
Proof.
  intros Hd Hb Hib Hs Hid.
  assert (Hidb : In id (concat (map ib_ids (ab_inputs b)))) by (apply (in_concat_map ib_ids _ ib id Hib Hid)).
  apply (concat_unique ab_ids (action_ids r c dev) bs b id Hd Hb).
  - unfold ab_ids. apply in_or_app. now left.
  - intros y. apply action_ids_thin.
  - pose proof (nodup_concat_in ab_ids bs b Hd Hb) as Hdb. unfold ab_ids in Hdb.
    apply nodup_app in Hdb. destruct Hdb as (Hdi & _ & Hdis).
    unfold action_ids. intros H. apply in_app_or in H. destruct H as [H|H]; [|exact (Hdis id Hidb H)].
    revert H. apply (concat_unique ib_ids (fun ib0 => input_ids (skipped r c dev ib0) ib0) (ab_inputs b) ib id Hdi Hib Hid).
    + intros y. apply input_ids_thin.
    + rewrite Hs. intros [].
Qed.

(* ---- static well-formedness read from the signature ---- *)
Definition mods_ok (b : abind) : bool :=
  match ab_mods b with [] => false | _ => true end &&
  forallb (fun ib => match ib_mods ib with [] => false | _ => true end) (ab_inputs b).

Lemma mods_ok_sig b b0 : sig b = sig b0 -> mods_ok b0 = true ->
  ab_mods b <> [] /\ forall ib, In ib (ab_inputs b) -> ib_mods ib <> [].
Proof.
  unfold sig, mods_ok. intros H Hok. inversion H as [[H1 H2 H3 H4]]. apply andb_true_iff in Hok. destruct Hok as [Ha Hi]. split.
  - intros E. rewrite E in H2. destruct (ab_mods b0); [discriminate Ha|discriminate H2].
  - intros ib Hib E. apply (in_map isig) in Hib. rewrite H4 in Hib. apply in_map_iff in Hib. destruct Hib as (ib0 & Hs & Hib0).
    rewrite forallb_forall in Hi. specialize (Hi ib0 Hib0). unfold isig in Hs. inversion Hs as [[Hs1 Hs2]].
    rewrite E in Hs1. destruct (ib_mods ib0); [discriminate Hi|discriminate Hs1].
Qed.

Lemma sig_find {bs bs0 : list abind} b0 : map sig bs = map sig bs0 -> In b0 bs0 -> exists b, In b bs /\ sig b = sig b0.
Proof.
  intros H Hb. apply (in_map sig) in Hb. rewrite <- H in Hb. apply in_map_iff in Hb. destruct Hb as (b & E & Hb). exists b. tauto.
Qed.

(* ================================================================================================ *)
(* 8. one update of the instance (R1 for every action of a frame; R2 at instance level)             *)
(* ================================================================================================ *)

Definition inst_inv (bs0 : list abind) (i : inst) : Prop :=
  map sig (in_binds i) = map sig bs0 /\ forallb safe_ab (in_binds i) = true.

Lemma inst_update_judged c e bs0 i tm r cs :
  inst_inv bs0 i -> NoDup (map ab_id bs0) -> NoDup (all_ids bs0) -> forallb mods_ok bs0 = true ->
  let io := inst_update tm r cs [e] i in
  inst_inv bs0 (io_inst io) /\
  exists evs, io_events io = Some evs /\
    forall out, x_log out = io_log io -> x_main out = evs ->
      (forall a, In a (map ab_id bs0) ->
                 snap_of_entry c e a (x_snaps out) = option_map snap_of (lookup a (in_actions (io_inst io)))) ->
      forall b0, In b0 bs0 -> forall k bb,
        In (k, bb) (judge_action c e b0 (option_map snap_of (lookup (ab_id b0) (in_actions i))) out) -> bb = true.
Proof.
  intros [Hsig Hsafe] Hda Hdi Hok. cbv zeta. unfold inst_update.
  assert (Hda' : NoDup (map ab_id (in_binds i))).
  { rewrite (map_via sig ab_id (fun x y (E : sig x = sig y) => f_equal (fun s => fst (fst (fst s))) E) _ _ Hsig). exact Hda. }
  pose proof (binds_update_spec e tm r (in_pad i) (in_binds i) (in_actions i) cs Hda') as H.
  destruct (binds_update (in_actions i) tm r cs (in_pad i) [e] (in_binds i)) as [[[[bs' m'] c'] ev] lg].
  destruct H as (I1 & I2 & I3 & I4 & evs & -> & I5 & I6). unfold inst_inv. cbn [io_inst io_events io_log in_binds in_actions].
  split; [split; [now rewrite I1|now apply I2]|].
  exists evs. split; [reflexivity|]. intros out Hlog Hmain Hsnaps b0 Hb0 k bb.
  destruct (sig_find b0 Hsig Hb0) as (b & Hb & Hsb).
  rewrite (judge_action_sig c e b0 b _ out (eq_sym Hsb)).
  assert (Hid : ab_id b0 = ab_id b) by (apply (f_equal (fun s => fst (fst (fst s)))) in Hsb; symmetry; exact Hsb).
  rewrite Hid. destruct (I6 b Hb) as (mb & cb & J1 & J2 & J3 & J4).
  destruct (mods_ok_sig b b0 Hsb (proj1 (forallb_forall _ _) Hok b0 Hb0)) as [Hm1 Hm2].
  assert (Hdi' : NoDup (all_ids (in_binds i))) by (rewrite (all_ids_sig _ _ Hsig); exact Hdi).
  apply (judge_action_model c e b _ out mb tm r cb (in_pad i)).
  - rewrite Hlog, I3. apply (frame_ids_thin r consumed_reset (in_pad i) (in_binds i)). exact Hdi'.
  - rewrite Hlog. exact J1.
  - intros ib Hib Hs id Hidm. rewrite Hlog, I3.
    apply (skipped_ids_absent r consumed_reset (in_pad i) (in_binds i) b ib id Hdi' Hb Hib Hs).
    unfold ib_ids. apply in_or_app. now left.
  - exact Hm1.
  - exact Hm2.
  - apply safe_regular. rewrite forallb_forall in Hsafe. now apply Hsafe.
  - rewrite Hsnaps by (rewrite <- Hid; now apply in_map). now rewrite J3.
  - now rewrite J2.
  - intros oe Hoe. rewrite Hmain. apply (J4 oe Hoe).
Qed.

(* ================================================================================================ *)
(* 9. the world of the profile: one group holding one instance                                      *)
(* ================================================================================================ *)

Lemma cat_ev_nil x : cat_ev x (Some []) = x.
Proof. destruct x as [l|]; cbn [cat_ev]; [now rewrite app_nil_r|reflexivity]. Qed.

Lemma reg_update_single tm r cs c e i :
  let io := inst_update tm r cs [e] i in
  reg_update tm r cs [new_group c e i] = mkRegOut [new_group c e (io_inst io)] (io_consumed io) (io_events io) (io_log io).
Proof.
  cbv zeta. unfold new_group. destruct (ctx_shared c); cbn [reg_update excl_update ro_reg ro_consumed ro_events ro_log];
    rewrite ?cat_ev_nil, ?app_nil_r; reflexivity.
Qed.

Lemma frame_single sc w f c e i evs :
  w_reg w = [new_group c e i] -> f_ops f = [] ->
  let io := inst_update (frame_time f) (f_raw f) (update_state (f_raw f)) [e] i in
  io_events io = Some evs ->
  frame sc w f = Some (mkFrameOut (mkWorld (w_holds w) [new_group c e (io_inst io)] (frame_time f)) evs [] (io_log io) []).
Proof.
  cbv zeta. intros Hreg Hops Hev. unfold frame. rewrite Hreg, reg_update_single.
  cbn [ro_events ro_reg ro_log]. rewrite Hev, Hops. reflexivity.
Qed.

Lemma reg_get_single c e i : reg_get c e [new_group c e i] = Some i.
Proof.
  unfold reg_get, new_group. destruct (ctx_shared c); cbn [index_of g_ctx]; rewrite Z.eqb_refl; cbn [nth_error].
  - cbn [existsb]. rewrite Z.eqb_refl. reflexivity.
  - cbn [find fst]. rewrite Z.eqb_refl. reflexivity.
Qed.

(* ---- the snapshot the judgement finds for an action of the instance ---- *)
Lemma find_sn c e a (G : Z -> option snap) aids : In a aids ->
  find (fun x => match x with sn c' e' a' _ => Z.eqb c c' && Z.eqb e e' && Z.eqb a a' end) (map (fun a' => sn c e a' (G a')) aids) =
  Some (sn c e a (G a)).
Proof.
  induction aids as [|a' r IH]; intros Hin; [destruct Hin|]. cbn [map find]. rewrite !Z.eqb_refl. cbn [andb].
  destruct (Z.eqb a a') eqn:E.
  - apply Z.eqb_eq in E. now subst.
  - apply IH. destruct Hin as [->|Hin]; [rewrite Z.eqb_refl in E; discriminate|exact Hin].
Qed.

Lemma in_fold_occ x l : forall acc,
  In x (fold_left (fun acc y => if memz y acc then acc else acc ++ [y]) l acc) -> In x acc \/ In x l.
Proof.
  induction l as [|y l IH]; intros acc H; cbn [fold_left] in H; [now left|].
  apply IH in H. destruct H as [H|H]; [|right; now right].
  destruct (memz y acc); [now left|]. apply in_app_or in H. destruct H as [H|[->|[]]]; [now left|right; now left].
Qed.
Lemma nodup_fold_occ l : forall acc, NoDup acc -> NoDup (fold_left (fun acc y => if memz y acc then acc else acc ++ [y]) l acc).
Proof.
  induction l as [|y l IH]; intros acc H; cbn [fold_left]; [exact H|]. apply IH.
  destruct (memz y acc) eqn:E; [exact H|]. apply nodup_app. repeat split; [exact H|repeat constructor; intros []|].
  intros x Hx [->|[]]. apply memz_in in Hx. congruence.
Qed.
Lemma in_dedup x l : In x l -> In x (dedup l).
Proof.
  induction l as [|y l IH]; intros H; [destruct H|]. cbn [dedup]. destruct (memz y l) eqn:E.
  - destruct H as [->|H]; [apply IH; now apply memz_in|now apply IH].
  - destruct H as [->|H]; [now left|right; now apply IH].
Qed.
Lemma merged_ids_nodup spec : NoDup (map ab_id (merged_actions spec)).
Proof. unfold merged_actions. rewrite instantiate_order. apply nodup_fold_occ. constructor. Qed.
Lemma merged_ids_spec spec a : In a (map ab_id (merged_actions spec)) -> In a (spec_aids spec).
Proof.
  unfold merged_actions. rewrite instantiate_order. intros H. apply in_fold_occ in H. destruct H as [[]|H].
  unfold spec_aids. apply -> in_rev. apply in_dedup. apply -> in_rev. exact H.
Qed.

Lemma snaps_single sc c e spec rest w i a :
  s_cfg sc = (c, e, spec) :: rest -> memz c (s_menu sc) = true -> memz e (s_ents sc) = true ->
  w_reg w = [new_group c e i] -> In a (map ab_id (merged_actions spec)) ->
  snap_of_entry c e a (model_snaps sc w) = option_map snap_of (lookup a (in_actions i)).
Proof.
  intros Hcfg Hc He Hreg Ha.
  assert (Hlook : cfg_lookup sc c e = spec).
  { unfold cfg_lookup. rewrite Hcfg. cbn [find fst snd]. rewrite !Z.eqb_refl. reflexivity. }
  assert (Hhas : has_cfg sc c e = true).
  { unfold has_cfg. rewrite Hcfg. cbn [existsb fst snd]. rewrite !Z.eqb_refl. reflexivity. }
  unfold snap_of_entry, model_snaps.
  set (p := fun x => match x with sn c' e' a' _ => Z.eqb c c' && Z.eqb e e' && Z.eqb a a' end).
  set (G := fun c' e' a' => match reg_get c' e' (w_reg w) with
                            | Some i0 => option_map snap_of (lookup a' (in_actions i0)) | None => None end).
  rewrite (find_flat_map p _ (fun c' => Z.eqb c c') (s_menu sc) (sn c e a (G c e a))).
  - unfold G. rewrite Hreg, reg_get_single. reflexivity.
  - intros c' y Hy Hpy. apply in_flat_map in Hy. destruct Hy as (e' & _ & Hy).
    destruct (has_cfg sc c' e'); [|destruct Hy]. apply in_map_iff in Hy. destruct Hy as (a' & <- & _).
    cbn [p] in Hpy. apply andb_true_iff in Hpy. destruct Hpy as [Hpy _]. apply andb_true_iff in Hpy. tauto.
  - intros c' Hc'. apply Z.eqb_eq in Hc'. subst c'.
    apply (find_flat_map p _ (fun e' => Z.eqb e e') (s_ents sc)).
    + intros e' y Hy Hpy. destruct (has_cfg sc c e'); [|destruct Hy]. apply in_map_iff in Hy. destruct Hy as (a' & <- & _).
      cbn [p] in Hpy. apply andb_true_iff in Hpy. destruct Hpy as [Hpy _]. apply andb_true_iff in Hpy. tauto.
    + intros e' He'. apply Z.eqb_eq in He'. subst e'. rewrite Hhas, Hlook.
      apply (find_sn c e a (G c e)). apply merged_ids_spec. exact Ha.
    + exists e. split; [now apply memz_in|apply Z.eqb_refl].
  - exists c. split; [now apply memz_in|apply Z.eqb_refl].
Qed.

Lemma spawn_single sc c e : memz c (s_menu sc) = true ->
  exists oo, apply_op sc world_init (OSpawn e [c]) = Some oo /\ w_reg (oo_world oo) = [new_group c e (mk_inst sc c e)].
Proof.
  intros Hc. cbn [apply_op world_init w_holds holds_of]. eexists. split; [reflexivity|].
  cbn [fold_left oo_world]. unfold insert_ctx. cbn [w_holds app holds_of]. rewrite Z.eqb_refl.
  rewrite Hc. change (memz c []) with false. cbn [negb orb w_reg index_of oo_world].
  unfold reg_add. cbn [index_of bsearch insert_at]. reflexivity.
Qed.

(* ================================================================================================ *)
(* 10. the profile, R3: induction over the steps, the main theorem                                  *)
(* ================================================================================================ *)

Fixpoint nodupb (l : list Z) : bool := match l with [] => true | x :: r => negb (memz x r) && nodupb r end.
Lemma nodupb_spec l : nodupb l = true -> NoDup l.
Proof.
  induction l as [|x r IH]; intros H; [constructor|]. cbn [nodupb] in H. apply andb_true_iff in H. destruct H as [H1 H2].
  constructor; [|now apply IH]. intros Hin. apply memz_in in Hin. rewrite Hin in H1. discriminate.
Qed.

Definition quiet_frame (s : step) : bool :=
  match s with SFrame f => match f_ops f with [] => true | _ => false end | SOp _ => false end.

(* The scenarios of gen/C03.py: the first configuration entry (c, e, spec) names a registered context type and a declared
   entity; the steps are "spawn e with c", then frames that issue no commands; in the merged bindings of spec
   - all log ids (conditions and modifiers, both levels) are pairwise distinct,
   - every modifier chain is non-empty (the generator ends each with the identity probe),
   - every action has at most one input, or each of its inputs either has an explicit / implicit condition of its own
     or reads a key / mouse button / gamepad button through identity probes only (no value can cancel another).
   Conditions may be of any type (not only scripted), actions may consume, any dimension and accumulation. *)
Definition profile_C03b (sc : scenario) : bool :=
  match s_cfg sc, s_steps sc with
  | (c, e, spec) :: _, SOp (OSpawn e' [c']) :: rest =>
      let bs := merged_actions spec in
      Z.eqb c' c && Z.eqb e' e && memz c (s_menu sc) && memz e (s_ents sc) &&
      forallb quiet_frame rest &&
      nodupb (all_ids bs) && forallb mods_ok bs && forallb safe_ab bs
  | _, _ => false
  end.
Definition profile_C03 (sc : scenario) : Prop := profile_C03b sc = true.

Lemma combine_map {A B} (g : A -> B) l : combine l (map g l) = map (fun x => (x, g x)) l.
Proof. induction l as [|x l IH]; cbn [map combine]; [reflexivity|]. now rewrite IH. Qed.

Lemma judge_steps_frame sc c e bs prev f steps o outs :
  judge_steps sc c e bs prev (SFrame f :: steps) (o :: outs) =
  concat (map (fun bp => judge_action c e (fst bp) (snd bp) o) (combine bs prev)) ++
  judge_steps sc c e bs (map (fun b => snap_of_entry c e (ab_id b) (x_snaps o)) bs) steps outs.
Proof. reflexivity. Qed.
Lemma judge_steps_op sc c e bs prev op steps o outs :
  judge_steps sc c e bs prev (SOp op :: steps) (o :: outs) =
  judge_steps sc c e bs (map (fun b => snap_of_entry c e (ab_id b) (x_snaps o)) bs) steps outs.
Proof. reflexivity. Qed.

Lemma inst_update_judged' c e bs0 i tm r cs io :
  io = inst_update tm r cs [e] i ->
  inst_inv bs0 i -> NoDup (map ab_id bs0) -> NoDup (all_ids bs0) -> forallb mods_ok bs0 = true ->
  inst_inv bs0 (io_inst io) /\
  exists evs, io_events io = Some evs /\
    forall out, x_log out = io_log io -> x_main out = evs ->
      (forall a, In a (map ab_id bs0) ->
                 snap_of_entry c e a (x_snaps out) = option_map snap_of (lookup a (in_actions (io_inst io)))) ->
      forall b0, In b0 bs0 -> forall k bb,
        In (k, bb) (judge_action c e b0 (option_map snap_of (lookup (ab_id b0) (in_actions i))) out) -> bb = true.
Proof. intros ->. apply inst_update_judged. Qed.
Lemma frame_single' sc w f c e i evs io :
  io = inst_update (frame_time f) (f_raw f) (update_state (f_raw f)) [e] i ->
  w_reg w = [new_group c e i] -> f_ops f = [] -> io_events io = Some evs ->
  frame sc w f = Some (mkFrameOut (mkWorld (w_holds w) [new_group c e (io_inst io)] (frame_time f)) evs [] (io_log io) []).
Proof. intros ->. apply frame_single. Qed.

Lemma x_snaps_mk a b c d s m bu p u pa : x_snaps (mkOut a b c d s m bu p u pa) = s.
Proof. reflexivity. Qed.

Section Frames.
  Variables (sc : scenario) (c e : Z) (spec : inst_spec) (rest_cfg : list (ctx * entity * inst_spec)).
  Hypothesis Hcfg : s_cfg sc = (c, e, spec) :: rest_cfg.
  Hypothesis Hmenu : memz c (s_menu sc) = true.
  Hypothesis Hents : memz e (s_ents sc) = true.
  Let bs0 := merged_actions spec.
  Hypothesis Hids : NoDup (all_ids bs0).
  Hypothesis Hmods : forallb mods_ok bs0 = true.

  Definition prev_of (i : inst) : list (option snap) := map (fun b => option_map snap_of (lookup (ab_id b) (in_actions i))) bs0.

  Lemma snaps_prev w i : w_reg w = [new_group c e i] ->
    map (fun b => snap_of_entry c e (ab_id b) (model_snaps sc w)) bs0 = prev_of i.
  Proof.
    intros Hreg. unfold prev_of. apply map_ext_in. intros b Hb.
    apply (snaps_single sc c e spec rest_cfg w i (ab_id b) Hcfg Hmenu Hents Hreg). now apply in_map.
  Qed.

  (* R3: all frames after the spawn *)
  Lemma frames_judged : forall steps w i,
    forallb quiet_frame steps = true -> w_reg w = [new_group c e i] -> inst_inv bs0 i ->
    existsb x_panicked (run_steps sc w steps) = false /\
    forall k bb, In (k, bb) (judge_steps sc c e bs0 (prev_of i) steps (run_steps sc w steps)) -> bb = true.
  Proof.
    induction steps as [|s steps IH]; intros w i Hq Hreg Hinv.
    - cbn [run_steps judge_steps existsb]. split; [reflexivity|intros k bb []].
    - cbn [forallb] in Hq. apply andb_true_iff in Hq. destruct Hq as [Hs Hq].
      destruct s as [o|f]; [discriminate Hs|]. cbn [quiet_frame] in Hs.
      assert (Hops : f_ops f = []) by (destruct (f_ops f); [reflexivity|discriminate Hs]).
      assert (Hio : exists io, io = inst_update (frame_time f) (f_raw f) (update_state (f_raw f)) [e] i) by (eexists; reflexivity).
      destruct Hio as (io & Eio).
      pose proof (inst_update_judged' c e bs0 i (frame_time f) (f_raw f) (update_state (f_raw f)) io Eio Hinv
                    (merged_ids_nodup spec) Hids Hmods) as HJ.
      destruct HJ as (Hinv' & evs & Hev & HJ).
      cbn [run_steps]. rewrite (frame_single' sc w f c e i evs io Eio Hreg Hops Hev).
      cbn [fo_world fo_main fo_post fo_log fo_built].
      set (w' := mkWorld (w_holds w) [new_group c e (io_inst io)] (frame_time f)).
      assert (Hreg' : w_reg w' = [new_group c e (io_inst io)]) by reflexivity.
      specialize (IH w' (io_inst io) Hq Hreg' Hinv'). destruct IH as [IHp IHj].
      split; [exact IHp|].
      rewrite judge_steps_frame, x_snaps_mk. rewrite (snaps_prev w' (io_inst io) Hreg').
      intros k bb Hin. apply in_app_or in Hin. destruct Hin as [Hin|Hin]; [|now apply (IHj k bb)].
      apply in_concat in Hin. destruct Hin as (l & Hl & Hin). apply in_map_iff in Hl. destruct Hl as ([b0 pv] & <- & Hbp).
      unfold prev_of in Hbp. rewrite combine_map in Hbp. apply in_map_iff in Hbp. destruct Hbp as (b1 & E & Hb1).
      inversion E; subst b0 pv. cbn [fst snd] in Hin.
      revert Hin. apply HJ; [reflexivity|reflexivity| |exact Hb1].
      intros a Ha. rewrite x_snaps_mk. apply (snaps_single sc c e spec rest_cfg w' (io_inst io) a Hcfg Hmenu Hents Hreg' Ha).
  Qed.
End Frames.

Theorem C03_judgement_sound : forall sc, profile_C03 sc -> C03c.ok (sc, trace (run sc)) = 0%Z.
Proof.
  intros sc Hp. unfold profile_C03, profile_C03b in Hp. unfold ok, run.
  destruct (s_cfg sc) as [|[[c e] spec] rest_cfg] eqn:Hcfg; [discriminate|].
  destruct (s_steps sc) as [|[[e' cs| | | |]|] steps] eqn:Hsteps; try discriminate.
  destruct cs as [|c' [|]]; try discriminate. cbv zeta in Hp.
  repeat (apply andb_true_iff in Hp; let H := fresh "P" in destruct Hp as [Hp H]).
  apply Z.eqb_eq in Hp. apply Z.eqb_eq in P5. subst c' e'.
  destruct (spawn_single sc c e P4) as (oo & Hop & Hreg).
  cbn [run_steps].
  match goal with |- context [apply_op ?a ?b ?o] => replace (apply_op a b o) with (Some oo) by (symmetry; exact Hop) end.
  assert (Hi0 : mk_inst sc c e = instantiate spec).
  { unfold mk_inst, cfg_lookup. rewrite Hcfg. cbn [find fst snd]. rewrite !Z.eqb_refl. reflexivity. }
  rewrite Hi0 in Hreg.
  assert (Hinv : inst_inv (merged_actions spec) (instantiate spec)) by (split; [reflexivity|exact P]).
  destruct (frames_judged sc c e spec rest_cfg Hcfg P4 P3 (nodupb_spec _ P1) P0 steps (oo_world oo) (instantiate spec) P2 Hreg Hinv) as [Hpan Hj].
  apply first_fail_zero. intros k bb [Hin|Hin].
  - inversion Hin; subst. cbn [existsb x_panicked orb]. now rewrite Hpan.
  - cbn [judge_steps x_snaps] in Hin.
    rewrite (snaps_prev sc c e spec rest_cfg Hcfg P4 P3 (oo_world oo) (instantiate spec) Hreg) in Hin.
    exact (Hj k bb Hin).
Qed.

(* ================================================================================================ *)
(* 11. the profile is satisfiable; every hypothesis is needed                                       *)
(* ================================================================================================ *)

Definition fr_ops (keys : list Z) (pads : list pad) (ops : list op) : step :=
  SFrame (mkFrame (1 # 64) 1 false 0 (mkRaw keys [] (0%Q, 0%Q) (0%Q, 0%Q) pads []) ops).
Definition fr (keys : list Z) : step := fr_ops keys [] [].
Definition one_ctx (menu ents : list Z) (acts : list action_spec) (steps : list step) : scenario :=
  mkScenario menu ents [((0, 0), mkSpec None acts)] steps.

(* two inputs (one with an implicit condition, one with a blocker only), an explicit condition and an events-only blocker at
   action level, five frames: the action is Fired twice, Ongoing in between, and the delivery is suppressed once *)
Definition sc_example : scenario := one_ctx [0] [0]
  [mkAction 0 [(1, m_script [])]
     [(2, c_script KExplicit [SNone; SFired; SOngoing; SFired; SNone]); (3, c_script (KBlocker true) [SFired; SFired; SNone; SFired; SFired])]
     [mkBind (IKey 0 0) [(4, m_script [])] [(5, c_script KImplicit [SNone; SFired; SFired; SOngoing; SFired])];
      mkBind (IKey 1 0) [(6, m_script [])] [(7, c_script (KBlocker false) [SFired; SFired; SNone; SFired; SFired])]]]
  [SOp (OSpawn 0 [0]); fr []; fr [0; 1]; fr [0]; fr [1]; fr []].

Example C03_profile_satisfiable :
  profile_C03 sc_example /\ ok (sc_example, trace (run sc_example)) = 0 /\
  map (fun o => map (fun s => match s with sn _ _ _ (Some d) => Some (sn_state d) | _ => None end) (x_snaps o)) (run sc_example) =
    [[Some SNone]; [Some SNone]; [Some SFired]; [Some SOngoing]; [Some SFired]; [Some SOngoing]] /\
  map (fun o => length (x_main o)) (run sc_example) = [0; 0; 2; 0; 1; 1]%nat.
Proof. vm_compute. repeat split. Qed.

(* the components of the profile that speak about the bindings *)
Definition binds_of (sc : scenario) : list abind := match s_cfg sc with (_, _, spec) :: _ => merged_actions spec | [] => [] end.

(* (a) safe_ab: two condition-less inputs whose values cancel (a key and a negated key); a third, Ongoing, input then overwrites
   the collapsed running tracker: the model (as the crate) reports Ongoing, the judgement expects the law of the two Fired
   inputs.  This is the corner documented in Props/C04.v; the generator avoids it by reading keys through probes only. *)
Definition sc_cancel : scenario := one_ctx [0] [0]
  [mkAction 0 [(1, m_script [])] []
     [mkBind (IKey 0 0) [(2, m_script [])] [];
      mkBind (IKey 1 0) [(3, m_negate true true true); (4, m_script [])] [];
      mkBind (IKey 2 0) [(5, m_script [])] [(6, c_script KExplicit [SNone; SOngoing])]]]
  [SOp (OSpawn 0 [0]); fr []; fr [0; 1; 2]].
Example C03_judgement_sound_needs_safe :
  nodupb (all_ids (binds_of sc_cancel)) = true /\ forallb mods_ok (binds_of sc_cancel) = true /\
  forallb safe_ab (binds_of sc_cancel) = false /\ ok (sc_cancel, trace (run sc_cancel)) = 1.
Proof. vm_compute. repeat split. Qed.
(* the same with probes only, on inputs that are not button-like (two gamepad axes at 1/2 and -1/2) *)
Definition sc_axes : scenario := one_ctx [0] [0]
  [mkAction 16 [(1, m_script [])] []
     [mkBind (IPadAxis 0) [(2, m_script [])] [];
      mkBind (IPadAxis 1) [(3, m_script [])] [];
      mkBind (IKey 2 0) [(5, m_script [])] [(6, c_script KExplicit [SNone; SOngoing])]]]
  [SOp (OSpawn 0 [0]); fr []; fr_ops [2] [mkPad 0 [] [(0, 1 # 2); (1, - 1 # 2)]] []].
Example C03_judgement_sound_needs_button_inputs :
  nodupb (all_ids (binds_of sc_axes)) = true /\ forallb mods_ok (binds_of sc_axes) = true /\
  forallb safe_ab (binds_of sc_axes) = false /\ ok (sc_axes, trace (run sc_axes)) = 1.
Proof. vm_compute. repeat split. Qed.

(* (b) unique log ids: two conditions logging under the same id are read as one *)
Definition sc_dupid : scenario := one_ctx [0] [0]
  [mkAction 0 [(1, m_script [])] [(2, c_script KExplicit [SNone; SFired]); (2, c_script KImplicit [SNone; SNone])]
     [mkBind (IKey 0 0) [(3, m_script [])] []]]
  [SOp (OSpawn 0 [0]); fr []; fr [0]].
Example C03_judgement_sound_needs_unique_ids :
  nodupb (all_ids (binds_of sc_dupid)) = false /\ forallb mods_ok (binds_of sc_dupid) = true /\
  forallb safe_ab (binds_of sc_dupid) = true /\ ok (sc_dupid, trace (run sc_dupid)) = 1.
Proof. vm_compute. repeat split. Qed.

(* (c) a modifier in every chain: without one the judgement cannot read the value *)
Definition sc_noprobe : scenario := one_ctx [0] [0]
  [mkAction 0 [] [(2, c_script KExplicit [SNone; SFired])] [mkBind (IKey 0 0) [(3, m_script [])] []]]
  [SOp (OSpawn 0 [0]); fr []; fr [0]].
Example C03_judgement_sound_needs_probe :
  nodupb (all_ids (binds_of sc_noprobe)) = true /\ forallb mods_ok (binds_of sc_noprobe) = false /\
  forallb safe_ab (binds_of sc_noprobe) = true /\ ok (sc_noprobe, trace (run sc_noprobe)) = 9.
Proof. vm_compute. repeat split. Qed.

(* (d) the shape of the scenario: registered context type, declared entity, the spawn of (c, e) first, frames without commands *)
Definition act_ok : action_spec :=
  mkAction 0 [(1, m_script [])] [(2, c_script KExplicit [SNone; SFired])] [mkBind (IKey 0 0) [(3, m_script [])] []].
Example C03_judgement_sound_needs_world_shape :
  let good := one_ctx [0] [0] [act_ok] [SOp (OSpawn 0 [0]); fr []; fr [0]] in
  let unregistered := one_ctx [] [0] [act_ok] [SOp (OSpawn 0 [0]); fr []; fr [0]] in
  let undeclared := one_ctx [0] [] [act_ok] [SOp (OSpawn 0 [0]); fr []; fr [0]] in
  let commands := one_ctx [0] [0] [act_ok] [SOp (OSpawn 0 [0]); fr_ops [] [] [ODespawn 0]; fr [0]] in
  let no_spawn := one_ctx [0] [0] [act_ok] [fr []; fr [0]] in
  let other_entity := one_ctx [0] [0; 1] [act_ok] [SOp (OSpawn 1 [0]); fr []; fr [0]] in
  (profile_C03b good = true /\ ok (good, trace (run good)) = 0) /\
  (profile_C03b unregistered = false /\ ok (unregistered, trace (run unregistered)) = 9) /\
  (profile_C03b undeclared = false /\ ok (undeclared, trace (run undeclared)) = 9) /\
  (profile_C03b commands = false /\ ok (commands, trace (run commands)) = 9) /\
  (profile_C03b no_spawn = false /\ ok (no_spawn, trace (run no_spawn)) = 9) /\
  (profile_C03b other_entity = false /\ ok (other_entity, trace (run other_entity)) = 9).
Proof. vm_compute. repeat split. Qed.

(* ================================================================================================ *)
(* 12. (T) transfer: the judgement respects the equalities [agree_full] uses                        *)
(* ================================================================================================ *)

Lemma qnz_compat x y : (x == y)%Q -> qnz x = qnz y.
Proof.
  intros H. destruct (qnz y) eqn:E.
  - apply qnz_true_iff in E. apply qnz_true_iff. now rewrite H.
  - apply qnz_false_iff in E. apply qnz_false_iff. now rewrite H.
Qed.
Lemma as_bool_veqb v v' : veqb v v' = true -> as_bool v = as_bool v'.
Proof.
  intros H. apply veqb_veq in H. destruct v, v'; cbn [veq] in H; try contradiction; cbn [as_bool].
  - exact H.
  - now apply qnz_compat.
  - destruct H as [H1 H2]. now rewrite (qnz_compat _ _ H1), (qnz_compat _ _ H2).
  - destruct H as (H1 & H2 & H3). now rewrite (qnz_compat _ _ H1), (qnz_compat _ _ H2), (qnz_compat _ _ H3).
Qed.
Lemma law_veqb rs v v' : veqb v v' = true -> law rs v = law rs v'.
Proof. intros H. unfold law. now rewrite (as_bool_veqb v v' H). Qed.

Definition orel (a b : option value) : Prop :=
  match a, b with Some v, Some v' => veqb v v' = true | None, None => True | _, _ => False end.
Definition st_of (p : option snap) : option state := option_map sn_state p.

Lemma find_cond_rel id : forall lg lg', list_eqb logitem_eqb lg lg' = true ->
  match find_cond id lg, find_cond id lg' with
  | Some (_, s, _), Some (_, s', _) => s = s'
  | None, None => True
  | _, _ => False
  end.
Proof.
  induction lg as [|x lg IH]; intros [|y lg'] H; cbn [list_eqb] in H; try discriminate; [exact I|].
  apply andb_true_iff in H. destruct H as [Hxy H]. specialize (IH lg' H).
  destruct x as [i1 v1 r1 s1|i1 v1 o1 s1], y as [i2 v2 r2 s2|i2 v2 o2 s2]; cbn [logitem_eqb] in Hxy; try discriminate; cbn [find_cond].
  - repeat (apply andb_true_iff in Hxy; let H' := fresh "E" in destruct Hxy as [Hxy H']).
    apply Z.eqb_eq in Hxy. subst i2. destruct (Z.eqb i1 id); [now apply state_eqb_eq|exact IH].
  - exact IH.
Qed.
Lemma find_mod_rel id : forall lg lg', list_eqb logitem_eqb lg lg' = true ->
  orel (option_map (fun x => snd (fst x)) (find_mod id lg)) (option_map (fun x => snd (fst x)) (find_mod id lg')).
Proof.
  induction lg as [|x lg IH]; intros [|y lg'] H; cbn [list_eqb] in H; try discriminate; [exact I|].
  apply andb_true_iff in H. destruct H as [Hxy H]. specialize (IH lg' H).
  destruct x as [i1 v1 r1 s1|i1 v1 o1 s1], y as [i2 v2 r2 s2|i2 v2 o2 s2]; cbn [logitem_eqb] in Hxy; try discriminate; cbn [find_mod].
  - exact IH.
  - repeat (apply andb_true_iff in Hxy; let H' := fresh "E" in destruct Hxy as [Hxy H']).
    apply Z.eqb_eq in Hxy. subst i2. destruct (Z.eqb i1 id); [exact E0|exact IH].
Qed.

Lemma results_of_rel lg lg' : list_eqb logitem_eqb lg lg' = true -> forall cs, results_of cs lg = results_of cs lg'.
Proof.
  intros H. induction cs as [|[id c] r IH]; cbn [results_of]; [reflexivity|].
  pose proof (find_cond_rel id lg lg' H) as Hf. rewrite IH.
  destruct (find_cond id lg) as [[[v s] sn]|], (find_cond id lg') as [[[v' s'] sn']|]; try contradiction; [now subst|reflexivity].
Qed.
Lemma last_mod_out_rel lg lg' ms : list_eqb logitem_eqb lg lg' = true -> orel (last_mod_out ms lg) (last_mod_out ms lg').
Proof. intros H. unfold last_mod_out. destruct (rev ms) as [|[id x] r]; [exact I|]. apply find_mod_rel. exact H. Qed.

Lemma input_rows_rel b lg lg' : list_eqb logitem_eqb lg lg' = true -> input_rows b lg = input_rows b lg'.
Proof.
  intros H. unfold input_rows. induction (ab_inputs b) as [|ib r IH]; [reflexivity|]. cbn [flat_map]. rewrite IH.
  rewrite (results_of_rel lg lg' H). pose proof (last_mod_out_rel lg lg' (ib_mods ib) H) as Hm.
  destruct (results_of (ib_conds ib) lg') as [rs|]; [|reflexivity].
  destruct (last_mod_out (ib_mods ib) lg) as [v|], (last_mod_out (ib_mods ib) lg') as [v'|]; cbn [orel] in Hm; try contradiction; [|reflexivity].
  now rewrite (law_veqb rs v v' Hm).
Qed.

Lemma snap_of_entry_rel c e a : forall l l', list_eqb snap_entry_eqb l l' = true ->
  st_of (snap_of_entry c e a l) = st_of (snap_of_entry c e a l').
Proof.
  unfold snap_of_entry. induction l as [|x l IH]; intros [|y l'] H; cbn [list_eqb] in H; try discriminate; [reflexivity|].
  apply andb_true_iff in H. destruct H as [Hxy H]. specialize (IH l' H).
  destruct x as [c1 e1 a1 s1], y as [c2 e2 a2 s2]. cbn [snap_entry_eqb] in Hxy.
  repeat (apply andb_true_iff in Hxy; let H' := fresh "E" in destruct Hxy as [Hxy H']).
  apply Z.eqb_eq in Hxy. apply Z.eqb_eq in E1. apply Z.eqb_eq in E0. subst c2 e2 a2. cbn [find].
  destruct (Z.eqb c c1 && Z.eqb e e1 && Z.eqb a a1); [|exact IH].
  destruct s1 as [d1|], s2 as [d2|]; cbn [osnap_eqb] in E; try discriminate; [|reflexivity].
  unfold snap_eqb in E. repeat (apply andb_true_iff in E; let H' := fresh "F" in destruct E as [E H']).
  apply state_eqb_eq in E. cbn [st_of option_map]. now rewrite E.
Qed.

Lemma events_for_rel e a : forall l l', list_eqb event_eqb l l' = true -> length (events_for e a l) = length (events_for e a l').
Proof.
  unfold events_for. induction l as [|x l IH]; intros [|y l'] H; cbn [list_eqb] in H; try discriminate; [reflexivity|].
  apply andb_true_iff in H. destruct H as [Hxy H]. specialize (IH l' H). cbn [filter].
  unfold event_eqb in Hxy. repeat (apply andb_true_iff in Hxy; let H' := fresh "E" in destruct Hxy as [Hxy H']).
  apply Z.eqb_eq in Hxy. apply Z.eqb_eq in E4. rewrite Hxy, E4.
  destruct (Z.eqb (e_target y) e && Z.eqb (e_action y) a); cbn [length]; now rewrite IH.
Qed.

Lemma judge_action_rel c e b prev prev' o o' :
  list_eqb logitem_eqb (x_log o) (x_log o') = true ->
  list_eqb snap_entry_eqb (x_snaps o) (x_snaps o') = true ->
  list_eqb event_eqb (x_main o) (x_main o') = true ->
  st_of prev = st_of prev' ->
  judge_action c e b prev o = judge_action c e b prev' o'.
Proof.
  intros Hl Hs He Hp. unfold judge_action.
  rewrite (input_rows_rel b _ _ Hl), (results_of_rel _ _ Hl).
  pose proof (last_mod_out_rel _ _ (ab_mods b) Hl) as Hm.
  pose proof (snap_of_entry_rel c e (ab_id b) _ _ Hs) as Hsn.
  pose proof (events_for_rel e (ab_id b) _ _ He) as Hev.
  destruct (results_of (ab_conds b) (x_log o')) as [ars|]; [|reflexivity].
  destruct (last_mod_out (ab_mods b) (x_log o)) as [v|], (last_mod_out (ab_mods b) (x_log o')) as [v'|]; cbn [orel] in Hm; try contradiction; [|reflexivity].
  destruct (snap_of_entry c e (ab_id b) (x_snaps o)) as [d|], (snap_of_entry c e (ab_id b) (x_snaps o')) as [d'|]; cbn [st_of option_map] in Hsn; try discriminate; [|reflexivity].
  inversion Hsn as [Hd]. rewrite Hd, (law_veqb _ v v' Hm), Hev.
  assert (Hps : (match prev with Some p => sn_state p | None => SNone end) = (match prev' with Some p => sn_state p | None => SNone end)).
  { destruct prev, prev'; cbn [st_of option_map] in Hp; try discriminate; [now inversion Hp|reflexivity]. }
  rewrite Hps.
  destruct (events_for e (ab_id b) (x_main o)), (events_for e (ab_id b) (x_main o')); cbn [length] in Hev; try discriminate; reflexivity.
Qed.

Lemma judge_frame_rel c e o o' : forall bs prev prev',
  list_eqb logitem_eqb (x_log o) (x_log o') = true ->
  list_eqb snap_entry_eqb (x_snaps o) (x_snaps o') = true ->
  list_eqb event_eqb (x_main o) (x_main o') = true ->
  map st_of prev = map st_of prev' ->
  map (fun bp => judge_action c e (fst bp) (snd bp) o) (combine bs prev) =
  map (fun bp => judge_action c e (fst bp) (snd bp) o') (combine bs prev').
Proof.
  induction bs as [|b bs IH]; intros prev prev' Hl Hs He Hp; [reflexivity|].
  destruct prev as [|p prev], prev' as [|p' prev']; cbn [map] in Hp; try discriminate; [reflexivity|].
  inversion Hp as [[Hp1 Hp2]]. cbn [combine map fst snd].
  now rewrite (judge_action_rel c e b p p' o o' Hl Hs He Hp1), (IH prev prev' Hl Hs He Hp2).
Qed.

Lemma out_diff_fields key fr a b : out_diff_k key fr a b = 0 ->
  (fr = true -> list_eqb event_eqb (x_main a) (x_main b) = true) /\
  list_eqb logitem_eqb (x_log a) (x_log b) = true /\
  list_eqb snap_entry_eqb (x_snaps a) (x_snaps b) = true /\
  x_panicked a = x_panicked b.
Proof.
  unfold out_diff_k. intros H.
  match type of H with first_fail ?l = 0 => assert (Hk : forall k b0, In (k, b0) l -> k <> 0) end.
  { intros k b0 Hin. cbn [In] in Hin. repeat (destruct Hin as [Hin|Hin]; [inversion Hin; discriminate|]). destruct Hin. }
  pose proof (first_fail_zero_inv _ Hk H) as Hall. clear H Hk.
  repeat split.
  - intros ->. apply (Hall 2). cbn [In]. tauto.
  - apply (Hall 4). cbn [In]. tauto.
  - apply (Hall 5). cbn [In]. tauto.
  - apply eqb_prop. apply (Hall 10). cbn [In]. tauto.
Qed.

Lemma out_diff_range key fr a b : 0 <= out_diff_k key fr a b <= 10.
Proof.
  unfold out_diff_k. cbn [first_fail]. repeat match goal with |- context [if ?b then _ else _] => destruct b end; lia.
Qed.

(* agreement step by step: same length, every pair of outputs agrees *)
Lemma outs_diff_cons key i steps x r y s : 0 <= i -> outs_diff key i steps (x :: r) (y :: s) = 0 ->
  out_diff_k key (match steps with st :: _ => is_frame st | [] => false end) x y = 0 /\ outs_diff key (i + 1) (tl steps) r s = 0.
Proof.
  intros Hi H. cbn [outs_diff] in H. pose proof (out_diff_range key (match steps with st :: _ => is_frame st | [] => false end) x y) as Hr.
  destruct (Z.eqb _ 0) eqn:E; [apply Z.eqb_eq in E; tauto|]. apply Z.eqb_neq in E. lia.
Qed.
Lemma outs_diff_nil_l key i steps b : 0 <= i -> outs_diff key i steps [] b = 0 -> b = [].
Proof. intros Hi H. destruct b; [reflexivity|]. cbn [outs_diff] in H. lia. Qed.
Lemma outs_diff_nil_r key i steps a : 0 <= i -> outs_diff key i steps a [] = 0 -> a = [].
Proof. intros Hi H. destruct a; [reflexivity|]. cbn [outs_diff] in H. lia. Qed.

Lemma outs_diff_panicked key : forall a steps b i, 0 <= i -> outs_diff key i steps a b = 0 ->
  existsb x_panicked a = existsb x_panicked b.
Proof.
  induction a as [|x r IH]; intros steps b i Hi H.
  - now rewrite (outs_diff_nil_l key i steps b Hi H).
  - destruct b as [|y s]; [discriminate (outs_diff_nil_r key i steps _ Hi H)|].
    destruct (outs_diff_cons key i steps x r y s Hi H) as [E H'].
    destruct (out_diff_fields _ _ _ _ E) as (_ & _ & _ & Hpan). cbn [existsb]. rewrite Hpan. f_equal.
    apply (IH (tl steps) s (i + 1)); [lia|exact H'].
Qed.

Lemma judge_steps_rel sc c e bs key : forall steps a b prev prev' i,
  0 <= i -> outs_diff key i steps a b = 0 -> map st_of prev = map st_of prev' ->
  judge_steps sc c e bs prev steps a = judge_steps sc c e bs prev' steps b.
Proof.
  induction steps as [|st steps IH]; intros a b prev prev' i Hi H Hp.
  - destruct a as [|x r].
    + now rewrite (outs_diff_nil_l key i [] b Hi H).
    + destruct b as [|y s]; [discriminate (outs_diff_nil_r key i [] _ Hi H)|]. reflexivity.
  - destruct a as [|x r].
    + rewrite (outs_diff_nil_l key i _ b Hi H). destruct st; reflexivity.
    + destruct b as [|y s]; [discriminate (outs_diff_nil_r key i _ _ Hi H)|].
      destruct (outs_diff_cons key i (st :: steps) x r y s Hi H) as [E H']. cbn [tl] in H'.
      destruct (out_diff_fields _ _ _ _ E) as (Hmain & Hlog & Hsnap & _).
      assert (Hp' : map st_of (map (fun b0 => snap_of_entry c e (ab_id b0) (x_snaps x)) bs) =
                    map st_of (map (fun b0 => snap_of_entry c e (ab_id b0) (x_snaps y)) bs)).
      { rewrite !map_map. apply map_ext. intros b0. apply snap_of_entry_rel. exact Hsnap. }
      assert (Hi' : 0 <= i + 1) by lia.
      pose proof (IH r s _ _ (i + 1) Hi' H' Hp') as IH1.
      destruct st as [op|f]; cbn [judge_steps]; [exact IH1|].
      rewrite IH1, (judge_frame_rel c e x y bs prev prev' Hlog Hsnap (Hmain eq_refl) Hp). reflexivity.
Qed.

(* whatever the judgement says about the model's run, it says about every trace that agrees with it *)
Theorem C03_judgement_respects_agree : forall sc t, agree_full (sc, t) = true -> C03c.ok (sc, t) = C03c.ok (sc, trace (run sc)).
Proof.
  intros sc t H. unfold agree_full in H. cbn [fst snd] in H. apply Z.eqb_eq in H.
  destruct t as [outs|]; [|discriminate H]. cbn [trace_diff] in H. unfold ok.
  destruct (s_cfg sc) as [|[[c e] spec] rest]; [reflexivity|].
  pose proof (judge_steps_rel sc c e (merged_actions spec) (ctx_key sc) (s_steps sc) (run sc) outs
              (map (fun _ => None) (merged_actions spec)) (map (fun _ => None) (merged_actions spec)) 0 (Z.le_refl 0) H eq_refl) as H1.
  pose proof (outs_diff_panicked (ctx_key sc) (run sc) (s_steps sc) outs 0 (Z.le_refl 0) H) as H2.
  now rewrite H1, H2.
Qed.

(* (T) *)
Theorem C03_judgement_transfer : forall sc t, profile_C03 sc -> agree_full (sc, t) = true -> C03c.ok (sc, t) = 0%Z.
Proof. intros sc t Hp Ha. rewrite (C03_judgement_respects_agree sc t Ha). apply C03_judgement_sound. exact Hp. Qed.

(* (T) on a trace that agrees with the model's run without being equal to it: a key scaled to 1/2 on a 1-dimensional action,
   the logged values of the other trace written as unreduced fractions *)
Definition sc_scaled : scenario := one_ctx [0] [0]
  [mkAction 16 [(1, m_scale (1 # 2) 1 1); (2, m_script [])] [(3, c_script (KBlocker true) [SFired; SFired; SNone; SFired])]
     [mkBind (IKey 0 0) [(4, m_script [])] []]]
  [SOp (OSpawn 0 [0]); fr []; fr [0]; fr [0]; fr []].
Definition unreduce_q (x : Q) : Q := Qmake (2 * Qnum x) (2 * Qden x).
Definition unreduce_v (v : value) : value :=
  match v with VB b => VB b | V1 x => V1 (unreduce_q x) | V2 x y => V2 (unreduce_q x) (unreduce_q y)
             | V3 x y z => V3 (unreduce_q x) (unreduce_q y) (unreduce_q z) end.
Definition unreduce_log (x : logitem) : logitem :=
  match x with LCond i v r s => LCond i (unreduce_v v) r s | LMod i v o s => LMod i (unreduce_v v) (unreduce_v o) s end.
Definition unreduce_out (o : out) : out :=
  mkOut (x_pre o) (x_main o) (x_post o) (map unreduce_log (x_log o)) (x_snaps o) (x_mirror o) (x_built o)
        (x_probe o) (x_update o) (x_panicked o).
Example C03_transfer_satisfiable :
  let t := trace (map unreduce_out (run sc_scaled)) in
  profile_C03 sc_scaled /\ agree_full (sc_scaled, t) = true /\ t <> trace (run sc_scaled) /\ ok (sc_scaled, t) = 0 /\
  map (fun o => map (fun s => match s with sn _ _ _ (Some d) => Some (sn_state d) | _ => None end) (x_snaps o)) (run sc_scaled) =
    [[Some SNone]; [Some SNone]; [Some SFired]; [Some SFired]; [Some SNone]].
Proof. vm_compute. repeat split. discriminate. Qed.

Print Assumptions C03_judgement_sound.
Print Assumptions C03_judgement_respects_agree.
Print Assumptions C03_judgement_transfer.
