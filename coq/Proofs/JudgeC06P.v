(* Soundness (S) and transfer (T) of the executable judgement Check/C06c.v on the model's own runs.

   Plan.  Under the profile every binding reads one key (no modifier keys, no binding-level modifiers or conditions),
   every action consumes and carries at most Hold conditions that cannot complete within the scenario.  Then one
   registry update is simulated by an abstract evaluation [aeval] over the flat list of the actions of all instances
   in evaluation order: an action is active iff one of its effective keys (down, not suppressed) is not consumed yet;
   an active action consumes its effective keys.
     clause 2  (order of events)         : the registry is sorted and action ids belong to one context type;
     clause 1  (the higher type wins)    : a statement about [aeval] on a list without suppressed bindings;
     clause 3  (arrivals change nothing) : [aeval] ignores actions without effective keys, and arriving instances
                                           have none while their keys stay down.
   Ladder: R1 = clause2_frame, clause1_frame, clause3_frame (one frame from ANY world satisfying [Winv]);
           R2 = Winv_init, op_step, frame_step (the invariant), apply_op_holds (who holds what is a function of the operations);
           R3 = steps_sound, C06_app_judgement_sound; transfer = C06_judgement_respects_agree, C06_app_judgement_transfer.
   The profile is the boolean [profile_C06b] (section 13); section 15 shows it satisfiable and each conjunct needed. *)
From Coq Require Import ZArith QArith List Bool Lia Lqa Sorted Permutation.
From BEI Require Import Model.Frame Spec.ReadSpec Proofs.ActionP Proofs.ReaderP Proofs.StateP Proofs.ValueP Proofs.InstanceP
  Proofs.RegistryP Proofs.TrackOpP Proofs.SuppressLiftP Check.App Check.C06c.
From BEI Require Proofs.JudgeC12P Proofs.JudgeC03P.
From BEI Require Import Proofs.JudgeC07P.
Import ListNotations.
Open Scope Z_scope.

(* ================================================================================================ *)
(* 1. one action of the profile                                                                     *)
(* ================================================================================================ *)
Definition ikey (i : input) : Z := match i with IKey k _ => k | _ => 0 end.
Definition simple_ib (b : ibind) : Prop := ib_input b = IKey (ikey (ib_input b)) 0 /\ ib_mods b = [] /\ ib_conds b = [].

(* a Hold that has not completed and cannot complete before the accumulated time exceeds [lim] *)
Definition ghold (B lim : Q) (c : cond) : Prop :=
  match c with
  | CHold ht os act t f =>
      os = false /\ f = false /\ t_rel t = false /\ (0 < act * act)%Q /\ (act * act <= 1)%Q /\ (t_dur t <= B)%Q /\ (lim < ht)%Q
  | _ => False
  end.
Definition simple_ab (B lim : Q) (ab : abind) : Prop :=
  ab_mods ab = [] /\ Forall (fun ic => ghold B lim (snd ic)) (ab_conds ab) /\ Forall simple_ib (ab_inputs ab) /\
  aid_consume (ab_id ab) = true.

(* the abstract action: tag (context, entity, action), "has conditions", (key, suppressed) per binding *)
Record aact := mkA { aa_tag : Z * Z * Z; aa_hc : bool; aa_ins : list (Z * bool) }.
Definition has_conds (ab : abind) : bool := match ab_conds ab with [] => false | _ => true end.
Definition abs_ab (c e : Z) (ab : abind) : aact :=
  mkA (c, e, ab_id ab) (has_conds ab) (map (fun b => (ikey (ib_input b), ib_ignored b)) (ab_inputs ab)).
Definition eff (K : list Z) (x : aact) : list Z :=
  map fst (filter (fun kb => memz (fst kb) K && negb (snd kb)) (aa_ins x)).
Definition a_active (K C : list Z) (x : aact) : bool := existsb (fun k => negb (memz k C)) (eff K x).
Definition a_state (K C : list Z) (x : aact) : state :=
  if a_active K C x then (if aa_hc x then SOngoing else SFired) else SNone.
Definition a_cons (K C : list Z) (x : aact) : list Z := if a_active K C x then eff K x ++ C else C.
Definition a_upd (K : list Z) (x : aact) : aact :=
  mkA (aa_tag x) (aa_hc x) (map (fun kb => (fst kb, snd kb && memz (fst kb) K)) (aa_ins x)).
Definition ceq (c : consumed) (C : list Z) : Prop := forall k, In k (c_keys c) <-> In k C.

Lemma memz_ceq c C k : ceq c C -> memz k (c_keys c) = memz k C.
Proof. intros H. apply eq_true_iff_eq. rewrite !memz_in. apply H. Qed.

(* ---- reading a key ---- *)
Lemma read_key r c dev k : reader_value r c dev (IKey k 0) = VB (memz k (r_keys r) && negb (memz k (c_keys c))).
Proof.
  cbn [reader_value]. unfold bval. rewrite mod_keys_pressed_nomods by apply Z.land_0_r.
  rewrite no_mask_ignores_modifiers, andb_true_r. reflexivity.
Qed.
Lemma read_key_raw r dev k : as_bool (reader_value r consumed_reset dev (IKey k 0)) = memz k (r_keys r).
Proof. rewrite read_key. cbn. rewrite andb_true_r. reflexivity. Qed.

(* ---- the accumulated value: at least 1 on X, nothing on Y and Z ---- *)
Definition big (v : value) : Prop := let '(x, y, z) := as3 v in (1 <= x /\ y == 0 /\ z == 0)%Q.

Lemma big_as_bool v : big v -> as_bool v = true.
Proof.
  destruct v as [b|x|x y|x y z]; cbn [big as3 as_bool]; intros (H & _).
  - destruct b; [reflexivity | cbn in H; lra].
  - apply qnz_true_iff. intros E. rewrite E in H. lra.
  - apply orb_true_iff. left. apply qnz_true_iff. intros E. rewrite E in H. lra.
  - apply orb_true_iff. left. apply orb_true_iff. left. apply qnz_true_iff. intros E. rewrite E in H. lra.
Qed.
Lemma big_actuated v act : big v -> (act * act <= 1)%Q -> is_actuated v act = true.
Proof.
  unfold big, is_actuated, qleb. destruct (as3 v) as [[x y] z]. intros (H1 & H2 & H3) Ha.
  apply Qle_bool_iff. cbn [v3len2]. rewrite H2, H3. nra.
Qed.
Lemma zero_not_actuated d act : (0 < act * act)%Q -> is_actuated (vzero d) act = false.
Proof.
  intros Ha. unfold is_actuated, qleb. destruct (Qle_bool _ _) eqn:E; [|reflexivity]. apply Qle_bool_iff in E.
  destruct d; cbn in E; lra.
Qed.
Lemma big_convert d v : big v -> big (convert d v).
Proof.
  intros H. pose proof (big_as_bool v H) as Hb. unfold big in *. destruct (as3 v) as [[x y] z] eqn:E. destruct H as (H1 & H2 & H3).
  destruct d; cbn [convert].
  - rewrite Hb. cbn. repeat split; lra.
  - assert (as1 v = x) by (destruct v; cbn in *; congruence). cbn. rewrite H. repeat split; lra.
  - assert (as2 v = (x, y)) by (destruct v; cbn in *; congruence). rewrite H. cbn. repeat split; lra.
  - rewrite E. cbn. repeat split; assumption.
Qed.
Lemma big_true : big (VB true).
Proof. cbn. repeat split; lra. Qed.
Lemma big_combine v acc : big v -> big (of3 (match acc with
                                             | MaxAbs => v3maxabs (as3 v) (as3 (VB true))
                                             | Cumulative => v3add (as3 v) (as3 (VB true)) end)).
Proof.
  unfold big. destruct (as3 v) as [[x y] z]. intros (H1 & H2 & H3). destruct acc; cbn [as3 b2q v3add v3maxabs of3].
  - rewrite !Qred_correct. repeat split; lra.
  - assert (P1 : qltb (qabs x) (qabs 1) = false).
    { unfold qltb. apply negb_false_iff. apply Qle_bool_iff. unfold qabs.
      destruct (Qle_bool 0 1) eqn:E1; [|discriminate]. destruct (Qle_bool 0 x) eqn:E2; [lra|].
      assert (Qle_bool 0 x = true) by (apply Qle_bool_iff; lra). congruence. }
    assert (P2 : forall t, qltb (qabs t) (qabs 0) = false).
    { intros t. unfold qltb. apply negb_false_iff. apply Qle_bool_iff. change (qabs 0) with 0%Q. apply qabs_nonneg. }
    rewrite P1, !P2. repeat split; assumption.
Qed.

(* ---- the loop over the bindings ---- *)
Definition plain (t : tracker) : Prop :=
  found_explicit t = false /\ any_explicit_fired t = false /\ found_active t = false /\ found_implicit t = false /\
  all_implicits_fired t = true /\ blocked t = false /\ events_blocked t = false.
Lemma plain_new v : plain (tracker_new v).
Proof. repeat split. Qed.
Lemma plain_state t : plain t -> tracker_state t = if as_bool (t_value t) then SFired else SNone.
Proof. intros (H1 & H2 & H3 & H4 & H5 & H6 & H7). unfold tracker_state. rewrite H1, H4, H6. reflexivity. Qed.

Definition livefn (K : list Z) (c : consumed) (b : ibind) : bool :=
  negb (ib_ignored b) && memz (ikey (ib_input b)) K && negb (memz (ikey (ib_input b)) (c_keys c)).
Definition loop_ok (d : dim) (n : bool) (st : loop_state) : Prop :=
  plain (l_tracker st) /\ vdim (t_value (l_tracker st)) = d /\
  (if n then big (t_value (l_tracker st)) else t_value (l_tracker st) = vzero d /\ l_buffer st = []).

Lemma input_step_simple m tm r c dev a st b n :
  simple_ib b -> aid_consume a = true -> loop_ok (aid_dim a) n st ->
  let res := input_step m tm r c dev a st b in
  loop_ok (aid_dim a) (n || livefn (r_keys r) c b) (fst res) /\
  l_buffer (fst res) = l_buffer st ++ (if livefn (r_keys r) c b then [ib_input b] else []) /\
  l_log (fst res) = l_log st /\
  snd res = mkIbind (ib_input b) [] [] (ib_ignored b && memz (ikey (ib_input b)) (r_keys r)).
Proof.
  intros (Hi & Hm & Hc) Hcons (Hp & Hd & Hn). unfold input_step, livefn.
  set (k := ikey (ib_input b)) in *.
  assert (R1 : as_bool (reader_value r consumed_reset dev (ib_input b)) = memz k (r_keys r)) by (rewrite Hi; apply read_key_raw).
  assert (R2 : reader_value r c dev (ib_input b) = VB (memz k (r_keys r) && negb (memz k (c_keys c)))) by (rewrite Hi; apply read_key).
  rewrite R1, R2. clear R1 R2 Hi. destruct (ib_ignored b) eqn:Eg; cbn [andb negb].
  - destruct (memz k (r_keys r)) eqn:Ek; cbn [andb].
    + cbn [fst snd]. rewrite orb_false_r, app_nil_r. split; [exact (conj Hp (conj Hd Hn))|]. split; [reflexivity|]. split; [reflexivity|].
      clear Ek. clear k. destruct b; cbn in *. subst. reflexivity.
    + rewrite Hm, Hc. cbn [apply_mods apply_conds]. rewrite app_nil_r.
      rewrite (plain_state _ (plain_new _)). cbn [tracker_new t_value as_bool state_eqb state_rank Nat.eqb fst snd l_tracker l_buffer l_log].
      rewrite orb_false_r, !app_nil_r. split; [exact (conj Hp (conj Hd Hn))|]. repeat split.
  - rewrite Hm, Hc. cbn [apply_mods apply_conds]. rewrite app_nil_r.
    rewrite (plain_state _ (plain_new _)). cbn [tracker_new t_value as_bool].
    destruct (memz k (r_keys r) && negb (memz k (c_keys c))) eqn:Ev.
    + cbn [state_eqb state_rank Nat.eqb]. rewrite (plain_state _ Hp). rewrite Hcons.
      destruct n.
      * rewrite (big_as_bool _ Hn). cbn [state_cmp state_rank Nat.compare fst snd l_tracker l_buffer l_log].
        unfold loop_ok. cbn [l_tracker l_buffer l_log].
        split; [|repeat split].
        split; [|split].
        -- unfold tr_combine. repeat split; cbn; destruct Hp as (H1 & H2 & H3 & H4 & H5 & H6 & H7); rewrite ?H1, ?H2, ?H3, ?H4, ?H5, ?H6, ?H7; reflexivity.
        -- unfold tr_combine. cbn [t_value]. rewrite convert_dim. exact Hd.
        -- cbn [orb]. unfold tr_combine. cbn [t_value tracker_new]. apply big_convert. apply big_combine. exact Hn.
      * destruct Hn as [Hz Hb]. rewrite Hz, as_bool_zero. cbn [state_cmp state_rank Nat.compare fst snd l_tracker l_buffer l_log].
        unfold loop_ok. cbn [l_tracker l_buffer l_log].
        rewrite Hb. split; [|repeat split].
        split; [|split].
        -- unfold tr_overwrite, with_value. repeat split.
        -- unfold tr_overwrite, with_value. cbn [t_value]. rewrite convert_dim. rewrite Hz. destruct (aid_dim a); reflexivity.
        -- cbn [orb]. unfold tr_overwrite, with_value. cbn [t_value tracker_new]. apply big_convert. apply big_true.
    + cbn [state_eqb state_rank Nat.eqb fst snd l_tracker l_buffer l_log]. rewrite orb_false_r, app_nil_r.
      split; [exact (conj Hp (conj Hd Hn))|]. repeat split.
Qed.

Lemma input_loop_simple m tm r c dev a bs : forall st n,
  Forall simple_ib bs -> aid_consume a = true -> loop_ok (aid_dim a) n st ->
  let res := input_loop m tm r c dev a st bs in
  loop_ok (aid_dim a) (n || existsb (livefn (r_keys r) c) bs) (fst res) /\
  l_buffer (fst res) = l_buffer st ++ map ib_input (filter (livefn (r_keys r) c) bs) /\
  l_log (fst res) = l_log st /\
  snd res = map (fun b => mkIbind (ib_input b) [] [] (ib_ignored b && memz (ikey (ib_input b)) (r_keys r))) bs.
Proof.
  induction bs as [|b bs IH]; intros st n Hs Hcons Hok; cbn [input_loop].
  - cbn [fst snd existsb filter map]. rewrite orb_false_r, app_nil_r. repeat split; try reflexivity; apply Hok.
  - inversion Hs as [|? ? Hb Hbs]; subst.
    pose proof (input_step_simple m tm r c dev a st b n Hb Hcons Hok) as (S1 & S2 & S3 & S4).
    destruct (input_step m tm r c dev a st b) as [st1 b']. cbn [fst snd] in *.
    pose proof (IH st1 _ Hbs Hcons S1) as (I1 & I2 & I3 & I4).
    destruct (input_loop m tm r c dev a st1 bs) as [st2 rest']. cbn [fst snd] in *.
    cbn [existsb filter map]. rewrite orb_assoc. split; [exact I1|]. split.
    + rewrite I2, S2. destruct (livefn (r_keys r) c b); cbn [map app]; rewrite <- app_assoc; reflexivity.
    + split; [congruence|]. rewrite S4, I4. reflexivity.
Qed.

(* ---- Hold conditions that cannot complete ---- *)
Definition tm_small (tm : time) : Prop := qeqb (speed tm) 0 = true \/ (vdelta tm / speed tm <= 1 # 4)%Q.
Lemma frame_time_small f : tm_small (frame_time f).
Proof.
  unfold tm_small, frame_time. cbn [speed vdelta]. destruct (qeqb (f_speed f) 0) eqn:E; [left; reflexivity | right].
  assert (Hs : ~ (f_speed f == 0)%Q) by (intros H; apply Qeq_bool_iff in H; unfold qeqb in E; congruence).
  destruct (f_paused f).
  - unfold Qdiv. rewrite Qmult_0_l. lra.
  - rewrite Qdiv_mult_l by exact Hs. unfold qmin, max_delta. destruct (Qle_bool (f_real f) (1 # 4)) eqn:E2; [apply Qle_bool_iff in E2; exact E2 | lra].
Qed.
Lemma timer_update_le tm t B : t_rel t = false -> tm_small tm -> (t_dur t <= B)%Q ->
  t_rel (timer_update tm t) = false /\ (t_dur (timer_update tm t) <= B + (1 # 4))%Q.
Proof.
  intros Hr Hs Hb. unfold timer_update. rewrite Hr. destruct (qeqb (speed tm) 0) eqn:E.
  - split; [exact Hr | lra].
  - cbn [t_rel t_dur]. split; [reflexivity|]. rewrite Qred_correct. destruct Hs as [Hs|Hs]; [congruence | lra].
Qed.

Definition midt (t : tracker) (fe fa : bool) : Prop :=
  found_explicit t = fe /\ any_explicit_fired t = false /\ found_active t = fa /\ found_implicit t = false /\
  all_implicits_fired t = true /\ blocked t = false /\ events_blocked t = false.
Definition nonempty {A} (l : list A) : bool := match l with [] => false | _ => true end.

Lemma apply_conds_holds m tm B lim u cs : forall t fe fa,
  tm_small tm -> (0 <= B)%Q -> (B + (1 # 4) <= lim)%Q ->
  Forall (fun ic => ghold B lim (snd ic)) cs ->
  (forall act, (0 < act * act)%Q -> (act * act <= 1)%Q -> is_actuated (t_value t) act = u) ->
  midt t fe fa ->
  Forall (fun ic => ghold (B + (1 # 4)) lim (snd ic)) (fst (fst (apply_conds m tm t cs))) /\
  nonempty (fst (fst (apply_conds m tm t cs))) = nonempty cs /\
  t_value (snd (fst (apply_conds m tm t cs))) = t_value t /\
  midt (snd (fst (apply_conds m tm t cs))) (fe || nonempty cs) (fa || (nonempty cs && u)).
Proof.
  induction cs as [|[id c] cs IH]; intros t fe fa Hs HB Hl Hg Hu Hm; cbn [apply_conds].
  - cbn [fst snd nonempty andb]. rewrite !orb_false_r. split; [constructor|]. repeat split; apply Hm.
  - inversion Hg as [|? ? Hc Hcs]; subst. cbn [snd] in Hc.
    destruct c as [| | |ht os act tmr f| | | | | |]; try (destruct Hc; fail).
    destruct Hc as (-> & -> & Hr & Ha1 & Ha2 & Hd & Hlim).
    cbn [cond_eval]. rewrite (Hu act Ha1 Ha2).
    set (t' := if u then timer_update tm tmr else timer_reset tmr).
    assert (Ht' : t_rel t' = false /\ (t_dur t' <= B + (1 # 4))%Q).
    { unfold t'. destruct u; [apply timer_update_le; assumption|]. cbn [timer_reset t_rel t_dur]. split; [exact Hr | lra]. }
    destruct Ht' as [Hr' Hd'].
    assert (Hf : qleb ht (t_dur t') = false).
    { unfold qleb. destruct (Qle_bool ht (t_dur t')) eqn:E; [|reflexivity]. apply Qle_bool_iff in E. lra. }
    rewrite Hf. cbn [negb orb cond_kind].
    set (s := if u then SOngoing else SNone).
    set (t1 := apply_result t KExplicit s).
    assert (Hm1 : midt t1 true (fa || u)).
    { destruct Hm as (H1 & H2 & H3 & H4 & H5 & H6 & H7). unfold t1, apply_result, midt. cbn.
      rewrite H2, H3, H4, H5, H6, H7. unfold s, is_s. destruct u; cbn; rewrite ?orb_false_r, ?orb_true_r; repeat split. }
    assert (Hu1 : forall act0, (0 < act0 * act0)%Q -> (act0 * act0 <= 1)%Q -> is_actuated (t_value t1) act0 = u).
    { intros a0 P1 P2. unfold t1. cbn [apply_result t_value]. apply Hu; assumption. }
    specialize (IH t1 true (fa || u) Hs HB Hl Hcs Hu1 Hm1).
    destruct (apply_conds m tm t1 cs) as [[r' t2] lg]. cbn [fst snd] in *. destruct IH as (I1 & I2 & I3 & I4).
    split; [constructor; [|exact I1]|].
    + cbn [snd ghold]. repeat split; try assumption.
    + split; [reflexivity|]. split; [rewrite I3; reflexivity|]. cbn [nonempty andb]. rewrite orb_true_r.
      destruct Hm as (H1 & _). cbn [orb] in I4. destruct I4 as (J1 & J2 & J3 & J4). split; [exact J1|]. split; [exact J2|]. split; [|exact J4].
      rewrite J3. destruct fa, u, (nonempty cs); reflexivity.
Qed.

(* ---- what the bindings consume ---- *)
Lemma fold_consume_keys dev bs : Forall simple_ib bs -> forall c k,
  In k (c_keys (fold_left (fun acc i => consume acc dev i) (map ib_input bs) c)) <->
  In k (map (fun b => ikey (ib_input b)) bs) \/ In k (c_keys c).
Proof.
  induction bs as [|b bs IH]; intros Hs c k; cbn [map fold_left In]; [tauto|].
  inversion Hs as [|? ? (Hi & _) Hbs]; subst. rewrite (IH Hbs). rewrite Hi. cbn [consume c_keys ikey In]. intuition.
Qed.
Lemma Forall_filter {A} (P : A -> Prop) f l : Forall P l -> Forall P (filter f l).
Proof. induction 1; cbn [filter]; [constructor|]. destruct (f x); [constructor; assumption | assumption]. Qed.

Lemma abs_active c C K bs : ceq c C ->
  existsb (livefn K c) bs =
  existsb (fun k => negb (memz k C)) (map fst (filter (fun kb => memz (fst kb) K && negb (snd kb)) (map (fun b => (ikey (ib_input b), ib_ignored b)) bs))).
Proof.
  intros Hc. induction bs as [|b bs IH]; [reflexivity|]. cbn [existsb map filter fst snd]. unfold livefn at 1.
  rewrite (memz_ceq c C _ Hc). destruct (memz (ikey (ib_input b)) K), (ib_ignored b); cbn [andb negb orb map existsb fst]; rewrite IH; reflexivity.
Qed.
Lemma abs_live_keys c C K bs k : ceq c C ->
  (In k (map (fun b => ikey (ib_input b)) (filter (livefn K c) bs)) \/ In k C <->
   In k (map fst (filter (fun kb => memz (fst kb) K && negb (snd kb)) (map (fun b => (ikey (ib_input b), ib_ignored b)) bs)) ++ C)).
Proof.
  intros Hc. rewrite in_app_iff. induction bs as [|b bs IH]; [cbn; tauto|]. cbn [map filter fst snd]. unfold livefn at 1.
  rewrite (memz_ceq c C _ Hc). destruct (memz (ikey (ib_input b)) K) eqn:E1, (ib_ignored b); cbn [andb negb map In fst]; try exact IH.
  destruct (memz (ikey (ib_input b)) C) eqn:E2; cbn [negb map In]; [apply memz_in in E2|]; intuition (subst; tauto).
Qed.

Lemma vdim_vzero d : vdim (vzero d) = d.
Proof. destruct d; reflexivity. Qed.

(* ---- one action ---- *)
Lemma action_update_simple m tm r c dev recips ab B lim C cx ex :
  simple_ab B lim ab -> tm_small tm -> (0 <= B)%Q -> (B + (1 # 4) <= lim)%Q -> ceq c C ->
  let o := action_update m tm r c dev recips ab in
  let x := abs_ab cx ex ab in
  (exists d, lookup (ab_id ab) (o_actions o) = Some d /\ d_state d = a_state (r_keys r) C x) /\
  (forall b, b <> ab_id ab -> lookup b (o_actions o) = lookup b m) /\
  ceq (o_consumed o) (a_cons (r_keys r) C x) /\
  simple_ab (B + (1 # 4)) lim (o_bind o) /\
  abs_ab cx ex (o_bind o) = a_upd (r_keys r) x /\
  (forall evs ev, o_events o = Some evs -> In ev evs -> e_action ev = ab_id ab).
Proof.
  intros (Hm & Hc & Hi & Hcons) Hs HB Hl Hceq. cbv zeta.
  assert (Hev : forall evs ev, o_events (action_update m tm r c dev recips ab) = Some evs -> In ev evs -> e_action ev = ab_id ab).
  { destruct (action_update_result m tm r c dev recips ab) as (s & v & bl & _ & _ & _ & He). intros evs ev E Hin. rewrite He in E.
    injection E as <-. destruct bl; [destruct Hin|]. apply in_flat_map in Hin. destruct Hin as (k & _ & Hin).
    apply in_map_iff in Hin. destruct Hin as (e & <- & _). apply mk_event_payload. }
  revert Hev. unfold action_update.
  pose proof (input_loop_simple m tm r c dev (ab_id ab) (ab_inputs ab) (mkLoop (tracker_new (vzero (aid_dim (ab_id ab)))) [] []) false
                Hi Hcons) as HL.
  specialize (HL (conj (plain_new _) (conj (vdim_vzero _) (conj eq_refl eq_refl)))).
  destruct (input_loop m tm r c dev (ab_id ab) _ (ab_inputs ab)) as [st inputs']. cbn [fst snd orb l_buffer l_log app] in HL.
  destruct HL as ((Hp & Hd & Hn) & Hbuf & _ & Hin').
  rewrite Hm. cbn [apply_mods].
  set (act := existsb (livefn (r_keys r) c) (ab_inputs ab)) in *.
  assert (Hu : forall a0, (0 < a0 * a0)%Q -> (a0 * a0 <= 1)%Q -> is_actuated (t_value (with_value (l_tracker st) (t_value (l_tracker st)))) a0 = act).
  { intros a0 P1 P2. cbn [with_value t_value]. destruct act; [apply big_actuated; assumption|]. destruct Hn as [-> _]. apply zero_not_actuated. exact P1. }
  assert (Hmid : midt (with_value (l_tracker st) (t_value (l_tracker st))) false false).
  { destruct Hp as (H1 & H2 & H3 & H4 & H5 & H6 & H7). unfold midt, with_value. cbn. repeat split; assumption. }
  pose proof (apply_conds_holds m tm B lim act (ab_conds ab) _ false false Hs HB Hl Hc Hu Hmid) as HC.
  destruct (apply_conds m tm (with_value (l_tracker st) (t_value (l_tracker st))) (ab_conds ab)) as [[cs' tr] lg2].
  cbn [fst snd orb with_value t_value] in HC. destruct HC as (C1 & C2 & C3 & C4).
  assert (Hst : tracker_state tr = a_state (r_keys r) C (abs_ab cx ex ab)).
  { unfold a_state, a_active, eff, abs_ab. cbn [aa_ins aa_hc]. rewrite <- (abs_active c C (r_keys r) (ab_inputs ab) Hceq). fold act.
    unfold has_conds. change (match ab_conds ab with [] => false | _ => true end) with (nonempty (ab_conds ab)).
    destruct C4 as (J1 & J2 & J3 & J4 & J5 & J6 & J7). unfold tracker_state. rewrite J1, J2, J3, J4, J5, J6, C3.
    destruct (nonempty (ab_conds ab)); cbn [negb andb orb].
    - destruct act; reflexivity.
    - destruct act; [rewrite (big_as_bool _ Hn); reflexivity | destruct Hn as [-> _]; rewrite as_bool_zero; reflexivity]. }
  cbn [o_actions o_consumed o_bind o_events]. intros Hev. split; [|split; [|split; [|split; [|split]]]].
  - eexists. split; [apply lookup_store_same|]. destruct (data_update_fields (vdelta tm)
      (match lookup (ab_id ab) m with Some d => d | None => data_new (aid_dim (ab_id ab)) end) (tracker_state tr)
      (convert (aid_dim (ab_id ab)) (t_value tr))) as (E & _). rewrite E. exact Hst.
  - intros b Hb. apply lookup_store_other. congruence.
  - rewrite Hcons, Hst. unfold a_cons, a_state, a_active, eff, abs_ab. cbn [aa_ins aa_hc andb].
    rewrite <- (abs_active c C (r_keys r) (ab_inputs ab) Hceq). fold act. destruct act.
    + assert (E : negb (state_eqb (if has_conds ab then SOngoing else SFired) SNone) = true) by (destruct (has_conds ab); reflexivity).
      rewrite E, Hbuf. intros k. rewrite fold_consume_keys by (apply Forall_filter; exact Hi).
      rewrite <- (abs_live_keys c C (r_keys r) (ab_inputs ab) k Hceq). rewrite (Hceq k). tauto.
    + cbn [state_eqb state_rank Nat.eqb negb]. exact Hceq.
  - split; [reflexivity|]. split; [exact C1|]. split; [|exact Hcons]. cbn [ab_inputs]. rewrite Hin'. apply Forall_forall. intros b Hb.
    apply in_map_iff in Hb. destruct Hb as (b0 & <- & Hb0). rewrite Forall_forall in Hi. destruct (Hi b0 Hb0) as (E & _).
    split; [exact E|]. split; reflexivity.
  - unfold abs_ab, a_upd, has_conds. cbn [ab_id ab_conds ab_inputs aa_tag aa_hc aa_ins]. f_equal.
    + change (nonempty cs' = nonempty (ab_conds ab)). exact C2.
    + rewrite Hin', !map_map. reflexivity.
  - exact Hev.
Qed.

(* ================================================================================================ *)
(* 2. the abstract evaluation of a frame, and its simulation by instances, groups, the registry     *)
(* ================================================================================================ *)
Fixpoint aev_c (K : list Z) (L : list aact) (C : list Z) : list Z :=
  match L with [] => C | x :: r => aev_c K r (a_cons K C x) end.
Fixpoint aev_r (K : list Z) (L : list aact) (C : list Z) : list (Z * Z * Z * state) :=
  match L with [] => [] | x :: r => (aa_tag x, a_state K C x) :: aev_r K r (a_cons K C x) end.
Lemma aev_c_app K l1 l2 C : aev_c K (l1 ++ l2) C = aev_c K l2 (aev_c K l1 C).
Proof. revert C. induction l1 as [|x l1 IH]; intros C; cbn [app aev_c]; [reflexivity | apply IH]. Qed.
Lemma aev_r_app K l1 l2 C : aev_r K (l1 ++ l2) C = aev_r K l1 C ++ aev_r K l2 (aev_c K l1 C).
Proof. revert C. induction l1 as [|x l1 IH]; intros C; cbn [app aev_c aev_r]; [reflexivity | rewrite IH; reflexivity]. Qed.

Definition st_of (m : actions) (a : aid) : state := match lookup a m with Some d => d_state d | None => SNone end.
Definition flat_inst (c e : Z) (i : inst) : list aact := map (abs_ab c e) (in_binds i).
Definition sts_inst (c e : Z) (i : inst) : list (Z * Z * Z * state) :=
  map (fun a => ((c, e, a), st_of (in_actions i) a)) (map ab_id (in_binds i)).
Definition simple_inst (B lim : Q) (i : inst) : Prop :=
  Forall (simple_ab B lim) (in_binds i) /\ NoDup (map ab_id (in_binds i)).

Definition ev_ids (ev : option (list event)) (ids : list Z) : Prop :=
  forall evs x, ev = Some evs -> In x evs -> In (e_action x) ids.

Lemma binds_update_simple tm r dev recips B lim cx ex bs : forall m c C,
  Forall (simple_ab B lim) bs -> NoDup (map ab_id bs) -> tm_small tm -> (0 <= B)%Q -> (B + (1 # 4) <= lim)%Q -> ceq c C ->
  let '(bs', m', c', ev, lg) := binds_update m tm r c dev recips bs in
  ceq c' (aev_c (r_keys r) (map (abs_ab cx ex) bs) C) /\
  Forall (simple_ab (B + (1 # 4)) lim) bs' /\
  map (abs_ab cx ex) bs' = map (a_upd (r_keys r)) (map (abs_ab cx ex) bs) /\
  map ab_id bs' = map ab_id bs /\
  map (fun a => ((cx, ex, a), st_of m' a)) (map ab_id bs) = aev_r (r_keys r) (map (abs_ab cx ex) bs) C /\
  (forall a, ~ In a (map ab_id bs) -> lookup a m' = lookup a m) /\
  ev_ids ev (map ab_id bs).
Proof.
  induction bs as [|b bs IH]; intros m c C Hs Hnd Htm HB Hl Hc; cbn [binds_update].
  - cbn [map aev_c aev_r]. split; [exact Hc|]. split; [constructor|]. repeat split. intros evs x [= <-] [].
  - cbv zeta. inversion Hs as [|? ? Hb Hbs]; subst. inversion Hnd as [|? ? Hnin Hnd']; subst.
    pose proof (action_update_simple m tm r c dev recips b B lim C cx ex Hb Htm HB Hl Hc) as (A1 & A2 & A3 & A4 & A5 & A6).
    set (o := action_update m tm r c dev recips b) in *.
    specialize (IH (o_actions o) (o_consumed o) (a_cons (r_keys r) C (abs_ab cx ex b)) Hbs Hnd' Htm HB Hl A3).
    destruct (binds_update (o_actions o) tm r (o_consumed o) dev recips bs) as [[[[bs' m'] c'] ev] lg].
    destruct IH as (I1 & I2 & I3 & I4 & I5 & I6 & I7). cbn [map aev_c aev_r].
    split; [exact I1|]. split; [constructor; assumption|]. split; [rewrite A5, I3; reflexivity|].
    split; [rewrite I4; f_equal; unfold o; apply action_update_id|]. split; [|split].
    + f_equal; [|exact I5]. f_equal. unfold st_of. rewrite (I6 _ Hnin). destruct A1 as (d & -> & Hd). exact Hd.
    + intros a Ha. rewrite I6 by (intros H; apply Ha; right; exact H). apply A2. intros ->. apply Ha. left. reflexivity.
    + intros evs x E Hx. destruct (o_events o) as [e1|] eqn:E1; [|discriminate]. destruct ev as [e2|]; [|discriminate].
      injection E as <-. apply in_app_or in Hx. destruct Hx as [Hx|Hx].
      * left. symmetry. apply (A6 e1 x eq_refl Hx).
      * right. apply (I7 e2 x eq_refl Hx).
Qed.

Lemma inst_update_simple tm r c recips B lim cx ex i C :
  simple_inst B lim i -> tm_small tm -> (0 <= B)%Q -> (B + (1 # 4) <= lim)%Q -> ceq c C ->
  let o := inst_update tm r c recips i in
  ceq (io_consumed o) (aev_c (r_keys r) (flat_inst cx ex i) C) /\
  simple_inst (B + (1 # 4)) lim (io_inst o) /\
  flat_inst cx ex (io_inst o) = map (a_upd (r_keys r)) (flat_inst cx ex i) /\
  sts_inst cx ex (io_inst o) = aev_r (r_keys r) (flat_inst cx ex i) C /\
  ev_ids (io_events o) (map ab_id (in_binds i)).
Proof.
  intros [Hs Hnd] Htm HB Hl Hc. unfold inst_update.
  pose proof (binds_update_simple tm r (in_pad i) recips B lim cx ex (in_binds i) (in_actions i) c C Hs Hnd Htm HB Hl Hc) as H.
  destruct (binds_update (in_actions i) tm r c (in_pad i) recips (in_binds i)) as [[[[bs' m'] c'] ev] lg].
  destruct H as (I1 & I2 & I3 & I4 & I5 & I6 & I7). cbn [io_consumed io_inst io_events].
  unfold flat_inst, sts_inst, simple_inst. cbn [in_binds in_actions]. rewrite I4.
  split; [exact I1|]. split; [split; assumption|]. split; [exact I3|]. split; [exact I5 | exact I7].
Qed.

(* groups and the registry *)
Definition flat_group (g : group) : list aact :=
  match g with
  | GExcl c _ insts => flat_map (fun ei => flat_inst c (fst ei) (snd ei)) insts
  | GShared c _ _ i => flat_inst c 0 i
  end.
Definition sts_group (g : group) : list (Z * Z * Z * state) :=
  match g with
  | GExcl c _ insts => flat_map (fun ei => sts_inst c (fst ei) (snd ei)) insts
  | GShared c _ _ i => sts_inst c 0 i
  end.
Definition flat_reg (r : registry) : list aact := flat_map flat_group r.
Definition sts_reg (r : registry) : list (Z * Z * Z * state) := flat_map sts_group r.
Definition gids (g : group) : list Z := flat_map (fun i => map ab_id (in_binds i)) (g_insts g).

Lemma excl_update_simple tm r B lim cx insts : forall c C,
  Forall (fun ei => simple_inst B lim (snd ei)) insts -> tm_small tm -> (0 <= B)%Q -> (B + (1 # 4) <= lim)%Q -> ceq c C ->
  let '(insts', c', ev, lg) := excl_update tm r c insts in
  let L := flat_map (fun ei => flat_inst cx (fst ei) (snd ei)) insts in
  ceq c' (aev_c (r_keys r) L C) /\
  Forall (fun ei => simple_inst (B + (1 # 4)) lim (snd ei)) insts' /\
  map fst insts' = map fst insts /\
  flat_map (fun ei => flat_inst cx (fst ei) (snd ei)) insts' = map (a_upd (r_keys r)) L /\
  flat_map (fun ei => sts_inst cx (fst ei) (snd ei)) insts' = aev_r (r_keys r) L C /\
  ev_ids ev (flat_map (fun i => map ab_id (in_binds i)) (map snd insts)).
Proof.
  induction insts as [|[e i] insts IH]; intros c C Hs Htm HB Hl Hc; cbn [excl_update].
  - cbn. split; [exact Hc|]. split; [constructor|]. repeat split. intros evs x [= <-] [].
  - cbv zeta. inversion Hs as [|? ? Hi His]; subst. cbn [snd] in Hi.
    pose proof (inst_update_simple tm r c [e] B lim cx e i C Hi Htm HB Hl Hc) as (A1 & A2 & A3 & A4 & A5).
    set (o := inst_update tm r c [e] i) in *.
    specialize (IH (io_consumed o) (aev_c (r_keys r) (flat_inst cx e i) C) His Htm HB Hl A1).
    destruct (excl_update tm r (io_consumed o) insts) as [[[rest' c'] ev] lg]. cbv zeta in IH.
    destruct IH as (I1 & I2 & I3 & I4 & I5 & I6). cbv zeta. cbn [flat_map map fst snd].
    rewrite aev_c_app, aev_r_app, map_app. split; [exact I1|]. split; [constructor; assumption|].
    split; [rewrite I3; reflexivity|]. split; [rewrite A3, I4; reflexivity|]. split; [rewrite A4, I5; reflexivity|].
    intros evs x E Hx. destruct (io_events o) as [e1|] eqn:E1; [|discriminate]. destruct ev as [e2|]; [|discriminate].
    injection E as <-. apply in_or_app. apply in_app_or in Hx. destruct Hx as [Hx|Hx].
    + left. apply (A5 e1 x eq_refl Hx).
    + right. apply (I6 e2 x eq_refl Hx).
Qed.

Definition gsimple (B lim : Q) (g : group) : Prop := Forall (simple_inst B lim) (g_insts g).

(* events of a registry update, group by group *)
Inductive ev_split : registry -> list event -> Prop :=
| es_nil : ev_split [] []
| es_cons g gs e1 e2 : (forall x, In x e1 -> In (e_action x) (gids g)) -> ev_split gs e2 -> ev_split (g :: gs) (e1 ++ e2).

Lemma reg_update_simple tm r B lim gs : forall c C,
  Forall (gsimple B lim) gs -> tm_small tm -> (0 <= B)%Q -> (B + (1 # 4) <= lim)%Q -> ceq c C ->
  let o := reg_update tm r c gs in
  ceq (ro_consumed o) (aev_c (r_keys r) (flat_reg gs) C) /\
  Forall (gsimple (B + (1 # 4)) lim) (ro_reg o) /\
  flat_reg (ro_reg o) = map (a_upd (r_keys r)) (flat_reg gs) /\
  sts_reg (ro_reg o) = aev_r (r_keys r) (flat_reg gs) C /\
  (forall evs, ro_events o = Some evs -> ev_split gs evs).
Proof.
  induction gs as [|[cx p insts|cx p ents i] gs IH]; intros c C Hs Htm HB Hl Hc; cbn [reg_update].
  - cbn. split; [exact Hc|]. split; [constructor|]. repeat split. intros evs [= <-]. constructor.
  - inversion Hs as [|? ? Hg Hgs]; subst. unfold gsimple in Hg. cbn [g_insts] in Hg.
    assert (Hg' : Forall (fun ei : entity * inst => simple_inst B lim (snd ei)) insts).
    { apply Forall_forall. intros ei Hei. rewrite Forall_forall in Hg. apply Hg. apply in_map. exact Hei. }
    pose proof (excl_update_simple tm r B lim cx insts c C Hg' Htm HB Hl Hc) as H.
    destruct (excl_update tm r c insts) as [[[insts' c'] ev] lg]. cbv zeta in H. destruct H as (A1 & A2 & A3 & A4 & A5 & A6).
    cbv zeta. specialize (IH c' _ Hgs Htm HB Hl A1). cbv zeta in IH. destruct IH as (I1 & I2 & I3 & I4 & I5).
    cbn [ro_consumed ro_reg ro_events]. unfold flat_reg, sts_reg in *. cbn [flat_map flat_group sts_group].
    rewrite aev_c_app, aev_r_app, map_app. split; [exact I1|]. split.
    + constructor; [|exact I2]. unfold gsimple. cbn [g_insts]. apply Forall_forall. intros i' Hi'. apply in_map_iff in Hi'.
      destruct Hi' as (ei & <- & Hei). rewrite Forall_forall in A2. apply A2. exact Hei.
    + split; [rewrite A4, I3; reflexivity|]. split; [rewrite A5, I4; reflexivity|].
      intros evs E. destruct ev as [e1|]; [|discriminate]. destruct (ro_events (reg_update tm r c' gs)) as [e2|]; [|discriminate].
      injection E as <-. constructor; [|apply I5; reflexivity]. intros x Hx. exact (A6 e1 x eq_refl Hx).
  - inversion Hs as [|? ? Hg Hgs]; subst. unfold gsimple in Hg. cbn [g_insts] in Hg. inversion Hg as [|? ? Hi _]; subst.
    pose proof (inst_update_simple tm r c ents B lim cx 0 i C Hi Htm HB Hl Hc) as (A1 & A2 & A3 & A4 & A5).
    cbv zeta. set (io := inst_update tm r c ents i) in *.
    specialize (IH (io_consumed io) _ Hgs Htm HB Hl A1). cbv zeta in IH. destruct IH as (I1 & I2 & I3 & I4 & I5).
    cbn [ro_consumed ro_reg ro_events]. unfold flat_reg, sts_reg in *. cbn [flat_map flat_group sts_group].
    rewrite aev_c_app, aev_r_app, map_app. split; [exact I1|]. split.
    + constructor; [|exact I2]. unfold gsimple. cbn [g_insts]. constructor; [exact A2 | constructor].
    + split; [rewrite A3, I3; reflexivity|]. split; [rewrite A4, I4; reflexivity|].
      intros evs E. destruct (io_events io) as [e1|] eqn:E1; [|discriminate].
      destruct (ro_events (reg_update tm r (io_consumed io) gs)) as [e2|]; [|discriminate].
      injection E as <-. constructor; [|apply I5; reflexivity]. intros x Hx. unfold gids. cbn [g_insts flat_map]. rewrite app_nil_r.
      exact (A5 e1 x eq_refl Hx).
Qed.

(* ================================================================================================ *)
(* 3. properties of the abstract evaluation                                                         *)
(* ================================================================================================ *)
Definition akeys (x : aact) : list Z := map fst (aa_ins x).
Definition unflagged (x : aact) : Prop := Forall (fun kb => snd kb = false) (aa_ins x).
Definition allflagged (x : aact) : Prop := Forall (fun kb => snd kb = true) (aa_ins x).
Definition ne (K : list Z) (x : aact) : bool := nonempty (eff K x).

Lemma eff_upd K x : eff K (a_upd K x) = eff K x.
Proof.
  unfold eff, a_upd. cbn [aa_ins]. induction (aa_ins x) as [|[k g] l IH]; [reflexivity|]. cbn [map filter fst snd].
  destruct (memz k K) eqn:E; cbn [andb]; [|exact IH]. rewrite andb_true_r. destruct g; cbn [negb map fst]; rewrite IH; reflexivity.
Qed.
Lemma a_state_upd K C x : a_state K C (a_upd K x) = a_state K C x.
Proof. unfold a_state, a_active. rewrite eff_upd. reflexivity. Qed.
Lemma a_cons_upd K C x : a_cons K C (a_upd K x) = a_cons K C x.
Proof. unfold a_cons, a_active. rewrite eff_upd. reflexivity. Qed.
Lemma aev_r_upd K L : forall C, aev_r K (map (a_upd K) L) C = aev_r K L C.
Proof. induction L as [|x L IH]; intros C; cbn [map aev_r]; [reflexivity|]. rewrite a_state_upd, a_cons_upd, IH. reflexivity. Qed.
Lemma ne_upd K x : ne K (a_upd K x) = ne K x.
Proof. unfold ne. rewrite eff_upd. reflexivity. Qed.
Lemma upd_quiet x : unflagged (a_upd [] x).
Proof. unfold unflagged, a_upd. cbn [aa_ins]. apply Forall_forall. intros kb H. apply in_map_iff in H. destruct H as (y & <- & _). cbn. apply andb_false_r. Qed.
Lemma akeys_upd K x : akeys (a_upd K x) = akeys x.
Proof. unfold akeys, a_upd. cbn [aa_ins]. rewrite map_map. reflexivity. Qed.

Lemma eff_sub K x k : In k (eff K x) -> In k (akeys x) /\ In k K.
Proof.
  unfold eff, akeys. intros H. apply in_map_iff in H. destruct H as (kb & <- & H). apply filter_In in H. destruct H as [H1 H2].
  apply andb_true_iff in H2. destruct H2 as [H2 _]. split; [apply in_map; exact H1 | apply memz_in; exact H2].
Qed.
Lemma eff_unflagged K x k : unflagged x -> In k (akeys x) -> In k K -> In k (eff K x).
Proof.
  unfold eff, akeys, unflagged. intros Hu H HK. apply in_map_iff in H. destruct H as (kb & <- & H). apply in_map. apply filter_In.
  split; [exact H|]. rewrite Forall_forall in Hu. rewrite (Hu kb H). apply memz_in in HK. rewrite HK. reflexivity.
Qed.
Lemma eff_allflagged K x : allflagged x -> eff K x = [].
Proof.
  unfold eff, allflagged. induction (aa_ins x) as [|[k g] l IH]; intros H; [reflexivity|]. inversion H as [|? ? Hg Hl]; subst. cbn in Hg. subst g.
  cbn [filter fst snd negb]. rewrite andb_false_r. apply IH. exact Hl.
Qed.

Lemma a_cons_mono K C x k : In k C -> In k (a_cons K C x).
Proof. unfold a_cons. destruct (a_active K C x); [intros H; apply in_or_app; right; exact H | trivial]. Qed.
Lemma aev_c_mono K L : forall C k, In k C -> In k (aev_c K L C).
Proof. induction L as [|x L IH]; intros C k H; cbn [aev_c]; [exact H | apply IH, a_cons_mono, H]. Qed.
Lemma aev_c_sub K L : forall C k, In k (aev_c K L C) -> In k C \/ exists x, In x L /\ In k (akeys x).
Proof.
  induction L as [|x L IH]; intros C k H; cbn [aev_c] in H; [left; exact H|].
  destruct (IH _ _ H) as [H1|(y & Hy & Hk)]; [|right; exists y; split; [right; exact Hy | exact Hk]].
  unfold a_cons in H1. destruct (a_active K C x); [|left; exact H1]. apply in_app_or in H1. destruct H1 as [H1|H1]; [|left; exact H1].
  right. exists x. split; [left; reflexivity | apply (eff_sub K x k H1)].
Qed.
Lemma aev_r_tags K L : forall C, map fst (aev_r K L C) = map aa_tag L.
Proof. induction L as [|x L IH]; intros C; cbn [aev_r map fst]; [reflexivity | rewrite IH; reflexivity]. Qed.

Lemma nodup_fst_fun {A B} (l : list (A * B)) a s s' : NoDup (map fst l) -> In (a, s) l -> In (a, s') l -> s = s'.
Proof.
  induction l as [|[k v] l IH]; intros Hd H1 H2; [destruct H1|]. cbn [map fst] in Hd. inversion Hd as [|? ? Hn Hd']; subst.
  destruct H1 as [H1|H1], H2 as [H2|H2].
  - congruence.
  - injection H1 as -> ->. exfalso. apply Hn. apply in_map_iff. exists (a, s'). split; [reflexivity | exact H2].
  - injection H2 as -> ->. exfalso. apply Hn. apply in_map_iff. exists (a, s). split; [reflexivity | exact H1].
  - apply IH; assumption.
Qed.

(* clause 1, abstractly: the first action that reads a down key is active; a later action all of whose keys it
   also reads is not *)
Lemma aev_winner K L1 xa L2 xb L3 k :
  In k K -> In k (akeys xa) -> unflagged xa -> (forall x, In x L1 -> ~ In k (akeys x)) ->
  incl (akeys xb) (akeys xa) ->
  let res := aev_r K (L1 ++ xa :: L2 ++ xb :: L3) [] in
  (exists s, In (aa_tag xa, s) res /\ s <> SNone) /\ In (aa_tag xb, SNone) res.
Proof.
  intros HK Hka Hu Hfree Hincl res. unfold res. rewrite aev_r_app. cbn [aev_r]. rewrite aev_r_app. cbn [aev_r].
  set (C1 := aev_c K L1 []). set (C2 := aev_c K L2 (a_cons K C1 xa)).
  assert (Hk1 : ~ In k C1).
  { intros H. apply aev_c_sub in H. destruct H as [[]|(x & Hx & Hk)]. exact (Hfree x Hx Hk). }
  assert (Hact : a_active K C1 xa = true).
  { unfold a_active. apply existsb_exists. exists k. split; [apply eff_unflagged; assumption|]. apply negb_true_iff. apply memz_false. exact Hk1. }
  split.
  - exists (a_state K C1 xa). split; [apply in_or_app; right; left; reflexivity|]. unfold a_state. rewrite Hact. destruct (aa_hc xa); discriminate.
  - apply in_or_app. right. right. apply in_or_app. right. left. f_equal. unfold a_state.
    replace (a_active K C2 xb) with false; [reflexivity|]. symmetry. unfold a_active.
    destruct (existsb (fun k0 => negb (memz k0 C2)) (eff K xb)) eqn:E; [|reflexivity]. exfalso.
    apply existsb_exists in E. destruct E as (k2 & Hk2 & Hn). apply negb_true_iff, memz_false in Hn. apply Hn.
    destruct (eff_sub K xb k2 Hk2) as [G1 G2]. unfold C2. apply aev_c_mono. unfold a_cons. rewrite Hact. apply in_or_app. left.
    apply eff_unflagged; [exact Hu | apply Hincl; exact G1 | exact G2].
Qed.

(* clause 3, abstractly: actions without effective keys are invisible *)
Lemma ne_false K x : ne K x = false -> eff K x = [].
Proof. unfold ne. destruct (eff K x); [reflexivity | discriminate]. Qed.
Lemma a_cons_skip K C x : ne K x = false -> a_cons K C x = C.
Proof. intros H. unfold a_cons, a_active. rewrite (ne_false K x H). reflexivity. Qed.
Lemma a_state_skip K C x : ne K x = false -> a_state K C x = SNone.
Proof. intros H. unfold a_state, a_active. rewrite (ne_false K x H). reflexivity. Qed.
Lemma aev_r_filter K L : forall C t s, In (t, s) (aev_r K L C) <->
  In (t, s) (aev_r K (filter (ne K) L) C) \/ (s = SNone /\ exists x, In x L /\ aa_tag x = t /\ ne K x = false).
Proof.
  induction L as [|x L IH]; intros C t s; cbn [aev_r filter In].
  - split; [intros [] | intros [H|(_ & y & F & _)]; [destruct H | destruct F]].
  - destruct (ne K x) eqn:E; cbn [aev_r In]; rewrite IH.
    + split.
      * intros [H|[H|(Hs & y & Hy & Ht & Hn)]]; [left; left; exact H | left; right; exact H | right; split; [exact Hs|]; exists y; tauto].
      * intros [[H|H]|(Hs & y & [->|Hy] & Ht & Hn)]; [left; exact H | right; left; exact H | congruence | right; right; split; [exact Hs|]; exists y; tauto].
    + rewrite (a_cons_skip K C x E), (a_state_skip K C x E). split.
      * intros [[= <- <-]|[H|(Hs & y & Hy & Ht & Hn)]]; [right; split; [reflexivity|]; exists x; tauto | left; exact H | right; split; [exact Hs|]; exists y; tauto].
      * intros [H|(Hs & y & [->|Hy] & Ht & Hn)]; [right; left; exact H | left; subst; reflexivity | right; right; split; [exact Hs|]; exists y; tauto].
Qed.
Lemma nodup_map_filter {A B} (f : A -> B) p l : NoDup (map f l) -> NoDup (map f (filter p l)).
Proof.
  induction l as [|x l IH]; intros H; cbn [filter map]; [constructor|]. cbn [map] in H. inversion H as [|? ? Hn Hd]; subst.
  destruct (p x); cbn [map]; [|apply IH; exact Hd]. constructor; [|apply IH; exact Hd]. intros Hin. apply Hn.
  apply in_map_iff in Hin. destruct Hin as (y & <- & Hy). apply filter_In in Hy. apply in_map. tauto.
Qed.
Lemma nodup_map_inj_in {A B} (f : A -> B) l x y : NoDup (map f l) -> In x l -> In y l -> f x = f y -> x = y.
Proof.
  induction l as [|z l IH]; intros Hd Hx Hy E; [destruct Hx|]. cbn [map] in Hd. inversion Hd as [|? ? Hn Hd']; subst.
  destruct Hx as [->|Hx], Hy as [->|Hy]; try reflexivity.
  - exfalso. apply Hn. rewrite E. apply in_map. exact Hy.
  - exfalso. apply Hn. rewrite <- E. apply in_map. exact Hx.
  - apply IH; assumption.
Qed.
Lemma aev_same K L0 L t s0 s :
  NoDup (map aa_tag L0) -> NoDup (map aa_tag L) -> filter (ne K) L = filter (ne K) L0 ->
  In (t, s0) (aev_r K L0 []) -> In (t, s) (aev_r K L []) -> s = s0.
Proof.
  intros Hd0 Hd Hf H0 H. apply aev_r_filter in H0. apply aev_r_filter in H. rewrite Hf in H.
  assert (Hclash : forall L' v, NoDup (map aa_tag L') -> In (t, v) (aev_r K (filter (ne K) L') []) ->
                     forall y, In y L' -> aa_tag y = t -> ne K y = false -> False).
  { intros L' v HdL Hv y Hy Ht Hn. apply (in_map fst) in Hv. rewrite aev_r_tags in Hv. cbn [fst] in Hv.
    apply in_map_iff in Hv. destruct Hv as (z & Hz & Hzin). apply filter_In in Hzin. destruct Hzin as [Hzin Hzne].
    assert (z = y) by (apply (nodup_map_inj_in aa_tag L'); congruence). subst z. congruence. }
  destruct H0 as [H0|(-> & y0 & Hy0 & Ht0 & Hn0)], H as [H|(-> & y & Hy & Ht & Hn)].
  - refine (nodup_fst_fun _ t s s0 _ H H0). rewrite aev_r_tags. apply nodup_map_filter. exact Hd0.
  - exfalso. rewrite <- Hf in H0. exact (Hclash L s0 Hd H0 y Hy Ht Hn).
  - exfalso. exact (Hclash L0 s Hd0 H y0 Hy0 Ht0 Hn0).
  - reflexivity.
Qed.

(* ================================================================================================ *)
(* 4. a property of every stored instance, indexed by (context type, entity), through all operations *)
(* ================================================================================================ *)
Definition te (c e : Z) : Z := if ctx_shared c then 0 else e.

Section PerInstance.
Variable P : ctx -> entity -> inst -> Prop.

Definition gP (g : group) : Prop :=
  match g with
  | GExcl c _ insts => Forall (fun ei => P c (fst ei) (snd ei)) insts
  | GShared c _ _ i => P c 0 i
  end.

Lemma reg_add_gP mk c e r : reg_wf r -> Forall gP r -> P c (te c e) (mk e) -> Forall gP (reg_add mk c e r).
Proof.
  intros Hwf Hh Hp. destruct (index_of c r) as [n|] eqn:Ei.
  - destruct (index_of_some c r n Ei) as (l1 & g & l2 & -> & _ & Hc & Hn1).
    destruct (reg_wf_group _ _ _ Hwf) as (_ & Hsh & _). rewrite Hc in Hsh.
    rewrite (reg_add_old _ c e l1 g l2 Hn1 Hc).
    apply Forall_app in Hh. destruct Hh as [H1 H2]. inversion H2 as [|? ? Hg H3]; subst.
    apply Forall_app. split; [exact H1|]. constructor; [|exact H3].
    destruct g as [c0 p insts|c0 p ents i]; cbn [g_ctx g_shared add_ent gP] in *.
    + apply Forall_app. split; [exact Hg|]. constructor; [|constructor]. cbn [fst snd]. unfold te in Hp. rewrite <- Hsh in Hp. exact Hp.
    + exact Hg.
  - rewrite (reg_add_new _ c e r Ei). apply JudgeC12P.Forall_insert_at; [exact Hh|].
    unfold new_group, te in *. destruct (ctx_shared c); cbn [gP]; [exact Hp|]. constructor; [exact Hp | constructor].
Qed.

Lemma reg_remove_gP tm c e r r' oevs : reg_remove tm c e r = Some (r', oevs) -> Forall gP r -> Forall gP r'.
Proof.
  unfold reg_remove. intros H Hh.
  destruct (index_of c r) as [n|]; [|discriminate]. destruct (nth_error r n) as [g|] eqn:En; [|discriminate].
  assert (Hg : gP g) by (rewrite Forall_forall in Hh; apply Hh; eapply nth_error_In; exact En).
  destruct g as [c' p insts|c' p ents i].
  - destruct (position (fun ei : Z * inst => Z.eqb (fst ei) e) insts) as [k|]; [|discriminate].
    destruct (nth_error insts k) as [[x i]|]; [|discriminate]. injection H as <- _.
    destruct (swap_remove k insts) as [|q rest] eqn:Es; [apply JudgeC12P.Forall_remove_at; exact Hh|].
    apply JudgeC12P.Forall_update_at; [exact Hh|]. intros _ _. cbn [gP] in *. rewrite Forall_forall in *.
    intros ei Hei. apply Hg. apply (JudgeC12P.swap_remove_incl k insts). rewrite Es. exact Hei.
  - destruct (position (Z.eqb e) ents) as [k|]; [|discriminate]. injection H as <- _.
    destruct (swap_remove k ents) as [|q rest]; [apply JudgeC12P.Forall_remove_at; exact Hh|].
    apply JudgeC12P.Forall_update_at; [exact Hh|]. intros _ _. exact Hg.
Qed.

Lemma reg_rebuild_gP mk tm c r r' oevs : reg_wf r -> reg_rebuild mk tm c r = Some (r', oevs) ->
  (forall e, holds_in c e r -> P c (te c e) (mk e)) -> Forall gP r -> Forall gP r'.
Proof.
  intros Hwf H Hmk Hh. destruct (index_of c r) as [n|] eqn:Ei.
  - destruct (index_of_some c r n Ei) as (l1 & g & l2 & -> & Hl & Hc & Hn1).
    destruct (reg_wf_group _ _ _ Hwf) as (_ & Hsh & Hne & _). rewrite Hc in Hsh.
    destruct (reg_rebuild_form _ tm c l1 g l2 r' oevs Hn1 Hc Hne H) as [-> _].
    assert (Hin : forall e, In e (g_ents g) -> holds_in c e (l1 ++ g :: l2)).
    { intros e He. exists g. split; [apply in_or_app; right; left; reflexivity | split; assumption]. }
    apply Forall_app in Hh. destruct Hh as [H1 H2]. inversion H2 as [|? ? Hg H3]; subst.
    apply Forall_app. split; [exact H1|]. constructor; [|exact H3].
    destruct g as [c0 p insts|c0 p ents i]; cbn [g_ctx g_shared g_ents regroup gP] in *.
    + apply Forall_forall. intros ei Hei. apply in_map_iff in Hei. destruct Hei as ([e' i'] & <- & Hei). cbn [fst snd].
      specialize (Hmk e' (Hin e' (in_map fst _ _ Hei))). unfold te in Hmk. rewrite <- Hsh in Hmk. exact Hmk.
    + destruct ents as [|e0 ents]; [congruence|]. cbn [hd]. specialize (Hmk e0 (Hin e0 (or_introl eq_refl))).
      unfold te in Hmk. rewrite <- Hsh in Hmk. exact Hmk.
  - rewrite (reg_rebuild_absent _ tm c r Ei) in H. injection H as <- _. exact Hh.
Qed.

Variable sc : scenario.
Hypothesis Hmk : forall c e, In c (s_menu sc) -> In e (s_ents sc) -> P c (te c e) (mk_inst sc c e).

Definition WI (w : world) : Prop := reg_inv sc w /\ Forall gP (w_reg w).

Lemma insert_ctx_gP w e c : WI w -> In e (s_ents sc) -> Forall gP (w_reg (oo_world (insert_ctx sc w e c))).
Proof.
  intros [Hinv Hh] He. unfold insert_ctx. destruct (holds_of e (w_holds w)) as [cs|]; [|exact Hh].
  destruct (memz c cs || negb (memz c (s_menu sc))) eqn:Em; [exact Hh|]. cbn [oo_world w_reg].
  apply orb_false_iff in Em. destruct Em as [_ Em]. apply negb_false_iff, memz_in in Em.
  apply reg_add_gP; [apply (proj1 (reg_inv_alt sc w) Hinv) | exact Hh | apply Hmk; assumption].
Qed.
Lemma spawn_fold_gP e cs : In e (s_ents sc) -> forall acc, WI (oo_world acc) -> WI (oo_world (fold_left (spawn_f sc e) cs acc)).
Proof.
  intros He. induction cs as [|c cs IH]; intros acc H; cbn [fold_left]; [exact H|]. apply IH. unfold spawn_f. cbn [oo_world].
  split; [apply insert_ctx_inv; apply H | apply insert_ctx_gP; assumption].
Qed.
Lemma remove_ctx_gP w e c o : WI w -> remove_ctx w e c = Some o -> WI (oo_world o).
Proof.
  intros [Hinv Hh] Hrm. destruct (remove_ctx_spec sc w e c Hinv) as (o' & Ho' & Hinv' & _). rewrite Hrm in Ho'. injection Ho' as <-.
  split; [exact Hinv'|]. unfold remove_ctx in Hrm. destruct (holds_of e (w_holds w)) as [cs|] eqn:He; [|injection Hrm as <-; exact Hh].
  destruct (memz c cs) eqn:Em; cbn [negb] in Hrm; [|injection Hrm as <-; exact Hh].
  destruct (reg_remove (w_time w) c e (w_reg w)) as [[r' [evs|]]|] eqn:Er; try discriminate. injection Hrm as <-.
  cbn [oo_world w_reg]. exact (reg_remove_gP _ _ _ _ _ _ Er Hh).
Qed.
Lemma despawn_fold_gP e cs : forall a a', WI (oo_world a) -> fold_left (despawn_f e) cs (Some a) = Some a' -> WI (oo_world a').
Proof.
  induction cs as [|c cs IH]; intros a a' Hw H; cbn [fold_left] in H; [injection H as <-; exact Hw|].
  cbn [despawn_f] in H. destruct (remove_ctx (oo_world a) e c) as [o|] eqn:Er; [|rewrite despawn_f_none in H; discriminate].
  apply (IH (mkOpOut (oo_world o) (oo_events a ++ oo_events o) []) a'); [|exact H]. cbn [oo_world].
  exact (remove_ctx_gP _ e c o Hw Er).
Qed.
Lemma rebuild_fold_gP cs : forall a a', WI (oo_world a) -> ents_inv sc (oo_world a) ->
  fold_left (rebuild_f sc) cs (Some a) = Some a' -> WI (oo_world a').
Proof.
  induction cs as [|c cs IH]; intros a a' [Hinv Hh] Hents H; cbn [fold_left] in H; [injection H as <-; split; assumption|].
  cbn [rebuild_f] in H. cbv zeta in H.
  destruct (reg_rebuild (mk_inst sc c) (w_time (oo_world a)) c (w_reg (oo_world a))) as [[r' [evs|]]|] eqn:Er;
    try (rewrite rebuild_f_none in H; discriminate).
  pose proof Hinv as H0. apply reg_inv_alt in H0. destruct H0 as (Hwf & Hm & Hhw).
  assert (Hinv1 : reg_inv sc (mkWorld (w_holds (oo_world a)) r' (w_time (oo_world a)))).
  { destruct (reg_rebuild_spec (mk_inst sc c) (w_time (oo_world a)) c (w_reg (oo_world a)) Hwf (mk_inst_wf sc c))
      as (r2 & evs2 & E2 & Hshape & Hins). rewrite Er in E2. injection E2 as <- <-.
    apply reg_inv_alt. cbn [w_reg w_holds]. split; [eapply same_shape_wf; eassumption|]. split; [|exact Hhw].
    intros c' e'. rewrite (same_shape_holds _ _ Hshape). apply Hm. }
  match type of H with fold_left _ _ (Some ?acc1) = _ => apply (IH acc1 a') end; [|exact Hents|exact H]. cbn [oo_world].
  split; [exact Hinv1|]. cbn [w_reg]. apply (reg_rebuild_gP _ _ _ _ _ _ Hwf Er); [|exact Hh].
  intros e He. apply Hm in He. apply Hmk.
  - destruct He as (cs' & H1 & H2). destruct Hhw as [_ Hcs]. apply (proj2 (Hcs e cs' H1)). apply memz_in. exact H2.
  - apply Hents. eapply holds_live. exact He.
Qed.

Lemma apply_op_gP w o oo : WI w -> ents_inv sc w -> op_okb sc o = true -> apply_op sc w o = Some oo -> Forall gP (w_reg (oo_world oo)).
Proof.
  intros Hw Hents Hok Hop. pose proof Hw as [Hinv Hh]. destruct o as [e cs|e c|e c|e|]; cbn [apply_op op_okb] in *.
  - destruct (holds_of e (w_holds w)) as [old|] eqn:He; injection Hop as <-; [exact Hh|]. apply memz_in in Hok.
    apply (spawn_fold_gP e cs Hok (mkOpOut (mkWorld (w_holds w ++ [(e, [])]) (w_reg w) (w_time w)) [] [])). cbn [oo_world].
    split; [apply spawn_world_inv; assumption | exact Hh].
  - injection Hop as <-. unfold insert_ctx. destruct (holds_of e (w_holds w)) as [cs|] eqn:He; [|exact Hh].
    assert (Hin : In e (s_ents sc)) by (apply Hents; unfold live; congruence).
    pose proof (insert_ctx_gP w e c Hw Hin) as G. unfold insert_ctx in G. rewrite He in G. exact G.
  - exact (proj2 (remove_ctx_gP w e c oo Hw Hop)).
  - destruct (holds_of e (w_holds w)) as [cs0|] eqn:He; [|injection Hop as <-; exact Hh].
    change (match fold_left (despawn_f e) (filter (fun c => memz c cs0) (s_menu sc)) (Some (mkOpOut w [] [])) with
            | Some a => Some (mkOpOut (mkWorld (del_ent e (w_holds (oo_world a))) (w_reg (oo_world a)) (w_time w)) (oo_events a) [])
            | None => None end = Some oo) in Hop.
    destruct (fold_left (despawn_f e) _ _) as [a|] eqn:Ef; [|discriminate]. injection Hop as <-.
    exact (proj2 (despawn_fold_gP e _ (mkOpOut w [] []) a Hw Ef)).
  - change (fold_left (rebuild_f sc) (s_menu sc) (Some (mkOpOut w [] [])) = Some oo) in Hop.
    exact (proj2 (rebuild_fold_gP (s_menu sc) (mkOpOut w [] []) oo Hw Hents Hop)).
Qed.
End PerInstance.

(* ================================================================================================ *)
(* 5. configurations of the profile and the instances built from them                               *)
(* ================================================================================================ *)
Definition bkey (b : bind_spec) : Z := ikey (b_input b).
Definition spec_skel (s : inst_spec) : list (Z * list Z) := map (fun a => (a_id a, map bkey (a_binds a))) (i_actions s).
Definition inst_skel (i : inst) : list (Z * list Z) :=
  map (fun ab => (ab_id ab, map (fun b => ikey (ib_input b)) (ab_inputs ab))) (in_binds i).

Definition mkab (a : action_spec) : abind := mkAbind (a_id a) (a_mods a) (a_conds a) (map ibind_of (a_binds a)).
Lemma instantiate_binds_gen l : forall i, NoDup (map a_id l) -> (forall a, In a l -> ~ In (a_id a) (map ab_id (in_binds i))) ->
  in_binds (fold_left bind_action l i) = in_binds i ++ map mkab l.
Proof.
  induction l as [|s l IH]; intros i Hd Hn; cbn [fold_left map]; [rewrite app_nil_r; reflexivity|].
  cbn [map] in Hd. inversion Hd as [|? ? Hs Hd']; subst.
  assert (E : in_binds (bind_action i s) = in_binds i ++ [mkab s]).
  { unfold bind_action. pose proof (InstanceP.extend_ids s (in_binds i)) as H. destruct (extend s (in_binds i)) as [bs'|].
    - destruct H as [_ H]. apply memz_in in H. exfalso. exact (Hn s (or_introl eq_refl) H).
    - reflexivity. }
  rewrite IH; [rewrite E, <- app_assoc; reflexivity | exact Hd'|].
  intros a Ha. rewrite E, map_app. cbn [map mkab ab_id]. intros H. apply in_app_or in H. destruct H as [H|[H|[]]].
  - exact (Hn a (or_intror Ha) H).
  - apply Hs. rewrite H. apply in_map. exact Ha.
Qed.
Lemma instantiate_binds s : NoDup (map a_id (i_actions s)) -> in_binds (instantiate s) = map mkab (i_actions s).
Proof. intros H. unfold instantiate. rewrite instantiate_binds_gen; [reflexivity | exact H | intros a _ []]. Qed.

Definition nilb {A} (l : list A) : bool := match l with [] => true | _ => false end.
Lemma nilb_nil {A} (l : list A) : nilb l = true -> l = [].
Proof. destruct l; [reflexivity | discriminate]. Qed.
Definition good_bindb (b : bind_spec) : bool :=
  match b_input b with IKey _ 0 => true | _ => false end && nilb (b_mods b) && nilb (b_conds b).
Definition good_condb (lim : Q) (c : cond) : bool :=
  match c with
  | CHold ht os act t f =>
      negb os && negb f && negb (t_rel t) && qltb 0 (act * act) && qleb (act * act) 1 && qleb (t_dur t) 0 && qltb lim ht
  | _ => false
  end.
Definition good_actionb (lim : Q) (a : action_spec) : bool :=
  nilb (a_mods a) && forallb (fun ic => good_condb lim (snd ic)) (a_conds a) && forallb good_bindb (a_binds a) && aid_consume (a_id a).
Definition good_specb (lim : Q) (s : inst_spec) : bool :=
  forallb (good_actionb lim) (i_actions s) && JudgeC12P.nodupz (map a_id (i_actions s)).

Lemma qltb_lt a b : qltb a b = true -> (a < b)%Q.
Proof. unfold qltb. intros H. apply negb_true_iff in H. apply Qnot_le_lt. intros H'. apply Qle_bool_iff in H'. congruence. Qed.
Lemma good_cond_ghold lim c : good_condb lim c = true -> ghold 0 lim c.
Proof.
  destruct c as [| | |ht os act t f| | | | | |]; try discriminate. cbn [good_condb ghold]. intros H.
  repeat (apply andb_true_iff in H; destruct H as [H ?]).
  repeat split; try (apply negb_true_iff; assumption); try (apply qltb_lt; assumption); apply Qle_bool_iff; assumption.
Qed.
Lemma good_bind_simple b : good_bindb b = true -> simple_ib (ibind_of b) /\ ib_ignored (ibind_of b) = true.
Proof.
  unfold good_bindb, simple_ib, ibind_of. intros H. apply andb_true_iff in H. destruct H as [H H3]. apply andb_true_iff in H. destruct H as [H1 H2].
  cbn [ib_input ib_mods ib_conds ib_ignored]. rewrite (nilb_nil _ H2), (nilb_nil _ H3).
  destruct (b_input b) as [k m| | | | |]; try discriminate. destruct m; try discriminate. repeat split.
Qed.
Lemma good_action_simple lim a : good_actionb lim a = true -> simple_ab 0 lim (mkab a) /\ allflagged (abs_ab 0 0 (mkab a)).
Proof.
  unfold good_actionb. intros H. repeat (apply andb_true_iff in H; destruct H as [H ?]).
  rewrite forallb_forall in *. split; [split; [|split; [|split]]|]; cbn [mkab ab_mods ab_conds ab_inputs ab_id].
  - apply nilb_nil. assumption.
  - apply Forall_forall. intros ic Hic. apply good_cond_ghold. auto.
  - apply Forall_forall. intros b Hb. apply in_map_iff in Hb. destruct Hb as (b0 & <- & Hb0). apply good_bind_simple. auto.
  - assumption.
  - unfold allflagged, abs_ab. cbn [aa_ins mkab ab_inputs]. apply Forall_forall. intros kb Hkb. apply in_map_iff in Hkb.
    destruct Hkb as (ib & <- & Hib). apply in_map_iff in Hib. destruct Hib as (b0 & <- & Hb0). cbn [snd]. apply good_bind_simple. auto.
Qed.

Lemma instantiate_good lim s : good_specb lim s = true ->
  simple_inst 0 lim (instantiate s) /\ inst_skel (instantiate s) = spec_skel s /\
  (forall c e, Forall allflagged (flat_inst c e (instantiate s))).
Proof.
  unfold good_specb. intros H. apply andb_true_iff in H. destruct H as [H1 H2]. apply JudgeC12P.nodupz_spec in H2.
  rewrite forallb_forall in H1. unfold simple_inst, inst_skel, spec_skel, flat_inst. rewrite (instantiate_binds s H2), !map_map.
  split; [split|split].
  - apply Forall_forall. intros ab Hab. apply in_map_iff in Hab. destruct Hab as (a & <- & Ha). apply good_action_simple. auto.
  - exact H2.
  - apply map_ext. intros a. cbn [mkab ab_id ab_inputs]. rewrite map_map. reflexivity.
  - intros c e. apply Forall_forall. intros x Hx. apply in_map_iff in Hx. destruct Hx as (ab & <- & Hab).
    apply in_map_iff in Hab. destruct Hab as (a & <- & Ha).
    destruct (good_action_simple lim a (H1 a Ha)) as [_ G]. exact G.
Qed.

Lemma simple_inst_mono B B' lim i : (B <= B')%Q -> simple_inst B lim i -> simple_inst B' lim i.
Proof.
  intros HB [H1 H2]. split; [|exact H2]. eapply Forall_impl; [|exact H1]. intros ab (A1 & A2 & A3 & A4).
  split; [exact A1|]. split; [|split; assumption]. eapply Forall_impl; [|exact A2]. intros [id c]. cbn [snd].
  destruct c; cbn [ghold]; try tauto. intros (G1 & G2 & G3 & G4 & G5 & G6 & G7). repeat split; try assumption. lra.
Qed.

(* skeletons through a frame *)
Lemma flags_step_skel r i i' : SuppressLiftP.flags_step r i i' -> inst_skel i' = inst_skel i.
Proof.
  intros [_ H]. unfold inst_skel. induction H as [|ab ab' l l' (Hid & _ & _ & Hin) _ IH]; [reflexivity|]. cbn [map]. rewrite IH, Hid. f_equal. f_equal.
  clear -Hin. induction Hin as [|b b' l l' (Hi & _) _ IH]; [reflexivity|]. cbn [map]. rewrite IH, Hi. reflexivity.
Qed.

(* ================================================================================================ *)
(* 6. the world invariant and one step                                                              *)
(* ================================================================================================ *)
Fixpoint fq (steps : list step) : Q :=
  match steps with [] => 0 | SFrame _ :: r => (1 # 4) + fq r | SOp _ :: r => fq r end.
Lemma fq_nonneg steps : (0 <= fq steps)%Q.
Proof. induction steps as [|[o|f] r IH]; cbn [fq]; lra. Qed.
Definition lim_of (sc : scenario) : Q := fq (s_steps sc).

Definition skel_of (sc : scenario) (c e : Z) : list (Z * list Z) := spec_skel (cfg_lookup sc c e).
Definition cskel (sc : scenario) (c e : Z) : list (Z * list Z) :=
  if ctx_shared c then skel_of sc c (hd 0 (s_ents sc)) else skel_of sc c e.
Definition iinv (sc : scenario) (B : Q) (c e : Z) (i : inst) : Prop :=
  simple_inst B (lim_of sc) i /\ inst_skel i = cskel sc c e.
Definition Winv (sc : scenario) (B : Q) (w : world) : Prop :=
  reg_inv sc w /\ ents_inv sc w /\ Forall (gP (iinv sc B)) (w_reg w).

(* static parts of the profile *)
Definition p_cfg (sc : scenario) : bool := forallb (fun x => good_specb (lim_of sc) (snd x)) (s_cfg sc).
Definition skel_eqb (a b : list (Z * list Z)) : bool :=
  list_eqb (fun x y => Z.eqb (fst x) (fst y) && list_eqb Z.eqb (snd x) (snd y)) a b.
Definition p_shared (sc : scenario) : bool :=
  forallb (fun c => if ctx_shared c
                    then forallb (fun e => skel_eqb (skel_of sc c e) (skel_of sc c (hd 0 (s_ents sc)))) (s_ents sc)
                    else true) (s_menu sc).
Definition frame_noops (st : step) : bool := match st with SFrame f => nilb (f_ops f) | SOp _ => true end.

Lemma list_eqb_eq {A} (f : A -> A -> bool) : (forall x y, f x y = true -> x = y) -> forall a b, list_eqb f a b = true -> a = b.
Proof.
  intros Hf. induction a as [|x a IH]; intros [|y b] H; cbn [list_eqb] in H; try discriminate; [reflexivity|].
  apply andb_true_iff in H. destruct H as [H1 H2]. rewrite (Hf x y H1), (IH b H2). reflexivity.
Qed.
Lemma skel_eqb_eq a b : skel_eqb a b = true -> a = b.
Proof.
  apply list_eqb_eq. intros [x1 l1] [x2 l2] H. cbn [fst snd] in H. apply andb_true_iff in H. destruct H as [H1 H2].
  apply Z.eqb_eq in H1. apply (list_eqb_eq Z.eqb) in H2; [congruence|]. intros u v E. apply Z.eqb_eq. exact E.
Qed.
Lemma cskel_ok sc c e : p_shared sc = true -> In c (s_menu sc) -> In e (s_ents sc) -> cskel sc c e = skel_of sc c e.
Proof.
  unfold p_shared, cskel. intros H Hc He. rewrite forallb_forall in H. specialize (H c Hc). destruct (ctx_shared c); [|reflexivity].
  rewrite forallb_forall in H. symmetry. apply skel_eqb_eq. apply H. exact He.
Qed.
Lemma cskel_te sc c e : cskel sc c (te c e) = cskel sc c e.
Proof. unfold cskel, te. destruct (ctx_shared c); reflexivity. Qed.
Lemma cfg_good sc c e : p_cfg sc = true -> good_specb (lim_of sc) (cfg_lookup sc c e) = true.
Proof.
  unfold p_cfg. intros H. rewrite forallb_forall in H. destruct (JudgeC07P.cfg_lookup_cases sc c e) as [->|(x & Hx & ->)]; [reflexivity|]. apply H. exact Hx.
Qed.

Lemma mk_iinv sc B c e : p_cfg sc = true -> p_shared sc = true -> (0 <= B)%Q -> In c (s_menu sc) -> In e (s_ents sc) ->
  iinv sc B c (te c e) (mk_inst sc c e).
Proof.
  intros Hcfg Hsh HB Hc He. destruct (instantiate_good _ _ (cfg_good sc c e Hcfg)) as (G1 & G2 & _). split.
  - apply (simple_inst_mono 0 B); assumption.
  - unfold mk_inst. rewrite G2, cskel_te. symmetry. apply cskel_ok; assumption.
Qed.

Lemma gP_impl (P Q : ctx -> entity -> inst -> Prop) g : (forall c e i, P c e i -> Q c e i) -> gP P g -> gP Q g.
Proof. intros H. destruct g; cbn [gP]; [|apply H]. intros G. eapply Forall_impl; [|exact G]. intros ei. apply H. Qed.

Lemma op_step sc B w o oo : p_cfg sc = true -> p_shared sc = true -> (0 <= B)%Q ->
  Winv sc B w -> op_okb sc o = true -> apply_op sc w o = Some oo -> Winv sc B (oo_world oo).
Proof.
  intros Hcfg Hsh HB (Hinv & Hents & Hg) Hok Hop. split; [|split].
  - destruct (apply_op_inv sc w o Hinv) as (r & Hr & Hinv'). congruence.
  - exact (apply_op_ents sc w o oo Hok Hop Hents).
  - apply (apply_op_gP (iinv sc B) sc (fun c e Hc He => mk_iinv sc B c e Hcfg Hsh HB Hc He) w o oo (conj Hinv Hg) Hents Hok Hop).
Qed.

(* what the invariant says about the flat list *)
Lemma gP_gsimple sc B g : gP (iinv sc B) g -> gsimple B (lim_of sc) g.
Proof.
  destruct g as [c p insts|c p ents i]; cbn [gP]; unfold gsimple; cbn [g_insts].
  - intros H. apply Forall_forall. intros i Hi. apply in_map_iff in Hi. destruct Hi as (ei & <- & Hei). rewrite Forall_forall in H. apply (H ei Hei).
  - intros [H _]. constructor; [exact H | constructor].
Qed.
Lemma Forall2_in_r {A B} (R : A -> B -> Prop) l l' y : Forall2 R l l' -> In y l' -> exists x, In x l /\ R x y.
Proof.
  induction 1 as [|a b l l' Hab _ IH]; intros Hy; [destruct Hy|]. destruct Hy as [<-|Hy]; [exists a; split; [left; reflexivity | exact Hab]|].
  destruct (IH Hy) as (x & Hx & Hr). exists x. split; [right; exact Hx | exact Hr].
Qed.

Lemma frame_noops_eq sc w f : f_ops f = [] ->
  frame sc w f =
  let o := reg_update (frame_time f) (f_raw f) (update_state (f_raw f)) (w_reg w) in
  match ro_events o with
  | None => None
  | Some main => Some (mkFrameOut (mkWorld (w_holds w) (ro_reg o) (frame_time f)) main [] (ro_log o) [])
  end.
Proof. intros H. unfold frame. rewrite H. cbv zeta. destruct (ro_events _); reflexivity. Qed.

Lemma frame_step sc B w f fo : f_ops f = [] -> (0 <= B)%Q -> (B + (1 # 4) <= lim_of sc)%Q ->
  Winv sc B w -> frame sc w f = Some fo ->
  Winv sc (B + (1 # 4)) (fo_world fo) /\
  w_holds (fo_world fo) = w_holds w /\ fo_built fo = [] /\
  flat_reg (w_reg (fo_world fo)) = map (a_upd (r_keys (f_raw f))) (flat_reg (w_reg w)) /\
  sts_reg (w_reg (fo_world fo)) = aev_r (r_keys (f_raw f)) (flat_reg (w_reg w)) [] /\
  ev_split (w_reg w) (fo_main fo).
Proof.
  intros Hops HB Hl (Hinv & Hents & Hg) Hf. rewrite (frame_noops_eq sc w f Hops) in Hf. cbv zeta in Hf.
  assert (Hgs : Forall (gsimple B (lim_of sc)) (w_reg w)) by (eapply Forall_impl; [|exact Hg]; intros g; apply gP_gsimple).
  assert (Hc0 : ceq (update_state (f_raw f)) []) by (intros k; cbn; tauto).
  pose proof (reg_update_simple (frame_time f) (f_raw f) B (lim_of sc) (w_reg w) (update_state (f_raw f)) [] Hgs (frame_time_small f) HB Hl Hc0)
    as (_ & S2 & S3 & S4 & S5). cbv zeta in S5.
  pose proof (reg_update_flags (frame_time f) (f_raw f) (w_reg w) (update_state (f_raw f))) as Hfl.
  pose proof (reg_update_inv sc w (frame_time f) (f_raw f) (update_state (f_raw f)) Hinv) as Hinv'.
  set (o := reg_update (frame_time f) (f_raw f) (update_state (f_raw f)) (w_reg w)) in *.
  destruct (ro_events o) as [main|] eqn:Em; [|discriminate]. injection Hf as <-. cbn [fo_world fo_built fo_main w_holds w_reg].
  split; [|split; [reflexivity|split; [reflexivity|split; [exact S3|split; [exact S4 | apply S5; reflexivity]]]]].
  split; [exact Hinv'|]. split; [exact Hents|]. cbn [w_reg].
  apply Forall_forall. intros g' Hg'. destruct (Forall2_in_r _ _ _ g' Hfl Hg') as (g & Hgin & Hstep).
  rewrite Forall_forall in Hg, S2. pose proof (Hg g Hgin) as Hgp. pose proof (S2 g' Hg') as Hgs'. unfold gsimple in Hgs'.
  destruct g as [c p insts|c p ents i], g' as [c' p' insts'|c' p' ents' i']; cbn [group_flags_step gP g_insts] in *; try contradiction.
  - destruct Hstep as (-> & _ & Hst). apply Forall_forall. intros ei' Hei'. destruct (Forall2_in_r _ _ _ ei' Hst Hei') as (ei & Hei & E1 & E2).
    rewrite Forall_forall in Hgp, Hgs'. destruct (Hgp ei Hei) as [_ Hsk]. split.
    + apply Hgs'. apply in_map. exact Hei'.
    + rewrite (flags_step_skel _ _ _ E2), E1. exact Hsk.
  - destruct Hstep as (-> & _ & _ & Hst). destruct Hgp as [_ Hsk]. inversion Hgs'; subst. split; [assumption|].
    rewrite (flags_step_skel _ _ _ Hst). exact Hsk.
Qed.

(* ================================================================================================ *)
(* 7. clause 2: events come in descending priority                                                  *)
(* ================================================================================================ *)
Definition spec_ids (s : inst_spec) : list Z := map a_id (i_actions s).
Definition p_owner (sc : scenario) : bool :=
  forallb (fun x => forallb (fun y => Z.eqb (fst (fst x)) (fst (fst y)) || JudgeC12P.disjz (spec_ids (snd x)) (spec_ids (snd y))) (s_cfg sc)) (s_cfg sc).
Definition evp (sc : scenario) (a : Z) : list Z := match ctx_of_action sc a with Some c => [ctx_prio c] | None => [] end.

Lemma skel_ids s : map fst (spec_skel s) = spec_ids s.
Proof. unfold spec_skel, spec_ids. rewrite map_map. reflexivity. Qed.
Lemma inst_skel_ids i : map fst (inst_skel i) = map ab_id (in_binds i).
Proof. unfold inst_skel. rewrite map_map. reflexivity. Qed.

Lemma ctx_of_action_owner sc c e a : p_owner sc = true -> In a (spec_ids (cfg_lookup sc c e)) -> ctx_of_action sc a = Some c.
Proof.
  intros Ho Ha.
  unfold cfg_lookup in *. destruct (find (fun x0 => Z.eqb (fst (fst x0)) c && Z.eqb (snd (fst x0)) e) (s_cfg sc)) as [y|] eqn:Ef; [|destruct Ha].
  apply find_some in Ef. destruct Ef as [Hy Hp]. apply andb_true_iff in Hp. destruct Hp as [Hp _]. apply Z.eqb_eq in Hp.
  unfold ctx_of_action.
  assert (Hex : (fun x0 : Z * Z * inst_spec => existsb (fun s => Z.eqb (a_id s) a) (i_actions (snd x0))) y = true).
  { apply existsb_exists. unfold spec_ids in Ha. apply in_map_iff in Ha. destruct Ha as (s & Hs & Hin). exists s. split; [exact Hin | apply Z.eqb_eq; exact Hs]. }
  match goal with |- match ?F with _ => _ end = _ => destruct F as [z|] eqn:Ez end.
  - apply find_some in Ez. destruct Ez as [Hz Hzp]. f_equal. unfold p_owner in Ho. rewrite forallb_forall in Ho. specialize (Ho z Hz).
    rewrite forallb_forall in Ho. specialize (Ho y Hy). apply orb_true_iff in Ho. destruct Ho as [Ho|Ho]; [apply Z.eqb_eq in Ho; exact (eq_trans Ho Hp)|].
    exfalso. apply existsb_exists in Hzp. destruct Hzp as (s & Hs & Hsa). apply Z.eqb_eq in Hsa.
    refine (JudgeC12P.disjz_spec _ _ a Ho _ Ha). unfold spec_ids. rewrite <- Hsa. apply in_map. exact Hs.
  - exfalso. pose proof (find_none _ _ Ez y Hy) as Hn. cbv beta in Hn, Hex. exact (eq_true_false_abs _ Hex Hn).
Qed.

Lemma desc_const p l : (forall x, In x l -> x = p) -> desc l.
Proof.
  unfold desc. induction l as [|y l IH]; intros H; constructor.
  - apply IH. intros x Hx. apply H. right. exact Hx.
  - apply Forall_forall. intros x Hx. rewrite (H y (or_introl eq_refl)), (H x (or_intror Hx)). lia.
Qed.
Lemma prios_desc_of_desc l : desc l -> prios_desc l = true.
Proof.
  unfold desc. induction 1 as [|a l Hs IH Hf]; [reflexivity|]. destruct l as [|b r]; [reflexivity|].
  change (prios_desc (a :: b :: r)) with (Z.leb b a && prios_desc (b :: r)). rewrite IH, andb_true_r.
  inversion Hf; subst. apply Z.leb_le. lia.
Qed.
Lemma ev_split_desc sc gs evs : ev_split gs evs ->
  (forall g, In g gs -> forall a, In a (gids g) -> evp sc a = [g_prio g]) -> desc (map g_prio gs) ->
  let l := flat_map (fun ev => evp sc (e_action ev)) evs in
  desc l /\ forall x, In x l -> In x (map g_prio gs).
Proof.
  induction 1 as [|g gs e1 e2 H1 H2 IH]; intros Hp Hd; cbv zeta; cbn [flat_map map].
  - split; [constructor | intros x []].
  - rewrite flat_map_app. apply desc_cons in Hd. destruct Hd as [Hd Hge].
    destruct IH as [I1 I2]; [intros g' Hg'; apply Hp; right; exact Hg' | exact Hd|].
    assert (Hc : forall x, In x (flat_map (fun ev => evp sc (e_action ev)) e1) -> x = g_prio g).
    { intros x Hx. apply in_flat_map in Hx. destruct Hx as (ev & Hev & Hx). rewrite (Hp g (or_introl eq_refl) _ (H1 ev Hev)) in Hx.
      destruct Hx as [<-|[]]. reflexivity. }
    split.
    + apply desc_app. split; [apply (desc_const (g_prio g)); exact Hc|]. split; [exact I1|].
      intros a b Ha Hb. rewrite (Hc a Ha). apply Hge. apply I2. exact Hb.
    + intros x Hx. apply in_app_or in Hx. destruct Hx as [Hx|Hx]; [left; symmetry; apply Hc; exact Hx | right; apply I2; exact Hx].
Qed.

Lemma Winv_gids sc B w g a : Winv sc B w -> In g (w_reg w) -> In a (gids g) -> exists e, In a (spec_ids (cfg_lookup sc (g_ctx g) e)).
Proof.
  intros (_ & _ & Hg) Hin Ha. rewrite Forall_forall in Hg. specialize (Hg g Hin). unfold gids in Ha. apply in_flat_map in Ha.
  destruct Ha as (i & Hi & Ha). rewrite <- inst_skel_ids in Ha.
  assert (Hsk : exists e, inst_skel i = cskel sc (g_ctx g) e).
  { destruct g as [c p insts|c p ents i0]; cbn [gP g_insts g_ctx] in *.
    - apply in_map_iff in Hi. destruct Hi as (ei & <- & Hei). rewrite Forall_forall in Hg. exists (fst ei). apply (Hg ei Hei).
    - destruct Hi as [<-|[]]. exists 0. apply Hg. }
  destruct Hsk as (e & Hsk). rewrite Hsk in Ha. unfold cskel, skel_of in Ha.
  destruct (ctx_shared (g_ctx g)); rewrite skel_ids in Ha; eexists; exact Ha.
Qed.

Lemma clause2_frame sc B w main : p_owner sc = true -> Winv sc B w -> ev_split (w_reg w) main ->
  forall o, x_main o = main -> order_ok sc o = true.
Proof.
  intros Ho HW Hs o Hm. unfold order_ok. rewrite Hm. apply prios_desc_of_desc.
  pose proof HW as (Hinv & _). destruct Hinv as (Hsorted & _ & Hok & _).
  refine (proj1 (ev_split_desc sc _ _ Hs _ Hsorted)).
  intros g Hg a Ha. destruct (Winv_gids sc B w g a HW Hg Ha) as (e & He). unfold evp.
  rewrite (ctx_of_action_owner sc _ e a Ho He). rewrite Forall_forall in Hok. destruct (Hok g Hg) as (Hp & _). rewrite Hp. reflexivity.
Qed.

(* ================================================================================================ *)
(* 8. looking instances up in the flat lists                                                        *)
(* ================================================================================================ *)
Lemma group_get_excl e c p insts i : group_get e (GExcl c p insts) = Some i -> In (e, i) insts.
Proof.
  cbn [group_get]. destruct (find (fun ei => Z.eqb (fst ei) e) insts) as [[x j]|] eqn:E; cbn; [|discriminate].
  intros [= <-]. apply find_some in E. destruct E as [E1 E2]. cbn in E2. apply Z.eqb_eq in E2. subst x. exact E1.
Qed.
Lemma flat_group_get g e i ab : g_shared g = ctx_shared (g_ctx g) -> group_get e g = Some i -> In ab (in_binds i) ->
  In (abs_ab (g_ctx g) (te (g_ctx g) e) ab) (flat_group g).
Proof.
  intros Hsh Hget Hab. unfold te. rewrite <- Hsh. destruct g as [c p insts|c p ents i0]; cbn [g_shared g_ctx flat_group].
  - apply group_get_excl in Hget. apply in_flat_map. exists (e, i). split; [exact Hget|]. cbn [fst snd]. unfold flat_inst. apply in_map. exact Hab.
  - cbn [group_get] in Hget. destruct (existsb (Z.eqb e) ents); [|discriminate]. injection Hget as ->. unfold flat_inst. apply in_map. exact Hab.
Qed.
Lemma sts_group_get g e i a : g_shared g = ctx_shared (g_ctx g) -> group_get e g = Some i -> In a (map ab_id (in_binds i)) ->
  In ((g_ctx g, te (g_ctx g) e, a), st_of (in_actions i) a) (sts_group g).
Proof.
  intros Hsh Hget Ha. unfold te. rewrite <- Hsh. destruct g as [c p insts|c p ents i0]; cbn [g_shared g_ctx sts_group].
  - apply group_get_excl in Hget. apply in_flat_map. exists (e, i). split; [exact Hget|]. cbn [fst snd]. unfold sts_inst.
    apply in_map_iff. exists a. split; [reflexivity | exact Ha].
  - cbn [group_get] in Hget. destruct (existsb (Z.eqb e) ents); [|discriminate]. injection Hget as ->. unfold sts_inst.
    apply in_map_iff. exists a. split; [reflexivity | exact Ha].
Qed.
Lemma reg_get_split r c e i : reg_wf r -> reg_get c e r = Some i ->
  exists l1 g l2, r = l1 ++ g :: l2 /\ g_ctx g = c /\ group_get e g = Some i /\ g_shared g = ctx_shared c /\ In g r.
Proof.
  intros Hwf H. destruct (reg_get_group c e r i H) as (l1 & g & l2 & -> & _ & Hc & Hget). exists l1, g, l2.
  destruct (reg_wf_group _ _ _ Hwf) as (_ & Hsh & _). rewrite Hc in Hsh. repeat split; try assumption. apply in_or_app. right. left. reflexivity.
Qed.
Lemma sts_reg_get r c e i a : reg_wf r -> reg_get c e r = Some i -> In a (map ab_id (in_binds i)) ->
  In ((c, te c e, a), st_of (in_actions i) a) (sts_reg r).
Proof.
  intros Hwf H Ha. destruct (reg_get_split r c e i Hwf H) as (l1 & g & l2 & -> & <- & Hget & Hsh & _).
  unfold sts_reg. rewrite flat_map_app. apply in_or_app. right. cbn [flat_map]. apply in_or_app. left. apply sts_group_get; assumption.
Qed.

(* tags are unique *)
Lemma nodup_flat_map {A B C} (f : A -> list B) (key : B -> C) (kA : A -> C) l :
  (forall x y, In x l -> In y (f x) -> key y = kA x) -> NoDup (map kA l) -> (forall x, In x l -> NoDup (f x)) -> NoDup (flat_map f l).
Proof.
  induction l as [|x l IH]; intros Hk Hd Hf; cbn [flat_map]; [constructor|]. cbn [map] in Hd. inversion Hd as [|? ? Hn Hd']; subst.
  apply JudgeC03P.nodup_app. split; [apply Hf; left; reflexivity|]. split.
  - apply IH; [intros x' y Hx' Hy; apply Hk; [right; exact Hx' | exact Hy] | exact Hd' | intros x' Hx'; apply Hf; right; exact Hx'].
  - intros y Hy1 Hy2. apply in_flat_map in Hy2. destruct Hy2 as (x' & Hx' & Hy2). apply Hn.
    rewrite <- (Hk x y (or_introl eq_refl) Hy1), (Hk x' y (or_intror Hx') Hy2). apply in_map. exact Hx'.
Qed.
Definition tags_inst (c e : Z) (i : inst) : list (Z * Z * Z) := map (fun a => (c, e, a)) (map ab_id (in_binds i)).
Lemma tags_flat_inst c e i : map aa_tag (flat_inst c e i) = tags_inst c e i.
Proof. unfold flat_inst, tags_inst. rewrite !map_map. reflexivity. Qed.
Lemma nodup_map_inj {A B} (f : A -> B) l : (forall x y, f x = f y -> x = y) -> NoDup l -> NoDup (map f l).
Proof.
  intros Hf. induction 1 as [|x l Hn _ IH]; cbn [map]; constructor; [|exact IH]. intros H. apply in_map_iff in H.
  destruct H as (y & E & Hy). apply Hf in E. subst y. contradiction.
Qed.
Lemma map_flat_map {A B C} (g : B -> C) (f : A -> list B) l : map g (flat_map f l) = flat_map (fun x => map g (f x)) l.
Proof. induction l as [|x l IH]; cbn [flat_map map]; [reflexivity|]. rewrite map_app, IH. reflexivity. Qed.

Lemma flat_tags_nodup r : reg_wf r -> (forall g i, In g r -> In i (g_insts g) -> NoDup (map ab_id (in_binds i))) ->
  NoDup (map aa_tag (flat_reg r)).
Proof.
  intros (_ & Hd & Hok) Hids. unfold flat_reg. rewrite map_flat_map.
  apply (nodup_flat_map (fun g => map aa_tag (flat_group g)) (fun t => fst (fst t)) g_ctx r); [| exact Hd |].
  - intros g t Hg Ht. destruct g as [c p insts|c p ents i]; cbn [flat_group g_ctx] in *.
    + rewrite map_flat_map in Ht. apply in_flat_map in Ht. destruct Ht as (ei & _ & Ht). rewrite tags_flat_inst in Ht.
      apply in_map_iff in Ht. destruct Ht as (a & <- & _). reflexivity.
    + rewrite tags_flat_inst in Ht. apply in_map_iff in Ht. destruct Ht as (a & <- & _). reflexivity.
  - intros g Hg. rewrite Forall_forall in Hok. destruct (Hok g Hg) as (_ & _ & _ & Hnd & _).
    destruct g as [c p insts|c p ents i]; cbn [flat_group g_ents g_insts] in *.
    + rewrite map_flat_map.
      apply (nodup_flat_map (fun ei : entity * inst => map aa_tag (flat_inst c (fst ei) (snd ei))) (fun t => snd (fst t)) fst insts); [| exact Hnd |].
      * intros ei t _ Ht. rewrite tags_flat_inst in Ht. apply in_map_iff in Ht. destruct Ht as (a & <- & _). reflexivity.
      * intros ei Hei. rewrite tags_flat_inst. apply nodup_map_inj; [intros x y [= E]; exact E|].
        apply (Hids _ (snd ei) Hg). cbn [g_insts]. apply in_map. exact Hei.
    + rewrite tags_flat_inst. apply nodup_map_inj; [intros x y [= E]; exact E|]. apply (Hids _ i Hg). left. reflexivity.
Qed.

Lemma Winv_insts_nodup sc B w g i : Winv sc B w -> In g (w_reg w) -> In i (g_insts g) -> NoDup (map ab_id (in_binds i)).
Proof.
  intros (_ & _ & Hg) Hin Hi. rewrite Forall_forall in Hg. specialize (Hg g Hin). apply gP_gsimple in Hg. unfold gsimple in Hg.
  rewrite Forall_forall in Hg. apply (Hg i Hi).
Qed.
Lemma Winv_tags sc B w : Winv sc B w -> NoDup (map aa_tag (flat_reg (w_reg w))).
Proof.
  intros HW. apply flat_tags_nodup; [apply (proj1 (reg_inv_alt sc w) (proj1 HW))|]. intros g i. apply (Winv_insts_nodup sc B w g i HW).
Qed.

(* the invariant at one (context, entity) *)
Lemma Winv_get sc B w c e i : Winv sc B w -> reg_get c e (w_reg w) = Some i -> simple_inst B (lim_of sc) i /\ inst_skel i = cskel sc c e.
Proof.
  intros (Hinv & _ & Hg) H. pose proof (proj1 (reg_inv_alt sc w) Hinv) as (Hwf & _).
  destruct (reg_get_split _ c e i Hwf H) as (l1 & g & l2 & _ & Hc & Hget & Hsh & Hin). rewrite Forall_forall in Hg. specialize (Hg g Hin).
  destruct g as [c0 p insts|c0 p ents i0]; cbn [gP g_ctx g_shared] in *; subst c0.
  - apply group_get_excl in Hget. rewrite Forall_forall in Hg. exact (Hg (e, i) Hget).
  - cbn [group_get] in Hget. destruct (existsb (Z.eqb e) ents); [|discriminate]. injection Hget as ->. destruct Hg as [G1 G2]. split; [exact G1|].
    rewrite G2. unfold cskel. rewrite <- Hsh. reflexivity.
Qed.

(* ================================================================================================ *)
(* 9. the judgement's vocabulary in terms of skeletons; what a snapshot shows                       *)
(* ================================================================================================ *)
Definition keys_sk (sk : list (Z * list Z)) : list Z := flat_map snd sk.
Definition find_k (k : Z) (sk : list (Z * list Z)) : option (Z * list Z) := find (fun p => memz k (snd p)) sk.

Lemma find_map {A B} (p : B -> bool) (f : A -> B) l : find p (map f l) = option_map f (find (fun x => p (f x)) l).
Proof. induction l as [|x l IH]; cbn [map find]; [reflexivity|]. destruct (p (f x)); [reflexivity | exact IH]. Qed.
Lemma find_ext_in {A} (p q : A -> bool) l : (forall x, In x l -> p x = q x) -> find p l = find q l.
Proof.
  induction l as [|x l IH]; intros H; cbn [find]; [reflexivity|]. rewrite (H x (or_introl eq_refl)).
  destruct (q x); [reflexivity|]. apply IH. intros y Hy. apply H. right. exact Hy.
Qed.
Lemma find_split {A} (p : A -> bool) l x : find p l = Some x ->
  exists l1 l2, l = l1 ++ x :: l2 /\ (forall y, In y l1 -> p y = false) /\ p x = true.
Proof.
  induction l as [|y l IH]; cbn [find]; [discriminate|]. destruct (p y) eqn:E.
  - intros [= ->]. exists [], l. split; [reflexivity|]. split; [intros z []|exact E].
  - intros H. destruct (IH H) as (l1 & l2 & -> & H1 & H2). exists (y :: l1), l2. split; [reflexivity|]. split; [|exact H2].
    intros z [<-|Hz]; [exact E | apply H1; exact Hz].
Qed.
Lemma good_bind_key b : good_bindb b = true -> b_input b = IKey (bkey b) 0.
Proof.
  unfold good_bindb, bkey. destruct (b_input b) as [k m| | | | |]; cbn; try discriminate. destruct m; cbn; try discriminate. reflexivity.
Qed.
Lemma good_spec_actions lim s a : good_specb lim s = true -> In a (i_actions s) -> forall b, In b (a_binds a) -> b_input b = IKey (bkey b) 0.
Proof.
  unfold good_specb, good_actionb. intros H Ha b Hb. apply andb_true_iff in H. destruct H as [H _]. rewrite forallb_forall in H.
  specialize (H a Ha). repeat (apply andb_true_iff in H; destruct H as [H ?]). rewrite forallb_forall in *. apply good_bind_key. auto.
Qed.
Lemma keys_of_skel sc c e : p_cfg sc = true -> keys_of sc c e = keys_sk (skel_of sc c e).
Proof.
  intros Hcfg. pose proof (cfg_good sc c e Hcfg) as Hg. unfold keys_of, keys_sk, skel_of, spec_skel.
  assert (Hb : forall a, In a (i_actions (cfg_lookup sc c e)) -> forall b, In b (a_binds a) -> b_input b = IKey (bkey b) 0)
    by (intros a; apply (good_spec_actions _ _ a Hg)). clear Hg. revert Hb.
  generalize (i_actions (cfg_lookup sc c e)). intros l Hb. induction l as [|a l IH]; [reflexivity|]. cbn [flat_map map snd].
  rewrite IH by (intros a' Ha'; apply Hb; right; exact Ha'). f_equal.
  specialize (Hb a (or_introl eq_refl)). clear IH. induction (a_binds a) as [|b bs IHb]; [reflexivity|]. cbn [flat_map map].
  rewrite (Hb b (or_introl eq_refl)), IHb by (intros b' Hb'; apply Hb; right; exact Hb'). reflexivity.
Qed.
Lemma action_on_key_skel sc c e k : p_cfg sc = true -> action_on_key sc c e k = option_map fst (find_k k (skel_of sc c e)).
Proof.
  intros Hcfg. pose proof (cfg_good sc c e Hcfg) as Hg. unfold action_on_key, find_k, skel_of, spec_skel.
  rewrite find_map. cbn [snd].
  rewrite (find_ext_in _ (fun x => memz k (map bkey (a_binds x))) (i_actions (cfg_lookup sc c e))).
  - destruct (find _ _); reflexivity.
  - intros a Ha. pose proof (good_spec_actions _ _ a Hg Ha) as Hb. unfold memz. induction (a_binds a) as [|b bs IH]; [reflexivity|].
    cbn [existsb map]. rewrite (Hb b (or_introl eq_refl)). cbn [bkey ikey]. rewrite IH by (intros b' Hb'; apply Hb; right; exact Hb'). reflexivity.
Qed.

Lemma holders_in sc w before c e : x_mirror before = model_mirror sc w -> In e (holders c before) ->
  In c (s_menu sc) /\ In e (s_ents sc) /\ gotb w c e = true.
Proof.
  intros Hm H. unfold holders in H. rewrite Hm in H. apply in_flat_map in H. destruct H as (m & Hin & He).
  apply in_model_mirror in Hin. destruct Hin as (c' & e' & Hc & He' & ->). destruct (Z.eqb c c' && gotb w c' e') eqn:E; [|destruct He].
  destruct He as [<-|[]]. apply andb_true_iff in E. destruct E as [E1 E2]. apply Z.eqb_eq in E1. subst c'. repeat split; assumption.
Qed.

Lemma state_lookup sc B w o c e i a : Winv sc B w -> x_snaps o = model_snaps sc w -> In c (s_menu sc) -> In e (s_ents sc) ->
  reg_get c e (w_reg w) = Some i -> In a (spec_ids (cfg_lookup sc c e)) -> In a (map ab_id (in_binds i)) ->
  state_at c e a o = Some (st_of (in_actions i) a).
Proof.
  intros HW Hs Hc He Hget Ha Hai. unfold state_at. rewrite Hs.
  assert (Hcfg : has_cfg sc c e = true).
  { destruct (has_cfg sc c e) eqn:E; [reflexivity|]. rewrite (has_cfg_false sc c e E) in Ha. destruct Ha. }
  rewrite (snap_of_entry_model sc w c e a Hc He Hcfg) by (apply in_spec_aids; exact Ha).
  unfold snapv. rewrite Hget. pose proof (reg_inv_get_wf sc w c e i (proj1 HW) Hget) as Hwf.
  apply in_map_iff in Hai. destruct Hai as (ab & <- & Hab). specialize (Hwf ab Hab). unfold st_of.
  destruct (lookup (ab_id ab) (in_actions i)) as [d|]; [reflexivity | congruence].
Qed.

(* ================================================================================================ *)
(* 10. clause 1: the higher type wins every contested key                                           *)
(* ================================================================================================ *)
Definition tkeys (sc : scenario) (c : Z) : list Z := flat_map (fun e => keys_sk (skel_of sc c e)) (s_ents sc).
(* no key is bound by three context types *)
Definition p_two (sc : scenario) : bool :=
  forallb (fun c1 => forallb (fun c2 => forallb (fun c3 =>
    Z.eqb c1 c2 || Z.eqb c1 c3 || Z.eqb c2 c3 ||
    forallb (fun k => negb (memz k (tkeys sc c2) && memz k (tkeys sc c3))) (tkeys sc c1)) (s_menu sc)) (s_menu sc)) (s_menu sc).
(* the action of the lower type on a contested key reads no key the action of the higher type does not read *)
Definition p_pairs (sc : scenario) : bool :=
  forallb (fun ca => forallb (fun cb =>
    if Z.ltb (ctx_prio cb) (ctx_prio ca) then
      forallb (fun ea => forallb (fun eb => forallb (fun k =>
        match find_k k (skel_of sc ca ea), find_k k (skel_of sc cb eb) with
        | Some pa, Some pb => forallb (fun k2 => memz k2 (snd pa)) (snd pb)
        | _, _ => true
        end) (keys_sk (skel_of sc ca ea))) (s_ents sc)) (s_ents sc)
    else true) (s_menu sc)) (s_menu sc).
Definition hholds (h : list (entity * list ctx)) (c e : Z) : bool :=
  match holds_of e h with Some cs => memz c cs | None => false end.
(* at a judged frame: an exclusive type has one holder; the keys contested between held instances are down *)
Definition judged (sc : scenario) (h : list (entity * list ctx)) (K : list Z) : bool :=
  forallb (fun c => ctx_shared c ||
     forallb (fun e1 => forallb (fun e2 => negb (hholds h c e1 && hholds h c e2) || Z.eqb e1 e2) (s_ents sc)) (s_ents sc)) (s_menu sc) &&
  forallb (fun ca => forallb (fun cb =>
    if Z.ltb (ctx_prio cb) (ctx_prio ca) then
      forallb (fun ea => forallb (fun eb => negb (hholds h ca ea && hholds h cb eb) ||
        forallb (fun k => negb (memz k (keys_sk (skel_of sc cb eb))) || memz k K) (keys_sk (skel_of sc ca ea))) (s_ents sc)) (s_ents sc)
    else true) (s_menu sc)) (s_menu sc).

Lemma fb {A} {f : A -> bool} {l} (H : forallb f l = true) x : In x l -> f x = true.
Proof. apply forallb_forall. exact H. Qed.

Lemma akeys_abs c e ab : akeys (abs_ab c e ab) = map (fun b => ikey (ib_input b)) (ab_inputs ab).
Proof. unfold akeys, abs_ab. cbn [aa_ins]. rewrite map_map. reflexivity. Qed.

Lemma winner_split i sk k aa ka : inst_skel i = sk -> find_k k sk = Some (aa, ka) ->
  exists bs1 ab bs2, in_binds i = bs1 ++ ab :: bs2 /\ ab_id ab = aa /\ map (fun b => ikey (ib_input b)) (ab_inputs ab) = ka /\
    In k ka /\ forall b, In b bs1 -> ~ In k (map (fun b0 => ikey (ib_input b0)) (ab_inputs b)).
Proof.
  intros Hsk Hf. unfold find_k in Hf. destruct (find_split _ _ _ Hf) as (s1 & s2 & E & H1 & H2). cbn [snd] in H2. apply memz_in in H2.
  rewrite <- Hsk in E. unfold inst_skel in E. apply map_eq_app in E. destruct E as (l1 & l2 & E & M1 & M2).
  apply map_eq_cons in M2. destruct M2 as (ab & tl & -> & M2 & M3). injection M2 as Ma Mk.
  exists l1, ab, tl. split; [exact E|]. split; [exact Ma|]. split; [exact Mk|]. split; [exact H2|].
  intros b Hb Hin. assert (Hy : In (ab_id b, map (fun b0 => ikey (ib_input b0)) (ab_inputs b)) s1).
  { rewrite <- M1. apply (in_map (fun ab0 => (ab_id ab0, map (fun b0 => ikey (ib_input b0)) (ab_inputs ab0)))). exact Hb. }
  specialize (H1 _ Hy). cbn [snd] in H1. apply memz_false in H1. contradiction.
Qed.
Lemma loser_in i sk k a kb : inst_skel i = sk -> find_k k sk = Some (a, kb) ->
  exists ab, In ab (in_binds i) /\ ab_id ab = a /\ map (fun b => ikey (ib_input b)) (ab_inputs ab) = kb.
Proof.
  intros Hsk Hf. apply find_some in Hf. destruct Hf as [Hin _]. rewrite <- Hsk in Hin. unfold inst_skel in Hin. apply in_map_iff in Hin.
  destruct Hin as (ab & [= E1 E2] & Hab). exists ab. repeat split; assumption.
Qed.

Lemma in_keys_sk k sk : In k (keys_sk sk) <-> exists p, In p sk /\ In k (snd p).
Proof. unfold keys_sk. rewrite in_flat_map. tauto. Qed.

(* every stored action reads keys its context type is configured with *)
Lemma Winv_flat_keys sc B w g x k : p_shared sc = true -> Winv sc B w -> In g (w_reg w) -> In x (flat_group g) -> In k (akeys x) ->
  In k (tkeys sc (g_ctx g)).
Proof.
  intros Hsh HW Hg Hx Hk. pose proof HW as (Hinv & Hents & Hgp). rewrite Forall_forall in Hgp. specialize (Hgp g Hg).
  pose proof (JudgeC12P.reg_ctx_menu sc w g Hinv Hg) as Hmenu.
  assert (Hlive : forall e, In e (g_ents g) -> In e (s_ents sc)).
  { intros e He. apply Hents. apply (inv_holds_group sc w g Hinv Hg) in He. eapply holds_live. exact He. }
  assert (Hne : exists e0, In e0 (g_ents g)).
  { destruct Hinv as (_ & _ & Hok & _). rewrite Forall_forall in Hok. destruct (Hok g Hg) as (_ & _ & Hne & _).
    destruct (g_ents g) as [|e0 l]; [congruence|]. exists e0. left. reflexivity. }
  assert (Hgen : forall e3 i ab c e, In e3 (s_ents sc) -> inst_skel i = skel_of sc (g_ctx g) e3 -> In ab (in_binds i) -> x = abs_ab c e ab ->
                   In k (tkeys sc (g_ctx g))).
  { intros e3 i ab c e He3 Hsk Hab ->. rewrite akeys_abs in Hk. unfold tkeys. apply in_flat_map. exists e3. split; [exact He3|].
    apply in_keys_sk. exists (ab_id ab, map (fun b => ikey (ib_input b)) (ab_inputs ab)). split; [|exact Hk].
    rewrite <- Hsk. unfold inst_skel. apply (in_map (fun ab0 => (ab_id ab0, map (fun b0 => ikey (ib_input b0)) (ab_inputs ab0)))). exact Hab. }
  destruct g as [c p insts|c p ents i]; cbn [gP flat_group g_ctx g_ents] in *.
  - apply in_flat_map in Hx. destruct Hx as (ei & Hei & Hx). unfold flat_inst in Hx. apply in_map_iff in Hx. destruct Hx as (ab & <- & Hab).
    rewrite Forall_forall in Hgp. destruct (Hgp ei Hei) as [_ Hsk].
    assert (He3 : In (fst ei) (s_ents sc)) by (apply Hlive; apply in_map; exact Hei).
    exact (Hgen (fst ei) (snd ei) ab c (fst ei) He3 (eq_trans Hsk (cskel_ok sc c (fst ei) Hsh Hmenu He3)) Hab eq_refl).
  - unfold flat_inst in Hx. apply in_map_iff in Hx. destruct Hx as (ab & <- & Hab). destruct Hgp as [_ Hsk].
    destruct Hne as (e0 & He0). pose proof (Hlive e0 He0) as He0'.
    assert (Hhd : In (hd 0 (s_ents sc)) (s_ents sc)) by (destruct (s_ents sc); [destruct He0' | left; reflexivity]).
    assert (Hsk' : inst_skel i = skel_of sc c (hd 0 (s_ents sc))).
    { assert (Hs : ctx_shared c = true).
      { destruct Hinv as (_ & _ & Hok & _). rewrite Forall_forall in Hok. destruct (Hok _ Hg) as (_ & Hs & _). cbn in Hs. congruence. }
      rewrite Hsk. unfold cskel. rewrite Hs. reflexivity. }
    exact (Hgen _ i ab c 0 Hhd Hsk' Hab eq_refl).
Qed.

Lemma gotb_get w c e : gotb w c e = true -> exists i, reg_get c e (w_reg w) = Some i.
Proof. unfold gotb. destruct (reg_get c e (w_reg w)) as [i|]; [exists i; reflexivity | discriminate]. Qed.

(* the polled state of an action of a held instance is the one the flat evaluation computed for its tag *)
Lemma post_state sc B w o c e a ks s : p_shared sc = true ->
  Winv sc B w -> x_snaps o = model_snaps sc w -> In c (s_menu sc) -> In e (s_ents sc) -> gotb w c e = true ->
  In (a, ks) (skel_of sc c e) -> NoDup (map fst (sts_reg (w_reg w))) -> In ((c, te c e, a), s) (sts_reg (w_reg w)) ->
  state_at c e a o = Some s.
Proof.
  intros Hsh HW Hs Hc He Hg Ha Hnd Hin. destruct (gotb_get w c e Hg) as (i & Hget).
  destruct (Winv_get sc B w c e i HW Hget) as [_ Hsk]. rewrite (cskel_ok sc c e Hsh Hc He) in Hsk.
  assert (Hai : In a (map ab_id (in_binds i))).
  { rewrite <- inst_skel_ids, Hsk. apply (in_map fst) in Ha. exact Ha. }
  assert (Has : In a (spec_ids (cfg_lookup sc c e))).
  { rewrite <- skel_ids. apply (in_map fst) in Ha. exact Ha. }
  rewrite (state_lookup sc B w o c e i a HW Hs Hc He Hget Has Hai). f_equal.
  pose proof (sts_reg_get (w_reg w) c e i a (proj1 (proj1 (reg_inv_alt sc w) (proj1 HW))) Hget Hai) as Hin'.
  exact (nodup_fst_fun _ _ _ _ Hnd Hin' Hin).
Qed.

(* the group of a type with a single visible instance, flattened *)
Lemma single_group_flat sc w g c e i :
  reg_inv sc w -> ents_inv sc w -> In g (w_reg w) -> g_ctx g = c -> group_get e g = Some i ->
  (ctx_shared c = false -> forall e', In e' (s_ents sc) -> hholds (w_holds w) c e' = true -> e' = e) ->
  flat_group g = flat_inst c (te c e) i.
Proof.
  intros Hinv Hents Hg Hc Hget Hsingle. pose proof Hinv as (_ & _ & Hok & _). rewrite Forall_forall in Hok.
  destruct (Hok g Hg) as (_ & Hsh & Hne & Hnd & _). rewrite Hc in Hsh. unfold te. rewrite <- Hsh.
  destruct g as [c0 p insts|c0 p ents i0]; cbn [g_ctx g_shared g_ents flat_group] in *; subst c0.
  - assert (Hall : forall x, In x (map fst insts) -> x = e).
    { intros x Hx. pose proof (proj1 (inv_holds_group sc w _ Hinv Hg x) Hx) as Hh. cbn [g_ctx] in Hh.
      apply Hsingle; [symmetry; exact Hsh | apply Hents; eapply holds_live; exact Hh |]. apply (holdsb_iff w c x). exact Hh. }
    pose proof (JudgeC12P.nodup_all_eq e (map fst insts) Hnd Hne Hall) as E1.
    apply group_get_excl in Hget. destruct insts as [|[x j] [|y r]]; cbn [map fst] in E1; try discriminate.
    destruct Hget as [[= -> ->]|[]]. cbn [flat_map fst snd]. apply app_nil_r.
  - cbn [group_get] in Hget. destruct (existsb (Z.eqb e) ents); [|discriminate]. injection Hget as ->. reflexivity.
Qed.

Lemma flat_reg_mid l1 g l2 : flat_reg (l1 ++ g :: l2) = flat_reg l1 ++ flat_group g ++ flat_reg l2.
Proof. unfold flat_reg. rewrite flat_map_app. reflexivity. Qed.

Lemma prio_neq ca cb : ctx_prio cb < ctx_prio ca -> ca <> cb.
Proof. intros H ->. lia. Qed.

Lemma clause1_frame sc B w f fo before o :
  p_cfg sc = true -> p_shared sc = true -> p_two sc = true -> p_pairs sc = true ->
  (0 <= B)%Q -> (B + (1 # 4) <= lim_of sc)%Q -> f_ops f = [] ->
  Winv sc B w -> Forall unflagged (flat_reg (w_reg w)) ->
  judged sc (w_holds w) (r_keys (f_raw f)) = true ->
  frame sc w f = Some fo ->
  x_mirror before = model_mirror sc w -> x_snaps o = model_snaps sc (fo_world fo) ->
  pairs_ok sc before o = true.
Proof.
  intros Hcfg Hsh Htwo Hpairs HB Hl Hops HW Hunf Hj Hf Hmir Hsn.
  destruct (frame_step sc B w f fo Hops HB Hl HW Hf) as (HW' & Hh' & _ & Hflat & Hsts & _).
  pose proof HW as (Hinv & Hents & _).
  assert (Hnd : NoDup (map fst (sts_reg (w_reg (fo_world fo))))) by (rewrite Hsts, aev_r_tags; apply (Winv_tags sc B w HW)).
  apply andb_true_iff in Hj. destruct Hj as [Hj1 Hj2].
  unfold pairs_ok. apply forallb_forall. intros ca Hca. apply forallb_forall. intros cb Hcb.
  destruct (Z.ltb (ctx_prio cb) (ctx_prio ca)) eqn:Ep; [|reflexivity]. pose proof Ep as Ep'. apply Z.ltb_lt in Ep'.
  apply forallb_forall. intros ea Hea. apply forallb_forall. intros eb Heb. apply forallb_forall. intros k Hk.
  destruct (memz k (keys_of sc cb eb)) eqn:Ekb; [|reflexivity].
  rewrite !action_on_key_skel by exact Hcfg. rewrite keys_of_skel in Hk, Ekb by exact Hcfg.
  destruct (holders_in sc w before ca ea Hmir Hea) as (_ & Hea' & Hga). destruct (holders_in sc w before cb eb Hmir Heb) as (_ & Heb' & Hgb).
  destruct (find_k k (skel_of sc ca ea)) as [[aa ka]|] eqn:Fa; cbn [option_map fst]; [|reflexivity].
  destruct (find_k k (skel_of sc cb eb)) as [[ab_ kb]|] eqn:Fb; cbn [option_map fst]; [|reflexivity].
  (* static facts *)
  assert (Hincl : incl kb ka).
  { pose proof (fb (fb Hpairs ca Hca) cb Hcb) as P. cbv beta in P. rewrite Ep in P.
    pose proof (fb (fb (fb P ea Hea') eb Heb') k Hk) as P2. cbv beta in P2. rewrite Fa, Fb in P2. cbn [snd] in P2.
    intros k2 Hk2. apply memz_in. exact (fb P2 k2 Hk2). }
  (* the holders *)
  assert (Hha : hholds (w_holds w) ca ea = true) by (rewrite <- Hga; symmetry; apply (gotb_holdsb sc w ca ea Hinv)).
  assert (Hhb : hholds (w_holds w) cb eb = true) by (rewrite <- Hgb; symmetry; apply (gotb_holdsb sc w cb eb Hinv)).
  assert (HkK : In k (r_keys (f_raw f))).
  { pose proof (fb (fb Hj2 ca Hca) cb Hcb) as P. cbv beta in P. rewrite Ep in P.
    pose proof (fb (fb P ea Hea') eb Heb') as P2. cbv beta in P2. rewrite Hha, Hhb in P2. cbn [andb negb orb] in P2.
    pose proof (fb P2 k Hk) as P3. cbv beta in P3. rewrite Ekb in P3. cbn in P3. apply memz_in. exact P3. }
  assert (Hsingle : forall c e, In c (s_menu sc) -> ctx_shared c = false -> hholds (w_holds w) c e = true -> In e (s_ents sc) ->
                      forall e', In e' (s_ents sc) -> hholds (w_holds w) c e' = true -> e' = e).
  { intros c e Hc Hs He Hin e' Hin' He'. pose proof (fb Hj1 c Hc) as P. cbv beta in P. rewrite Hs in P. cbn [orb] in P.
    pose proof (fb (fb P e' Hin') e Hin) as P2. cbv beta in P2. rewrite He', He in P2. cbn in P2. apply Z.eqb_eq. exact P2. }
  destruct (gotb_get w ca ea Hga) as (ia & Gia). destruct (gotb_get w cb eb Hgb) as (ib & Gib).
  destruct (Winv_get sc B w ca ea ia HW Gia) as [_ Ska]. rewrite (cskel_ok sc ca ea Hsh Hca Hea') in Ska.
  destruct (Winv_get sc B w cb eb ib HW Gib) as [_ Skb]. rewrite (cskel_ok sc cb eb Hsh Hcb Heb') in Skb.
  destruct (winner_split ia _ k aa ka Ska Fa) as (bs1 & aba & bs2 & Eia & Ida & Kda & Hkka & Hbs1).
  destruct (loser_in ib _ k ab_ kb Skb Fb) as (abb & Habb & Idb & Kdb).
  (* the registry *)
  assert (Hia : index_of ca (w_reg w) <> None).
  { apply (inv_group_exists sc w ca Hinv). exists ea. apply (holdsb_iff w ca ea). exact Hha. }
  assert (Hib : index_of cb (w_reg w) <> None).
  { apply (inv_group_exists sc w cb Hinv). exists eb. apply (holdsb_iff w cb eb). exact Hhb. }
  destruct (inv_types_split sc w Hinv ca cb Hia Hib ltac:(lia)) as (l1 & g1 & l2 & g2 & l3 & Er & Hc1 & Hc2).
  pose proof Hinv as (_ & Hndc & _). rewrite Er in Hndc. rewrite map_app in Hndc. cbn [map] in Hndc. rewrite map_app in Hndc. cbn [map] in Hndc.
  destruct (JudgeC12P.NoDup_app_inv _ _ Hndc) as (_ & Hnd2 & Hdis1).
  apply NoDup_cons_iff in Hnd2. destruct Hnd2 as [Hn1 Hnd3].
  assert (Hca1 : ~ In ca (map g_ctx l1)).
  { intros H. apply (Hdis1 _ H). left. exact Hc1. }
  assert (Hcb1 : ~ In cb (map g_ctx (l1 ++ g1 :: l2))).
  { rewrite map_app. cbn [map]. intros H. apply in_app_or in H. destruct H as [H|[H|H]].
    - apply (Hdis1 _ H). right. apply in_or_app. right. left. exact Hc2.
    - apply (prio_neq ca cb Ep'). congruence.
    - destruct (JudgeC12P.NoDup_app_inv _ _ Hnd3) as (_ & _ & Hd). apply (Hd _ H). left. exact Hc2. }
  assert (Gg1 : group_get ea g1 = Some ia) by (rewrite <- (reg_get_found ca ea l1 g1 (l2 ++ g2 :: l3) Hca1 Hc1), <- Er; exact Gia).
  assert (Gg2 : group_get eb g2 = Some ib).
  { rewrite <- (reg_get_found cb eb (l1 ++ g1 :: l2) g2 l3 Hcb1 Hc2). rewrite <- app_assoc. cbn [app]. rewrite <- Er. exact Gib. }
  assert (Hg1in : In g1 (w_reg w)) by (rewrite Er; apply in_or_app; right; left; reflexivity).
  assert (Hg2in : In g2 (w_reg w)) by (rewrite Er; apply in_or_app; right; right; apply in_or_app; right; left; reflexivity).
  pose proof (single_group_flat sc w g1 ca ea ia Hinv Hents Hg1in Hc1 Gg1 (fun Hs => Hsingle ca ea Hca Hs Hha Hea')) as Fg1.
  set (xa := abs_ab ca (te ca ea) aba). set (xb := abs_ab cb (te cb eb) abb).
  assert (Hxb : In xb (flat_group g2)).
  { unfold xb. rewrite <- Hc2. apply (flat_group_get g2 eb ib abb); [|exact Gg2 | exact Habb].
    destruct Hinv as (_ & _ & Hok & _). rewrite Forall_forall in Hok. apply (Hok g2 Hg2in). }
  assert (Eflat : flat_reg (w_reg w) = (flat_reg l1 ++ map (abs_ab ca (te ca ea)) bs1) ++ xa :: (map (abs_ab ca (te ca ea)) bs2 ++ flat_reg (l2 ++ g2 :: l3))).
  { rewrite Er, flat_reg_mid, Fg1. unfold flat_inst. rewrite Eia, map_app. cbn [map]. rewrite <- !app_assoc. reflexivity. }
  assert (HxbM : In xb (map (abs_ab ca (te ca ea)) bs2 ++ flat_reg (l2 ++ g2 :: l3))).
  { apply in_or_app. right. rewrite flat_reg_mid. apply in_or_app. right. apply in_or_app. left. exact Hxb. }
  destruct (in_split _ _ HxbM) as (L2 & L3 & EM). rewrite EM in Eflat.
  assert (Hkta : In k (tkeys sc ca)) by (unfold tkeys; apply in_flat_map; exists ea; split; assumption).
  assert (Hktb : In k (tkeys sc cb)) by (unfold tkeys; apply in_flat_map; exists eb; split; [exact Heb' | apply memz_in; exact Ekb]).
  pose proof (aev_winner (r_keys (f_raw f)) (flat_reg l1 ++ map (abs_ab ca (te ca ea)) bs1) xa L2 xb L3 k HkK) as Hwin.
  destruct Hwin as ((s & Hs1 & Hs2) & Hsb).
  - unfold xa. rewrite akeys_abs, Kda. exact Hkka.
  - rewrite Forall_forall in Hunf. apply Hunf. rewrite Eflat. apply in_or_app. right. left. reflexivity.
  - intros x Hx Hkx. apply in_app_or in Hx. destruct Hx as [Hx|Hx].
    + unfold flat_reg in Hx. apply in_flat_map in Hx. destruct Hx as (g' & Hg' & Hx).
      assert (Hg'in : In g' (w_reg w)) by (rewrite Er; apply in_or_app; left; exact Hg').
      pose proof (Winv_flat_keys sc B w g' x k Hsh HW Hg'in Hx Hkx) as Hkt.
      pose proof (JudgeC12P.reg_ctx_menu sc w g' Hinv Hg'in) as Hmenu'.
      assert (N1 : g_ctx g' <> ca) by (intros E; apply Hca1; rewrite <- E; apply in_map; exact Hg').
      assert (N2 : g_ctx g' <> cb) by (intros E; apply Hcb1; rewrite <- E; apply in_map; apply in_or_app; left; exact Hg').
      pose proof (fb (fb (fb Htwo _ Hmenu') ca Hca) cb Hcb) as P. cbv beta in P.
      apply Z.eqb_neq in N1, N2. rewrite N1, N2 in P. pose proof (prio_neq ca cb Ep') as N3. apply Z.eqb_neq in N3. rewrite N3 in P. cbn [orb] in P.
      pose proof (fb P k Hkt) as P2. cbv beta in P2. apply memz_in in Hkta, Hktb. rewrite Hkta, Hktb in P2. discriminate.
    + apply in_map_iff in Hx. destruct Hx as (b & <- & Hb). rewrite akeys_abs in Hkx. exact (Hbs1 b Hb Hkx).
  - unfold xa, xb. rewrite !akeys_abs, Kda, Kdb. exact Hincl.
  - (* reading the polled states *)
    rewrite <- Eflat, <- Hsts in Hs1, Hsb. unfold xa, xb in Hs1, Hsb. cbn [abs_ab aa_tag] in Hs1, Hsb. rewrite Ida in Hs1. rewrite Idb in Hsb.
    assert (Hga' : gotb (fo_world fo) ca ea = true).
    { rewrite (gotb_holdsb sc _ ca ea (proj1 HW')). unfold holdsb. rewrite Hh'. exact Hha. }
    assert (Hgb' : gotb (fo_world fo) cb eb = true).
    { rewrite (gotb_holdsb sc _ cb eb (proj1 HW')). unfold holdsb. rewrite Hh'. exact Hhb. }
    apply find_some in Fa. destruct Fa as [Fa _]. apply find_some in Fb. destruct Fb as [Fb _].
    rewrite (post_state sc _ _ o ca ea aa ka s Hsh HW' Hsn Hca Hea' Hga' Fa Hnd Hs1).
    rewrite (post_state sc _ _ o cb eb ab_ kb SNone Hsh HW' Hsn Hcb Heb' Hgb' Fb Hnd Hsb).
    destruct s; [congruence | reflexivity | reflexivity].
Qed.

(* ================================================================================================ *)
(* 11. who holds what, as a function of the operations alone                                        *)
(* ================================================================================================ *)
Definition hins (sc : scenario) (h : list (entity * list ctx)) (e : entity) (c : ctx) : list (entity * list ctx) :=
  match holds_of e h with
  | None => h
  | Some cs => if memz c cs || negb (memz c (s_menu sc)) then h else set_holds e (cs ++ [c]) h
  end.
Definition hrem (h : list (entity * list ctx)) (e : entity) (c : ctx) : list (entity * list ctx) :=
  match holds_of e h with
  | None => h
  | Some cs => if negb (memz c cs) then h else set_holds e (filter (fun x => negb (Z.eqb x c)) cs) h
  end.
Definition hstep (sc : scenario) (h : list (entity * list ctx)) (o : op) : list (entity * list ctx) :=
  match o with
  | OSpawn e cs => match holds_of e h with Some _ => h | None => fold_left (fun h' c => hins sc h' e c) cs (h ++ [(e, [])]) end
  | OInsert e c => hins sc h e c
  | ORemove e c => hrem h e c
  | ODespawn e => match holds_of e h with None => h | Some _ => del_ent e h end
  | ORebuild => h
  end.

Lemma insert_ctx_holds sc w e c : w_holds (oo_world (insert_ctx sc w e c)) = hins sc (w_holds w) e c.
Proof.
  unfold insert_ctx, hins. destruct (holds_of e (w_holds w)) as [cs|]; [|reflexivity].
  destruct (memz c cs || negb (memz c (s_menu sc))); reflexivity.
Qed.
Lemma spawn_fold_holds sc e cs : forall acc,
  w_holds (oo_world (fold_left (spawn_f sc e) cs acc)) = fold_left (fun h' c => hins sc h' e c) cs (w_holds (oo_world acc)).
Proof.
  induction cs as [|c cs IH]; intros acc; cbn [fold_left]; [reflexivity|]. rewrite IH. unfold spawn_f. cbn [oo_world].
  rewrite insert_ctx_holds. reflexivity.
Qed.
Lemma remove_ctx_holds w e c o : remove_ctx w e c = Some o -> w_holds (oo_world o) = hrem (w_holds w) e c.
Proof.
  unfold remove_ctx, hrem. destruct (holds_of e (w_holds w)) as [cs|]; [|intros [= <-]; reflexivity].
  destruct (negb (memz c cs)); [intros [= <-]; reflexivity|].
  destruct (reg_remove (w_time w) c e (w_reg w)) as [[r' [evs|]]|]; try discriminate. intros [= <-]. reflexivity.
Qed.
Lemma del_ent_set e cs h : del_ent e (set_holds e cs h) = del_ent e h.
Proof.
  unfold del_ent. induction h as [|[x old] h IH]; cbn [set_holds filter fst]; [rewrite Z.eqb_refl; reflexivity|].
  destruct (Z.eqb x e) eqn:E; cbn [filter fst]; rewrite E; cbn [negb]; [reflexivity | rewrite IH; reflexivity].
Qed.
Lemma del_ent_hrem e c h : del_ent e (hrem h e c) = del_ent e h.
Proof. unfold hrem. destruct (holds_of e h) as [cs|]; [|reflexivity]. destruct (negb (memz c cs)); [reflexivity | apply del_ent_set]. Qed.
Lemma despawn_fold_holds e cs : forall a a', fold_left (despawn_f e) cs (Some a) = Some a' ->
  del_ent e (w_holds (oo_world a')) = del_ent e (w_holds (oo_world a)).
Proof.
  induction cs as [|c cs IH]; intros a a' H; cbn [fold_left] in H; [injection H as <-; reflexivity|].
  cbn [despawn_f] in H. destruct (remove_ctx (oo_world a) e c) as [o|] eqn:Er; [|rewrite despawn_f_none in H; discriminate].
  rewrite (IH _ _ H). cbn [oo_world]. rewrite (remove_ctx_holds _ _ _ _ Er). apply del_ent_hrem.
Qed.
Lemma apply_op_holds sc w o oo : apply_op sc w o = Some oo -> w_holds (oo_world oo) = hstep sc (w_holds w) o.
Proof.
  intros Hop. destruct o as [e cs|e c|e c|e|]; cbn [apply_op hstep] in *.
  - destruct (holds_of e (w_holds w)) as [old|] eqn:He; injection Hop as <-; [reflexivity|].
    exact (spawn_fold_holds sc e cs (mkOpOut (mkWorld (w_holds w ++ [(e, [])]) (w_reg w) (w_time w)) [] [])).
  - injection Hop as <-. apply insert_ctx_holds.
  - apply remove_ctx_holds. exact Hop.
  - destruct (holds_of e (w_holds w)) as [cs0|] eqn:He; [|injection Hop as <-; reflexivity].
    change (match fold_left (despawn_f e) (filter (fun c => memz c cs0) (s_menu sc)) (Some (mkOpOut w [] [])) with
            | Some a => Some (mkOpOut (mkWorld (del_ent e (w_holds (oo_world a))) (w_reg (oo_world a)) (w_time w)) (oo_events a) [])
            | None => None end = Some oo) in Hop.
    destruct (fold_left (despawn_f e) _ _) as [a|] eqn:Ef; [|discriminate]. injection Hop as <-. cbn [oo_world w_holds].
    exact (despawn_fold_holds e _ _ _ Ef).
  - change (fold_left (rebuild_f sc) (s_menu sc) (Some (mkOpOut w [] [])) = Some oo) in Hop.
    exact (rebuild_fold_holds sc _ _ _ Hop).
Qed.

(* ================================================================================================ *)
(* 12. clause 3: arrivals while the keys stay down                                                  *)
(* ================================================================================================ *)
Lemma filter_none_in {A} (p : A -> bool) l : (forall x, In x l -> p x = false) -> filter p l = [].
Proof. apply JudgeC12P.filter_none. Qed.

Lemma reg_add_filter (p : aact -> bool) mk c e r :
  (forall c' e' x, In x (flat_inst c' e' (mk e)) -> p x = false) ->
  filter p (flat_reg (reg_add mk c e r)) = filter p (flat_reg r).
Proof.
  intros Hp. destruct (index_of c r) as [n|] eqn:Ei.
  - destruct (index_of_some c r n Ei) as (l1 & g & l2 & -> & _ & Hc & Hn1). rewrite (reg_add_old _ c e l1 g l2 Hn1 Hc), !flat_reg_mid, !filter_app.
    f_equal. f_equal. destruct g as [c0 p0 insts|c0 p0 ents i]; cbn [add_ent flat_group]; [|reflexivity].
    rewrite flat_map_app, filter_app. cbn [flat_map fst snd]. rewrite app_nil_r, (filter_none_in p (flat_inst c0 e (mk e))), app_nil_r; [reflexivity|].
    intros x. apply Hp.
  - set (n := bsearch (ctx_prio c) r).
    assert (E : flat_reg r = flat_reg (firstn n r) ++ flat_reg (skipn n r)) by (unfold flat_reg; rewrite <- flat_map_app, firstn_skipn; reflexivity).
    rewrite (reg_add_new _ c e r Ei), insert_at_firstn_skipn, flat_reg_mid, !filter_app. fold n. rewrite E, filter_app. f_equal.
    replace (filter p (flat_group (new_group c e (mk e)))) with (@nil aact); [reflexivity|]. symmetry. apply filter_none_in.
    unfold new_group. destruct (ctx_shared c); cbn [flat_group flat_map fst snd]; [|rewrite app_nil_r]; intros x; apply Hp.
Qed.

Section Arrivals.
Variable sc : scenario.
Variable p : aact -> bool.
Hypothesis Hp : forall c e c' e' x, In x (flat_inst c' e' (mk_inst sc c e)) -> p x = false.

Lemma insert_ctx_filter w e c : filter p (flat_reg (w_reg (oo_world (insert_ctx sc w e c)))) = filter p (flat_reg (w_reg w)).
Proof.
  unfold insert_ctx. destruct (holds_of e (w_holds w)) as [cs|]; [|reflexivity].
  destruct (memz c cs || negb (memz c (s_menu sc))); [reflexivity|]. cbn [oo_world w_reg]. apply reg_add_filter. intros c' e' x. apply Hp.
Qed.
Lemma spawn_fold_filter e cs : forall acc,
  filter p (flat_reg (w_reg (oo_world (fold_left (spawn_f sc e) cs acc)))) = filter p (flat_reg (w_reg (oo_world acc))).
Proof.
  induction cs as [|c cs IH]; intros acc; cbn [fold_left]; [reflexivity|]. rewrite IH. unfold spawn_f. cbn [oo_world]. apply insert_ctx_filter.
Qed.
Lemma insertion_filter w o oo : is_insertion o = true -> apply_op sc w o = Some oo ->
  filter p (flat_reg (w_reg (oo_world oo))) = filter p (flat_reg (w_reg w)).
Proof.
  intros Hi Hop. destruct o as [e cs|e c|e c|e|]; try discriminate; cbn [apply_op] in Hop.
  - destruct (holds_of e (w_holds w)) as [old|]; injection Hop as <-; [reflexivity|].
    exact (spawn_fold_filter e cs (mkOpOut (mkWorld (w_holds w ++ [(e, [])]) (w_reg w) (w_time w)) [] [])).
  - injection Hop as <-. apply insert_ctx_filter.
Qed.
End Arrivals.

Lemma mk_inst_skipped sc K c e c' e' x : p_cfg sc = true -> In x (flat_inst c' e' (mk_inst sc c e)) -> ne K x = false.
Proof.
  intros Hcfg Hx. destruct (instantiate_good _ _ (cfg_good sc c e Hcfg)) as (_ & _ & G). specialize (G c' e'). rewrite Forall_forall in G.
  unfold ne. rewrite (eff_allflagged K x (G x Hx)). reflexivity.
Qed.

(* what the judgement remembers of the last frame, against the world *)
Definition PFinv (sc : scenario) (w : world) (pf : option (frame_in * out * list (Z * Z))) : Prop :=
  match pf with
  | None => True
  | Some (f0, o0, _) =>
      exists B0 w0, Winv sc B0 w0 /\ x_snaps o0 = model_snaps sc w0 /\
        sts_reg (w_reg w0) = aev_r (r_keys (f_raw f0)) (flat_reg (w_reg w0)) [] /\
        filter (ne (r_keys (f_raw f0))) (flat_reg (w_reg w)) = filter (ne (r_keys (f_raw f0))) (flat_reg (w_reg w0))
  end.

Lemma keys_eqb_eq a b : keys_eqb a b = true -> r_keys (f_raw a) = r_keys (f_raw b).
Proof. unfold keys_eqb. apply list_eqb_eq. intros x y H. apply Z.eqb_eq. exact H. Qed.

Lemma clause3_frame sc B w f fo f0 o0 built o :
  p_shared sc = true -> (0 <= B)%Q -> (B + (1 # 4) <= lim_of sc)%Q -> f_ops f = [] ->
  Winv sc B w -> PFinv sc w (Some (f0, o0, built)) -> keys_eqb f0 f = true ->
  frame sc w f = Some fo -> x_snaps o = model_snaps sc (fo_world fo) ->
  same_states built o0 o = true.
Proof.
  intros Hsh HB Hl Hops HW (B0 & w0 & HW0 & Hs0 & Hsts0 & Hfil) Hk Hf Hsn.
  destruct (frame_step sc B w f fo Hops HB Hl HW Hf) as (HW' & _ & _ & _ & Hsts & _).
  apply keys_eqb_eq in Hk. rewrite Hk in *. set (K := r_keys (f_raw f)) in *.
  unfold same_states. rewrite Hs0. apply forallb_forall. intros x Hx. apply in_model_snaps in Hx.
  destruct Hx as (c & e & a & Hc & He & Hcfg & Ha & ->). destruct (snapv w0 c e a) as [d|] eqn:Ed; [|reflexivity].
  apply orb_true_iff. right. rewrite Hsn, (snap_of_entry_model sc _ c e a Hc He Hcfg Ha).
  destruct (snapv (fo_world fo) c e a) as [d'|] eqn:Ed'; [|reflexivity].
  unfold snapv in Ed, Ed'. destruct (reg_get c e (w_reg w0)) as [i0|] eqn:G0; [|discriminate].
  destruct (reg_get c e (w_reg (fo_world fo))) as [i'|] eqn:G'; [|discriminate].
  destruct (lookup a (in_actions i0)) as [dd0|] eqn:L0; [|discriminate]. destruct (lookup a (in_actions i')) as [dd'|] eqn:L'; [|discriminate].
  injection Ed as <-. injection Ed' as <-. cbn [snap_of sn_state].
  apply in_spec_aids in Ha. change (In a (spec_ids (cfg_lookup sc c e))) in Ha. rewrite <- skel_ids in Ha.
  assert (Hid0 : In a (map ab_id (in_binds i0))).
  { destruct (Winv_get sc B0 w0 c e i0 HW0 G0) as [_ Hsk]. rewrite (cskel_ok sc c e Hsh Hc He) in Hsk. rewrite <- inst_skel_ids, Hsk. exact Ha. }
  assert (Hid' : In a (map ab_id (in_binds i'))).
  { destruct (Winv_get sc _ _ c e i' HW' G') as [_ Hsk]. rewrite (cskel_ok sc c e Hsh Hc He) in Hsk. rewrite <- inst_skel_ids, Hsk. exact Ha. }
  pose proof (sts_reg_get _ c e i0 a (proj1 (proj1 (reg_inv_alt sc w0) (proj1 HW0))) G0 Hid0) as In0. rewrite Hsts0 in In0.
  pose proof (sts_reg_get _ c e i' a (proj1 (proj1 (reg_inv_alt sc _) (proj1 HW'))) G' Hid') as In'. rewrite Hsts in In'.
  pose proof (aev_same K _ _ _ _ _ (Winv_tags sc B0 w0 HW0) (Winv_tags sc B w HW) Hfil In0 In') as E.
  unfold st_of in E. rewrite L0, L' in E. rewrite E. apply JudgeC07P.state_eqb_refl.
Qed.

(* ================================================================================================ *)
(* 13. the profile, and the induction over the steps                                                *)
(* ================================================================================================ *)
Fixpoint dyn (sc : scenario) (h : list (entity * list ctx)) (pq : bool) (steps : list step) : bool :=
  match steps with
  | [] => true
  | SOp o :: r => op_okb sc o && dyn sc (hstep sc h o) false r
  | SFrame f :: r =>
      nilb (f_ops f) && (if pq && negb (no_keys f) then judged sc h (r_keys (f_raw f)) else true) && dyn sc h (no_keys f) r
  end.

Definition profile_C06b (sc : scenario) : bool :=
  p_cfg sc && p_shared sc && p_owner sc && p_two sc && p_pairs sc && dyn sc [] false (s_steps sc).
Definition profile_C06 (sc : scenario) : Prop := profile_C06b sc = true.

Notation all_true := JudgeC12P.all_true.
Lemma all_true_cons k b l : b = true -> all_true l -> all_true ((k, b) :: l).
Proof. intros Hb Hl k' b' [[= <- <-]|H]; [exact Hb | exact (Hl k' b' H)]. Qed.
Lemma all_true_app l1 l2 : all_true l1 -> all_true l2 -> all_true (l1 ++ l2).
Proof. intros H1 H2 k b H. apply in_app_or in H. destruct H as [H|H]; [exact (H1 k b H) | exact (H2 k b H)]. Qed.
Lemma all_true_nil : all_true [].
Proof. intros k b []. Qed.

Lemma no_keys_nil f : no_keys f = true -> r_keys (f_raw f) = [].
Proof. unfold no_keys. destruct (r_keys (f_raw f)); [reflexivity | discriminate]. Qed.

Section Steps.
Variable sc : scenario.
Hypothesis Hcfg : p_cfg sc = true.
Hypothesis Hsh : p_shared sc = true.
Hypothesis Hown : p_owner sc = true.
Hypothesis Htwo : p_two sc = true.
Hypothesis Hpairs : p_pairs sc = true.

Lemma steps_sound : forall steps w B pq pf before,
  Winv sc B w -> (0 <= B)%Q -> (B + fq steps <= lim_of sc)%Q -> dyn sc (w_holds w) pq steps = true ->
  (pq = true -> x_mirror before = model_mirror sc w /\ Forall unflagged (flat_reg (w_reg w))) ->
  PFinv sc w pf ->
  all_true (judge_steps sc pq pf before steps (run_steps sc w steps)).
Proof.
  induction steps as [|st steps IH]; intros w B pq pf before HW HB Hl Hdyn Hq Hpf; [exact all_true_nil|].
  rewrite run_steps_cons. destruct st as [op1|f]; cbn [step_res].
  - (* an operation *)
    cbn [dyn] in Hdyn. apply andb_true_iff in Hdyn. destruct Hdyn as [Hok Hdyn]. cbn [fq] in Hl.
    destruct (apply_op_inv sc w op1 (proj1 HW)) as (oo & Hop & _). rewrite Hop. cbn [judge_steps x_panicked negb].
    apply all_true_cons; [reflexivity|].
    apply (IH (oo_world oo) B); [exact (op_step sc B w op1 oo Hcfg Hsh HB HW Hok Hop) | exact HB | exact Hl | | discriminate |].
    + rewrite (apply_op_holds sc w op1 oo Hop). exact Hdyn.
    + destruct pf as [[[f0 o0] built]|]; [|exact I]. destruct (is_insertion op1) eqn:Ei; [|exact I].
      destruct Hpf as (B0 & w0 & P1 & P2 & P3 & P4). exists B0, w0. split; [exact P1|]. split; [exact P2|]. split; [exact P3|].
      rewrite <- P4. apply (insertion_filter sc _ (fun c e c' e' x => mk_inst_skipped sc _ c e c' e' x Hcfg) w op1 oo Ei Hop).
  - (* a frame *)
    cbn [dyn] in Hdyn. apply andb_true_iff in Hdyn. destruct Hdyn as [Hdyn Hdyn3]. apply andb_true_iff in Hdyn. destruct Hdyn as [Hops Hj].
    apply nilb_nil in Hops. cbn [fq] in Hl. pose proof (fq_nonneg steps) as Hfq.
    assert (Hl1 : (B + (1 # 4) <= lim_of sc)%Q) by lra.
    destruct (frame_inv sc w f (proj1 HW)) as (fo & Hf & _). rewrite Hf.
    destruct (frame_step sc B w f fo Hops HB Hl1 HW Hf) as (HW' & Hh' & _ & Hflat & Hsts & Hsplit).
    set (o1 := mkOut [] (fo_main fo) (fo_post fo) (fo_log fo) (model_snaps sc (fo_world fo)) (model_mirror sc (fo_world fo)) (fo_built fo) true true false).
    cbn [judge_steps]. apply all_true_cons; [reflexivity|]. apply all_true_cons; [exact (clause2_frame sc B w (fo_main fo) Hown HW Hsplit o1 eq_refl)|].
    apply all_true_app; [|apply all_true_app].
    + destruct (pq && negb (no_keys f)) eqn:E; [|exact all_true_nil]. apply andb_true_iff in E. destruct E as [E1 E2].
      destruct (Hq E1) as [Hm Hu]. apply all_true_cons; [|exact all_true_nil].
      exact (clause1_frame sc B w f fo before o1 Hcfg Hsh Htwo Hpairs HB Hl1 Hops HW Hu Hj Hf Hm eq_refl).
    + destruct pf as [[[f0 o0] built]|]; [|exact all_true_nil]. destruct (keys_eqb f0 f && negb (no_keys f)) eqn:E; [|exact all_true_nil].
      apply andb_true_iff in E. destruct E as [E1 _]. apply all_true_cons; [|exact all_true_nil].
      exact (clause3_frame sc B w f fo f0 o0 built o1 Hsh HB Hl1 Hops HW Hpf E1 Hf eq_refl).
    + rewrite Hops. apply (IH (fo_world fo) (B + (1 # 4))%Q); [exact HW' | lra | lra | rewrite Hh'; exact Hdyn3 | |].
      * intros Hn. split; [reflexivity|]. rewrite Hflat, (no_keys_nil f Hn). apply Forall_forall. intros x Hx. apply in_map_iff in Hx.
        destruct Hx as (y & <- & _). apply upd_quiet.
      * exists (B + (1 # 4))%Q, (fo_world fo). split; [exact HW'|]. split; [reflexivity|]. split; [|reflexivity].
        cbn [f_raw]. rewrite Hsts, Hflat, aev_r_upd. reflexivity.
Qed.
End Steps.

Lemma Winv_init sc : Winv sc 0 world_init.
Proof. split; [apply reg_inv_init|]. split; [apply ents_inv_init | constructor]. Qed.

Theorem C06_app_judgement_sound : forall sc, profile_C06 sc -> C06c.ok (sc, trace (run sc)) = 0%Z.
Proof.
  intros sc H. unfold profile_C06, profile_C06b in H. repeat (apply andb_true_iff in H; destruct H as [H ?]).
  unfold C06c.ok. apply JudgeC12P.all_true_first_fail. unfold run.
  apply (steps_sound sc) with (B := 0%Q); try assumption.
  - apply Winv_init.
  - lra.
  - unfold lim_of. lra.
  - discriminate.
  - exact I.
Qed.

(* ================================================================================================ *)
(* 14. transfer: the judgement cannot distinguish two traces that [agree_full] identifies            *)
(* ================================================================================================ *)
(* ---- small list facts ---- *)
Lemma state_eqb_eq' a b : state_eqb a b = true -> a = b.
Proof. destruct a, b; cbn; intros H; try discriminate; reflexivity. Qed.

Definition mem_eq (X Y : list (Z * Z)) : Prop := forall p, In p X <-> In p Y.

Lemma mem_eq_refl X : mem_eq X X.
Proof. intros p. tauto. Qed.
Lemma mem_eq_app X X' Y Y' : mem_eq X X' -> mem_eq Y Y' -> mem_eq (X ++ Y) (X' ++ Y').
Proof. intros H1 H2 p. rewrite !in_app_iff, (H1 p), (H2 p). tauto. Qed.

Lemma existsb_mem_eq (f : Z * Z -> bool) X Y : mem_eq X Y -> existsb f X = existsb f Y.
Proof.
  intros H. destruct (existsb f X) eqn:E1, (existsb f Y) eqn:E2; try reflexivity.
  - apply existsb_exists in E1. destruct E1 as (x & Hin & Hx).
    assert (E : existsb f Y = true) by (apply existsb_exists; exists x; split; [apply H; exact Hin|exact Hx]). congruence.
  - apply existsb_exists in E2. destruct E2 as (x & Hin & Hx).
    assert (E : existsb f X = true) by (apply existsb_exists; exists x; split; [apply H; exact Hin|exact Hx]). congruence.
Qed.

Lemma forallb_ext' {A} (f g : A -> bool) l : (forall x, f x = g x) -> forallb f l = forallb g l.
Proof. intros H. induction l as [|x l IH]; cbn [forallb]; [reflexivity|]. now rewrite H, IH. Qed.

Lemma forallb_rel {A} (R : A -> A -> bool) (f g : A -> bool) : (forall x y, R x y = true -> f x = g y) ->
  forall l l', list_eqb R l l' = true -> forallb f l = forallb g l'.
Proof.
  intros H. induction l as [|x l IH]; intros [|y l'] E; cbn [list_eqb] in E; try discriminate; [reflexivity|].
  apply andb_true_iff in E. destruct E as [E1 E2]. cbn [forallb]. now rewrite (H x y E1), (IH l' E2).
Qed.

Lemma flat_map_action_rel {B} (g : Z -> list B) : forall l l', list_eqb event_eqb l l' = true ->
  flat_map (fun ev => g (e_action ev)) l = flat_map (fun ev => g (e_action ev)) l'.
Proof.
  induction l as [|x l IH]; intros [|y l'] E; cbn [list_eqb] in E; try discriminate; [reflexivity|].
  apply andb_true_iff in E. destruct E as [E1 E2]. cbn [flat_map]. rewrite (IH l' E2). f_equal.
  unfold event_eqb in E1. repeat (apply andb_true_iff in E1; let H' := fresh "F" in destruct E1 as [E1 H']).
  apply Z.eqb_eq in F4. now rewrite F4.
Qed.

(* ---- what agree_full guarantees of each out record, as far as this judgement reads it ---- *)
Definition out_rel (a b : out) : Prop :=
  x_mirror a = x_mirror b /\ x_panicked a = x_panicked b /\
  list_eqb snap_entry_eqb (x_snaps a) (x_snaps b) = true /\ mem_eq (x_built a) (x_built b).

Definition pf_rel (p q : option (frame_in * out * list (Z * Z))) : Prop :=
  match p, q with
  | Some (f, o, X), Some (f', o', X') => f = f' /\ out_rel o o' /\ mem_eq X X'
  | None, None => True
  | _, _ => False
  end.

Lemma out_diff_rel key isf a b : out_diff_k key isf a b = 0 ->
  out_rel a b /\ (isf = true -> list_eqb event_eqb (x_main a) (x_main b) = true).
Proof.
  intros H. destruct (JudgeC03P.out_diff_fields key isf a b H) as (Hmain & _ & Hsnap & Hpan).
  destruct (JudgeC12P.out_diff_agree key isf a b H) as (_ & Hmir & _ & Hb).
  split; [|exact Hmain]. repeat split; try assumption; apply Hb.
Qed.

(* ---- the clauses ---- *)
Lemma state_at_rel c e a o o' : list_eqb snap_entry_eqb (x_snaps o) (x_snaps o') = true ->
  state_at c e a o = state_at c e a o'.
Proof. intros H. unfold state_at. exact (JudgeC03P.snap_of_entry_rel c e a _ _ H). Qed.

Lemma order_ok_rel sc o o' : list_eqb event_eqb (x_main o) (x_main o') = true -> order_ok sc o = order_ok sc o'.
Proof.
  intros H. unfold order_ok. f_equal.
  exact (flat_map_action_rel (fun a => match ctx_of_action sc a with Some c => [ctx_prio c] | None => [] end) _ _ H).
Qed.

Lemma pairs_ok_rel sc before before' o o' : x_mirror before = x_mirror before' ->
  list_eqb snap_entry_eqb (x_snaps o) (x_snaps o') = true ->
  pairs_ok sc before o = pairs_ok sc before' o'.
Proof.
  intros Hm Hs. unfold pairs_ok, holders. rewrite Hm.
  apply forallb_ext'. intros ca. apply forallb_ext'. intros cb.
  destruct (Z.ltb (ctx_prio cb) (ctx_prio ca)); [|reflexivity].
  apply forallb_ext'. intros ea. apply forallb_ext'. intros eb. apply forallb_ext'. intros k.
  destruct (memz k (keys_of sc cb eb)); [|reflexivity].
  destruct (action_on_key sc ca ea k) as [aa|]; [|reflexivity].
  destruct (action_on_key sc cb eb k) as [ab|]; [|reflexivity].
  now rewrite (state_at_rel ca ea aa o o' Hs), (state_at_rel cb eb ab o o' Hs).
Qed.

Lemma same_states_rel X X' o0 o0' o o' : mem_eq X X' ->
  list_eqb snap_entry_eqb (x_snaps o0) (x_snaps o0') = true ->
  list_eqb snap_entry_eqb (x_snaps o) (x_snaps o') = true ->
  same_states X o0 o = same_states X' o0' o'.
Proof.
  intros HX H0 H1. unfold same_states. apply (forallb_rel snap_entry_eqb); [|exact H0].
  intros [c e a s] [c' e' a' s'] E. cbn [snap_entry_eqb] in E.
  repeat (apply andb_true_iff in E; let H' := fresh "F" in destruct E as [E H']).
  apply Z.eqb_eq in E, F0, F1. subst c' e' a'.
  destruct s as [d|], s' as [d'|]; cbn [osnap_eqb] in F; try discriminate; [|reflexivity].
  unfold snap_eqb in F. repeat (apply andb_true_iff in F; let H' := fresh "G" in destruct F as [F H']).
  apply state_eqb_eq' in F. rewrite F.
  rewrite (existsb_mem_eq (fun p => Z.eqb (fst p) c) X X' HX).
  rewrite (existsb_mem_eq (fun p => Z.eqb (fst p) c && Z.eqb (snd p) e) X X' HX).
  pose proof (JudgeC03P.snap_of_entry_rel c e a _ _ H1) as Hsn. unfold JudgeC03P.st_of in Hsn.
  destruct (snap_of_entry c e a (x_snaps o)) as [x|], (snap_of_entry c e a (x_snaps o')) as [x'|];
    cbn [option_map] in Hsn; try discriminate; [|reflexivity].
  injection Hsn as Hsn. now rewrite Hsn.
Qed.

(* ---- the congruence ---- *)
Lemma judge_steps_cong sc key : forall steps pq pf pf' before before' outs outs' i,
  0 <= i -> outs_diff key i steps outs outs' = 0 -> pf_rel pf pf' -> out_rel before before' ->
  judge_steps sc pq pf before steps outs = judge_steps sc pq pf' before' steps outs'.
Proof.
  induction steps as [|st steps IH]; intros pq pf pf' before before' outs outs' i Hi H Hpf Hb.
  - destruct outs as [|x r].
    + now rewrite (JudgeC03P.outs_diff_nil_l key i [] outs' Hi H).
    + destruct outs' as [|y s]; [discriminate (JudgeC03P.outs_diff_nil_r key i [] _ Hi H)|]. reflexivity.
  - destruct outs as [|x r].
    + rewrite (JudgeC03P.outs_diff_nil_l key i _ outs' Hi H). destruct st; reflexivity.
    + destruct outs' as [|y s]; [discriminate (JudgeC03P.outs_diff_nil_r key i _ _ Hi H)|].
      destruct (JudgeC03P.outs_diff_cons key i (st :: steps) x r y s Hi H) as [E H']. cbn [tl] in H'.
      destruct (out_diff_rel _ _ _ _ E) as [Hxy Hmain].
      assert (Hi' : 0 <= i + 1) by lia.
      pose proof Hxy as (Hmir & Hpan & Hsnap & Hbuilt).
      destruct st as [op|f]; cbn [judge_steps].
      * rewrite Hpan. f_equal. apply (IH _ _ _ _ _ r s (i + 1) Hi' H'); [|exact Hxy].
        destruct pf as [[[f0 o0] X]|], pf' as [[[f0' o0'] X']|]; cbn [pf_rel] in Hpf; try contradiction; [|exact I].
        destruct Hpf as (-> & Ho & HX). destruct (is_insertion op); cbn [pf_rel]; [|exact I].
        split; [reflexivity|]. split; [exact Ho|]. apply mem_eq_app; assumption.
      * cbn [is_frame] in Hmain. specialize (Hmain eq_refl).
        rewrite Hpan, (order_ok_rel sc x y Hmain).
        destruct Hb as (Hbm & _ & _ & _).
        rewrite (pairs_ok_rel sc before before' x y Hbm Hsnap).
        assert (Hc3 : match pf with
                      | Some (f0, o0, built) => if keys_eqb f0 f && negb (no_keys f) then [(3, same_states built o0 x)] else []
                      | None => []
                      end =
                      match pf' with
                      | Some (f0, o0, built) => if keys_eqb f0 f && negb (no_keys f) then [(3, same_states built o0 y)] else []
                      | None => []
                      end).
        { destruct pf as [[[f0 o0] X]|], pf' as [[[f0' o0'] X']|]; cbn [pf_rel] in Hpf; try contradiction; [|reflexivity].
          destruct Hpf as (-> & (_ & _ & Ho & _) & HX). now rewrite (same_states_rel X X' o0 o0' x y HX Ho Hsnap). }
        rewrite Hc3. do 2 f_equal. f_equal. f_equal.
        apply (IH _ _ _ _ _ r s (i + 1) Hi' H'); [|exact Hxy].
        destruct (f_ops f); cbn [pf_rel]; [|exact I].
        split; [reflexivity|]. split; [exact Hxy|apply mem_eq_refl].
Qed.

(* whatever the judgement says about the model's run, it says about every trace that agrees with it *)
Theorem C06_judgement_respects_agree : forall sc t, agree_full (sc, t) = true -> C06c.ok (sc, t) = C06c.ok (sc, trace (run sc)).
Proof.
  intros sc t H. unfold agree_full in H. cbn [fst snd] in H. apply Z.eqb_eq in H.
  destruct t as [outs|]; [|discriminate H]. cbn [trace_diff] in H. unfold C06c.ok.
  f_equal. symmetry.
  apply (judge_steps_cong sc (ctx_key sc) (s_steps sc) false None None _ _ (run sc) outs 0 (Z.le_refl 0) H); [exact I|].
  repeat split; try reflexivity; intros Hp; exact Hp.
Qed.



Theorem C06_app_judgement_transfer : forall sc t, profile_C06 sc -> agree_full (sc, t) = true -> C06c.ok (sc, t) = 0%Z.
Proof. intros sc t Hp Ha. rewrite (C06_judgement_respects_agree sc t Ha). apply C06_app_judgement_sound. exact Hp. Qed.

(* ================================================================================================ *)
(* 15. the hypotheses are satisfiable, and needed                                                   *)
(* ================================================================================================ *)
Definition ex_kb (k : Z) : bind_spec := mkBind (IKey k 0) [] [].
Definition ex_act (a : Z) (keys : list Z) : action_spec := mkAction a [] [] (map ex_kb keys).
Definition ex_acth (id a : Z) (ht : Q) (keys : list Z) : action_spec :=
  mkAction a [] [(id, c_hold ht false (1 # 2) false)] (map ex_kb keys).
Definition ex_fro (keys : list Z) (ops : list op) : step :=
  SFrame (mkFrame (1 # 64) 1 false 0 (mkRaw keys [] (0, 0)%Q (0, 0)%Q [] []) ops).
Definition ex_fr (keys : list Z) : step := ex_fro keys [].
Definition ex_cfg (specs : list (Z * inst_spec)) (ents : list Z) : list (Z * Z * inst_spec) :=
  flat_map (fun cs => map (fun e => ((fst cs, e), snd cs)) ents) specs.
(* three types (0: exclusive, priority 30; 1: shared, 20; 2: exclusive, -10); key 0 contested by 0 and 1, key 1 by 0 and 2,
   key 2 by 1 and 2; the action of type 1 on key 2 carries a Hold of 100 s *)
Definition ex_S0 := mkSpec None [ex_act 2 [0]; ex_act 3 [1]].
Definition ex_S1 := mkSpec None [ex_act 6 [0]; ex_acth 1 7 100 [2]].
Definition ex_S2 := mkSpec None [ex_act 10 [1]; ex_act 11 [2]].
Definition ex_allk := [0; 1; 2].
Definition ex_cfg3 := ex_cfg [(0, ex_S0); (1, ex_S1); (2, ex_S2)] [0; 1].
Definition ex_hist : list step :=
  [SOp (OSpawn 0 []); SOp (OSpawn 1 []); SOp (OInsert 0 2); ex_fr []; ex_fr ex_allk; SOp (OInsert 0 0); ex_fr ex_allk; ex_fr []; ex_fr ex_allk;
   SOp (OInsert 1 1); SOp (OInsert 0 1); ex_fr []; ex_fr ex_allk; SOp ORebuild; ex_fr []; ex_fr ex_allk; SOp (ORemove 0 0); ex_fr []; ex_fr ex_allk].
Definition ex_sc : scenario := mkScenario [0; 1; 2] [0; 1] ex_cfg3 ex_hist.
Definition ex_parts (sc : scenario) := (p_cfg sc, p_shared sc, p_owner sc, p_two sc, p_pairs sc, dyn sc [] false (s_steps sc)).
Definition ex_fired (sc : scenario) : bool :=
  existsb (fun o => existsb (fun s => match s with sn _ _ _ (Some d) => state_eqb (sn_state d) SFired | _ => false end) (x_snaps o)) (run sc).

Example C06_app_judgement_sound_satisfiable :
  profile_C06 ex_sc /\ ex_fired ex_sc = true /\ C06c.ok (ex_sc, trace (run ex_sc)) = 0.
Proof. split; [|split]; vm_compute; reflexivity. Qed.

(* an output that differs from the model's (instances listed as built in the opposite order) and agrees with it *)
Definition ex_rev_built (o : out) : out :=
  mkOut (x_pre o) (x_main o) (x_post o) (x_log o) (x_snaps o) (x_mirror o) (rev (x_built o)) (x_probe o) (x_update o) (x_panicked o).
Example C06_app_judgement_transfer_satisfiable :
  profile_C06 ex_sc /\ agree_full (ex_sc, trace (map ex_rev_built (run ex_sc))) = true /\
  map x_built (map ex_rev_built (run ex_sc)) <> map x_built (run ex_sc) /\
  C06c.ok (ex_sc, trace (map ex_rev_built (run ex_sc))) = 0.
Proof.
  assert (Hp : profile_C06 ex_sc) by (vm_compute; reflexivity).
  assert (Ha : agree_full (ex_sc, trace (map ex_rev_built (run ex_sc))) = true) by (vm_compute; reflexivity).
  split; [exact Hp|]. split; [exact Ha|]. split; [vm_compute; discriminate|]. exact (C06_app_judgement_transfer _ _ Hp Ha).
Qed.

(* each conjunct of the profile is needed: the other five hold, the judgement rejects the model's run *)
(* p_cfg: a non-consuming action on a contested key lets the lower type fire as well *)
Definition ex_noconsume := mkScenario [0; 1; 2] [0; 1] (ex_cfg [(0, mkSpec None [ex_act 0 [0]; ex_act 3 [1]]); (1, ex_S1); (2, ex_S2)] [0; 1]) ex_hist.
Example C06_app_judgement_sound_needs_p_cfg_consuming :
  ex_parts ex_noconsume = (false, true, true, true, true, true) /\ C06c.ok (ex_noconsume, trace (run ex_noconsume)) <> 0.
Proof. split; vm_compute; [reflexivity | discriminate]. Qed.
(* p_cfg: a Hold that completes while the keys stay down changes a state between two frames with the same keys (clause 3) *)
Definition ex_shorthold := mkScenario [0; 1; 2] [0; 1] (ex_cfg [(0, ex_S0); (1, mkSpec None [ex_act 6 [0]; ex_acth 1 7 (1 # 40) [2]]); (2, ex_S2)] [0; 1])
  [SOp (OSpawn 0 []); SOp (OInsert 0 1); ex_fr []; ex_fr ex_allk; ex_fr ex_allk; ex_fr ex_allk].
Example C06_app_judgement_sound_needs_p_cfg_long_hold :
  ex_parts ex_shorthold = (false, true, true, true, true, true) /\ C06c.ok (ex_shorthold, trace (run ex_shorthold)) = 3.
Proof. split; vm_compute; reflexivity. Qed.
(* p_cfg: an action bound twice is evaluated where it was bound first, before the action the judgement expects to win *)
Definition ex_dupid := mkScenario [0; 1] [0; 1]
  (ex_cfg [(0, mkSpec None [ex_act 3 [5]; ex_act 2 [0]; ex_act 3 [0]]); (1, mkSpec None [ex_act 6 [0]])] [0; 1])
  [SOp (OSpawn 0 []); SOp (OInsert 0 0); SOp (OInsert 0 1); ex_fr []; ex_fr [0; 5]].
Example C06_app_judgement_sound_needs_p_cfg_distinct_ids :
  ex_parts ex_dupid = (false, true, true, true, true, true) /\ C06c.ok (ex_dupid, trace (run ex_dupid)) <> 0.
Proof. split; vm_compute; [reflexivity | discriminate]. Qed.
(* p_shared: the common instance of a shared type is built from the configuration of its first holder *)
Definition ex_shared := mkScenario [0; 1; 2] [0; 1]
  (ex_cfg [(0, ex_S0); (2, ex_S2)] [0; 1] ++ [((1, 0), ex_S1); ((1, 1), mkSpec None [ex_act 22 [0]; ex_act 23 [2]])])
  [SOp (OSpawn 0 []); SOp (OSpawn 1 []); SOp (OInsert 0 1); SOp (OInsert 1 1); SOp (OInsert 0 2); ex_fr []; ex_fr ex_allk].
Example C06_app_judgement_sound_needs_p_shared :
  ex_parts ex_shared = (true, false, true, true, true, true) /\ C06c.ok (ex_shared, trace (run ex_shared)) <> 0.
Proof. split; vm_compute; [reflexivity | discriminate]. Qed.
(* p_owner: events carry no context type; an action id configured for two types is attributed to the first one listed *)
Definition ex_owner := mkScenario [0; 1; 2] [0; 1]
  (ex_cfg [(2, mkSpec None [ex_act 10 [1]; ex_act 11 [2]; ex_act 2 [5]]); (0, ex_S0); (1, ex_S1)] [0; 1])
  [SOp (OSpawn 0 []); SOp (OSpawn 1 []); SOp (OInsert 0 0); SOp (OInsert 0 1); ex_fr []; ex_fr ex_allk].
Example C06_app_judgement_sound_needs_p_owner :
  ex_parts ex_owner = (true, true, false, true, true, true) /\ C06c.ok (ex_owner, trace (run ex_owner)) = 2.
Proof. split; vm_compute; reflexivity. Qed.
(* p_two: a key bound by three types: the middle one loses to the highest but is expected to beat the lowest *)
Definition ex_three := mkScenario [0; 1; 2] [0; 1]
  (ex_cfg [(0, mkSpec None [ex_act 2 [0]]); (1, mkSpec None [ex_act 6 [0]]); (2, mkSpec None [ex_act 10 [0]])] [0; 1])
  [SOp (OSpawn 0 []); SOp (OInsert 0 0); SOp (OInsert 0 1); SOp (OInsert 0 2); ex_fr []; ex_fr [0]].
Example C06_app_judgement_sound_needs_p_two :
  ex_parts ex_three = (true, true, true, false, true, true) /\ C06c.ok (ex_three, trace (run ex_three)) <> 0.
Proof. split; vm_compute; [reflexivity | discriminate]. Qed.
(* p_pairs: the losing action also reads a key the winner does not consume *)
Definition ex_pairs := mkScenario [0; 1] [0; 1]
  (ex_cfg [(0, mkSpec None [ex_act 2 [0]]); (1, mkSpec None [ex_act 6 [0; 7]])] [0; 1])
  [SOp (OSpawn 0 []); SOp (OInsert 0 0); SOp (OInsert 0 1); ex_fr []; ex_fr [0; 7]].
Example C06_app_judgement_sound_needs_p_pairs :
  ex_parts ex_pairs = (true, true, true, true, false, true) /\ C06c.ok (ex_pairs, trace (run ex_pairs)) <> 0.
Proof. split; vm_compute; [reflexivity | discriminate]. Qed.
(* dyn: an insertion issued from inside the idle frame arrives after that frame's evaluation: its bindings are still
   suppressed when the keys go down *)
Definition ex_ops := mkScenario [0; 1; 2] [0; 1] ex_cfg3
  [SOp (OSpawn 0 []); SOp (OInsert 0 2); ex_fr ex_allk; ex_fro [] [OInsert 0 0]; ex_fr ex_allk].
Example C06_app_judgement_sound_needs_dyn_no_frame_ops :
  ex_parts ex_ops = (true, true, true, true, true, false) /\ C06c.ok (ex_ops, trace (run ex_ops)) <> 0.
Proof. split; vm_compute; [reflexivity | discriminate]. Qed.
(* dyn: two instances of one exclusive type contest the keys among themselves *)
Definition ex_two_holders := mkScenario [0; 1; 2] [0; 1] ex_cfg3
  [SOp (OSpawn 0 []); SOp (OSpawn 1 []); SOp (OInsert 0 0); SOp (OInsert 1 0); SOp (OInsert 0 2); ex_fr []; ex_fr ex_allk].
Example C06_app_judgement_sound_needs_dyn_one_holder :
  ex_parts ex_two_holders = (true, true, true, true, true, false) /\ C06c.ok (ex_two_holders, trace (run ex_two_holders)) <> 0.
Proof. split; vm_compute; [reflexivity | discriminate]. Qed.
(* dyn: a contested key that is not down in the judged frame has no winner *)
Definition ex_keys := mkScenario [0; 1; 2] [0; 1] ex_cfg3
  [SOp (OSpawn 0 []); SOp (OInsert 0 0); SOp (OInsert 0 2); ex_fr []; ex_fr [2]].
Example C06_app_judgement_sound_needs_dyn_keys_down :
  ex_parts ex_keys = (true, true, true, true, true, false) /\ C06c.ok (ex_keys, trace (run ex_keys)) <> 0.
Proof. split; vm_compute; [reflexivity | discriminate]. Qed.
(* dyn: an entity outside the declared slots has no configuration: the shared instance it creates is empty *)
Definition ex_spawn := mkScenario [0; 1; 2] [0; 1] ex_cfg3
  [SOp (OSpawn 5 [1]); SOp (OSpawn 0 []); SOp (OInsert 0 1); SOp (OInsert 0 2); ex_fr []; ex_fr ex_allk].
Example C06_app_judgement_sound_needs_dyn_spawns_declared :
  ex_parts ex_spawn = (true, true, true, true, true, false) /\ C06c.ok (ex_spawn, trace (run ex_spawn)) <> 0.
Proof. split; vm_compute; [reflexivity | discriminate]. Qed.

Print Assumptions C06_app_judgement_sound.
Print Assumptions C06_judgement_respects_agree.
Print Assumptions C06_app_judgement_transfer.
