(* The judgement Check/C13c.v reads an output only up to what agree_full allows: it gives the same verdict on any trace
   that agrees with the model's run; hence the transfer theorem. *)
From Coq Require Import ZArith QArith List Bool Lia.
From BEI Require Import Model.Frame Proofs.ValueP Proofs.ModifP Proofs.ActionP Proofs.TrackOpP Check.C13c.
From BEI Require Proofs.JudgeC03P Proofs.JudgeC12P Proofs.JudgeC18P Proofs.JudgeC18AppP Proofs.JudgeC13P Proofs.JudgeC13bP.
Import ListNotations.
Open Scope Z_scope.

Module A := JudgeC18AppP.

(* ================================================================================================ *)
(* 1. what agreement gives, field by field                                                          *)
(* ================================================================================================ *)
Definition orel (a b : out) : Prop := A.out_rel a b /\ list_eqb snap_entry_eqb (x_snaps a) (x_snaps b) = true.
Definition srel (isf : bool) (a b : out) : Prop := orel a b /\ (isf = true -> list_eqb event_eqb (x_main a) (x_main b) = true).
Fixpoint steps_rel (steps : list step) (a b : list out) : Prop :=
  match a, b with
  | [], [] => True
  | x :: r, y :: s => srel (match steps with st :: _ => is_frame st | [] => false end) x y /\ steps_rel (tl steps) r s
  | _, _ => False
  end.

Lemma out_diff_srel key isf a b : out_diff_k key isf a b = 0 -> srel isf a b.
Proof.
  intros H. destruct (JudgeC03P.out_diff_fields key isf a b H) as (H1 & _ & H3 & _).
  split; [split; [exact (A.out_diff_rel key isf a b H) | exact H3] | exact H1].
Qed.
Lemma outs_diff_steps_rel key : forall a b i steps, 0 <= i -> outs_diff key i steps a b = 0 -> steps_rel steps a b.
Proof.
  induction a as [|x a IH]; intros [|y b] i steps Hi H; cbn [steps_rel]; [exact I | | |].
  - cbn [outs_diff] in H. lia.
  - cbn [outs_diff] in H. lia.
  - destruct (JudgeC03P.outs_diff_cons key i steps x a y b Hi H) as [E H']. split; [exact (out_diff_srel _ _ _ _ E)|].
    apply (IH b (i + 1) (tl steps)); [lia | exact H'].
Qed.
Lemma orel_refl_out0 : orel JudgeC13P.out0 JudgeC13P.out0.
Proof. split; [|reflexivity]. split; [reflexivity|]. split; [reflexivity|]. split; [reflexivity | tauto]. Qed.

(* ---- the log ---- *)
Lemma find_cond_rel2 id : forall lg lg', list_eqb logitem_eqb lg lg' = true ->
  match find_cond id lg, find_cond id lg' with
  | Some (_, s, sx), Some (_, s', sx') => s = s' /\ sx = sx'
  | None, None => True
  | _, _ => False
  end.
Proof.
  induction lg as [|x lg IH]; intros [|y lg'] H; cbn [list_eqb] in H; try discriminate; [exact I|].
  apply andb_true_iff in H. destruct H as [Hxy H]. specialize (IH lg' H).
  destruct x as [i1 v1 r1 s1|i1 v1 o1 s1], y as [i2 v2 r2 s2|i2 v2 o2 s2]; cbn [logitem_eqb] in Hxy; try discriminate; cbn [find_cond].
  - apply andb_true_iff in Hxy. destruct Hxy as [Hxy E3]. apply andb_true_iff in Hxy. destruct Hxy as [Hxy E2]. apply andb_true_iff in Hxy. destruct Hxy as [E0 E1].
    apply Z.eqb_eq in E0. subst i2. destruct (Z.eqb i1 id); [|exact IH]. split; [apply JudgeC13P.state_eqb_eq; exact E2 | apply A.seen_eqb_eq; exact E3].
  - exact IH.
Qed.
Lemma find_mod_rel2 id : forall lg lg', list_eqb logitem_eqb lg lg' = true ->
  match find_mod id lg, find_mod id lg' with
  | Some (vi, vo, sx), Some (vi', vo', sx') => veq vi vi' /\ veq vo vo' /\ sx = sx'
  | None, None => True
  | _, _ => False
  end.
Proof.
  induction lg as [|x lg IH]; intros [|y lg'] H; cbn [list_eqb] in H; try discriminate; [exact I|].
  apply andb_true_iff in H. destruct H as [Hxy H]. specialize (IH lg' H).
  destruct x as [i1 v1 r1 s1|i1 v1 o1 s1], y as [i2 v2 r2 s2|i2 v2 o2 s2]; cbn [logitem_eqb] in Hxy; try discriminate; cbn [find_mod].
  - exact IH.
  - apply andb_true_iff in Hxy. destruct Hxy as [Hxy E3]. apply andb_true_iff in Hxy. destruct Hxy as [Hxy E2]. apply andb_true_iff in Hxy. destruct Hxy as [E0 E1].
    apply Z.eqb_eq in E0. subst i2. destruct (Z.eqb i1 id); [|exact IH].
    split; [apply veqb_veq; exact E1|]. split; [apply veqb_veq; exact E2 | apply A.seen_eqb_eq; exact E3].
Qed.

(* ---- the snapshots ---- *)
Definition snap_eq (a b : snap) : Prop :=
  sn_state a = sn_state b /\ sn_events a = sn_events b /\ veq (sn_value a) (sn_value b) /\ (sn_elapsed a == sn_elapsed b)%Q /\ (sn_fired a == sn_fired b)%Q.
Lemma snap_eqb_iff a b : snap_eqb a b = true <-> snap_eq a b.
Proof.
  unfold snap_eqb, snap_eq. rewrite !andb_true_iff, JudgeC13P.state_eqb_eq, Z.eqb_eq, veqb_veq, !JudgeC18P.qeqb_iff. tauto.
Qed.
Lemma snap_eq_sym a b : snap_eq a b -> snap_eq b a.
Proof. intros (H1 & H2 & H3 & H4 & H5). repeat split; try (symmetry; assumption). apply JudgeC18P.veq_sym. exact H3. Qed.
Lemma snap_eq_trans a b c : snap_eq a b -> snap_eq b c -> snap_eq a c.
Proof.
  intros (H1 & H2 & H3 & H4 & H5) (K1 & K2 & K3 & K4 & K5). repeat split; try (etransitivity; eassumption). eapply JudgeC18P.veq_trans; eassumption.
Qed.
Lemma snap_eqb_compat a a' b b' : snap_eq a a' -> snap_eq b b' -> snap_eqb a b = snap_eqb a' b'.
Proof.
  intros Ha Hb. apply bool_eq_iff. rewrite !snap_eqb_iff. split; intros H.
  - eapply snap_eq_trans; [apply snap_eq_sym; exact Ha|]. eapply snap_eq_trans; eassumption.
  - eapply snap_eq_trans; [exact Ha|]. eapply snap_eq_trans; [exact H | apply snap_eq_sym; exact Hb].
Qed.
Definition osnap_eq (a b : option snap) : Prop := match a, b with Some x, Some y => snap_eq x y | None, None => True | _, _ => False end.
Lemma snap_of_entry_rel2 c e a : forall l l', list_eqb snap_entry_eqb l l' = true -> osnap_eq (snap_of_entry c e a l) (snap_of_entry c e a l').
Proof.
  unfold snap_of_entry. induction l as [|x l IH]; intros [|y l'] H; cbn [list_eqb] in H; try discriminate; [exact I|].
  apply andb_true_iff in H. destruct H as [Hxy H]. specialize (IH l' H).
  destruct x as [c1 e1 a1 s1], y as [c2 e2 a2 s2]. cbn [snap_entry_eqb] in Hxy.
  apply andb_true_iff in Hxy. destruct Hxy as [Hxy E3]. apply andb_true_iff in Hxy. destruct Hxy as [Hxy E2]. apply andb_true_iff in Hxy. destruct Hxy as [E0 E1].
  apply Z.eqb_eq in E0. apply Z.eqb_eq in E1. apply Z.eqb_eq in E2. subst c2 e2 a2. cbn [find].
  destruct (Z.eqb c c1 && Z.eqb e e1 && Z.eqb a a1); [|exact IH].
  destruct s1 as [d1|], s2 as [d2|]; cbn [osnap_eqb] in E3; try discriminate; [|exact I]. apply snap_eqb_iff. exact E3.
Qed.
Lemma snap_state_rel c e a l l' : list_eqb snap_entry_eqb l l' = true ->
  option_map sn_state (snap_of_entry c e a l) = option_map sn_state (snap_of_entry c e a l').
Proof.
  intros H. pose proof (snap_of_entry_rel2 c e a l l' H) as R.
  destruct (snap_of_entry c e a l), (snap_of_entry c e a l'); cbn [osnap_eq] in R; try contradiction; [|reflexivity].
  destruct R as (R & _). cbn. rewrite R. reflexivity.
Qed.

(* ---- events, built instances ---- *)
Lemma evkind_eqb_eq a b : evkind_eqb a b = true -> a = b.
Proof. destruct a, b; cbn; intros H; try discriminate; reflexivity. Qed.
Lemma events_kinds_rel e a : forall l l', list_eqb event_eqb l l' = true -> map e_kind (events_for e a l) = map e_kind (events_for e a l').
Proof.
  unfold events_for. induction l as [|x l IH]; intros [|y l'] H; cbn [list_eqb] in H; try discriminate; [reflexivity|].
  apply andb_true_iff in H. destruct H as [Hxy H]. specialize (IH l' H). cbn [filter].
  unfold event_eqb in Hxy. repeat (apply andb_true_iff in Hxy; let H' := fresh "E" in destruct Hxy as [Hxy H']).
  apply Z.eqb_eq in Hxy. apply Z.eqb_eq in E4. apply evkind_eqb_eq in E3. rewrite Hxy, E4.
  destruct (Z.eqb (e_target y) e && Z.eqb (e_action y) a); cbn [map]; rewrite ?E3, IH; reflexivity.
Qed.
Lemma existsb_iff {X} (f : X -> bool) l l' : (forall p, In p l <-> In p l') -> existsb f l = existsb f l'.
Proof.
  intros H. apply bool_eq_iff. rewrite !existsb_exists. split; intros (x & Hx & Hf); exists x; (split; [apply H; exact Hx | exact Hf]).
Qed.

(* ================================================================================================ *)
(* 2. the main judgement                                                                            *)
(* ================================================================================================ *)
Lemma forallb_ext' {X} (f g : X -> bool) l : (forall x, f x = g x) -> forallb f l = forallb g l.
Proof. intros H. induction l as [|x l IH]; [reflexivity|]. cbn [forallb]. rewrite H, IH. reflexivity. Qed.

Lemma got_of_rel c e a b : orel a b -> C13c.got_of c e a = C13c.got_of c e b.
Proof. intros ((_ & Hm & _) & _). unfold C13c.got_of. rewrite Hm. reflexivity. Qed.

Lemma judge_instance_rel c e bs before before' o o' : orel before before' -> orel o o' ->
  judge_instance c e bs before o = judge_instance c e bs before' o'.
Proof.
  intros (_ & Hsb) ((Hlog & _) & Hso). unfold judge_instance. f_equal. apply map_ext. intros [j b]. f_equal. apply map_ext. intros [id oc].
  pose proof (find_cond_rel2 id _ _ Hlog) as Rc. pose proof (find_mod_rel2 id _ _ Hlog) as Rm.
  assert (Hnow : forall a, option_map sn_state (snap_of_entry c e a (x_snaps o)) = option_map sn_state (snap_of_entry c e a (x_snaps o')))
    by (intros a; apply snap_state_rel; exact Hso).
  assert (Hprev : forall a, match snap_of_entry c e a (x_snaps before) with Some s => Some (sn_state s) | None => Some SNone end =
                            match snap_of_entry c e a (x_snaps before') with Some s => Some (sn_state s) | None => Some SNone end).
  { intros a. pose proof (snap_state_rel c e a _ _ Hsb) as R.
    destruct (snap_of_entry c e a (x_snaps before)), (snap_of_entry c e a (x_snaps before')); cbn in R; congruence. }
  destruct (find_cond id (x_log o)) as [[[v res] sx]|], (find_cond id (x_log o')) as [[[v' res'] sx']|]; try contradiction.
  - destruct Rc as [<- <-]. f_equal. f_equal. apply forallb_ext'. intros [i b']. rewrite Hnow, Hprev. reflexivity.
  - destruct (find_mod id (x_log o)) as [[[vi vo] sx]|], (find_mod id (x_log o')) as [[[vi' vo'] sx']|]; try contradiction; [|reflexivity].
    destruct Rm as (_ & _ & <-). f_equal. f_equal. apply forallb_ext'. intros [i b']. rewrite Hnow, Hprev. reflexivity.
Qed.

Lemma blockby_results_rel eo b lg lg' : list_eqb logitem_eqb lg lg' = true -> blockby_results eo b lg = blockby_results eo b lg'.
Proof.
  intros H. unfold blockby_results.
  induction (ab_conds b) as [|[id c0] l IH]; [reflexivity|]. cbn [flat_map fst snd]. rewrite IH. f_equal.
  destruct c0; try reflexivity. destruct (Bool.eqb events_only eo); [|reflexivity].
  pose proof (find_cond_rel2 id _ _ H) as R.
  destruct (find_cond id lg) as [[[v r] sx]|], (find_cond id lg') as [[[v' r'] sx']|]; try contradiction; [|reflexivity]. destruct R as [<- _]. reflexivity.
Qed.

Lemma judge_blockers_rel c e bs before before' o o' : orel before before' -> srel true o o' ->
  judge_blockers c e bs before o = judge_blockers c e bs before' o'.
Proof.
  intros (_ & Hsb) (((Hlog & _) & Hso) & Hev). specialize (Hev eq_refl). unfold judge_blockers.
  induction bs as [|b bs IH]; [reflexivity|]. cbn [flat_map]. rewrite IH. f_equal.
  pose proof (snap_of_entry_rel2 c e (ab_id b) _ _ Hso) as Ro. pose proof (snap_state_rel c e (ab_id b) _ _ Hsb) as Rb.
  rewrite (events_kinds_rel e (ab_id b) _ _ Hev), !(blockby_results_rel _ b _ _ Hlog).
  destruct (snap_of_entry c e (ab_id b) (x_snaps o)) as [s|], (snap_of_entry c e (ab_id b) (x_snaps o')) as [s'|]; cbn [osnap_eq] in Ro; try contradiction; [|reflexivity].
  destruct Ro as (Rs & _). rewrite Rs.
  assert (Ep : match snap_of_entry c e (ab_id b) (x_snaps before) with Some s0 => sn_state s0 | None => SNone end =
               match snap_of_entry c e (ab_id b) (x_snaps before') with Some s0 => sn_state s0 | None => SNone end).
  { destruct (snap_of_entry c e (ab_id b) (x_snaps before)), (snap_of_entry c e (ab_id b) (x_snaps before')); cbn in Rb; congruence. }
  rewrite Ep. reflexivity.
Qed.

Lemma order_ok_rel bs o o' : orel o o' -> order_ok bs o = order_ok bs o'.
Proof. intros ((Hlog & _) & _). unfold order_ok. rewrite (JudgeC12P.list_eqb_log_ids _ _ Hlog). reflexivity. Qed.

Lemma touched_by_rel c e o o' : orel o o' -> touched_by c e o = touched_by c e o'.
Proof. intros ((_ & _ & _ & Hb) & _). unfold touched_by. destruct (ctx_shared c); apply existsb_iff; exact Hb. Qed.

Lemma ops_leave_others_rel before before' o o' : orel before before' -> orel o o' -> ops_leave_others before o = ops_leave_others before' o'.
Proof.
  intros (_ & Hsb) Ho. unfold ops_leave_others. pose proof Ho as (_ & Hso). revert Hsb. generalize (x_snaps before) (x_snaps before').
  induction l as [|x l IH]; intros [|y l'] H; cbn [list_eqb] in H; try discriminate; [reflexivity|].
  apply andb_true_iff in H. destruct H as [Hxy H]. cbn [forallb]. rewrite (IH l' H). f_equal.
  destruct x as [c1 e1 a1 s1], y as [c2 e2 a2 s2]. cbn [snap_entry_eqb] in Hxy.
  apply andb_true_iff in Hxy. destruct Hxy as [Hxy E3]. apply andb_true_iff in Hxy. destruct Hxy as [Hxy E2]. apply andb_true_iff in Hxy. destruct Hxy as [E0 E1].
  apply Z.eqb_eq in E0. apply Z.eqb_eq in E1. apply Z.eqb_eq in E2. subst c2 e2 a2.
  destruct s1 as [d1|], s2 as [d2|]; cbn [osnap_eqb] in E3; try discriminate; [|reflexivity]. apply snap_eqb_iff in E3.
  rewrite (touched_by_rel c1 e1 o o' Ho). f_equal. pose proof (snap_of_entry_rel2 c1 e1 a1 _ _ Hso) as R.
  destruct (snap_of_entry c1 e1 a1 (x_snaps o)) as [d|], (snap_of_entry c1 e1 a1 (x_snaps o')) as [d'|]; cbn [osnap_eq] in R; try contradiction; [|reflexivity].
  apply snap_eqb_compat; assumption.
Qed.

Lemma panicked_rel a b : orel a b -> x_panicked a = x_panicked b.
Proof. intros ((_ & _ & H & _) & _). exact H. Qed.

Lemma judge_steps_rel sc : forall steps a b before before', orel before before' -> steps_rel steps a b ->
  judge_steps sc before steps a = judge_steps sc before' steps b.
Proof.
  induction steps as [|st steps IH]; intros a b before before' Hb Hr.
  - destruct a, b; cbn [steps_rel] in Hr; try contradiction; reflexivity.
  - destruct a as [|x a], b as [|y b]; cbn [steps_rel] in Hr; try contradiction; [destruct st; reflexivity|].
    destruct Hr as [Hxy Hr]. cbn [tl] in Hr. pose proof Hxy as [Ho _].
    destruct st as [op|f]; cbn [judge_steps is_frame] in *.
    + rewrite (panicked_rel x y Ho), (ops_leave_others_rel before before' x y Hb Ho), (IH a b x y Ho Hr). reflexivity.
    + rewrite (panicked_rel x y Ho), (IH a b x y Ho Hr). f_equal. f_equal.
      induction (s_cfg sc) as [|[[c e] spec] l IHl]; [reflexivity|]. cbn [flat_map]. rewrite IHl. f_equal.
      rewrite (got_of_rel c e before before' Hb). destruct (C13c.got_of c e before'); [|reflexivity].
      rewrite (order_ok_rel _ x y Ho), (judge_instance_rel c e _ before before' x y Hb Ho), (judge_blockers_rel c e _ before before' x y Hb Hxy). reflexivity.
Qed.

(* ================================================================================================ *)
(* 3. the AccumulateBy law and the missed-frame test                                                *)
(* ================================================================================================ *)
Definition qrel (p p' : list Q) : Prop := Forall2 Qeq p p'.
Definition memrel (m m' : list (list Q)) : Prop := Forall2 qrel m m'.
Lemma qrel_refl p : qrel p p.
Proof. induction p; constructor; [reflexivity | assumption]. Qed.
Lemma memrel_refl m : memrel m m.
Proof. induction m; constructor; [apply qrel_refl | assumption]. Qed.

Lemma veqb_compat a a' b b' : veq a a' -> veq b b' -> veqb a b = veqb a' b'.
Proof.
  intros Ha Hb. apply bool_eq_iff. rewrite !veqb_veq. split; intros H.
  - eapply JudgeC18P.veq_trans; [apply JudgeC18P.veq_sym; exact Ha|]. eapply JudgeC18P.veq_trans; eassumption.
  - eapply JudgeC18P.veq_trans; [exact Ha|]. eapply JudgeC18P.veq_trans; [exact H | apply JudgeC18P.veq_sym; exact Hb].
Qed.
Lemma ax3_rel v v' : veq v v' -> qrel (ax3 v) (ax3 v').
Proof.
  intros H. apply JudgeC18P.veq_as3 in H. unfold ax3. destruct (as3 v) as [[x y] z], (as3 v') as [[x' y'] z']. cbn [v3eq] in H. destruct H as (H1 & H2 & H3).
  repeat constructor; assumption.
Qed.
Lemma acc_next_rel p p' v v' rs : qrel p p' -> veq v v' -> qrel (JudgeC18P.acc_next p v rs) (JudgeC18P.acc_next p' v' rs).
Proof.
  intros Hp Hv. unfold JudgeC18P.acc_next. destruct (state_eqb rs SFired); [|apply ax3_rel; exact Hv].
  pose proof (ax3_rel v v' Hv) as Ha. revert Ha. generalize (ax3 v) (ax3 v'). induction Hp as [|x x' p p' Hx Hp IH]; intros l l' Ha; [constructor|].
  destruct Ha as [|y y' l l' Hy Ha]; cbn [combine map]; constructor; [cbn [fst snd]; rewrite Hx, Hy; reflexivity | apply IH; exact Ha].
Qed.
Lemma existsb_qnz_rel p p' : qrel p p' -> existsb qnz p = existsb qnz p'.
Proof. induction 1 as [|x x' p p' Hx Hp IH]; [reflexivity|]. cbn [existsb]. rewrite (JudgeC03P.qnz_compat x x' Hx), IH. reflexivity. Qed.
Lemma firstn_rel n p p' : qrel p p' -> qrel (firstn n p) (firstn n p').
Proof. intros H. revert n. induction H as [|x x' p p' Hx Hp IH]; intros [|n]; cbn [firstn]; try constructor; [exact Hx | apply IH]. Qed.
Lemma acc_expect_rel l l' v v' o o' : qrel l l' -> veq v v' -> veq o o' -> veq (JudgeC18P.acc_expect l v o) (JudgeC18P.acc_expect l' v' o').
Proof.
  intros Hl Hv Ho. unfold JudgeC18P.acc_expect. rewrite <- (JudgeC18P.veq_dim v v' Hv).
  destruct (vdim v); [cbn [veq]; apply existsb_qnz_rel; exact Hl| | |];
    match goal with |- context [firstn ?n l] => pose proof (firstn_rel n l l' Hl) as Hf; destruct Hf as [|x x' ? ? Hx Hf]; [exact Ho|];
      destruct Hf as [|y y' ? ? Hy Hf]; [exact Hx|]; destruct Hf as [|z z' ? ? Hz Hf]; [split; assumption|];
      destruct Hf; [repeat split; assumption | exact Ho] end.
Qed.

Definition is_accm (x : Z * Z * Z * modif) : Prop := match snd x with MAccumulate _ _ => True | _ => False end.

Lemma jstep_one_rel st o o' x p p' : is_accm x -> srel (is_frame st) o o' -> qrel p p' ->
  fst (A.jstep_one o st (x, p)) = fst (A.jstep_one o' st (x, p')) /\ qrel (snd (A.jstep_one o st (x, p))) (snd (A.jstep_one o' st (x, p'))).
Proof.
  intros Hx (((Hlog & _ & _ & Hb) & _) & _) Hp. destruct x as [[[c e] id] m]. unfold is_accm in Hx. cbn [snd] in Hx. destruct m; try contradiction.
  unfold A.jstep_one.
  rewrite (existsb_iff (fun q => Z.eqb (fst q) c && (Z.eqb (snd q) e || ctx_shared c)) _ _ Hb).
  set (P := if existsb _ (x_built o') then [0; 0; 0]%Q else p). set (P' := if existsb _ (x_built o') then [0; 0; 0]%Q else p').
  assert (HP : qrel P P') by (unfold P, P'; destruct (existsb _ (x_built o')); [apply qrel_refl | exact Hp]).
  pose proof (find_mod_rel2 id _ _ Hlog) as R.
  destruct st as [op|f]; [destruct (find_mod id (x_log o)) as [[[? ?] ?]|], (find_mod id (x_log o')) as [[[? ?] ?]|]; split; try reflexivity; exact HP|].
  destruct (find_mod id (x_log o)) as [[[vi vo] sx]|], (find_mod id (x_log o')) as [[[vi' vo'] sx']|]; try contradiction; [|split; [reflexivity | exact HP]].
  destruct R as (Rvi & Rvo & <-). destruct (find (fun q => Z.eqb (fst q) a) sx) as [[k rs]|].
  - rewrite !JudgeC18P.ok_acc_present. cbn [fst snd ok_acc]. split.
    + f_equal. f_equal. apply veqb_compat; [exact Rvo|]. apply acc_expect_rel; [apply acc_next_rel; assumption | exact Rvi | exact Rvo].
    + exact (acc_next_rel P P' vi vi' rs HP Rvi).
  - cbn [fst snd]. split; [f_equal; f_equal; apply veqb_compat; assumption | exact HP].
Qed.

Lemma upd_rel (g g' : (Z * Z * Z * modif) * list Q -> list (Z * bool) * list Q) : forall mods mem mem', memrel mem mem' ->
  (forall x p p', In x mods -> qrel p p' -> fst (g (x, p)) = fst (g' (x, p')) /\ qrel (snd (g (x, p))) (snd (g' (x, p')))) ->
  map fst (map g (combine mods mem)) = map fst (map g' (combine mods mem')) /\
  memrel (map snd (map g (combine mods mem))) (map snd (map g' (combine mods mem'))).
Proof.
  induction mods as [|x mods IH]; intros mem mem' Hm Hg; [split; [reflexivity | constructor]|].
  destruct Hm as [|p p' mem mem' Hp Hm]; cbn [combine map]; [split; [reflexivity | constructor]|].
  destruct (IH mem mem' Hm) as [I1 I2]; [intros y q q' Hy; apply Hg; right; exact Hy|].
  destruct (Hg x p p' (or_introl eq_refl) Hp) as [G1 G2]. split; [rewrite G1, I1; reflexivity | constructor; assumption].
Qed.

Lemma judge_steps_a_rel mods : Forall is_accm mods -> forall steps a b mem mem', memrel mem mem' -> steps_rel steps a b ->
  judge_steps_a mods mem steps a = judge_steps_a mods mem' steps b.
Proof.
  intros Hacc. induction steps as [|st steps IH]; intros a b mem mem' Hm Hr.
  - destruct a, b; cbn [steps_rel] in Hr; try contradiction; reflexivity.
  - destruct a as [|x a], b as [|y b]; cbn [steps_rel] in Hr; try contradiction; [reflexivity|].
    destruct Hr as [Hxy Hr]. cbn [tl] in Hr. rewrite !A.judge_steps_a_cons.
    destruct (upd_rel (A.jstep_one x st) (A.jstep_one y st) mods mem mem' Hm) as [U1 U2].
    { intros z p p' Hz Hp. rewrite Forall_forall in Hacc. exact (jstep_one_rel st x y z p p' (Hacc z Hz) Hxy Hp). }
    pose proof Hxy as [Ho _]. rewrite (panicked_rel x y Ho), U1, (IH a b _ _ U2 Hr). reflexivity.
Qed.

Lemma judge_missed_rel sites : forall steps a b before before', orel before before' -> steps_rel steps a b ->
  judge_missed sites before steps a = judge_missed sites before' steps b.
Proof.
  induction steps as [|st steps IH]; intros a b before before' Hb Hr.
  - destruct a, b; cbn [steps_rel] in Hr; try contradiction; reflexivity.
  - destruct a as [|x a], b as [|y b]; cbn [steps_rel] in Hr; try contradiction; [destruct st; reflexivity|].
    destruct Hr as [Hxy Hr]. cbn [tl] in Hr. pose proof Hxy as [Ho _].
    destruct st as [op|f].
    + rewrite !A.judge_missed_op. apply IH; assumption.
    + rewrite !A.judge_missed_frame, (IH a b x y Ho Hr). f_equal. apply map_ext. intros [[[[[c e] id] m] site] dev].
      destruct Hb as ((_ & Hmir & _) & _). unfold present_in. rewrite Hmir, (panicked_rel x y Ho).
      destruct Ho as ((Hlog & _) & _). pose proof (find_mod_rel2 id _ _ Hlog) as R.
      destruct (find_mod id (x_log x)) as [[[? ?] ?]|], (find_mod id (x_log y)) as [[[? ?] ?]|]; try contradiction; reflexivity.
Qed.

(* ================================================================================================ *)
(* 4. the theorems                                                                                  *)
(* ================================================================================================ *)
Theorem C13_judgement_respects_agree : forall sc t, agree_full (sc, t) = true -> C13c.ok (sc, t) = C13c.ok (sc, trace (run sc)).
Proof.
  intros sc t Ha. unfold agree_full in Ha. cbn [fst snd] in Ha. apply Z.eqb_eq in Ha.
  destruct t as [outs|]; [|discriminate]. cbn [trace_diff] in Ha.
  pose proof (outs_diff_steps_rel (ctx_key sc) (run sc) outs 0 (s_steps sc) (Z.le_refl 0) Ha) as Hr.
  pose proof (judge_steps_rel sc (s_steps sc) (run sc) outs _ _ orel_refl_out0 Hr) as E1. unfold JudgeC13P.out0 in E1.
  pose proof (judge_missed_rel (mod_sites sc) (s_steps sc) (run sc) outs empty_out empty_out orel_refl_out0 Hr) as E2.
  assert (Hacc : Forall is_accm (filter (fun x : Z * Z * Z * modif => match snd x with MAccumulate _ _ => true | _ => false end) (all_mods sc))).
  { apply Forall_forall. intros x Hx. apply filter_In in Hx. destruct Hx as [_ Hx]. unfold is_accm. destruct (snd x); try discriminate. exact I. }
  pose proof (judge_steps_a_rel _ Hacc (s_steps sc) (run sc) outs _ _
                (memrel_refl (map (fun _ => [0; 0; 0]%Q) (filter (fun x : Z * Z * Z * modif => match snd x with MAccumulate _ _ => true | _ => false end) (all_mods sc)))) Hr) as E3.
  unfold C13c.ok, accumulate_ok. rewrite <- E1, <- E2, <- E3. reflexivity.
Qed.

Theorem C13_app_judgement_transfer : forall sc t, JudgeC13bP.profile_C13 sc -> agree_full (sc, t) = true -> C13c.ok (sc, t) = 0.
Proof. intros sc t Hp Ha. rewrite (C13_judgement_respects_agree sc t Ha). exact (JudgeC13bP.C13_app_judgement_sound sc Hp). Qed.

(* the transfer theorem applies to a trace that differs from the model's run (values logged as unreduced fractions) *)
Example C13_app_judgement_transfer_satisfiable :
  let sc := JudgeC13P.ex_sc [] in
  let t := trace (map JudgeC03P.unreduce_out (run sc)) in
  JudgeC13bP.profile_C13b sc = true /\ agree_full (sc, t) = true /\ t <> trace (run sc) /\ C13c.ok (sc, t) = 0.
Proof. vm_compute. repeat split. discriminate. Qed.

Print Assumptions C13_judgement_respects_agree.
Print Assumptions C13_app_judgement_transfer.
