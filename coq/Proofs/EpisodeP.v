From BEI Require Import Model.Action Spec.Events Spec.Episode Proofs.StateP Proofs.ValueP.
Open Scope Z_scope.

Lemma frame_chunk_table p c : frame_chunk (acc_of p) (table p c) = Some (acc_of c).
Proof. destruct p, c; reflexivity. Qed.
Lemma close_chunk_table p : close_chunk (acc_of p) (table p SNone) = true.
Proof. destruct p; reflexivity. Qed.

Definition final_state (p : state) (h : list state) : state := fold_left (fun _ c => c) h p.
Lemma history_accepted h : forall p, accepts (acc_of p) (chunks_of p h) = Some (acc_of (final_state p h)).
Proof.
  induction h as [|c r IH]; intros p; simpl; [reflexivity|].
  rewrite frame_chunk_table. apply IH.
Qed.

(* nothing is delivered while the action rests in None, and an episode cannot end twice *)
Lemma idle_quiet : frame_chunk Idle (table SNone SNone) = Some Idle /\ table SNone SNone = [].
Proof. split; reflexivity. Qed.

(* trigger_removed for one action: the closing chunk, zero value, state None, one per recipient *)
Lemma removal_events a d dt recips :
  vdim (vzero (aid_dim a)) = aid_dim a ->
  let d' := data_update dt d SNone (vzero (aid_dim a)) in
  emit (aid_dim a) a d' recips = Some (flat_map (fun k => map (mk_event a d' k) recips) (table (d_state d) SNone)) /\
  close_chunk (acc_of (d_state d)) (table (d_state d) SNone) = true /\
  d_state d' = SNone /\ d_value d' = vzero (aid_dim a).
Proof.
  intros Hd d'. split.
  - rewrite emit_some.
    + destruct (data_update_fields dt d SNone (vzero (aid_dim a))) as (_ & _ & Ht). fold d' in Ht. rewrite Ht. reflexivity.
    + destruct (data_update_fields dt d SNone (vzero (aid_dim a))) as (_ & Hv & _). fold d' in Hv. rewrite Hv. exact Hd.
  - split; [apply close_chunk_table|]. destruct (data_update_fields dt d SNone (vzero (aid_dim a))) as (Hs & Hv & _). split; assumption.
Qed.
Lemma vdim_vzero d : vdim (vzero d) = d.
Proof. destruct d; reflexivity. Qed.

(* trigger_removed never touches the instance: it works on copies *)
Lemma trigger_removed_pure tm recips i : exists evs, trigger_removed tm recips i = evs.
Proof. eexists; reflexivity. Qed.
